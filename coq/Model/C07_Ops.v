(* C07 — op sequences over the heap model and the canonical deep snapshot (no proofs here).
   The same ops are executed on the real prelude by harness/js/c07_driver.js. *)
From Coq Require Import List ZArith Bool Arith.
From Verif Require Import Model.C07_Heap.
Import ListNotations.
Local Open Scope Z_scope.

Inductive item := IZ (z : Z) | IR (r : nat) (p : list nat).

Inductive op :=
| OZero (t : ty)
| OClone (r : nat) (p : list nat)
| OCopy (rd : nat) (pd : list nat) (rs : nat) (ps : list nat)
| OWrite (r : nat) (p : list nat) (z : Z)
| ONil (t : ty)
| OMake (t : ty) (len cap : Z)
| OSliceOf (r : nat) (p : list nat)
| OSubslice (s : nat) (lo : Z) (hi mx : option Z)
| OAppend (s : nat) (items : list item)
| OAppendSlice (a b : nat)
| OCopySlice (d s : nat)
| OSWrite (s i : nat) (p : list nat) (z : Z)
| OSGet (s i : nat)
| OSSet (s i : nat) (r : nat) (p : list nat)
| OArrFromSlice (r : nat) (p : list nat) (s : nat).

Inductive status := StOk | StErr | StSkip | StN (n : Z) | StStuck.

Record state := mkState { st_heap : heap; st_v : list (ty * val); st_s : list (ty * slice) }.
Definition init_state : state := mkState empty_heap [] [].

(* where a value lives: a register or a cell of a heap object *)
Inductive place := PReg (r : nat) | PCell (l i : nat).

Definition field_ty (t : ty) (i : nat) : option ty :=
  match t with
  | TArr _ e => Some e
  | TStruct fs => nth_error fs i
  | _ => None
  end.

(* follow a path of array indices / field numbers through value nodes *)
Fixpoint resolve (h : heap) (t : ty) (pl : place) (v : val) (p : list nat) : option (ty * place * val) :=
  match p with
  | [] => Some (t, pl, v)
  | i :: r =>
      match field_ty t i, v with
      | Some t', VLoc l => match get_cell h l i with Some v' => resolve h t' (PCell l i) v' r | None => None end
      | _, _ => None
      end
  end.

Definition vplace (st : state) (r : nat) (p : list nat) : option (ty * place * val) :=
  match nth_error (st_v st) r with
  | Some (t, v) => resolve (st_heap st) t (PReg r) v p
  | None => None
  end.

Definition write_place (st : state) (pl : place) (v : val) : option state :=
  match pl with
  | PReg r => match nth_error (st_v st) r with
              | Some (t, _) => match set_nth (st_v st) r (t, v) with
                               | Some vs => Some (mkState (st_heap st) vs (st_s st)) | None => None end
              | None => None end
  | PCell l i => match set_cell (st_heap st) l i v with
                 | Some h => Some (mkState h (st_v st) (st_s st)) | None => None end
  end.

Definition with_heap (st : state) (h : heap) : state := mkState h (st_v st) (st_s st).
Definition push_v (st : state) (h : heap) (t : ty) (v : val) : state := mkState h (st_v st ++ [(t, v)]) (st_s st).
Definition push_s (st : state) (h : heap) (t : ty) (s : slice) : state := mkState h (st_v st) (st_s st ++ [(t, s)]).

(* pass a value the way the translator does: array/struct values are $clone'd, leaves are passed as they are *)
Definition pass_value (t : ty) (h : heap) (v : val) : option (val * heap) :=
  if is_node t then clone t h v else Some (v, h).

(* assign into an existing place: T.copy(dst, src) for array/struct, plain store for leaves *)
Definition assign_place (st : state) (t : ty) (pl : place) (dv sv : val) : option state :=
  if is_node t then match copy t (st_heap st) dv sv with Some h => Some (with_heap st h) | None => None end
  else write_place st pl sv.

Definition elem_index (s : slice) (i : nat) : nat := Z.to_nat (soff s + Z.of_nat i mod slen s).

Fixpoint eval_items (st : state) (e : ty) (h : heap) (its : list item) : option (list val * heap) :=
  match its with
  | [] => Some ([], h)
  | IZ z :: r => match eval_items st e h r with Some (vs, h') => Some (VNum z :: vs, h') | None => None end
  | IR rg p :: r =>
      match vplace (with_heap st h) rg p with
      | Some (t, _, v) =>
          match pass_value t h v with
          | Some (v', h1) => match eval_items st e h1 r with Some (vs, h') => Some (v' :: vs, h') | None => None end
          | None => None
          end
      | None => None
      end
  end.

Definition stuck (st : state) : state * status := (st, StStuck).

Definition step (st : state) (o : op) : state * status :=
  let h := st_heap st in
  match o with
  | OZero t => let '(v, h1) := zero t h in (push_v st h1 t v, StOk)
  | OClone r p =>
      match vplace st r p with
      | Some (t, _, v) => match pass_value t h v with Some (c, h1) => (push_v st h1 t c, StOk) | None => stuck st end
      | None => stuck st
      end
  | OCopy rd pd rs ps =>
      match vplace st rd pd, vplace st rs ps with
      | Some (t, pl, dv), Some (_, _, sv) =>
          match assign_place st t pl dv sv with Some st' => (st', StOk) | None => stuck st end
      | _, _ => stuck st
      end
  | OWrite r p z =>
      match vplace st r p with
      | Some (_, pl, _) => match write_place st pl (VNum z) with Some st' => (st', StOk) | None => stuck st end
      | None => stuck st
      end
  | ONil t => (push_s st h t SNil, StOk)
  | OMake t len cap =>
      match make_slice t h len cap with
      | Some (s, h1) => (push_s st h1 t s, StOk)
      | None => (push_s st h t SNil, StErr)
      end
  | OSliceOf r p =>
      match vplace st r p with
      | Some (TArr _ e, _, VLoc l) =>
          match lookup h l with
          | Some (OArr _ c) => (push_s st h e (SHdr l 0 (Z.of_nat (length c)) (Z.of_nat (length c))), StOk)
          | _ => stuck st
          end
      | _ => stuck st
      end
  | OSubslice s lo hi mx =>
      match nth_error (st_s st) s with
      | Some (e, sl) =>
          match subslice sl lo hi mx with
          | Some sl' => (push_s st h e sl', StOk)
          | None => (push_s st h e SNil, StErr)
          end
      | None => stuck st
      end
  | OAppend s its =>
      match nth_error (st_s st) s with
      | Some (e, sl) =>
          match eval_items st e h its with
          | Some (vs, h1) =>
              match append_vals e h1 sl vs with Some (sl', h2) => (push_s st h2 e sl', StOk) | None => stuck st end
          | None => stuck st
          end
      | None => stuck st
      end
  | OAppendSlice a b =>
      match nth_error (st_s st) a, nth_error (st_s st) b with
      | Some (e, sa), Some (_, sb) =>
          match append_slice e h sa sb with Some (sl', h1) => (push_s st h1 e sl', StOk) | None => stuck st end
      | _, _ => stuck st
      end
  | OCopySlice d s =>
      match nth_error (st_s st) d, nth_error (st_s st) s with
      | Some (e, sd), Some (_, ss) =>
          match copy_slice e h sd ss with Some (n, h1) => (with_heap st h1, StN n) | None => stuck st end
      | _, _ => stuck st
      end
  | OSWrite s i p z =>
      match nth_error (st_s st) s with
      | Some (e, SHdr a o l c) =>
          if l =? 0 then (st, StSkip) else
          let k := elem_index (SHdr a o l c) i in
          match get_cell h a k with
          | Some v =>
              match resolve h e (PCell a k) v p with
              | Some (_, pl, _) => match write_place st pl (VNum z) with Some st' => (st', StOk) | None => stuck st end
              | None => stuck st
              end
          | None => stuck st
          end
      | Some (_, SNil) => (st, StSkip)
      | None => stuck st
      end
  | OSGet s i =>
      match nth_error (st_s st) s with
      | Some (e, SHdr a o l c) =>
          if l =? 0 then let '(v, h1) := zero e h in (push_v st h1 e v, StSkip) else
          match get_cell h a (elem_index (SHdr a o l c) i) with
          | Some v => match pass_value e h v with Some (c', h1) => (push_v st h1 e c', StOk) | None => stuck st end
          | None => stuck st
          end
      | Some (e, SNil) => let '(v, h1) := zero e h in (push_v st h1 e v, StSkip)
      | None => stuck st
      end
  | OSSet s i r p =>
      match nth_error (st_s st) s with
      | Some (e, SHdr a o l c) =>
          if l =? 0 then (st, StSkip) else
          let k := elem_index (SHdr a o l c) i in
          match get_cell h a k, vplace st r p with
          | Some dv, Some (_, _, sv) =>
              match assign_place st e (PCell a k) dv sv with Some st' => (st', StOk) | None => stuck st end
          | _, _ => stuck st
          end
      | Some (_, SNil) => (st, StSkip)
      | None => stuck st
      end
  | OArrFromSlice r p s =>
      match vplace st r p, nth_error (st_s st) s with
      | Some (TArr _ e, _, VLoc l), Some (_, sl) =>
          match copy_arr_from_slice e h l sl with
          | Done h1 => (with_heap st h1, StOk)
          | Err => (st, StErr)
          | Stuck => stuck st
          end
      | _, _ => stuck st
      end
  end.

Fixpoint run (st : state) (ops : list op) : state * list status :=
  match ops with
  | [] => (st, [])
  | o :: r => let '(st1, s) := step st o in let '(st2, ss) := run st1 r in (st2, s :: ss)
  end.

(* ---------------------------------------------------------------- canonical snapshot *)

(* node kinds: 0 = Array, 1 = typed array, 2 = struct object *)
Inductive snap := SLeaf (z : Z) | SSeen (id : nat) | SNode (id kind : nat) (es : list snap) | SBad.
Inductive ssnap := SSNil | SSl (a : snap) (off len cap : Z) | SSBad.

Definition visited := list (nat * nat).

Fixpoint snap_list (f : visited -> val -> snap * visited) (vs : list val) (vis : visited) : list snap * visited :=
  match vs with
  | [] => ([], vis)
  | v :: r => let '(s, vis1) := f vis v in let '(ss, vis2) := snap_list f r vis1 in (s :: ss, vis2)
  end.

(* snapshot of an array object whose elements have the snapshot function [f] *)
Definition snap_arr (f : visited -> val -> snap * visited) (h : heap) (vis : visited) (l : nat) : snap * visited :=
  match assoc vis l with
  | Some id => (SSeen id, vis)
  | None =>
      let id := length vis in
      let vis1 := (l, id) :: vis in
      match lookup h l with
      | Some (OArr typed cells) => let '(es, vis2) := snap_list f cells vis1 in (SNode id (if typed then 1 else 0)%nat es, vis2)
      | _ => (SBad, vis1)
      end
  end.

Fixpoint snap_of (t : ty) (h : heap) (vis : visited) (v : val) {struct t} : snap * visited :=
  match t with
  | TNum | TScalar | TRef => (match v with VNum z => SLeaf z | VLoc _ => SBad end, vis)
  | TArr _ e => match v with VLoc l => snap_arr (snap_of e h) h vis l | _ => (SBad, vis) end
  | TStruct fs =>
      match v with
      | VLoc l =>
          match assoc vis l with
          | Some id => (SSeen id, vis)
          | None =>
              let id := length vis in
              let vis1 := (l, id) :: vis in
              match lookup h l with
              | Some (OStruct cells) =>
                  let '(es, vis2) :=
                    (fix sf (fs : list ty) (cells : list val) (vis : visited) : list snap * visited :=
                       match fs, cells with
                       | f :: fr, c :: cr =>
                           let '(s, vis1) := snap_of f h vis c in
                           let '(ss, vis2) := sf fr cr vis1 in (s :: ss, vis2)
                       | [], [] => ([], vis)
                       | _, _ => ([SBad], vis)
                       end) fs cells vis1 in
                  (SNode id 2%nat es, vis2)
              | _ => (SBad, vis1)
              end
          end
      | _ => (SBad, vis)
      end
  end.

Fixpoint snap_vregs (h : heap) (rs : list (ty * val)) (vis : visited) : list snap * visited :=
  match rs with
  | [] => ([], vis)
  | (t, v) :: r => let '(s, vis1) := snap_of t h vis v in let '(ss, vis2) := snap_vregs h r vis1 in (s :: ss, vis2)
  end.

Fixpoint snap_sregs (h : heap) (rs : list (ty * slice)) (vis : visited) : list ssnap :=
  match rs with
  | [] => []
  | (e, SNil) :: r => SSNil :: snap_sregs h r vis
  | (e, SHdr a o l c) :: r =>
      let '(s, vis1) := snap_arr (snap_of e h) h vis a in SSl s o l c :: snap_sregs h r vis1
  end.

Definition snapshot (st : state) : list snap * list ssnap :=
  let '(vs, vis) := snap_vregs (st_heap st) (st_v st) [] in
  (vs, snap_sregs (st_heap st) (st_s st) vis).
