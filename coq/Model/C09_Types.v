(* C09 - executable model of GopherJS run-time types (compiler/prelude/types.js, prelude.js).
   No proofs here.  Two sides:
     SPEC  : Go's rules on type terms  - [identical], [spec_mset], [spec_implements], [spec_iface_eq]
     IMPL  : transliteration of the JS - [canon] ($arrayType .. $structType with their typeKey strings and
             caches), [load_env] ($newType + init + .methods for declared types), [mset_impl] ($methodSet),
             [assert_impl] ($assertType with implementedBy/missingMethodFor as state), [iface_eq_impl].
   Every known defect is a boolean in [flags]: false = the code as it is today, true = the proposed repair
   (exact JS patches: known_findings.d/C09.txt and the final report).  harness/py/props/c09.py probes the real
   runtime with one witness per flag and compares against the variant it finds. *)
From Coq Require Import List NArith Bool String Ascii DecimalString.
From Verif Require Import Gen.C09_Kinds.
Import ListNotations.
Local Open Scope N_scope.

(* ------------------------------------------------------------------ strings *)
Definition str := list ascii.
Definition L (s : string) : str := list_ascii_of_string s.
Definition dec (n : N) : str := L (NilEmpty.string_of_uint (N.to_uint n)).

Fixpoint str_eqb (a b : str) : bool :=
  match a, b with
  | [], [] => true
  | x :: a', y :: b' => Ascii.eqb x y && str_eqb a' b'
  | _, _ => false
  end.

Fixpoint join (sep : str) (xs : list str) : str :=
  match xs with
  | [] => []
  | x :: r => match r with [] => x | _ => x ++ sep ++ join sep r end
  end.

Definition c_dollar : ascii := "$"%char.
Definition c_comma : ascii := ","%char.
Definition c_bslash : ascii := "\"%char.
Definition c_dquote : ascii := """"%char.

(* s.replace(/\\/g, "\\\\").replace(/X/g, "\\X") *)
Fixpoint escape (x : ascii) (s : str) : str :=
  match s with
  | [] => []
  | c :: r => if Ascii.eqb c c_bslash then c_bslash :: c_bslash :: escape x r
              else if Ascii.eqb c x then c_bslash :: x :: escape x r
              else c :: escape x r
  end.

Definition bool_str (b : bool) : str := if b then L "true" else L "false".

(* ------------------------------------------------------------------ flags: one per defect class *)
Record flags := {
  fx_emb : bool;     (* struct-embedded-flag-not-in-key *)
  fx_pkg : bool;     (* struct-unexported-field-pkg-not-in-key *)
  fx_tag : bool;     (* struct-tag-dollar-key-collision *)
  fx_memo : bool;    (* assert-memo-keyed-by-type-string (implementedBy, missingMethodFor, seen) *)
  fx_ambig : bool;   (* methodset-same-depth-ambiguity-kept *)
  fx_field : bool;   (* methodset-field-shadowing-ignored *)
  fx_mpkg : bool;    (* methodset-unexported-name-pkg-ignored *)
  fx_pshadow : bool; (* methodset-ptr-receiver-shadow-ignored *)
  fx_diamond : bool; (* methodset-diamond-embedding-not-ambiguous *)
  fx_ifdup : bool    (* true: the methods of a NAMED interface entry are added once to a level (today they are added
                        twice, which is harmless until names are counted: methodset-embedded-named-interface-counted-twice) *)
}.
Definition flags_asis : flags := Build_flags false false false false false false false false false true.
Definition flags_fixed : flags := Build_flags true true true true true true true true true true.
(* the code as it is NOW (struct key, memo keys and same-depth ambiguity repaired; four $methodSet classes recorded) *)
Definition flags_current : flags := Build_flags true true true true true false false false false true.
Definition flags_of_list (l : list bool) : flags :=
  Build_flags (nth 0 l false) (nth 1 l false) (nth 2 l false) (nth 3 l false)
              (nth 4 l false) (nth 5 l false) (nth 6 l false) (nth 7 l false) (nth 8 l false) (nth 9 l true).

(* ------------------------------------------------------------------ Go types *)
Record fhdr := { fh_name : string; fh_emb : bool; fh_exp : bool; fh_tag : string }.
Record mhdr := { mh_name : string; mh_pkg : string }.   (* pkg = "" for exported names *)

Inductive lab :=
| LBasic (i : N)                       (* position in [predeclared] *)
| LNamed (d : N)                       (* index of the declaration (the type NAME object) *)
| LPtr | LSlice | LArray (n : N) | LMap
| LChan (send recv : bool)
| LFunc (np : N) (variadic : bool)      (* children: np parameters, then the results *)
| LStruct (pkg : string) (fs : list fhdr)   (* pkg: package of the unexported field names ("" if none); children: field types *)
| LIface (ms : list mhdr).             (* children: the method signatures (LFunc) *)

Inductive ty := T (l : lab) (cs : list ty).

Record meth := { me_name : string; me_pkg : string; me_sig : ty; me_ptr : bool }.
Record decl := { d_str : string; d_pkg : string; d_under : ty; d_meths : list meth }.
Definition decl0 : decl := Build_decl "" "" (T (LBasic 0) []) [].
Definition nthN {A} (n : N) (l : list A) (d : A) : A := nth (N.to_nat n) l d.

Definition fh_eqb (a b : fhdr) : bool :=
  String.eqb (fh_name a) (fh_name b) && Bool.eqb (fh_emb a) (fh_emb b) &&
  Bool.eqb (fh_exp a) (fh_exp b) && String.eqb (fh_tag a) (fh_tag b).
Definition mh_eqb (a b : mhdr) : bool :=
  String.eqb (mh_name a) (mh_name b) && String.eqb (mh_pkg a) (mh_pkg b).
Fixpoint list_eqb {A} (e : A -> A -> bool) (a b : list A) : bool :=
  match a, b with
  | [], [] => true
  | x :: a', y :: b' => e x y && list_eqb e a' b'
  | _, _ => false
  end.

(* ================================================================== SPEC *)
Definition lab_ident (a b : lab) : bool :=
  match a, b with
  | LBasic i, LBasic j => i =? j
  | LNamed d, LNamed e => d =? e
  | LPtr, LPtr | LSlice, LSlice | LMap, LMap => true
  | LArray n, LArray m => n =? m
  | LChan s r, LChan s' r' => Bool.eqb s s' && Bool.eqb r r'
  | LFunc n v, LFunc n' v' => (n =? n') && Bool.eqb v v'
  | LStruct p fs, LStruct p' fs' => list_eqb fh_eqb fs fs' && (forallb fh_exp fs || String.eqb p p')
  | LIface ms, LIface ms' => list_eqb mh_eqb ms ms'
  | _, _ => false
  end.

Fixpoint identical (a b : ty) : bool :=
  match a, b with
  | T l cs, T l' cs' =>
      lab_ident l l' &&
      (fix go (xs ys : list ty) : bool :=
         match xs, ys with
         | [], [] => true
         | x :: xs', y :: ys' => identical x y && go xs' ys'
         | _, _ => false
         end) cs cs'
  end.

(* candidates found at one depth: name, package of an unexported name, and what it denotes:
   Some (sig, owner declaration) = a method usable here;  None = a field, or a pointer-receiver
   method reached without indirection (it hides deeper names but is not in the method set) *)
Record sent := { se_ty : ty; se_ind : bool }.
Definition scand : Type := (string * string) * option (ty * option N).

Definition under (env : list decl) (t : ty) : ty :=
  match t with T (LNamed d) _ => d_under (nthN d env decl0) | _ => t end.
Definition owner_of (t : ty) : option N := match t with T (LNamed d) _ => Some d | _ => None end.

Fixpoint zip {A B} (a : list A) (b : list B) : list (A * B) :=
  match a, b with x :: a', y :: b' => (x, y) :: zip a' b' | _, _ => [] end.

Definition spec_entry (env : list decl) (e : sent) : list sent * list scand :=
  let own : list scand :=
    match se_ty e with
    | T (LNamed d) _ =>
        map (fun m => ((me_name m, me_pkg m),
                       if me_ptr m && negb (se_ind e) then None else Some (me_sig m, Some d)))
            (d_meths (nthN d env decl0))
    | _ => []
    end in
  match under env (se_ty e) with
  | T (LStruct pkg fs) cs =>
      let fl := zip fs cs in
      (flat_map (fun fc => if fh_emb (fst fc) then
                             match snd fc with
                             | T LPtr [x] => [Build_sent x true]
                             | x => [Build_sent x (se_ind e)]
                             end else []) fl,
       own ++ map (fun fc => ((fh_name (fst fc), if fh_exp (fst fc) then ""%string else pkg), None)) fl)
  | T (LIface ms) sigs =>
      ([], own ++ map (fun mc => ((mh_name (fst mc), mh_pkg (fst mc)), Some (snd mc, owner_of (se_ty e)))) (zip ms sigs))
  | _ => ([], own)
  end.

Definition nm_eqb (a b : string * string) : bool := String.eqb (fst a) (fst b) && String.eqb (snd a) (snd b).

(* names resolved so far: name -> Some method | None (field / ambiguous / unusable) *)
Definition sbase : Type := list ((string * string) * option (ty * option N)).

Definition merge_level (base : sbase) (cands : list scand) : sbase :=
  fold_left (fun b c =>
     if existsb (fun x => nm_eqb (fst x) (fst c)) b then b
     else b ++ [(fst c, if (1 <? N.of_nat (List.length (filter (fun x => nm_eqb (fst x) (fst c)) cands))) then None else snd c)])
    cands base.

(* Entries whose type was already reached at a shallower depth are dropped (as go/types' lookupFieldOrMethod
   does): every name below them is hidden by the same name below the shallower occurrence.  Occurrences at the
   SAME depth are all kept - they make the names below them ambiguous. *)
Fixpoint spec_levels (env : list decl) (fuel : nat) (cur : list sent) (seen : list ty) (base : sbase) : sbase :=
  match fuel with
  | O => base
  | S f =>
      let cur' := filter (fun e => negb (existsb (identical (se_ty e)) seen)) cur in
      match cur' with
      | [] => base
      | _ =>
          let r := map (spec_entry env) cur' in
          spec_levels env f (flat_map fst r) (map se_ty cur' ++ seen) (merge_level base (flat_map snd r))
      end
  end.

Definition is_iface (env : list decl) (t : ty) : bool :=
  match under env t with T (LIface _) _ => true | _ => false end.

(* the method set of a type: (name, pkg), signature, declaring type *)
Definition spec_mset (env : list decl) (t : ty) : list ((string * string) * (ty * option N)) :=
  let start := match t with
               | T LPtr [x] => if is_iface env x then [] else [Build_sent x true]
               | _ => [Build_sent t false]
               end in
  flat_map (fun x => match snd x with Some m => [(fst x, m)] | None => [] end)
           (spec_levels env (S (S (List.length env))) start [] []).

Definition iface_meths (env : list decl) (it : ty) : list ((string * string) * ty) :=
  match under env it with
  | T (LIface ms) sigs => map (fun mc => ((mh_name (fst mc), mh_pkg (fst mc)), snd mc)) (zip ms sigs)
  | _ => []
  end.

(* (implements?, name of the first missing method) *)
Definition spec_implements (env : list decl) (t it : ty) : bool * string :=
  let ms := spec_mset env t in
  match find (fun tm => negb (existsb (fun vm => nm_eqb (fst vm) (fst tm) && identical (fst (snd vm)) (snd tm)) ms))
             (iface_meths env it) with
  | Some tm => (false, fst (fst tm))
  | None => (true, ""%string)
  end.

(* x.(T): interface target -> implements; concrete target -> identical dynamic type *)
Definition spec_assert (env : list decl) (t target : ty) : bool * string :=
  if is_iface env target then spec_implements env t target else (identical t target, ""%string).

(* values held in interfaces (projected): atoms, tuples (struct fields / array elements), nested interfaces *)
Inductive val := VAtom (n : N) | VTup (vs : list val) | VNil | VIface (t : N) (v : val).
(* in VIface the N is an index into the family's type universe on the spec side and a run-time id on the impl side *)

Fixpoint spec_comparable (env : list decl) (fuel : nat) (t : ty) : bool :=
  match fuel with
  | O => true
  | S f =>
      match under env t with
      | T LSlice _ | T LMap _ | T (LFunc _ _) _ => false
      | T (LArray _) [e] => spec_comparable env f e
      | T (LStruct _ _) cs => forallb (spec_comparable env f) cs
      | _ => true
      end
  end.

(* ================================================================== IMPL *)
Record rmeth := { rm_name : string; rm_pkg : string; rm_typ : N; rm_owner : N }.
(* a run-time type object: kind, .string, .named, .comparable, its label (len, dir, field/method headers),
   the ids of its component types, and its .methods list (declared types and their pointer types) *)
Record rt := { r_kind : N; r_str : str; r_named : bool; r_comparable : bool; r_lab : lab; r_ids : list N;
               r_methods : list rmeth }.
Definition rt0 : rt := Build_rt 0 [] false true (LBasic 0) [] [].

Record st := {
  s_types : list rt;                     (* id = position ($typeIDCounter) *)
  s_tbl : list (N * str * N);            (* (cache, typeKey) -> id *)
  s_named : list N                       (* declaration -> id *)
}.
(* the per-interface memo tables of $assertType (separate from the type store: assertions never touch the store) *)
Record memo := {
  m_impl : list (N * str * bool);        (* iface id, key -> implementedBy *)
  m_miss : list (N * str * string)       (* iface id, key -> missingMethodFor *)
}.
Definition memo0 : memo := Build_memo [] [].

Definition get (s : st) (i : N) : rt := nthN i (s_types s) rt0.
Definition rstr (s : st) (i : N) : str := r_str (get s i).

(* caches: 0 $arrayTypes 1 $funcTypes 2 $interfaceTypes 3 $mapTypes 4 $structTypes ; object fields
   5 elem.ptr 6 elem.slice 7 elem.Chan 8 elem.SendChan 9 elem.RecvChan (keyed by the owner's id) *)
Definition cArray := 0. Definition cFunc := 1. Definition cIface := 2. Definition cMap := 3.
Definition cStruct := 4. Definition cPtr := 5. Definition cSlice := 6. Definition cChan := 7.
Definition cSendChan := 8. Definition cRecvChan := 9.

Fixpoint lookup_tbl (c : N) (k : str) (tbl : list (N * str * N)) : option N :=
  match tbl with
  | [] => None
  | (c', k', i) :: r => if (c =? c') && str_eqb k k' then Some i else lookup_tbl c k r
  end.

Definition alloc (r : rt) (s : st) : N * st :=
  (N.of_nat (List.length (s_types s)),
   Build_st (s_types s ++ [r]) (s_tbl s) (s_named s)).
Definition add_tbl (c : N) (k : str) (i : N) (s : st) : st :=
  Build_st (s_types s) ((c, k, i) :: s_tbl s) (s_named s).
Fixpoint upd {A} (n : nat) (x : A) (l : list A) : list A :=
  match l, n with
  | [], _ => []
  | _ :: r, O => x :: r
  | y :: r, S n' => y :: upd n' x r
  end.
Definition set_type (i : N) (r : rt) (s : st) : st :=
  Build_st (upd (N.to_nat i) r (s_types s)) (s_tbl s) (s_named s).

(* $structType's typeKey for one field *)
Definition field_key (fl : flags) (f : fhdr) (id : N) : str :=
  L (fh_name f) ++ [c_comma] ++ dec id ++ [c_comma] ++
  (if fx_tag fl then escape c_dollar (L (fh_tag f)) else L (fh_tag f)) ++
  (if fx_emb fl then [c_comma] ++ (if fh_emb f then L "1" else L "0") else []).
(* today:  fields.map(f => f.name + "," + f.typ.id + "," + f.tag).join("$")
   repaired (fx_pkg, fx_emb): pkgPath + "$" + fields.map(f => f.name + "," + f.typ.id + "," + f.tag + "," + (f.embedded ? "1" : "0")).join("$") *)
Definition struct_key (fl : flags) (pkg : string) (fi : list (fhdr * N)) : str :=
  (if fx_pkg fl then L pkg ++ [c_dollar] else []) ++ join [c_dollar] (map (fun x => field_key fl (fst x) (snd x)) fi).

Definition field_string (s : st) (f : fhdr) (id : N) : str :=
  let st_ := rstr s id ++ (if String.eqb (fh_tag f) "" then []
                           else L " """ ++ escape c_dquote (L (fh_tag f)) ++ L """") in
  if fh_emb f then st_ else L (fh_name f) ++ L " " ++ st_.

Definition meth_string (s : st) (m : mhdr) (id : N) : str :=
  (if String.eqb (mh_pkg m) "" then [] else L (mh_pkg m) ++ L ".") ++ L (mh_name m) ++ skipn 4 (rstr s id).

Definition func_string (s : st) (ps rs : list N) (variadic : bool) : str :=
  let pstr := map (rstr s) ps in
  let pstr' := if variadic then
                 match rev pstr with
                 | last :: r => rev r ++ [L "..." ++ skipn 2 last]
                 | [] => pstr
                 end else pstr in
  L "func(" ++ join (L ", ") pstr' ++ L ")" ++
  match rs with
  | [] => []
  | [r] => L " " ++ rstr s r
  | _ => L " (" ++ join (L ", ") (map (rstr s) rs) ++ L ")"
  end.

Definition kind_of_basic (i : N) : N := snd (nthN i predeclared (""%string, 0)).

(* shape of the run-time type made from label [l] over component ids: (cache, typeKey, object) *)
Definition node_of (fl : flags) (s : st) (l : lab) (ids : list N) : option (N * str * rt) :=
  match l, ids with
  | LPtr, [e] => Some (cPtr, dec e, Build_rt kindPtr (L "*" ++ rstr s e) false true l ids [])
  | LSlice, [e] => Some (cSlice, dec e, Build_rt kindSlice (L "[]" ++ rstr s e) false false l ids [])
  | LArray n, [e] => Some (cArray, dec e ++ [c_dollar] ++ dec n,
                           Build_rt kindArray (L "[" ++ dec n ++ L "]" ++ rstr s e) false (r_comparable (get s e)) l ids [])
  | LMap, [k; e] => Some (cMap, dec k ++ [c_dollar] ++ dec e,
                          Build_rt kindMap (L "map[" ++ rstr s k ++ L "]" ++ rstr s e) false false l ids [])
  | LChan snd_ rcv, [e] =>
      let es := rstr s e in
      let str0 := (if rcv then L "<-" else []) ++ L "chan" ++ (if snd_ then L "<- " else L " ") in
      let str1 := if negb snd_ && negb rcv && match es with c :: _ => Ascii.eqb c "<"%char | [] => false end
                  then str0 ++ L "(" ++ es ++ L ")" else str0 ++ es in
      Some (if snd_ then cSendChan else if rcv then cRecvChan else cChan, dec e,
            Build_rt kindChan str1 false true l ids [])
  | LFunc np v, _ =>
      let ps := firstn (N.to_nat np) ids in
      let rs := skipn (N.to_nat np) ids in
      Some (cFunc, join [c_comma] (map dec ps) ++ [c_dollar] ++ join [c_comma] (map dec rs) ++ [c_dollar] ++ bool_str v,
            Build_rt kindFunc (func_string s ps rs v) false false l ids [])
  | LStruct pkg fs, _ =>
      let fi := zip fs ids in
      Some (cStruct, struct_key fl pkg fi,
            Build_rt kindStruct
              (match fi with [] => L "struct {}"
               | _ => L "struct { " ++ join (L "; ") (map (fun x => field_string s (fst x) (snd x)) fi) ++ L " }" end)
              false (forallb (fun x => r_comparable (get s (snd x))) fi) l ids [])
  | LIface ms, _ =>
      let mi := zip ms ids in
      Some (cIface, join [c_dollar] (map (fun x => L (mh_pkg (fst x)) ++ [c_comma] ++ L (mh_name (fst x)) ++ [c_comma] ++ dec (snd x)) mi),
            Build_rt kindInterface
              (match mi with [] => L "interface {}"
               | _ => L "interface { " ++ join (L "; ") (map (fun x => meth_string s (fst x) (snd x)) mi) ++ L " }" end)
              false true l ids [])
  | _, _ => None
  end.

(* the canonicalising constructors: look the key up, create on a miss *)
Definition intern (c : N) (k : str) (r : rt) (s : st) : N * st :=
  match lookup_tbl c k (s_tbl s) with
  | Some i => (i, s)
  | None => let '(i, s') := alloc r s in (i, add_tbl c k i s')
  end.

Fixpoint canon (fl : flags) (t : ty) (s : st) : N * st :=
  match t with
  | T l cs =>
      let '(ids, s1) :=
        (fix go (xs : list ty) (s0 : st) : list N * st :=
           match xs with
           | [] => ([], s0)
           | x :: r => let '(i, s') := canon fl x s0 in
                       let '(is_, s'') := go r s' in (i :: is_, s'')
           end) cs s in
      match l with
      | LBasic i => (i, s1)
      | LNamed d => (nthN d (s_named s1) 0, s1)
      | _ => match node_of fl s1 l ids with
             | Some (c, k, r) => intern c k r s1
             | None => (0, s1)
             end
      end
  end.

Fixpoint canon_list (fl : flags) (ts : list ty) (s : st) : list N * st :=
  match ts with
  | [] => ([], s)
  | x :: r => let '(i, s') := canon fl x s in
              let '(is_, s'') := canon_list fl r s' in (i :: is_, s'')
  end.

(* initial state: the predeclared types (ids 0..17, as in types.js) *)
Definition init_st : st :=
  Build_st (map (fun p => Build_rt (snd p) (L (fst p)) true true (LBasic 0) [] []) predeclared) [] [].

(* $newType for every declaration, then .init(...) and the .methods lists *)
Definition declare (ds : list decl) (s : st) : st :=
  fold_left (fun s0 d =>
     let '(i, s') := alloc (Build_rt 0 (L (d_str d)) true true (LBasic 0) [] []) s0 in
     Build_st (s_types s') (s_tbl s') (s_named s' ++ [i])) ds s.

Definition init_decl (fl : flags) (s : st) (di : N * decl) : st :=
  let '(dn, d) := di in
  let id := nthN dn (s_named s) 0 in
  match d_under d with
  | T l cs =>
      let '(ids, s1) := canon_list fl cs s in
      let shape := match l with
                   | LBasic i => Build_rt (kind_of_basic i) [] true true l [] []
                   | _ => match node_of fl s1 l ids with Some (_, _, r) => r | None => rt0 end
                   end in
      let '(sigs, s2) := canon_list fl (map me_sig (d_meths d)) s1 in
      let ms := map (fun x => Build_rmeth (me_name (fst x)) (me_pkg (fst x)) (snd x) id) (zip (d_meths d) sigs) in
      let vms := flat_map (fun x => if me_ptr (fst x) then [] else [snd x]) (zip (d_meths d) ms) in
      let pms := flat_map (fun x => if me_ptr (fst x) then [snd x] else []) (zip (d_meths d) ms) in
      let s3 := set_type id (Build_rt (r_kind shape) (L (d_str d)) true (r_comparable shape) l ids vms) s2 in
      match pms with
      | [] => s3
      | _ => let '(p, s4) := intern cPtr (dec id) (Build_rt kindPtr (L "*" ++ L (d_str d)) false true LPtr [id] []) s3 in
             let pr := get s4 p in
             set_type p (Build_rt (r_kind pr) (r_str pr) (r_named pr) (r_comparable pr) (r_lab pr) (r_ids pr) pms) s4
      end
  end.

Fixpoint number {A} (n : N) (l : list A) : list (N * A) :=
  match l with [] => [] | x :: r => (n, x) :: number (N.succ n) r end.

Definition load_env (fl : flags) (ds : list decl) : st :=
  fold_left (init_decl fl) (number 0 ds) (declare ds init_st).

(* ------------------------------------------------------------------ $methodSet *)
Record ent := { e_typ : N; e_ind : bool; e_mult : bool }.
Definition cand : Type := (string * string) * option rmeth.

Definition tkey (fl : flags) (s : st) (i : N) : str := if fx_memo fl then dec i else rstr s i.
Definition ptr_methods (s : st) (i : N) : list rmeth :=
  match lookup_tbl cPtr (dec i) (s_tbl s) with Some p => r_methods (get s p) | None => [] end.
Definition iface_methods (s : st) (i : N) : list rmeth :=
  match r_lab (get s i) with
  | LIface ms => map (fun x => Build_rmeth (mh_name (fst x)) (mh_pkg (fst x)) (snd x) i) (zip ms (r_ids (get s i)))
  | _ => []
  end.
Definition mkey (fl : flags) (m : rmeth) : string * string :=
  (rm_name m, if fx_mpkg fl then rm_pkg m else ""%string).

(* [cur] is the whole level (needed only by the repaired diamond rule: a type occurring twice in one level, or
   below such a type, contributes every name twice) *)
Definition level_entry (fl : flags) (s : st) (cur : list ent) (acc : list ent * list cand * list str) (e : ent)
  : list ent * list cand * list str :=
  let '(next, cands, seen) := acc in
  let k := tkey fl s (e_typ e) in
  if existsb (str_eqb k) seen then acc else
  let mult := fx_diamond fl &&
              (existsb (fun e' => str_eqb (tkey fl s (e_typ e')) k && e_mult e') cur ||
               (1 <? N.of_nat (List.length (filter (fun e' => str_eqb (tkey fl s (e_typ e')) k) cur)))) in
  let dup := fun (l : list cand) => if mult then l ++ l else l in
  let r := get s (e_typ e) in
  let isif := r_kind r =? kindInterface in
  let ifm := if isif then iface_methods s (e_typ e) else [] in
  let asc := fun m => (mkey fl m, Some m) in
  let blk := fun m => (mkey fl m, @None rmeth) in
  let own : list cand :=
    if r_named r then
      (if isif then map asc ifm else map asc (r_methods r)) ++
      (if e_ind e then map asc (ptr_methods s (e_typ e))
       else if fx_pshadow fl then map blk (ptr_methods s (e_typ e)) else [])
    else [] in
  let c1 : list cand := if fx_ifdup fl && r_named r && isif then own else own ++ map asc ifm in
  match r_lab r with
  | LStruct pkg fs =>
      let fi := zip fs (r_ids r) in
      let nx := flat_map (fun x => if fh_emb (fst x) then
                                     let ft := get s (snd x) in
                                     if r_kind ft =? kindPtr then [Build_ent (nth 0 (r_ids ft) 0) true mult]
                                     else [Build_ent (snd x) (e_ind e) mult]
                                   else []) fi in
      let fc : list cand :=
        if fx_field fl then
          map (fun x => ((fh_name (fst x), if fx_mpkg fl then (if fh_exp (fst x) then ""%string else pkg) else ""%string),
                         @None rmeth)) fi
        else [] in
      (next ++ nx, cands ++ dup (c1 ++ fc), k :: seen)
  | _ => (next, cands ++ dup c1, k :: seen)
  end.

Definition merge_impl (fl : flags) (base : list cand) (cands : list cand) : list cand :=
  fold_left (fun b c =>
     if existsb (fun x => nm_eqb (fst x) (fst c)) b then b
     else b ++ [(fst c, if fx_ambig fl && (1 <? N.of_nat (List.length (filter (fun x => nm_eqb (fst x) (fst c)) cands)))
                        then None else snd c)])
    cands base.

Fixpoint bfs (fl : flags) (s : st) (fuel : nat) (cur : list ent) (seen : list str) (base : list cand) : list cand :=
  match fuel with
  | O => base
  | S f =>
      match cur with
      | [] => base
      | _ => let '(next, cands, seen') := fold_left (level_entry fl s cur) cur ([], [], seen) in
             bfs fl s f next seen' (merge_impl fl base cands)
      end
  end.

Definition mset_impl (fl : flags) (s : st) (i : N) : list rmeth :=
  let r := get s i in
  let isptr := r_kind r =? kindPtr in
  let el := nth 0 (r_ids r) 0 in
  if isptr && (r_kind (get s el) =? kindInterface) then [] else
  flat_map (fun c => match snd c with Some m => [m] | None => [] end)
           (bfs fl s (S (S (List.length (s_types s)))) [Build_ent (if isptr then el else i) isptr false] [] []).

(* ------------------------------------------------------------------ $assertType *)
Fixpoint lookup_memo {A} (t : N) (k : str) (m : list (N * str * A)) : option A :=
  match m with
  | [] => None
  | (t', k', v) :: r => if (t =? t') && str_eqb k k' then Some v else lookup_memo t k r
  end.

Definition meth_match (vm tm : rmeth) : bool :=
  String.eqb (rm_name vm) (rm_name tm) && String.eqb (rm_pkg vm) (rm_pkg tm) && (rm_typ vm =? rm_typ tm).

(* c = value.constructor, t = asserted type.  Result: (ok, missingMethod) *)
Definition assert_impl (fl : flags) (s : st) (c t : N) (m : memo) : (bool * string) * memo :=
  if negb (r_kind (get s t) =? kindInterface) then ((c =? t, ""%string), m) else
  let k := tkey fl s c in
  match lookup_memo t k (m_impl m) with
  | Some ok => ((ok, if ok then ""%string else match lookup_memo t k (m_miss m) with Some x => x | None => ""%string end), m)
  | None =>
      let vms := mset_impl fl s c in
      match find (fun tm => negb (existsb (fun vm => meth_match vm tm) vms)) (iface_methods s t) with
      | Some tm => ((false, rm_name tm), Build_memo ((t, k, false) :: m_impl m) ((t, k, rm_name tm) :: m_miss m))
      | None => ((true, ""%string), Build_memo ((t, k, true) :: m_impl m) (m_miss m))
      end
  end.

(* ------------------------------------------------------------------ $interfaceIsEqual / $equal *)
(* None = run-time panic "comparing uncomparable type" *)
Fixpoint equal_impl (s : st) (a b : val) (t : N) {struct a} : option bool :=
  let r := get s t in
  if r_kind r =? kindInterface then
    match a, b with
    | VNil, VNil => Some true
    | VNil, _ | _, VNil => Some false
    | VIface ca va, VIface cb vb =>
        if negb (ca =? cb) then Some false
        else if negb (r_comparable (get s ca)) then None
        else equal_impl s va vb ca
    | _, _ => Some false
    end
  else
    match a, b with
    | VTup xs, VTup ys =>
        (* (skip, type): blank struct fields are ignored ($equal: `if (f.name === "_") continue`) *)
        let tys : list (bool * N) :=
          if r_kind r =? kindArray then repeat (false, nth 0 (r_ids r) 0) (List.length xs)
          else match r_lab r with
               | LStruct _ fs => map (fun x => (String.eqb (fh_name (fst x)) "_", snd x)) (zip fs (r_ids r))
               | _ => map (fun i => (false, i)) (r_ids r)
               end in
        (fix go (xs ys : list val) (ts : list (bool * N)) : option bool :=
           match xs, ys, ts with
           | x :: xs', y :: ys', (sk, t') :: ts' =>
               if sk then go xs' ys' ts' else
               match equal_impl s x y t' with
               | Some true => go xs' ys' ts'
               | o => o
               end
           | _, _, _ => Some true
           end) xs ys tys
    | VAtom x, VAtom y => Some (x =? y)
    | _, _ => Some false
    end.

Definition iface_eq_impl (s : st) (a b : val) : option bool :=
  match a, b with
  | VNil, VNil => Some true
  | VNil, _ | _, VNil => Some false
  | VIface ca va, VIface cb vb =>
      if negb (ca =? cb) then Some false
      else if negb (r_comparable (get s ca)) then None
      else equal_impl s va vb ca
  | _, _ => Some false
  end.

(* spec of == on interface values; VIface carries an index into the universe [u] *)
Fixpoint spec_equal (env : list decl) (u : list ty) (a b : val) (t : ty) {struct a} : option bool :=
  if is_iface env t then
    match a, b with
    | VNil, VNil => Some true
    | VNil, _ | _, VNil => Some false
    | VIface ia va, VIface ib vb =>
        let ta := nthN ia u (T (LBasic 0) []) in
        if negb (identical ta (nthN ib u (T (LBasic 0) []))) then Some false
        else if negb (spec_comparable env 64 ta) then None
        else spec_equal env u va vb ta
    | _, _ => Some false
    end
  else
    match a, b with
    | VTup xs, VTup ys =>
        let tys : list (bool * ty) :=
                   match under env t with
                   | T (LArray _) [e] => repeat (false, e) (List.length xs)
                   | T (LStruct _ fs) cs => map (fun x => (String.eqb (fh_name (fst x)) "_", snd x)) (zip fs cs)
                   | T _ cs => map (fun c => (false, c)) cs
                   end in
        (fix go (xs ys : list val) (ts : list (bool * ty)) : option bool :=
           match xs, ys, ts with
           | x :: xs', y :: ys', (sk, t') :: ts' =>
               if sk then go xs' ys' ts' else
               match spec_equal env u x y t' with
               | Some true => go xs' ys' ts'
               | o => o
               end
           | _, _, _ => Some true
           end) xs ys tys
    | VAtom x, VAtom y => Some (x =? y)
    | _, _ => Some false
    end.

Definition spec_iface_eq (env : list decl) (u : list ty) (a b : val) : option bool :=
  spec_equal env u a b (T (LIface []) []).
