(* C18 phase 4 — file selection on source TEXT, and GopherJS's own post-filtering
   (model only, no proofs).

   Part A: a file is given by its name and the TEXT of its header; the constraint
   is found and evaluated as go/build's shouldBuild does (Model/C18_Constraint.v),
   the name rule is the independent suffix specification (Model/C18_NameSpec.v).
   The package clause and the import list are still handed over parsed
   (t_pkg, t_cgo, t_imports): go/build's readGoInfo is not modelled.

   Part B: build/context.go applyPostloadTweaks + updateImports + exclude,
   build/build.go parseOverlayFiles (which overlay files augment a package), over
   the table Gen/C18_PostTweaks.v regenerated from the switch in applyPostloadTweaks. *)
From Coq Require Import List String Ascii Bool.
From Verif Require Import Gen.C18_BuildEnv Gen.C18_PostTweaks Model.C18_Build Model.C18_NameSpec Model.C18_Constraint.
Import ListNotations.
Local Open Scope string_scope.

Record tfile := {
  t_name : string;
  t_isdir : bool;
  t_content : string;          (* the text of the file up to and including the package clause *)
  t_pkg : pkgkind;
  t_cgo : bool;
  t_imports : list string      (* import paths other than "C" *)
}.

(* one directory entry in the loop of go/build.Context.Import (matchFile + the switch) *)
Definition classify_text (e : env) (f : tfile) : cls :=
  let name := t_name f in
  if t_isdir f then CDir
  else if hidden name then CHidden
  else
    let ext := ext_of name in
    if negb (ext =? ".go") then (if mem ext other_exts then COther else CSkipExt)
    else if negb (spec_good_name e name) then CIgnored
    else match should_build_text (match_tag e) (t_content f) with
         | None => CBad                                  (* parsing //go:build line / multiple //go:build comments *)
         | Some false => CIgnored
         | Some true =>
             match t_pkg f with
             | PkgDoc => CIgnored
             | k =>
                 let is_test := is_test_name name in
                 if t_cgo f then (if is_test then CBad else if e_cgo e then CCgo else CIgnored)
                 else if is_test then (match k with PkgXTest => CXTest | _ => CTest end)
                 else CGo
             end
         end.

(* ---- part B: post-load tweaks -------------------------------------------- *)

(* build.exclude *)
Definition exclude (files ex : list string) : list string := filter (fun f => negb (mem f ex)) files.

Definition apply_tweak (t : bool * list string) (files : list string) : list string :=
  if fst t then [] else exclude files (snd t).

Fixpoint lookup_tweak (p : string) (tb : list (string * ((bool * list string) * (bool * list string))))
  : option ((bool * list string) * (bool * list string)) :=
  match tb with
  | [] => None
  | (q, t) :: r => if p =? q then Some t else lookup_tweak p r
  end.

(* simpleCtx.applyPostloadTweaks on (GoFiles, TestGoFiles); [virtual] = isVirtual || noPostTweaks *)
Definition postload (virtual : bool) (import_path : string) (go test : list string) : list string * list string :=
  if virtual then (go, test)
  else match lookup_tweak import_path post_tweaks with
       | Some (tg, tw) => (apply_tweak tg go, apply_tweak tw test)
       | None => (go, test)
       end.

(* build.updateImports: the import paths that occur in one of the remaining sources
   (as a set; the real code sorts them) *)
Definition update_imports (sources : list string) (fs : list tfile) : list string :=
  nodup string_dec (flat_map (fun f => if mem (t_name f) sources then t_imports f else []) fs).

Inductive tresult :=
| TPanic | TBad | TNoGo
| TOk (go test xtest ignored js imports test_imports xtest_imports : list string).

Definition tnames_of (e : env) (c : cls) (fs : list tfile) : list string :=
  map t_name (filter (fun f => cls_eqb (classify_text e f) c) fs).

Definition t_is_incjs (f : tfile) : bool :=
  if negb (has_suffix incjs_ext (t_name f)) || t_isdir f then false
  else negb (existsb (fun p => has_prefix p (t_name f)) incjs_hidden).

(* simpleCtx.Import on TEXT: go/build selection, .inc.js, then the post-load tweaks *)
Definition import_text_with (e0 : env) (std virtual : bool) (import_path : string) (fs : list tfile) : tresult :=
  let e := preload e0 std in
  if existsb (fun f => cls_eqb (classify_text e f) CBad) fs then TBad
  else
    let go := tnames_of e CGo fs in
    let cgo := tnames_of e CCgo fs in
    let test := tnames_of e CTest fs in
    let xtest := tnames_of e CXTest fs in
    match (go ++ cgo ++ test ++ xtest)%list with
    | [] => TNoGo
    | _ =>
        let (go', test') := postload virtual import_path go test in
        TOk go' test' xtest (tnames_of e CIgnored fs) (map t_name (filter t_is_incjs fs))
            (update_imports go' fs) (update_imports test' fs) (update_imports xtest fs)
    end.

Definition import_text (c : config) (virtual : bool) (import_path : string) (in_goroot : bool) (fs : list tfile) : tresult :=
  match go_ctx c with
  | None => TPanic
  | Some e0 => import_text_with e0 (is_std import_path in_goroot) virtual import_path fs
  end.

(* build.parseOverlayFiles: the overlay (natives) files that augment a package, given
   what the overlay context selected for it *)
Definition overlay_names (is_test is_xtest : bool) (go test xtest : list string) : list string :=
  if is_xtest then xtest else if is_test then (go ++ test)%list else go.

(* render a structured file (Model/C18_Build.v) as text *)
Definition render_file (f : file) (imports : list string) : tfile :=
  {| t_name := f_name f; t_isdir := f_isdir f;
     t_content := render_header (f_gobuild f) (f_plus f) (f_detached f);
     t_pkg := f_pkg f; t_cgo := f_cgo f; t_imports := imports |}.
