(* C05 — executable model of compiler/internal/dce: Info (info.go) and the work-list
   Selector (selector.go), plus the root rule of compiler.go (WriteProgramCode passes
   implementsLink = gls.IsImplementation(d.LinkingName) to Include).
   Model only: no proofs in this file.

   A declaration is a record; [d_id] stands for the pointer identity of the Go value
   (the Selector is generic over a comparable D and returns map[D]struct{}).
   DCE names are strings, "" = not set.  [d_link] is the implementsLink argument
   with which the declaration is passed to Include. *)
From Coq Require Import List String Bool NArith Arith.
Import ListNotations.
Local Open Scope string_scope.
Local Open Scope list_scope.

Record decl := {
  d_id : N;
  d_alive : bool;            (* Info.alive *)
  d_obj : string;            (* Info.objectFilter *)
  d_meth : string;           (* Info.methodFilter *)
  d_deps : list string;      (* Info.deps (a set in Go; order/duplicates are shown not to matter) *)
  d_link : bool              (* implementsLink at the Include call *)
}.

Definition is_empty (s : string) : bool := String.eqb s "".

(* info.go: unnamed() / isAlive() *)
Definition unnamed (d : decl) : bool := is_empty (d_obj d) && is_empty (d_meth d).
Definition is_alive (d : decl) : bool := d_alive d || unnamed d.

(* selector.go: declInfo — allocated once per Include call, shared (by pointer) between
   the buckets of its two filters, and mutated when a filter is hit. The heap of
   declInfo values is a list; a pointer is an index into it. *)
Record dinfo := { di_decl : decl; di_obj : string; di_meth : string }.

Record sel := {
  s_infos : list dinfo;                    (* heap of *declInfo *)
  s_by : list (string * list nat);         (* byFilter: key -> []*declInfo (append order) *)
  s_pending : list decl                    (* pendingDecls; HEAD = LAST element of the Go slice *)
}.

Definition empty_sel : sel := {| s_infos := []; s_by := []; s_pending := [] |}.

Fixpoint by_lookup (k : string) (by_ : list (string * list nat)) : option (list nat) :=
  match by_ with
  | [] => None
  | (k', v) :: r => if String.eqb k k' then Some v else by_lookup k r
  end.

(* s.byFilter[k] = append(s.byFilter[k], a) *)
Fixpoint by_append (k : string) (a : nat) (by_ : list (string * list nat)) : list (string * list nat) :=
  match by_ with
  | [] => [(k, [a])]
  | (k', v) :: r => if String.eqb k k' then (k', v ++ [a]) :: r else (k', v) :: by_append k a r
  end.

(* delete(s.byFilter, k) *)
Fixpoint by_delete (k : string) (by_ : list (string * list nat)) : list (string * list nat) :=
  match by_ with
  | [] => []
  | (k', v) :: r => if String.eqb k k' then by_delete k r else (k', v) :: by_delete k r
  end.

(* Selector.Include *)
Definition include (s : sel) (d : decl) : sel :=
  if is_alive d then
    {| s_infos := s_infos s; s_by := s_by s; s_pending := d :: s_pending s |}
  else
    let pend := if d_link d then d :: s_pending s else s_pending s in
    let a := List.length (s_infos s) in
    let by1 := if is_empty (d_obj d) then s_by s else by_append (d_obj d) a (s_by s) in
    let by2 := if is_empty (d_meth d) then by1 else by_append (d_meth d) a by1 in
    (* info.objectFilter / info.methodFilter are copied only when non-empty — they are "" otherwise anyway *)
    {| s_infos := s_infos s ++ [ {| di_decl := d; di_obj := d_obj d; di_meth := d_meth d |} ];
       s_by := by2; s_pending := pend |}.

Fixpoint heap_set (a : nat) (x : dinfo) (h : list dinfo) : list dinfo :=
  match h, a with
  | [], _ => []
  | _ :: r, O => x :: r
  | y :: r, S a' => y :: heap_set a' x r
  end.

(* the inner loop  `for _, info := range infos { ... }`  of AliveDecls for one dep *)
Fixpoint process_bucket (dep : string) (addrs : list nat) (h : list dinfo) (pend : list decl)
  : list dinfo * list decl :=
  match addrs with
  | [] => (h, pend)
  | a :: r =>
      match nth_error h a with
      | None => process_bucket dep r h pend          (* unreachable: pointers are always valid *)
      | Some info =>
          let o := if String.eqb (di_obj info) dep then "" else di_obj info in
          let m := if String.eqb (di_meth info) dep then "" else di_meth info in
          let info' := {| di_decl := di_decl info; di_obj := o; di_meth := m |} in
          let pend' := if is_empty o && is_empty m then di_decl info :: pend else pend in
          process_bucket dep r (heap_set a info' h) pend'
      end
  end.

(* `for _, dep := range dce.getDeps() { if infos, ok := s.byFilter[dep]; ok { delete(...); ... } }` *)
Fixpoint process_deps (deps : list string) (s : sel) : sel :=
  match deps with
  | [] => s
  | dep :: r =>
      match by_lookup dep (s_by s) with
      | None => process_deps r s
      | Some addrs =>
          let '(h, p) := process_bucket dep addrs (s_infos s) (s_pending s) in
          process_deps r {| s_infos := h; s_by := by_delete dep (s_by s); s_pending := p |}
      end
  end.

(* AliveDecls: `for len(s.pendingDecls) != 0 { d := s.popPending(); dceSelection[d] = struct{}{}; ... }`.
   The selection is returned as the list of popped declarations (a set in Go). [None] = out of fuel. *)
Fixpoint alive_loop (fuel : nat) (s : sel) (selection : list decl) : option (list decl) :=
  match fuel with
  | O => None
  | S f =>
      match s_pending s with
      | [] => Some selection
      | d :: p =>
          alive_loop f (process_deps (d_deps d) {| s_infos := s_infos s; s_by := s_by s; s_pending := p |})
                     (d :: selection)
      end
  end.

(* total number of bucket entries + pending: strictly decreases in every iteration *)
Definition by_size (by_ : list (string * list nat)) : nat :=
  fold_right (fun kv n => List.length (snd kv) + n) O by_.
Definition measure (s : sel) : nat := List.length (s_pending s) + by_size (s_by s).

Definition include_all (ds : list decl) : sel := fold_left include ds empty_sel.

Definition select_decls (ds : list decl) : option (list decl) :=
  let s := include_all ds in alive_loop (S (measure s)) s [].

(* the observable: the set of selected declaration identities *)
Definition select (ds : list decl) : option (list N) := option_map (map d_id) (select_decls ds).

(* ---- specification side (used by the theorems) -------------------------- *)

(* roots: WriteProgramCode/Include push these unconditionally *)
Definition is_root (d : decl) : bool := is_alive d || d_link d.

(* the non-empty filters of a declaration *)
Definition filters (d : decl) : list string :=
  (if is_empty (d_obj d) then [] else [d_obj d]) ++ (if is_empty (d_meth d) then [] else [d_meth d]).
