(* C01 stage 2 — the boolean well-formedness check that delimits the proved stage-2 fragment
   (no proofs here).  What go/types + the fragment's restrictions amount to: every call names a
   declared function and passes arguments of exactly the parameter types; `v = f(..)` / `v := f(..)`
   need a result of the type of v; `return e` matches the result type; [TBase] statements are
   well-formed stage-1 statements outside any stage-1 loop context; a stage-2 loop body does not
   end in `return` (the translator would drop the post statement); every declaration (parameters
   included) has its own identity; a function with a result ends in `return`. *)
From Coq Require Import ZArith List String Bool.
From Verif Require Import Model.C01_GoSem Model.C01_Wf Model.C01_S2_GoSem.
Import ListNotations.
Local Open Scope Z_scope.

Fixpoint wf_args (g : env) (es : list expr) (ts : list ty) : bool :=
  match es, ts with
  | [], [] => true
  | e :: es', t :: ts' => opt_ty_is (wf_expr g e) t && wf_args g es' ts'
  | _, _ => false
  end.

Fixpoint ends_ret (s : stmt2) : bool :=
  match s with
  | TReturn _ => true
  | TSeq a b => match b with TSkip => ends_ret a | _ => ends_ret b end
  | _ => false
  end.

Fixpoint wf_stmt2 (fe : fenv) (rt : option ty) (g : env) (s : stmt2) {struct s} : option env :=
  match s with
  | TSkip => Some g
  | TBase b => wf_stmt [] g b
  | TSeq a b => match wf_stmt2 fe rt g a with Some g1 => wf_stmt2 fe rt g1 b | None => None end
  | TCall dst f args =>
      match find_fn fe f with
      | None => None
      | Some fd =>
          if wf_args g args (map snd (f_params fd)) then
            match dst with
            | None => Some g
            | Some (v, None) =>
                match f_ret fd, env_get g v with
                | Some t, Some t' => if ty_eqb t t' then Some g else None
                | _, _ => None
                end
            | Some (v, Some t) =>
                match f_ret fd with
                | Some t' => if ty_eqb t t' then Some ((v, t) :: g) else None
                | None => None
                end
            end
          else None
      end
  | TIf c t e =>
      if opt_ty_is (wf_expr g c) TB then
        match wf_stmt2 fe rt g t, wf_stmt2 fe rt g e with
        | Some _, Some _ => Some g
        | _, _ => None
        end
      else None
  | TFor init c post body =>
      match wf_simple g init true with
      | Some g1 =>
          if opt_ty_is (wf_expr g1 c) TB && negb (is_boollit c) && negb (ends_ret body) then
            match wf_simple g1 post false, wf_stmt2 fe rt g1 body with
            | Some _, Some _ => Some g
            | _, _ => None
            end
          else None
      | None => None
      end
  | TReturn None => match rt with None => Some g | Some _ => None end
  | TReturn (Some e) =>
      match rt with
      | Some t => if opt_ty_is (wf_expr g e) t then Some g else None
      | None => None
      end
  end.

Fixpoint defs2 (s : stmt2) : list name :=
  match s with
  | TBase b => defs b
  | TSeq a b => defs2 a ++ defs2 b
  | TCall (Some (v, Some _)) _ _ => [v]
  | TIf _ t e => defs2 t ++ defs2 e
  | TFor init _ _ body => defs init ++ defs2 body
  | _ => []
  end.

Definition wf_fn (fe : fenv) (fd : fdef) : bool :=
  match wf_stmt2 fe (f_ret fd) (rev (f_params fd)) (f_body fd) with
  | Some _ => nodupb (map fst (f_params fd) ++ defs2 (f_body fd)) &&
              match f_ret fd with Some _ => ends_ret (f_body fd) | None => true end
  | None => false
  end.

Definition wf_prog2 (p : prog2) : bool :=
  forallb (fun x => wf_fn (p_funcs p) (snd x)) (p_funcs p) &&
  match find_fn (p_funcs p) (p_main p) with
  | Some fd => match f_params fd, f_ret fd with [], None => true | _, _ => false end
  | None => false
  end.
