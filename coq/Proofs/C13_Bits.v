(* C13 — math/bits overrides equal the upstream 64-bit definitions: proofs. *)
From Coq Require Import ZArith Lia List Bool.
From Verif Require Import Model.C13_Bits.
Local Open Scope Z_scope.

Lemma land_mask16 : forall x, Z.land x mask16 = x mod 65536.
Proof. intros x. change mask16 with (Z.ones 16). rewrite Z.land_ones by lia. reflexivity. Qed.

Lemma shr32_16 : forall x, shr32 x 16 = x / 65536.
Proof. intros x. unfold shr32. change (32 <=? 16) with false. cbv iota. rewrite Z.shiftr_div_pow2 by lia. reflexivity. Qed.

Lemma w32_small : forall x, 0 <= x < 4294967296 -> w32 x = x.
Proof. intros x H. unfold w32, two32. apply Z.mod_small. exact H. Qed.

(* ------------------------------------------------------------------ Mul32 *)
Theorem mul32_correct : forall x y, u32 x -> u32 y -> mul32 x y = go_mul32 x y.
Proof.
  intros x y Hx Hy. unfold u32, two32 in *. unfold mul32, go_mul32.
  rewrite !land_mask16, !shr32_16.
  pose proof (Z.div_mod x 65536 ltac:(lia)) as Ex. pose proof (Z.div_mod y 65536 ltac:(lia)) as Ey.
  pose proof (Z.mod_pos_bound x 65536 ltac:(lia)) as Bx0. pose proof (Z.mod_pos_bound y 65536 ltac:(lia)) as By0.
  assert (Bx1 : 0 <= x / 65536 < 65536) by (split; [apply Z.div_pos; lia | apply Z.div_lt_upper_bound; lia]).
  assert (By1 : 0 <= y / 65536 < 65536) by (split; [apply Z.div_pos; lia | apply Z.div_lt_upper_bound; lia]).
  set (x0 := x mod 65536) in *. set (x1 := x / 65536) in *. set (y0 := y mod 65536) in *. set (y1 := y / 65536) in *.
  clearbody x0 x1 y0 y1.
  assert (Hxy : x * y = x1 * y1 * 4294967296 + (x1 * y0 + x0 * y1) * 65536 + x0 * y0) by (rewrite Ex, Ey; ring).
  rewrite Hxy. clear Hxy Ex Ey Hx Hy.
  assert (B00 : 0 <= x0 * y0 <= 65535 * 65535) by nia.
  assert (B10 : 0 <= x1 * y0 <= 65535 * 65535) by nia.
  assert (B01 : 0 <= x0 * y1 <= 65535 * 65535) by nia.
  assert (B11 : 0 <= x1 * y1 <= 65535 * 65535) by nia.
  set (p00 := x0 * y0) in *. set (p10 := x1 * y0) in *. set (p01 := x0 * y1) in *. set (p11 := x1 * y1) in *.
  clearbody p00 p10 p01 p11. clear - B00 B10 B01 B11.
  unfold w32, two32. f_equal; Z.div_mod_to_equations; lia.
Qed.

(* ------------------------------------------------------------------ Add32 *)
Lemma testbit31 : forall a, 0 <= a < 4294967296 -> Z.testbit a 31 = (2147483648 <=? a).
Proof.
  intros a H. rewrite Z.testbit_odd, Z.shiftr_div_pow2 by lia. change (2 ^ 31) with 2147483648.
  destruct (Z.leb_spec 2147483648 a).
  - replace (a / 2147483648) with 1 by (Z.div_mod_to_equations; lia). reflexivity.
  - replace (a / 2147483648) with 0 by (Z.div_mod_to_equations; lia). reflexivity.
Qed.

Lemma hibits : forall a k, 0 <= a < 4294967296 -> 32 <= k -> Z.testbit a k = false.
Proof.
  intros a k H Hk. destruct (Z.eq_dec a 0) as [->|Ha]; [apply Z.testbit_0_l|].
  apply Z.bits_above_log2; [lia|].
  assert (Z.log2 a < 32) by (apply Z.log2_lt_pow2; [lia | change (2 ^ 32) with 4294967296; lia]). lia.
Qed.

Theorem add32_correct : forall x y c, u32 x -> u32 y -> (c = 0 \/ c = 1) -> add32 x y c = go_add32 x y c.
Proof.
  intros x y c Hx Hy Hc. unfold u32, two32 in *. unfold add32, go_add32.
  assert (Hs : w32 (w32 (x + y) + c) = (x + y + c) mod two32) by (unfold w32, two32; Z.div_mod_to_equations; lia).
  rewrite Hs. unfold two32. set (s := (x + y + c) mod 4294967296).
  assert (Bs : 0 <= s < 4294967296) by (apply Z.mod_pos_bound; lia).
  assert (E : (x + y + c) / 4294967296 = 0 \/ (x + y + c) / 4294967296 = 1) by (Z.div_mod_to_equations; lia).
  assert (Es : x + y + c = 4294967296 * ((x + y + c) / 4294967296) + s) by (apply Z.div_mod; lia).
  f_equal.
  unfold shr32. change (32 <=? 31) with false. cbv iota.
  apply Z.bits_inj'. intros n Hn. rewrite Z.shiftr_spec by lia.
  rewrite Z.lor_spec, Z.land_spec, Z.ldiff_spec, Z.lor_spec.
  destruct (Z.eq_dec n 0) as [->|Hn0].
  - change (0 + 31) with 31. rewrite !testbit31 by assumption. rewrite Z.bit0_odd.
    destruct (Z.leb_spec 2147483648 x), (Z.leb_spec 2147483648 y), (Z.leb_spec 2147483648 s);
      destruct E as [E|E]; rewrite E in *; cbn; try reflexivity; exfalso; lia.
  - rewrite !hibits by (assumption || lia). cbn.
    destruct E as [E|E]; rewrite E; [rewrite Z.testbit_0_l; reflexivity|].
    symmetry. apply Z.bits_above_log2; [lia | cbn; lia].
Qed.

(* ------------------------------------------------------------------ Div32 *)

(* one quotient digit of Knuth's algorithm D with the correction loop: U < y is the running
   remainder, u the next 16-bit digit, y = yn1*2^16 + yn0 normalised (yn1 >= 2^15) *)
Lemma div_correct_spec : forall fuel yn1 yn0 u U q rhat,
  32768 <= yn1 < 65536 -> 0 <= yn0 < 65536 -> 0 <= u < 65536 ->
  0 <= U < yn1 * 65536 + yn0 ->
  q * yn1 + rhat = U -> 0 <= rhat < 65536 ->
  (U * 65536 + u) / (yn1 * 65536 + yn0) <= q -> q <= 65537 ->
  98304 <= rhat + Z.of_nat fuel * 32768 ->
  div_correct fuel yn1 yn0 u q rhat = (U * 65536 + u) / (yn1 * 65536 + yn0).
Proof.
  induction fuel as [|fuel IH]; intros yn1 yn0 u U q rhat Hyn1 Hyn0 Hu HU Hq Hr HQ Hq2 Hfuel; [cbn in Hfuel; lia|].
  set (y := yn1 * 65536 + yn0) in *.
  set (Q := (U * 65536 + u) / y) in *.
  assert (Hy : 0 < y) by (unfold y; lia).
  assert (HQ0 : 0 <= Q) by (apply Z.div_pos; lia).
  assert (Hq0 : 0 <= q) by lia.
  assert (Hqy : q * y = (U - rhat) * 65536 + q * yn0) by (unfold y; rewrite <- Hq; ring).
  assert (Bq0 : 0 <= q * yn0) by (apply Z.mul_nonneg_nonneg; lia).
  (* the decrement step, used in both branches where q is too large *)
  assert (Hdec : Q < q ->
     (let q' := w32 (q - 1) in let rhat' := w32 (rhat + yn1) in
      if two16 <=? rhat' then q' else div_correct fuel yn1 yn0 u q' rhat') = Q).
  { intros Hlt. cbv zeta. rewrite (w32_small (q - 1)) by lia. rewrite (w32_small (rhat + yn1)) by lia.
    unfold two16. destruct (Z.leb_spec 65536 (rhat + yn1)) as [Hbrk|Hno].
    - (* break: q-1 cannot be too large any more *)
      assert (Hle : q - 1 <= Q).
      { apply Z.div_le_lower_bound; [lia|].
        assert ((q - 1) * yn0 <= 65536 * 65535) by (apply Z.mul_le_mono_nonneg; lia).
        replace (y * (q - 1)) with ((U - (rhat + yn1)) * 65536 + (q - 1) * yn0) by (unfold y; rewrite <- Hq; ring).
        lia. }
      lia.
    - apply (IH yn1 yn0 u U (q - 1) (rhat + yn1)); try lia.
      all: try (fold y; fold Q; lia).
      all: try (rewrite Nat2Z.inj_succ in Hfuel; lia).
      all: try (rewrite <- Hq; ring). }
  cbn [div_correct]. unfold two16 at 1.
  destruct (Z.leb_spec 65536 q) as [Hbig|Hsmall].
  - rewrite orb_true_l. apply Hdec.
    (* Q < 2^16 <= q *)
    apply Z.lt_le_trans with 65536; [|lia]. apply Z.div_lt_upper_bound; [lia|]. unfold y in *. lia.
  - rewrite orb_false_l.
    rewrite (w32_small (two16 * rhat)) by (unfold two16; lia).
    rewrite (w32_small (two16 * rhat + u)) by (unfold two16; lia).
    assert (Bq : q * yn0 <= 65535 * 65535) by (apply Z.mul_le_mono_nonneg; lia).
    rewrite (w32_small (q * yn0)) by lia.
    unfold two16. destruct (Z.ltb_spec (65536 * rhat + u) (q * yn0)) as [Hgt|Hle].
    + apply Hdec. apply Z.div_lt_upper_bound; [lia|]. rewrite Z.mul_comm. lia.
    + (* q * y <= U*2^16 + u, so q <= Q *)
      assert (q <= Q) by (apply Z.div_le_lower_bound; [lia|]; rewrite Z.mul_comm; lia).
      fold Q. lia.
Qed.

Lemma lor_add_low : forall a t s, 0 <= s -> 0 <= t < 2 ^ s -> Z.lor (a * 2 ^ s) t = a * 2 ^ s + t.
Proof.
  intros a t s Hs Ht.
  assert (Hl : Z.land (a * 2 ^ s) t = 0).
  { apply Z.bits_inj'. intros n Hn. rewrite Z.land_spec, Z.bits_0.
    destruct (Z.lt_ge_cases n s).
    - rewrite Z.mul_pow2_bits_low by lia. reflexivity.
    - destruct (Z.eq_dec t 0) as [->|Ht0]; [rewrite Z.testbit_0_l; apply andb_false_r|].
      rewrite (Z.bits_above_log2 t n); [apply andb_false_r | lia |].
      assert (Z.log2 t < s) by (apply Z.log2_lt_pow2; lia). lia. }
  rewrite <- Z.lxor_lor by exact Hl. symmetry. apply Z.add_nocarry_lxor. exact Hl.
Qed.

Lemma w32_sub3 : forall a b c, w32 (w32 (w32 a + b) - w32 c) = w32 (a + b - c).
Proof. intros. unfold w32, two32. Z.div_mod_to_equations. lia. Qed.

Lemma w32_add2 : forall a b, w32 (w32 a + b) = w32 (a + b).
Proof. intros. unfold w32, two32. Z.div_mod_to_equations. lia. Qed.

Lemma first_guess : forall U yn1 yn0 u,
  32768 <= yn1 < 65536 -> 0 <= yn0 < 65536 -> 0 <= u < 65536 -> 0 <= U < yn1 * 65536 + yn0 ->
  (U * 65536 + u) / (yn1 * 65536 + yn0) <= U / yn1 /\ U / yn1 <= 65537 /\ 0 <= U mod yn1 < 65536 /\
  U / yn1 * yn1 + U mod yn1 = U.
Proof.
  intros U yn1 yn0 u H1 H0 Hu HU.
  pose proof (Z.div_mod U yn1 ltac:(lia)) as Hdm. pose proof (Z.mod_pos_bound U yn1 ltac:(lia)) as Hm.
  assert (Hq0 : 0 <= U / yn1) by (apply Z.div_pos; lia).
  repeat split; try lia.
  - apply Z.lt_succ_r. apply Z.div_lt_upper_bound; [lia|].
    set (q := U / yn1) in *.
    assert (0 <= yn0 * Z.succ q) by (apply Z.mul_nonneg_nonneg; lia).
    replace ((yn1 * 65536 + yn0) * Z.succ q) with (65536 * (yn1 * q + yn1) + yn0 * Z.succ q) by ring. lia.
  - apply Z.lt_succ_r. apply Z.div_lt_upper_bound; lia.
Qed.

Theorem div32_correct : forall hi lo y, u32 hi -> u32 lo -> u32 y -> div32 hi lo y = go_div32 hi lo y.
Proof.
  intros hi lo y Hhi Hlo Hy. unfold u32, two32 in *. unfold div32, go_div32.
  destruct (Z.eqb_spec y 0) as [->|Hy0]; [cbn; reflexivity|].
  cbn [negb andb]. destruct (Z.leb_spec y hi) as [Hov|Hlt]; [reflexivity|].
  (* normalisation *)
  unfold leading_zeros32, len32. destruct (Z.eqb_spec y 0) as [|_]; [contradiction|].
  pose proof (Z.log2_spec y ltac:(lia)) as [Hl1 Hl2].
  pose proof (Z.log2_nonneg y) as Hl0.
  assert (Hl31 : Z.log2 y < 32) by (apply Z.log2_lt_pow2; [lia | change (2 ^ 32) with 4294967296; lia]).
  set (s := 32 - (Z.log2 y + 1)) in *.
  assert (Hs : 0 <= s < 32) by (unfold s; lia).
  set (P := 2 ^ s).
  assert (HP : 0 < P) by (apply Z.pow_pos_nonneg; lia).
  assert (HP31 : 2 ^ Z.log2 y * P = 2147483648).
  { unfold P. rewrite <- Z.pow_add_r by lia. replace (Z.log2 y + s) with 31 by (unfold s; lia). reflexivity. }
  assert (HYb : 2147483648 <= y * P < 4294967296).
  { replace (Z.succ (Z.log2 y)) with (Z.log2 y + 1) in Hl2 by lia. rewrite Z.pow_add_r in Hl2 by lia. change (2 ^ 1) with 2 in Hl2. nia. }
  assert (Hshl : forall a, 0 <= a -> a * P < 4294967296 -> shl32 a s = a * P).
  { intros a Ha Hb. unfold shl32. destruct (Z.leb_spec 32 s); [lia|]. rewrite Z.shiftl_mul_pow2 by lia. apply w32_small. fold P. nia. }
  rewrite (Hshl y) by lia.
  set (Y := y * P) in *.
  rewrite (Hshl hi) by nia.
  (* the shifted dividend N = (hi*2^32 + lo) * 2^s = un16 * 2^32 + un10 *)
  set (t := shr32 lo (32 - s)).
  assert (Ht : t = lo * P / 4294967296 /\ 0 <= t < P).
  { unfold t, shr32. destruct (Z.leb_spec 32 (32 - s)).
    - assert (s = 0) by lia. subst s. unfold P in *. replace (32 - (Z.log2 y + 1)) with 0 in * by lia.
      change (2 ^ 0) with 1. rewrite Z.mul_1_r. rewrite Z.div_small by lia. lia.
    - rewrite Z.shiftr_div_pow2 by lia.
      assert (E32 : 4294967296 = 2 ^ (32 - s) * P) by (unfold P; rewrite <- Z.pow_add_r by lia; replace (32 - s + s) with 32 by lia; reflexivity).
      rewrite E32. rewrite Z.div_mul_cancel_r by lia. split; [reflexivity|].
      assert (0 < 2 ^ (32 - s)) by (apply Z.pow_pos_nonneg; lia).
      split; [apply Z.div_pos; lia|]. apply Z.div_lt_upper_bound; [lia|]. nia. }
  destruct Ht as [Et Bt].
  assert (Hlor : Z.lor (hi * P) t = hi * P + t) by (unfold P in *; apply lor_add_low; lia).
  rewrite Hlor. clear Hlor.
  set (un16 := hi * P + t).
  assert (Hun10 : shl32 lo s = (lo * P) mod 4294967296).
  { unfold shl32. destruct (Z.leb_spec 32 s); [lia|]. rewrite Z.shiftl_mul_pow2 by lia. reflexivity. }
  rewrite Hun10. set (un10 := (lo * P) mod 4294967296).
  assert (Bun10 : 0 <= un10 < 4294967296) by (apply Z.mod_pos_bound; lia).
  assert (HN : (hi * 4294967296 + lo) * P = un16 * 4294967296 + un10).
  { unfold un16, un10. rewrite Et. pose proof (Z.div_mod (lo * P) 4294967296 ltac:(lia)). lia. }
  assert (Bun16 : 0 <= un16 < Y).
  { split.
    - unfold un16. assert (0 <= hi * P) by (apply Z.mul_nonneg_nonneg; lia). lia.
    - assert (Hz0 : hi * 4294967296 + lo < y * 4294967296) by lia.
      assert (Hz1 : (hi * 4294967296 + lo) * P < y * 4294967296 * P) by (apply Z.mul_lt_mono_pos_r; lia).
      replace (y * 4294967296 * P) with (Y * 4294967296) in Hz1 by (unfold Y; ring). lia. }
  clearbody un16 un10. clear t Et Bt Hun10.
  rewrite !land_mask16, !shr32_16.
  set (yn1 := Y / 65536). set (yn0 := Y mod 65536).
  set (un1 := un10 / 65536). set (un0 := un10 mod 65536).
  assert (Byn1 : 32768 <= yn1 < 65536) by (unfold yn1; Z.div_mod_to_equations; lia).
  assert (Byn0 : 0 <= yn0 < 65536) by (unfold yn0; apply Z.mod_pos_bound; lia).
  assert (Bun1 : 0 <= un1 < 65536) by (unfold un1; Z.div_mod_to_equations; lia).
  assert (Bun0 : 0 <= un0 < 65536) by (unfold un0; apply Z.mod_pos_bound; lia).
  assert (EY : Y = yn1 * 65536 + yn0) by (unfold yn1, yn0; Z.div_mod_to_equations; lia).
  assert (Eun10 : un10 = un1 * 65536 + un0) by (unfold un1, un0; Z.div_mod_to_equations; lia).
  clearbody yn1 yn0 un1 un0.
  (* first digit *)
  destruct (first_guess un16 yn1 yn0 un1 Byn1 Byn0 Bun1 ltac:(lia)) as (G1 & G2 & G3 & G4).
  assert (Hrhat1 : w32 (un16 - w32 (un16 / yn1 * yn1)) = un16 mod yn1).
  { assert (0 <= un16 / yn1 * yn1) by (apply Z.mul_nonneg_nonneg; [apply Z.div_pos|]; lia).
    rewrite (w32_small (un16 / yn1 * yn1)) by lia.
    replace (un16 - un16 / yn1 * yn1) with (un16 mod yn1) by lia. apply w32_small. lia. }
  rewrite Hrhat1.
  rewrite (div_correct_spec loop_fuel yn1 yn0 un1 un16 (un16 / yn1) (un16 mod yn1)) by (unfold loop_fuel; lia).
  rewrite <- EY.
  set (q1 := (un16 * 65536 + un1) / Y).
  assert (Bq1 : 0 <= q1 < 65536) by (unfold q1; split; [apply Z.div_pos; lia | apply Z.div_lt_upper_bound; lia]).
  rewrite w32_sub3. unfold two16.
  assert (Hun21 : w32 (un16 * 65536 + un1 - q1 * Y) = (un16 * 65536 + un1) mod Y).
  { rewrite Z.mod_eq by lia. fold q1. rewrite (Z.mul_comm Y q1). apply w32_small.
    pose proof (Z.mod_pos_bound (un16 * 65536 + un1) Y ltac:(lia)) as Hb. rewrite Z.mod_eq in Hb by lia. fold q1 in Hb. lia. }
  rewrite Hun21. set (un21 := (un16 * 65536 + un1) mod Y).
  assert (Bun21 : 0 <= un21 < Y) by (apply Z.mod_pos_bound; lia).
  assert (E1 : un16 * 65536 + un1 = Y * q1 + un21) by (apply Z.div_mod; lia).
  clearbody un21 q1.
  (* second digit *)
  destruct (first_guess un21 yn1 yn0 un0 Byn1 Byn0 Bun0 ltac:(lia)) as (K1 & K2 & K3 & K4).
  assert (Hrhat2 : w32 (un21 - w32 (un21 / yn1 * yn1)) = un21 mod yn1).
  { assert (0 <= un21 / yn1 * yn1) by (apply Z.mul_nonneg_nonneg; [apply Z.div_pos|]; lia).
    rewrite (w32_small (un21 / yn1 * yn1)) by lia.
    replace (un21 - un21 / yn1 * yn1) with (un21 mod yn1) by lia. apply w32_small. lia. }
  rewrite Hrhat2.
  rewrite (div_correct_spec loop_fuel yn1 yn0 un0 un21 (un21 / yn1) (un21 mod yn1)) by (unfold loop_fuel; lia).
  rewrite <- EY.
  set (q0 := (un21 * 65536 + un0) / Y).
  assert (Bq0 : 0 <= q0 < 65536) by (unfold q0; split; [apply Z.div_pos; lia | apply Z.div_lt_upper_bound; lia]).
  rewrite w32_sub3, w32_add2.
  assert (HR0 : w32 (un21 * 65536 + un0 - q0 * Y) = (un21 * 65536 + un0) mod Y).
  { rewrite Z.mod_eq by lia. fold q0. rewrite (Z.mul_comm Y q0). apply w32_small.
    pose proof (Z.mod_pos_bound (un21 * 65536 + un0) Y ltac:(lia)) as Hb. rewrite Z.mod_eq in Hb by lia. fold q0 in Hb. lia. }
  rewrite HR0. set (R0 := (un21 * 65536 + un0) mod Y).
  assert (BR0 : 0 <= R0 < Y) by (apply Z.mod_pos_bound; lia).
  assert (E0 : un21 * 65536 + un0 = Y * q0 + R0) by (apply Z.div_mod; lia).
  clearbody R0 q0.
  rewrite (w32_small (q1 * 65536 + q0)) by lia.
  (* put the two digits together: N = (q1*2^16 + q0) * Y + R0 *)
  set (z := hi * 4294967296 + lo) in *.
  assert (HNdiv : z * P = Y * (q1 * 65536 + q0) + R0) by lia.
  assert (Hz : 0 <= z < y * 4294967296) by (unfold z; lia).
  assert (Hquo : q1 * 65536 + q0 = z / y).
  { assert (E : (z * P) / Y = q1 * 65536 + q0) by (symmetry; apply (Z.div_unique_pos _ _ _ R0); lia).
    unfold Y in E. rewrite Z.div_mul_cancel_r in E by lia. lia. }
  assert (Hrem : R0 = (z mod y) * P).
  { assert (E : (z * P) mod Y = R0) by (symmetry; apply (Z.mod_unique_pos _ _ (q1 * 65536 + q0)); lia).
    unfold Y in E. rewrite Z.mul_mod_distr_r in E by lia. lia. }
  assert (Bzq : 0 <= z / y < 4294967296) by (split; [apply Z.div_pos; lia | apply Z.div_lt_upper_bound; lia]).
  pose proof (Z.mod_pos_bound z y ltac:(lia)) as Bzm.
  rewrite Hquo, Hrem. unfold shr32. destruct (Z.leb_spec 32 s); [lia|].
  rewrite Z.shiftr_div_pow2 by lia. fold P. rewrite Z.div_mul by lia.
  unfold two32. rewrite (Z.mod_small (z / y)) by lia. rewrite (Z.mod_small (z mod y)) by lia. reflexivity.
Qed.

(* ------------------------------------------------------------------ Rem32 *)
Theorem rem32_correct : forall hi lo y, u32 hi -> u32 lo -> u32 y -> rem32 hi lo y = go_rem32 hi lo y.
Proof.
  intros hi lo y Hhi Hlo Hy. unfold rem32, go_rem32. destruct (Z.eqb_spec y 0) as [|Hy0]; [reflexivity|].
  unfold u32, two32 in *.
  pose proof (Z.mod_pos_bound hi y ltac:(lia)) as Hm.
  rewrite div32_correct by (unfold u32, two32; lia).
  unfold go_div32. destruct (Z.eqb_spec y 0) as [|_]; [contradiction|]. cbn [negb andb].
  destruct (Z.leb_spec y (hi mod y)); [lia|].
  f_equal. f_equal. unfold two32.
  (* (hi mod y) * 2^32 + lo  ==  hi * 2^32 + lo   (mod y) *)
  rewrite <- (Z.add_mod_idemp_l (hi mod y * 4294967296)) by lia.
  rewrite <- (Z.add_mod_idemp_l (hi * 4294967296)) by lia.
  rewrite Z.mul_mod_idemp_l by lia. reflexivity.
Qed.
