(* C04 phase 4 — the JS reference of an instance (objectName(o)[id]) identifies the instance. *)
From Coq Require Import List NArith Bool Arith String Lia.
From Verif Require Import Model.C04_Inst Model.C04_P4_Name Proofs.C04_Inst.
Import ListNotations.
Local Open Scope string_scope.

(* the variable table is what funcContext.newVariable allocates: distinct objects of one package get distinct
   package-level variables (hypothesis of the theorem; checked on every compiled program by the correspondence) *)
Definition is_obj (p : prog) (o : N) : Prop := N.to_nat o < List.length (p_objs p).

Definition vars_distinct (p : prog) (nm : names) : Prop :=
  forall o1 o2, is_obj p o1 -> is_obj p o2 -> o_pkg (get_obj p o1) = o_pkg (get_obj p o2) ->
                assoc (n_var nm) o1 = assoc (n_var nm) o2 -> o1 = o2.

Lemma is_trivial_spec : forall i, is_trivial i = true -> i = mkInst (i_obj i) [] [].
Proof.
  intros [o a n]. unfold is_trivial; simpl. destruct a; destruct n; intro H; try discriminate; reflexivity.
Qed.

(* generic instances: the same (package, variable, id) means the same instance - no hypothesis at all *)
Theorem js_ref_generic_injective_lem : forall p st nm i j pk v n,
  js_ref p st nm i = Some (pk, v, Some n) -> js_ref p st nm j = Some (pk, v, Some n) -> i = j.
Proof.
  intros p st nm i j pk v n Hi Hj. unfold js_ref in *.
  destruct (is_trivial i); [discriminate|]. destruct (is_trivial j); [discriminate|].
  destruct (inst_id p st i) as [a|] eqn:Ei; [|discriminate].
  destruct (inst_id p st j) as [b|] eqn:Ej; [|discriminate].
  inversion Hi as [[Hp Hv Hn]]. inversion Hj as [[Hp' Hv' Hn']]. subst a b.
  eapply id_injective_lem; [| exact Ei | exact Ej]. unfold pkg_of. rewrite Hp, Hp'. reflexivity.
Qed.

(* all instances, including the trivial ones of non-generic objects (reference = the variable alone) *)
Theorem js_ref_injective_lem : forall p st nm i j r,
  vars_distinct p nm -> is_obj p (i_obj i) -> is_obj p (i_obj j) ->
  js_ref p st nm i = Some r -> js_ref p st nm j = Some r -> i = j.
Proof.
  intros p st nm i j r VD Oi Oj Hi Hj. destruct r as [[pk v] [n|]].
  - eapply js_ref_generic_injective_lem; eauto.
  - unfold js_ref in *.
    destruct (is_trivial i) eqn:Ti; [| destruct (inst_id p st i); discriminate].
    destruct (is_trivial j) eqn:Tj; [| destruct (inst_id p st j); discriminate].
    inversion Hi as [[Hp Hv]]. inversion Hj as [[Hp' Hv']].
    apply is_trivial_spec in Ti. apply is_trivial_spec in Tj. rewrite Ti, Tj. f_equal.
    apply VD; auto; congruence.
Qed.

(* identical instances (types.Identical on all arguments = inst_eqb) always get the same reference and strings *)
Theorem js_ref_same_lem : forall p st nm i j,
  inst_eqb i j = true ->
  js_ref p st nm i = js_ref p st nm j /\ js_name p st nm i = js_name p st nm j /\
  type_string nm i = type_string nm j /\ inst_string nm i = inst_string nm j.
Proof. intros p st nm i j E. apply inst_eqb_spec in E. subst j. repeat split. Qed.

(* every collected instance has a reference (instName does not panic) *)
Theorem js_ref_total_lem : forall p fuel sched nm i,
  In i (all_vals (collect p fuel sched)) -> exists r, js_ref p (collect p fuel sched) nm i = Some r.
Proof.
  intros p fuel sched nm i H. unfold js_ref. destruct (is_trivial i); [eexists; reflexivity|].
  destruct (id_total_lem p (collect p fuel sched) i) as [n E].
  - apply collect_placed.
  - apply In_st_all_vals; exact H.
  - rewrite E. eexists; reflexivity.
Qed.

(* ... and the id in it is the position in the package's discovery list *)
Theorem js_ref_position_lem : forall p fuel sched nm k n i,
  k < List.length (collect p fuel sched) -> is_trivial i = false ->
  nth_error (vals_k (collect p fuel sched) k) n = Some i ->
  js_ref p (collect p fuel sched) nm i = Some (o_pkg (get_obj p (i_obj i)), assoc (n_var nm) (i_obj i), Some n).
Proof.
  intros p fuel sched nm k n i K T H. unfold js_ref. rewrite T.
  erewrite id_position_lem; eauto. apply collect_placed.
Qed.

(* ---- the type STRING (Instance.TypeString, the string given to $newType) does not identify the instance:
   go/types prints two types declared in different scopes of one function with the same text
   (func f() { type T int; { type T string; ... } }), so G[T] and G[T'] are different instances with one string. *)
Definition nm_shadow : names :=
  mkNames [(0%N, "int"); (20%N, "main.T"); (21%N, "main.T")] [(0%N, "main.G")] [(0%N, "main.G")] [(0%N, "main.G")] [(0%N, "G")] "T" "N" "F".

Definition inst_shadow_a : inst := mkInst 0 [TBase 20] [].
Definition inst_shadow_b : inst := mkInst 0 [TBase 21] [].

Lemma type_string_not_injective_lem :
  inst_shadow_a <> inst_shadow_b /\
  type_string nm_shadow inst_shadow_a = type_string nm_shadow inst_shadow_b /\
  inst_string nm_shadow inst_shadow_a = inst_string nm_shadow inst_shadow_b /\
  type_string nm_shadow inst_shadow_a = "main.G[main.T]".
Proof. split; [discriminate|]. vm_compute. repeat split. Qed.

(* for the same two instances the JS references differ as soon as both are collected *)
Definition prog_shadow : prog :=
  mkProg 1 [mkObj 0 KType [] None false []] [RInst 0 [TBase 20] false; RInst 0 [TBase 21] false].

Lemma shadow_refs_differ_lem :
  js_name prog_shadow (collect prog_shadow 5 [0]) nm_shadow inst_shadow_a = Some "G[0 /* main.T */]" /\
  js_name prog_shadow (collect prog_shadow 5 [0]) nm_shadow inst_shadow_b = Some "G[1 /* main.T */]".
Proof. vm_compute. split; reflexivity. Qed.

(* with a table that spells the type arguments injectively, the components of the string determine the instance *)
Theorem name_parts_injective_lem : forall nm i j,
  (forall a b, ty_str nm a = ty_str nm b -> a = b) ->
  (forall o1 o2, assoc (n_sym nm) o1 = assoc (n_sym nm) o2 -> o1 = o2) ->
  assoc (n_sym nm) (i_obj i) = assoc (n_sym nm) (i_obj j) ->
  map (ty_str nm) (i_targs i) = map (ty_str nm) (i_targs j) ->
  map (ty_str nm) (i_tnest i) = map (ty_str nm) (i_tnest j) -> i = j.
Proof.
  intros nm [o a n] [o' a' n'] Inj InjO Ho Ha Hn. simpl in *.
  assert (M : forall l m, map (ty_str nm) l = map (ty_str nm) m -> l = m).
  { induction l; destruct m; simpl; intro E; try discriminate; auto.
    inversion E. f_equal; auto. }
  f_equal; auto.
Qed.

Lemma shadow_vars_distinct : vars_distinct prog_shadow nm_shadow.
Proof.
  intros o1 o2 H1 H2 _ _. unfold is_obj in *. simpl in *.
  assert (N.to_nat o1 = 0) by lia. assert (N.to_nat o2 = 0) by lia. lia.
Qed.
