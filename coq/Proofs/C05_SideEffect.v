(* C05 — proofs about the model of analysis.HasSideEffect (Model/C05_SideEffect.v). *)
From Coq Require Import List Bool NArith.
From Verif Require Import Model.C05_SideEffect.
Import ListNotations.

(* induction principle that goes through the argument / element / body lists *)
Section ExprInd.
Variable P : expr -> Prop.
Hypothesis HLit : P ELit.
Hypothesis HIdent : P EIdent.
Hypothesis HParen : forall e, P e -> P (EParen e).
Hypothesis HCall : forall s f args, P f -> Forall P args -> P (ECall s f args).
Hypothesis HUnary : forall op e, P e -> P (EUnary op e).
Hypothesis HStar : forall e, P e -> P (EStar e).
Hypothesis HBinary : forall op a b, P a -> P b -> P (EBinary op a b).
Hypothesis HIndex : forall a i, P a -> P i -> P (EIndex a i).
Hypothesis HSlice : forall a lo hi, P a -> P lo -> P hi -> P (ESlice a lo hi).
Hypothesis HSelector : forall e, P e -> P (ESelector e).
Hypothesis HTypeAssert : forall e, P e -> P (ETypeAssert e).
Hypothesis HComposite : forall elts, Forall P elts -> P (EComposite elts).
Hypothesis HFuncLit : forall body, Forall P body -> P (EFuncLit body).

Fixpoint expr_ind' (e : expr) : P e :=
  let all := fix all (l : list expr) : Forall P l :=
    match l with [] => Forall_nil P | x :: r => Forall_cons x (expr_ind' x) (all r) end in
  match e with
  | ELit => HLit
  | EIdent => HIdent
  | EParen e => HParen e (expr_ind' e)
  | ECall s f args => HCall s f args (expr_ind' f) (all args)
  | EUnary op e => HUnary op e (expr_ind' e)
  | EStar e => HStar e (expr_ind' e)
  | EBinary op a b => HBinary op a b (expr_ind' a) (expr_ind' b)
  | EIndex a i => HIndex a i (expr_ind' a) (expr_ind' i)
  | ESlice a lo hi => HSlice a lo hi (expr_ind' a) (expr_ind' lo) (expr_ind' hi)
  | ESelector e => HSelector e (expr_ind' e)
  | ETypeAssert e => HTypeAssert e (expr_ind' e)
  | EComposite elts => HComposite elts (all elts)
  | EFuncLit body => HFuncLit body (all body)
  end.
End ExprInd.

(* the list loops of the two functions, named *)
Definition hse_any := fix any (l : list expr) : bool :=
  match l with [] => false | x :: r => has_side_effect x || any r end.
Definition ecr_any := fix any (l : list expr) : bool :=
  match l with [] => false | x :: r => evaluates_call_or_recv x || any r end.

Lemma any_conservative : forall l,
  Forall (fun e => evaluates_call_or_recv e = true -> has_side_effect e = true) l ->
  ecr_any l = true -> hse_any l = true.
Proof.
  induction 1 as [|x r Hx _ IH]; simpl; intro H; [discriminate|].
  apply orb_true_iff in H. apply orb_true_iff. destruct H; auto.
Qed.

(* HasSideEffect never misses a call or a receive that evaluating the expression would run
   (calls through values of named func types included, since de84ca0). *)
Theorem hse_conservative : forall e, evaluates_call_or_recv e = true -> has_side_effect e = true.
Proof.
  induction e as [| |e IHe|k f args IHf IHargs|op e IHe|e IHe|op a b IHa IHb|a i IHa IHi|a lo hi IHa IHlo IHhi|e IHe|e IHe|elts IHelts|body IHbody]
    using expr_ind'; simpl; intro Hev; auto.
  - (* call *) fold hse_any. fold ecr_any in Hev.
    apply orb_true_iff in Hev. destruct Hev as [Hev|Hev].
    + apply orb_true_iff in Hev. destruct Hev as [Hev|Hev].
      * destruct k; simpl in *; try discriminate; auto.
      * rewrite (IHf Hev). rewrite orb_true_r. auto.
    + rewrite (any_conservative _ IHargs Hev). apply orb_true_r.
  - destruct op; auto.
  - apply orb_true_iff in Hev. destruct Hev as [Hev|Hev]; [rewrite (IHa Hev)|rewrite (IHb Hev)]; auto using orb_true_r.
  - apply orb_true_iff in Hev. destruct Hev as [Hev|Hev]; [rewrite (IHa Hev)|rewrite (IHi Hev)]; auto using orb_true_r.
  - apply orb_true_iff in Hev. destruct Hev as [Hev|Hev].
    + apply orb_true_iff in Hev. destruct Hev as [Hev|Hev]; [rewrite (IHa Hev)|rewrite (IHlo Hev)]; auto using orb_true_r.
      rewrite orb_true_r. auto.
    + rewrite (IHhi Hev). apply orb_true_r.
  - fold hse_any. fold ecr_any in Hev. apply any_conservative; auto.
  - discriminate.
Qed.

(* The rule of decls.go:289, full statement: an initialiser whose evaluation can have an observable
   effect (call, receive, or run-time panic) makes its variable a DCE root. *)
Definition initialiser_root_full_statement : Prop :=
  forall n e, can_have_effect e = true -> var_is_root n e = true.

(* ... is false for the code as it is: `var unused = a[idx]` *)
Theorem initialiser_root_refuted : exists e, can_have_effect e = true /\ var_is_root 1 e = false.
Proof. exists (EIndex EIdent EIdent). vm_compute. split; reflexivity. Qed.

Corollary initialiser_root_full_statement_false : ~ initialiser_root_full_statement.
Proof.
  intro H. destruct initialiser_root_refuted as (e & H1 & H2). rewrite (H 1%N e H1) in H2. discriminate.
Qed.

(* ... and true once expressions containing a node that can panic by itself are excluded *)
Theorem initialiser_root_excluding_panics : forall n e,
  may_panic e = false -> can_have_effect e = true -> var_is_root n e = true.
Proof.
  intros n e Hp Hc. unfold can_have_effect in Hc. rewrite Hp, orb_false_r in Hc.
  unfold var_is_root. rewrite (hse_conservative e Hc). apply orb_true_r.
Qed.
