(* C16 - lemmas about removeWhitespace (Model/C16_RemoveWs.v) and the lexical structure
   (Model/C16_Lex.v).

   Road map.  [scan] cuts a blob into elements and is sound ([scan_sound]: rendering the
   elements gives the blob back, and the elements are canonical).  On the rendering of canonical
   elements, [remove_ws] is [strip] ([rw_render]) and [scan] is the inverse of [render]
   ([scan_render]).  [strip] only deletes whitespace and comments; under the side condition
   [okf] it never fails, keeps the list canonical ([strip_ok]) and keeps the token stream
   ([toks_strip]). *)
From Coq Require Import List NArith ZArith Arith Bool Lia ZifyN ZifyNat ZifyBool.
From Verif Require Import Model.C16_RemoveWs Model.C16_Lex.
Import ListNotations.
Local Open Scope N_scope.
Ltac Zify.zify_post_hook ::= Z.div_mod_to_equations.

(* ---- strings ---------------------------------------------------------------------------- *)

Fixpoint str_ok (s : list N) : bool :=
  match s with
  | [] => true
  | c :: r =>
      if c =? 34 then false
      else if c =? 92 then match r with [] => false | _ :: r' => str_ok r' end
      else str_ok r
  end.

Lemma str_ok_split : forall n s, (length s <= n)%nat -> str_ok s = true ->
  forall t, rw_string (s ++ 34 :: t) = Some (s, 34 :: t).
Proof.
  induction n as [|n IH]; intros s Hl Hs t.
  - destruct s; [reflexivity | cbn in Hl; lia].
  - destruct s as [|c r]; [reflexivity|].
    cbn [str_ok] in Hs. cbn [app rw_string].
    destruct (c =? 34); [discriminate|].
    destruct (c =? 92).
    + destruct r as [|d r']; [discriminate|]. cbn [app].
      rewrite (IH r'); [reflexivity | cbn in Hl; lia | assumption].
    + rewrite (IH r); [reflexivity | cbn in Hl; lia | assumption].
Qed.

Lemma rw_string_sound : forall n b s t, (length b <= n)%nat -> rw_string b = Some (s, t) ->
  b = s ++ t /\ str_ok s = true /\ hd_error t = Some 34.
Proof.
  induction n as [|n IH]; intros b s t Hl H.
  - destruct b; [discriminate | cbn in Hl; lia].
  - destruct b as [|c r]; [discriminate|]. cbn [rw_string] in H.
    destruct (c =? 34) eqn:E34.
    + inversion H; subst. apply N.eqb_eq in E34. subst. auto.
    + destruct (c =? 92) eqn:E92.
      * destruct r as [|d r']; [discriminate|].
        destruct (rw_string r') as [[s0 t0]|] eqn:R; [|discriminate]. inversion H; subst.
        apply IH in R; [|cbn in Hl; lia]. destruct R as (Eb & Hs & Ht). subst r'.
        repeat split; auto. cbn [str_ok]. rewrite E34, E92. assumption.
      * destruct (rw_string r) as [[s0 t0]|] eqn:R; [|discriminate]. inversion H; subst.
        apply IH in R; [|cbn in Hl; lia]. destruct R as (Eb & Hs & Ht). subst r.
        repeat split; auto. cbn [str_ok]. rewrite E34, E92. assumption.
Qed.

(* ---- comments --------------------------------------------------------------------------- *)

Definition com_ok (s : list N) : Prop := rw_index_close (s ++ [42; 47]) = Some (length s).

Lemma ric_cons2 : forall c d r, rw_index_close (c :: d :: r) =
  if (c =? 42) && (d =? 47) then Some O
  else match rw_index_close (d :: r) with Some i => Some (S i) | None => None end.
Proof. reflexivity. Qed.

Lemma index_close_split : forall s t, com_ok s -> rw_index_close (s ++ 42 :: 47 :: t) = Some (length s).
Proof.
  unfold com_ok. induction s as [|c s IH]; intros t H.
  - reflexivity.
  - destruct s as [|d s'].
    + cbn [app] in H |- *. rewrite ric_cons2 in H |- *. change (42 =? 47) with false in *.
      rewrite andb_false_r in *. reflexivity.
    + cbn [app length] in H |- *. rewrite ric_cons2 in H |- *.
      destruct ((c =? 42) && (d =? 47)); [discriminate|].
      cbn [app length] in IH.
      destruct (rw_index_close (d :: s' ++ [42; 47])) as [i|] eqn:R; [|discriminate].
      inversion H; subst i. rewrite (IH t eq_refl). reflexivity.
Qed.

Lemma index_close_sound : forall b i, rw_index_close b = Some i ->
  exists s t, b = s ++ 42 :: 47 :: t /\ length s = i /\ com_ok s.
Proof.
  induction b as [|c r IH]; intros i H; [discriminate|].
  destruct r as [|d r0]; [discriminate|]. rewrite ric_cons2 in H.
  destruct ((c =? 42) && (d =? 47)) eqn:E.
  - inversion H; subst. apply andb_true_iff in E. destruct E as [E1 E2].
    apply N.eqb_eq in E1, E2. subst. exists [], r0. repeat split.
  - destruct (rw_index_close (d :: r0)) as [i'|] eqn:R; [|discriminate]. inversion H; subst i.
    destruct (IH i' eq_refl) as (s & t & Eb & El & Hc).
    exists (c :: s), t. repeat split.
    + cbn [app]. rewrite Eb. reflexivity.
    + cbn [length]. lia.
    + unfold com_ok in *. destruct s as [|d' s'].
      * cbn [app] in Eb. inversion Eb; subst. cbn [app length]. rewrite ric_cons2.
        change (42 =? 47) with false. rewrite andb_false_r. reflexivity.
      * cbn [app] in Eb. inversion Eb; subst d'. cbn [app length]. rewrite ric_cons2.
        rewrite E. cbn [app length] in Hc. rewrite Hc. reflexivity.
Qed.

(* ---- canonical element lists -------------------------------------------------------------- *)

Definition starts_star (es : list elem) : bool :=
  match es with Ch c :: _ => c =? 42 | _ => false end.

Definition elem_okP (e : elem) : Prop :=
  match e with
  | Ch c => ch_ok c = true
  | Ws c => rw_is_ws c = true
  | Str s => str_ok s = true
  | Com s => com_ok s
  | Hint p => N.of_nat (length p) <= 65535
  end.

Definition slash_star (e : elem) (r : list elem) : bool :=
  match e with Ch c => (c =? 47) && starts_star r | _ => false end.

Inductive canon : list elem -> Prop :=
| canon_nil : canon []
| canon_cons : forall e r, elem_okP e -> slash_star e r = false -> canon r -> canon (e :: r).

Lemma first_byte_render : forall es, hd_error (render es) = first_byte es.
Proof. destruct es as [|[c|c|s|s|p] r]; reflexivity. Qed.

Lemma render_cons : forall e r, render (e :: r) = render_elem e ++ render r.
Proof. reflexivity. Qed.

Lemma ch_ok_facts : forall c, ch_ok c = true ->
  (c =? 8) = false /\ rw_is_ws c = false /\ (c =? 34) = false.
Proof.
  intros c H. unfold ch_ok in H. unfold rw_is_ws.
  repeat (apply andb_true_iff in H; destruct H as [H ?]).
  repeat split; lia.
Qed.

Lemma ws_facts : forall c, rw_is_ws c = true ->
  (c =? 8) = false /\ rw_needs_space c = false /\ c <> 45 /\ (c =? 34) = false /\ (c =? 47) = false /\ ch_ok c = false /\ (c =? 42) = false.
Proof.
  intros c H. unfold rw_is_ws in H. unfold rw_needs_space, ch_ok.
  repeat (apply orb_true_iff in H; destruct H as [H|H]); apply N.eqb_eq in H; subst; repeat split; try reflexivity; discriminate.
Qed.

Lemma hint_arith : forall n, n <= 65535 ->
  n / 256 * 256 + n mod 256 = n /\ (n / 256 <? 256) = true /\ (n mod 256 <? 256) = true.
Proof. intros. repeat split; lia. Qed.

Lemma hint_arith2 : forall hi lo, hi < 256 -> lo < 256 ->
  (hi * 256 + lo) / 256 = hi /\ (hi * 256 + lo) mod 256 = lo /\ hi * 256 + lo <= 65535.
Proof. intros. repeat split; lia. Qed.

(* ---- remove_ws on rendered canonical elements is strip ------------------------------------- *)

Lemma starts_star_first : forall r, canon r -> first_byte r = Some 42 -> starts_star r = true.
Proof.
  intros r Hc H. destruct r as [|[c|c|s|s|p] r']; cbn in H; try discriminate.
  - inversion H; subst. reflexivity.
  - inversion H; subst. inversion Hc; subst. cbn in H2. discriminate.
Qed.

Lemma rw_render : forall es previous fuel, canon es -> (length (render es) <= fuel)%nat ->
  rw_loop fuel previous (render es) = option_map render (strip previous es).
Proof.
  induction es as [|e r IH]; intros previous fuel Hc Hf.
  - destruct fuel; reflexivity.
  - inversion Hc as [|e0 r0 He Hss Hr]; subst e0 r0.
    rewrite render_cons in Hf |- *. rewrite app_length in Hf.
    destruct e as [c|c|s|s|p]; cbn [render_elem] in Hf |- *.
    + (* Ch *)
      cbn [app length] in Hf |- *. destruct fuel as [|fuel]; [lia|].
      cbn [elem_okP] in He. destruct (ch_ok_facts _ He) as (E8 & Ews & E34).
      cbn [rw_loop strip]. rewrite E8, Ews, E34.
      assert (IHc := IH c fuel Hr ltac:(lia)).
      destruct (c =? 47) eqn:E47.
      * destruct r as [|e1 r1].
        -- reflexivity.
        -- cbn [is_nil andb].
           assert (Hfb := first_byte_render (e1 :: r1)).
           remember (render (e1 :: r1)) as rr eqn:Er. destruct rr as [|d r2].
           { exfalso. destruct e1; cbn in Er; discriminate. }
           cbn [hd_error] in Hfb.
           destruct (d =? 42) eqn:E42.
           { apply N.eqb_eq in E42. subst d. symmetry in Hfb. apply starts_star_first in Hfb; [|assumption].
             cbn [slash_star] in Hss. rewrite E47, Hfb in Hss. discriminate. }
           rewrite IHc. destruct (strip c (e1 :: r1)); reflexivity.
      * cbn [andb]. rewrite IHc. destruct (strip c r); reflexivity.
    + (* Ws *)
      cbn [app length] in Hf |- *. destruct fuel as [|fuel]; [lia|].
      cbn [elem_okP] in He. destruct (ws_facts _ He) as (E8 & _).
      cbn [rw_loop strip]. rewrite E8, He. rewrite first_byte_render.
      destruct (rw_ws_removed previous (first_byte r)) as [[|]|].
      * apply IH; [assumption | lia].
      * rewrite (IH c fuel Hr ltac:(lia)). destruct (strip c r); reflexivity.
      * reflexivity.
    + (* Str *)
      cbn [app length] in Hf |- *. destruct fuel as [|fuel]; [lia|].
      cbn [elem_okP] in He.
      cbn [rw_loop strip]. change (34 =? 8) with false. change (rw_is_ws 34) with false. change (34 =? 34) with true. cbn iota.
      rewrite <- app_assoc. cbn [app].
      rewrite (str_ok_split (length s) s (le_n _) He).
      rewrite app_length in Hf. cbn [length] in Hf.
      rewrite (IH 34 fuel Hr ltac:(lia)). destruct (strip 34 r) as [o|]; [|reflexivity].
      cbn [option_map]. rewrite render_cons. cbn [render_elem]. cbn [app]. rewrite <- app_assoc. reflexivity.
    + (* Com *)
      cbn [app length] in Hf |- *. destruct fuel as [|fuel]; [lia|].
      cbn [elem_okP] in He.
      cbn [rw_loop strip]. change (47 =? 8) with false. change (rw_is_ws 47) with false. change (47 =? 34) with false.
      change (47 =? 47) with true. change (42 =? 42) with true. cbn iota.
      rewrite <- app_assoc. cbn [app].
      rewrite (index_close_split s (render r) He).
      replace (skipn (length s + 2) (s ++ 42 :: 47 :: render r)) with (render r).
      * apply IH; [assumption|]. rewrite app_length in Hf. cbn [length] in Hf. lia.
      * replace (length s + 2)%nat with (length s + 0 + 2)%nat by lia.
        rewrite Nat.add_0_r. rewrite <- (Nat.add_0_r (length s)) at 1.
        replace (length s + 0 + 2)%nat with (length s + 2)%nat by lia.
        rewrite skipn_app. rewrite skipn_all2 by lia.
        replace (length s + 2 - length s)%nat with 2%nat by lia. reflexivity.
    + (* Hint *)
      cbn [elem_okP] in He. unfold hint_bytes in Hf |- *.
      set (n := N.of_nat (length p)) in *.
      assert (Hn : n <= 65535) by lia.
      destruct (hint_arith n Hn) as (Ha & _ & _).
      cbn [app length] in Hf |- *. destruct fuel as [|fuel]; [lia|].
      cbn [rw_loop strip]. change (8 =? 8) with true. cbn iota.
      cbn [rw_hint_len]. rewrite Ha. unfold n at 1 2. rewrite Nat2N.id.
      rewrite app_length.
      replace (Nat.ltb (length p + length (render r)) (length p)) with false by (symmetry; apply Nat.ltb_ge; lia).
      replace (length p + 3)%nat with (S (S (S (length p)))) by lia.
      cbn [firstn skipn].
      rewrite firstn_app, firstn_all, Nat.sub_diag. cbn [firstn]. rewrite app_nil_r.
      rewrite skipn_app, skipn_all, Nat.sub_diag. cbn [skipn app].
      rewrite (IH previous fuel Hr ltac:(lia)). destruct (strip previous r); reflexivity.
Qed.

(* ---- scan is sound and is the inverse of render --------------------------------------------- *)

Lemma scan_sound : forall fuel b es, scan_loop fuel b = Some es -> render es = b /\ canon es.
Proof.
  induction fuel as [|fuel IH]; intros b es H.
  - destruct b; [inversion H; subst; split; [reflexivity | constructor] | discriminate].
  - destruct b as [|c r]; [inversion H; subst; split; [reflexivity | constructor]|].
    cbn [scan_loop] in H.
    destruct (c =? 8) eqn:E8.
    { apply N.eqb_eq in E8. subst c.
      destruct r as [|hi [|lo rest]]; try discriminate.
      destruct (Nat.ltb (length rest) (N.to_nat (hi * 256 + lo))) eqn:El; [discriminate|].
      destruct ((hi <? 256) && (lo <? 256)) eqn:Eb; cbn [negb] in H; [|discriminate].
      destruct (scan_loop fuel (skipn (N.to_nat (hi * 256 + lo)) rest)) as [es'|] eqn:R; [|discriminate].
      inversion H; subst es. apply IH in R. destruct R as [Er Hc].
      apply Nat.ltb_ge in El. apply andb_true_iff in Eb. destruct Eb as [Eh Elo].
      destruct (hint_arith2 hi lo ltac:(lia) ltac:(lia)) as (A1 & A2 & A3).
      assert (Hlen : length (firstn (N.to_nat (hi * 256 + lo)) rest) = N.to_nat (hi * 256 + lo)) by (apply firstn_length_le; assumption).
      split.
      - rewrite render_cons. cbn [render_elem]. unfold hint_bytes. rewrite Hlen, N2Nat.id, A1, A2.
        rewrite Er. cbn [app]. rewrite firstn_skipn. reflexivity.
      - constructor; [cbn [elem_okP]; lia | reflexivity | assumption]. }
    destruct (rw_is_ws c) eqn:Ews.
    { destruct (scan_loop fuel r) as [es'|] eqn:R; [|discriminate]. inversion H; subst es.
      apply IH in R. destruct R as [Er Hc]. split.
      - rewrite render_cons. cbn [render_elem app]. rewrite Er. reflexivity.
      - constructor; [exact Ews | reflexivity | assumption]. }
    destruct (c =? 34) eqn:E34.
    { apply N.eqb_eq in E34. subst c.
      destruct (rw_string r) as [[s [|q t]]|] eqn:Rs; try discriminate.
      destruct (scan_loop fuel t) as [es'|] eqn:R; [|discriminate]. inversion H; subst es.
      apply IH in R. destruct R as [Er Hc].
      apply (rw_string_sound (length r)) in Rs; [|lia]. destruct Rs as (Eb & Hs & Hq).
      cbn in Hq. inversion Hq; subst q. split.
      - rewrite render_cons. cbn [render_elem app]. rewrite Er, Eb. rewrite <- app_assoc. reflexivity.
      - constructor; [exact Hs | reflexivity | assumption]. }
    destruct ((c =? 47) && match r with d :: _ => d =? 42 | [] => false end) eqn:Ecom.
    { apply andb_true_iff in Ecom. destruct Ecom as [E47 E42]. apply N.eqb_eq in E47. subst c.
      destruct r as [|d r2]; [discriminate|]. apply N.eqb_eq in E42. subst d. cbn [tl] in H.
      destruct (rw_index_close r2) as [i|] eqn:Ri; [|discriminate].
      destruct (scan_loop fuel (skipn (i + 2) r2)) as [es'|] eqn:R; [|discriminate]. inversion H; subst es.
      apply IH in R. destruct R as [Er Hc].
      apply index_close_sound in Ri. destruct Ri as (s & t & Eb & El & Hs). subst r2 i.
      assert (Efirst : firstn (length s) (s ++ 42 :: 47 :: t) = s).
      { rewrite firstn_app, firstn_all, Nat.sub_diag. cbn [firstn]. apply app_nil_r. }
      assert (Eskip : skipn (length s + 2) (s ++ 42 :: 47 :: t) = t).
      { rewrite skipn_app. rewrite skipn_all2 by lia.
        replace (length s + 2 - length s)%nat with 2%nat by lia. reflexivity. }
      rewrite Efirst. rewrite Eskip in Er. split.
      - rewrite render_cons. cbn [render_elem app]. rewrite Er. rewrite <- app_assoc. reflexivity.
      - constructor; [exact Hs | reflexivity | assumption]. }
    destruct (ch_ok c) eqn:Eok; [|discriminate].
    destruct (scan_loop fuel r) as [es'|] eqn:R; [|discriminate]. inversion H; subst es.
    apply IH in R. destruct R as [Er Hc]. split.
    + rewrite render_cons. cbn [render_elem app]. rewrite Er. reflexivity.
    + constructor; [exact Eok | | assumption].
      cbn [slash_star]. destruct (c =? 47) eqn:E47; [|reflexivity]. cbn [andb] in Ecom |- *.
      destruct es' as [|[c2|c2|s2|s2|p2] r2]; try reflexivity.
      cbn [starts_star]. destruct (c2 =? 42) eqn:E42; [|reflexivity].
      rewrite render_cons in Er. cbn [render_elem app] in Er. subst r. rewrite E42 in Ecom. discriminate.
Qed.

Lemma scan_render : forall es fuel, canon es -> (length (render es) <= fuel)%nat ->
  scan_loop fuel (render es) = Some es.
Proof.
  induction es as [|e r IH]; intros fuel Hc Hf.
  - destruct fuel; reflexivity.
  - inversion Hc as [|e0 r0 He Hss Hr]; subst e0 r0.
    rewrite render_cons in Hf |- *. rewrite app_length in Hf.
    destruct e as [c|c|s|s|p]; cbn [render_elem] in Hf |- *.
    + cbn [app length] in Hf |- *. destruct fuel as [|fuel]; [lia|].
      cbn [elem_okP] in He. destruct (ch_ok_facts _ He) as (E8 & Ews & E34).
      cbn [scan_loop]. rewrite E8, Ews, E34.
      assert (Ecom : (c =? 47) && match render r with d :: _ => d =? 42 | [] => false end = false).
      { destruct (c =? 47) eqn:E47; [|reflexivity]. cbn [andb].
        assert (Hfb := first_byte_render r). destruct (render r) as [|d r2]; [reflexivity|].
        cbn [hd_error] in Hfb. destruct (d =? 42) eqn:E42; [|reflexivity].
        apply N.eqb_eq in E42. subst d. symmetry in Hfb. apply starts_star_first in Hfb; [|assumption].
        cbn [slash_star] in Hss. rewrite E47, Hfb in Hss. discriminate. }
      rewrite Ecom, He. rewrite (IH fuel Hr ltac:(lia)). reflexivity.
    + cbn [app length] in Hf |- *. destruct fuel as [|fuel]; [lia|].
      cbn [elem_okP] in He. destruct (ws_facts _ He) as (E8 & _).
      cbn [scan_loop]. rewrite E8, He. rewrite (IH fuel Hr ltac:(lia)). reflexivity.
    + cbn [app length] in Hf |- *. destruct fuel as [|fuel]; [lia|].
      cbn [elem_okP] in He.
      cbn [scan_loop]. change (34 =? 8) with false. change (rw_is_ws 34) with false. change (34 =? 34) with true. cbn iota.
      rewrite <- app_assoc. cbn [app].
      rewrite (str_ok_split (length s) s (le_n _) He).
      rewrite app_length in Hf. cbn [length] in Hf.
      rewrite (IH fuel Hr ltac:(lia)). reflexivity.
    + cbn [app length] in Hf |- *. destruct fuel as [|fuel]; [lia|].
      cbn [elem_okP] in He.
      cbn [scan_loop]. change (47 =? 8) with false. change (rw_is_ws 47) with false. change (47 =? 34) with false.
      change (47 =? 47) with true. change (42 =? 42) with true. cbn [andb tl]. cbn iota.
      rewrite <- app_assoc. cbn [app].
      rewrite (index_close_split s (render r) He).
      rewrite firstn_app, firstn_all, Nat.sub_diag. cbn [firstn]. rewrite app_nil_r.
      rewrite skipn_app. rewrite skipn_all2 by lia.
      replace (length s + 2 - length s)%nat with 2%nat by lia. cbn [skipn app].
      rewrite app_length in Hf. cbn [length] in Hf.
      rewrite (IH fuel Hr ltac:(lia)). reflexivity.
    + cbn [elem_okP] in He. unfold hint_bytes in Hf |- *.
      set (n := N.of_nat (length p)) in *.
      assert (Hn : n <= 65535) by lia.
      destruct (hint_arith n Hn) as (Ha & Hh & Hl).
      cbn [app length] in Hf |- *. destruct fuel as [|fuel]; [lia|].
      cbn [scan_loop]. change (8 =? 8) with true. cbn iota.
      rewrite Ha, Hh, Hl. unfold n at 1 2 3. rewrite Nat2N.id.
      rewrite app_length.
      replace (Nat.ltb (length p + length (render r)) (length p)) with false by (symmetry; apply Nat.ltb_ge; lia).
      cbn [andb negb].
      rewrite firstn_app, firstn_all, Nat.sub_diag. cbn [firstn]. rewrite app_nil_r.
      rewrite skipn_app, skipn_all, Nat.sub_diag. cbn [skipn app].
      rewrite (IH fuel Hr ltac:(lia)). reflexivity.
Qed.

(* ---- strip under the side condition ---------------------------------------------------------- *)

(* how the byte [previous] of the Go loop relates to the state of the side condition *)
Definition st_prev (st : lstate) (previous : N) : Prop :=
  match st with
  | Clean => rw_needs_space previous = false /\ previous <> 45
  | Adj x | Gap x => previous = x
  end.

Lemma clean_removed : forall previous nb,
  rw_needs_space previous = false -> previous <> 45 -> rw_ws_removed previous nb = Some true.
Proof.
  intros previous nb H1 H2. unfold rw_ws_removed. rewrite H1.
  apply N.eqb_neq in H2. rewrite H2. reflexivity.
Qed.

Lemma glue_slash_star : glue 47 42 = true.
Proof. reflexivity. Qed.

(* [h] = Some x when the last element written so far is the character x *)
Lemma strip_ok : forall es st previous (h : option N),
  canon es -> okf st es = true -> st_prev st previous ->
  (forall x, h = Some x -> (st = Adj x /\ (x =? 47) && starts_star es = false) \/ st = Gap x) ->
  exists es', strip previous es = Some es' /\ canon es' /\
              (forall x, h = Some x -> (x =? 47) && starts_star es' = false).
Proof.
  induction es as [|e r IH]; intros st previous h Hc Hok Hp Hh.
  - exists []. repeat split; [constructor|]. intros x _. apply andb_false_r.
  - inversion Hc as [|e0 r0 He Hss Hr]; subst e0 r0.
    destruct e as [c|w|s|s|p]; cbn [okf strip] in Hok |- *.
    + (* Ch *)
      apply andb_true_iff in Hok. destruct Hok as [Hok Hokr].
      apply andb_true_iff in Hok. destruct Hok as [Hnil Hgap].
      apply negb_true_iff in Hnil. rewrite Hnil.
      destruct (IH (Adj c) c (Some c) Hr Hokr eq_refl) as (o & Es & Hco & Hho).
      { intros x E. inversion E; subst x. left. split; [reflexivity|]. exact Hss. }
      rewrite Es. exists (Ch c :: o). repeat split.
      * constructor; [exact He | | exact Hco]. cbn [slash_star]. apply Hho. reflexivity.
      * intros x E. cbn [starts_star]. destruct (Hh x E) as [[Est Hg]|Est]; subst st.
        -- exact Hg.
        -- apply negb_true_iff in Hgap.
           destruct (x =? 47) eqn:E47; [|reflexivity]. destruct (c =? 42) eqn:E42; [|reflexivity].
           apply N.eqb_eq in E47, E42. subst. rewrite glue_slash_star in Hgap. discriminate.
    + (* Ws *)
      cbn [elem_okP] in He. destruct (ws_facts _ He) as (_ & Hns & H45 & _).
      destruct st as [|x|x]; cbn [st_prev] in Hp.
      * destruct Hp as [Hp1 Hp2]. rewrite (clean_removed previous (first_byte r) Hp1 Hp2).
        destruct (IH Clean previous h Hr Hok (conj Hp1 Hp2)) as (o & Es & Hco & Hho).
        { intros x E. destruct (Hh x E) as [[Est _]|Est]; discriminate. }
        exists o. auto.
      * subst previous. destruct (rw_ws_removed x (first_byte r)) as [[|]|]; [| |discriminate].
        -- destruct (IH (Gap x) x h Hr Hok eq_refl) as (o & Es & Hco & Hho).
           { intros y E. destruct (Hh y E) as [[Est _]|Est]; inversion Est; subst. right. reflexivity. }
           exists o. auto.
        -- destruct (IH Clean w None Hr Hok (conj Hns H45)) as (o & Es & Hco & _); [discriminate|].
           rewrite Es. exists (Ws w :: o). repeat split.
           ++ constructor; [exact He | reflexivity | exact Hco].
           ++ intros y _. apply andb_false_r.
      * subst previous. destruct (rw_ws_removed x (first_byte r)) as [[|]|]; [| |discriminate].
        -- destruct (IH (Gap x) x h Hr Hok eq_refl) as (o & Es & Hco & Hho).
           { intros y E. destruct (Hh y E) as [[Est _]|Est]; inversion Est; subst. right. reflexivity. }
           exists o. auto.
        -- destruct (IH Clean w None Hr Hok (conj Hns H45)) as (o & Es & Hco & _); [discriminate|].
           rewrite Es. exists (Ws w :: o). repeat split.
           ++ constructor; [exact He | reflexivity | exact Hco].
           ++ intros y _. apply andb_false_r.
    + (* Str *)
      destruct (IH Clean 34 None Hr Hok) as (o & Es & Hco & _).
      { split; [reflexivity | discriminate]. }
      { discriminate. }
      rewrite Es. exists (Str s :: o). repeat split.
      * constructor; [exact He | reflexivity | exact Hco].
      * intros y _. apply andb_false_r.
    + (* Com *)
      destruct st as [|x|x]; cbn [st_prev] in Hp.
      * destruct (IH Clean previous h Hr Hok Hp) as (o & Es & Hco & Hho).
        { intros x E. destruct (Hh x E) as [[Est _]|Est]; discriminate. }
        exists o. auto.
      * destruct (IH (Gap x) previous h Hr Hok Hp) as (o & Es & Hco & Hho).
        { intros y E. destruct (Hh y E) as [[Est _]|Est]; inversion Est; subst. right. reflexivity. }
        exists o. auto.
      * destruct (IH (Gap x) previous h Hr Hok Hp) as (o & Es & Hco & Hho).
        { intros y E. destruct (Hh y E) as [[Est _]|Est]; inversion Est; subst. right. reflexivity. }
        exists o. auto.
    + (* Hint *)
      destruct (IH st previous None Hr Hok Hp) as (o & Es & Hco & _); [discriminate|].
      rewrite Es. exists (Hint p :: o). repeat split.
      * constructor; [exact He | reflexivity | exact Hco].
      * intros y _. apply andb_false_r.
Qed.

(* the token stream is kept: statement per state *)
Definition toks_rel (st : lstate) (es' es : list elem) : Prop :=
  match st with
  | Clean => toks [] es' = toks [] es
  | Adj x => forall run, toks (x :: run) es' = toks (x :: run) es
  | Gap x => forall run, toks (x :: run) es' = TRun (rev (x :: run)) :: toks [] es
  end.

Lemma toks_strip : forall es st previous es',
  canon es -> okf st es = true -> st_prev st previous -> strip previous es = Some es' ->
  toks_rel st es' es.
Proof.
  induction es as [|e r IH]; intros st previous es' Hc Hok Hp Hs.
  - cbn [strip] in Hs. inversion Hs; subst es'. destruct st; cbn [toks_rel toks flush]; auto.
  - inversion Hc as [|e0 r0 He Hss Hr]; subst e0 r0.
    destruct e as [c|w|s|s|p]; cbn [okf strip] in Hok, Hs.
    + (* Ch *)
      apply andb_true_iff in Hok. destruct Hok as [Hok Hokr].
      apply andb_true_iff in Hok. destruct Hok as [Hnil Hgap].
      apply negb_true_iff in Hnil. rewrite Hnil in Hs.
      destruct (strip c r) as [o|] eqn:Es; [|discriminate]. inversion Hs; subst es'.
      assert (IHc := IH (Adj c) c o Hr Hokr eq_refl Es). cbn [toks_rel] in IHc.
      destruct st as [|x|x]; cbn [toks_rel toks].
      * apply IHc.
      * intros run. destruct (glue x c); [apply IHc | f_equal; apply IHc].
      * intros run. apply negb_true_iff in Hgap. rewrite Hgap. f_equal. apply IHc.
    + (* Ws *)
      cbn [elem_okP] in He. destruct (ws_facts _ He) as (_ & Hns & H45 & _).
      destruct st as [|x|x]; cbn [st_prev] in Hp.
      * destruct Hp as [Hp1 Hp2]. rewrite (clean_removed previous (first_byte r) Hp1 Hp2) in Hs.
        assert (IHc := IH Clean previous es' Hr Hok (conj Hp1 Hp2) Hs). cbn [toks_rel toks flush app] in IHc |- *. exact IHc.
      * subst previous. destruct (rw_ws_removed x (first_byte r)) as [[|]|]; [| |discriminate].
        -- assert (IHc := IH (Gap x) x es' Hr Hok eq_refl Hs). cbn [toks_rel toks] in IHc |- *.
           intros run. rewrite IHc. reflexivity.
        -- destruct (strip w r) as [o|] eqn:Es; [|discriminate]. inversion Hs; subst es'.
           assert (IHc := IH Clean w o Hr Hok (conj Hns H45) Es). cbn [toks_rel toks] in IHc |- *.
           intros run. rewrite IHc. reflexivity.
      * subst previous. destruct (rw_ws_removed x (first_byte r)) as [[|]|]; [| |discriminate].
        -- assert (IHc := IH (Gap x) x es' Hr Hok eq_refl Hs). cbn [toks_rel toks flush app] in IHc |- *.
           intros run. rewrite IHc. reflexivity.
        -- destruct (strip w r) as [o|] eqn:Es; [|discriminate]. inversion Hs; subst es'.
           assert (IHc := IH Clean w o Hr Hok (conj Hns H45) Es). cbn [toks_rel toks flush app] in IHc |- *.
           intros run. rewrite IHc. reflexivity.
    + (* Str *)
      destruct (strip 34 r) as [o|] eqn:Es; [|discriminate]. inversion Hs; subst es'.
      assert (IHc : toks_rel Clean o r).
      { apply (IH Clean 34 o Hr Hok); [split; [reflexivity | discriminate] | exact Es]. }
      cbn [toks_rel] in IHc.
      destruct st as [|x|x]; cbn [toks_rel toks flush app]; try intros run; rewrite IHc; reflexivity.
    + (* Com *)
      destruct st as [|x|x]; cbn [st_prev] in Hp.
      * assert (IHc := IH Clean previous es' Hr Hok Hp Hs). cbn [toks_rel toks flush app] in IHc |- *. exact IHc.
      * assert (IHc := IH (Gap x) previous es' Hr Hok Hp Hs). cbn [toks_rel toks] in IHc |- *.
        intros run. rewrite IHc. reflexivity.
      * assert (IHc := IH (Gap x) previous es' Hr Hok Hp Hs). cbn [toks_rel toks flush app] in IHc |- *.
        intros run. rewrite IHc. reflexivity.
    + (* Hint *)
      destruct (strip previous r) as [o|] eqn:Es; [|discriminate]. inversion Hs; subst es'.
      assert (IHc := IH st previous o Hr Hok Hp Es).
      destruct st as [|x|x]; cbn [toks_rel toks] in IHc |- *; exact IHc.
Qed.

(* ---- strings and hints: unconditional --------------------------------------------------------- *)

Lemma strip_next_sig : forall es previous es', strip previous es = Some es' -> next_sig es' = next_sig es.
Proof.
  induction es as [|e r IH]; intros previous es' H; cbn [strip] in H.
  - inversion H; reflexivity.
  - destruct e as [c|w|s|s|p].
    + destruct ((c =? 47) && is_nil r); [discriminate|].
      destruct (strip c r); [|discriminate]. inversion H; reflexivity.
    + destruct (rw_ws_removed previous (first_byte r)) as [[|]|]; [| |discriminate].
      * cbn [next_sig]. eapply IH; eassumption.
      * destruct (strip w r) eqn:E; [|discriminate]. inversion H; subst. cbn [next_sig]. eapply IH; eassumption.
    + destruct (strip 34 r); [|discriminate]. inversion H; reflexivity.
    + cbn [next_sig]. eapply IH; eassumption.
    + destruct (strip previous r) eqn:E; [|discriminate]. inversion H; subst. cbn [next_sig]. eapply IH; eassumption.
Qed.

Lemma strip_views : forall es previous es', strip previous es = Some es' ->
  strings_of es' = strings_of es /\ hint_view es' = hint_view es.
Proof.
  induction es as [|e r IH]; intros previous es' H; cbn [strip] in H.
  - inversion H; auto.
  - destruct e as [c|w|s|s|p].
    + destruct ((c =? 47) && is_nil r); [discriminate|].
      destruct (strip c r) eqn:E; [|discriminate]. inversion H; subst. cbn [strings_of hint_view]. eapply IH; eassumption.
    + destruct (rw_ws_removed previous (first_byte r)) as [[|]|]; [| |discriminate].
      * cbn [strings_of hint_view]. eapply IH; eassumption.
      * destruct (strip w r) eqn:E; [|discriminate]. inversion H; subst. cbn [strings_of hint_view]. eapply IH; eassumption.
    + destruct (strip 34 r) eqn:E; [|discriminate]. inversion H; subst. cbn [strings_of hint_view].
      destruct (IH _ _ E) as [E1 E2]. rewrite E1, E2. auto.
    + cbn [strings_of hint_view]. eapply IH; eassumption.
    + destruct (strip previous r) eqn:E; [|discriminate]. inversion H; subst. cbn [strings_of hint_view].
      destruct (IH _ _ E) as [E1 E2]. rewrite E1, E2, (strip_next_sig _ _ _ E). auto.
Qed.

(* ---- byte-level statements --------------------------------------------------------------------- *)

Lemma scan_eq : forall b es, scan b = Some es -> render es = b /\ canon es.
Proof. intros b es H. unfold scan in H. eapply scan_sound; eassumption. Qed.

Lemma remove_ws_is_strip : forall b es, scan b = Some es ->
  remove_ws b = option_map render (strip 0 es).
Proof.
  intros b es H. destruct (scan_eq _ _ H) as [Er Hc]. unfold remove_ws. rewrite <- Er.
  apply rw_render; [assumption | lia].
Qed.

(* whitespace removal does not merge, split, drop or alter any token (strings are tokens) *)
Lemma remove_ws_tokens : forall b, well_lexed b = true ->
  exists o ts, remove_ws b = Some o /\ tokenize o = Some ts /\ tokenize b = Some ts.
Proof.
  intros b H. unfold well_lexed in H. destruct (scan b) as [es|] eqn:Es; [|discriminate].
  destruct (scan_eq _ _ Es) as [Er Hc].
  destruct (strip_ok es Clean 0 None Hc H) as (es' & Est & Hc' & _).
  { split; [reflexivity | discriminate]. }
  { discriminate. }
  exists (render es'), (toks [] es). repeat split.
  - rewrite (remove_ws_is_strip _ _ Es), Est. reflexivity.
  - unfold tokenize, scan. rewrite (scan_render es' (S (length (render es'))) Hc' ltac:(lia)).
    f_equal. apply (toks_strip es Clean 0 es' Hc H); [split; [reflexivity | discriminate] | exact Est].
  - unfold tokenize. rewrite Es. reflexivity.
Qed.

(* string literals and hints (with the element each hint precedes): for EVERY blob in the lexicon,
   whatever the spacing *)
Lemma remove_ws_views : forall b es o, scan b = Some es -> remove_ws b = Some o ->
  exists es', o = render es' /\ strings_of es' = strings_of es /\ hint_view es' = hint_view es.
Proof.
  intros b es o Es Ho. rewrite (remove_ws_is_strip _ _ Es) in Ho.
  destruct (strip 0 es) as [es'|] eqn:Est; [|discriminate]. inversion Ho; subst o.
  exists es'. destruct (strip_views _ _ _ Est). auto.
Qed.

Lemma remove_ws_strings_intact : forall b, well_lexed b = true ->
  exists o ss, remove_ws b = Some o /\ strings_in o = Some ss /\ strings_in b = Some ss.
Proof.
  intros b H. unfold well_lexed in H. destruct (scan b) as [es|] eqn:Es; [|discriminate].
  destruct (scan_eq _ _ Es) as [Er Hc].
  destruct (strip_ok es Clean 0 None Hc H) as (es' & Est & Hc' & _).
  { split; [reflexivity | discriminate]. }
  { discriminate. }
  exists (render es'), (strings_of es). repeat split.
  - rewrite (remove_ws_is_strip _ _ Es), Est. reflexivity.
  - unfold strings_in, scan. rewrite (scan_render es' (S (length (render es'))) Hc' ltac:(lia)). f_equal. apply (strip_views _ _ _ Est).
  - unfold strings_in. rewrite Es. reflexivity.
Qed.

Lemma remove_ws_hints_intact : forall b, well_lexed b = true ->
  exists o hv, remove_ws b = Some o /\ hints_in o = Some hv /\ hints_in b = Some hv.
Proof.
  intros b H. unfold well_lexed in H. destruct (scan b) as [es|] eqn:Es; [|discriminate].
  destruct (scan_eq _ _ Es) as [Er Hc].
  destruct (strip_ok es Clean 0 None Hc H) as (es' & Est & Hc' & _).
  { split; [reflexivity | discriminate]. }
  { discriminate. }
  exists (render es'), (hint_view es). repeat split.
  - rewrite (remove_ws_is_strip _ _ Es), Est. reflexivity.
  - unfold hints_in, scan. rewrite (scan_render es' (S (length (render es'))) Hc' ltac:(lia)). f_equal. apply (strip_views _ _ _ Est).
  - unfold hints_in. rewrite Es. reflexivity.
Qed.

(* the hint bytes themselves are copied verbatim: the rendering of the result contains each hint
   as magic, two length bytes, payload (used by C19) *)
Lemma remove_ws_hint_bytes : forall b es o, scan b = Some es -> remove_ws b = Some o ->
  exists es', o = render es' /\ map fst (hint_view es') = map fst (hint_view es).
Proof.
  intros b es o Es Ho. destruct (remove_ws_views _ _ _ Es Ho) as (es' & Eo & _ & Eh).
  exists es'. rewrite Eh. auto.
Qed.
