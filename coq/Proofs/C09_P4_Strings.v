(* C09 phase 4 - string lemmas behind the injectivity of the typeKey strings of types.js:
   decimal ids contain only digits, splitting at the first separator, prefix-freeness of the
   `s.replace(/\\/g,"\\\\").replace(/\$/g,"\\$")` escaping, injectivity of `.join(sep)` over token classes. *)
From Coq Require Import List NArith Bool String Ascii DecimalString DecimalN Lia.
From Verif Require Import Gen.C09_Kinds Model.C09_Types Model.C09_P4_Wf Proofs.C09_Types.
Import ListNotations.
Local Open Scope N_scope.

(* ------------------------------------------------------------------ digits *)
Definition is_digit (c : ascii) : Prop :=
  In c ["0"; "1"; "2"; "3"; "4"; "5"; "6"; "7"; "8"; "9"]%char.

Lemma uint_digits : forall d c, In c (list_ascii_of_string (NilEmpty.string_of_uint d)) -> is_digit c.
Proof.
  induction d; intros c H; cbn in H; try contradiction;
    (destruct H as [H|H]; [subst; unfold is_digit; cbn; tauto | apply IHd; exact H]).
Qed.

Lemma dec_digits : forall n c, In c (dec n) -> is_digit c.
Proof. intros n c H. unfold dec, L in H. eapply uint_digits; eauto. Qed.

Lemma digit_not : forall c x, is_digit c -> ~ is_digit x -> c <> x.
Proof. intros c x H N E. subst. auto. Qed.

Lemma comma_not_digit : ~ is_digit c_comma.
Proof. unfold is_digit, c_comma. cbn. intros H. repeat (destruct H as [H|H]; [discriminate|]). exact H. Qed.
Lemma dollar_not_digit : ~ is_digit c_dollar.
Proof. unfold is_digit, c_dollar. cbn. intros H. repeat (destruct H as [H|H]; [discriminate|]). exact H. Qed.
Lemma bslash_not_digit : ~ is_digit c_bslash.
Proof. unfold is_digit, c_bslash. cbn. intros H. repeat (destruct H as [H|H]; [discriminate|]). exact H. Qed.

Lemma dec_no : forall x n, ~ is_digit x -> ~ In x (dec n).
Proof. intros x n N H. apply N. eapply dec_digits; eauto. Qed.

Lemma dec_nonempty : forall n, dec n <> [].
Proof.
  intros n H. unfold dec, L in H.
  assert (E : NilEmpty.string_of_uint (N.to_uint n) = ""%string).
  { rewrite <- (string_of_list_ascii_of_string (NilEmpty.string_of_uint (N.to_uint n))). rewrite H. reflexivity. }
  assert (E2 : NilEmpty.uint_of_string (NilEmpty.string_of_uint (N.to_uint n)) = Some Decimal.Nil) by (rewrite E; reflexivity).
  rewrite NilEmpty.usu in E2. injection E2 as E2.
  assert (E3 : N.of_uint (N.to_uint n) = N.of_uint Decimal.Nil) by (rewrite E2; reflexivity).
  rewrite Unsigned.of_to in E3. cbn in E3. subst n. cbn in E2. discriminate.
Qed.

(* ------------------------------------------------------------------ split at the first separator *)
Lemma split_first : forall (c : ascii) a a' b b',
  ~ In c a -> ~ In c a' -> a ++ c :: b = a' ++ c :: b' -> a = a' /\ b = b'.
Proof.
  induction a as [|x a IH]; intros [|y a'] b b' Ha Ha' E; cbn in *.
  - injection E as E. auto.
  - injection E as E1 E2. subst. exfalso. apply Ha'. now left.
  - injection E as E1 E2. subst. exfalso. apply Ha. now left.
  - injection E as E1 E2. subst.
    destruct (IH a' b b') as [P Q]; auto. subst. auto.
Qed.

(* ------------------------------------------------------------------ tokens followed by end-of-string or a separator *)
Definition tail_ok (c : ascii) (r : str) : Prop := r = [] \/ exists t, r = c :: t.

Lemma plain_tok_inj : forall (c : ascii) a b r r',
  ~ In c a -> ~ In c b -> tail_ok c r -> tail_ok c r' -> a ++ r = b ++ r' -> a = b /\ r = r'.
Proof.
  induction a as [|x a IH]; intros [|y b] r r' Ha Hb Hr Hr' E; cbn in *.
  - auto.
  - subst r. destruct Hr as [Hr|[t Hr]]; [discriminate|]. injection Hr as Hq _. subst. exfalso. apply Hb. now left.
  - subst r'. destruct Hr' as [Hz|[t Hz]]; [discriminate|]. injection Hz as Hq _. subst. exfalso. apply Ha. now left.
  - injection E as E1 E2. subst.
    destruct (IH b r r') as [P Q]; auto. subst. auto.
Qed.

(* the escaping used for struct tags in $structType's typeKey (and for map keys): prefix-free w.r.t. the separator *)
Lemma esc_tok_inj : forall (x : ascii), x <> c_bslash -> forall a b r r',
  tail_ok x r -> tail_ok x r' -> escape x a ++ r = escape x b ++ r' -> a = b /\ r = r'.
Proof.
  intros x Hx. induction a as [|c a IH]; intros [|d b] r r' Hr Hr' E.
  - cbn in E. auto.
  - cbn [escape app] in E. subst r. exfalso.
    destruct Hr as [Hr|[t Hr]].
    + destruct (Ascii.eqb d c_bslash); [discriminate|]. destruct (Ascii.eqb d x); discriminate.
    + destruct (Ascii.eqb d c_bslash) eqn:E1.
      * cbn in Hr. injection Hr as Hq _. congruence.
      * destruct (Ascii.eqb d x) eqn:E2.
        -- cbn in Hr. injection Hr as Hq _. congruence.
        -- cbn in Hr. injection Hr as Hq _. subst. rewrite Ascii.eqb_refl in E2. discriminate.
  - cbn [escape app] in E. subst r'. exfalso.
    destruct Hr' as [Hz|[t Hz]].
    + destruct (Ascii.eqb c c_bslash); [discriminate|]. destruct (Ascii.eqb c x); discriminate.
    + destruct (Ascii.eqb c c_bslash) eqn:E1.
      * cbn in Hz. injection Hz as Hq _. congruence.
      * destruct (Ascii.eqb c x) eqn:E2.
        -- cbn in Hz. injection Hz as Hq _. congruence.
        -- cbn in Hz. injection Hz as Hq _. subst. rewrite Ascii.eqb_refl in E2. discriminate.
  - cbn [escape] in E.
    destruct (Ascii.eqb c c_bslash) eqn:C1; destruct (Ascii.eqb d c_bslash) eqn:D1.
    + apply Ascii.eqb_eq in C1, D1. subst. cbn in E. injection E as E.
      destruct (IH b r r') as [P Q]; auto. subst. auto.
    + destruct (Ascii.eqb d x) eqn:D2; cbn in E.
      * injection E as E1 E2. exfalso. apply Hx. congruence.
      * injection E as E1 E2. subst d. rewrite Ascii.eqb_refl in D1. discriminate.
    + destruct (Ascii.eqb c x) eqn:C2; cbn in E.
      * injection E as E1 E2. exfalso. apply Hx. congruence.
      * injection E as E1 E2. subst c. rewrite Ascii.eqb_refl in C1. discriminate.
    + destruct (Ascii.eqb c x) eqn:C2; destruct (Ascii.eqb d x) eqn:D2; cbn in E.
      * apply Ascii.eqb_eq in C2, D2. subst. injection E as E.
        destruct (IH b r r') as [P Q]; auto. subst. auto.
      * injection E as E1 E2. subst d. rewrite Ascii.eqb_refl in D1. discriminate.
      * injection E as E1 E2. subst c. rewrite Ascii.eqb_refl in C1. discriminate.
      * injection E as E1 E2. subst d.
        destruct (IH b r r') as [P Q]; auto. subst. auto.
Qed.

Lemma escape_inj : forall x, x <> c_bslash -> forall a b, escape x a = escape x b -> a = b.
Proof.
  intros x Hx a b E. destruct (esc_tok_inj x Hx a b [] []) as [P _]; auto; try (left; reflexivity).
  now rewrite !app_nil_r.
Qed.

Lemma escape_app : forall x a b, escape x (a ++ b) = escape x a ++ escape x b.
Proof.
  induction a as [|c a IH]; intro b; cbn; [reflexivity|].
  destruct (Ascii.eqb c c_bslash); [now rewrite IH|]. destruct (Ascii.eqb c x); now rewrite IH.
Qed.

Lemma escape_clean : forall x a, ~ In c_bslash a -> ~ In x a -> escape x a = a.
Proof.
  induction a as [|c a IH]; intros H1 H2; cbn; [reflexivity|].
  destruct (Ascii.eqb c c_bslash) eqn:E1. { apply Ascii.eqb_eq in E1. subst. exfalso. apply H1. now left. }
  destruct (Ascii.eqb c x) eqn:E2. { apply Ascii.eqb_eq in E2. subst. exfalso. apply H2. now left. }
  rewrite IH; auto; intro; [apply H1|apply H2]; now right.
Qed.

Lemma escape_nonempty : forall x a, a <> [] -> escape x a <> [].
Proof.
  intros x [|c a] H; [congruence|]. cbn.
  destruct (Ascii.eqb c c_bslash); [discriminate|]. destruct (Ascii.eqb c x); discriminate.
Qed.

(* ------------------------------------------------------------------ join *)
Definition jtail (c : ascii) (xs : list str) : str := match xs with [] => [] | _ => c :: join [c] xs end.

Lemma join_cons : forall c x xs, join [c] (x :: xs) = x ++ jtail c xs.
Proof. intros c x [|y r]; cbn; [now rewrite app_nil_r|reflexivity]. Qed.

Lemma jtail_ok : forall c xs, tail_ok c (jtail c xs).
Proof. intros c [|y r]; [left; reflexivity|right; eexists; reflexivity]. Qed.

Section JoinInj.
  Variable c : ascii.
  Variable P : str -> Prop.
  Hypothesis Htok : forall a b r r', P a -> P b -> tail_ok c r -> tail_ok c r' -> a ++ r = b ++ r' -> a = b /\ r = r'.
  Hypothesis Hne : forall a, P a -> a <> [].

  Lemma join_inj : forall xs ys, Forall P xs -> Forall P ys -> join [c] xs = join [c] ys -> xs = ys.
  Proof.
    induction xs as [|x xs IH]; intros [|y ys] Hx Hy E.
    - reflexivity.
    - exfalso. rewrite join_cons in E. cbn in E. inversion Hy; subst. apply (Hne y); auto.
      destruct y; [reflexivity|discriminate].
    - exfalso. rewrite join_cons in E. cbn in E. inversion Hx; subst. apply (Hne x); auto.
      destruct x; [reflexivity|discriminate].
    - rewrite !join_cons in E. inversion Hx; subst. inversion Hy; subst.
      destruct (Htok x y (jtail c xs) (jtail c ys)) as [A B]; auto using jtail_ok. subst y. f_equal.
      destruct xs as [|x1 xs]; destruct ys as [|y1 ys]; cbn [jtail] in B; try discriminate; [reflexivity|].
      injection B as B. apply IH; auto.
  Qed.
End JoinInj.

Lemma join_plain_inj : forall c xs ys,
  Forall (fun a => ~ In c a /\ a <> []) xs -> Forall (fun a => ~ In c a /\ a <> []) ys ->
  join [c] xs = join [c] ys -> xs = ys.
Proof.
  intros c. apply join_inj.
  - intros a b r r' [Ha _] [Hb _]. now apply plain_tok_inj.
  - intros a [_ H]. exact H.
Qed.

Lemma join_esc_inj : forall x, x <> c_bslash -> forall xs ys,
  Forall (fun a => a <> []) xs -> Forall (fun a => a <> []) ys ->
  join [x] (map (escape x) xs) = join [x] (map (escape x) ys) -> xs = ys.
Proof.
  intros x Hx xs ys Hxs Hys E.
  assert (M : map (escape x) xs = map (escape x) ys).
  { apply (join_inj x (fun a => exists raw, a = escape x raw /\ raw <> [])); auto.
    - intros a b r r' [ra [-> _]] [rb [-> _]] Hr Hr' E2.
      destruct (esc_tok_inj x Hx ra rb r r') as [A B]; auto. subst. auto.
    - intros a [ra [-> Hne]]. now apply escape_nonempty.
    - rewrite Forall_forall in *. intros a Ha. apply in_map_iff in Ha as [raw [<- Hin]]. eauto.
    - rewrite Forall_forall in *. intros a Ha. apply in_map_iff in Ha as [raw [<- Hin]]. eauto. }
  clear E. revert ys Hys M. induction xs as [|a xs IH]; intros [|b ys] Hys M; cbn in M; try discriminate; auto.
  injection M as M1 M2. apply escape_inj in M1; auto. subst. f_equal. inversion Hxs; inversion Hys; subst. apply IH; auto.
Qed.

(* no occurrence of a character, as a boolean on Coq strings (used by the well-formedness predicate) *)
Lemma has_char_false : forall c s, has_char c s = false -> ~ In c (L s).
Proof.
  intros c s H Hin. unfold has_char in H.
  assert (existsb (Ascii.eqb c) (L s) = true) by (apply existsb_exists; exists c; split; [auto|apply Ascii.eqb_refl]).
  congruence.
Qed.

Lemma clean_no : forall s, clean s = true -> ~ In c_comma (L s) /\ ~ In c_dollar (L s) /\ ~ In c_bslash (L s).
Proof.
  intros s H. unfold clean in H. apply andb_true_iff in H as [H H3]. apply andb_true_iff in H as [H1 H2].
  apply negb_true_iff in H1, H2, H3. repeat split; now apply has_char_false.
Qed.

Lemma in_join : forall (x : ascii) sep xs, In x (join sep xs) -> In x sep \/ exists y, In y xs /\ In x y.
Proof.
  intros x sep. induction xs as [|a xs IH]; intro H; [contradiction|].
  destruct xs as [|b r].
  - cbn in H. right. exists a. split; [now left|exact H].
  - change (join sep (a :: b :: r)) with (a ++ sep ++ join sep (b :: r)) in H.
    apply in_app_or in H as [H|H]; [right; exists a; split; [now left|exact H]|].
    apply in_app_or in H as [H|H]; [now left|].
    destruct (IH H) as [H1|[y [Hy1 Hy2]]]; [now left|]. right. exists y. split; [now right|exact Hy2].
Qed.

Lemma join_dec_no : forall x sep ids, ~ is_digit x -> ~ In x sep -> ~ In x (join sep (map dec ids)).
Proof.
  intros x sep ids Hd Hs H. apply in_join in H as [H|[y [Hy1 Hy2]]]; [auto|].
  apply in_map_iff in Hy1 as [n [<- _]]. eapply dec_no; eauto.
Qed.

Lemma map_dec_inj : forall a b, map dec a = map dec b -> a = b.
Proof.
  induction a as [|x a IH]; intros [|y b] E; cbn in E; try discriminate; auto.
  injection E as E1 E2. apply dec_inj in E1. subst. f_equal. auto.
Qed.
