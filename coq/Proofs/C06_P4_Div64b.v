(* C06 phase 4 — $div64, part b: the invariants of the two loops and the correctness of the helper:
   quotient truncated toward zero and remainder with the sign of the dividend, signed and unsigned,
   a throw exactly on a zero divisor, MinInt64 / -1 wrapping to MinInt64. *)
From Coq Require Import ZArith Znumtheory Bool List Lia ZifyBool.
From Verif Require Import Base.C06_JsNum Model.C06_Prelude64 Model.C06_Spec Gen.C06_Tables Model.C06_Templates
  Proofs.C06_Arith Proofs.C06_Fix Proofs.C06_Ops64 Proofs.C06_Mul64 Proofs.C06_Bits64 Proofs.C06_P4_Div64a.
Import ListNotations.
Local Open Scope Z_scope.
Ltac Zify.zify_post_hook ::= Z.div_mod_to_equations.

(* ---- first loop: while (yHigh < 2^31 && x > y) { y <<= 1; n++ } --------------------------------
   Invariant: y = y0 * 2^(n - n0).  With fuel f such that y * 2^f >= 2^63 the loop has left through its
   condition; at the exit x < 2 * y. *)
Lemma div_norm_spec : forall f xh xl yh yl n,
  0 <= xl < two32 -> 0 <= yh < two32 -> 0 <= yl < two32 ->
  0 < val2 yh yl -> val2 xh xl < two64 -> two64 <= 2 * (val2 yh yl * 2 ^ Z.of_nat f) ->
  exists j : nat,
    snd (div_norm f xh xl yh yl n) = n + Z.of_nat j /\
    let yh' := fst (fst (div_norm f xh xl yh yl n)) in
    let yl' := snd (fst (div_norm f xh xl yh yl n)) in
    val2 yh' yl' = val2 yh yl * 2 ^ Z.of_nat j /\ 0 <= yh' < two32 /\ 0 <= yl' < two32 /\
    val2 xh xl < 2 * val2 yh' yl'.
Proof.
  induction f as [| f IH]; intros xh xl yh yl n Hxl Hyh Hyl Hpos HX Hf.
  - exists 0%nat. cbn [div_norm fst snd Z.of_nat]. rewrite Z.pow_0_r in *.
    split; [lia |]. split; [lia |]. split; [assumption |]. split; [assumption |]. lia.
  - cbn [div_norm]. rewrite gt2_spec by assumption.
    destruct (Z.ltb_spec yh two31) as [Hlt | Hge]; cbn [andb].
    + destruct (Z.ltb_spec (val2 yh yl) (val2 xh xl)) as [Hgt | Hle].
      * destruct (shl1_pair yh yl ltac:(lia) Hyl) as [Ev [Rh Rl]].
        set (yh1 := to_uint32 (or32 (shl32 yh 1) (ushr32 yl 31))) in *.
        set (yl1 := to_uint32 (shl32 yl 1)) in *.
        assert (Hf' : two64 <= 2 * (val2 yh1 yl1 * 2 ^ Z.of_nat f)).
        { rewrite Ev. rewrite Nat2Z.inj_succ, Z.pow_succ_r in Hf by lia. lia. }
        destruct (IH xh xl yh1 yl1 (n + 1) Hxl Rh Rl ltac:(lia) HX Hf') as [j [En [Ey R]]].
        exists (S j). split; [rewrite En, Nat2Z.inj_succ; lia |].
        cbv zeta in *. rewrite Ey, Ev. rewrite Nat2Z.inj_succ, Z.pow_succ_r by lia.
        split; [ring |]. destruct R as [R1 [R2 R3]]. split; [assumption |]. split; [assumption |].
        rewrite Ey, Ev in R3. exact R3.
      * exists 0%nat. cbn [fst snd Z.of_nat]. rewrite Z.pow_0_r.
        split; [lia |]. split; [lia |]. split; [assumption |]. split; [assumption |]. lia.
    + exists 0%nat. cbn [fst snd Z.of_nat]. rewrite Z.pow_0_r.
      split; [lia |]. split; [lia |]. split; [assumption |]. split; [assumption |].
      unfold val2, two64, two31, two32 in *. lia.
Qed.

(* ---- second loop: j+1 iterations with y = D * 2^j and x < 2 * y -----------------------------------
   Invariant per iteration (div_step_spec): x_old = x + b * y, q = 2 * q_old + b, y halves exactly.
   After the loop x = x0 mod D and q = q0 * 2^(j+1) + x0 / D. *)
Lemma div_iter_spec : forall (j : nat) s D Q,
  0 < D ->
  0 <= d_xl s < two32 -> 0 <= d_yh s < two32 -> 0 <= d_yl s < two32 -> qrep (d_high s) (d_low s) Q ->
  val2 (d_yh s) (d_yl s) = D * 2 ^ Z.of_nat j ->
  0 <= val2 (d_xh s) (d_xl s) < 2 * (D * 2 ^ Z.of_nat j) ->
  let s' := div_iter (S j) s in
  val2 (d_xh s') (d_xl s') = val2 (d_xh s) (d_xl s) mod D /\ 0 <= d_xl s' < two32 /\
  qrep (d_high s') (d_low s') (Q * 2 ^ (Z.of_nat j + 1) + val2 (d_xh s) (d_xl s) / D).
Proof.
  induction j as [| j IH]; intros s D Q HD Hxl Hyh Hyl Hq HY HX.
  - cbn [div_iter Z.of_nat] in *. rewrite Z.pow_0_r in *.
    destruct (div_step_spec s Q Hxl Hyh Hyl Hq) as [Ex [Rxl [_ [_ [_ Rq]]]]].
    cbv zeta in *. rewrite HY in *. set (X := val2 (d_xh s) (d_xl s)) in *.
    replace (0 + 1) with 1 by lia. change (2 ^ 1) with 2.
    destruct (Z.leb_spec (D * 1) X) as [LE | GT].
    + assert (Ed : X / D = 1) by (symmetry; apply Z.div_unique with (X - D); lia).
      assert (Em : X mod D = X - D) by (symmetry; apply Z.mod_unique with 1; lia).
      rewrite Em, Ed. split; [lia |]. split; [assumption |]. replace (Q * 2 + 1) with (2 * Q + 1) by lia. assumption.
    + rewrite Z.mod_small, Z.div_small by lia. split; [lia |]. split; [assumption |].
      replace (Q * 2 + 0) with (2 * Q + 0) by lia. assumption.
  - change (div_iter (S (S j)) s) with (div_iter (S j) (div_step s)).
    destruct (div_step_spec s Q Hxl Hyh Hyl Hq) as [Ex [Rxl [Ey [Ryh [Ryl Rq]]]]].
    cbv zeta in *. set (X := val2 (d_xh s) (d_xl s)) in *. set (Y := val2 (d_yh s) (d_yl s)) in *.
    set (b := if Y <=? X then 1 else 0) in *.
    rewrite Nat2Z.inj_succ in HY, HX. rewrite Z.pow_succ_r in HY, HX by lia.
    set (P := 2 ^ Z.of_nat j) in *. assert (HP : 0 < P) by (apply Z.pow_pos_nonneg; lia).
    assert (EY2 : Y / 2 = D * P) by (rewrite HY; replace (D * (2 * P)) with ((D * P) * 2) by ring; apply Z.div_mul; lia).
    assert (Hb : (b = 1 /\ Y <= X) \/ (b = 0 /\ X < Y)) by (unfold b; destruct (Z.leb_spec Y X); lia).
    assert (HX1 : 0 <= X - b * Y < 2 * (D * P)) by (destruct Hb as [[-> ?] | [-> ?]]; lia).
    specialize (IH (div_step s) D (2 * Q + b) HD Rxl Ryh Ryl Rq).
    rewrite Ey, Ex in IH. specialize (IH EY2 HX1). cbv zeta in IH.
    destruct IH as [I1 [I2 I3]].
    assert (Emod : (X - b * Y) mod D = X mod D).
    { rewrite HY. replace (X - b * (D * (2 * P))) with (X + (- b * (2 * P)) * D) by ring. apply Z_mod_plus_full. }
    assert (Ediv : (X - b * Y) / D = X / D - b * (2 * P)).
    { rewrite HY. replace (X - b * (D * (2 * P))) with (X + (- b * (2 * P)) * D) by ring. rewrite Z.div_add by lia. ring. }
    split; [rewrite I1; exact Emod |]. split; [exact I2 |].
    rewrite Ediv in I3. rewrite Nat2Z.inj_succ.
    replace (Z.succ (Z.of_nat j) + 1) with (Z.succ (Z.of_nat j + 1)) by lia.
    rewrite Z.pow_succ_r by lia. rewrite Z.pow_add_r in * by lia. fold P in I3 |- *. change (2 ^ 1) with 2 in *.
    replace (Q * (2 * (P * 2)) + X / D) with ((2 * Q + b) * (P * 2) + (X / D - b * (2 * P))) by ring.
    exact I3.
Qed.

(* ---- the helper in a form without destructuring lets ------------------------------------------------ *)
Definition absp (h l : Z) : Z * Z := if h <? 0 then negpair h l else (h, l).
Definition sgn_of (h : Z) : Z := if h <? 0 then -1 else 1.

Definition div64_flat (tr sg : bool) (xh xl yh yl : Z) (rem : bool) : res jso :=
  if (yh =? 0) && (yl =? 0) then Throw DivideByZero
  else
    let ax := absp xh xl in let ay := absp yh yl in
    let nm := div_norm 64 (fst ax) (snd ax) (fst ay) (snd ay) 0 in
    let st := div_iter (Z.to_nat (snd nm + 1))
                {| d_xh := fst ax; d_xl := snd ax; d_yh := fst (fst nm); d_yl := snd (fst nm); d_high := 0; d_low := 0 |} in
    if rem then Ret (new64v tr sg (Fin (d_xh st * sgn_of xh)) (Fin (d_xl st * sgn_of xh)))
    else Ret (new64v tr sg (Fin (d_high st * (sgn_of xh * sgn_of yh))) (Fin (d_low st * (sgn_of xh * sgn_of yh)))).

Lemma div64_flat_eq : forall tr sg sg' xh xl yh yl rem,
  div64 tr (O64 sg xh xl) (O64 sg' yh yl) rem = div64_flat tr sg xh xl yh yl rem.
Proof.
  intros. unfold div64, div64_flat, absp, sgn_of, new64.
  destruct ((yh =? 0) && (yl =? 0)); [reflexivity |].
  destruct (xh <? 0); destruct (yh <? 0);
    repeat match goal with |- context [negpair ?a ?b] => destruct (negpair a b) end; cbn [fst snd];
    match goal with |- context [div_norm ?f ?a ?b ?c ?d ?e] => destruct (div_norm f a b c d e) as [[? ?] ?] end;
    cbn [fst snd]; destruct rem; repeat f_equal; ring.
Qed.

(* ---- magnitudes ------------------------------------------------------------------------------------ *)
Lemma absp_spec : forall h l, 0 <= l < two32 ->
  val2 (fst (absp h l)) (snd (absp h l)) = Z.abs (val2 h l) /\ 0 <= snd (absp h l) < two32.
Proof.
  intros h l Hl. unfold absp. destruct (Z.ltb_spec h 0).
  - destruct (negpair_spec h l Hl) as [E R]. split; [| exact R]. rewrite E. unfold val2, two32 in *. lia.
  - cbn [fst snd]. split; [| assumption]. unfold val2, two32 in *. lia.
Qed.

Lemma val2_enc : forall x, val2 (x / two32) (x mod two32) = x.
Proof. intro x. unfold val2, two32. lia. Qed.

Definition sg1 (x : Z) : Z := if x <? 0 then -1 else 1.
Lemma sgn_of_enc : forall x, sgn_of (x / two32) = sg1 x.
Proof. intro x. unfold sgn_of, sg1, two32. destruct (Z.ltb_spec (x / 4294967296) 0); destruct (Z.ltb_spec x 0); lia. Qed.

(* truncated division / remainder through magnitudes and signs *)
Lemma quot_sgn : forall x y, y <> 0 -> Z.quot x y = sg1 x * sg1 y * (Z.abs x / Z.abs y).
Proof.
  intros x y Hy. unfold sg1. remember (Z.abs x) as a eqn:Ea. remember (Z.abs y) as b eqn:Eb.
  destruct (Z.ltb_spec x 0); destruct (Z.ltb_spec y 0).
  - assert (x = - a) by lia. assert (y = - b) by lia. subst x y.
    rewrite Z.quot_opp_l, Z.quot_opp_r by lia. rewrite Z.quot_div_nonneg by lia. lia.
  - assert (x = - a) by lia. assert (y = b) by lia. subst x y.
    rewrite Z.quot_opp_l by lia. rewrite Z.quot_div_nonneg by lia. lia.
  - assert (x = a) by lia. assert (y = - b) by lia. subst x y.
    rewrite Z.quot_opp_r by lia. rewrite Z.quot_div_nonneg by lia. lia.
  - assert (x = a) by lia. assert (y = b) by lia. subst x y.
    rewrite Z.quot_div_nonneg by lia. lia.
Qed.
Lemma rem_sgn : forall x y, y <> 0 -> Z.rem x y = sg1 x * (Z.abs x mod Z.abs y).
Proof.
  intros x y Hy. unfold sg1. remember (Z.abs x) as a eqn:Ea. remember (Z.abs y) as b eqn:Eb.
  destruct (Z.ltb_spec x 0); destruct (Z.ltb_spec y 0).
  - assert (x = - a) by lia. assert (y = - b) by lia. subst x y.
    rewrite Z.rem_opp_l, Z.rem_opp_r by lia. rewrite Z.rem_mod_nonneg by lia. lia.
  - assert (x = - a) by lia. assert (y = b) by lia. subst x y.
    rewrite Z.rem_opp_l by lia. rewrite Z.rem_mod_nonneg by lia. lia.
  - assert (x = a) by lia. assert (y = - b) by lia. subst x y.
    rewrite Z.rem_opp_r by lia. rewrite Z.rem_mod_nonneg by lia. lia.
  - assert (x = a) by lia. assert (y = b) by lia. subst x y.
    rewrite Z.rem_mod_nonneg by lia. lia.
Qed.

(* value-level statement of the helper: for operands that are 64-bit values of one kind *)
Lemma div64_value : forall tr k x y rem, is64 k = true -> in_range k x -> in_range k y -> y <> 0 ->
  div64 tr (enc64 k x) (enc64 k y) rem =
  Ret (enc64 k (wrap k (if rem then Z.rem x y else Z.quot x y))).
Proof.
  intros tr k x y rem H Rx Ry Hy. unfold enc64. rewrite div64_flat_eq. unfold div64_flat.
  pose proof (in_range_64 k x H Rx) as Bx. pose proof (in_range_64 k y H Ry) as By.
  assert (Lx : 0 <= x mod two32 < two32) by (unfold two32; lia).
  assert (Ly : 0 <= y mod two32 < two32) by (unfold two32; lia).
  assert (Z0 : (y / two32 =? 0) && (y mod two32 =? 0) = false).
  { destruct (Z.eqb_spec (y / two32) 0); destruct (Z.eqb_spec (y mod two32) 0); cbn; try reflexivity.
    exfalso; apply Hy; unfold two32 in *; lia. }
  rewrite Z0.
  destruct (absp_spec (x / two32) (x mod two32) Lx) as [EX RXl].
  destruct (absp_spec (y / two32) (y mod two32) Ly) as [EY RYl].
  rewrite val2_enc in EX, EY.
  set (axh := fst (absp (x / two32) (x mod two32))) in *. set (axl := snd (absp (x / two32) (x mod two32))) in *.
  set (ayh := fst (absp (y / two32) (y mod two32))) in *. set (ayl := snd (absp (y / two32) (y mod two32))) in *.
  (* ranges of the magnitudes: |x|, |y| < 2^64 (MinInt64 gives exactly 2^63) *)
  assert (AX : 0 <= Z.abs x < two64).
  { destruct k; try discriminate H; unfold in_range, kmin, kmax in Rx; cbn in Rx; unfold two64; lia. }
  assert (AY : 0 < Z.abs y < two64).
  { destruct k; try discriminate H; unfold in_range, kmin, kmax in Ry; cbn in Ry; unfold two64; lia. }
  assert (RYh : 0 <= ayh < two32) by (unfold val2, two64, two32 in *; lia).
  destruct (div_norm_spec 64 axh axl ayh ayl 0 RXl RYh RYl ltac:(lia) ltac:(lia)) as [j [En [Ey [Rh [Rl Hlt]]]]].
  { rewrite EY. change (2 ^ Z.of_nat 64) with two64. unfold two64 in *. lia. }
  cbv zeta in *. rewrite En. replace (Z.to_nat (0 + Z.of_nat j + 1)) with (S j) by lia.
  set (nm := div_norm 64 axh axl ayh ayl 0) in *.
  set (s0 := {| d_xh := axh; d_xl := axl; d_yh := fst (fst nm); d_yl := snd (fst nm); d_high := 0; d_low := 0 |}).
  assert (Q0 : qrep (d_high s0) (d_low s0) 0) by (cbn; unfold qrep, val2, two31, two32; repeat split; lia).
  destruct (div_iter_spec j s0 (Z.abs y) 0 ltac:(lia) RXl Rh Rl Q0) as [Fx [Fxl Fq]].
  { cbn [s0 d_yh d_yl]. rewrite Ey, EY. reflexivity. }
  { cbn [s0 d_xh d_xl]. rewrite EX. rewrite Ey, EY in Hlt. lia. }
  cbv zeta in *. cbn [s0 d_xh d_xl] in Fx, Fq. rewrite EX in Fx, Fq. rewrite Z.mul_0_l, Z.add_0_l in Fq.
  set (st := div_iter (S j) s0) in *.
  rewrite !sgn_of_enc.
  assert (Ks : k64 (signed k) = k) by (apply k64_signed; assumption).
  assert (B64 : bits k = 64) by (destruct k; try discriminate H; reflexivity).
  assert (S1 : forall z, sg1 z = 1 \/ sg1 z = -1) by (intro z; unfold sg1; destruct (z <? 0); lia).
  destruct rem.
  - (* remainder *)
    assert (RM : 0 <= Z.abs x mod Z.abs y < two64) by (pose proof (Z.mod_pos_bound (Z.abs x) (Z.abs y)) as MB; clear - MB AY; lia).
    assert (Bh : 0 <= d_xh st < two32) by (clear - RM Fx Fxl; unfold val2, two64, two32 in *; lia).
    assert (Br : - two53 <= d_xh st * sg1 x + d_xl st * sg1 x / two32 <= two53).
    { pose proof (S1 x) as Sx. clear - Bh Fxl Sx. unfold two53, two32 in *. destruct Sx as [-> | ->]; lia. }
    rewrite new64_norm by exact Br.
    rewrite Ks.
    replace (d_xh st * sg1 x * two32 + d_xl st * sg1 x) with (sg1 x * val2 (d_xh st) (d_xl st)) by (unfold val2; ring).
    rewrite Fx. rewrite <- rem_sgn by assumption. reflexivity.
  - (* quotient *)
    destruct Fq as [Fv [Fl Fh]].
    assert (Bq : - two53 <= d_high st * (sg1 x * sg1 y) + d_low st * (sg1 x * sg1 y) / two32 <= two53).
    { pose proof (S1 x) as Sx. pose proof (S1 y) as Sy. clear - Fl Fh Sx Sy. unfold two53, two31, two32 in *.
      destruct Sx as [-> | ->]; destruct Sy as [-> | ->]; lia. }
    rewrite new64_norm by exact Bq.
    rewrite Ks.
    match goal with |- Ret (enc64 k (wrap k ?a)) = _ => assert (W : wrap k a = wrap k (Z.quot x y)) end; [| rewrite W; reflexivity].
    apply wrap_congr. rewrite B64. change (2 ^ 64) with two64.
    rewrite quot_sgn by assumption.
    replace (d_high st * (sg1 x * sg1 y) * two32 + d_low st * (sg1 x * sg1 y))
      with ((sg1 x * sg1 y) * val2 (d_high st) (d_low st)) by (unfold val2; ring).
    set (A := val2 (d_high st) (d_low st)) in *. set (B := Z.abs x / Z.abs y) in *.
    pose proof (S1 x) as Sx. pose proof (S1 y) as Sy.
    clearbody A B. clear - Fv Sx Sy. unfold two64 in *.
    destruct Sx as [-> | ->]; destruct Sy as [-> | ->]; lia.
Qed.
