(* C06 — 64-bit kinds: constructor normalisation, + - unary -, comparisons, conversions to a 64-bit kind.
   ($mul64, $div64, shifts, bitwise operators and 64->32 conversions are modelled and tied differentially,
   their proofs are not part of this file.) *)
From Coq Require Import ZArith Znumtheory Bool List Lia ZifyBool.
From Verif Require Import Base.C06_JsNum Model.C06_Prelude64 Model.C06_Spec Gen.C06_Tables Model.C06_Templates
  Proofs.C06_Arith Proofs.C06_Fix Proofs.C06_AddMul32.
Import ListNotations.
Local Open Scope Z_scope.
Ltac Zify.zify_post_hook ::= Z.div_mod_to_equations.

Definition k64 (sg : bool) : kind := if sg then Int64 else Uint64.

Lemma new64_jval : forall tr sg a b h l, jval a = Some h -> jval b = Some l ->
  new64v tr sg a b = new64v tr sg (Fin h) (Fin l).
Proof.
  intros tr sg a b h l Ha Hb. unfold new64v. rewrite Ha. cbn [jval].
  destruct b; try discriminate Hb; cbn [jval] in Hb; injection Hb as <-; reflexivity.
Qed.

(* the constructor stores exactly the 64-bit wrap of high * 2^32 + low *)
Lemma new64_norm : forall tr sg h l, - two53 <= h + l / two32 <= two53 ->
  new64v tr sg (Fin h) (Fin l) = enc64 (k64 sg) (wrap (k64 sg) (h * two32 + l)).
Proof.
  intros tr sg h l B. unfold new64v. cbn [jval]. rewrite chk_ok by assumption. unfold enc64.
  destruct sg; cbn [k64 signed wrap bits]; unfold wraps, wrapu, to_int32, to_uint32, two32, two31 in *;
    change (2 ^ 64) with 18446744073709551616; change (2 ^ (64 - 1)) with 9223372036854775808.
  - f_equal.
    + destruct (Z.ltb_spec ((h + l / 4294967296) mod 4294967296) 2147483648);
        destruct (Z.ltb_spec ((h * 4294967296 + l) mod 18446744073709551616) 9223372036854775808); lia.
    + destruct (Z.ltb_spec ((h * 4294967296 + l) mod 18446744073709551616) 9223372036854775808); lia.
  - f_equal; lia.
Qed.

Lemma in_range_64 : forall k x, is64 k = true -> in_range k x -> - 9223372036854775808 <= x <= 18446744073709551615.
Proof. intros k x H R. destruct k; try discriminate H; unfold in_range, kmin, kmax in R; cbn in R; lia. Qed.

Lemma k64_signed : forall k, is64 k = true -> k64 (signed k) = k.
Proof. intros k H; destruct k; try discriminate H; reflexivity. Qed.

Lemma add64_correct : forall V k x y, is64 k = true -> in_range k x -> in_range k y ->
  bin64 V k Add (enc64 k x) (enc64 k y) = Ret (enc64 k (wrap k (x + y))).
Proof.
  intros V k x y H Rx Ry. pose proof (in_range_64 k x H Rx). pose proof (in_range_64 k y H Ry).
  cbn [bin64 enc64 o_hi o_lo js_add]. unfold N64.
  rewrite !chk_ok by (unfold two32, two53; lia).
  rewrite new64_norm by (unfold two32, two53; lia). rewrite k64_signed by assumption.
  do 3 f_equal; unfold two32; lia.
Qed.

Lemma sub64_correct : forall V k x y, is64 k = true -> in_range k x -> in_range k y ->
  bin64 V k Sub (enc64 k x) (enc64 k y) = Ret (enc64 k (wrap k (x - y))).
Proof.
  intros V k x y H Rx Ry. pose proof (in_range_64 k x H Rx). pose proof (in_range_64 k y H Ry).
  cbn [bin64 enc64 o_hi o_lo]. unfold N64.
  rewrite !js_sub_fin by (unfold two32, two53; lia).
  rewrite new64_norm by (unfold two32, two53; lia). rewrite k64_signed by assumption.
  do 3 f_equal; unfold two32; lia.
Qed.

Lemma jval_js_neg : forall z, jval (js_neg (Fin z)) = Some (- z).
Proof. intro z; destruct z; reflexivity. Qed.

Lemma neg64_correct : forall V k x, is64 k = true -> in_range k x ->
  un64 V k Neg (enc64 k x) = Ret (enc64 k (wrap k (- x))).
Proof.
  intros V k x H Rx. pose proof (in_range_64 k x H Rx).
  cbn [un64 enc64 o_hi o_lo]. unfold N64.
  rewrite (new64_jval _ _ _ _ _ _ (jval_js_neg _) (jval_js_neg _)).
  rewrite new64_norm by (unfold two32, two53; lia). rewrite k64_signed by assumption.
  do 3 f_equal; unfold two32; lia.
Qed.

(* conversions to a 64-bit kind (from any integer kind) *)
Lemma conv_no_correct : forall V k2 x, is64 k2 = true -> - two31 <= x < two32 ->
  conv_no V k2 (Fin x) = Ret (enc64 k2 (go_conv k2 x)).
Proof.
  intros V k2 x H B. unfold conv_no, N64, go_conv.
  rewrite new64_norm by (unfold two31, two32, two53 in *; lia). rewrite k64_signed by assumption.
  do 3 f_equal; lia.
Qed.

Lemma conv_oo_correct : forall V k1 k2 x, is64 k1 = true -> is64 k2 = true -> in_range k1 x ->
  conv_oo V k2 (enc64 k1 x) = Ret (enc64 k2 (go_conv k2 x)).
Proof.
  intros V k1 k2 x H1 H2 R. pose proof (in_range_64 k1 x H1 R).
  unfold conv_oo, N64, go_conv. cbn [enc64 o_hi o_lo].
  rewrite new64_norm by (unfold two32, two53; lia). rewrite k64_signed by assumption.
  do 3 f_equal; unfold two32; lia.
Qed.

(* comparisons: lexicographic on (high, low) *)
Lemma cmp64_correct : forall c k x y, cmp64 c (enc64 k x) (enc64 k y) = Ret (Some (go_cmp c x y)).
Proof.
  intros c k x y. unfold cmp64, eq64. cbn [enc64 o_hi o_lo].
  cbn [js_seq js_lt js_le js_gt js_ge ext_of ext_eq ext_lt jb_and jb_or jb_not option_map].
  set (hx := x / two32). set (hy := y / two32). set (lx := x mod two32). set (ly := y mod two32).
  assert (Ex : x = hx * two32 + lx) by (unfold hx, lx, two32; lia).
  assert (Ey : y = hy * two32 + ly) by (unfold hy, ly, two32; lia).
  assert (Lx : 0 <= lx < two32) by (unfold lx, two32; lia).
  assert (Ly : 0 <= ly < two32) by (unfold ly, two32; lia).
  clearbody hx hy lx ly. unfold two32 in *.
  destruct c; cbn [go_cmp];
    repeat match goal with
    | |- context [?a =? ?b] => destruct (Z.eqb_spec a b)
    | |- context [?a <? ?b] => destruct (Z.ltb_spec a b)
    | |- context [?a <=? ?b] => destruct (Z.leb_spec a b)
    end; cbn [jb_not option_map negb]; try reflexivity; exfalso; lia.
Qed.
