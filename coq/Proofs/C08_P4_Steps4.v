(* C08 phase 4 — induction step for $callDeferred, and the assembled invariant *)
From Coq Require Import List ZArith Bool Arith Lia.
From Verif Require Import Model.C08_Panic Proofs.C08_Panic Proofs.C08_P4_Once Proofs.C08_P4_Steps Proofs.C08_P4_Steps2 Proofs.C08_P4_Steps3.
Import ListNotations.

Lemma ps_offset : forall o s, j_panicStack (j_set_offset o s) = j_panicStack s.
Proof. reflexivity. Qed.

Lemma Inv0_eq : forall s s1, j_deferStack s1 = j_deferStack s -> j_lists s1 = j_lists s -> j_next s1 = j_next s -> Inv0 s -> Inv0 s1.
Proof. intros s s1 E1 E2 E3 [A B C]. split; rewrite ?E1, ?E2, ?E3; auto. Qed.

Lemma step_cd : forall fuel, Q_cd fuel -> Q_loop fuel -> Q_cd (S fuel).
Proof.
  intros fuel IHc IHl. red. intros vr p d deferred jsErr fromPanic s out s' Hao (HI0 & Hpre) H.
  cbn [impl_cd] in H. unfold ao in Hao. rewrite Hao in H.
  destruct fromPanic.
  - (* called by $panic: one queued panic *)
    destruct Hpre as (-> & -> & v & Hps). cbn [negb andb] in H.
    rewrite ps_offset, Hps in H.
    match type of H with context [impl_loop vr fuel p d None true (Some v) ?S2] => set (s2 := S2) in * end.
    assert (HI2 : Inv s2).
    { split; [eapply Inv0_eq; [| | |exact HI0]; reflexivity | reflexivity]. }
    assert (Hd2 : j_deferStack s2 = j_deferStack s) by reflexivity.
    assert (Ho2 : j_offset s2 = (j_offset s - 1)%Z) by reflexivity.
    destruct (impl_loop vr fuel p d None true (Some v) s2) as [[res s3]|] eqn:El; [|discriminate H].
    assert (Hpost : loop_post None true s2 res s3).
    { eapply IHl; [exact Hao| |exact El]. split; [exact HI2|]. split; [apply top_none|]. exists v. reflexivity. }
    destruct Hpost as (A & B & C & D).
    assert (Hfin : forall e s4, s4 = s3 -> forall sf,
       j_deferStack sf = j_deferStack s4 -> j_lists sf = j_lists s4 -> j_next sf = j_next s4 ->
       j_panicStack sf = j_panicStack s4 -> j_offset sf = (j_offset s4 + 1)%Z ->
       cd_post None true s (JThrow e) sf).
    { intros e s4 -> sf E1 E2 E3 E4 E5.
      split; [|split; [|split; [|split]]].
      - destruct A as [[A1 A2 A3] A4]. split; [split|]; rewrite ?E1, ?E2, ?E3, ?E4; auto.
      - rewrite E5, B, Ho2. lia.
      - rewrite E1, <- Hd2. exact C.
      - intros _. eexists; reflexivity.
      - intro F; discriminate F. }
    destruct res as [|e c|e].
    + destruct D as [F _]. discriminate F.
    + destruct (j_psd s3); inversion H; subst out s'; eapply (Hfin e s3 eq_refl); reflexivity.
    + destruct (j_psd s3); inversion H; subst out s'; eapply (Hfin e s3 eq_refl); reflexivity.
  - (* called by a function epilogue *)
    destruct Hpre as (Hps & id & -> & Htop). cbn [negb andb] in H.
    destruct (mem_nat id (j_deferStack s)) eqn:Em; cbn [negb] in H.
    2:{ (* the frame was already unwound: rethrow *)
        inversion H; subst out s'. split; [split; assumption|]. split; [reflexivity|]. split; [apply suffix_refl|].
        split; [intro F; discriminate F|]. intros _ id0 E. inversion E; subst id0.
        split; [apply mem_nat_false; exact Em|]. intro Hn. exfalso. eapply Hn. reflexivity. }
    destruct (Htop (mem_nat_true _ _ Em)) as [ds0 Hd].
    assert (HI : Inv s) by (split; assumption).
    destruct jsErr as [ev|].
    + (* a JavaScript error / uncaught panic value: wrapped into a new panic first *)
      destruct (impl_cd vr fuel p (d + 2) None None true (j_set_ps (PJsErr :: j_panicStack s) s)) as [[o1 s1]|] eqn:E1; [|discriminate H].
      assert (Hpre1 : cd_pre None None true (j_set_ps (PJsErr :: j_panicStack s) s)).
      { split; [eapply same0_Inv0; [|exact HI0]; same_tac|]. split; [reflexivity|]. split; [reflexivity|].
        cbn. rewrite Hps. eexists; reflexivity. }
      pose proof (IHc _ _ _ _ _ _ _ _ _ Hao Hpre1 E1) as (A1 & B1 & C1 & _).
      cbn [j_deferStack j_set_ps j_offset] in B1, C1.
      match type of H with impl_cd _ _ _ _ _ ?ne false s1 = _ => set (newErr := ne) in * end.
      assert (Hpre2 : cd_pre (Some id) newErr false s1).
      { split; [apply A1|]. split; [apply A1|]. exists id. split; [reflexivity|]. intro Hi. exists ds0.
        eapply suffix_top; [rewrite <- Hd; exact C1|rewrite <- Hd; apply HI0|exact Hi]. }
      pose proof (IHc _ _ _ _ _ _ _ _ _ Hao Hpre2 H) as (A2 & B2 & C2 & _ & E2).
      specialize (E2 eq_refl id eq_refl). destruct E2 as [F2 G2].
      split; [exact A2|]. split; [congruence|]. split; [eapply suffix_trans; eassumption|].
      split; [intro F; discriminate F|]. intros _ id0 E. inversion E; subst id0. split; [exact F2|].
      intro Hn. destruct (G2 Hn) as [ds1 [G3 G4]]. exists ds0. split; [exact Hd|].
      assert (j_deferStack s1 = id :: ds0) by (eapply suffix_top; [rewrite <- Hd; exact C1|rewrite <- Hd; apply HI0|rewrite G3; now left]).
      congruence.
    + rewrite ps_offset, Hps in H.
      set (s2 := j_set_offset (j_offset s - 1) s) in *.
      assert (HI2 : Inv s2) by (split; [eapply Inv0_eq; [| | |exact HI0]; reflexivity | exact Hps]).
      assert (Hd2 : j_deferStack s2 = j_deferStack s) by reflexivity.
      assert (Ho2 : j_offset s2 = (j_offset s - 1)%Z) by reflexivity.
      destruct (impl_loop vr fuel p d (Some id) false None s2) as [[res s3]|] eqn:El; [|discriminate H].
      assert (Hpost : loop_post (Some id) false s2 res s3).
      { eapply IHl; [exact Hao| |exact El]. split; [exact HI2|]. split.
        - intros id0 E. inversion E; subst id0. exists ds0. congruence.
        - split; [reflexivity|]. exists id. reflexivity. }
      destruct Hpost as (A & B & C & D).
      assert (Hfin : forall o s4, Inv s4 -> j_offset s4 = (j_offset s - 1)%Z ->
         suffix (j_deferStack s4) (j_deferStack s) -> ~ In id (j_deferStack s4) ->
         (nothrow o -> j_deferStack s4 = ds0) ->
         cd_post (Some id) false s o (j_set_offset (j_offset s4 + 1) s4)).
      { intros o s4 I4 O4 S4 N4 T4.
        split; [split; [eapply Inv0_eq; [| | |apply I4]; reflexivity | apply I4]|].
        split; [cbn; lia|]. split; [exact S4|]. split; [intro F; discriminate F|].
        intros _ id0 E. inversion E; subst id0. split; [exact N4|]. intro Hn. exists ds0. split; [exact Hd|apply T4; exact Hn]. }
      destruct res as [|e c|e].
      * inversion H; subst out s'. destruct D as [_ G]. destruct (G id eq_refl) as [G1 G2].
        apply Hfin; [exact A|congruence|rewrite <- Hd2; exact C|exact G1|].
        intros _. rewrite G2, Hd2, Hd. reflexivity.
      * destruct D as [F (id' & Ec & G)]. pose proof (F eq_refl id eq_refl) as Ec'. rewrite Ec' in Ec. assert (id' = id) by congruence. subst id'. clear Ec. subst c.
        destruct (impl_cd vr fuel p (d + 1) (Some id) (jsErr_of e) false s3) as [[o4 s4]|] eqn:E4; [|discriminate H].
        inversion H; subst out s'. clear H.
        assert (Hpre4 : cd_pre (Some id) (jsErr_of e) false s3).
        { split; [apply A|]. split; [apply A|]. exists id. split; [reflexivity|exact G]. }
        pose proof (IHc _ _ _ _ _ _ _ _ _ Hao Hpre4 E4) as (A4 & B4 & C4 & _ & E5).
        specialize (E5 eq_refl id eq_refl). destruct E5 as [F5 G5].
        apply Hfin; [exact A4|congruence|rewrite <- Hd2; eapply suffix_trans; eassumption|exact F5|].
        intro Hn. destruct (G5 Hn) as [ds1 [G6 G7]].
        assert (j_deferStack s3 = id :: ds0) by (eapply suffix_top; [rewrite <- Hd, <- Hd2; exact C|rewrite <- Hd; apply HI0|rewrite G6; now left]).
        congruence.
      * discriminate D.
Qed.

Lemma stack_shape : forall fuel, Q_exec fuel /\ Q_fun fuel /\ Q_cd fuel /\ Q_loop fuel.
Proof.
  induction fuel as [|fuel (IHe & IHf & IHc & IHl)].
  - split; [|split; [|split]]; red; intros; cbn in *; discriminate.
  - split; [apply step_exec; assumption|]. split; [apply step_fun; assumption|].
    split; [apply step_cd; assumption|apply step_loop; assumption].
Qed.
