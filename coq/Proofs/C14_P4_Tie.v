(* C14 (phase 4) — the templates regenerated from the compiler's real output (Gen/C14_Templates.v, rewritten on
   every run by harness/py/c14_gen.py) ARE the hand-written ones the theorems talk about.  All by conversion:
   a compiler or prelude that emits something else breaks these proofs. *)
From Coq Require Import List NArith ZArith.
From Verif Require Import Model.C14_Utf8 Model.C14_Ops Gen.C14_Templates.
Import ListNotations.

Lemma templates_as_emitted :
  t_Add = T_Add /\ t_Eql = T_Eql /\ t_Neq = T_Neq /\ t_Lss = T_Lss /\ t_Leq = T_Leq /\ t_Gtr = T_Gtr /\ t_Geq = T_Geq /\
  t_Len = T_Len /\ t_Idx = T_Idx /\ t_Sl2 = T_Sl2 /\ t_SlLo = T_SlLo /\ t_SlHi = T_SlHi /\
  t_ToBytes = T_ToBytes /\ t_FromBytes = T_FromBytes /\ t_ToRunes = T_ToRunes /\ t_FromRunes = T_FromRunes /\
  t_FromRune = T_FromRune /\ t_FromI64 = T_FromI64 /\ t_MapGet = T_MapGet /\
  (* named string / byte-slice types use the same templates *)
  t_MyAdd = T_Add /\ t_MyLss = T_Lss /\ t_MyEql = T_Eql /\ t_MyLen = T_Len /\ t_MyToBytes = T_ToBytes /\ t_MyFromBytes = T_FromBytes.
Proof. repeat split; reflexivity. Qed.

(* $String.keyFor(x) = "$" + x *)
Lemma key_prefix_as_in_prelude : forall s, STRING_KEY_PREFIX ++ s = key_for s.
Proof. reflexivity. Qed.

(* the chunk size of $bytesToString *)
Lemma chunk_as_in_prelude : B2S_CHUNK = 10000%N /\ N.to_nat B2S_CHUNK = CHUNK.
Proof. split; reflexivity. Qed.

(* the compiler copies the case constants of a string switch unchanged into the === chain, in order *)
Lemma switch_as_emitted : SWITCH_EMITTED = SWITCH_SOURCE.
Proof. reflexivity. Qed.
