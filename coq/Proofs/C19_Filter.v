(* C19 — proofs about the model in Model/C19_Filter.v *)
From Coq Require Import List NArith ZArith Arith Bool Lia ZifyN ZifyNat ZifyBool Sorted.
From Verif Require Import Model.C19_Filter.
Import ListNotations.
Ltac Zify.zify_post_hook ::= Z.div_mod_to_equations.
Local Open Scope nat_scope.

(* ---------- small facts ---------- *)

Lemma fstate_eta st :
  {| f_line := f_line st; f_col := f_col st; f_out := f_out st; f_maps := f_maps st |} = st.
Proof. destruct st; reflexivity. Qed.

Lemma advance_app l c a b :
  advance l c (a ++ b) = let '(l', c') := advance l c a in advance l' c' b.
Proof.
  revert l c; induction a as [|x a IH]; intros l c; cbn [advance app].
  - reflexivity.
  - destruct (N.eqb x NL); apply IH.
Qed.

Lemma write_plain_nil st : write_plain st [] = st.
Proof. unfold write_plain; cbn [advance]. rewrite app_nil_r. apply fstate_eta. Qed.

Lemma write_plain_app st a b : write_plain (write_plain st a) b = write_plain st (a ++ b).
Proof.
  unfold write_plain. rewrite advance_app.
  destruct (advance (f_line st) (f_col st) a) as [l c]; cbn.
  destruct (advance l c b) as [l' c']. rewrite app_assoc. reflexivity.
Qed.

Lemma find_hint_code pre r :
  code_ok pre = true ->
  find_hint (pre ++ r) = match find_hint r with Some i => Some (length pre + i)%nat | None => None end.
Proof.
  induction pre as [|x pre IH]; intros H; cbn [app find_hint length].
  - destruct (find_hint r); reflexivity.
  - cbn [code_ok forallb] in H. apply andb_true_iff in H as [Hx Hp].
    apply negb_true_iff in Hx. rewrite Hx. rewrite (IH Hp).
    destruct (find_hint r); reflexivity.
Qed.

Lemma find_hint_none_code bs : code_ok bs = true -> find_hint bs = None.
Proof.
  intros H. rewrite <- (app_nil_r bs). rewrite find_hint_code by assumption. reflexivity.
Qed.

Lemma firstn_app_exact {A} (a b : list A) : firstn (length a) (a ++ b) = a.
Proof. rewrite firstn_app, Nat.sub_diag, firstn_all; cbn; apply app_nil_r. Qed.

Lemma skipn_app_exact {A} (a b : list A) : skipn (length a) (a ++ b) = b.
Proof. rewrite skipn_app, Nat.sub_diag, skipn_all; reflexivity. Qed.

Lemma code_ok_app a b : code_ok (a ++ b) = code_ok a && code_ok b.
Proof. apply forallb_app. Qed.

(* ---------- hint codec round trip (hint.go) ---------- *)

Lemma encode_hint_some p :
  item_ok (Hint p) = true ->
  encode_hint p = Some (MAGIC :: (N.of_nat (length p) / 256) :: (N.of_nat (length p) mod 256) :: p)%N.
Proof.
  cbn [item_ok]; intros H. unfold encode_hint.
  destruct (N.ltb_spec 65535 (N.of_nat (length p))) as [Hlt|Hge]; [|reflexivity].
  apply N.leb_le in H. lia.
Qed.

Lemma read_hint_encoded p rest :
  item_ok (Hint p) = true ->
  read_hint (MAGIC :: (N.of_nat (length p) / 256) :: (N.of_nat (length p) mod 256) :: p ++ rest)%N
  = Some (p, (length p + 3)%nat).
Proof.
  cbn [item_ok]; intros H. apply N.leb_le in H.
  unfold read_hint. rewrite N.eqb_refl. cbn [negb].
  replace (N.to_nat (N.of_nat (length p) / 256 * 256 + N.of_nat (length p) mod 256)) with (length p).
  2:{ rewrite N.mul_comm, <- N.div_mod by discriminate. symmetry; apply Nat2N.id. }
  rewrite app_length.
  destruct (Nat.ltb_spec (length p + length rest) (length p)) as [Hlt|_]; [lia|].
  rewrite firstn_app_exact. reflexivity.
Qed.

Theorem hint_roundtrip p rest e :
  encode_hint p = Some e ->
  find_hint (e ++ rest) = Some O /\ read_hint (e ++ rest) = Some (p, length e).
Proof.
  intros He.
  assert (Hok : item_ok (Hint p) = true).
  { cbn [item_ok]. unfold encode_hint in He.
    destruct (N.ltb_spec 65535 (N.of_nat (length p))); [discriminate|]. apply N.leb_le; lia. }
  rewrite (encode_hint_some p Hok) in He. injection He as <-.
  split.
  - reflexivity.
  - cbn [app]. rewrite read_hint_encoded by assumption. cbn [length]. f_equal. f_equal. lia.
Qed.

Theorem hint_too_long_rejected p :
  (65535 < N.of_nat (length p))%N -> encode_hint p = None.
Proof.
  intros H. unfold encode_hint. destruct (N.ltb_spec 65535 (N.of_nat (length p))); [reflexivity|lia].
Qed.

(* ---------- one Write call on a chunk that is a rendering of items ---------- *)

Definition apply_item (st : fstate) (it : item) : fstate :=
  match it with
  | Code bs => write_plain st bs
  | Hint p => add_mapping st p
  end.

Definition apply_items (st : fstate) (its : list item) : fstate := fold_left apply_item its st.

Definition nhints (its : list item) : nat :=
  length (filter (fun it => match it with Hint _ => true | _ => false end) its).

Lemma render_hint_cons p r :
  item_ok (Hint p) = true ->
  render (Hint p :: r) =
  (MAGIC :: (N.of_nat (length p) / 256) :: (N.of_nat (length p) mod 256) :: p ++ render r)%N.
Proof.
  intros H. unfold render; cbn [flat_map render_item]. rewrite (encode_hint_some p H). reflexivity.
Qed.

Lemma write_loop_render its : forall pre st fuel,
  code_ok pre = true ->
  forallb item_ok its = true ->
  (nhints its < fuel)%nat ->
  write_loop fuel st (pre ++ render its) = Some (apply_items (write_plain st pre) its).
Proof.
  induction its as [|it its IH]; intros pre st fuel Hpre Hok Hfuel.
  - destruct fuel as [|fuel]; [cbn in Hfuel; lia|].
    cbn [render flat_map]. rewrite app_nil_r. cbn [write_loop].
    rewrite find_hint_none_code by assumption. reflexivity.
  - cbn [forallb] in Hok. apply andb_true_iff in Hok as [Hit Hits].
    destruct it as [bs|p].
    + (* Code *)
      change (render (Code bs :: its)) with (bs ++ render its).
      rewrite app_assoc. rewrite IH.
      * cbn [apply_items fold_left apply_item]. rewrite write_plain_app. reflexivity.
      * rewrite code_ok_app, Hpre. exact Hit.
      * exact Hits.
      * exact Hfuel.
    + (* Hint *)
      destruct fuel as [|fuel]; [cbn in Hfuel; lia|].
      rewrite render_hint_cons by assumption.
      cbn [write_loop]. rewrite find_hint_code by assumption.
      cbn [find_hint]. rewrite N.eqb_refl. rewrite Nat.add_0_r.
      rewrite firstn_app_exact, skipn_app_exact.
      rewrite read_hint_encoded by assumption.
      replace (skipn (length pre + (length p + 3)) _) with (render its).
      2:{ rewrite skipn_app.
          rewrite (skipn_all2 pre) by lia. cbn [app].
          replace (length pre + (length p + 3) - length pre)%nat with (S (S (S (length p)))) by lia.
          cbn [skipn]. rewrite skipn_app_exact. reflexivity. }
      specialize (IH [] (add_mapping (write_plain st pre) p) fuel eq_refl Hits).
      cbn [app] in IH. rewrite IH.
      * rewrite write_plain_nil. reflexivity.
      * cbn [nhints filter length] in Hfuel. unfold nhints. lia.
Qed.

Lemma nhints_le_render its :
  forallb item_ok its = true -> (nhints its <= length (render its))%nat.
Proof.
  induction its as [|it its IH]; intros Hok; [cbn; lia|].
  cbn [forallb] in Hok. apply andb_true_iff in Hok as [Hit Hits].
  destruct it as [bs|p].
  - change (render (Code bs :: its)) with (bs ++ render its). rewrite app_length.
    specialize (IH Hits). unfold nhints in *; cbn [filter]. lia.
  - rewrite render_hint_cons by assumption. specialize (IH Hits).
    unfold nhints in *; cbn [filter length]. rewrite app_length. lia.
Qed.

Lemma filter_write_render st its :
  forallb item_ok its = true ->
  filter_write st (render its) = Some (apply_items st its).
Proof.
  intros Hok. unfold filter_write.
  pose proof (write_loop_render its [] st (S (length (render its))) eq_refl Hok) as H.
  cbn [app] in H. rewrite H.
  - rewrite write_plain_nil. reflexivity.
  - pose proof (nhints_le_render its Hok). lia.
Qed.

Lemma apply_items_app st a b : apply_items st (a ++ b) = apply_items (apply_items st a) b.
Proof. unfold apply_items. apply fold_left_app. Qed.

Lemma forallb_concat {A} (f : A -> bool) (ls : list (list A)) :
  forallb f (concat ls) = forallb (forallb f) ls.
Proof.
  induction ls as [|l ls IH]; [reflexivity|].
  cbn [concat forallb]. rewrite forallb_app, IH. reflexivity.
Qed.

Lemma filter_run_render iss : forall st,
  forallb item_ok (concat iss) = true ->
  filter_run st (map render iss) = Some (apply_items st (concat iss)).
Proof.
  induction iss as [|is iss IH]; intros st Hok; [reflexivity|].
  cbn [concat] in Hok. rewrite forallb_app in Hok. apply andb_true_iff in Hok as [H1 H2].
  cbn [map filter_run]. rewrite filter_write_render by assumption.
  rewrite IH by assumption. cbn [concat]. rewrite apply_items_app. reflexivity.
Qed.

(* ---------- the incremental (line, column) equals the from-scratch position ---------- *)

Lemma last_line_len_app a b acc :
  last_line_len (a ++ b) acc = last_line_len b (last_line_len a acc).
Proof.
  revert acc; induction a as [|x a IH]; intros acc; cbn [app last_line_len]; [reflexivity|].
  destruct (N.eqb x NL); apply IH.
Qed.

Lemma count_nl_app a b : count_nl (a ++ b) = (count_nl a + count_nl b)%nat.
Proof. unfold count_nl. rewrite filter_app, app_length. reflexivity. Qed.

Lemma advance_spec w : forall l c,
  advance l c w = ((l + count_nl w)%nat, last_line_len w c).
Proof.
  induction w as [|x w IH]; intros l c; cbn [advance last_line_len].
  - unfold count_nl; cbn. f_equal; lia.
  - unfold count_nl in *; cbn [filter]. destruct (N.eqb x NL); rewrite IH; cbn [length]; f_equal; lia.
Qed.

Definition pos_inv (st : fstate) : Prop :=
  f_line st = count_nl (f_out st) /\ f_col st = last_line_len (f_out st) O.

Lemma write_plain_inv st w : pos_inv st -> pos_inv (write_plain st w).
Proof.
  intros [Hl Hc]. unfold pos_inv, write_plain. rewrite advance_spec. cbn [f_line f_col f_out].
  rewrite count_nl_app, last_line_len_app, <- Hl, <- Hc. split; reflexivity.
Qed.

Lemma write_plain_out st w : f_out (write_plain st w) = f_out st ++ w.
Proof. unfold write_plain. destruct (advance _ _ _). reflexivity. Qed.

Lemma write_plain_maps st w : f_maps (write_plain st w) = f_maps st.
Proof. unfold write_plain. destruct (advance _ _ _). reflexivity. Qed.

Lemma apply_items_spec its : forall st,
  pos_inv st ->
  let st' := apply_items st its in
  pos_inv st' /\
  f_out st' = f_out st ++ erase its /\
  f_maps st' = f_maps st ++ spec_mappings (f_out st) its.
Proof.
  induction its as [|it its IH]; intros st Hinv; cbn zeta.
  - cbn. rewrite !app_nil_r. auto.
  - destruct it as [bs|p]; cbn [apply_items fold_left apply_item].
    + pose proof (write_plain_inv st bs Hinv) as Hinv'.
      destruct (IH _ Hinv') as (Hi & Ho & Hm). fold (apply_items (write_plain st bs) its).
      split; [exact Hi|]. split.
      * rewrite Ho, write_plain_out. unfold erase; cbn [flat_map]. rewrite app_assoc. reflexivity.
      * rewrite Hm, write_plain_out, write_plain_maps. reflexivity.
    + assert (Hinv' : pos_inv (add_mapping st p)) by exact Hinv.
      destruct (IH _ Hinv') as (Hi & Ho & Hm). fold (apply_items (add_mapping st p) its).
      split; [exact Hi|]. split.
      * rewrite Ho. reflexivity.
      * rewrite Hm. cbn [add_mapping f_maps f_out spec_mappings].
        destruct Hinv as [Hl Hc]. rewrite Hl, Hc. rewrite <- app_assoc. reflexivity.
Qed.

(* ---------- chunking invariance ---------- *)

(* Every way of cutting the stream into Write calls that does not split a hint
   is [map render iss] for some grouping [iss] of pieces, where a piece is a
   hint or a fragment of code.  The result depends on [concat iss] only
   through [erase] and [spec_mappings], and those are invariant under splitting
   and merging of code pieces ([norm] below). *)

Theorem filter_run_chunked iss :
  forallb item_ok (concat iss) = true ->
  exists st, filter_run f_init (map render iss) = Some st /\
             f_out st = erase (concat iss) /\
             f_maps st = spec_mappings [] (concat iss) /\
             f_line st = count_nl (erase (concat iss)) /\
             f_col st = last_line_len (erase (concat iss)) O.
Proof.
  intros Hok. eexists. split; [apply filter_run_render; exact Hok|].
  assert (Hinit : pos_inv f_init) by (split; reflexivity).
  destruct (apply_items_spec (concat iss) f_init Hinit) as ([Hl Hc] & Ho & Hm).
  cbn [f_init f_out f_maps app] in Ho, Hm.
  repeat split; try assumption.
  - rewrite Hl, Ho. reflexivity.
  - rewrite Hc, Ho. reflexivity.
Qed.

(* normal form of a piece list: adjacent code pieces merged, empty code dropped *)
Fixpoint norm (its : list item) : list item :=
  match its with
  | [] => []
  | Code bs :: r =>
      match norm r with
      | Code bs' :: r' => Code (bs ++ bs') :: r'
      | r' => match bs with [] => r' | _ => Code bs :: r' end
      end
  | Hint p :: r => Hint p :: norm r
  end.

Lemma erase_norm its : erase (norm its) = erase its.
Proof.
  induction its as [|it its IH]; [reflexivity|].
  destruct it as [bs|p]; cbn [norm].
  - unfold erase in *; cbn [flat_map]. rewrite <- IH.
    destruct (norm its) as [|[bs'|p'] r'].
    + destruct bs; cbn; [reflexivity|]. rewrite app_nil_r. reflexivity.
    + cbn [flat_map]. rewrite app_assoc. reflexivity.
    + destruct bs; reflexivity.
  - unfold erase in *; cbn [flat_map]. rewrite IH. reflexivity.
Qed.

Lemma spec_mappings_norm its : forall pre, spec_mappings pre (norm its) = spec_mappings pre its.
Proof.
  induction its as [|it its IH]; intros pre; [reflexivity|].
  destruct it as [bs|p]; cbn [norm spec_mappings].
  - rewrite <- IH.
    destruct (norm its) as [|[bs'|p'] r'].
    + destruct bs; reflexivity.
    + cbn [spec_mappings]. rewrite app_assoc. reflexivity.
    + destruct bs; cbn [spec_mappings]; [rewrite app_nil_r|]; reflexivity.
  - rewrite IH. reflexivity.
Qed.

Lemma item_ok_norm its : forallb item_ok its = true -> forallb item_ok (norm its) = true.
Proof.
  induction its as [|it its IH]; intros H; [reflexivity|].
  cbn [forallb] in H. apply andb_true_iff in H as [Hit Hits]. specialize (IH Hits).
  destruct it as [bs|p]; cbn [norm].
  - destruct (norm its) as [|[bs'|p'] r'].
    + destruct bs; [reflexivity|]. cbn [forallb]. rewrite Hit. reflexivity.
    + cbn [forallb] in *. apply andb_true_iff in IH as [H1 H2].
      cbn [item_ok] in *. rewrite code_ok_app, Hit, H1. exact H2.
    + destruct bs; [exact IH|]. cbn [forallb]. rewrite Hit. exact IH.
  - cbn [forallb]. rewrite Hit. exact IH.
Qed.

(* [chunking_of items iss]: the Write calls [map render iss] carry the stream
   [items] cut at arbitrary places that are not inside a hint. *)
Definition chunking_of (items : list item) (iss : list (list item)) : Prop :=
  norm (concat iss) = norm items /\ forallb item_ok (concat iss) = true.

Theorem filter_chunking_invariant items iss :
  chunking_of items iss ->
  run_chunks (map render iss) =
  Some (erase items,
        map (fun m => (N.of_nat (m_line m), N.of_nat (m_col m), m_payload m)) (spec_mappings [] items)).
Proof.
  intros [Hn Hok]. unfold run_chunks.
  destruct (filter_run_chunked iss Hok) as (st & Hrun & Ho & Hm & _).
  rewrite Hrun. cbn [observe]. rewrite Ho, Hm.
  rewrite <- (erase_norm (concat iss)), <- (spec_mappings_norm (concat iss)), Hn.
  rewrite erase_norm, spec_mappings_norm. reflexivity.
Qed.

(* the bytes of the rendered stream are the same for every chunking of it *)
Lemma render_norm its : forallb item_ok its = true -> render (norm its) = render its.
Proof.
  induction its as [|it its IH]; intros H; [reflexivity|].
  cbn [forallb] in H. apply andb_true_iff in H as [Hit Hits]. specialize (IH Hits).
  destruct it as [bs|p]; cbn [norm].
  - change (render (Code bs :: its)) with (bs ++ render its). rewrite <- IH.
    destruct (norm its) as [|[bs'|p'] r'].
    + destruct bs; [reflexivity|]. unfold render; cbn [flat_map render_item]. reflexivity.
    + unfold render; cbn [flat_map render_item]. rewrite app_assoc. reflexivity.
    + destruct bs; reflexivity.
  - unfold render in *; cbn [flat_map]. rewrite IH. reflexivity.
Qed.

(* ---------- no hint bytes in the output; nothing else changed ---------- *)

Theorem output_no_magic items :
  forallb item_ok items = true -> code_ok (erase items) = true.
Proof.
  induction items as [|it its IH]; intros H; [reflexivity|].
  cbn [forallb] in H. apply andb_true_iff in H as [Hit Hits].
  destruct it as [bs|p]; unfold erase; cbn [flat_map].
  - rewrite code_ok_app. cbn [item_ok] in Hit. rewrite Hit. apply IH; assumption.
  - apply IH; assumption.
Qed.

(* ---------- mappings are in range of the generated file ---------- *)

(* lines of a byte string, split at newlines (a trailing newline yields a last empty line) *)
Fixpoint lines_acc (bs : list byte) (cur : list byte) : list (list byte) :=
  match bs with
  | [] => [rev cur]
  | x :: r => if N.eqb x NL then rev cur :: lines_acc r [] else lines_acc r (x :: cur)
  end.
Definition lines (bs : list byte) : list (list byte) := lines_acc bs [].

Lemma lines_acc_length bs : forall cur, length (lines_acc bs cur) = S (count_nl bs).
Proof.
  induction bs as [|x bs IH]; intros cur; cbn [lines_acc]; [reflexivity|].
  unfold count_nl in *; cbn [filter]. destruct (N.eqb x NL); cbn [length]; rewrite IH; reflexivity.
Qed.

Lemma nth_lines_acc_app pre : forall suf cur,
  length (nth (count_nl pre) (lines_acc (pre ++ suf) cur) []) >= last_line_len pre (length cur).
Proof.
  induction pre as [|x pre IH]; intros suf cur.
  - cbn [app count_nl filter length last_line_len]. unfold count_nl; cbn [filter length].
    revert cur. induction suf as [|y suf IHs]; intros cur; cbn [lines_acc nth].
    + rewrite rev_length. lia.
    + destruct (N.eqb y NL); cbn [nth].
      * rewrite rev_length. lia.
      * specialize (IHs (y :: cur)). cbn [length] in IHs. lia.
  - cbn [app lines_acc last_line_len]. unfold count_nl; cbn [filter].
    destruct (N.eqb x NL) eqn:E; cbn [length nth].
    + specialize (IH suf []). cbn [length] in IH. exact IH.
    + specialize (IH suf (x :: cur)). cbn [length] in IH. exact IH.
Qed.

Lemma spec_mappings_in_range its : forall pre m,
  In m (spec_mappings pre its) ->
  exists pre' suf, pre ++ erase its = pre' ++ suf /\
                   m_line m = S (count_nl pre') /\ m_col m = last_line_len pre' O.
Proof.
  induction its as [|it its IH]; intros pre m Hin; [destruct Hin|].
  destruct it as [bs|p]; cbn [spec_mappings] in Hin.
  - destruct (IH _ _ Hin) as (pre' & suf & He & Hl & Hc).
    exists pre', suf. split; [|auto]. unfold erase in *; cbn [flat_map]. rewrite app_assoc. exact He.
  - destruct Hin as [<-|Hin].
    + exists pre, (erase its). split; [reflexivity|]. split; reflexivity.
    + destruct (IH _ _ Hin) as (pre' & suf & He & Hl & Hc).
      exists pre', suf. split; [exact He|auto].
Qed.

Theorem mappings_in_range items m :
  In m (spec_mappings [] items) ->
  (1 <= m_line m <= length (lines (erase items)))%nat /\
  (m_col m <= length (nth (m_line m - 1) (lines (erase items)) []))%nat.
Proof.
  intros Hin. destruct (spec_mappings_in_range items [] m Hin) as (pre' & suf & He & Hl & Hc).
  cbn [app] in He. rewrite He, Hl, Hc. unfold lines. rewrite lines_acc_length, count_nl_app.
  split; [lia|].
  replace (S (count_nl pre') - 1)%nat with (count_nl pre') by lia.
  pose proof (nth_lines_acc_app pre' suf []) as H. cbn [length] in H. lia.
Qed.

(* ---------- mappings are emitted in generated-position order ---------- *)

Definition pos_le (a b : mapping) : Prop :=
  (m_line a < m_line b)%nat \/ (m_line a = m_line b /\ (m_col a <= m_col b)%nat).

Lemma last_line_len_mono bs : forall acc, count_nl bs = O -> (acc <= last_line_len bs acc)%nat.
Proof.
  induction bs as [|x bs IH]; intros acc H; cbn [last_line_len]; [lia|].
  unfold count_nl in *; cbn [filter] in H. destruct (N.eqb x NL); [cbn in H; lia|].
  specialize (IH (S acc) H). lia.
Qed.

Lemma spec_mappings_lower its : forall pre m,
  In m (spec_mappings pre its) ->
  (S (count_nl pre) < m_line m)%nat \/
  (S (count_nl pre) = m_line m /\ (last_line_len pre O <= m_col m)%nat).
Proof.
  induction its as [|it its IH]; intros pre m Hin; [destruct Hin|].
  destruct it as [bs|p]; cbn [spec_mappings] in Hin.
  - specialize (IH _ _ Hin). rewrite count_nl_app, last_line_len_app in IH.
    destruct (Nat.eq_dec (count_nl bs) O) as [Hz|Hnz].
    + pose proof (last_line_len_mono bs (last_line_len pre O) Hz). lia.
    + lia.
  - destruct Hin as [<-|Hin]; [right; cbn; lia|]. apply IH; exact Hin.
Qed.

Theorem mappings_monotone items :
  forall pre, StronglySorted pos_le (spec_mappings pre items).
Proof.
  induction items as [|it its IH]; intros pre; cbn [spec_mappings]; [constructor|].
  destruct it as [bs|p]; [apply IH|].
  constructor; [apply IH|].
  apply Forall_forall. intros m Hin. unfold pos_le; cbn [m_line m_col].
  destruct (spec_mappings_lower its pre m Hin) as [H|[H1 H2]]; [left; exact H|right; split; assumption].
Qed.

(* ---------- a chunk that ends inside a hint is rejected (ReadHint panics) ---------- *)

Theorem split_hint_rejected st pre p k :
  code_ok pre = true -> item_ok (Hint p) = true ->
  (0 < k < length p + 3)%nat ->
  filter_write st (pre ++ firstn k (render [Hint p])) = None.
Proof.
  intros Hpre Hok Hk. unfold filter_write.
  rewrite render_hint_cons by assumption. cbn [render flat_map]. rewrite app_nil_r.
  cbn [write_loop]. rewrite find_hint_code by assumption.
  destruct k as [|k]; [lia|]. cbn [firstn find_hint]. rewrite N.eqb_refl, Nat.add_0_r.
  rewrite skipn_app_exact.
  destruct k as [|k]; [reflexivity|]. destruct k as [|k]; [reflexivity|].
  cbn [firstn]. unfold read_hint. rewrite N.eqb_refl. cbn [negb].
  replace (N.to_nat (N.of_nat (length p) / 256 * 256 + N.of_nat (length p) mod 256)) with (length p).
  2:{ rewrite N.mul_comm, <- N.div_mod by discriminate. symmetry; apply Nat2N.id. }
  rewrite firstn_length.
  destruct (Nat.ltb_spec (Nat.min k (length p)) (length p)) as [_|Hge]; [reflexivity|lia].
Qed.
