(* C05 — proofs about the model of dce.Selector (Model/C05_Select.v). *)
From Coq Require Import List String Bool NArith Arith Lia Permutation Relations.
From Verif Require Import Model.C05_Select.
Import ListNotations.
Local Open Scope string_scope.
Local Open Scope list_scope.

(* ------------------------------------------------------------------------ *)
(* Specification: the least set containing the roots and closed under
   "every non-empty filter is a dependency of a member".                      *)

Inductive Alive (ds : list decl) : decl -> Prop :=
| A_root : forall d, In d ds -> is_root d = true -> Alive ds d
| A_dep : forall d, In d ds -> is_alive d = false ->
    Hit ds (d_obj d) -> Hit ds (d_meth d) -> Alive ds d
with Hit (ds : list decl) : string -> Prop :=
| H_empty : Hit ds ""
| H_dep : forall d f, Alive ds d -> In f (d_deps d) -> Hit ds f.

Scheme Alive_ind2 := Minimality for Alive Sort Prop
  with Hit_ind2 := Minimality for Hit Sort Prop.
Combined Scheme Alive_Hit_ind from Alive_ind2, Hit_ind2.

Lemma Alive_in : forall ds d, Alive ds d -> In d ds.
Proof. intros ds d H; destruct H; assumption. Qed.

(* ------------------------------------------------------------------------ *)
(* byFilter map lemmas *)

Lemma is_empty_true : forall s, is_empty s = true <-> s = "".
Proof. intro s. unfold is_empty. apply String.eqb_eq. Qed.

Lemma is_empty_false : forall s, is_empty s = false <-> s <> "".
Proof. intro s. unfold is_empty. apply String.eqb_neq. Qed.

Lemma lookup_append_same : forall k a by_,
  by_lookup k (by_append k a by_) =
  Some (match by_lookup k by_ with Some v => v ++ [a] | None => [a] end).
Proof.
  induction by_ as [|[k' v] r IH]; simpl.
  - rewrite String.eqb_refl. reflexivity.
  - destruct (String.eqb k k') eqn:E; simpl; rewrite E; auto.
Qed.

Lemma lookup_append_other : forall k k' a by_, k <> k' ->
  by_lookup k' (by_append k a by_) = by_lookup k' by_.
Proof.
  induction by_ as [|[k2 v] r IH]; simpl; intros Hne.
  - destruct (String.eqb k' k) eqn:E; auto. apply String.eqb_eq in E. congruence.
  - destruct (String.eqb k k2) eqn:E; simpl.
    + apply String.eqb_eq in E. subst k2.
      destruct (String.eqb k' k) eqn:E2; auto. apply String.eqb_eq in E2. congruence.
    + destruct (String.eqb k' k2); auto.
Qed.

Lemma lookup_append_mono : forall k k' a a' by_ v,
  by_lookup k' by_ = Some v -> In a' v ->
  exists v', by_lookup k' (by_append k a by_) = Some v' /\ In a' v'.
Proof.
  intros k k' a a' by_ v Hl Hin.
  destruct (String.eqb k k') eqn:E.
  - apply String.eqb_eq in E. subst k'. rewrite lookup_append_same, Hl.
    eexists; split; eauto. apply in_or_app; auto.
  - apply String.eqb_neq in E. rewrite lookup_append_other by auto. eauto.
Qed.

Lemma lookup_append_new : forall k a by_,
  exists v', by_lookup k (by_append k a by_) = Some v' /\ In a v'.
Proof.
  intros. rewrite lookup_append_same. eexists; split; eauto.
  destruct (by_lookup k by_); [apply in_or_app; right|]; simpl; auto.
Qed.

Lemma lookup_delete_same : forall k by_, by_lookup k (by_delete k by_) = None.
Proof.
  induction by_ as [|[k' v] r IH]; simpl; auto.
  destruct (String.eqb k k') eqn:E; simpl; auto. rewrite E. auto.
Qed.

Lemma lookup_delete_other : forall k k' by_, k <> k' ->
  by_lookup k' (by_delete k by_) = by_lookup k' by_.
Proof.
  induction by_ as [|[k2 v] r IH]; simpl; intros Hne; auto.
  destruct (String.eqb k k2) eqn:E; simpl.
  - apply String.eqb_eq in E. subst k2.
    destruct (String.eqb k' k) eqn:E2; auto. apply String.eqb_eq in E2. congruence.
  - destruct (String.eqb k' k2); auto.
Qed.

Lemma lookup_delete_none : forall k k' by_,
  by_lookup k' by_ = None -> by_lookup k' (by_delete k by_) = None.
Proof.
  intros. destruct (String.eqb k k') eqn:E.
  - apply String.eqb_eq in E. subst. apply lookup_delete_same.
  - apply String.eqb_neq in E. rewrite lookup_delete_other; auto.
Qed.

Lemma by_size_delete : forall k by_ v, by_lookup k by_ = Some v ->
  by_size (by_delete k by_) + List.length v <= by_size by_.
Proof.
  induction by_ as [|[k' v'] r IH]; simpl; intros v H; [discriminate|].
  destruct (String.eqb k k') eqn:E.
  - inversion H; subst. clear IH.
    assert (by_size (by_delete k r) <= by_size r).
    { clear. induction r as [|[k2 v2] r IH]; simpl; auto.
      destruct (String.eqb k k2); simpl; lia. }
    unfold by_size in *. simpl. lia.
  - simpl. specialize (IH _ H). unfold by_size in *. simpl. lia.
Qed.

(* ------------------------------------------------------------------------ *)
(* heap lemmas *)

Lemma heap_set_length : forall a x h, List.length (heap_set a x h) = List.length h.
Proof. intros a x h. revert a. induction h as [|z h IH]; destruct a; simpl; auto. Qed.

Lemma heap_set_same : forall h a x y, nth_error h a = Some y -> nth_error (heap_set a x h) a = Some x.
Proof.
  induction h as [|z h IH]; intros a x y H; destruct a; simpl in *; try discriminate.
  - reflexivity.
  - eapply IH; eauto.
Qed.

Lemma heap_set_other : forall h a b x, a <> b -> nth_error (heap_set a x h) b = nth_error h b.
Proof.
  induction h as [|z h IH]; intros a b x Hne; destruct a; destruct b; simpl; auto; try congruence.
Qed.

(* ------------------------------------------------------------------------ *)
(* The invariant of Include / AliveDecls *)

Section Invariant.
Variable ds : list decl.

(* a filter slot of a declInfo is either untouched, or cleared because the name was hit *)
Definition slot_ok (cur orig : string) : Prop := cur = orig \/ (cur = "" /\ Hit ds orig).

Definition registered_in (by_ : list (string * list nat)) (a : nat) (k : string) : Prop :=
  exists v, by_lookup k by_ = Some v /\ In a v.

(* [R a k]: the declInfo at address a is reachable from the bucket of name k *)
Record GInv (R : nat -> string -> Prop) (pre : list decl) (h : list dinfo) (p done : list decl) : Prop := {
  g_pre : incl pre ds;
  g_pend : forall d, In d p -> Alive ds d;
  g_done : forall d, In d done -> Alive ds d;
  g_heap : forall a info, nth_error h a = Some info ->
      In (di_decl info) pre /\ is_alive (di_decl info) = false /\
      slot_ok (di_obj info) (d_obj (di_decl info)) /\
      slot_ok (di_meth info) (d_meth (di_decl info)) /\
      (di_obj info <> "" -> R a (di_obj info)) /\
      (di_meth info <> "" -> R a (di_meth info)) /\
      (di_obj info = "" -> di_meth info = "" -> In (di_decl info) p \/ In (di_decl info) done);
  g_roots : forall d, In d pre -> is_root d = true -> In d p \/ In d done;
  g_reg : forall d, In d pre -> is_alive d = false ->
      exists a info, nth_error h a = Some info /\ di_decl info = d
}.

Definition Inv (pre : list decl) (s : sel) (done : list decl) (pd : list string) : Prop :=
  GInv (registered_in (s_by s)) pre (s_infos s) (s_pending s) done /\
  (forall f, In f pd -> f <> "" -> by_lookup f (s_by s) = None).

Lemma GInv_weaken : forall (R R' : nat -> string -> Prop) pre h p done,
  (forall a k, R a k -> R' a k) -> GInv R pre h p done -> GInv R' pre h p done.
Proof.
  intros R R' pre h p done HR [H1 H2 H3 H4 H5 H6].
  constructor; auto.
  intros a info Hn. destruct (H4 a info Hn) as (A & B & C & D & E & F & G).
  repeat split; auto.
Qed.

Lemma inv_empty : Inv [] empty_sel [] [].
Proof.
  split; [constructor|]; simpl; intros; try contradiction.
  all: try (destruct a; discriminate).
  all: try (intros x Hx; contradiction).
Qed.

Definition by_add (k : string) (a : nat) (by_ : list (string * list nat)) :=
  if is_empty k then by_ else by_append k a by_.

Lemma reg_add_mono : forall k a by_ a' k',
  registered_in by_ a' k' -> registered_in (by_add k a by_) a' k'.
Proof.
  intros k a by_ a' k' (v & Hl & Hin). unfold by_add. destruct (is_empty k); [exists v; auto|].
  eapply lookup_append_mono; eauto.
Qed.

Lemma reg_add_new : forall k a by_, k <> "" -> registered_in (by_add k a by_) a k.
Proof.
  intros k a by_ Hk. unfold by_add. apply is_empty_false in Hk. rewrite Hk.
  apply lookup_append_new.
Qed.

Lemma include_unfold : forall s d, is_alive d = false ->
  include s d =
  {| s_infos := s_infos s ++ [ {| di_decl := d; di_obj := d_obj d; di_meth := d_meth d |} ];
     s_by := by_add (d_meth d) (List.length (s_infos s)) (by_add (d_obj d) (List.length (s_infos s)) (s_by s));
     s_pending := if d_link d then d :: s_pending s else s_pending s |}.
Proof. intros s d H. unfold include, by_add. rewrite H. reflexivity. Qed.

Lemma not_alive_named : forall d, is_alive d = false -> ~ (d_obj d = "" /\ d_meth d = "").
Proof.
  intros d H [Ho Hm]. unfold is_alive, unnamed in H. apply orb_false_iff in H. destruct H as [_ H].
  rewrite Ho, Hm in H. discriminate.
Qed.

Lemma include_inv : forall pre s d,
  Inv pre s [] [] -> In d ds -> Inv (pre ++ [d]) (include s d) [] [].
Proof.
  intros pre s d [[H1 H2 H3 H4 H5 H6] _] Hd.
  split; [|intros; contradiction].
  destruct (is_alive d) eqn:Ea.
  - (* pushed, nothing else *)
    unfold include. rewrite Ea. simpl.
    constructor; simpl.
    + intros x Hx. apply in_app_or in Hx. destruct Hx as [Hx|[Hx|[]]]; subst; auto.
    + intros x [Hx|Hx]; subst; auto. apply A_root; auto. unfold is_root. rewrite Ea. reflexivity.
    + intros; contradiction.
    + intros a info Hn. destruct (H4 a info Hn) as (A & B & C & D & E & F & G).
      repeat split; auto.
      * apply in_or_app; auto.
      * intros X Y. destruct (G X Y) as [G'|[]]. left; right; auto.
    + intros x Hx Hr. apply in_app_or in Hx. destruct Hx as [Hx|[Hx|[]]].
      * destruct (H5 x Hx Hr) as [P|[]]. left; right; auto.
      * subst. left; left; auto.
    + intros x Hx Hna. apply in_app_or in Hx. destruct Hx as [Hx|[Hx|[]]]; [auto|congruence].
  - rewrite include_unfold by auto.
    set (a0 := List.length (s_infos s)).
    set (by2 := by_add (d_meth d) a0 (by_add (d_obj d) a0 (s_by s))).
    assert (Hpend : forall x, In x (s_pending s) -> In x (if d_link d then d :: s_pending s else s_pending s)).
    { intros x Hx. destruct (d_link d); [right|]; auto. }
    constructor; simpl.
    + intros x Hx. apply in_app_or in Hx. destruct Hx as [Hx|[Hx|[]]]; subst; auto.
    + intros x Hx. destruct (d_link d) eqn:El; auto. destruct Hx as [Hx|Hx]; subst; auto.
      apply A_root; auto. unfold is_root. rewrite El. apply orb_true_r.
    + intros; contradiction.
    + intros a info Hn.
      destruct (Nat.lt_ge_cases a a0) as [Hlt|Hge].
      * rewrite nth_error_app1 in Hn by exact Hlt.
        destruct (H4 a info Hn) as (A & B & C & D & E & F & G).
        repeat split; auto.
        -- apply in_or_app; auto.
        -- intro X. unfold by2. apply reg_add_mono, reg_add_mono. auto.
        -- intro X. unfold by2. apply reg_add_mono, reg_add_mono. auto.
        -- intros X Y. destruct (G X Y) as [G'|[]]. left; auto.
      * rewrite nth_error_app2 in Hn by exact Hge. fold a0 in Hn.
        destruct (a - a0) as [|n] eqn:Ed; simpl in Hn; [|exfalso; destruct n; simpl in Hn; congruence].
        assert (a = a0) by lia. subst a. inversion Hn; subst info; simpl.
        repeat split; auto.
        -- apply in_or_app; right; left; auto.
        -- left; auto.
        -- left; auto.
        -- intro X. unfold by2. apply reg_add_mono. apply reg_add_new. auto.
        -- intro X. unfold by2. apply reg_add_new. auto.
        -- intros X Y. exfalso. eapply not_alive_named; eauto.
    + intros x Hx Hr. apply in_app_or in Hx. destruct Hx as [Hx|[Hx|[]]].
      * destruct (H5 x Hx Hr) as [P|[]]. left; auto.
      * subst x. unfold is_root in Hr. rewrite Ea in Hr. simpl in Hr. rewrite Hr. left; left; auto.
    + intros x Hx Hna. apply in_app_or in Hx. destruct Hx as [Hx|[Hx|[]]].
      * destruct (H6 x Hx Hna) as (a & info & Hn & Hdd). exists a, info. split; auto.
        rewrite nth_error_app1; auto. apply nth_error_Some. congruence.
      * subst x. exists a0, {| di_decl := d; di_obj := d_obj d; di_meth := d_meth d |}. split; auto.
        rewrite nth_error_app2 by (unfold a0; lia). unfold a0. rewrite Nat.sub_diag. reflexivity.
Qed.

Lemma include_all_inv_gen : forall rest pre s,
  Inv pre s [] [] -> incl rest ds -> Inv (pre ++ rest) (fold_left include rest s) [] [].
Proof.
  induction rest as [|d r IH]; intros pre s HI Hincl; simpl.
  - rewrite app_nil_r. auto.
  - replace (pre ++ d :: r) with ((pre ++ [d]) ++ r) by (rewrite <- app_assoc; reflexivity).
    apply IH.
    + apply include_inv; auto. apply Hincl. left; auto.
    + intros x Hx. apply Hincl. right; auto.
Qed.

Lemma include_all_inv : Inv ds (include_all ds) [] [].
Proof.
  unfold include_all. change ds with ([] ++ ds) at 1.
  apply include_all_inv_gen. apply inv_empty. apply incl_refl.
Qed.

(* ---- one bucket -------------------------------------------------------- *)

(* while the bucket of [f] is being drained: an info is reachable either from a bucket of the
   map without f, or it sits in the not yet visited rest of f's bucket *)
Definition reg_or_rem (by' : list (string * list nat)) (f : string) (rem : list nat) (a : nat) (k : string) : Prop :=
  (k <> f /\ registered_in by' a k) \/ (k = f /\ In a rem).

Lemma process_bucket_inv : forall f by' pre done, Hit ds f ->
  forall rem h p, GInv (reg_or_rem by' f rem) pre h p done ->
  GInv (reg_or_rem by' f []) pre (fst (process_bucket f rem h p)) (snd (process_bucket f rem h p)) done.
Proof.
  intros f by' pre done Hf. induction rem as [|a r IH]; intros h p G; simpl; auto.
  destruct (nth_error h a) as [info|] eqn:En.
  - apply IH. destruct G as [H1 H2 H3 H4 H5 H6].
    destruct (H4 a info En) as (A & B & C & D & E & F & K).
    set (o := if String.eqb (di_obj info) f then "" else di_obj info).
    set (m := if String.eqb (di_meth info) f then "" else di_meth info).
    set (info' := {| di_decl := di_decl info; di_obj := o; di_meth := m |}).
    set (p' := if is_empty o && is_empty m then di_decl info :: p else p).
    assert (Hpp : forall x, In x p -> In x p').
    { intros x Hx. unfold p'. destruct (is_empty o && is_empty m); [right|]; auto. }
    assert (Co : slot_ok o (d_obj (di_decl info))).
    { unfold o. destruct (String.eqb (di_obj info) f) eqn:Eo; auto.
      apply String.eqb_eq in Eo. right. split; auto.
      destruct C as [C|[_ C]]; auto. rewrite <- C, Eo. auto. }
    assert (Cm : slot_ok m (d_meth (di_decl info))).
    { unfold m. destruct (String.eqb (di_meth info) f) eqn:Em; auto.
      apply String.eqb_eq in Em. right. split; auto.
      destruct D as [D|[_ D]]; auto. rewrite <- D, Em. auto. }
    constructor; auto.
    + intros x Hx. unfold p' in Hx. destruct (is_empty o && is_empty m) eqn:Eb; auto.
      destruct Hx as [Hx|Hx]; auto. subst x.
      apply andb_true_iff in Eb. destruct Eb as [Eo Em].
      apply is_empty_true in Eo. apply is_empty_true in Em.
      apply A_dep; auto.
      * destruct Co as [Co|[_ Co]]; auto. rewrite <- Co, Eo. constructor.
      * destruct Cm as [Cm|[_ Cm]]; auto. rewrite <- Cm, Em. constructor.
    + intros a' i' Hn'.
      destruct (Nat.eq_dec a a') as [Heq|Hne].
      * subst a'. rewrite (heap_set_same _ _ _ _ En) in Hn'. inversion Hn'; subst i'. simpl.
        repeat split; auto.
        -- intro X. unfold o in *. destruct (String.eqb (di_obj info) f) eqn:Eo; [congruence|].
           apply String.eqb_neq in Eo. destruct (E X) as [[_ R]|[Q _]]; [|congruence].
           left; auto.
        -- intro X. unfold m in *. destruct (String.eqb (di_meth info) f) eqn:Em; [congruence|].
           apply String.eqb_neq in Em. destruct (F X) as [[_ R]|[Q _]]; [|congruence].
           left; auto.
        -- intros X Y. left. unfold p'. rewrite X, Y. simpl. left; auto.
      * rewrite heap_set_other in Hn' by auto.
        destruct (H4 a' i' Hn') as (A' & B' & C' & D' & E' & F' & K').
        repeat split; auto.
        -- intro X. destruct (E' X) as [R|[Q [R|R]]]; [left; auto|congruence|right; auto].
        -- intro X. destruct (F' X) as [R|[Q [R|R]]]; [left; auto|congruence|right; auto].
        -- intros X Y. destruct (K' X Y); auto.
    + intros x Hx Hr. destruct (H5 x Hx Hr); auto.
    + intros x Hx Hna. destruct (H6 x Hx Hna) as (a' & i' & Hn' & Hd').
      destruct (Nat.eq_dec a a') as [Heq|Hne].
      * subst a'. exists a, info'. split; [eapply heap_set_same; eauto|]. simpl. congruence.
      * exists a', i'. split; auto. rewrite heap_set_other; auto.
  - apply IH. destruct G as [H1 H2 H3 H4 H5 H6]. constructor; auto.
    intros a' i' Hn'. destruct (H4 a' i' Hn') as (A' & B' & C' & D' & E' & F' & K').
    repeat split; auto.
    + intro X. destruct (E' X) as [R|[Q [R|R]]]; [left; auto|congruence|right; auto].
    + intro X. destruct (F' X) as [R|[Q [R|R]]]; [left; auto|congruence|right; auto].
Qed.

Lemma process_bucket_pending : forall f rem h p,
  List.length (snd (process_bucket f rem h p)) <= List.length p + List.length rem.
Proof.
  intros f. induction rem as [|a r IH]; intros h p; simpl; [lia|].
  destruct (nth_error h a) as [info|].
  - match goal with |- context [process_bucket f r ?h' ?p'] => specialize (IH h' p') end.
    destruct (is_empty _ && is_empty _) in *; simpl in *; lia.
  - specialize (IH h p). lia.
Qed.

(* ---- all deps of one declaration ---------------------------------------- *)

Lemma process_deps_inv : forall deps s done pd,
  (forall f, In f deps -> Hit ds f) ->
  Inv ds s done pd ->
  exists pd', Inv ds (process_deps deps s) done pd' /\ incl pd pd' /\ incl deps pd'.
Proof.
  induction deps as [|f r IH]; intros s done pd Hh HI; simpl.
  - exists pd. split; auto. split; [apply incl_refl|intros x []].
  - assert (Hf : Hit ds f) by (apply Hh; left; auto).
    assert (Hr : forall g, In g r -> Hit ds g) by (intros; apply Hh; right; auto).
    destruct (by_lookup f (s_by s)) as [addrs|] eqn:El.
    + destruct (process_bucket f addrs (s_infos s) (s_pending s)) as [h p] eqn:Ep.
      destruct HI as [G Hpd].
      assert (G0 : GInv (reg_or_rem (by_delete f (s_by s)) f addrs) ds (s_infos s) (s_pending s) done).
      { eapply GInv_weaken; [|exact G]. intros a k (v & Hl & Hin).
        destruct (String.eqb k f) eqn:E.
        - apply String.eqb_eq in E. subst k. right. split; auto. congruence.
        - apply String.eqb_neq in E. left. split; auto. exists v. split; auto.
          rewrite lookup_delete_other; auto. }
      pose proof (process_bucket_inv f _ _ _ Hf addrs _ _ G0) as G1. rewrite Ep in G1. simpl in G1.
      destruct (IH {| s_infos := h; s_by := by_delete f (s_by s); s_pending := p |} done (f :: pd) Hr)
        as (pd' & HI' & Hi1 & Hi2).
      { split; simpl.
        - eapply GInv_weaken; [|exact G1]. intros a k [[_ R]|[_ []]]. exact R.
        - intros g [Hg|Hg] Hne.
          + subst g. apply lookup_delete_same.
          + apply lookup_delete_none. auto. }
      exists pd'. split; auto. split.
      * intros x Hx. apply Hi1. right; auto.
      * intros x [Hx|Hx]; [subst; apply Hi1; left; auto|auto].
    + destruct (IH s done (f :: pd) Hr) as (pd' & HI' & Hi1 & Hi2).
      { destruct HI as [G Hpd]. split; auto. intros g [Hg|Hg] Hne; [subst; auto|auto]. }
      exists pd'. split; auto. split.
      * intros x Hx. apply Hi1. right; auto.
      * intros x [Hx|Hx]; [subst; apply Hi1; left; auto|auto].
Qed.

Lemma process_deps_measure : forall deps s, measure (process_deps deps s) <= measure s.
Proof.
  induction deps as [|f r IH]; intros s; simpl; auto.
  destruct (by_lookup f (s_by s)) as [addrs|] eqn:El; auto.
  destruct (process_bucket f addrs (s_infos s) (s_pending s)) as [h p] eqn:Ep.
  eapply Nat.le_trans; [apply IH|]. unfold measure; simpl.
  pose proof (process_bucket_pending f addrs (s_infos s) (s_pending s)) as Hp. rewrite Ep in Hp. simpl in Hp.
  pose proof (by_size_delete _ _ _ El). lia.
Qed.

(* ---- the main loop ------------------------------------------------------ *)

Definition done_deps (done : list decl) (pd : list string) : Prop :=
  forall d f, In d done -> In f (d_deps d) -> In f pd.

Lemma final_complete : forall s done pd,
  Inv ds s done pd -> done_deps done pd -> s_pending s = [] ->
  (forall d, Alive ds d -> In d done) /\ (forall f, Hit ds f -> f = "" \/ In f pd).
Proof.
  intros s done pd [[H1 H2 H3 H4 H5 H6] Hpd] Hdd Hp. rewrite Hp in *.
  apply Alive_Hit_ind.
  - intros d Hd Hr. destruct (H5 d Hd Hr) as [[]|]; auto.
  - intros d Hd Hna _ IHo _ IHm.
    destruct (H6 d Hd Hna) as (a & info & Hn & Hdd'). subst d.
    destruct (H4 a info Hn) as (A & B & C & D & E & F & K).
    assert (Ho : di_obj info = "").
    { destruct C as [C|[C _]]; auto.
      destruct (string_dec (di_obj info) "") as [|Hne]; auto. exfalso.
      destruct (E Hne) as (v & Hl & _).
      destruct IHo as [X|X]; [congruence|]. rewrite <- C in X. rewrite (Hpd _ X Hne) in Hl. discriminate. }
    assert (Hm : di_meth info = "").
    { destruct D as [D|[D _]]; auto.
      destruct (string_dec (di_meth info) "") as [|Hne]; auto. exfalso.
      destruct (F Hne) as (v & Hl & _).
      destruct IHm as [X|X]; [congruence|]. rewrite <- D in X. rewrite (Hpd _ X Hne) in Hl. discriminate. }
    destruct (K Ho Hm) as [[]|]; auto.
  - left; auto.
  - intros d f _ IH Hin. right. eapply Hdd; eauto.
Qed.

Lemma alive_loop_spec : forall fuel s done pd,
  Inv ds s done pd -> done_deps done pd -> measure s < fuel ->
  exists res, alive_loop fuel s done = Some res /\ (forall d, In d res <-> Alive ds d).
Proof.
  induction fuel as [|fuel IH]; intros s done pd HI Hdd Hm; [lia|]. simpl.
  destruct (s_pending s) as [|d p] eqn:Ep.
  - exists done. split; auto. intro x. split.
    + destruct HI as [[? ? H3 ? ? ?] _]. auto.
    + destruct (final_complete s done pd HI Hdd Ep) as [Hc _]. auto.
  - set (s0 := {| s_infos := s_infos s; s_by := s_by s; s_pending := p |}).
    assert (Hd : Alive ds d). { destruct HI as [[? H2 ? ? ? ?] _]. apply H2. rewrite Ep. left; auto. }
    assert (HI0 : Inv ds s0 (d :: done) pd).
    { destruct HI as [[H1 H2 H3 H4 H5 H6] Hpd]. split; auto. unfold s0; simpl. rewrite Ep in *. constructor; auto.
      - intros x Hx. apply H2. right; auto.
      - intros x [Hx|Hx]; subst; auto.
      - intros a info Hn. destruct (H4 a info Hn) as (A & B & C & D & E & F & K).
        repeat split; auto. intros X Y. destruct (K X Y) as [[Q|Q]|Q]; [right; left; auto|left; auto|right; right; auto].
      - intros x Hx Hr. destruct (H5 x Hx Hr) as [[Q|Q]|Q]; [right; left; auto|left; auto|right; right; auto]. }
    destruct (process_deps_inv (d_deps d) s0 (d :: done) pd) as (pd' & HI' & Hi1 & Hi2); auto.
    { intros f Hf. eapply H_dep; eauto. }
    apply (IH _ _ pd'); auto.
    + intros x f [Hx|Hx] Hf; [subst; auto|]. apply Hi1. eapply Hdd; eauto.
    + pose proof (process_deps_measure (d_deps d) s0). unfold measure in *. unfold s0 in *. simpl in *.
      rewrite Ep in Hm. simpl in Hm. lia.
Qed.

Theorem select_decls_spec :
  exists res, select_decls ds = Some res /\ (forall d, In d res <-> Alive ds d).
Proof.
  unfold select_decls. eapply alive_loop_spec.
  - apply include_all_inv.
  - intros d f [].
  - lia.
Qed.

End Invariant.

(* ------------------------------------------------------------------------ *)
(* Consequences: everything below is about [Alive] only. *)

Theorem select_spec : forall ds,
  exists ids, select ds = Some ids /\
              (forall id, In id ids <-> exists d, Alive ds d /\ d_id d = id).
Proof.
  intro ds. destruct (select_decls_spec ds) as (res & Hs & Hr).
  exists (map d_id res). unfold select. rewrite Hs. split; auto.
  intro id. rewrite in_map_iff. split.
  - intros (d & Hid & Hin). exists d. split; auto. apply Hr; auto.
  - intros (d & Ha & Hid). exists d. split; auto. apply Hr; auto.
Qed.

(* least fixed point, stated with an arbitrary closed set *)
Definition closed (ds : list decl) (S : decl -> Prop) : Prop :=
  (forall d, In d ds -> is_root d = true -> S d) /\
  (forall d, In d ds -> is_alive d = false ->
     (forall f, In f (filters d) -> exists d', S d' /\ In d' ds /\ In f (d_deps d')) -> S d).

Lemma in_filters : forall d f, In f (filters d) <-> f <> "" /\ (f = d_obj d \/ f = d_meth d).
Proof.
  intros d f. unfold filters. rewrite in_app_iff.
  destruct (is_empty (d_obj d)) eqn:Eo; destruct (is_empty (d_meth d)) eqn:Em; simpl.
  - apply is_empty_true in Eo. apply is_empty_true in Em. split; [tauto|].
    intros [Hne [H|H]]; congruence.
  - apply is_empty_true in Eo. apply is_empty_false in Em. split.
    + intros [[]|[H|[]]]. subst. auto.
    + intros [Hne [H|H]]; [congruence|]. right; left; auto.
  - apply is_empty_false in Eo. apply is_empty_true in Em. split.
    + intros [[H|[]]|[]]. subst. auto.
    + intros [Hne [H|H]]; [|congruence]. left; left; auto.
  - apply is_empty_false in Eo. apply is_empty_false in Em. split.
    + intros [[H|[]]|[H|[]]]; subst; auto.
    + intros [Hne [H|H]]; [left|right]; left; auto.
Qed.

Lemma Alive_closed : forall ds, closed ds (Alive ds).
Proof.
  intro ds. split.
  - intros; apply A_root; auto.
  - intros d Hd Hna Hf.
    assert (Hh : forall f, f = d_obj d \/ f = d_meth d -> Hit ds f).
    { intros f Hx. destruct (string_dec f "") as [->|Hne]; [constructor|].
      destruct (Hf f) as (d' & Ha & _ & Hin); [apply in_filters; auto|]. eapply H_dep; eauto. }
    apply A_dep; auto.
Qed.

Lemma Alive_least : forall ds (S : decl -> Prop), closed ds S -> forall d, Alive ds d -> S d.
Proof.
  intros ds S [Hroot Hstep].
  assert (H : (forall d, Alive ds d -> S d /\ In d ds) /\
              (forall f, Hit ds f -> f = "" \/ exists d', S d' /\ In d' ds /\ In f (d_deps d'))).
  { apply Alive_Hit_ind.
    - intros; split; auto.
    - intros d Hd Hna _ IHo _ IHm. split; auto. apply Hstep; auto.
      intros f Hf. apply in_filters in Hf. destruct Hf as [Hne [->| ->]].
      + destruct IHo; [congruence|auto].
      + destruct IHm; [congruence|auto].
    - left; auto.
    - intros d f _ [HS Hin] Hf. right. exists d; auto. }
  intros d Hd. apply H; auto.
Qed.

(* ---- order independence -------------------------------------------------- *)

Definition decl_equiv (d d' : decl) : Prop :=
  d_id d = d_id d' /\ d_alive d = d_alive d' /\ d_obj d = d_obj d' /\ d_meth d = d_meth d' /\
  d_link d = d_link d' /\ (forall f, In f (d_deps d) <-> In f (d_deps d')).

Definition same_decls (ds ds' : list decl) : Prop :=
  (forall d, In d ds -> exists d', In d' ds' /\ decl_equiv d d') /\
  (forall d', In d' ds' -> exists d, In d ds /\ decl_equiv d d').

Lemma decl_equiv_sym : forall d d', decl_equiv d d' -> decl_equiv d' d.
Proof. intros d d' (A & B & C & D & E & F). repeat split; auto; apply F. Qed.

Lemma same_decls_sym : forall ds ds', same_decls ds ds' -> same_decls ds' ds.
Proof.
  intros ds ds' [H1 H2]. split; intros d Hd.
  - destruct (H2 d Hd) as (x & Hx & He). exists x. split; auto. apply decl_equiv_sym; auto.
  - destruct (H1 d Hd) as (x & Hx & He). exists x. split; auto. apply decl_equiv_sym; auto.
Qed.

Lemma equiv_flags : forall d d', decl_equiv d d' -> is_alive d = is_alive d' /\ is_root d = is_root d'.
Proof.
  intros d d' (A & B & C & D & E & F). unfold is_root, is_alive, unnamed. rewrite B, C, D, E. auto.
Qed.

Lemma Alive_same_decls : forall ds ds', same_decls ds ds' ->
  (forall d, Alive ds d -> exists d', decl_equiv d d' /\ Alive ds' d') /\
  (forall f, Hit ds f -> Hit ds' f).
Proof.
  intros ds ds' [H1 _]. apply Alive_Hit_ind.
  - intros d Hd Hr. destruct (H1 d Hd) as (d' & Hd' & He). exists d'. split; auto.
    apply A_root; auto. destruct (equiv_flags _ _ He) as [_ <-]; auto.
  - intros d Hd Hna _ IHo _ IHm. destruct (H1 d Hd) as (d' & Hd' & He). exists d'. split; auto.
    destruct (equiv_flags _ _ He) as [Ea _]. destruct He as (A & B & C & D & E & F).
    apply A_dep; auto; congruence.
  - constructor.
  - intros d f _ (d' & He & Ha) Hf. eapply H_dep; eauto. apply He; auto.
Qed.

Theorem select_order_independent : forall ds ds' ids ids',
  same_decls ds ds' -> select ds = Some ids -> select ds' = Some ids' ->
  forall id, In id ids <-> In id ids'.
Proof.
  assert (H : forall ds ds' ids ids', same_decls ds ds' -> select ds = Some ids -> select ds' = Some ids' ->
              forall id, In id ids -> In id ids').
  { intros ds ds' ids ids' Hs H1 H2 id Hin.
    destruct (select_spec ds) as (i1 & E1 & S1). destruct (select_spec ds') as (i2 & E2 & S2).
    rewrite H1 in E1. inversion E1; subst i1. rewrite H2 in E2. inversion E2; subst i2.
    apply S1 in Hin. destruct Hin as (d & Ha & Hid).
    destruct (Alive_same_decls _ _ Hs) as [HA _]. destruct (HA d Ha) as (d' & He & Ha').
    apply S2. exists d'. split; auto. destruct He as (A & _). congruence. }
  intros ds ds' ids ids' Hs H1 H2 id. split.
  - apply (H ds ds' ids ids' Hs H1 H2).
  - apply (H ds' ds ids' ids (same_decls_sym _ _ Hs) H2 H1).
Qed.

Lemma same_decls_perm : forall ds ds', Permutation ds ds' -> same_decls ds ds'.
Proof.
  assert (R : forall d, decl_equiv d d) by (intro d; repeat split; auto).
  intros ds ds' Hp. split; intros d Hd; exists d; split; auto.
  - eapply Permutation_in; eauto.
  - eapply Permutation_in; [apply Permutation_sym|]; eauto.
Qed.

(* the deps of every declaration reordered / duplicated by an arbitrary function that keeps the set *)
Definition with_deps (g : decl -> list string) (d : decl) : decl :=
  {| d_id := d_id d; d_alive := d_alive d; d_obj := d_obj d; d_meth := d_meth d; d_deps := g d; d_link := d_link d |}.

Lemma same_decls_deps : forall ds g, (forall d f, In f (g d) <-> In f (d_deps d)) ->
  same_decls ds (map (with_deps g) ds).
Proof.
  intros ds g Hg. split.
  - intros d Hd. exists (with_deps g d). split; [apply in_map; auto|].
    repeat split; simpl; auto; apply Hg.
  - intros d' Hd'. apply in_map_iff in Hd'. destruct Hd' as (d & <- & Hd). exists d. split; auto.
    repeat split; simpl; auto; apply Hg.
Qed.

(* ---- monotonicity --------------------------------------------------------- *)

Definition decl_le (d d' : decl) : Prop :=
  d_id d = d_id d' /\ incl (d_deps d) (d_deps d') /\ (d_link d = true -> d_link d' = true) /\
  (is_alive d' = true \/
   (is_alive d = false /\ is_alive d' = false /\ d_obj d = d_obj d' /\ d_meth d = d_meth d')).

Definition decls_le (ds ds' : list decl) : Prop :=
  forall d, In d ds -> exists d', In d' ds' /\ decl_le d d'.

Lemma Alive_mono : forall ds ds', decls_le ds ds' ->
  (forall d, Alive ds d -> exists d', decl_le d d' /\ Alive ds' d') /\
  (forall f, Hit ds f -> Hit ds' f).
Proof.
  intros ds ds' Hle. apply Alive_Hit_ind.
  - intros d Hd Hr. destruct (Hle d Hd) as (d' & Hd' & He). exists d'. split; auto.
    apply A_root; auto. destruct He as (_ & _ & Hl & Hal). unfold is_root in *.
    apply orb_true_iff in Hr. destruct Hr as [Hr|Hr].
    + destruct Hal as [->|(X & _)]; [auto|congruence].
    + rewrite (Hl Hr). apply orb_true_r.
  - intros d Hd Hna _ IHo _ IHm. destruct (Hle d Hd) as (d' & Hd' & He). exists d'. split; auto.
    destruct He as (_ & _ & _ & [Hal|(_ & Hna' & Eo & Em)]).
    + apply A_root; auto. unfold is_root. rewrite Hal. auto.
    + apply A_dep; auto; congruence.
  - constructor.
  - intros d f _ (d' & He & Ha) Hf. eapply H_dep; eauto. destruct He as (_ & Hi & _). apply Hi; auto.
Qed.

Theorem select_monotone : forall ds ds' ids ids',
  decls_le ds ds' -> select ds = Some ids -> select ds' = Some ids' ->
  forall id, In id ids -> In id ids'.
Proof.
  intros ds ds' ids ids' Hle H1 H2 id Hin.
  destruct (select_spec ds) as (i1 & E1 & S1). destruct (select_spec ds') as (i2 & E2 & S2).
  rewrite H1 in E1. inversion E1; subst i1. rewrite H2 in E2. inversion E2; subst i2.
  apply S1 in Hin. destruct Hin as (d & Ha & Hid).
  destruct (Alive_mono _ _ Hle) as [HA _]. destruct (HA d Ha) as (d' & He & Ha').
  apply S2. exists d'. split; auto. destruct He as (A & _). congruence.
Qed.

(* ---- soundness w.r.t. a run-time reference relation ------------------------ *)

Section Sound.
Variable ds : list decl.
Variable refs : decl -> decl -> Prop.     (* d's code can reach d' at run time *)
Variable entry : decl -> Prop.            (* what the run-time system invokes by itself *)

Hypothesis entry_root : forall d, In d ds -> entry d -> is_root d = true.
Hypothesis refs_closed : forall d d', In d ds -> refs d d' -> In d' ds.
Hypothesis deps_overapprox : forall d d' f, In d ds -> refs d d' -> In f (filters d') -> In f (d_deps d).

Lemma reachable_alive : forall d0 d, In d0 ds -> entry d0 -> clos_refl_trans_n1 _ refs d0 d -> Alive ds d.
Proof.
  intros d0 d H0 He Hp. induction Hp as [|y z Hyz Hp IH].
  - apply A_root; auto.
  - assert (Hy : In y ds) by (apply Alive_in with (ds := ds); auto).
    assert (Hz : In z ds) by eauto.
    destruct (is_alive z) eqn:Ez.
    + apply A_root; auto. unfold is_root. rewrite Ez. auto.
    + assert (Hh : forall f, f = d_obj z \/ f = d_meth z -> Hit ds f).
      { intros f Hf. destruct (string_dec f "") as [->|Hne]; [constructor|].
        eapply H_dep; eauto. eapply deps_overapprox; eauto. apply in_filters; auto. }
      apply A_dep; auto.
Qed.

Theorem select_sound_gen : forall d0 d, In d0 ds -> entry d0 -> clos_refl_trans _ refs d0 d ->
  exists ids, select ds = Some ids /\ In (d_id d) ids.
Proof.
  intros d0 d H0 He Hp. destruct (select_spec ds) as (ids & Hs & Hi). exists ids. split; auto.
  apply Hi. exists d. split; auto. eapply reachable_alive; eauto.
  apply clos_rt_rtn1_iff; auto.
Qed.
End Sound.
