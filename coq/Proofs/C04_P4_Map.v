(* C04 phase 4 — the bucket model of typeparams.InstanceMap refines an association-list finite map,
   for every hash function h and every history of Set/Get/Has/Delete/Len. *)
From Coq Require Import List NArith Bool Arith Lia.
From Verif Require Import Model.C04_Inst Model.C04_P4_Map Proofs.C04_Inst.
Import ListNotations.

Section MapRef.
Variable V : Type.
Variable h : ty -> N.

(* ---- matching inside a bucket only looks at (TNest, TArgs) *)
Definition nk (k : inst) := (i_tnest k, i_targs k).
Definition amatch (key k : inst) : bool :=
  tys_eqb (i_tnest k) (i_tnest key) && tys_eqb (i_targs k) (i_targs key).
Arguments amatch : simpl never.

Lemma amatch_iff a b : amatch a b = true <-> nk b = nk a.
Proof.
  unfold amatch, nk. rewrite andb_true_iff, !tys_eqb_spec. split.
  - intros [-> ->]; reflexivity.
  - intros E; inversion E; auto.
Qed.
Lemma amatch_true a b : amatch a b = true -> nk b = nk a.
Proof. apply amatch_iff. Qed.
Lemma amatch_false a b : amatch a b = false -> nk b <> nk a.
Proof. intros H E. apply amatch_iff in E. congruence. Qed.

Ltac amc := repeat match goal with
  | H : amatch _ _ = true |- _ => apply amatch_true in H
  | H : amatch _ _ = false |- _ => apply amatch_false in H end.

Lemma tys_eqb_sym a b : tys_eqb a b = tys_eqb b a.
Proof.
  destruct (tys_eqb a b) eqn:E1, (tys_eqb b a) eqn:E2; auto.
  - apply tys_eqb_spec in E1; subst.
    assert (tys_eqb b b = true) by (apply tys_eqb_spec; auto). congruence.
  - apply tys_eqb_spec in E2; subst.
    assert (tys_eqb a a = true) by (apply tys_eqb_spec; auto). congruence.
Qed.

Lemma inst_amatch a b : i_obj a = i_obj b -> inst_eqb a b = amatch a b.
Proof.
  intros H. unfold inst_eqb, amatch. rewrite H, N.eqb_refl. simpl.
  rewrite (tys_eqb_sym (i_targs a)), (tys_eqb_sym (i_tnest a)). apply andb_comm.
Qed.

(* ---- the value a bucket holds for a key *)
Fixpoint bget (key : inst) (b : bucket V) : option V :=
  match b with
  | [] => None
  | None :: r => bget key r
  | Some (k, v) :: r => if amatch key k then Some v else bget key r
  end.

Fixpoint bnodup (b : bucket V) : Prop :=
  match b with
  | [] => True
  | None :: r => bnodup r
  | Some (k, _) :: r => bget k r = None /\ bnodup r
  end.

Lemma fi_some key k v r :
  find_index V key (Some (k, v) :: r) = if amatch key k then Some 0 else option_map S (find_index V key r).
Proof. reflexivity. Qed.
Lemma fi_none key r : find_index V key (None :: r) = option_map S (find_index V key r).
Proof. reflexivity. Qed.

Lemma find_get key b :
  match find_index V key b with
  | Some i => match nth i b None with Some (_, v) => Some v | None => None end
  | None => None
  end = bget key b.
Proof.
  induction b as [|[[k v]|] r IH].
  - reflexivity.
  - rewrite fi_some. simpl bget. destruct (amatch key k); [reflexivity|].
    destruct (find_index V key r); simpl in *; auto.
  - rewrite fi_none. simpl bget. destruct (find_index V key r); simpl in *; auto.
Qed.

Lemma find_some key b : forall i, find_index V key b = Some i ->
  exists k0 v0, nth i b None = Some (k0, v0) /\ amatch key k0 = true.
Proof.
  induction b as [|[[k v]|] r IH]; intros i H.
  - discriminate.
  - rewrite fi_some in H. destruct (amatch key k) eqn:E.
    + inversion H; subst. exists k, v; auto.
    + destruct (find_index V key r) as [j|]; simpl in H; inversion H; subst. simpl. apply IH; auto.
  - rewrite fi_none in H. destruct (find_index V key r) as [j|]; simpl in H; inversion H; subst.
    simpl. apply IH; auto.
Qed.

Lemma bget_nk a b l : nk a = nk b -> bget a l = bget b l.
Proof.
  intros H. induction l as [|[[k v]|] r IH]; simpl; auto.
  assert (amatch a k = amatch b k) as ->.
  { unfold nk in H. inversion H as [[H1 H2]]. unfold amatch. rewrite H1, H2. reflexivity. }
  rewrite IH. reflexivity.
Qed.

Lemma bget_replace key v b : forall i k0 v0,
  find_index V key b = Some i -> nth i b None = Some (k0, v0) ->
  forall k', bget k' (set_nth V b i (Some (k0, v))) = if amatch k' key then Some v else bget k' b.
Proof.
  induction b as [|[[k1 v1]|] r IH]; intros i k0 v0 H N k'.
  - discriminate.
  - rewrite fi_some in H. destruct (amatch key k1) eqn:E.
    + inversion H; subst. simpl in N. inversion N; subst. simpl.
      destruct (amatch k' k0) eqn:E1, (amatch k' key) eqn:E2; auto; amc; congruence.
    + destruct (find_index V key r) as [j|] eqn:F; simpl in H; inversion H; subst.
      simpl in N. simpl. rewrite (IH j k0 v0 eq_refl N).
      destruct (amatch k' k1) eqn:E1, (amatch k' key) eqn:E2; auto; amc; congruence.
  - rewrite fi_none in H. destruct (find_index V key r) as [j|] eqn:F; simpl in H; inversion H; subst.
    simpl in N. simpl. apply (IH j k0 v0 eq_refl N).
Qed.

Lemma bget_delete key b : forall i, bnodup b -> find_index V key b = Some i ->
  forall k', bget k' (set_nth V b i None) = if amatch k' key then None else bget k' b.
Proof.
  induction b as [|[[k1 v1]|] r IH]; intros i ND H k'.
  - discriminate.
  - destruct ND as [ND1 ND2]. rewrite fi_some in H. destruct (amatch key k1) eqn:E.
    + inversion H; subst. simpl. destruct (amatch k' key) eqn:E2.
      * amc. rewrite (bget_nk k' k1) by congruence. exact ND1.
      * destruct (amatch k' k1) eqn:E1; auto. amc; congruence.
    + destruct (find_index V key r) as [j|] eqn:F; simpl in H; inversion H; subst.
      simpl. rewrite (IH j ND2 eq_refl).
      destruct (amatch k' k1) eqn:E1, (amatch k' key) eqn:E2; auto; amc; congruence.
  - rewrite fi_none in H. destruct (find_index V key r) as [j|] eqn:F; simpl in H; inversion H; subst.
    simpl. apply (IH j ND eq_refl).
Qed.

Lemma bget_hole key v b : forall hl, bget key b = None -> nth_error b hl = Some None ->
  forall k', bget k' (set_nth V b hl (Some (key, v))) = if amatch k' key then Some v else bget k' b.
Proof.
  induction b as [|[[k1 v1]|] r IH]; intros hl G N k'.
  - destruct hl; discriminate.
  - simpl in G. destruct (amatch key k1) eqn:E; [discriminate|].
    destruct hl as [|hl]; simpl in N; [discriminate|]. simpl. rewrite (IH hl G N).
    destruct (amatch k' k1) eqn:E1, (amatch k' key) eqn:E2; auto; amc; congruence.
  - destruct hl as [|hl]; simpl in N |- *.
    + reflexivity.
    + apply IH; auto.
Qed.

Lemma bget_app key v b : bget key b = None ->
  forall k', bget k' (b ++ [Some (key, v)]) = if amatch k' key then Some v else bget k' b.
Proof.
  induction b as [|[[k1 v1]|] r IH]; intros G k'.
  - reflexivity.
  - simpl in G. destruct (amatch key k1) eqn:E; [discriminate|]. simpl. rewrite (IH G).
    destruct (amatch k' k1) eqn:E1, (amatch k' key) eqn:E2; auto; amc; congruence.
  - simpl. apply IH; auto.
Qed.

(* ---- bnodup is preserved by the four bucket updates *)
Lemma nodup_replace key v b : forall i k0 v0, bnodup b ->
  find_index V key b = Some i -> nth i b None = Some (k0, v0) ->
  bnodup (set_nth V b i (Some (k0, v))).
Proof.
  induction b as [|[[k1 v1]|] r IH]; intros i k0 v0 ND H N.
  - discriminate.
  - destruct ND as [ND1 ND2]. rewrite fi_some in H. destruct (amatch key k1) eqn:E.
    + inversion H; subst. simpl in N. inversion N; subst. simpl. auto.
    + destruct (find_index V key r) as [j|] eqn:F; simpl in H; inversion H; subst.
      simpl in N. simpl. split; [|apply (IH j k0 v0 ND2 eq_refl N)].
      rewrite (bget_replace key v r j k0 v0 F N).
      destruct (amatch k1 key) eqn:E1; auto. amc; congruence.
  - rewrite fi_none in H. destruct (find_index V key r) as [j|] eqn:F; simpl in H; inversion H; subst.
    simpl in N. simpl. apply (IH j k0 v0 ND eq_refl N).
Qed.

Lemma bget_unset k b : forall i, bget k b = None -> bget k (set_nth V b i None) = None.
Proof.
  induction b as [|[[k1 v1]|] r IH]; intros i G; simpl in *.
  - reflexivity.
  - destruct (amatch k k1) eqn:E; [discriminate|]. destruct i; simpl; auto. rewrite E. auto.
  - destruct i; simpl; auto.
Qed.

Lemma nodup_unset b : forall i, bnodup b -> bnodup (set_nth V b i None).
Proof.
  induction b as [|[[k1 v1]|] r IH]; intros i ND; simpl in *.
  - exact I.
  - destruct ND as [ND1 ND2]. destruct i; simpl; auto. split; auto. apply bget_unset; auto.
  - destruct i; simpl; auto.
Qed.

Lemma nodup_hole key v b : forall hl, bnodup b -> bget key b = None -> nth_error b hl = Some None ->
  bnodup (set_nth V b hl (Some (key, v))).
Proof.
  induction b as [|[[k1 v1]|] r IH]; intros hl ND G N.
  - destruct hl; discriminate.
  - destruct ND as [ND1 ND2]. simpl in G. destruct (amatch key k1) eqn:E; [discriminate|].
    destruct hl as [|hl]; simpl in N; [discriminate|]. simpl. split; [|apply IH; auto].
    rewrite (bget_hole key v r hl G N). destruct (amatch k1 key) eqn:E1; auto. amc; congruence.
  - simpl in ND, G. destruct hl as [|hl]; simpl in N |- *.
    + auto.
    + apply IH; auto.
Qed.

Lemma nodup_app key v b : bnodup b -> bget key b = None -> bnodup (b ++ [Some (key, v)]).
Proof.
  induction b as [|[[k1 v1]|] r IH]; intros ND G.
  - simpl. auto.
  - destruct ND as [ND1 ND2]. simpl in G. destruct (amatch key k1) eqn:E; [discriminate|].
    simpl. split; [|apply IH; auto].
    rewrite (bget_app key v r G). destruct (amatch k1 key) eqn:E1; auto. amc; congruence.
  - simpl in *. apply IH; auto.
Qed.

(* ---- the loop of Set *)
Lemma set_scan_spec key b : forall i hole,
  match set_scan V key b i hole with
  | (Some j, _) => exists j', j = i + j' /\ find_index V key b = Some j'
  | (None, Some hl) => find_index V key b = None /\
                       (hole = Some hl \/ exists j', hl = i + j' /\ nth_error b j' = Some None)
  | (None, None) => find_index V key b = None
  end.
Proof.
  induction b as [|[[k v]|] r IH]; intros i hole.
  - simpl. destruct hole; auto.
  - rewrite fi_some. simpl set_scan. fold (amatch key k). destruct (amatch key k) eqn:E.
    + exists 0. split; [lia|reflexivity].
    + specialize (IH (S i) hole). destruct (set_scan V key r (S i) hole) as [[j|] [hl|]].
      * destruct IH as [j' [-> F]]. exists (S j'). rewrite F. split; [lia|reflexivity].
      * destruct IH as [j' [-> F]]. exists (S j'). rewrite F. split; [lia|reflexivity].
      * destruct IH as [F [H|[j' [-> N]]]]; rewrite F; split; auto.
        right. exists (S j'). split; [lia|exact N].
      * rewrite IH. reflexivity.
  - rewrite fi_none. simpl set_scan.
    specialize (IH (S i) (Some i)). destruct (set_scan V key r (S i) (Some i)) as [[j|] [hl|]].
    + destruct IH as [j' [-> F]]. exists (S j'). rewrite F. split; [lia|reflexivity].
    + destruct IH as [j' [-> F]]. exists (S j'). rewrite F. split; [lia|reflexivity].
    + destruct IH as [F [H|[j' [-> N]]]]; rewrite F; split; auto; right.
      * inversion H; subst. exists 0. split; [lia|reflexivity].
      * exists (S j'). split; [lia|exact N].
    + rewrite IH. reflexivity.
Qed.

(* ---- the outer association list *)
Lemma bkey_eqb_eq (a b : bkey) : bkey_eqb a b = true <-> a = b.
Proof.
  unfold bkey_eqb. destruct a, b; simpl. rewrite andb_true_iff, !N.eqb_eq. split.
  - intros [-> ->]; reflexivity.
  - intros E; inversion E; auto.
Qed.

Lemma bkey_eqb_refl (a : bkey) : bkey_eqb a a = true.
Proof. apply bkey_eqb_eq; reflexivity. Qed.

Lemma lookup_store_same d k b : lookup V (store V d k b) k = b.
Proof.
  induction d as [|[k' b'] r IH]; simpl.
  - rewrite bkey_eqb_refl. reflexivity.
  - destruct (bkey_eqb k k') eqn:E; simpl; rewrite E; auto.
Qed.

Lemma lookup_store_other d k b k' : bkey_eqb k' k = false ->
  lookup V (store V d k b) k' = lookup V d k'.
Proof.
  intros H. induction d as [|[k0 b0] r IH]; simpl.
  - rewrite H. reflexivity.
  - destruct (bkey_eqb k k0) eqn:E; simpl.
    + apply bkey_eqb_eq in E; subst. rewrite H. reflexivity.
    + destruct (bkey_eqb k' k0); auto.
Qed.

Definition inv (m : imap V) : Prop := forall bk, bnodup (lookup V (m_data V m) bk).

Lemma map_get_bget m k : map_get V h m k = bget k (lookup V (m_data V m) (key_of h k)).
Proof. unfold map_get. apply find_get. Qed.

Lemma upd_get m key b' n (f : option V) :
  (forall k', bget k' b' = if amatch k' key then f else bget k' (lookup V (m_data V m) (key_of h key))) ->
  forall k', map_get V h (mkMap V (store V (m_data V m) (key_of h key) b') n) k'
             = if inst_eqb k' key then f else map_get V h m k'.
Proof.
  intros H k'. rewrite !map_get_bget. simpl m_data.
  destruct (bkey_eqb (key_of h k') (key_of h key)) eqn:E.
  - apply bkey_eqb_eq in E. rewrite E, lookup_store_same, H.
    rewrite (inst_amatch k' key); [reflexivity|].
    unfold key_of in E. inversion E; auto.
  - rewrite lookup_store_other by exact E.
    destruct (inst_eqb k' key) eqn:I; [|reflexivity].
    apply inst_eqb_spec in I; subst. rewrite bkey_eqb_refl in E. discriminate.
Qed.

Lemma upd_inv m key b' n : inv m -> bnodup b' ->
  inv (mkMap V (store V (m_data V m) (key_of h key) b') n).
Proof.
  intros I ND bk. simpl m_data. destruct (bkey_eqb bk (key_of h key)) eqn:E.
  - apply bkey_eqb_eq in E; subst. rewrite lookup_store_same. exact ND.
  - rewrite lookup_store_other by exact E. apply I.
Qed.

(* ---- the specification side *)
Fixpoint snodup (s : fmap V) : Prop :=
  match s with
  | [] => True
  | (k, _) :: r => spec_get V r k = None /\ snodup r
  end.

Ltac iec := repeat match goal with
  | H : inst_eqb _ _ = true |- _ => apply inst_eqb_spec in H
  | H : inst_eqb ?a ?b = false |- _ =>
      assert (a <> b) by (let X := fresh in intro X; apply inst_eqb_spec in X; congruence); clear H
  end.

Lemma inst_eqb_refl k : inst_eqb k k = true.
Proof. apply inst_eqb_spec; reflexivity. Qed.

Lemma spec_get_remove s k k' :
  spec_get V (spec_remove V s k) k' = if inst_eqb k' k then None else spec_get V s k'.
Proof.
  induction s as [|[k0 v0] r IH]; simpl.
  - destruct (inst_eqb k' k); reflexivity.
  - destruct (inst_eqb k k0) eqn:E; simpl; rewrite IH.
    + destruct (inst_eqb k' k) eqn:E1; auto. destruct (inst_eqb k' k0) eqn:E2; auto. iec; congruence.
    + destruct (inst_eqb k' k) eqn:E1, (inst_eqb k' k0) eqn:E2; auto. iec; congruence.
Qed.

Lemma snodup_remove s k : snodup s -> snodup (spec_remove V s k).
Proof.
  induction s as [|[k0 v0] r IH]; simpl; auto.
  intros [N1 N2]. destruct (inst_eqb k k0); simpl; auto. split; auto.
  rewrite spec_get_remove, N1. destruct (inst_eqb k0 k); reflexivity.
Qed.

Lemma remove_absent s k : spec_get V s k = None -> spec_remove V s k = s.
Proof.
  induction s as [|[k0 v0] r IH]; simpl; auto.
  destruct (inst_eqb k k0); [discriminate|]. intros H. rewrite IH; auto.
Qed.

Lemma length_remove_present s k v : snodup s -> spec_get V s k = Some v ->
  S (length (spec_remove V s k)) = length s.
Proof.
  induction s as [|[k0 v0] r IH]; simpl; [discriminate|].
  intros [N1 N2] G. destruct (inst_eqb k k0) eqn:E.
  - iec; subst. rewrite remove_absent; auto.
  - simpl. f_equal. apply IH; auto.
Qed.

Lemma spec_get_set s k v k' :
  spec_get V (spec_set V s k v) k' = if inst_eqb k' k then Some v else spec_get V s k'.
Proof.
  unfold spec_set. simpl. rewrite spec_get_remove. destruct (inst_eqb k' k); reflexivity.
Qed.

Lemma snodup_set s k v : snodup s -> snodup (spec_set V s k v).
Proof.
  intros N. unfold spec_set. simpl. split; [|apply snodup_remove; auto].
  rewrite spec_get_remove, inst_eqb_refl. reflexivity.
Qed.

(* ---- the simulation *)
Definition R (m : imap V) (s : fmap V) : Prop :=
  inv m /\ (forall k, map_get V h m k = spec_get V s k) /\ m_len V m = length s /\ snodup s.

Lemma R_empty : R empty_map [].
Proof.
  unfold R, inv. simpl. repeat split; auto.
Qed.

Lemma R_upd m s key b' n f s' :
  R m s -> bnodup b' ->
  (forall k', bget k' b' = if amatch k' key then f else bget k' (lookup V (m_data V m) (key_of h key))) ->
  (forall k', spec_get V s' k' = if inst_eqb k' key then f else spec_get V s k') ->
  n = length s' -> snodup s' ->
  R (mkMap V (store V (m_data V m) (key_of h key) b') n) s'.
Proof.
  intros (I & G & L & N) ND HB HS HL NS. repeat split; auto.
  - apply upd_inv; auto.
  - intros k'. rewrite (upd_get m key b' n f HB), HS, G. reflexivity.
Qed.

Lemma set_ok m s k v : R m s ->
  R (fst (map_set V h m k v)) (spec_set V s k v) /\ snd (map_set V h m k v) = spec_get V s k.
Proof.
  intros HR. pose proof HR as (I & G & L & N). unfold map_set. cbv zeta.
  pose proof (set_scan_spec k (lookup V (m_data V m) (key_of h k)) 0 None) as SS.
  pose proof (G k) as Gk. rewrite map_get_bget in Gk.
  pose proof (find_get k (lookup V (m_data V m) (key_of h k))) as FG.
  pose proof (I (key_of h k)) as NDb.
  destruct (set_scan V k (lookup V (m_data V m) (key_of h k)) 0 None) as [[j|] [hl|]].
  - destruct SS as [j' [-> F]]. simpl plus. rewrite F in FG.
    destruct (find_some _ _ _ F) as (k0 & v0 & Nj & A). rewrite Nj in *. simpl fst. simpl snd.
    assert (spec_get V s k = Some v0) as Sk by congruence.
    split; [|congruence].
    apply (R_upd m s k _ _ (Some v)); auto.
    + eapply nodup_replace; eauto.
    + eapply bget_replace; eauto.
    + apply spec_get_set.
    + unfold spec_set. simpl. rewrite (length_remove_present s k v0); auto.
    + apply snodup_set; auto.
  - destruct SS as [j' [-> F]]. simpl plus. rewrite F in FG.
    destruct (find_some _ _ _ F) as (k0 & v0 & Nj & A). rewrite Nj in *. simpl fst. simpl snd.
    assert (spec_get V s k = Some v0) as Sk by congruence.
    split; [|congruence].
    apply (R_upd m s k _ _ (Some v)); auto.
    + eapply nodup_replace; eauto.
    + eapply bget_replace; eauto.
    + apply spec_get_set.
    + unfold spec_set. simpl. rewrite (length_remove_present s k v0); auto.
    + apply snodup_set; auto.
  - destruct SS as [F [X|[j' [-> Nj]]]]; [discriminate|]. simpl plus in *. rewrite F in FG.
    simpl fst. simpl snd.
    assert (spec_get V s k = None) as Sk by congruence.
    split; [|congruence].
    apply (R_upd m s k _ _ (Some v)); auto.
    + apply nodup_hole; auto.
    + apply bget_hole; auto.
    + apply spec_get_set.
    + unfold spec_set. simpl. rewrite remove_absent; auto.
    + apply snodup_set; auto.
  - rewrite SS in FG. simpl fst. simpl snd.
    assert (spec_get V s k = None) as Sk by congruence.
    split; [|congruence].
    apply (R_upd m s k _ _ (Some v)); auto.
    + apply nodup_app; auto.
    + apply bget_app; auto.
    + apply spec_get_set.
    + unfold spec_set. simpl. rewrite remove_absent; auto.
    + apply snodup_set; auto.
Qed.

Lemma delete_ok m s k : R m s ->
  R (fst (map_delete V h m k)) (spec_remove V s k) /\
  snd (map_delete V h m k) = match spec_get V s k with Some _ => true | None => false end.
Proof.
  intros HR. pose proof HR as (I & G & L & N). unfold map_delete. cbv zeta.
  pose proof (G k) as Gk. rewrite map_get_bget in Gk.
  pose proof (find_get k (lookup V (m_data V m) (key_of h k))) as FG.
  pose proof (I (key_of h k)) as NDb.
  destruct (find_index V k (lookup V (m_data V m) (key_of h k))) as [j|] eqn:F.
  - destruct (find_some _ _ _ F) as (k0 & v0 & Nj & A). rewrite Nj in *. simpl fst. simpl snd.
    assert (spec_get V s k = Some v0) as Sk by congruence.
    rewrite Sk. split; [|reflexivity].
    apply (R_upd m s k _ _ None); auto.
    + apply nodup_unset; auto.
    + apply bget_delete; auto.
    + apply spec_get_remove.
    + pose proof (length_remove_present s k v0 N Sk). lia.
    + apply snodup_remove; auto.
  - simpl fst. simpl snd.
    assert (spec_get V s k = None) as Sk by congruence.
    rewrite Sk, remove_absent; auto.
Qed.

Lemma step_ok m s o : R m s ->
  R (fst (map_step V h m o)) (fst (spec_step V s o)) /\
  snd (map_step V h m o) = snd (spec_step V s o).
Proof.
  intros HR. pose proof HR as (I & G & L & N). destruct o as [k v|k|k|k|]; simpl.
  - pose proof (set_ok m s k v HR) as [H1 H2].
    destruct (map_set V h m k v) as [m' old]. simpl in *. split; auto. congruence.
  - split; auto. rewrite G. reflexivity.
  - split; auto. unfold map_has. rewrite G. reflexivity.
  - pose proof (delete_ok m s k HR) as [H1 H2].
    destruct (map_delete V h m k) as [m' bb]. simpl in *. split; auto. congruence.
  - split; auto; rewrite L; reflexivity.
Qed.

Lemma run_ok : forall ops m s, R m s ->
  snd (map_run V h m ops) = snd (spec_run V s ops) /\
  R (fst (map_run V h m ops)) (fst (spec_run V s ops)).
Proof.
  induction ops as [|o r IH]; intros m s HR; simpl.
  - auto.
  - pose proof (step_ok m s o HR) as H.
    destruct (map_step V h m o) as [m1 x], (spec_step V s o) as [s1 y]. simpl in H.
    destruct H as [HR1 ->]. specialize (IH m1 s1 HR1).
    destruct (map_run V h m1 r) as [m2 xs], (spec_run V s1 r) as [s2 ys]. simpl in *.
    destruct IH as [-> HR2]. auto.
Qed.

(* ---- Keys() *)
Fixpoint dnodup (d : list (bkey * bucket V)) : Prop :=
  match d with
  | [] => True
  | (k, _) :: r => ~ In k (map fst r) /\ dnodup r
  end.

Definition bucket_keys (bk : bkey) (b : bucket V) : Prop :=
  forall k v, In (Some (k, v)) b -> key_of h k = bk.

Definition R2 (m : imap V) : Prop :=
  dnodup (m_data V m) /\ forall bk, bucket_keys bk (lookup V (m_data V m) bk).

Lemma bkey_eqb_neq (a b : bkey) : a <> b -> bkey_eqb a b = false.
Proof.
  intros H. destruct (bkey_eqb a b) eqn:E; auto. apply bkey_eqb_eq in E. contradiction.
Qed.

Lemma dnodup_lookup d : dnodup d -> forall bk b, In (bk, b) d -> lookup V d bk = b.
Proof.
  induction d as [|[k0 b0] r IH]; simpl; intros ND bk b HI; [contradiction|].
  destruct ND as [N1 N2]. destruct HI as [E|HI].
  - inversion E; subst. rewrite bkey_eqb_refl. reflexivity.
  - rewrite bkey_eqb_neq.
    + apply IH; auto.
    + intros ->. apply N1. apply (in_map fst) in HI. exact HI.
Qed.

Lemma store_keys d k b x : In x (map fst (store V d k b)) -> x = k \/ In x (map fst d).
Proof.
  induction d as [|[k0 b0] r IH]; simpl.
  - intros [<-|[]]; auto.
  - destruct (bkey_eqb k k0) eqn:E; simpl.
    + auto.
    + intros [<-|HI]; auto. destruct (IH HI); auto.
Qed.

Lemma dnodup_store d k b : dnodup d -> dnodup (store V d k b).
Proof.
  induction d as [|[k0 b0] r IH]; simpl.
  - auto.
  - intros [N1 N2]. destruct (bkey_eqb k k0) eqn:E; simpl.
    + auto.
    + split; auto. intros HI. apply store_keys in HI. destruct HI as [->|HI]; auto.
      rewrite bkey_eqb_refl in E. discriminate.
Qed.

Lemma lookup_in d bk : lookup V d bk <> [] -> In (bk, lookup V d bk) d.
Proof.
  induction d as [|[k0 b0] r IH]; simpl.
  - intros H; contradiction.
  - destruct (bkey_eqb bk k0) eqn:E.
    + apply bkey_eqb_eq in E; subst. auto.
    + auto.
Qed.

Lemma in_set_nth (b : bucket V) c x : forall i, In x (set_nth V b i c) -> x = c \/ In x b.
Proof.
  induction b as [|y r IH]; intros i HI; simpl in *.
  - contradiction.
  - destruct i; simpl in HI.
    + destruct HI; auto.
    + destruct HI as [<-|HI]; auto. destruct (IH _ HI); auto.
Qed.

Lemma nth_in (b : bucket V) x : forall i, nth i b None = Some x -> In (Some x) b.
Proof.
  induction b as [|y r IH]; intros i H; destruct i; simpl in *; try discriminate; auto.
  right. eapply IH; eauto.
Qed.

Lemma keys_set_nth bk b i c : bucket_keys bk b ->
  (forall k v, c = Some (k, v) -> key_of h k = bk) -> bucket_keys bk (set_nth V b i c).
Proof.
  intros HB HC k v HI. apply in_set_nth in HI. destruct HI as [E|HI]; eauto.
Qed.

Lemma keys_app bk b k0 v0 : bucket_keys bk b -> key_of h k0 = bk ->
  bucket_keys bk (b ++ [Some (k0, v0)]).
Proof.
  intros HB HC k v HI. apply in_app_or in HI. destruct HI as [HI|[E|[]]]; eauto.
  inversion E; subst; auto.
Qed.

Lemma R2_upd m key b' n : R2 m -> bucket_keys (key_of h key) b' ->
  R2 (mkMap V (store V (m_data V m) (key_of h key) b') n).
Proof.
  intros [D K] HB. split; simpl m_data.
  - apply dnodup_store; auto.
  - intros bk. destruct (bkey_eqb bk (key_of h key)) eqn:E.
    + apply bkey_eqb_eq in E; subst. rewrite lookup_store_same. exact HB.
    + rewrite lookup_store_other by exact E. apply K.
Qed.

Lemma R2_set m k v : R2 m -> R2 (fst (map_set V h m k v)).
Proof.
  intros H2. pose proof H2 as [D K]. unfold map_set. cbv zeta.
  pose proof (K (key_of h k)) as KB.
  destruct (set_scan V k (lookup V (m_data V m) (key_of h k)) 0 None) as [[j|] [hl|]]; simpl fst;
    apply R2_upd; auto.
  - apply keys_set_nth; auto. intros k1 v1 E.
    destruct (nth j (lookup V (m_data V m) (key_of h k)) None) as [[k2 v2]|] eqn:Nj;
      inversion E; subst; auto. apply nth_in in Nj. eapply KB; eauto.
  - apply keys_set_nth; auto. intros k1 v1 E.
    destruct (nth j (lookup V (m_data V m) (key_of h k)) None) as [[k2 v2]|] eqn:Nj;
      inversion E; subst; auto. apply nth_in in Nj. eapply KB; eauto.
  - apply keys_set_nth; auto. intros k1 v1 E. inversion E; subst; auto.
  - apply keys_app; auto.
Qed.

Lemma R2_delete m k : R2 m -> R2 (fst (map_delete V h m k)).
Proof.
  intros H2. pose proof H2 as [D K]. unfold map_delete. cbv zeta.
  destruct (find_index V k (lookup V (m_data V m) (key_of h k))) as [j|]; simpl fst; auto.
  apply R2_upd; auto. apply keys_set_nth; auto. intros k1 v1 E. discriminate.
Qed.

Lemma R2_step m o : R2 m -> R2 (fst (map_step V h m o)).
Proof.
  intros H2. destruct o as [k v|k|k|k|]; simpl; auto.
  - pose proof (R2_set m k v H2). destruct (map_set V h m k v); auto.
  - pose proof (R2_delete m k H2). destruct (map_delete V h m k); auto.
Qed.

Lemma R2_run : forall ops m, R2 m -> R2 (fst (map_run V h m ops)).
Proof.
  induction ops as [|o r IH]; intros m H2; simpl; auto.
  pose proof (R2_step m o H2) as H. destruct (map_step V h m o) as [m1 x]. simpl in H.
  specialize (IH m1 H). destruct (map_run V h m1 r). auto.
Qed.

Lemma R2_empty : R2 empty_map.
Proof. split; simpl; auto. intros bk k v []. Qed.

Lemma amatch_refl k : amatch k k = true.
Proof. apply amatch_iff. reflexivity. Qed.

Lemma in_bget k v b : In (Some (k, v)) b -> bget k b <> None.
Proof.
  induction b as [|[[k1 v1]|] r IH]; simpl; intros HI.
  - contradiction.
  - destruct (amatch k k1) eqn:E; [discriminate|]. destruct HI as [E1|HI]; auto.
    inversion E1; subst. rewrite amatch_refl in E. discriminate.
  - destruct HI as [E1|HI]; [discriminate|auto].
Qed.

Lemma bget_in k b v : bget k b = Some v -> exists k0, In (Some (k0, v)) b /\ amatch k k0 = true.
Proof.
  induction b as [|[[k1 v1]|] r IH]; simpl; intros G.
  - discriminate.
  - destruct (amatch k k1) eqn:E.
    + inversion G; subst. exists k1; auto.
    + destruct (IH G) as (k0 & HI & A). exists k0; auto.
  - destruct (IH G) as (k0 & HI & A). exists k0; auto.
Qed.

Lemma keys_ok m s : R m s -> R2 m ->
  forall k, In k (map_keys V m) <-> spec_get V s k <> None.
Proof.
  intros (I & G & L & N) [D K] k. rewrite <- G, map_get_bget. unfold map_keys. split.
  - intros HI. apply in_flat_map in HI. destruct HI as ([bk b] & HI1 & HI2). simpl in HI2.
    apply in_flat_map in HI2. destruct HI2 as (c & HC1 & HC2).
    destruct c as [[k1 v1]|]; simpl in HC2; [|contradiction]. destruct HC2 as [->|[]].
    pose proof (dnodup_lookup _ D _ _ HI1) as Lk.
    pose proof (K bk) as KB. rewrite Lk in KB. rewrite (KB _ _ HC1), Lk.
    eapply in_bget; eauto.
  - intros HG. destruct (bget k (lookup V (m_data V m) (key_of h k))) as [v|] eqn:B; [|congruence].
    apply bget_in in B. destruct B as (k0 & HI & A).
    pose proof (K _ _ _ HI) as KK. apply amatch_true in A.
    assert (k0 = k) as ->.
    { unfold key_of in KK. inversion KK as [[O T]]. unfold nk in A. inversion A.
      destruct k0, k; simpl in *; subst; reflexivity. }
    apply in_flat_map. exists (key_of h k, lookup V (m_data V m) (key_of h k)). split.
    + apply lookup_in. intros E. rewrite E in HI. contradiction.
    + simpl. apply in_flat_map. exists (Some (k, v)). split; simpl; auto.
Qed.

End MapRef.


Theorem map_refines_lem : forall (V : Type) (h : ty -> N) (ops : list (op V)),
  snd (map_run V h empty_map ops) = snd (spec_run V [] ops).
Proof.
  intros V h ops. apply (run_ok V h ops empty_map []). apply R_empty.
Qed.

Theorem map_keys_lem : forall (V : Type) (h : ty -> N) (ops : list (op V)) (k : inst),
  In k (map_keys V (fst (map_run V h empty_map ops))) <-> spec_get V (fst (spec_run V [] ops)) k <> None.
Proof.
  intros V h ops. apply (keys_ok V h).
  - apply (run_ok V h ops empty_map []). apply R_empty.
  - apply R2_run. apply R2_empty.
Qed.
