(* C01 — arithmetic lemmas: the JavaScript encodings of Go's fixed-width operators. *)
From Coq Require Import ZArith List String Bool Lia ZifyBool.
From Verif Require Import Model.C01_GoSem Model.C01_JsSem Model.C01_Compile.
Import ListNotations.
Local Open Scope Z_scope.
Ltac Zify.zify_post_hook ::= Z.to_euclidean_division_equations.

(* replace closed powers of two by numerals *)
Ltac pows := repeat match goal with
  | |- context [2 ^ ?n] =>
      let v := eval vm_compute in (2 ^ n) in
      lazymatch v with Zpos _ => change (2 ^ n) with v end
  | H : context [2 ^ ?n] |- _ =>
      let v := eval vm_compute in (2 ^ n) in
      lazymatch v with Zpos _ => change (2 ^ n) with v in H end
  end.

Ltac unf := unfold norm, smod, umod, in_range, min_int in *; cbn [signed bits] in *; pows.

Lemma in_range_spec : forall k z, in_range k z = true <->
  (if signed k then - 2 ^ (bits k - 1) <= z < 2 ^ (bits k - 1) else 0 <= z < 2 ^ bits k).
Proof. intros. unfold in_range. destruct (signed k); lia. Qed.

Ltac rng := repeat match goal with H : in_range _ _ = true |- _ => apply in_range_spec in H end.

Lemma fix_number_eval : forall k e s x s',
  jeval s e = JOk (JI x) s' -> jeval s (fix_number k e) = JOk (JI (norm k x)) s'.
Proof.
  intros k e s x s' H.
  destruct k; cbn [fix_number jshl jshr jushr jeval]; rewrite H;
    cbn [jeval js_bin to_int32 to_uint32]; do 2 f_equal; pows; unf; lia.
Qed.

(* ---------------------------------------------------------------- stores *)
Lemma name_eqb_refl : forall a, name_eqb a a = true.
Proof. intros [b n]. unfold name_eqb. cbn. now rewrite String.eqb_refl, N.eqb_refl. Qed.

(* ---------------------------------------------------------------- helpers *)
Lemma exact_small : forall z, Z.abs z <= 2 ^ 53 -> exact z = Some (JI z).
Proof. intros z H. unfold exact. destruct (Z.abs z <=? 2 ^ 53) eqn:E; [reflexivity|lia]. Qed.

Lemma range_coarse : forall k z, in_range k z = true -> - 2 ^ 31 <= z < 2 ^ 32.
Proof. intros k z H. destruct k; unf; lia. Qed.

Lemma smod32_id : forall z, - 2 ^ 31 <= z < 2 ^ 31 -> smod 32 z = z.
Proof. intros. unf. lia. Qed.

Lemma umod_smod32 : forall z, umod 32 (smod 32 z) = umod 32 z.
Proof. intros. unf. lia. Qed.

Lemma smod32_mod : forall z, smod 32 z mod 2 ^ 32 = z mod 2 ^ 32.
Proof. intros. unf. lia. Qed.

Lemma norm_in_range : forall k z, in_range k (norm k z) = true.
Proof. intros. destruct k; unf; lia. Qed.

Lemma norm_id : forall k z, in_range k z = true -> norm k z = z.
Proof. intros. destruct k; unf; lia. Qed.

Ltac ev := cbn [tmpl fst snd jeval fix_number jshl jshr jushr
                js_bin js_un to_int32 to_uint32 get set signed bits].

Lemma add_correct : forall k t a b s, in_range k a = true -> in_range k b = true ->
  jeval s (tmpl k Add t (JNum a) (JNum b)) = JOk (JI (norm k (a + b))) s.
Proof.
  intros k t a b s Ha Hb. apply range_coarse in Ha as Ha', Hb as Hb'. pows.
  destruct k; ev; (rewrite exact_small by (pows; lia));
    apply (fix_number_eval _ (JNum (a + b))) || (cbn [jeval js_bin to_int32 to_uint32]; do 2 f_equal; pows; unf; lia).
Qed.

Lemma sub_correct : forall k t a b s, in_range k a = true -> in_range k b = true ->
  jeval s (tmpl k Sub t (JNum a) (JNum b)) = JOk (JI (norm k (a - b))) s.
Proof.
  intros k t a b s Ha Hb. apply range_coarse in Ha as Ha', Hb as Hb'. pows.
  destruct k; ev; (rewrite exact_small by (pows; lia));
    cbn [jeval js_bin to_int32 to_uint32]; do 2 f_equal; pows; unf; lia.
Qed.

Lemma mul_mod32 : forall a b, (smod 32 a * smod 32 b) mod 2 ^ 32 = (a * b) mod 2 ^ 32.
Proof.
  intros. rewrite Zmult_mod, !smod32_mod, <- Zmult_mod. reflexivity.
Qed.

Lemma mul_correct : forall k t a b s, in_range k a = true -> in_range k b = true ->
  jeval s (tmpl k Mul t (JNum a) (JNum b)) = JOk (JI (norm k (a * b))) s.
Proof.
  intros k t a b s Ha Hb. rng.
  destruct k; ev; cbn [signed bits] in *; pows.
  - (* I8 *) assert (E : Z.abs (a * b) <= 2 ^ 53) by (pows; nia); rewrite (exact_small _ E). cbn [jeval js_bin to_int32 to_uint32]. do 2 f_equal.
    generalize (a * b). intro m. pows; unf; lia.
  - assert (E : Z.abs (a * b) <= 2 ^ 53) by (pows; nia); rewrite (exact_small _ E). cbn [jeval js_bin to_int32 to_uint32]. do 2 f_equal.
    generalize (a * b). intro m. pows; unf; lia.
  - rewrite (smod32_id a), (smod32_id b) by (pows; lia). reflexivity.
  - rewrite (smod32_id a), (smod32_id b) by (pows; lia). reflexivity.
  - assert (E : Z.abs (a * b) <= 2 ^ 53) by (pows; nia); rewrite (exact_small _ E). cbn [jeval js_bin to_int32 to_uint32]. do 2 f_equal.
    generalize (a * b). intro m. pows; unf; lia.
  - assert (E : Z.abs (a * b) <= 2 ^ 53) by (pows; nia); rewrite (exact_small _ E). cbn [jeval js_bin to_int32 to_uint32]. do 2 f_equal.
    generalize (a * b). intro m. pows; unf; lia.
  - do 2 f_equal. rewrite umod_smod32. unfold norm; cbn [signed bits]. unfold umod at 2.
    rewrite <- mul_mod32. generalize (smod 32 a * smod 32 b). intro m. pows. unf. lia.
  - do 2 f_equal. rewrite umod_smod32. unfold norm; cbn [signed bits]. unfold umod at 2.
    rewrite <- mul_mod32. generalize (smod 32 a * smod 32 b). intro m. pows. unf. lia.
Qed.

(* ---------------------------------------------------------------- bitwise operators *)
Lemma land_mod : forall n x y, 0 <= n -> Z.land x y mod 2 ^ n = Z.land (x mod 2 ^ n) (y mod 2 ^ n).
Proof.
  intros. rewrite <- !Z.land_ones by lia. apply Z.bits_inj'. intros i Hi.
  rewrite !Z.land_spec. destruct (Z.testbit x i), (Z.testbit y i), (Z.testbit (Z.ones n) i); reflexivity.
Qed.
Lemma lor_mod : forall n x y, 0 <= n -> Z.lor x y mod 2 ^ n = Z.lor (x mod 2 ^ n) (y mod 2 ^ n).
Proof.
  intros. rewrite <- !Z.land_ones by lia. apply Z.bits_inj'. intros i Hi.
  rewrite !Z.land_spec, !Z.lor_spec, !Z.land_spec.
  destruct (Z.testbit x i), (Z.testbit y i), (Z.testbit (Z.ones n) i); reflexivity.
Qed.
Lemma lxor_mod : forall n x y, 0 <= n -> Z.lxor x y mod 2 ^ n = Z.lxor (x mod 2 ^ n) (y mod 2 ^ n) mod 2 ^ n.
Proof.
  intros. rewrite <- !Z.land_ones by lia. apply Z.bits_inj'. intros i Hi.
  rewrite !Z.land_spec, !Z.lxor_spec, !Z.land_spec.
  destruct (Z.testbit x i), (Z.testbit y i), (Z.testbit (Z.ones n) i); reflexivity.
Qed.

(* x is in the signed range of width m+1 iff x / 2^m is 0 or -1; unsigned width m iff x / 2^m = 0 *)
Lemma land_srange : forall m a b, 0 <= m ->
  - 2 ^ m <= a < 2 ^ m -> - 2 ^ m <= b < 2 ^ m -> - 2 ^ m <= Z.land a b < 2 ^ m.
Proof.
  intros m a b Hm Ha Hb.
  assert (P : 0 < 2 ^ m) by (apply Z.pow_pos_nonneg; lia).
  assert (Ea : a / 2 ^ m = 0 \/ a / 2 ^ m = -1) by nia.
  assert (Eb : b / 2 ^ m = 0 \/ b / 2 ^ m = -1) by nia.
  assert (E : Z.land a b / 2 ^ m = 0 \/ Z.land a b / 2 ^ m = -1).
  { rewrite <- !Z.shiftr_div_pow2 in * by lia. rewrite Z.shiftr_land.
    destruct Ea as [-> | ->], Eb as [-> | ->]; cbn; auto. }
  nia.
Qed.
Lemma lor_srange : forall m a b, 0 <= m ->
  - 2 ^ m <= a < 2 ^ m -> - 2 ^ m <= b < 2 ^ m -> - 2 ^ m <= Z.lor a b < 2 ^ m.
Proof.
  intros m a b Hm Ha Hb.
  assert (P : 0 < 2 ^ m) by (apply Z.pow_pos_nonneg; lia).
  assert (Ea : a / 2 ^ m = 0 \/ a / 2 ^ m = -1) by nia.
  assert (Eb : b / 2 ^ m = 0 \/ b / 2 ^ m = -1) by nia.
  assert (E : Z.lor a b / 2 ^ m = 0 \/ Z.lor a b / 2 ^ m = -1).
  { rewrite <- !Z.shiftr_div_pow2 in * by lia. rewrite Z.shiftr_lor.
    destruct Ea as [-> | ->], Eb as [-> | ->]; cbn; auto. }
  nia.
Qed.
Lemma land_urange : forall m a b, 0 <= m -> 0 <= a < 2 ^ m -> 0 <= b < 2 ^ m -> 0 <= Z.land a b < 2 ^ m.
Proof.
  intros m a b Hm Ha Hb. split. apply Z.land_nonneg; lia.
  assert (E : Z.land a b mod 2 ^ m = Z.land a b) by (rewrite land_mod, !Z.mod_small by lia; reflexivity).
  rewrite <- E. apply Z.mod_pos_bound. apply Z.pow_pos_nonneg; lia.
Qed.
Lemma lor_urange : forall m a b, 0 <= m -> 0 <= a < 2 ^ m -> 0 <= b < 2 ^ m -> 0 <= Z.lor a b < 2 ^ m.
Proof.
  intros m a b Hm Ha Hb. split. apply Z.lor_nonneg; lia.
  assert (E : Z.lor a b mod 2 ^ m = Z.lor a b) by (rewrite lor_mod, !Z.mod_small by lia; reflexivity).
  rewrite <- E. apply Z.mod_pos_bound. apply Z.pow_pos_nonneg; lia.
Qed.

Lemma land_in_range : forall k a b, in_range k a = true -> in_range k b = true -> in_range k (Z.land a b) = true.
Proof.
  intros k a b Ha Hb. rewrite in_range_spec in *. destruct (signed k).
  - apply land_srange; auto. destruct k; cbn; lia.
  - apply land_urange; auto. destruct k; cbn; lia.
Qed.
Lemma lor_in_range : forall k a b, in_range k a = true -> in_range k b = true -> in_range k (Z.lor a b) = true.
Proof.
  intros k a b Ha Hb. rewrite in_range_spec in *. destruct (signed k).
  - apply lor_srange; auto. destruct k; cbn; lia.
  - apply lor_urange; auto. destruct k; cbn; lia.
Qed.

Lemma u32_and : forall a b, 0 <= a < 2 ^ 32 -> 0 <= b < 2 ^ 32 ->
  umod 32 (smod 32 (Z.land (smod 32 a) (smod 32 b))) = Z.land a b.
Proof.
  intros. rewrite umod_smod32. unfold umod. rewrite land_mod, !smod32_mod, !Z.mod_small by lia. reflexivity.
Qed.
Lemma u32_or : forall a b, 0 <= a < 2 ^ 32 -> 0 <= b < 2 ^ 32 ->
  umod 32 (smod 32 (Z.lor (smod 32 a) (smod 32 b))) = Z.lor a b.
Proof.
  intros. rewrite umod_smod32. unfold umod. rewrite lor_mod, !smod32_mod, !Z.mod_small by lia. reflexivity.
Qed.

Lemma and_correct : forall k t a b s, in_range k a = true -> in_range k b = true ->
  jeval s (tmpl k And t (JNum a) (JNum b)) = JOk (JI (Z.land a b)) s.
Proof.
  intros k t a b s Ha Hb.
  destruct k; ev; do 2 f_equal;
    try (rewrite (smod32_id a), (smod32_id b) by (unf; lia); reflexivity);
    (replace (2 ^ (umod 32 (smod 32 0) mod 32)) with 1 by reflexivity); rewrite Z.div_1_r;
    apply u32_and; unf; lia.
Qed.
Lemma or_correct : forall k t a b s, in_range k a = true -> in_range k b = true ->
  jeval s (tmpl k Or t (JNum a) (JNum b)) = JOk (JI (Z.lor a b)) s.
Proof.
  intros k t a b s Ha Hb.
  destruct k; ev; do 2 f_equal;
    try (rewrite (smod32_id a), (smod32_id b) by (unf; lia); reflexivity);
    (replace (2 ^ (umod 32 (smod 32 0) mod 32)) with 1 by reflexivity); rewrite Z.div_1_r;
    apply u32_or; unf; lia.
Qed.
