(* C05 phase 4 — the recorded DCE names and dependencies cover every reference of the modelled
   syntax: specification (what a mention needs / can dispatch to, reachability) and proofs. *)
From Coq Require Import List String Ascii Bool NArith Arith Lia.
From Verif Require Import Model.C05_Select Model.C05_Record Proofs.C05_Select.
Import ListNotations.
Local Open Scope list_scope.
Local Open Scope string_scope.

(* ------------------------------------------------------------------------ *)
(* Specification side                                                         *)

(* the named types (with their type arguments) that typeName(t) reaches *)
Fixpoint named_in (a : ty) : list (string * string * tys) :=
  match a with
  | TBasic _ => []
  | TNamed p n l => [(p, n, l)]
  | TPtr x | TSlice x => named_in x
  | TMap k v => (named_in k ++ named_in v)%list
  | TFunc ps _ rs => (named_in_l ps ++ named_in_l rs)%list
  | TParam _ => []
  end
with named_in_l (a : tys) : list (string * string * tys) :=
  match a with TNil => [] | TCons x r => (named_in x ++ named_in_l r)%list end.

Fixpoint recv_named (recv : ty) : option (string * string * tys) :=
  match recv with
  | TNamed p n l => Some (p, n, l)
  | TPtr x => recv_named x
  | _ => None
  end.

(* well-formed variadic signatures: the last parameter of a variadic signature is a slice *)
Fixpoint tuple_wf (a : tys) (va : bool) : bool :=
  match a with
  | TNil => true
  | TCons x TNil => if va then match x with TSlice _ => true | _ => false end else true
  | TCons _ r => tuple_wf r va
  end.
Fixpoint ty_wf (a : ty) : bool :=
  match a with
  | TBasic _ | TParam _ => true
  | TNamed _ _ l => tys_wf l
  | TPtr x | TSlice x => ty_wf x
  | TMap k v => ty_wf k && ty_wf v
  | TFunc ps va rs => tys_wf ps && tys_wf rs && tuple_wf ps va
  end
with tys_wf (a : tys) : bool :=
  match a with TNil => true | TCons x r => ty_wf x && tys_wf r end.
Definition sig_wf (s : msig) : bool := ty_wf (sig_ty s).

(* the instance pkg.name[targs] (type arguments compared as TYPES: types.Identical) *)
Definition is_inst (p n : string) (l : tys) (g : gdecl) : Prop :=
  g_pkg g = p /\ g_name g = n /\ tys_identical (g_targs g) l = true.
Definition is_holder (p n : string) (l : tys) (g : gdecl) : Prop :=
  g_pkg g = p /\ g_name g = n /\ g_kind g = KHolder (tys_len l).

(* the type a mention hands to typeName *)
Definition ref_type (r : ref) : option ty :=
  match r with RType t => Some t | RMethExpr recv _ _ _ => Some recv | _ => None end.

(* the method object a mention selects statically (concrete receiver) *)
Definition is_method_of (recv : ty) (mp mn : string) (s' : msig) (g : gdecl) : Prop :=
  exists p n l s, recv_named recv = Some (p, n, l) /\ g_kind g = KMethod mn s /\ is_inst p n l g /\
                  mp = g_pkg g /\ sig_identical s' (sig_subst (g_targs g) s) = true.

(* Go's method-set rule for an interface method (mp.mn, s'): the concrete method has the same name,
   the same package when the name is not exported, and an identical signature *)
Definition implements_method (mp mn : string) (s' : msig) (g : gdecl) : Prop :=
  exists s, g_kind g = KMethod mn s /\ (is_exported mn = false -> mp = g_pkg g) /\
            sig_identical s' (sig_subst (g_targs g) s) = true.

(* [needs r g]: the code emitted for mention r refers to declaration g directly *)
Inductive needs : ref -> gdecl -> Prop :=
| N_func : forall p n l g, g_kind g = KFunc -> is_inst p n l g -> needs (RFunc p n l) g
| N_func_holder : forall p n l g, is_holder p n l g -> needs (RFunc p n l) g
| N_var : forall p n g, g_kind g = KVar -> g_pkg g = p -> g_name g = n -> g_targs g = TNil -> needs (RVar p n) g
| N_type : forall r t p n l g f, ref_type r = Some t -> In (p, n, l) (named_in t) ->
    g_kind g = KType f -> is_inst p n l g -> needs r g
| N_type_holder : forall r t p n l g, ref_type r = Some t -> In (p, n, l) (named_in t) ->
    is_holder p n l g -> needs r g
| N_methexpr : forall recv mp mn s' g, is_method_of recv mp mn s' g -> needs (RMethExpr recv mp mn s') g.

(* [dispatch r g]: executing mention r can run method declaration g, PROVIDED a value of g's receiver
   type exists *)
Inductive dispatch : ref -> gdecl -> Prop :=
| D_meth : forall recv vr mp mn s' g, is_method_of recv mp mn s' g -> dispatch (RMeth recv vr mp mn s') g
| D_imeth : forall i mp mn s' g, implements_method mp mn s' g -> dispatch (RIMeth i mp mn s') g
| D_imethexpr : forall i mp mn s' g, implements_method mp mn s' g -> dispatch (RIMethExpr i mp mn s') g.

(* [instantiates r g]: mention r names the receiver type instance of method declaration g (values of a
   named type only come into existence in code that names the type) *)
Definition instantiates (r : ref) (g : gdecl) : Prop :=
  exists t l, ref_type r = Some t /\ In (g_pkg g, g_name g, l) (named_in t) /\ tys_identical (g_targs g) l = true.

(* the declarations whose code can be executed / whose method can be reached by any dynamically
   possible call (rapid-type-analysis reachability over the modelled mentions) *)
Inductive Reach (p : prog) : gdecl -> Prop :=
| R_root : forall g, In g p -> g_root g = true -> Reach p g
| R_needs : forall g r g', Reach p g -> In r (body p g) -> needs r g' -> In g' p -> Reach p g'
| R_dispatch : forall g r gm g0 r0, Reach p g -> In r (body p g) -> dispatch r gm -> In gm p ->
    Reach p g0 -> In r0 (body p g0) -> instantiates r0 gm -> Reach p gm.

(* alias-free spelling (the class of the recorded byte/uint8 finding) + well-formed variadics *)
Definition ref_ok (r : ref) : bool :=
  match r with
  | RFunc _ _ l => tys_canonical l
  | RVar _ _ => true
  | RType t => ty_canonical t
  | RMeth recv _ _ _ s | RMethExpr recv _ _ s => ty_canonical recv && sig_canonical s
  | RIMeth _ _ _ s | RIMethExpr _ _ _ s => sig_canonical s
  end.
Definition decl_ok (p : prog) (g : gdecl) : bool :=
  tys_canonical (g_targs g) &&
  match g_kind g with
  | KMethod _ s => sig_wf s && sig_canonical (sig_subst (g_targs g) s)
  | _ => true
  end && forallb ref_ok (body p g).
Definition prog_ok (p : prog) : bool := forallb (decl_ok p) p.

(* ------------------------------------------------------------------------ *)
(* Types: identical + alias-free => equal                                     *)

Scheme ty_mind := Induction for ty Sort Prop
  with tys_mind := Induction for tys Sort Prop.
Combined Scheme ty_tys_ind from ty_mind, tys_mind.

Lemma basic_identical_eq : forall x y, basic_eqb (basic_canon x) (basic_canon y) = true ->
  basic_eqb (basic_canon x) x = true -> basic_eqb (basic_canon y) y = true -> x = y.
Proof. destruct x, y; simpl; intros; congruence. Qed.

Lemma identical_eq :
  (forall a b, ty_identical a b = true -> ty_canonical a = true -> ty_canonical b = true -> a = b) /\
  (forall a b, tys_identical a b = true -> tys_canonical a = true -> tys_canonical b = true -> a = b).
Proof.
  apply ty_tys_ind.
  - intros x b; destruct b; simpl; try discriminate. intros. f_equal. apply basic_identical_eq; auto.
  - intros p n l IH b; destruct b; simpl; try discriminate. intros H Ha Hb.
    apply andb_true_iff in H as [H H3]. apply andb_true_iff in H as [H1 H2].
    apply String.eqb_eq in H1. apply String.eqb_eq in H2. subst. f_equal. apply IH; auto.
  - intros x IH b; destruct b; simpl; try discriminate. intros. f_equal. apply IH; auto.
  - intros x IH b; destruct b; simpl; try discriminate. intros. f_equal. apply IH; auto.
  - intros k IHk v IHv b; destruct b; simpl; try discriminate. intros H Ha Hb.
    apply andb_true_iff in H as [H1 H2]. apply andb_true_iff in Ha as [Ha1 Ha2]. apply andb_true_iff in Hb as [Hb1 Hb2].
    f_equal; [apply IHk|apply IHv]; auto.
  - intros ps IHp va rs IHr b; destruct b; simpl; try discriminate. intros H Ha Hb.
    apply andb_true_iff in H as [H H3]. apply andb_true_iff in H as [H1 H2].
    apply andb_true_iff in Ha as [Ha1 Ha2]. apply andb_true_iff in Hb as [Hb1 Hb2].
    apply Bool.eqb_prop in H2. subst. f_equal; [apply IHp|apply IHr]; auto.
  - intros i b; destruct b; simpl; try discriminate. intros H _ _. apply Nat.eqb_eq in H. subst; auto.
  - intros b; destruct b; simpl; try discriminate; auto.
  - intros x IHx r IHr b; destruct b; simpl; try discriminate. intros H Ha Hb.
    apply andb_true_iff in H as [H1 H2]. apply andb_true_iff in Ha as [Ha1 Ha2]. apply andb_true_iff in Hb as [Hb1 Hb2].
    f_equal; [apply IHx|apply IHr]; auto.
Qed.

Lemma sig_identical_eq : forall a b, sig_identical a b = true -> sig_canonical a = true -> sig_canonical b = true -> a = b.
Proof.
  intros a b H Ha Hb. assert (E : sig_ty a = sig_ty b) by (apply (proj1 identical_eq); auto).
  destruct a, b; unfold sig_ty in E; simpl in E. inversion E; subst; reflexivity.
Qed.

(* ------------------------------------------------------------------------ *)
(* filterGen: replacing type parameters while printing = printing the substituted type *)

Lemma nth_tys_filter : forall ta i,
  nth i (tys_filter [] ta) "any" =
  ty_filter [] (match tys_nth ta i with Some t => t | None => TParam i end).
Proof.
  induction ta as [|t r IH]; intros i.
  - simpl. destruct i; reflexivity.
  - destruct i; simpl; [reflexivity|]. rewrite IH. destruct (tys_nth r i); [reflexivity|].
    simpl. destruct i; reflexivity.
Qed.

Lemma filter_subst : forall ta,
  (forall a, ty_wf a = true -> ty_filter (tys_filter [] ta) a = ty_filter [] (ty_subst ta a)) /\
  (forall a, tys_wf a = true ->
     tys_filter (tys_filter [] ta) a = tys_filter [] (tys_subst ta a) /\
     (forall va, tuple_wf a va = true ->
        tuple_filter (tys_filter [] ta) a va = tuple_filter [] (tys_subst ta a) va)).
Proof.
  intro ta. apply ty_tys_ind.
  - reflexivity.
  - intros p n l IH H. simpl in *. destruct (IH H) as [E _]. rewrite E. reflexivity.
  - intros x IH H. simpl in *. rewrite IH; auto.
  - intros x IH H. simpl in *. rewrite IH; auto.
  - intros k IHk v IHv H. simpl in *. apply andb_true_iff in H as [H1 H2]. rewrite IHk, IHv; auto.
  - intros ps IHp va rs IHr H. simpl in H.
    apply andb_true_iff in H as [H H3]. apply andb_true_iff in H as [H1 H2].
    destruct (IHp H1) as [_ Ep]. destruct (IHr H2) as [Er _].
    cbn [ty_filter ty_subst]. rewrite (Ep va H3).
    destruct rs as [|r0 rs']; [reflexivity|].
    destruct rs' as [|r1 rs''].
    + cbn [tys_subst]. cbn [tys_filter tys_subst] in Er. inversion Er as [E0]. rewrite E0. reflexivity.
    + cbn [tys_subst]. rewrite Er. reflexivity.
  - intros i _. cbn [ty_filter ty_subst]. apply nth_tys_filter.
  - intros _. split; [reflexivity|]. intros; reflexivity.
  - intros x IHx r IHr H. simpl in H. apply andb_true_iff in H as [H1 H2].
    destruct (IHr H2) as [Er Et]. split.
    + cbn [tys_filter tys_subst]. rewrite IHx, Er; auto.
    + intros va Hva. destruct r as [|y r'].
      * cbn [tuple_filter tys_subst]. destruct va.
        -- simpl in Hva. destruct x; try discriminate. cbn [ty_subst].
           simpl in H1. specialize (IHx H1). cbn [ty_filter ty_subst] in IHx.
           apply (f_equal (fun s => match s with String _ (String _ r) => r | _ => "" end)) in IHx.
           simpl in IHx. rewrite IHx. reflexivity.
        -- rewrite IHx; auto.
      * assert (Hva' : tuple_wf (TCons y r') va = true) by exact Hva.
        specialize (Et va Hva').
        change (tuple_filter (tys_filter [] ta) (TCons x (TCons y r')) va)
          with (ty_filter (tys_filter [] ta) x :: tuple_filter (tys_filter [] ta) (TCons y r') va).
        change (tuple_filter [] (tys_subst ta (TCons x (TCons y r'))) va)
          with (ty_filter [] (ty_subst ta x) :: tuple_filter [] (tys_subst ta (TCons y r')) va).
        rewrite IHx, Et; auto.
Qed.

Lemma sig_filter_subst : forall ta s, sig_wf s = true ->
  sig_filter (tys_filter [] ta) s = sig_filter [] (sig_subst ta s).
Proof.
  intros ta [ps va rs] H. unfold sig_wf, sig_ty in H. simpl in H.
  apply andb_true_iff in H as [H H3]. apply andb_true_iff in H as [H1 H2].
  destruct (proj2 (filter_subst ta) ps H1) as [_ Ep]. destruct (proj2 (filter_subst ta) rs H2) as [Er _].
  unfold sig_filter, sig_subst. cbn [ms_params ms_variadic ms_results]. rewrite (Ep va H3).
  destruct rs as [|r0 rs']; [reflexivity|]. destruct rs' as [|r1 rs''].
  - cbn [tys_subst]. cbn [tys_filter tys_subst] in Er. inversion Er as [E0]. rewrite E0. reflexivity.
  - cbn [tys_subst]. rewrite Er. reflexivity.
Qed.

(* The method filter recorded at a call site equals the method filter the implementing method is named
   with, whenever the signatures are identical and spelled alias-free. *)
Theorem method_filter_agrees : forall targs mp mn s s',
  sig_identical s' (sig_subst targs s) = true ->
  sig_canonical s' = true -> sig_canonical (sig_subst targs s) = true -> sig_wf s = true ->
  meth_filter [] mp mn s' = meth_filter (tys_filter [] targs) mp mn s.
Proof.
  intros targs mp mn s s' Hi Hc Hc' Hw. apply sig_identical_eq in Hi; auto. subst s'.
  unfold meth_filter. rewrite sig_filter_subst; auto.
Qed.

(* ... and since the repair of dce-unexported-method-byte-uint8-spelling-mismatch (filterGen.Type prints the canonical
   name of byte / rune) the historic witness agrees as well: *)
Definition sig_write_byte : msig := {| ms_params := TCons (TSlice (TBasic BByte)) TNil; ms_variadic := false; ms_results := TCons (TBasic BRune) TNil |}.
Definition sig_write_uint8 : msig := {| ms_params := TCons (TSlice (TBasic BUint8)) TNil; ms_variadic := false; ms_results := TCons (TBasic BInt32) TNil |}.

Theorem method_filter_alias_witness_agrees :
  sig_identical sig_write_uint8 (sig_subst TNil sig_write_byte) = true /\ sig_wf sig_write_byte = true /\
  meth_filter [] "main" "write" sig_write_uint8 = meth_filter [] "main" "write" sig_write_byte.
Proof. split; [reflexivity|]. split; reflexivity. Qed.

(* ------------------------------------------------------------------------ *)
(* The recorder covers the references                                         *)

Lemma inst_in_mention : forall p n l, In (obj_filter p n (tys_filter [] l)) (mention_named p n l).
Proof. intros p n l. destruct l; simpl; auto. Qed.

Lemma holder_in_mention : forall p n l, In (obj_filter p n (anys (tys_len l))) (mention_named p n l).
Proof. intros p n l. destruct l; simpl; auto. Qed.

Lemma named_in_mentions :
  (forall a q, In q (named_in a) -> incl (mention_named (fst (fst q)) (snd (fst q)) (snd q)) (mentions a)) /\
  (forall a q, In q (named_in_l a) -> incl (mention_named (fst (fst q)) (snd (fst q)) (snd q)) (mentions_l a)).
Proof.
  apply ty_tys_ind; simpl; intros; try contradiction.
  - destruct H0 as [<-|[]]. simpl. apply incl_refl.
  - auto.
  - auto.
  - apply in_app_or in H1 as [H1|H1]; [apply incl_appl|apply incl_appr]; auto.
  - apply in_app_or in H1 as [H1|H1]; [apply incl_appl|apply incl_appr]; auto.
  - apply in_app_or in H1 as [H1|H1]; [apply incl_appl|apply incl_appr]; auto.
Qed.

Lemma ref_type_mentions : forall r t, ref_type r = Some t -> incl (mentions t) (record r).
Proof.
  intros r t H. destruct r; simpl in H; try discriminate; inversion H; subst; simpl.
  - apply incl_refl.
  - apply incl_appr. apply incl_appr. apply incl_refl.
Qed.

Lemma recv_named_filter : forall recv p n l, recv_named recv = Some (p, n, l) ->
  recv_obj_filter recv = [obj_filter p n (tys_filter [] l)].
Proof.
  induction recv; simpl; intros; try discriminate; auto.
  inversion H; subst; reflexivity.
Qed.

Lemma in_nonempty : forall s, s = "" \/ In s (nonempty s).
Proof. intro s. unfold nonempty. destruct (is_empty s) eqn:E; [left; apply is_empty_true; auto|right; simpl; auto]. Qed.

Lemma compile_from_in : forall p l i j g, nth_error l j = Some g -> In (mk_decl p (i + j) g) (compile_from p i l).
Proof.
  induction l as [|x r IH]; intros i j g H; [destruct j; discriminate|].
  destruct j; simpl in *.
  - inversion H; subst. rewrite Nat.add_0_r. auto.
  - right. replace (i + S j) with (S i + j) by lia. apply IH; auto.
Qed.

Lemma compile_in : forall p i g, nth_error p i = Some g -> In (mk_decl p i g) (compile p).
Proof. intros. apply (compile_from_in p p 0 i g); auto. Qed.

Section Cover.
Variable p : prog.
Hypothesis Hok : prog_ok p = true.

Lemma decl_ok_of : forall g, In g p -> decl_ok p g = true.
Proof. intros g H. unfold prog_ok in Hok. rewrite forallb_forall in Hok. auto. Qed.

Lemma ok_targs : forall g, In g p -> tys_canonical (g_targs g) = true.
Proof. intros g H. apply decl_ok_of in H. unfold decl_ok in H. apply andb_true_iff in H as [H _]. apply andb_true_iff in H as [H _]. auto. Qed.

Lemma ok_ref : forall g r, In g p -> In r (body p g) -> ref_ok r = true.
Proof.
  intros g r H Hr. apply decl_ok_of in H. unfold decl_ok in H. apply andb_true_iff in H as [_ H].
  rewrite forallb_forall in H. auto.
Qed.

Lemma ok_sig : forall g mn s, In g p -> g_kind g = KMethod mn s ->
  sig_wf s = true /\ sig_canonical (sig_subst (g_targs g) s) = true.
Proof.
  intros g mn s H Hk. apply decl_ok_of in H. unfold decl_ok in H. apply andb_true_iff in H as [H _].
  apply andb_true_iff in H as [_ H]. rewrite Hk in H. apply andb_true_iff in H. auto.
Qed.

Lemma canonical_named_in :
  (forall a q, ty_canonical a = true -> In q (named_in a) -> tys_canonical (snd q) = true) /\
  (forall a q, tys_canonical a = true -> In q (named_in_l a) -> tys_canonical (snd q) = true).
Proof.
  apply ty_tys_ind; simpl; intros; try contradiction; auto.
  - destruct H1 as [<-|[]]. simpl. auto.
  - apply andb_true_iff in H1 as [? ?]. apply in_app_or in H2 as [?|?]; eauto.
  - apply andb_true_iff in H1 as [? ?]. apply in_app_or in H2 as [?|?]; eauto.
  - apply andb_true_iff in H1 as [? ?]. apply in_app_or in H2 as [?|?]; eauto.
Qed.

Lemma ref_type_canonical : forall r t, ref_ok r = true -> ref_type r = Some t -> ty_canonical t = true.
Proof.
  intros r t H Ht. destruct r; simpl in Ht; try discriminate; inversion Ht; subst; simpl in H; auto.
  apply andb_true_iff in H as [? ?]; auto.
Qed.

Lemma recv_named_canonical : forall recv q, ty_canonical recv = true -> recv_named recv = Some q -> tys_canonical (snd q) = true.
Proof. induction recv; simpl; intros; try discriminate; auto. inversion H0; subst; auto. Qed.

(* the object filter of the instance named by (p,n,l) *)
Lemma inst_obj : forall g pk n l, In g p -> is_inst pk n l g -> tys_canonical l = true ->
  (forall k, g_kind g <> KHolder k) -> g_obj g = obj_filter pk n (tys_filter [] l).
Proof.
  intros g pk n l Hg (E1 & E2 & E3) Hc Hk.
  assert (g_targs g = l) by (apply (proj2 identical_eq); auto using ok_targs).
  unfold g_obj, targ_filters. subst. destruct (g_kind g); try reflexivity. exfalso; eapply Hk; eauto.
Qed.

Lemma holder_obj : forall g pk n l, is_holder pk n l g -> g_obj g = obj_filter pk n (anys (tys_len l)) /\ g_meth g = "".
Proof. intros g pk n l (E1 & E2 & E3). unfold g_obj, g_meth. rewrite E3. subst. auto. Qed.

(* method declaration g selected statically / matched by the method-set rule: its method filter *)
Lemma method_meth : forall g mn s mp s', In g p -> g_kind g = KMethod mn s ->
  (is_exported mn = false -> mp = g_pkg g) ->
  sig_identical s' (sig_subst (g_targs g) s) = true -> sig_canonical s' = true ->
  g_meth g = "" \/ In (g_meth g) (nonempty (meth_filter [] mp mn s')).
Proof.
  intros g mn s mp s' Hg Hk Hp Hi Hc. destruct (ok_sig g mn s Hg Hk) as [Hw Hcs].
  unfold g_meth. rewrite Hk. unfold targ_filters.
  rewrite <- (method_filter_agrees (g_targs g) (g_pkg g) mn s s'); auto.
  unfold meth_filter. destruct (is_exported mn) eqn:E; [left; reflexivity|].
  rewrite <- (Hp eq_refl). unfold meth_filter in *. pose proof (in_nonempty (mp ++ "." ++ mn ++ sig_filter [] s')) as [->|H]; auto.
Qed.

Definition D (i : nat) (g : gdecl) : decl := mk_decl p i g.

Ltac use_inst_obj g pk n l :=
  let E := fresh "Eo" in
  assert (E : g_obj g = obj_filter pk n (tys_filter [] l))
    by (apply inst_obj; auto; try (intros ? ?; congruence); try (repeat split; auto));
  rewrite E.

Lemma hit_of : forall g i r f, Alive (compile p) (D i g) -> In r (body p g) -> In f (record r) -> Hit (compile p) f.
Proof.
  intros g i r f Ha Hr Hf. eapply H_dep; eauto. unfold D, mk_decl. simpl. apply in_flat_map. eauto.
Qed.

Lemma alive_intro : forall g i, nth_error p i = Some g ->
  Hit (compile p) (g_obj g) -> Hit (compile p) (g_meth g) -> Alive (compile p) (D i g).
Proof.
  intros g i Hn Ho Hm. pose proof (compile_in p i g Hn) as Hin.
  destruct (is_alive (D i g)) eqn:E.
  - apply A_root; auto. unfold is_root. rewrite E. reflexivity.
  - apply A_dep; auto.
Qed.

Lemma hit_empty_or : forall f l, (f = "" \/ In f l) -> (forall x, In x l -> Hit (compile p) x) -> Hit (compile p) f.
Proof. intros f l [->|H] Hl; [constructor|auto]. Qed.

Theorem reach_alive : forall g, Reach p g -> forall i, nth_error p i = Some g -> Alive (compile p) (D i g).
Proof.
  induction 1 as [g Hg Hr | g r g' HR IH Hr Hn Hg' | g r gm g0 r0 HR IH Hr Hd Hgm HR0 IH0 Hr0 Hi]; intros i Hi'.
  - apply A_root; [apply compile_in; auto|]. unfold is_root, is_alive, D, mk_decl. simpl. rewrite Hr. reflexivity.
  - assert (Hg : In g p) by (clear - HR; induction HR; auto).
    destruct (In_nth_error _ _ Hg) as [j Hj]. specialize (IH j Hj).
    pose proof (ok_ref g r Hg Hr) as Hrok.
    apply alive_intro; auto.
    + (* object filter *)
      inversion Hn; subst.
      * simpl in Hrok. use_inst_obj g' p0 n l.
        eapply hit_of; eauto. simpl. apply inst_in_mention.
      * destruct (holder_obj _ _ _ _ H) as [-> _]. eapply hit_of; eauto. simpl. apply holder_in_mention.
      * unfold g_obj, targ_filters. rewrite H, H2. simpl. eapply hit_of; eauto. simpl. auto.
      * pose proof (ref_type_canonical _ _ Hrok H) as Hc.
        pose proof (proj1 canonical_named_in _ _ Hc H0) as Hc'. simpl in Hc'.
        use_inst_obj g' p0 n l.
        eapply hit_of; eauto. apply (ref_type_mentions _ _ H).
        apply (proj1 named_in_mentions _ _ H0). simpl. apply inst_in_mention.
      * destruct (holder_obj _ _ _ _ H1) as [-> _]. eapply hit_of; eauto. apply (ref_type_mentions _ _ H).
        apply (proj1 named_in_mentions _ _ H0). simpl. apply holder_in_mention.
      * destruct H as (p0 & n & l & s & Hrn & Hk & Hinst & Hmp & Hsi).
        simpl in Hrok. apply andb_true_iff in Hrok as [Hc1 Hc2].
        pose proof (recv_named_canonical _ _ Hc1 Hrn) as Hc'. simpl in Hc'.
        use_inst_obj g' p0 n l.
        eapply hit_of; eauto. simpl. rewrite (recv_named_filter _ _ _ _ Hrn). simpl. auto.
    + (* method filter *)
      inversion Hn; subst; try (unfold g_meth; rewrite H; constructor);
        try (unfold g_meth; rewrite H1; constructor).
      * destruct (holder_obj _ _ _ _ H) as [_ ->]. constructor.
      * destruct (holder_obj _ _ _ _ H1) as [_ ->]. constructor.
      * destruct H as (p0 & n & l & s & Hrn & Hk & Hinst & Hmp & Hsi).
        simpl in Hrok. apply andb_true_iff in Hrok as [Hc1 Hc2].
        eapply hit_empty_or; [eapply (method_meth g' mn s mp s'); eauto|].
        intros x Hx. eapply hit_of; eauto. simpl. apply in_or_app. right. apply in_or_app. left. auto.
  - assert (Hg : In g p) by (clear - HR; induction HR; auto).
    assert (Hg0 : In g0 p) by (clear - HR0; induction HR0; auto).
    destruct (In_nth_error _ _ Hg) as [j Hj]. specialize (IH j Hj).
    destruct (In_nth_error _ _ Hg0) as [j0 Hj0]. specialize (IH0 j0 Hj0).
    pose proof (ok_ref g r Hg Hr) as Hrok. pose proof (ok_ref g0 r0 Hg0 Hr0) as Hrok0.
    assert (Hkm : exists mn s, g_kind gm = KMethod mn s).
    { inversion Hd; subst.
      - destruct H as (? & ? & ? & s & _ & Hk & _). eauto.
      - destruct H as (s & Hk & _). eauto.
      - destruct H as (s & Hk & _). eauto. }
    destruct Hkm as (mn0 & s0 & Hk0).
    apply alive_intro; auto.
    + (* object filter: from the mention that instantiates the receiver type *)
      destruct Hi as (t & l & Ht & Hin & Hid).
      pose proof (ref_type_canonical _ _ Hrok0 Ht) as Hc.
      pose proof (proj1 canonical_named_in _ _ Hc Hin) as Hc'. simpl in Hc'.
      assert (Eo : g_obj gm = obj_filter (g_pkg gm) (g_name gm) (tys_filter [] l)).
      { apply inst_obj; auto. repeat split; auto. intros k Hk; congruence. }
      rewrite Eo.
      eapply (hit_of g0); eauto. apply (ref_type_mentions _ _ Ht).
      apply (proj1 named_in_mentions _ _ Hin). simpl. apply inst_in_mention.
    + (* method filter: from the call *)
      inversion Hd; subst.
      * destruct H as (p0 & n & l & s & Hrn & Hk & Hinst & Hmp & Hsi).
        simpl in Hrok. destruct (is_exported mn) eqn:Ee.
        -- unfold g_meth. rewrite Hk. unfold meth_filter. rewrite Ee. constructor.
        -- apply andb_true_iff in Hrok as [Hc1 Hc2].
           eapply hit_empty_or; [eapply (method_meth gm mn s mp s'); eauto|].
           intros x Hx. eapply (hit_of g); eauto. simpl. rewrite Ee. apply in_or_app. right. apply in_or_app. right. auto.
      * destruct H as (s & Hk & Hmp & Hsi). simpl in Hrok. destruct (is_exported mn) eqn:Ee.
        -- unfold g_meth. rewrite Hk. unfold meth_filter. rewrite Ee. constructor.
        -- eapply hit_empty_or; [eapply (method_meth gm mn s mp s'); eauto|].
           intros x Hx. eapply (hit_of g); eauto. simpl. rewrite Ee. apply in_or_app. right. auto.
      * destruct H as (s & Hk & Hmp & Hsi). simpl in Hrok.
        eapply hit_empty_or; [eapply (method_meth gm mn s mp s'); eauto|].
        intros x Hx. eapply (hit_of g); eauto. simpl. apply in_or_app. right. auto.
Qed.

Theorem reach_selected : forall g i, Reach p g -> nth_error p i = Some g ->
  exists ids, select (compile p) = Some ids /\ In (N.of_nat i) ids.
Proof.
  intros g i HR Hn. destruct (select_spec (compile p)) as (ids & Hs & Hi). exists ids. split; auto.
  apply Hi. exists (D i g). split; [apply reach_alive; auto|reflexivity].
Qed.
End Cover.
