(* C06 — $mul64 (schoolbook multiplication on 16-bit digits) computes the product modulo 2^64, for all operands. *)
From Coq Require Import ZArith Znumtheory Bool List Lia ZifyBool.
From Verif Require Import Base.C06_JsNum Model.C06_Prelude64 Model.C06_Spec Gen.C06_Tables Model.C06_Templates
  Proofs.C06_Arith Proofs.C06_Fix Proofs.C06_Ops64.
Import ListNotations.
Local Open Scope Z_scope.
Ltac Zify.zify_post_hook ::= Z.div_mod_to_equations.

Lemma land_shift_disjoint : forall a b n, 0 <= n -> 0 <= b < 2 ^ n -> Z.land (a * 2 ^ n) b = 0.
Proof.
  intros a b n Hn Hb. apply Z.bits_inj'; intros i Hi. rewrite Z.land_spec, Z.bits_0.
  destruct (Z_lt_le_dec i n).
  - rewrite Z.mul_pow2_bits_low by lia. reflexivity.
  - replace b with (b mod 2 ^ n) by (apply Z.mod_small; lia). rewrite Z.mod_pow2_bits_high by lia. apply andb_false_r.
Qed.
Lemma lor_shift_add : forall a b n, 0 <= n -> 0 <= b < 2 ^ n -> Z.lor (a * 2 ^ n) b = a * 2 ^ n + b.
Proof.
  intros a b n Hn Hb. pose proof (land_shift_disjoint a b n Hn Hb) as D.
  rewrite (Z.add_nocarry_lxor _ _ D). symmetry. apply Z.lxor_lor. exact D.
Qed.

Lemma lo16_eq : forall v, lo16 v = v mod 65536.
Proof.
  intro v. unfold lo16, and32. change (to_int32 65535) with (Z.ones 16). rewrite Z.land_ones by lia.
  change 65536 with (2 ^ 16).
  rewrite <- (mod_mod_pow (to_int32 v) 16 32) by lia. rewrite <- (mod_mod_pow v 16 32) by lia.
  rewrite <- two32_eq, to_int32_mod. reflexivity.
Qed.
Lemma hi16_eq : forall v, hi16 v = (v mod two32) / 65536.
Proof. intro v. unfold hi16, ushr32. rewrite cnt_small by lia. rewrite Z.shiftr_div_pow2 by lia. reflexivity. Qed.

Lemma join16 : forall a b, 0 <= a < 65536 -> 0 <= b < 65536 -> to_uint32 (or32 (shl32 a 16) b) = a * 65536 + b.
Proof.
  intros a b Ha Hb. unfold to_uint32, or32, shl32. rewrite cnt_small by lia. rewrite two32_eq, lor_mod by lia.
  rewrite <- two32_eq. rewrite !to_int32_mod. rewrite (to_int32_id a) by (unfold two31; lia).
  change (2 ^ 16) with 65536. rewrite (Z.mod_small (a * 65536)), (Z.mod_small b) by (unfold two32; lia).
  change 65536 with (2 ^ 16) at 1. apply lor_shift_add; lia.
Qed.

(* the arithmetic core: digits in [0, 2^16) *)
Lemma schoolbook : forall a0 a1 a2 a3 b0 b1 b2 b3,
  0 <= a0 < 65536 -> 0 <= a1 < 65536 -> 0 <= a2 < 65536 -> 0 <= a3 < 65536 ->
  0 <= b0 < 65536 -> 0 <= b1 < 65536 -> 0 <= b2 < 65536 -> 0 <= b3 < 65536 ->
  let p0 := a0 * b0 in
  let s1 := p0 / 65536 + a1 * b0 in
  let s2 := s1 mod 65536 + a0 * b1 in
  let s3 := s1 / 65536 + s2 / 65536 + a2 * b0 in
  let s4 := s3 mod 65536 + a1 * b1 in
  let s5 := s4 mod 65536 + a0 * b2 in
  let s6 := s3 / 65536 + s4 / 65536 + s5 / 65536 + (a3 * b0 + a2 * b1 + a1 * b2 + a0 * b3) in
  (((s6 mod 65536) * 65536 + s5 mod 65536) * 4294967296 + ((s2 mod 65536) * 65536 + p0 mod 65536)) mod 18446744073709551616 =
  (((a3 * 65536 + a2) * 4294967296 + (a1 * 65536 + a0)) * ((b3 * 65536 + b2) * 4294967296 + (b1 * 65536 + b0))) mod 18446744073709551616.
Proof.
  intros a0 a1 a2 a3 b0 b1 b2 b3 A0 A1 A2 A3 B0 B1 B2 B3 p0 s1 s2 s3 s4 s5 s6.
  set (R := ((s6 mod 65536) * 65536 + s5 mod 65536) * 4294967296 + ((s2 mod 65536) * 65536 + p0 mod 65536)).
  set (t := s6 / 65536 + a3 * b1 + a2 * b2 + a1 * b3 + 65536 * (a3 * b2 + a2 * b3) + 4294967296 * (a3 * b3)).
  assert (E : ((a3 * 65536 + a2) * 4294967296 + (a1 * 65536 + a0)) * ((b3 * 65536 + b2) * 4294967296 + (b1 * 65536 + b0))
              = R + 18446744073709551616 * t).
  { pose proof (Z.div_mod p0 65536 ltac:(lia)) as D0. pose proof (Z.div_mod s1 65536 ltac:(lia)) as D1.
    pose proof (Z.div_mod s2 65536 ltac:(lia)) as D2. pose proof (Z.div_mod s3 65536 ltac:(lia)) as D3.
    pose proof (Z.div_mod s4 65536 ltac:(lia)) as D4. pose proof (Z.div_mod s5 65536 ltac:(lia)) as D5.
    pose proof (Z.div_mod s6 65536 ltac:(lia)) as D6.
    unfold R, t.
    set (q0 := p0 / 65536) in *. set (r0 := p0 mod 65536) in *.
    set (q1 := s1 / 65536) in *. set (r1 := s1 mod 65536) in *.
    set (q2 := s2 / 65536) in *. set (r2 := s2 mod 65536) in *.
    set (q3 := s3 / 65536) in *. set (r3 := s3 mod 65536) in *.
    set (q4 := s4 / 65536) in *. set (r4 := s4 mod 65536) in *.
    set (q5 := s5 / 65536) in *. set (r5 := s5 mod 65536) in *.
    set (q6 := s6 / 65536) in *. set (r6 := s6 mod 65536) in *.
    unfold s6, s5, s4, s3, s2, s1, p0 in *.
    clearbody q0 r0 q1 r1 q2 r2 q3 r3 q4 r4 q5 r5 q6 r6.
    clear - D0 D1 D2 D3 D4 D5 D6. lia. }
  rewrite E. rewrite (Z.mul_comm 18446744073709551616 t). symmetry. apply Z_mod_plus_full.
Qed.

Lemma dig_mul_bound : forall a b, 0 <= a < 65536 -> 0 <= b < 65536 -> 0 <= a * b <= 4294836225.
Proof. intros a b Ha Hb. nia. Qed.
Lemma hi16_small : forall v, 0 <= v < two32 -> hi16 v = v / 65536.
Proof. intros v H. rewrite hi16_eq, Z.mod_small by assumption. reflexivity. Qed.

Lemma mul64_value : forall tr sg sg' xh xl yh yl,
  0 <= xl < two32 -> 0 <= yl < two32 ->
  mul64 tr (O64 sg xh xl) (O64 sg' yh yl) =
  enc64 (k64 sg) (wrap (k64 sg) (((xh mod two32) * two32 + xl) * ((yh mod two32) * two32 + yl))).
Proof.
  intros tr sg sg' xh xl yh yl Hxl Hyl. unfold mul64. cbv zeta. rewrite !lo16_eq.
  rewrite (hi16_eq xh), (hi16_eq yh), (hi16_small xl), (hi16_small yl) by assumption.
  set (XH := xh mod two32). set (YH := yh mod two32).
  assert (HX : 0 <= XH < two32) by (apply Z.mod_pos_bound; reflexivity).
  assert (HY : 0 <= YH < two32) by (apply Z.mod_pos_bound; reflexivity).
  replace (xh mod 65536) with (XH mod 65536) by (unfold XH; rewrite two32_eq; change 65536 with (2 ^ 16); apply mod_mod_pow; lia).
  replace (yh mod 65536) with (YH mod 65536) by (unfold YH; rewrite two32_eq; change 65536 with (2 ^ 16); apply mod_mod_pow; lia).
  pose proof (Z.div_mod XH 65536 ltac:(lia)) as EX. pose proof (Z.div_mod xl 65536 ltac:(lia)) as Ex.
  pose proof (Z.div_mod YH 65536 ltac:(lia)) as EY. pose proof (Z.div_mod yl 65536 ltac:(lia)) as Ey.
  set (a3 := XH / 65536) in *. set (a2 := XH mod 65536) in *. set (a1 := xl / 65536) in *. set (a0 := xl mod 65536) in *.
  set (b3 := YH / 65536) in *. set (b2 := YH mod 65536) in *. set (b1 := yl / 65536) in *. set (b0 := yl mod 65536) in *.
  assert (A0 : 0 <= a0 < 65536) by (unfold a0; apply Z.mod_pos_bound; lia).
  assert (A2 : 0 <= a2 < 65536) by (unfold a2; apply Z.mod_pos_bound; lia).
  assert (B0 : 0 <= b0 < 65536) by (unfold b0; apply Z.mod_pos_bound; lia).
  assert (B2 : 0 <= b2 < 65536) by (unfold b2; apply Z.mod_pos_bound; lia).
  assert (A1 : 0 <= a1 < 65536) by (unfold two32 in *; clearbody a1 a0; lia).
  assert (A3 : 0 <= a3 < 65536) by (unfold two32 in *; clearbody a3 a2; lia).
  assert (B1 : 0 <= b1 < 65536) by (unfold two32 in *; clearbody b1 b0; lia).
  assert (B3 : 0 <= b3 < 65536) by (unfold two32 in *; clearbody b3 b2; lia).
  clearbody a0 a1 a2 a3 b0 b1 b2 b3.
  pose proof (dig_mul_bound a0 b0 A0 B0) as M00. pose proof (dig_mul_bound a1 b0 A1 B0) as M10.
  pose proof (dig_mul_bound a0 b1 A0 B1) as M01. pose proof (dig_mul_bound a2 b0 A2 B0) as M20.
  pose proof (dig_mul_bound a1 b1 A1 B1) as M11. pose proof (dig_mul_bound a0 b2 A0 B2) as M02.
  set (p0 := a0 * b0) in *. set (m10 := a1 * b0) in *. set (m01 := a0 * b1) in *.
  set (m20 := a2 * b0) in *. set (m11 := a1 * b1) in *. set (m02 := a0 * b2) in *.
  rewrite (hi16_small p0) by (unfold two32; lia).
  set (s1 := p0 / 65536 + m10).
  assert (S1 : 0 <= s1 < two32) by (unfold s1, two32; clearbody p0 m10; lia).
  rewrite (hi16_small s1) by assumption.
  set (s2 := s1 mod 65536 + m01).
  assert (S2 : 0 <= s2 < two32) by (unfold s2, two32 in *; clearbody s1 m01; lia).
  rewrite (hi16_small s2) by assumption.
  set (s3 := s1 / 65536 + s2 / 65536 + m20).
  assert (S3 : 0 <= s3 < two32) by (unfold s3, two32 in *; clearbody s1 s2 m20; lia).
  rewrite (hi16_small s3) by assumption.
  set (s4 := s3 mod 65536 + m11).
  assert (S4 : 0 <= s4 < two32) by (unfold s4, two32 in *; clearbody s3 m11; lia).
  rewrite (hi16_small s4) by assumption.
  set (s5 := s4 mod 65536 + m02).
  assert (S5 : 0 <= s5 < two32) by (unfold s5, two32 in *; clearbody s4 m02; lia).
  rewrite (hi16_small s5) by assumption.
  set (s6 := s3 / 65536 + s4 / 65536 + s5 / 65536 + (a3 * b0 + a2 * b1 + a1 * b2 + a0 * b3)).
  rewrite !join16 by (apply Z.mod_pos_bound; lia).
  pose proof (Z.mod_pos_bound s6 65536 ltac:(lia)) as R6. pose proof (Z.mod_pos_bound s5 65536 ltac:(lia)) as R5.
  pose proof (Z.mod_pos_bound s2 65536 ltac:(lia)) as R2. pose proof (Z.mod_pos_bound p0 65536 ltac:(lia)) as R0.
  unfold new64. rewrite new64_norm by (unfold two32, two53; clearbody s6 s5 s2 p0; lia).
  f_equal. apply wrap_congr.
  replace (bits (k64 sg)) with 64 by (destruct sg; reflexivity). change (2 ^ 64) with 18446744073709551616.
  rewrite EX, Ex, EY, Ey. unfold two32.
  replace (65536 * a3 + a2) with (a3 * 65536 + a2) by ring. replace (65536 * a1 + a0) with (a1 * 65536 + a0) by ring.
  replace (65536 * b3 + b2) with (b3 * 65536 + b2) by ring. replace (65536 * b1 + b0) with (b1 * 65536 + b0) by ring.
  exact (schoolbook a0 a1 a2 a3 b0 b1 b2 b3 A0 A1 A2 A3 B0 B1 B2 B3).
Qed.

(* $mul64 on the representations of two values of a 64-bit kind is the representation of the wrapped product *)
Lemma mul64_correct : forall tr k x y, is64 k = true ->
  mul64 tr (enc64 k x) (enc64 k y) = enc64 k (wrap k (x * y)).
Proof.
  intros tr k x y H.
  change (enc64 k x) with (O64 (signed k) (x / two32) (x mod two32)).
  change (enc64 k y) with (O64 (signed k) (y / two32) (y mod two32)).
  rewrite mul64_value by (apply Z.mod_pos_bound; reflexivity).
  rewrite k64_signed by assumption. f_equal. apply wrap_congr.
  replace (bits k) with 64 by (destruct k; try discriminate H; reflexivity). change (2 ^ 64) with 18446744073709551616.
  rewrite Zmult_mod, (Zmult_mod x y). f_equal. f_equal; unfold two32; lia.
Qed.

Lemma mul64_bin_correct : forall V k x y, is64 k = true ->
  bin64 V k Mul (enc64 k x) (enc64 k y) = Ret (enc64 k (wrap k (x * y))).
Proof. intros V k x y H. cbn [bin64]. rewrite mul64_correct by assumption. reflexivity. Qed.
