(* C18 phase 4 — proofs about the build-constraint LANGUAGE model
   (Model/C18_Constraint.v): monotonicity of evaluation, the reading of
   // +build lines, the //go:build -> // +build conversion, and the
   print / lex / parse round trip. *)
From Coq Require Import List String Ascii Bool Arith Lia.
From Verif Require Import Gen.C18_BuildEnv Model.C18_Build Model.C18_Constraint Model.C18_ConstraintNF.
Import ListNotations.
Local Open Scope string_scope.

(* ====================================================================== *)
(* T1. evaluation is monotone in the tags of positive position            *)
(* ====================================================================== *)

Lemma eval_monotone_aux : forall e (s s' : string -> bool),
  (forall t, In t (pos_tags e) -> s t = true -> s' t = true) ->
  (forall t, In t (neg_tags e) -> s' t = true -> s t = true) ->
  eval s e = true -> eval s' e = true.
Proof.
  induction e as [t|x IH|x IHx y IHy|x IHx y IHy]; intros s s' Hp Hn; cbn [eval pos_tags neg_tags] in *.
  - apply Hp. left. reflexivity.
  - intros H. apply negb_true_iff in H. apply negb_true_iff.
    destruct (eval s' x) eqn:E; [|reflexivity].
    rewrite (IH s' s Hn Hp E) in H. discriminate.
  - intros H. apply andb_true_iff in H. destruct H as [H1 H2]. apply andb_true_iff. split.
    + apply (IHx s s'); [| |exact H1]; intros t It; [apply Hp|apply Hn]; apply in_or_app; left; exact It.
    + apply (IHy s s'); [| |exact H2]; intros t It; [apply Hp|apply Hn]; apply in_or_app; right; exact It.
  - intros H. apply orb_true_iff in H. apply orb_true_iff. destruct H as [H|H]; [left|right].
    + apply (IHx s s'); [| |exact H]; intros t It; [apply Hp|apply Hn]; apply in_or_app; left; exact It.
    + apply (IHy s s'); [| |exact H]; intros t It; [apply Hp|apply Hn]; apply in_or_app; right; exact It.
Qed.

Theorem eval_monotone : forall (s s' : string -> bool) e,
  (forall t, In t (pos_tags e) -> s t = true -> s' t = true) ->
  (forall t, In t (neg_tags e) -> s' t = true -> s t = true) ->
  eval s e = true -> eval s' e = true.
Proof. intros s s' e. apply eval_monotone_aux. Qed.

Theorem eval_not_monotone_in_general : exists e s s',
  (forall t, s t = true -> s' t = true) /\ eval s e = true /\ eval s' e = false.
Proof.
  exists (Not (Tag "a")), (fun _ => false), (fun _ => true).
  split; [intros; reflexivity|]. split; reflexivity.
Qed.

(* ====================================================================== *)
(* T2. a // +build line read through constraint.Parse = documented reading *)
(* ====================================================================== *)

Lemma eval_fold_or : forall sat l x,
  eval sat (fold_left Or l x) = eval sat x || existsb (eval sat) l.
Proof.
  intros sat l. induction l as [|y l IH]; intros x; cbn [fold_left existsb].
  - rewrite orb_false_r. reflexivity.
  - rewrite IH. cbn [eval]. rewrite orb_assoc. reflexivity.
Qed.

Lemma eval_fold_and : forall sat l x,
  eval sat (fold_left And l x) = eval sat x && forallb (eval sat) l.
Proof.
  intros sat l. induction l as [|y l IH]; intros x; cbn [fold_left forallb].
  - rewrite andb_true_r. reflexivity.
  - rewrite IH. cbn [eval]. rewrite andb_assoc. reflexivity.
Qed.

Lemma plus_lit_term : forall sat l, eval sat (plus_lit l) = pterm_ok sat (plus_term l).
Proof.
  intros sat l. unfold plus_lit, plus_term.
  destruct (has_prefix "!!" l || (l =? "!")); [reflexivity|].
  destruct (strip_prefix "!" l) as [w|].
  - destruct (valid_tag w); reflexivity.
  - destruct (valid_tag l); reflexivity.
Qed.

Lemma split_on_nonempty : forall sep s, split_on sep s <> [].
Proof.
  intros sep s. destruct s as [|c r]; cbn [split_on]; [discriminate|].
  destruct (Ascii.eqb c sep); [discriminate|]. destruct (split_on sep r); discriminate.
Qed.

Lemma plus_clause_ok : forall sat c,
  eval sat (plus_clause c) = forallb (pterm_ok sat) (map plus_term (split_on "," c)).
Proof.
  intros sat c. unfold plus_clause. pose proof (split_on_nonempty "," c) as N.
  destruct (split_on "," c) as [|l ls]; [contradiction|]. cbn [map fold_op forallb].
  rewrite eval_fold_and, plus_lit_term. f_equal.
  clear N. induction ls as [|a ls IH]; [reflexivity|]. cbn [map forallb]. rewrite plus_lit_term, IH. reflexivity.
Qed.

Theorem parse_plus_expr_equiv : forall sat text,
  eval sat (parse_plus_expr text) = pline_ok sat (plus_pline text).
Proof.
  intros sat text. unfold parse_plus_expr, plus_pline.
  destruct (fields text) as [|c cs]; [reflexivity|].
  cbn [map fold_op pline_ok existsb]. rewrite eval_fold_or, plus_clause_ok. f_equal.
  induction cs as [|a cs IH]; [reflexivity|]. cbn [map existsb]. rewrite plus_clause_ok, IH. reflexivity.
Qed.

(* ====================================================================== *)
(* T3. //go:build -> // +build lines preserves the meaning                 *)
(* ====================================================================== *)

Lemma eval_push_not : forall sat x neg,
  eval sat (push_not x neg) = if neg then negb (eval sat x) else eval sat x.
Proof.
  intros sat x. induction x as [t|y IH|a IHa b IHb|a IHa b IHb]; intros neg.
  - destruct neg; reflexivity.
  - cbn [push_not].
    destruct y as [t|z|a b|a b]; destruct neg; cbn [negb];
      try reflexivity; rewrite IH; cbn [eval]; try rewrite negb_involutive; reflexivity.
  - cbn [push_not]. destruct neg; cbn [eval]; rewrite IHa, IHb; [rewrite negb_andb|]; reflexivity.
  - cbn [push_not]. destruct neg; cbn [eval]; rewrite IHa, IHb; [rewrite negb_orb|]; reflexivity.
Qed.

Lemma eval_split_and : forall sat x, eval sat x = forallb (eval sat) (split_and x).
Proof.
  intros sat x. induction x as [t|y IH|a IHa b IHb|a IHa b IHb]; cbn [split_and forallb eval];
    try (rewrite andb_true_r; reflexivity).
  rewrite forallb_app, <- IHa, <- IHb. reflexivity.
Qed.

Lemma eval_split_or : forall sat x, eval sat x = existsb (eval sat) (split_or x).
Proof.
  intros sat x. induction x as [t|y IH|a IHa b IHb|a IHa b IHb]; cbn [split_or existsb eval];
    try (rewrite orb_false_r; reflexivity).
  rewrite existsb_app, <- IHa, <- IHb. reflexivity.
Qed.

Lemma split_and_nonempty : forall x, split_and x <> [].
Proof.
  induction x as [t|y IH|a IHa b IHb|a IHa b IHb]; cbn [split_and]; try discriminate.
  destruct (split_and a); [contradiction | discriminate].
Qed.

Lemma split_or_nonempty : forall x, split_or x <> [].
Proof.
  induction x as [t|y IH|a IHa b IHb|a IHa b IHb]; cbn [split_or]; try discriminate.
  destruct (split_or a); [contradiction | discriminate].
Qed.

Lemma lit_term_ok : forall sat x t, lit_term x = Some t -> eval sat x = pterm_ok sat t.
Proof.
  intros sat x t H. destruct x as [u|y|a b|a b]; try discriminate.
  - injection H as <-. reflexivity.
  - destruct y; try discriminate. injection H as <-. reflexivity.
Qed.

Lemma all_some_map : forall {A B} (f : A -> option B) l r,
  all_some (map f l) = Some r -> Forall2 (fun a b => f a = Some b) l r.
Proof.
  intros A B f l. induction l as [|a l IH]; intros r H; cbn [map all_some] in H.
  - injection H as <-. constructor.
  - destruct (f a) as [b|] eqn:E; [|discriminate].
    destruct (all_some (map f l)) as [r'|]; [|discriminate]. injection H as <-.
    constructor; [exact E | apply IH; reflexivity].
Qed.

Lemma Forall2_forallb : forall {A B} (R : A -> B -> Prop) (P : A -> bool) (Q : B -> bool) l r,
  (forall a b, R a b -> P a = Q b) -> Forall2 R l r -> forallb P l = forallb Q r.
Proof.
  intros A B R P Q l r H F. induction F as [|a b l r Hab F IH]; [reflexivity|].
  cbn [forallb]. rewrite (H a b Hab), IH. reflexivity.
Qed.

Lemma Forall2_existsb : forall {A B} (R : A -> B -> Prop) (P : A -> bool) (Q : B -> bool) l r,
  (forall a b, R a b -> P a = Q b) -> Forall2 R l r -> existsb P l = existsb Q r.
Proof.
  intros A B R P Q l r H F. induction F as [|a b l r Hab F IH]; [reflexivity|].
  cbn [existsb]. rewrite (H a b Hab), IH. reflexivity.
Qed.

(* an AND of literals *)
Lemma and_level : forall sat a ts,
  all_some (map lit_term (split_and a)) = Some ts -> eval sat a = forallb (pterm_ok sat) ts.
Proof.
  intros sat a ts H. rewrite eval_split_and. apply all_some_map in H.
  apply (Forall2_forallb _ _ _ _ _ (lit_term_ok sat) H).
Qed.

(* an OR of ANDs of literals: a non-empty line *)
Lemma or_level : forall sat o pl,
  all_some (map (fun a => all_some (map lit_term (split_and a))) (split_or o)) = Some pl ->
  pl <> [] /\ eval sat o = pline_ok sat pl.
Proof.
  intros sat o pl H. apply all_some_map in H.
  assert (N : pl <> []).
  { pose proof (split_or_nonempty o) as N. inversion H; subst; [congruence | discriminate]. }
  split; [exact N|]. rewrite eval_split_or.
  rewrite (Forall2_existsb _ _ (fun opt => forallb (pterm_ok sat) opt) _ _ (and_level sat) H).
  destruct pl; [contradiction | reflexivity].
Qed.

Lemma plus_split_sound : forall sat x split, plus_split x = Some split ->
  Forall (fun pl => pl <> []) split /\ forallb (pline_ok sat) split = eval sat x.
Proof.
  intros sat x split H. unfold plus_split in H. apply all_some_map in H.
  assert (E : eval sat x = eval sat (push_not x false)) by (rewrite eval_push_not; reflexivity).
  rewrite E, (eval_split_and sat (push_not x false)). clear E.
  induction H as [|o pl l r Hab F IH].
  - split; [constructor | reflexivity].
  - destruct IH as [IH1 IH2]. destruct (or_level sat o pl Hab) as [N Eo]. split.
    + constructor; assumption.
    + cbn [forallb]. rewrite IH2, Eo. reflexivity.
Qed.

Lemma merge_singletons : forall sat (split : list pline),
  Forall (fun pl => pl <> []) split ->
  fold_right Nat.max 0 (map (@List.length _) split) <= 1 ->
  forallb (pline_ok sat) split =
  forallb (pterm_ok sat) (List.concat (map (fun o : pline => match o with a :: _ => a | [] => [] end) split)).
Proof.
  intros sat split F. induction F as [|pl l N F IH]; intros Hm; [reflexivity|].
  cbn [map fold_right] in Hm.
  assert (H1 : List.length pl <= 1) by lia.
  assert (H2 : fold_right Nat.max 0 (map (@List.length _) l) <= 1) by lia.
  cbn [map List.concat forallb]. rewrite forallb_app, <- (IH H2).
  destruct pl as [|a [|b pl]]; [contradiction| |cbn [List.length] in H1; lia].
  cbn [pline_ok existsb]. rewrite orb_false_r. reflexivity.
Qed.

Theorem plus_build_plines_sound : forall x ls, plus_build_plines x = Some ls ->
  forall sat, forallb (pline_ok sat) ls = eval sat x.
Proof.
  intros x ls H sat. unfold plus_build_plines in H.
  destruct (plus_split x) as [split|] eqn:Es; [|discriminate].
  destruct (plus_split_sound sat x split Es) as [N E].
  destruct (Nat.leb _ 1) eqn:El.
  - injection H as <-. apply Nat.leb_le in El.
    rewrite <- E, (merge_singletons sat split N El).
    cbn [forallb pline_ok existsb]. rewrite orb_false_r, andb_true_r. reflexivity.
  - injection H as <-. exact E.
Qed.

(* ====================================================================== *)
(* T4. parsing the tokens of a printed normal form gives it back           *)
(* ====================================================================== *)

Lemma p_or_S : forall n ts, p_or (S n) ts =
  match p_and n ts with Some (x, r) => p_or_loop n x r | None => None end.
Proof. reflexivity. Qed.
Lemma p_and_S : forall n ts, p_and (S n) ts =
  match p_not n ts with Some (x, r) => p_and_loop n x r | None => None end.
Proof. reflexivity. Qed.
Lemma p_or_loop_or : forall n x r, p_or_loop (S n) x (TOr :: r) =
  match p_and n r with Some (y, r') => p_or_loop n (Or x y) r' | None => None end.
Proof. reflexivity. Qed.
Lemma p_and_loop_and : forall n x r, p_and_loop (S n) x (TAnd :: r) =
  match p_not n r with Some (y, r') => p_and_loop n (And x y) r' | None => None end.
Proof. reflexivity. Qed.

Definition no_and (r : list tok) : Prop := match r with TAnd :: _ => False | _ => True end.
Definition no_or (r : list tok) : Prop := match r with TOr :: _ => False | _ => True end.

Lemma p_and_loop_done : forall n x r, no_and r -> p_and_loop (S n) x r = Some (x, r).
Proof. intros n x r H. destruct r as [|[] r]; try reflexivity. contradiction. Qed.
Lemma p_or_loop_done : forall n x r, no_or r -> p_or_loop (S n) x r = Some (x, r).
Proof. intros n x r H. destruct r as [|[] r]; try reflexivity. contradiction. Qed.

Lemma p_not_lp : forall n r, p_not (S n) (TLp :: r) = p_atom n (TLp :: r).
Proof. reflexivity. Qed.
Lemma p_not_tag : forall n t r, p_not (S (S n)) (TTag t :: r) = Some (Tag t, r).
Proof. reflexivity. Qed.
Lemma p_not_not_lp : forall n r, p_not (S n) (TNot :: TLp :: r) =
  match p_atom n (TLp :: r) with Some (x, r') => Some (Not x, r') | None => None end.
Proof. reflexivity. Qed.
Lemma p_not_not_tag : forall n t r, p_not (S (S n)) (TNot :: TTag t :: r) = Some (Not (Tag t), r).
Proof. reflexivity. Qed.
Lemma p_atom_lp : forall n r, p_atom (S n) (TLp :: r) =
  match p_or n r with Some (x, TRp :: r') => Some (x, r') | _ => None end.
Proof. reflexivity. Qed.

(* the token forms of an operand of !, of && and of || *)
Definition ntoks (e : cexpr) : list tok := tparen (is_and e || is_or e) (toks e).
Definition antoks (e : cexpr) : list tok := tparen (is_or e) (toks e).
Definition ortoks (e : cexpr) : list tok := tparen (is_and e) (toks e).

(* length of the left spine of && / || *)
Fixpoint dand (e : cexpr) : nat := match e with And x _ => S (dand x) | _ => 0 end.
Fixpoint dor (e : cexpr) : nat := match e with Or x _ => S (dor x) | _ => 0 end.

Lemma len_tparen : forall b l, List.length (tparen b l) = (if b then 2 else 0) + List.length l.
Proof. intros [|] l; cbn [tparen List.length]; [rewrite app_length; cbn; lia | reflexivity]. Qed.

Lemma dand_le : forall e, dand e <= List.length (toks e).
Proof.
  induction e as [t|x IH|x IHx y IHy|x IHx y IHy]; cbn [dand toks]; try lia.
  rewrite app_length, len_tparen. cbn [List.length]. lia.
Qed.
Lemma dor_le : forall e, dor e <= List.length (toks e).
Proof.
  induction e as [t|x IH|x IHx y IHy|x IHx y IHy]; cbn [dor toks]; try lia.
  rewrite app_length, len_tparen. cbn [List.length]. lia.
Qed.

Definition PA (e : cexpr) : Prop := forall n rest,
  6 * List.length (ntoks e) <= n -> p_not n (ntoks e ++ rest) = Some (e, rest).
Definition PB (e : cexpr) : Prop := forall k rest,
  6 * List.length (antoks e) <= k + dand e ->
  p_and (S (dand e + k)) (antoks e ++ rest) = p_and_loop k e rest.
Definition PC3 (e : cexpr) : Prop := forall k rest,
  6 * List.length (ortoks e) + 1 <= k + dor e -> no_and rest ->
  p_or (S (dor e + k)) (ortoks e ++ rest) = p_or_loop k e rest.
Definition PC (e : cexpr) : Prop := forall n rest,
  6 * List.length (toks e) + 2 <= n -> no_and rest -> no_or rest ->
  p_or n (toks e ++ rest) = Some (e, rest).

Lemma toks_pos : forall e, 1 <= List.length (toks e).
Proof. intros [t|x|x y|x y]; cbn [toks List.length]; try lia; rewrite app_length; cbn [List.length]; lia. Qed.

Lemma dand_nonand : forall e, is_and e = false -> dand e = 0.
Proof. intros [] H; try reflexivity. discriminate. Qed.
Lemma dor_nonor : forall e, is_or e = false -> dor e = 0.
Proof. intros [] H; try reflexivity. discriminate. Qed.

Lemma PB_nonand : forall e, is_and e = false -> PA e -> PB e.
Proof.
  intros e He HA k rest H. unfold PA, ntoks in HA. unfold antoks in *.
  rewrite He in HA. cbn [orb] in HA. rewrite (dand_nonand e He) in *.
  cbn [plus]. rewrite p_and_S, HA; [reflexivity | lia].
Qed.

Lemma PC3_nonor : forall e, is_or e = false -> PA e -> PC3 e.
Proof.
  intros e He HA k rest H Hr. unfold PA, ntoks in HA. unfold ortoks in *.
  rewrite He, orb_false_r in HA. rewrite (dor_nonor e He) in *.
  pose proof (toks_pos e) as P. pose proof (len_tparen (is_and e) (toks e)) as LT.
  cbn [plus]. rewrite p_or_S. destruct k as [|k]; [lia|].
  rewrite p_and_S, HA by lia. destruct k as [|k]; [lia|].
  rewrite p_and_loop_done by exact Hr. reflexivity.
Qed.

Lemma PC_and : forall e, is_and e = true -> PB e -> PC e.
Proof.
  intros e He HB n rest H Hr1 Hr2. unfold PB, antoks in HB.
  assert (Ho : is_or e = false) by (destruct e; try discriminate; reflexivity).
  rewrite Ho in HB. cbn [tparen] in HB. pose proof (dand_le e) as D. pose proof (toks_pos e) as P.
  destruct n as [|n]; [lia|]. rewrite p_or_S.
  replace n with (S (dand e + (n - 1 - dand e))) at 1 by lia.
  rewrite HB by lia.
  destruct (n - 1 - dand e) as [|k] eqn:Ek; [lia|].
  rewrite p_and_loop_done by exact Hr1.
  destruct n as [|n]; [lia|]. apply p_or_loop_done. exact Hr2.
Qed.

Lemma PC_nonand : forall e, is_and e = false -> PC3 e -> PC e.
Proof.
  intros e He HC n rest H Hr1 Hr2. unfold PC3, ortoks in HC.
  rewrite He in HC. cbn [tparen] in HC. pose proof (dor_le e) as D.
  replace n with (S (dor e + (n - 1 - dor e))) by lia.
  rewrite HC; [|lia|exact Hr1].
  destruct (n - 1 - dor e) as [|k] eqn:Ek; [lia|].
  apply p_or_loop_done. exact Hr2.
Qed.

Lemma atom_paren : forall e, PC e -> forall n rest,
  6 * List.length (toks e) + 3 <= n -> p_atom n (TLp :: toks e ++ TRp :: rest) = Some (e, rest).
Proof.
  intros e HC n rest H. destruct n as [|n]; [lia|].
  rewrite p_atom_lp, HC; [reflexivity|lia|exact I|exact I].
Qed.

Lemma PA_paren : forall e, is_and e || is_or e = true -> PC e -> PA e.
Proof.
  intros e He HC n rest H. unfold ntoks in *. rewrite He in *. cbn [tparen] in *.
  cbn [List.length] in H. rewrite app_length in H. cbn [List.length] in H.
  cbn [app]. rewrite <- app_assoc. cbn [app].
  destruct n as [|n]; [lia|]. rewrite p_not_lp. apply atom_paren; [exact HC | lia].
Qed.

Lemma PA_tag : forall t, PA (Tag t).
Proof.
  intros t n rest H. cbn in H. destruct n as [|[|n]]; try lia. reflexivity.
Qed.

Lemma PA_not : forall x, is_not x = false -> PC x -> PA (Not x).
Proof.
  intros x Hx HC n rest H.
  change (ntoks (Not x)) with (TNot :: ntoks x) in *. cbn [List.length] in H.
  unfold ntoks in *. destruct (is_and x || is_or x) eqn:Hp.
  - cbn [tparen] in *. cbn [List.length] in H. rewrite app_length in H. cbn [List.length] in H.
    cbn [app]. rewrite <- app_assoc. cbn [app].
    destruct n as [|n]; [lia|]. rewrite p_not_not_lp, (atom_paren x HC); [reflexivity | lia].
  - destruct x as [t|y|a b|a b]; try discriminate. cbn [tparen toks app].
    cbn in H. destruct n as [|[|n]]; try lia. apply p_not_not_tag.
Qed.

Lemma PB_and : forall x y, is_and y = false -> PB x -> PA y -> PB (And x y).
Proof.
  intros x y Hy HBx HAy k rest H.
  assert (E : antoks (And x y) = (antoks x ++ TAnd :: ntoks y)%list).
  { unfold antoks, ntoks. rewrite Hy. reflexivity. }
  rewrite E in *. change (dand (And x y)) with (S (dand x)) in *.
  rewrite app_length in H. cbn [List.length] in H. pose proof (dand_le x) as D.
  assert (D' : List.length (toks x) <= List.length (antoks x)) by (unfold antoks; rewrite len_tparen; lia).
  rewrite <- app_assoc. cbn [app].
  replace (S (S (dand x) + k)) with (S (dand x + S k)) by lia.
  rewrite HBx by lia. rewrite p_and_loop_and, HAy by lia. reflexivity.
Qed.

Lemma PC3_or : forall x y, is_or y = false -> PC3 x -> PA y -> PC3 (Or x y).
Proof.
  intros x y Hy HCx HAy k rest H Hr.
  assert (E : ortoks (Or x y) = (ortoks x ++ TOr :: ntoks y)%list).
  { unfold ortoks, ntoks. rewrite Hy, orb_false_r. reflexivity. }
  rewrite E in *. change (dor (Or x y)) with (S (dor x)) in *.
  rewrite app_length in H. cbn [List.length] in H. pose proof (dor_le x) as D.
  assert (D' : List.length (toks x) <= List.length (ortoks x)) by (unfold ortoks; rewrite len_tparen; lia).
  rewrite <- app_assoc. cbn [app].
  replace (S (S (dor x) + k)) with (S (dor x + S k)) by lia.
  rewrite HCx; [|lia|exact I]. rewrite p_or_loop_or.
  destruct k as [|k]; [lia|]. rewrite p_and_S, HAy by lia.
  destruct k as [|k]; [lia|]. rewrite p_and_loop_done by exact Hr. reflexivity.
Qed.

Lemma parse_inv : forall e, nf e = true -> PA e /\ PB e /\ PC3 e /\ PC e.
Proof.
  induction e as [t|x IH|x IHx y IHy|x IHx y IHy]; cbn [nf]; intros H.
  - pose proof (PA_tag t) as A.
    pose proof (PC3_nonor (Tag t) eq_refl A) as C3.
    repeat split; [exact A | apply PB_nonand; [reflexivity | exact A] | exact C3 | apply PC_nonand; [reflexivity | exact C3]].
  - apply andb_true_iff in H. destruct H as [H1 H2]. apply negb_true_iff in H1.
    destruct (IH H2) as (_ & _ & _ & Cx).
    pose proof (PA_not x H1 Cx) as A.
    pose proof (PC3_nonor (Not x) eq_refl A) as C3.
    repeat split; [exact A | apply PB_nonand; [reflexivity | exact A] | exact C3 | apply PC_nonand; [reflexivity | exact C3]].
  - apply andb_true_iff in H. destruct H as [H H3]. apply andb_true_iff in H. destruct H as [H1 H2].
    apply negb_true_iff in H3.
    destruct (IHx H1) as (_ & Bx & _ & _). destruct (IHy H2) as (Ay & _ & _ & _).
    pose proof (PB_and x y H3 Bx Ay) as B.
    pose proof (PC_and (And x y) eq_refl B) as C.
    pose proof (PA_paren (And x y) eq_refl C) as A.
    repeat split; [exact A | exact B | apply PC3_nonor; [reflexivity | exact A] | exact C].
  - apply andb_true_iff in H. destruct H as [H H3]. apply andb_true_iff in H. destruct H as [H1 H2].
    apply negb_true_iff in H3.
    destruct (IHx H1) as (_ & _ & C3x & _). destruct (IHy H2) as (Ay & _ & _ & _).
    pose proof (PC3_or x y H3 C3x Ay) as C3.
    pose proof (PC_nonand (Or x y) eq_refl C3) as C.
    pose proof (PA_paren (Or x y) eq_refl C) as A.
    repeat split; [exact A | apply PB_nonand; [reflexivity | exact A] | exact C3 | exact C].
Qed.

Theorem parse_toks_roundtrip : forall e, nf e = true -> parse_toks (toks e) = Some e.
Proof.
  intros e H. destruct (parse_inv e H) as (_ & _ & _ & C).
  unfold parse_toks, parse_fuel.
  pose proof (C (6 * List.length (toks e) + 6) [] ltac:(lia) I I) as E.
  rewrite app_nil_r in E. rewrite E. reflexivity.
Qed.

(* ====================================================================== *)
(* T5. lexing a printed expression gives its tokens                        *)
(* ====================================================================== *)

Lemma sapp_assoc : forall a b c : string, (a ++ b) ++ c = a ++ (b ++ c).
Proof. induction a as [|ch a IH]; intros b c; cbn [String.append]; [reflexivity | rewrite IH; reflexivity]. Qed.
Lemma sapp_nil_r : forall a : string, a ++ "" = a.
Proof. induction a as [|ch a IH]; cbn [String.append]; [reflexivity | rewrite IH; reflexivity]. Qed.
Lemma slen_app : forall a b : string, String.length (a ++ b) = String.length a + String.length b.
Proof. induction a as [|ch a IH]; intros b; cbn [String.append String.length]; [reflexivity | rewrite IH; reflexivity]. Qed.

(* with enough fuel, s lexes to ts *)
Definition LexOK (s : string) (ts : list tok) : Prop :=
  forall n, String.length s <= n -> lex_fuel n s = Some ts.

(* s is empty or starts with a character that ends a tag *)
Definition cont_ok (s : string) : Prop :=
  match s with EmptyString => True | String c _ => is_tag_char c = false end.

Lemma LexOK_nil : LexOK "" [].
Proof. intros [|n] _; reflexivity. Qed.

Lemma LexOK_blank : forall r ts, LexOK r ts -> LexOK (String " " r) ts.
Proof.
  intros r ts H n Hn. cbn [String.length] in Hn. destruct n as [|n]; [lia|].
  change (lex_fuel (S n) (String " " r)) with (lex_fuel n r). apply H. lia.
Qed.
Lemma LexOK_lp : forall r ts, LexOK r ts -> LexOK (String "(" r) (TLp :: ts).
Proof.
  intros r ts H n Hn. cbn [String.length] in Hn. destruct n as [|n]; [lia|].
  change (lex_fuel (S n) (String "(" r)) with (option_map (cons TLp) (lex_fuel n r)).
  rewrite H by lia. reflexivity.
Qed.
Lemma LexOK_rp : forall r ts, LexOK r ts -> LexOK (String ")" r) (TRp :: ts).
Proof.
  intros r ts H n Hn. cbn [String.length] in Hn. destruct n as [|n]; [lia|].
  change (lex_fuel (S n) (String ")" r)) with (option_map (cons TRp) (lex_fuel n r)).
  rewrite H by lia. reflexivity.
Qed.
Lemma LexOK_not : forall r ts, LexOK r ts -> LexOK (String "!" r) (TNot :: ts).
Proof.
  intros r ts H n Hn. cbn [String.length] in Hn. destruct n as [|n]; [lia|].
  change (lex_fuel (S n) (String "!" r)) with (option_map (cons TNot) (lex_fuel n r)).
  rewrite H by lia. reflexivity.
Qed.
Lemma LexOK_andand : forall r ts, LexOK r ts -> LexOK (String "&" (String "&" r)) (TAnd :: ts).
Proof.
  intros r ts H n Hn. cbn [String.length] in Hn. destruct n as [|n]; [lia|].
  change (lex_fuel (S n) (String "&" (String "&" r))) with (option_map (cons TAnd) (lex_fuel n r)).
  rewrite H by lia. reflexivity.
Qed.
Lemma LexOK_oror : forall r ts, LexOK r ts -> LexOK (String "|" (String "|" r)) (TOr :: ts).
Proof.
  intros r ts H n Hn. cbn [String.length] in Hn. destruct n as [|n]; [lia|].
  change (lex_fuel (S n) (String "|" (String "|" r))) with (option_map (cons TOr) (lex_fuel n r)).
  rewrite H by lia. reflexivity.
Qed.

Lemma LexOK_and : forall r ts, LexOK r ts -> LexOK (" && " ++ r) (TAnd :: ts).
Proof.
  intros r ts H. change (" && " ++ r) with (String " " (String "&" (String "&" (String " " r)))).
  apply LexOK_blank, LexOK_andand, LexOK_blank, H.
Qed.
Lemma LexOK_or : forall r ts, LexOK r ts -> LexOK (" || " ++ r) (TOr :: ts).
Proof.
  intros r ts H. change (" || " ++ r) with (String " " (String "|" (String "|" (String " " r)))).
  apply LexOK_blank, LexOK_oror, LexOK_blank, H.
Qed.

(* a tag character is none of the characters the lexer treats specially *)
Lemma tag_char_not_special : forall c, is_tag_char c = true ->
  is_blank c = false /\ Ascii.eqb c "(" = false /\ Ascii.eqb c ")" = false /\
  Ascii.eqb c "!" = false /\ Ascii.eqb c "&" = false /\ Ascii.eqb c "|" = false.
Proof.
  intros c H. unfold is_blank. rewrite orb_false_iff.
  repeat split;
    (match goal with |- Ascii.eqb c ?d = false =>
       destruct (Ascii.eqb c d) eqn:E; [apply Ascii.eqb_eq in E; subst c; vm_compute in H; discriminate | reflexivity] end).
Qed.

Lemma span_tag_app : forall t r, all_tag_chars t = true -> cont_ok r -> span_tag (t ++ r) = (t, r).
Proof.
  induction t as [|c t IH]; intros r Ht Hr.
  - cbn [String.append]. destruct r as [|d r]; [reflexivity|]. cbn [span_tag]. cbn [cont_ok] in Hr. rewrite Hr. reflexivity.
  - cbn [all_tag_chars] in Ht. apply andb_true_iff in Ht. destruct Ht as [Hc Ht].
    cbn [String.append span_tag]. rewrite Hc, (IH r Ht Hr). reflexivity.
Qed.

Lemma LexOK_tag : forall t r ts, valid_tag t = true -> cont_ok r -> LexOK r ts -> LexOK (t ++ r) (TTag t :: ts).
Proof.
  intros t r ts Hv Hr H n Hn. unfold valid_tag in Hv. apply andb_true_iff in Hv. destruct Hv as [Hne Ht].
  destruct t as [|c t]; [discriminate|]. clear Hne.
  pose proof (span_tag_app _ r Ht Hr) as Sp.
  cbn [all_tag_chars] in Ht. apply andb_true_iff in Ht. destruct Ht as [Hc Ht].
  destruct (tag_char_not_special c Hc) as (B & E1 & E2 & E3 & E4 & E5).
  rewrite slen_app in Hn. cbn [String.length] in Hn. destruct n as [|n]; [lia|].
  cbn [String.append] in *. cbn [lex_fuel]. rewrite B, E1, E2, E3, E4, E5, Sp.
  rewrite H by lia. reflexivity.
Qed.

Definition LexK (s : string) (ts : list tok) : Prop :=
  forall k kt, cont_ok k -> LexOK k kt -> LexOK (s ++ k) (ts ++ kt)%list.

Lemma LexK_paren : forall b s ts, LexK s ts -> LexK (paren b s) (tparen b ts).
Proof.
  intros [|] s ts H; [|exact H]. intros k kt Hk Hl. cbn [paren tparen].
  change ("(" ++ s ++ ")") with (String "(" (s ++ ")")).
  cbn [String.append app]. rewrite sapp_assoc, <- app_assoc.
  apply LexOK_lp. apply H; [exact eq_refl|]. cbn [String.append app]. apply LexOK_rp. exact Hl.
Qed.

Lemma lex_print_gen : forall e, tags_valid e = true -> LexK (print e) (toks e).
Proof.
  induction e as [t|x IH|x IHx y IHy|x IHx y IHy]; cbn [tags_valid]; intros Hv.
  - intros k kt Hk Hl. cbn [print toks app]. apply LexOK_tag; assumption.
  - intros k kt Hk Hl. cbn [print toks].
    change ("!" ++ paren (is_and x || is_or x) (print x)) with (String "!" (paren (is_and x || is_or x) (print x))).
    cbn [String.append app]. apply LexOK_not. apply LexK_paren; [apply IH; exact Hv | exact Hk | exact Hl].
  - apply andb_true_iff in Hv. destruct Hv as [H1 H2].
    intros k kt Hk Hl. cbn [print toks]. rewrite sapp_assoc, <- app_assoc.
    apply LexK_paren; [apply IHx; exact H1 | exact eq_refl |].
    rewrite sapp_assoc. cbn [app]. apply LexOK_and.
    apply LexK_paren; [apply IHy; exact H2 | exact Hk | exact Hl].
  - apply andb_true_iff in Hv. destruct Hv as [H1 H2].
    intros k kt Hk Hl. cbn [print toks]. rewrite sapp_assoc, <- app_assoc.
    apply LexK_paren; [apply IHx; exact H1 | exact eq_refl |].
    rewrite sapp_assoc. cbn [app]. apply LexOK_or.
    apply LexK_paren; [apply IHy; exact H2 | exact Hk | exact Hl].
Qed.

Theorem lex_print : forall e, tags_valid e = true -> lex (print e) = Some (toks e).
Proof.
  intros e Hv. pose proof (lex_print_gen e Hv "" [] I LexOK_nil) as H.
  rewrite sapp_nil_r, app_nil_r in H. unfold lex. apply H. lia.
Qed.

(* ====================================================================== *)
(* T6. print then parse                                                    *)
(* ====================================================================== *)

Theorem parse_print_roundtrip : forall e, nf e = true -> tags_valid e = true ->
  parse_expr (print e) = Some e.
Proof.
  intros e Hn Hv. unfold parse_expr. rewrite (lex_print e Hv). apply parse_toks_roundtrip. exact Hn.
Qed.

(* ====================================================================== *)
(* T7. the shape of parser results                                         *)
(* ====================================================================== *)

(* The statement "parse_toks ts = Some e -> nf e = true" does NOT hold: an operand
   in parentheses is returned as it is, so "!(!a)" gives Not (Not a) and
   "a && (b && c)" gives And a (And b c). *)
Theorem parse_toks_nf_refuted : ~ (forall ts e, parse_toks ts = Some e -> nf e = true).
Proof.
  intros H.
  specialize (H [TNot; TLp; TNot; TTag "a"; TRp] (Not (Not (Tag "a"))) eq_refl). discriminate.
Qed.

Theorem parse_toks_nf_refuted_and : exists ts e, parse_toks ts = Some e /\ nf e = false /\
  ts = [TTag "a"; TAnd; TLp; TTag "b"; TAnd; TTag "c"; TRp].
Proof.
  exists [TTag "a"; TAnd; TLp; TTag "b"; TAnd; TTag "c"; TRp], (And (Tag "a") (And (Tag "b") (Tag "c"))).
  split; [reflexivity|]. split; reflexivity.
Qed.

(* consequences for Expr.String: the text printed for a parsed expression need not
   parse again, and when it does it may parse to a different tree *)
Theorem print_parse_not_retraction : exists s x,
  parse_expr s = Some x /\ parse_expr (print x) = None.
Proof. exists "!(!a)", (Not (Not (Tag "a"))). split; vm_compute; reflexivity. Qed.

Theorem print_of_parsed_may_reparse_differently : exists s e e',
  parse_expr s = Some e /\ parse_expr (print e) = Some e' /\ e <> e'.
Proof.
  exists "a && (b && c)", (And (Tag "a") (And (Tag "b") (Tag "c"))), (And (And (Tag "a") (Tag "b")) (Tag "c")).
  split; [vm_compute; reflexivity|]. split; [vm_compute; reflexivity | discriminate].
Qed.

(* what does hold: without parentheses the result is a normal form *)
Definition nolp (t : tok) : bool := match t with TLp => false | _ => true end.
Definition np (ts : list tok) : bool := forallb nolp ts.
Definition is_tag (x : cexpr) : bool := match x with Tag _ => true | _ => false end.
Definition is_lit (x : cexpr) : bool := match x with Tag _ => true | Not y => is_tag y | _ => false end.
Fixpoint andch (x : cexpr) : bool := match x with And a b => andch a && is_lit b | _ => is_lit x end.
Fixpoint orch (x : cexpr) : bool := match x with Or a b => orch a && andch b | _ => andch x end.

Lemma is_lit_nf : forall x, is_lit x = true -> nf x = true /\ is_and x = false /\ is_or x = false.
Proof.
  intros [t|y|a b|a b] H; try discriminate; [repeat split|].
  destruct y; try discriminate. repeat split.
Qed.

Lemma andch_nf : forall x, andch x = true -> nf x = true /\ is_or x = false.
Proof.
  induction x as [t|y IH|a IHa b IHb|a IHa b IHb]; intros H.
  - repeat split.
  - destruct (is_lit_nf _ H) as (N & _ & O). split; assumption.
  - cbn [andch] in H. apply andb_true_iff in H. destruct H as [H1 H2].
    destruct (IHa H1) as [Na _]. destruct (is_lit_nf _ H2) as (Nb & Ab & _).
    cbn [nf is_or]. rewrite Na, Nb, Ab. split; reflexivity.
  - discriminate.
Qed.

Lemma orch_nf : forall x, orch x = true -> nf x = true.
Proof.
  induction x as [t|y IH|a IHa b IHb|a IHa b IHb]; intros H.
  - reflexivity.
  - apply andch_nf in H. apply H.
  - apply andch_nf in H. apply H.
  - cbn [orch] in H. apply andb_true_iff in H. destruct H as [H1 H2].
    destruct (andch_nf _ H2) as [Nb Ob]. cbn [nf]. rewrite (IHa H1), Nb, Ob. reflexivity.
Qed.

Lemma is_tag_lit : forall x, is_tag x = true -> is_lit x = true.
Proof. intros [] H; try discriminate; reflexivity. Qed.
Lemma is_lit_andch : forall x, is_lit x = true -> andch x = true.
Proof. intros [] H; try discriminate; exact H. Qed.
Lemma andch_orch : forall x, andch x = true -> orch x = true.
Proof. intros [] H; try discriminate; exact H. Qed.

Lemma p_not_S : forall n ts, p_not (S n) ts =
  match ts with
  | TNot :: TNot :: _ => None
  | TNot :: r => match p_atom n r with Some (x, r') => Some (Not x, r') | None => None end
  | _ => p_atom n ts
  end.
Proof. reflexivity. Qed.
Lemma p_atom_S : forall n ts, p_atom (S n) ts =
  match ts with
  | TLp :: r => match p_or n r with Some (x, TRp :: r') => Some (x, r') | _ => None end
  | TTag s :: r => Some (Tag s, r)
  | _ => None
  end.
Proof. reflexivity. Qed.
Lemma p_and_loop_S : forall n x ts, p_and_loop (S n) x ts =
  match ts with
  | TAnd :: r => match p_not n r with Some (y, r') => p_and_loop n (And x y) r' | None => None end
  | _ => Some (x, ts)
  end.
Proof. reflexivity. Qed.
Lemma p_or_loop_S : forall n x ts, p_or_loop (S n) x ts =
  match ts with
  | TOr :: r => match p_and n r with Some (y, r') => p_or_loop n (Or x y) r' | None => None end
  | _ => Some (x, ts)
  end.
Proof. reflexivity. Qed.

Lemma noparen_inv : forall n,
  (forall ts x r, np ts = true -> p_atom n ts = Some (x, r) -> is_tag x = true /\ np r = true) /\
  (forall ts x r, np ts = true -> p_not n ts = Some (x, r) -> is_lit x = true /\ np r = true) /\
  (forall ts x0 x r, np ts = true -> andch x0 = true -> p_and_loop n x0 ts = Some (x, r) -> andch x = true /\ np r = true) /\
  (forall ts x r, np ts = true -> p_and n ts = Some (x, r) -> andch x = true /\ np r = true) /\
  (forall ts x0 x r, np ts = true -> orch x0 = true -> p_or_loop n x0 ts = Some (x, r) -> orch x = true /\ np r = true) /\
  (forall ts x r, np ts = true -> p_or n ts = Some (x, r) -> orch x = true /\ np r = true).
Proof.
  induction n as [|n (IA & IN & IAL & IAN & IOL & IO)].
  - repeat split; discriminate.
  - assert (HA : forall ts x r, np ts = true -> p_atom (S n) ts = Some (x, r) -> is_tag x = true /\ np r = true).
    { intros ts x r Hnp H. rewrite p_atom_S in H.
      destruct ts as [|[] ts]; try discriminate.
      injection H as <- <-. split; [reflexivity | exact Hnp]. }
    assert (HN : forall ts x r, np ts = true -> p_not (S n) ts = Some (x, r) -> is_lit x = true /\ np r = true).
    { intros ts x r Hnp H. rewrite p_not_S in H.
      assert (G : forall ts', np ts' = true -> p_atom n ts' = Some (x, r) -> is_lit x = true /\ np r = true).
      { intros ts' Hnp' H'. destruct (IA _ _ _ Hnp' H') as [T R]. split; [apply is_tag_lit; exact T | exact R]. }
      destruct ts as [|t ts]; [apply (G _ Hnp H)|].
      destruct t; try (apply (G _ Hnp H)).
      assert (Hnp' : np ts = true) by exact Hnp.
      assert (G' : match p_atom n ts with Some (x, r') => Some (Not x, r') | None => None end = Some (x, r) ->
                   is_lit x = true /\ np r = true).
      { destruct (p_atom n ts) as [[x' r']|] eqn:E; [|discriminate]. intros H'. injection H' as <- <-.
        destruct (IA _ _ _ Hnp' E) as [T R]. split; [exact T | exact R]. }
      destruct ts as [|t' ts']; [apply G'; exact H|]. destruct t'; try discriminate; apply G'; exact H. }
    assert (HAL : forall ts x0 x r, np ts = true -> andch x0 = true -> p_and_loop (S n) x0 ts = Some (x, r) -> andch x = true /\ np r = true).
    { intros ts x0 x r Hnp H0 H. rewrite p_and_loop_S in H.
      destruct ts as [|t ts]; [injection H as <- <-; split; assumption|].
      destruct t; try (injection H as <- <-; split; assumption).
      assert (Hnp' : np ts = true) by exact Hnp.
      destruct (p_not n ts) as [[y r']|] eqn:E; [|discriminate].
      destruct (IN _ _ _ Hnp' E) as [Ly R].
      apply (IAL _ _ _ _ R) in H; [exact H|]. cbn [andch]. rewrite H0, Ly. reflexivity. }
    assert (HAN : forall ts x r, np ts = true -> p_and (S n) ts = Some (x, r) -> andch x = true /\ np r = true).
    { intros ts x r Hnp H. rewrite p_and_S in H.
      destruct (p_not n ts) as [[y r']|] eqn:E; [|discriminate].
      destruct (IN _ _ _ Hnp E) as [Ly R].
      apply (IAL _ _ _ _ R (is_lit_andch _ Ly) H). }
    assert (HOL : forall ts x0 x r, np ts = true -> orch x0 = true -> p_or_loop (S n) x0 ts = Some (x, r) -> orch x = true /\ np r = true).
    { intros ts x0 x r Hnp H0 H. rewrite p_or_loop_S in H.
      destruct ts as [|t ts]; [injection H as <- <-; split; assumption|].
      destruct t; try (injection H as <- <-; split; assumption).
      assert (Hnp' : np ts = true) by exact Hnp.
      destruct (p_and n ts) as [[y r']|] eqn:E; [|discriminate].
      destruct (IAN _ _ _ Hnp' E) as [Ly R].
      apply (IOL _ _ _ _ R) in H; [exact H|]. cbn [orch]. rewrite H0, Ly. reflexivity. }
    assert (HO : forall ts x r, np ts = true -> p_or (S n) ts = Some (x, r) -> orch x = true /\ np r = true).
    { intros ts x r Hnp H. rewrite p_or_S in H.
      destruct (p_and n ts) as [[y r']|] eqn:E; [|discriminate].
      destruct (IAN _ _ _ Hnp E) as [Ly R].
      apply (IOL _ _ _ _ R (andch_orch _ Ly) H). }
    exact (conj HA (conj HN (conj HAL (conj HAN (conj HOL HO))))).
Qed.

Theorem parse_toks_nf_noparen : forall ts e, np ts = true -> parse_toks ts = Some e -> nf e = true.
Proof.
  intros ts e Hnp H. unfold parse_toks in H.
  destruct (p_or (parse_fuel ts) ts) as [[x r]|] eqn:E; [|discriminate].
  destruct r; [|discriminate]. injection H as <-.
  destruct (noparen_inv (parse_fuel ts)) as (_ & _ & _ & _ & _ & IO).
  apply orch_nf. apply (IO _ _ _ Hnp E).
Qed.
