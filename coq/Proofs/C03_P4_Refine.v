(* C03 phase 4 — refinement of the reference LTS (Model/C03_Spec.v) by the implementation model, step by step. *)
From Coq Require Import List NArith ZArith Bool Arith Lia.
From RecordUpdate Require Import RecordSet.
From Verif Require Import Model.C03_Chan Model.C03_Spec Model.C03_Abs Proofs.C03_Chan.
Import ListNotations RecordSetNotations.

(* one implementation step = the spec steps [actions_of], same events, between the abstractions *)
Definition refines_step (fx : variant) (prog : program) (st : state) : Prop :=
  ssteps prog (abs st) (actions_of fx prog st)
  = Some (abs (impl_step fx prog st), new_events st (impl_step fx prog st)).

(* the goroutine that runs exists, has not exited and is not registered as blocked *)
Definition run_wf (st : state) : Prop :=
  forall g, md st = MRun g -> g < length (gors st) /\ g_exit (get_g st g) = false /\ g_blocked (get_g st g) = None.

(* ---------------------------------------------------------------- abs and the primitives *)
Lemma map_upd {A B} (f : A -> B) l n x : map f (upd l n x) = upd (map f l) n (f x).
Proof. revert n; induction l; intros [|n]; simpl; auto. now rewrite IHl. Qed.

Lemma upd_same {A} (l : list A) n d : upd l n (nth n l d) = l.
Proof. revert n; induction l; intros [|n]; simpl; auto. now rewrite IHl. Qed.

Lemma upd_same_or {A} (l : list A) n x d : (n < length l -> x = nth n l d) -> upd l n x = l.
Proof. revert n; induction l; intros [|n] H; simpl in *; auto. rewrite H by lia; auto. rewrite IHl; auto. intros; apply H; lia. Qed.

Lemma abs_frame st st' : chans st' = chans st -> map abs_g (gors st') = map abs_g (gors st) -> abs st' = abs st.
Proof. unfold abs. intros -> ->. reflexivity. Qed.

Lemma abs_set_g st g x : abs (set_g st g x) = sset_g (abs st) g (abs_g x).
Proof. unfold abs, set_g, sset_g. simpl. now rewrite map_upd. Qed.

Lemma abs_set_chan st c ch : abs (set_chan st c ch) = sset_c (abs st) c (abs_c ch).
Proof. unfold abs, set_chan, sset_c. simpl. now rewrite map_upd. Qed.

Lemma abs_dead : abs_g dead_gor = sdead. Proof. reflexivity. Qed.
Lemma abs_nil : abs_c nil_chan = snil_chan. Proof. reflexivity. Qed.

Lemma sget_g_abs st g : sget_g (abs st) g = abs_g (get_g st g).
Proof. unfold sget_g, get_g, abs. simpl. rewrite <- abs_dead. apply map_nth. Qed.

Lemma sget_c_abs st c : sget_c (abs st) c = abs_c (get_chan st c).
Proof. unfold sget_c, get_chan, abs. simpl. rewrite <- abs_nil. apply map_nth. Qed.

Lemma sset_g_same s g : sset_g s g (sget_g s g) = s.
Proof. destruct s. unfold sset_g, sget_g. simpl. now rewrite upd_same. Qed.

(* changing only the asleep flag is invisible *)
Lemma abs_g_asleep x b : abs_g (x <| g_asleep := b |>) = abs_g x.
Proof. destruct x; reflexivity. Qed.

Lemma abs_set_asleep st g b : abs (set_g st g (get_g st g <| g_asleep := b |>)) = abs st.
Proof. rewrite abs_set_g, abs_g_asleep, <- sget_g_abs. apply sset_g_same. Qed.

Lemma abs_fields st st' : chans st' = chans st -> gors st' = gors st -> abs st' = abs st.
Proof. intros H1 H2. apply abs_frame; auto. now rewrite H2. Qed.

Lemma abs_schedule g st : abs (schedule g st) = abs st.
Proof.
  unfold schedule. destruct (g_asleep (get_g st g)).
  - transitivity (abs (set_g st g (get_g st g <| g_asleep := false |>))); [apply abs_fields; reflexivity | apply abs_set_asleep].
  - apply abs_fields; reflexivity.
Qed.

Lemma abs_end_pass st : abs (end_pass st) = abs st.
Proof. unfold end_pass. destruct (scheduled st); apply abs_fields; reflexivity. Qed.

Lemma abs_start_pass st : abs (start_pass st) = abs st.
Proof. apply abs_fields; reflexivity. Qed.

Lemma abs_yield g st : abs (yield g st) = abs st.
Proof.
  unfold yield.
  set (st1 := if g_exit (get_g st g) then _ else st).
  assert (A1 : abs st1 = abs st).
  { unfold st1. destruct (g_exit (get_g st g)); auto.
    transitivity (abs (set_g st g (get_g st g <| g_asleep := true |>))); [apply abs_fields; reflexivity | apply abs_set_asleep]. }
  set (st2 := if g_asleep (get_g st1 g) then _ else st1).
  assert (A2 : abs st2 = abs st).
  { unfold st2. destruct (g_asleep (get_g st1 g)); [|exact A1]. rewrite <- A1. apply abs_fields; reflexivity. }
  destruct (_ && _ && _).
  - rewrite <- A2. apply abs_fields; reflexivity.
  - destruct (hd false (breaks st2)).
    + rewrite abs_end_pass. rewrite <- A2. apply abs_fields; reflexivity.
    + rewrite <- A2. apply abs_fields; reflexivity.
Qed.

Lemma trace_end_pass st : trace (end_pass st) = trace st.
Proof. unfold end_pass. destruct (scheduled st); reflexivity. Qed.

Lemma trace_yield g st : trace (yield g st) = trace st.
Proof.
  unfold yield.
  set (st1 := if g_exit (get_g st g) then _ else st).
  assert (A1 : trace st1 = trace st) by (unfold st1; destruct (g_exit (get_g st g)); auto).
  set (st2 := if g_asleep (get_g st1 g) then _ else st1).
  assert (A2 : trace st2 = trace st) by (unfold st2; destruct (g_asleep (get_g st1 g)); auto).
  destruct (_ && _ && _); auto. destruct (hd false (breaks st2)); [rewrite trace_end_pass|]; auto.
Qed.

Lemma new_events_same st st' : trace st' = trace st -> new_events st st' = [].
Proof. unfold new_events. intros ->. now rewrite Nat.sub_diag. Qed.

Lemma new_events_one st st' x : trace st' = x :: trace st -> new_events st st' = [x].
Proof.
  unfold new_events. intros ->. simpl length.
  replace (S (length (trace st)) - length (trace st)) with 1 by lia. reflexivity.
Qed.

(* a step that changes nothing the spec sees and logs nothing is a stutter *)
Lemma stutter fx prog st : actions_of fx prog st = [] -> abs (impl_step fx prog st) = abs st ->
  trace (impl_step fx prog st) = trace st -> refines_step fx prog st.
Proof. unfold refines_step. intros -> -> E. simpl. now rewrite new_events_same. Qed.

(* ---------------------------------------------------------------- scheduler steps *)
Lemma refines_halted fx prog st o : halted st = Some o -> refines_step fx prog st.
Proof. intros H. apply stutter; unfold actions_of, impl_step; rewrite H; auto. Qed.

Lemma refines_pass fx prog st : halted st = None -> md st = MPass -> refines_step fx prog st.
Proof.
  intros H M. apply stutter; unfold actions_of, impl_step; rewrite H, M; auto.
  - destruct (scheduled st); [apply abs_end_pass | apply abs_fields; reflexivity].
  - destruct (scheduled st); [apply trace_end_pass | reflexivity].
Qed.

Lemma refines_idle_norun fx prog st : halted st = None -> md st = MIdle ->
  (forall g ts, timers st <> TWake g :: ts) -> refines_step fx prog st.
Proof.
  intros H M T. apply stutter; unfold actions_of, impl_step, fire_timer; rewrite H, M;
    (destruct (timers st) as [|[id|g] ts] eqn:E; [ | | exfalso; exact (T _ _ eq_refl) ]); auto.
Qed.

(* ---------------------------------------------------------------- steps of the running goroutine that involve no partner *)
Lemma impl_step_run fx prog st g : halted st = None -> md st = MRun g -> impl_step fx prog st = step_goroutine fx prog g st.
Proof. intros H M. unfold impl_step. now rewrite H, M. Qed.

(* st' is st with goroutine g replaced by y (and fields the abstraction does not see) *)
Definition loc (st : state) (g : gid) (y : gor) (st' : state) : Prop :=
  chans st' = chans st /\ gors st' = upd (gors st) g y.

Lemma abs_loc st g y st' : loc st g y st' -> abs st' = sset_g (abs st) g (abs_g y).
Proof. intros [C G]. unfold abs, sset_g. simpl. now rewrite C, G, map_upd. Qed.

Lemma loc_set_code st g y st1 s : g < length (gors st) -> loc st g y st1 -> loc st g (y <| g_code := s |>) (set_code g s st1).
Proof.
  intros L [C G]. split; [exact C|]. unfold set_code, set_g, get_g. simpl. rewrite G, upd_upd.
  f_equal. rewrite nth_upd, Nat.eqb_refl. apply Nat.ltb_lt in L. now rewrite L.
Qed.

Lemma loc_log st g y st1 h e : loc st g y st1 -> loc st g y (log h e st1).
Proof. intros [C G]. split; auto. Qed.

Lemma loc_clear_wake st g : loc st g (get_g st g <| g_wake := None |>) (clear_wake g st).
Proof. split; reflexivity. Qed.

Lemma loc_refl st g : loc st g (get_g st g) st.
Proof. split; auto. unfold get_g. now rewrite upd_same. Qed.

Lemma sget_sset_g s g y : g < length (s_gors s) -> sget_g (sset_g s g y) g = y.
Proof. intros L. unfold sget_g, sset_g. simpl. rewrite nth_upd, Nat.eqb_refl. apply Nat.ltb_lt in L. now rewrite L. Qed.

Lemma sset_sset_g s g y z : sset_g (sset_g s g y) g z = sset_g s g z.
Proof. unfold sset_g. simpl. now rewrite upd_upd. Qed.

Lemma abs_gors_length st : length (s_gors (abs st)) = length (gors st).
Proof. unfold abs. simpl. apply map_length. Qed.

Lemma abs_g_run x s : g_exit x = false -> g_blocked x = None -> abs_g (x <| g_wake := None |> <| g_code := s |>) = mkSGor s SRun.
Proof. destruct x; simpl. intros -> ->. reflexivity. Qed.

Lemma abs_g_code x s : g_exit x = false -> g_wake x = None -> g_blocked x = None -> abs_g (x <| g_code := s |>) = mkSGor s SRun.
Proof. destruct x; simpl. intros -> -> ->. unfold abs_g. simpl. now destruct s. Qed.

Lemma abs_g_idle x : g_exit x = false -> g_wake x = None -> g_blocked x = None -> abs_g x = mkSGor (g_code x) SRun.
Proof. destruct x; simpl. intros -> -> ->. unfold abs_g. simpl. now destruct g_code. Qed.

Lemma abs_g_pend x o rest w : g_exit x = false -> g_code x = o :: rest -> g_wake x = Some w ->
  abs_g x = mkSGor (o :: rest) (SPend (wake_event o w)).
Proof. destruct x; simpl. intros -> -> ->. reflexivity. Qed.

Lemma abs_g_exited x : abs_g (x <| g_exit := true |>) = mkSGor [] SDone.
Proof. destruct x; reflexivity. Qed.

(* observing a pending result *)
Lemma obs_after_pend prog s g o rest e : g < length (s_gors s) -> sg_code (sget_g s g) = o :: rest -> e <> EvGoexit ->
  sstep prog (spend s g e) (AObs g) = Some (sset_g s g (mkSGor (after_obs o rest e) SRun), [(g, e)]).
Proof.
  intros L C N. unfold sstep, spend. rewrite sget_sset_g by exact L. simpl. rewrite C, sset_sset_g.
  destruct e; try reflexivity. now destruct N.
Qed.

Lemma obs_after_goexit prog s g o rest : g < length (s_gors s) -> sg_code (sget_g s g) = o :: rest ->
  sstep prog (spend s g EvGoexit) (AObs g) = Some (sset_g s g (mkSGor [] SDone), [(g, EvGoexit)]).
Proof. intros L C. unfold sstep, spend. rewrite sget_sset_g by exact L. simpl. now rewrite C, sset_sset_g. Qed.

Lemma wake_event_not_goexit o w : wake_event o w <> EvGoexit.
Proof. destruct o, w; simpl; try discriminate; destruct closed; discriminate. Qed.

(* -- the function returns *)
Lemma refines_finish fx prog st g : halted st = None -> md st = MRun g -> run_wf st ->
  g_code (get_g st g) = [] -> g_wake (get_g st g) = None -> refines_step fx prog st.
Proof.
  intros H M W C Wk. destruct (W g M) as (L & X & B).
  unfold refines_step. rewrite (impl_step_run fx prog st g H M).
  unfold actions_of. rewrite H, M, C. unfold step_goroutine. rewrite C.
  set (st1 := set_g st g (get_g st g <| g_exit := true |>)).
  set (st2 := if Nat.eqb g 0 then _ else st1).
  assert (A : abs st2 = sset_g (abs st) g (mkSGor [] SDone)).
  { transitivity (abs st1). { unfold st2. destruct (Nat.eqb g 0); [apply abs_fields; reflexivity | reflexivity]. }
    unfold st1. now rewrite abs_set_g, abs_g_exited. }
  assert (T : trace st2 = trace st) by (unfold st2; destruct (Nat.eqb g 0); reflexivity).
  rewrite abs_yield, A, new_events_same by (now rewrite trace_yield).
  unfold ssteps, sstep. rewrite sget_g_abs, (abs_g_idle _ X Wk B), C. reflexivity.
Qed.

(* -- resumed through $blk after a wake-up: it observes the result left for it *)
Lemma step_resume fx prog g st o rest w : g_code (get_g st g) = o :: rest -> g_wake (get_g st g) = Some w ->
  step_goroutine fx prog g st
  = set_code g (after_obs o rest (wake_event o w)) (log g (wake_event o w) (clear_wake g st)).
Proof.
  intros C Wk. unfold step_goroutine. rewrite C, Wk.
  destruct o, w; try reflexivity; try (destruct closed; reflexivity); try (destruct ok; reflexivity).
Qed.

Lemma refines_resume fx prog st g o rest w : halted st = None -> md st = MRun g -> run_wf st ->
  g_code (get_g st g) = o :: rest -> g_wake (get_g st g) = Some w -> refines_step fx prog st.
Proof.
  intros H M W C Wk. destruct (W g M) as (L & X & B).
  unfold refines_step. rewrite (impl_step_run fx prog st g H M), (step_resume fx prog g st o rest w C Wk).
  unfold actions_of. rewrite H, M, C, Wk.
  set (e := wake_event o w).
  assert (LOC : loc st g (get_g st g <| g_wake := None |> <| g_code := after_obs o rest e |>)
                  (set_code g (after_obs o rest e) (log g e (clear_wake g st)))).
  { apply loc_set_code; auto. apply loc_log. apply loc_clear_wake. }
  rewrite (abs_loc _ _ _ _ LOC), (abs_g_run _ _ X B).
  rewrite (new_events_one st _ (g, e)) by reflexivity.
  assert (SP : abs st = spend (abs st) g e).
  { unfold spend. rewrite sget_g_abs, (abs_g_pend _ o rest w X C Wk). simpl.
    rewrite <- (sset_g_same (abs st) g) at 1. rewrite sget_g_abs, (abs_g_pend _ o rest w X C Wk). reflexivity. }
  unfold ssteps. rewrite SP at 1.
  rewrite (obs_after_pend prog (abs st) g o rest e).
  - reflexivity.
  - now rewrite abs_gors_length.
  - now rewrite sget_g_abs, (abs_g_pend _ o rest w X C Wk).
  - apply wake_event_not_goexit.
Qed.

(* -- print: completes and is observed at once *)
Lemma refines_print fx prog st g v rest : halted st = None -> md st = MRun g -> run_wf st ->
  g_code (get_g st g) = Print v :: rest -> g_wake (get_g st g) = None -> refines_step fx prog st.
Proof.
  intros H M W C Wk. destruct (W g M) as (L & X & B).
  unfold refines_step. rewrite (impl_step_run fx prog st g H M).
  unfold actions_of. rewrite H, M, C, Wk. unfold step_goroutine. rewrite C, Wk.
  assert (LOC : loc st g (get_g st g <| g_code := rest |>) (set_code g rest (log g (EvPrint v) st))).
  { apply loc_set_code; auto. apply loc_log. apply loc_refl. }
  rewrite (abs_loc _ _ _ _ LOC), (abs_g_code _ _ X Wk B).
  rewrite (new_events_one st _ (g, EvPrint v)) by reflexivity.
  assert (G : sget_g (abs st) g = mkSGor (Print v :: rest) SRun) by (now rewrite sget_g_abs, (abs_g_idle _ X Wk B), C).
  assert (S1 : sstep prog (abs st) (AOp g 0) = Some (spend (abs st) g (EvPrint v), [])) by (unfold sstep; rewrite G; reflexivity).
  unfold ssteps. rewrite S1.
  rewrite (obs_after_pend prog (abs st) g (Print v) rest (EvPrint v)); try reflexivity; try discriminate.
  - now rewrite abs_gors_length.
  - now rewrite G.
Qed.

(* -- Goexit *)
Lemma refines_goexit fx prog st g rest : halted st = None -> md st = MRun g -> run_wf st ->
  g_code (get_g st g) = Goexit :: rest -> g_wake (get_g st g) = None -> refines_step fx prog st.
Proof.
  intros H M W C Wk. destruct (W g M) as (L & X & B).
  unfold refines_step. rewrite (impl_step_run fx prog st g H M).
  unfold actions_of. rewrite H, M, C, Wk. unfold step_goroutine. rewrite C, Wk.
  rewrite abs_yield, abs_set_g, abs_g_exited.
  replace (abs (log g EvGoexit st)) with (abs st) by (symmetry; apply abs_fields; reflexivity).
  rewrite (new_events_one st _ (g, EvGoexit)) by (now rewrite trace_yield).
  assert (G : sget_g (abs st) g = mkSGor (Goexit :: rest) SRun) by (now rewrite sget_g_abs, (abs_g_idle _ X Wk B), C).
  assert (S1 : sstep prog (abs st) (AOp g 0) = Some (spend (abs st) g EvGoexit, [])) by (unfold sstep; rewrite G; reflexivity).
  unfold ssteps. rewrite S1.
  rewrite (obs_after_goexit prog (abs st) g Goexit rest); try reflexivity.
  - now rewrite abs_gors_length.
  - now rewrite G.
Qed.

(* -- Gosched: the goroutine waits for its timer; for the spec nothing has happened yet *)
Lemma refines_gosched fx prog st g rest : halted st = None -> md st = MRun g -> run_wf st ->
  g_code (get_g st g) = Gosched :: rest -> g_wake (get_g st g) = None -> refines_step fx prog st.
Proof.
  intros H M W C Wk. destruct (W g M) as (L & X & B).
  apply stutter.
  - unfold actions_of. now rewrite H, M, C, Wk.
  - rewrite (impl_step_run fx prog st g H M). unfold step_goroutine. rewrite C, Wk.
    rewrite abs_yield. unfold block. rewrite abs_set_g.
    set (st1 := st <| awake := (awake st + 1)%Z |> <| timers := timers st ++ [TWake g] |>).
    replace (get_g st1 g) with (get_g st g) by reflexivity.
    replace (abs st1) with (abs st) by (symmetry; apply abs_fields; reflexivity).
    assert (E : abs_g (get_g st g <| g_asleep := true |> <| g_blocked := Some BTimer |>) = abs_g (get_g st g)).
    { destruct (get_g st g); simpl in *. subst. reflexivity. }
    rewrite E, <- sget_g_abs. apply sset_g_same.
  - rewrite (impl_step_run fx prog st g H M). unfold step_goroutine. rewrite C, Wk. now rewrite trace_yield.
Qed.

(* ================================================================ the statement, and the part that is proved *)
(* FULL statement: every step of every reachable state is the spec-step sequence [actions_of] *)
Definition impl_refines_spec_full_statement : Prop :=
  forall prog st, reachable repaired prog st -> refines_step repaired prog st.

(* the steps covered so far: every scheduler step except the firing of a Gosched timer; of the running goroutine:
   return, resumption after ANY wake-up (send / receive / select / close / timer: the goroutine observes what its
   partner left for it), print, Goexit, Gosched.  NOT covered: the step in which a goroutine executes a channel
   operation itself (send / receive / range / close / select: alone, with a parked partner, or parking), go, and the
   timer callback — these are checked per explored history by Corr/C03_SpecEval.spec_verdict. *)
Definition covered (st : state) : Prop :=
  halted st <> None \/ md st = MPass \/ (md st = MIdle /\ forall g ts, timers st <> TWake g :: ts) \/
  exists g, md st = MRun g /\
    match g_code (get_g st g) with
    | [] => g_wake (get_g st g) = None
    | o :: _ => g_wake (get_g st g) <> None \/ match o with Print _ | Goexit | Gosched => True | _ => False end
    end.

Theorem impl_refines_spec_covered fx prog st : run_wf st -> covered st -> refines_step fx prog st.
Proof.
  intros W [Hh|[Mp|[[Mi T]|(g & M & K)]]].
  - destruct (halted st) as [o|] eqn:H; [eapply refines_halted; eauto | now destruct Hh].
  - destruct (halted st) as [o|] eqn:H; [eapply refines_halted; eauto | now apply refines_pass].
  - destruct (halted st) as [o|] eqn:H; [eapply refines_halted; eauto | now apply refines_idle_norun].
  - destruct (halted st) as [o'|] eqn:H; [eapply refines_halted; eauto|].
    destruct (g_code (get_g st g)) as [|o rest] eqn:C.
    + eapply refines_finish; eauto.
    + destruct (g_wake (get_g st g)) as [w|] eqn:Wk.
      * eapply refines_resume; eauto.
      * destruct K as [K|K]; [now destruct K|].
        destruct o; try contradiction; [eapply refines_gosched | eapply refines_goexit | eapply refines_print]; eauto.
Qed.

(* non-vacuity of [covered]: the first steps of a program *)
Example covered_init : covered (init_state {| p_caps := []; p_scripts := [[Print 1%N]] |} [] []).
Proof. right. left. reflexivity. Qed.
