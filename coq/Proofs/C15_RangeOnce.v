(* C15 — the emitted range-over-map loop visits an entry that is present from loop start to loop end
   EXACTLY ONCE, for every loop body (any interleaving of Map mutations by the body).
   Slots are identified by their index in the Map's entry list; the budget _size - _i is compared
   with the number of live ORIGINAL slots the iterator has not yet passed. *)
From Coq Require Import List Bool Arith Lia.
From Verif Require Import Model.C15_Keys Model.C15_JsMap Proofs.C15_Range.
Import ListNotations.

Section Once.
Variables K E St : Type.
Variable keq : K -> K -> bool.
Hypothesis keq_spec : forall a b, keq a b = true <-> a = b.
Variable body : St -> K -> E -> St * list (mop K E).

Lemma keq_refl : forall a, keq a a = true.
Proof. intros a. now apply keq_spec. Qed.
Lemma keq_false : forall a b, keq a b = false <-> a <> b.
Proof.
  intros a b. split.
  - intros H Heq. apply keq_spec in Heq. congruence.
  - intros H. destruct (keq a b) eqn:E1; [apply keq_spec in E1; contradiction | reflexivity].
Qed.

Definition key_at (m : jsmap K E) (i : nat) : option K :=
  match nth_error m i with Some (Some (k, _)) => Some k | _ => None end.

Lemma key_at_nil : forall i, key_at [] i = None.
Proof. intros [|i]; reflexivity. Qed.
Lemma key_at_0 : forall slot r, key_at (slot :: r) 0 = match slot with Some (k, _) => Some k | None => None end.
Proof. intros [[k e]|] r; reflexivity. Qed.
Lemma key_at_S : forall slot r i, key_at (slot :: r) (S i) = key_at r i.
Proof. reflexivity. Qed.
Lemma key_at_lt : forall m i k, key_at m i = Some k -> i < List.length m.
Proof.
  intros m i k H. unfold key_at in H. destruct (nth_error m i) eqn:E1; [|discriminate].
  apply nth_error_Some. congruence.
Qed.

(* ---------------------------------------------------------------- the iterator *)
Lemma it_next_some : forall m pos k p', it_next m pos = Some (k, p') ->
  exists p, p' = S p /\ pos <= p /\ key_at m p = Some k /\ forall i, pos <= i < p -> key_at m i = None.
Proof.
  induction m as [|slot r IH]; intros pos k p' H; [discriminate|].
  cbn [it_next] in H. destruct pos as [|q].
  - destruct slot as [[k0 e0]|].
    + injection H as <- <-. exists 0. repeat split; auto. intros i Hi. lia.
    + destruct (it_next r 0) as [[k1 p1]|] eqn:E1; [|discriminate]. injection H as <- <-.
      destruct (IH _ _ _ E1) as (p & -> & Hp & Hk & Hd). exists (S p). repeat split; auto; try lia.
      intros [|j] Hj; [reflexivity|]. rewrite key_at_S. apply Hd. lia.
  - destruct (it_next r q) as [[k1 p1]|] eqn:E1; [|discriminate]. injection H as <- <-.
    destruct (IH _ _ _ E1) as (p & -> & Hp & Hk & Hd). exists (S p). repeat split; auto; try lia.
    intros [|j] Hj; [lia|]. rewrite key_at_S. apply Hd. lia.
Qed.

Lemma it_next_none : forall m pos, it_next m pos = None -> forall i, pos <= i -> key_at m i = None.
Proof.
  induction m as [|slot r IH]; intros pos H i Hi; [apply key_at_nil|].
  cbn [it_next] in H. destruct pos as [|q].
  - destruct slot as [[k0 e0]|]; [discriminate|].
    destruct (it_next r 0) as [[k1 p1]|] eqn:E1; [discriminate|].
    destruct i as [|j]; [reflexivity|]. rewrite key_at_S. eapply IH; eauto. lia.
  - destruct (it_next r q) as [[k1 p1]|] eqn:E1; [discriminate|].
    destruct i as [|j]; [lia|]. rewrite key_at_S. eapply IH; eauto. lia.
Qed.

(* ---------------------------------------------------------------- live slots in [pos, n) *)
Fixpoint cntf (m : jsmap K E) (pos n : nat) : nat :=
  match m with
  | [] => 0
  | slot :: r =>
      match n with
      | 0 => 0
      | S n' => match pos with
                | 0 => (match slot with Some _ => 1 | None => 0 end) + cntf r 0 n'
                | S p => cntf r p n'
                end
      end
  end.

Lemma cntf_zero_live : forall m pos n i k,
  cntf m pos n = 0 -> key_at m i = Some k -> i < n -> i < pos.
Proof.
  induction m as [|slot r IH]; intros pos n i k H Hk Hi; [rewrite key_at_nil in Hk; discriminate|].
  destruct n as [|n']; [lia|]. cbn [cntf] in H. destruct pos as [|p].
  - destruct i as [|j].
    + rewrite key_at_0 in Hk. destruct slot as [[k0 e0]|]; [cbn in H; lia | discriminate].
    + rewrite key_at_S in Hk. assert (cntf r 0 n' = 0) by lia. specialize (IH 0 n' j k H0 Hk). lia.
  - destruct i as [|j]; [lia|]. rewrite key_at_S in Hk. specialize (IH p n' j k H Hk). lia.
Qed.

Lemma cntf_next : forall m pos p n k,
  pos <= p -> key_at m p = Some k -> (forall i, pos <= i < p -> key_at m i = None) ->
  cntf m pos n = (if p <? n then 1 else 0) + cntf m (S p) n.
Proof.
  induction m as [|slot r IH]; intros pos p n k Hp Hk Hd; [rewrite key_at_nil in Hk; discriminate|].
  destruct n as [|n']; [reflexivity|]. cbn [cntf]. destruct pos as [|q].
  - destruct p as [|p0].
    + rewrite key_at_0 in Hk. destruct slot as [[k0 e0]|]; [|discriminate]. reflexivity.
    + assert (Hs : key_at (slot :: r) 0 = None) by (apply Hd; lia).
      rewrite key_at_0 in Hs. destruct slot as [[k0 e0]|]; [discriminate|].
      rewrite key_at_S in Hk.
      rewrite (IH 0 p0 n' k ltac:(lia) Hk) by (intros i Hi; specialize (Hd (S i) ltac:(lia)); now rewrite key_at_S in Hd).
      replace (S p0 <? S n') with (p0 <? n') by (destruct (Nat.ltb_spec p0 n'); destruct (Nat.ltb_spec (S p0) (S n')); lia || reflexivity).
      reflexivity.
  - destruct p as [|p0]; [lia|]. rewrite key_at_S in Hk.
    rewrite (IH q p0 n' k ltac:(lia) Hk) by (intros i Hi; specialize (Hd (S i) ltac:(lia)); now rewrite key_at_S in Hd).
    replace (S p0 <? S n') with (p0 <? n') by (destruct (Nat.ltb_spec p0 n'); destruct (Nat.ltb_spec (S p0) (S n')); lia || reflexivity).
    reflexivity.
Qed.

Lemma cntf_none : forall m pos n, (forall i, pos <= i -> key_at m i = None) -> cntf m pos n = 0.
Proof.
  induction m as [|slot r IH]; intros pos n H; [reflexivity|].
  destruct n as [|n']; [reflexivity|]. cbn [cntf]. destruct pos as [|q].
  - specialize (H 0 ltac:(lia)) as H0. rewrite key_at_0 in H0. destruct slot as [[k0 e0]|]; [discriminate|].
    rewrite IH; [reflexivity|]. intros i Hi. specialize (H (S i) ltac:(lia)). now rewrite key_at_S in H.
  - apply IH. intros i Hi. specialize (H (S i) ltac:(lia)). now rewrite key_at_S in H.
Qed.

Lemma cntf_past : forall m pos n, n <= pos -> cntf m pos n = 0.
Proof.
  induction m as [|slot r IH]; intros pos n H; [reflexivity|].
  destruct n as [|n']; [reflexivity|]. cbn [cntf]. destruct pos as [|q]; [lia|]. apply IH. lia.
Qed.

(* slots never come back to life: the count can only go down *)
Lemma cntf_le : forall n m m' pos, n <= List.length m ->
  (forall i k, i < n -> key_at m' i = Some k -> key_at m i <> None) ->
  cntf m' pos n <= cntf m pos n.
Proof.
  induction n as [|n' IH]; intros m m' pos Hn H.
  - destruct m'; [cbn; lia|]. cbn. lia.
  - destruct m' as [|s' r']; [cbn; lia|]. destruct m as [|s r]; [cbn in Hn; lia|].
    cbn [cntf]. cbn [List.length] in Hn.
    assert (Ht : forall i k, i < n' -> key_at r' i = Some k -> key_at r i <> None).
    { intros i k Hi Hk. specialize (H (S i) k ltac:(lia)). rewrite !key_at_S in H. now apply H. }
    destruct pos as [|p].
    + specialize (IH r r' 0 ltac:(lia) Ht).
      destruct s' as [[k' e']|]; [|destruct s; lia].
      specialize (H 0 k' ltac:(lia)). rewrite !key_at_0 in H. destruct s as [[k0 e0]|]; [lia|]. now specialize (H eq_refl).
    + apply IH; [lia | exact Ht].
Qed.

Lemma cntf_size : forall m, cntf m 0 (List.length m) = m_size m.
Proof. induction m as [|[[k e]|] r IH]; cbn; auto. Qed.

(* ---------------------------------------------------------------- mutations and slots *)
Lemma del_a : forall (m : jsmap K E) k' i k, key_at (m_delete keq m k') i = Some k -> key_at m i = Some k.
Proof.
  induction m as [|[[k0 e0]|] r IH]; intros k' i k H; cbn [m_delete] in H; auto.
  - destruct (keq k0 k').
    + destruct i as [|j]; [rewrite key_at_0 in H; discriminate | now rewrite key_at_S in *].
    + destruct i as [|j]; [exact H|]. rewrite key_at_S in *. eapply IH; eauto.
  - destruct i as [|j]; [exact H|]. rewrite key_at_S in *. eapply IH; eauto.
Qed.

Lemma del_b : forall (m : jsmap K E) k' i k, key_at m i = Some k -> keq k k' = false -> key_at (m_delete keq m k') i = Some k.
Proof.
  induction m as [|[[k0 e0]|] r IH]; intros k' i k H Hne; cbn [m_delete]; auto.
  - destruct (keq k0 k') eqn:E1.
    + destruct i as [|j]; [|now rewrite key_at_S in *].
      rewrite key_at_0 in H. injection H as ->. congruence.
    + destruct i as [|j]; [exact H|]. rewrite key_at_S in *. now apply IH.
  - destruct i as [|j]; [exact H|]. rewrite key_at_S in *. now apply IH.
Qed.

Lemma del_len : forall (m : jsmap K E) k', List.length (m_delete keq m k') = List.length m.
Proof. induction m as [|[[k0 e0]|] r IH]; intros k'; cbn; auto. destruct (keq k0 k'); cbn; auto. Qed.

Lemma set_a : forall (m : jsmap K E) k' e i k, key_at (m_set keq m k' e) i = Some k -> i < List.length m -> key_at m i = Some k.
Proof.
  induction m as [|[[k0 e0]|] r IH]; intros k' e i k H Hi; cbn [m_set] in H; [cbn in Hi; lia| |].
  - destruct (keq k0 k').
    + destruct i as [|j]; [exact H | now rewrite key_at_S in *].
    + destruct i as [|j]; [exact H|]. rewrite key_at_S in *. cbn in Hi. eapply IH; eauto. lia.
  - destruct i as [|j]; [exact H|]. rewrite key_at_S in *. cbn in Hi. eapply IH; eauto. lia.
Qed.

Lemma set_b : forall (m : jsmap K E) k' e i k, key_at m i = Some k -> key_at (m_set keq m k' e) i = Some k.
Proof.
  induction m as [|[[k0 e0]|] r IH]; intros k' e i k H; cbn [m_set]; [rewrite key_at_nil in H; discriminate| |].
  - destruct (keq k0 k').
    + destruct i as [|j]; [exact H | now rewrite key_at_S in *].
    + destruct i as [|j]; [exact H|]. rewrite key_at_S in *. now apply IH.
  - destruct i as [|j]; [exact H|]. rewrite key_at_S in *. now apply IH.
Qed.

Lemma set_len : forall (m : jsmap K E) k' e, List.length m <= List.length (m_set keq m k' e) <= S (List.length m).
Proof.
  induction m as [|[[k0 e0]|] r IH]; intros k' e; cbn [m_set]; [cbn; lia| |].
  - destruct (keq k0 k'); cbn [List.length]; [lia|]. specialize (IH k' e). lia.
  - cbn [List.length]. specialize (IH k' e). lia.
Qed.

(* a slot beyond the old length is the freshly appended one: its key was not in the map *)
Lemma set_new : forall (m : jsmap K E) k' e i k, key_at (m_set keq m k' e) i = Some k -> List.length m <= i ->
  k = k' /\ forall j, key_at m j <> Some k'.
Proof.
  induction m as [|[[k0 e0]|] r IH]; intros k' e i k H Hi; cbn [m_set] in H.
  - destruct i as [|j]; [|rewrite key_at_S, key_at_nil in H; discriminate].
    rewrite key_at_0 in H. injection H as <-. split; [reflexivity|]. intros j. now rewrite key_at_nil.
  - cbn [List.length] in Hi. destruct (keq k0 k') eqn:E1.
    + destruct i as [|j]; [lia|]. rewrite key_at_S in H. apply key_at_lt in H. lia.
    + destruct i as [|j]; [lia|]. rewrite key_at_S in H. destruct (IH k' e j k H ltac:(lia)) as [-> Hn].
      split; [reflexivity|]. intros [|j']; [rewrite key_at_0; intros X; injection X as ->; rewrite keq_refl in E1; discriminate|].
      rewrite key_at_S. apply Hn.
  - cbn [List.length] in Hi. destruct i as [|j]; [lia|]. rewrite key_at_S in H.
    destruct (IH k' e j k H ltac:(lia)) as [-> Hn]. split; [reflexivity|].
    intros [|j']; [rewrite key_at_0; discriminate | rewrite key_at_S; apply Hn].
Qed.

Definition nodup (m : jsmap K E) : Prop :=
  forall i j k, key_at m i = Some k -> key_at m j = Some k -> i = j.

Lemma nodup_nil : nodup [].
Proof. intros i j k H. rewrite key_at_nil in H. discriminate. Qed.

Lemma nodup_apply : forall (m : jsmap K E) o, nodup m -> nodup (apply_mop keq m o).
Proof.
  intros m [k' e|k'] N i j k Hi Hj; cbn [apply_mop] in *.
  - destruct (Nat.lt_ge_cases i (List.length m)) as [Li|Li]; destruct (Nat.lt_ge_cases j (List.length m)) as [Lj|Lj].
    + eapply N; eapply set_a; eauto.
    + exfalso. destruct (set_new _ _ _ _ _ Hj Lj) as [-> Hn]. apply (Hn i). eapply set_a; eauto.
    + exfalso. destruct (set_new _ _ _ _ _ Hi Li) as [-> Hn]. apply (Hn j). eapply set_a; eauto.
    + apply key_at_lt in Hi, Hj. pose proof (set_len m k' e). lia.
  - eapply N; eapply del_a; eauto.
Qed.

Lemma nodup_fold : forall ops (m : jsmap K E), nodup m -> nodup (fold_left (apply_mop keq) ops m).
Proof. induction ops as [|o ops IH]; intros m N; cbn; auto. apply IH. now apply nodup_apply. Qed.

Lemma len_apply : forall (m : jsmap K E) o, List.length m <= List.length (apply_mop keq m o).
Proof. intros m [k' e|k']; cbn [apply_mop]; [apply set_len | rewrite del_len; lia]. Qed.

Lemma len_fold : forall ops (m : jsmap K E), List.length m <= List.length (fold_left (apply_mop keq) ops m).
Proof. induction ops as [|o ops IH]; intros m; cbn; [lia|]. specialize (IH (apply_mop keq m o)). pose proof (len_apply m o). lia. Qed.

Lemma live_apply_back : forall (m : jsmap K E) o i k, i < List.length m -> key_at (apply_mop keq m o) i = Some k -> key_at m i = Some k.
Proof. intros m [k' e|k'] i k Hi H; cbn [apply_mop] in H; [eapply set_a | eapply del_a]; eauto. Qed.

Lemma live_fold_back : forall ops (m : jsmap K E) i k, i < List.length m ->
  key_at (fold_left (apply_mop keq) ops m) i = Some k -> key_at m i = Some k.
Proof.
  induction ops as [|o ops IH]; intros m i k Hi H; cbn in H; [exact H|].
  eapply live_apply_back; eauto. eapply IH; eauto. pose proof (len_apply m o). lia.
Qed.

(* the entry of a key that is never deleted stays in its slot *)
Lemma keep_fold : forall ops (m : jsmap K E) i k, key_at m i = Some k ->
  (forall k', In (MDel k') ops -> keq k' k = false) ->
  key_at (fold_left (apply_mop keq) ops m) i = Some k.
Proof.
  induction ops as [|o ops IH]; intros m i k H Hd; cbn; [exact H|].
  apply IH; [|intros k' Hin; apply Hd; now right].
  destruct o as [k' e|k']; cbn [apply_mop]; [now apply set_b|].
  apply del_b; [exact H|]. apply keq_false. intros ->. specialize (Hd k' (or_introl eq_refl)). rewrite keq_refl in Hd. discriminate.
Qed.

Lemma get_live : forall (m : jsmap K E) i k, key_at m i = Some k -> m_get keq m k <> None.
Proof.
  induction m as [|[[k0 e0]|] r IH]; intros i k H; [rewrite key_at_nil in H; discriminate| |].
  - cbn [m_get]. destruct (keq k0 k) eqn:E1; [discriminate|].
    destruct i as [|j]; [rewrite key_at_0 in H; injection H as ->; rewrite keq_refl in E1; discriminate|].
    rewrite key_at_S in H. eapply IH; eauto.
  - cbn [m_get]. destruct i as [|j]; [rewrite key_at_0 in H; discriminate|]. rewrite key_at_S in H. eapply IH; eauto.
Qed.

Lemma live_get : forall (m : jsmap K E) k, m_get keq m k <> None -> exists i, key_at m i = Some k.
Proof.
  induction m as [|[[k0 e0]|] r IH]; intros k H; [now cbn in H| |]; cbn [m_get] in H.
  - destruct (keq k0 k) eqn:E1.
    + apply keq_spec in E1. subst. exists 0. now rewrite key_at_0.
    + destruct (IH k H) as [i Hi]. exists (S i). now rewrite key_at_S.
  - destruct (IH k H) as [i Hi]. exists (S i). now rewrite key_at_S.
Qed.

(* ---------------------------------------------------------------- the loop *)
Variable k : K.

Definition count_k (ev : list (event K E)) : nat :=
  List.length (filter (fun e => match e with EVisit k1 _ => keq k1 k | _ => false end) ev).

Lemma count_muts : forall ops ev, count_k (map (@EMut K E) ops ++ ev) = count_k ev.
Proof. induction ops as [|o ops IH]; intros ev; cbn; [reflexivity | apply IH]. Qed.

Lemma once_loop : forall i0 n0 fuel m pos s ev m' s',
  range_loop keq body fuel m pos s = (ev, m', s') ->
  key_at m i0 = Some k -> nodup m -> i0 < n0 -> n0 <= List.length m -> cntf m pos n0 <= fuel ->
  (forall k', In (EMut (MDel k')) ev -> keq k' k = false) ->
  count_k ev = if pos <=? i0 then 1 else 0.
Proof.
  intros i0 n0. induction fuel as [|f IH]; intros m pos s ev m' s' H Hk N Hi Hn Hc Hd; cbn [range_loop] in H.
  - injection H as <- <- <-. cbn.
    assert (cntf m pos n0 = 0) by lia. pose proof (cntf_zero_live _ _ _ _ _ H Hk Hi).
    destruct (Nat.leb_spec pos i0); [lia | reflexivity].
  - destruct (it_next m pos) as [[k1 p']|] eqn:En.
    + destruct (it_next_some _ _ _ _ En) as (p & -> & Hp & Hk1 & Hdead).
      pose proof (cntf_next m pos p n0 k1 Hp Hk1 Hdead) as Hcn.
      destruct (m_get keq m k1) as [e1|] eqn:G; [|exfalso; eapply get_live; eauto].
      destruct (body s k1 e1) as [s1 ops] eqn:Eb.
      destruct (range_loop keq body f (fold_left (apply_mop keq) ops m) (S p) s1) as [[ev1 m1] s2] eqn:R.
      injection H as <- <- <-.
      assert (Hd_ops : forall k', In (MDel k') ops -> keq k' k = false).
      { intros k' Hin. apply Hd. right. apply in_or_app. left. now apply in_map. }
      assert (Hd1 : forall k', In (EMut (MDel k')) ev1 -> keq k' k = false).
      { intros k' Hin. apply Hd. right. apply in_or_app. now right. }
      pose (mm := fold_left (apply_mop keq) ops m).
      assert (Hk' : key_at mm i0 = Some k) by (unfold mm; apply keep_fold; auto).
      assert (N' : nodup mm) by (unfold mm; now apply nodup_fold).
      assert (Hn' : n0 <= List.length mm) by (unfold mm; pose proof (len_fold ops m); lia).
      assert (Hle : cntf mm (S p) n0 <= cntf m (S p) n0).
      { apply cntf_le; [exact Hn|]. intros i kk Hi' Hkk. unfold mm in Hkk.
        rewrite (live_fold_back ops m i kk ltac:(lia) Hkk). discriminate. }
      assert (Hc' : cntf mm (S p) n0 <= f).
      { revert Hcn. destruct (Nat.ltb_spec p n0) as [Hlt|Hge]; intros Hcn; [lia|].
        (* the iterator is past the original slots *)
        rewrite (cntf_past m (S p) n0 ltac:(lia)) in Hle. lia. }
      specialize (IH mm (S p) s1 ev1 m1 s2 R Hk' N' Hi Hn' Hc' Hd1).
      unfold count_k. cbn [filter]. fold (count_k (map EMut ops ++ ev1)).
      destruct (keq k1 k) eqn:Ek; cbn [List.length]; fold (count_k (map EMut ops ++ ev1)); rewrite count_muts, IH.
      * apply keq_spec in Ek. subst k1. assert (p = i0) by (eapply N; eauto). subst p.
        destruct (Nat.leb_spec pos i0); [|lia]. destruct (Nat.leb_spec (S i0) i0); [lia | reflexivity].
      * assert (p <> i0) by (intros ->; rewrite Hk in Hk1; injection Hk1 as ->; rewrite keq_refl in Ek; discriminate).
        destruct (Nat.leb_spec pos i0); destruct (Nat.leb_spec (S p) i0); try lia.
        exfalso. assert (Hx : key_at m i0 = None) by (apply Hdead; lia). congruence.
    + pose proof (it_next_none _ _ En) as Hdead.
      assert (Hz : cntf m pos n0 = 0) by (now apply cntf_none).
      eapply IH; eauto. lia.
Qed.

(* THE theorem: an entry present at loop start whose key the body never deletes is handed to the
   body exactly once — whatever else the body inserts, overwrites or deletes *)
Theorem range_visits_once : forall m s ev m' s',
  nodup m -> range_over keq body m s = (ev, m', s') ->
  m_get keq m k <> None ->
  (forall k', In (EMut (MDel k')) ev -> keq k' k = false) ->
  count_k ev = 1.
Proof.
  intros m s ev m' s' N H G Hd. destruct (live_get _ _ G) as [i0 Hi0].
  unfold range_over in H.
  rewrite (once_loop i0 (List.length m) _ _ _ _ _ _ _ H Hi0 N (key_at_lt _ _ _ Hi0) (le_n _)); [reflexivity| |exact Hd].
  rewrite cntf_size. lia.
Qed.

End Once.

(* every Map reachable from `new Map()` by set / delete has pairwise distinct live keys *)
Lemma reachable_nodup : forall (K E : Type) (keq : K -> K -> bool), (forall a b, keq a b = true <-> a = b) ->
  forall ops : list (mop K E), nodup K E (fold_left (apply_mop keq) ops []).
Proof. intros K E keq Hk ops. apply nodup_fold; [exact Hk | apply nodup_nil]. Qed.

(* range_law: both halves together *)
Theorem range_law : forall (K E St : Type) (keq : K -> K -> bool), (forall a b, keq a b = true <-> a = b) ->
  forall (body : St -> K -> E -> St * list (mop K E)) m s ev m' s',
    nodup K E m -> range_over keq body m s = (ev, m', s') ->
    trace_ok K E keq m ev /\ m' = replay K E keq m ev /\
    forall k, m_get keq m k <> None -> (forall k', In (EMut (MDel k')) ev -> keq k' k = false) ->
              count_k K E keq k ev = 1.
Proof.
  intros K E St keq Hk body m s ev m' s' N H.
  destruct (range_law_partial K E St keq body m s ev m' s' H) as (A & B & _).
  split; [exact A|]. split; [exact B|]. intros k G Hd.
  exact (range_visits_once K E St keq Hk body k m s ev m' s' N H G Hd).
Qed.

