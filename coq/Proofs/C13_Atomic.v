(* C13 — sync/atomic overrides are the sequential read-modify-write with Go's wrap-around: proofs. *)
From Coq Require Import ZArith Lia List Bool.
From Verif Require Import Model.C13_Atomic.
Local Open Scope Z_scope.

Definition std (t : ity) : Prop := width t = 32 \/ width t = 64.

(* Add: returns the new cell content, which is the unique value of the type congruent to cell + delta *)
Theorem atomic_add_correct : forall t cell d, std t ->
  let '(new, ret) := add t cell d in
  ret = new /\ in_range t new /\ (new - (cell + d)) mod 2 ^ width t = 0.
Proof.
  intros [w sg] cell d [Hw|Hw]; cbn [width] in Hw; subst w; unfold add, wrap, in_range; cbn [width signed];
    (split; [reflexivity|]); destruct sg;
    change (2 ^ 32) with 4294967296; change (2 ^ 64) with 18446744073709551616;
    change (2 ^ (32 - 1)) with 2147483648; change (2 ^ (64 - 1)) with 9223372036854775808;
    change (4294967296 / 2) with 2147483648; change (18446744073709551616 / 2) with 9223372036854775808;
    split; Z.div_mod_to_equations; lia.
Qed.

Theorem atomic_add_no_wrap : forall t cell d, std t -> in_range t (cell + d) -> add t cell d = (cell + d, cell + d).
Proof.
  intros [w sg] cell d [Hw|Hw]; cbn [width] in Hw; subst w; unfold add, wrap, in_range; cbn [width signed]; destruct sg;
    change (2 ^ 32) with 4294967296; change (2 ^ 64) with 18446744073709551616;
    change (2 ^ (32 - 1)) with 2147483648; change (2 ^ (64 - 1)) with 9223372036854775808;
    change (4294967296 / 2) with 2147483648; change (18446744073709551616 / 2) with 9223372036854775808;
    intros H; f_equal; Z.div_mod_to_equations; lia.
Qed.

Theorem atomic_swap_correct : forall cell new, swap cell new = (new, cell).
Proof. reflexivity. Qed.

Theorem atomic_cas_correct : forall cell old new,
  (cell = old -> cas cell old new = (new, true)) /\ (cell <> old -> cas cell old new = (cell, false)).
Proof.
  intros. unfold cas. destruct (Z.eqb_spec cell old); split; intros; try reflexivity; contradiction.
Qed.

Theorem atomic_load_store_correct : forall cell v, load cell = (cell, cell) /\ fst (store cell v) = v.
Proof. intros. split; reflexivity. Qed.
