(* C01 — concrete programs: non-vacuity of the theorems, and the formerly deviating inputs *)
From Coq Require Import ZArith List String Bool.
From Verif Require Import Model.C01_GoSem Model.C01_JsSem Model.C01_Compile Model.C01_Wf.
Import ListNotations.
Local Open Scope Z_scope.

(* ---------------------------------------------------------------- concrete programs *)
Local Open Scope string_scope.
Definition nm (b : string) (i : N) : name := (b, i).

(* nested labelled loops, shadowing, else-if chain with divisions in the conditions, a for-post that
   needs a temporary, int8 overflow, continue through two loops, final division by zero *)
Definition ex_prog : stmt :=
  SSeq (SDefine (nm "n" 0) (TI I) (ELit I 40))
  (SSeq (SDefine (nm "a" 0) (TI I8) (ELit I8 100))
  (SSeq (SFor (Some "L1") (SDefine (nm "i" 0) (TI I) (ELit I 64)) (Some (ECmp (TI I) Gt (EVar (nm "i" 0)) (ELit I 0)))
           (SAssign (nm "i" 0) (EBin false I Quo (EVar (nm "i" 0)) (ELit I 2)))
           (SSeq (SIf (ECmp (TI I) Eq (EBin false I Rem (EVar (nm "i" 0)) (ELit I 3)) (ELit I 1)) (SSeq (SContinue None) SSkip) SNoElse)
           (SSeq (SFor None (SDefine (nm "j" 0) (TI U8) (ELit U8 0)) (Some (ECmp (TI U8) Lt (EVar (nm "j" 0)) (ELit U8 4)))
                    (SIncDec (nm "j" 0) U8 true)
                    (SSeq (SIf (ECmp (TI U8) Eq (EVar (nm "j" 0)) (ELit U8 2)) (SSeq (SContinue (Some "L1")) SSkip) SNoElse)
                    (SSeq (SDefine (nm "a" 1) (TI I8) (EBin false I8 Add (EVar (nm "a" 0)) (EConv U8 I8 (EVar (nm "j" 0)))))
                    (SSeq (SOpAssign (nm "a" 0) I8 Add (ELit I8 27))
                    (SSeq (SPrint [EVar (nm "i" 0); EVar (nm "j" 0); EVar (nm "a" 1); EVar (nm "a" 0)]) SSkip)))))
           (SSeq (SPrint [EVar (nm "i" 0)]) SSkip))))
  (SSeq (SIf (ECmp (TI I) Gt (EBin false I Quo (EVar (nm "n" 0)) (ELit I 7)) (ELit I 9)) (SSeq (SPrint [EVar (nm "n" 0)]) SSkip)
          (SIf (ECmp (TI I) Eq (EBin false I Rem (EVar (nm "n" 0)) (ELit I 7)) (ELit I 5))
               (SSeq (SOpAssign (nm "n" 0) I Shl (ELit U 3)) SSkip)
               (SSeq (SPrint [EVar (nm "a" 0)]) SSkip)))
  (SSeq (SAssign (nm "n" 0) (EBin false I Sub (EVar (nm "n" 0)) (EVar (nm "n" 0))))
  (SSeq (SPrint [EBin false I Quo (ELit I 1) (EVar (nm "n" 0))]) SSkip))))).

Example ex_prog_simulated :
  wf_prog ex_prog = true /\
  exists out, run_go 50 ex_prog = Done out PanicExit /\ List.length out = 6%nat /\
              run_js 50 (compile ex_prog) = Done out PanicExit.
Proof. vm_compute. split. reflexivity. eexists. repeat split; reflexivity. Qed.

(* inputs on which the translator used to deviate from Go (repaired in /repo): the model of the
   repaired translator agrees with Go on them *)
Definition p_quo_minint : stmt :=
  SSeq (SDefine (nm "a" 0) (TI I8) (ELit I8 (-128))) (SSeq (SDefine (nm "b" 0) (TI I8) (ELit I8 (-1)))
  (SSeq (SPrint [EBin false I8 Quo (EVar (nm "a" 0)) (EVar (nm "b" 0))]) SSkip)).
Definition p_neg_minint : stmt :=
  SSeq (SDefine (nm "x" 0) (TI I32) (ELit I32 (-2147483648))) (SSeq (SAssign (nm "x" 0) (ENeg I32 (EVar (nm "x" 0))))
  (SSeq (SPrint [EVar (nm "x" 0)]) SSkip)).
Definition p_shr_const : stmt :=
  SSeq (SDefine (nm "x" 0) (TI I) (ELit I (-5))) (SSeq (SPrint [EBin false I Shr (EVar (nm "x" 0)) (ELit U 32)]) SSkip).
Definition p_shift_skip : stmt :=
  SSeq (SDefine (nm "x" 0) (TI I) (ELit I 1)) (SSeq (SDefine (nm "z" 0) (TI I) (ELit I 0)) (SSeq (SDefine (nm "s" 0) (TI U) (ELit U 40))
  (SSeq (SPrint [EBin false I Shl (EBin false I Quo (EVar (nm "x" 0)) (EVar (nm "z" 0))) (EVar (nm "s" 0))]) SSkip))).


Example formerly_deviating :
  run_js 5 (compile p_quo_minint) = Done [[VI (-128)]] Exit /\ run_go 5 p_quo_minint = Done [[VI (-128)]] Exit /\
  run_js 5 (compile p_neg_minint) = Done [[VI (-2147483648)]] Exit /\ run_go 5 p_neg_minint = Done [[VI (-2147483648)]] Exit /\
  run_js 5 (compile p_shr_const) = Done [[VI (-1)]] Exit /\ run_go 5 p_shr_const = Done [[VI (-1)]] Exit /\
  run_js 5 (compile p_shift_skip) = Done [] PanicExit /\ run_go 5 p_shift_skip = Done [] PanicExit /\
  wf_prog p_quo_minint = true /\ wf_prog p_neg_minint = true /\ wf_prog p_shr_const = true /\ wf_prog p_shift_skip = true.
Proof. vm_compute. repeat split. Qed.
