(* C08 phase 4 — induction steps (function epilogue, the loop of $callDeferred) *)
From Coq Require Import List ZArith Bool Arith Lia.
From Verif Require Import Model.C08_Panic Proofs.C08_Panic Proofs.C08_P4_Once Proofs.C08_P4_Steps.
Import ListNotations.

Lemma fun_finish : forall s s0 s1 s2 id (o2 out : jout),
   Inv s2 -> j_offset s2 = j_offset s ->
   j_deferStack s0 = id :: j_deferStack s -> NoDup (j_deferStack s0) ->
   suffix (j_deferStack s1) (j_deferStack s0) -> suffix (j_deferStack s2) (j_deferStack s1) ->
   ~ In id (j_deferStack s2) ->
   (nothrow o2 -> exists ds0, j_deferStack s1 = id :: ds0 /\ j_deferStack s2 = ds0) ->
   (nothrow out -> nothrow o2) ->
   R s out s2.
Proof.
  intros s s0 s1 s2 id o2 out HI Ho Hd Hn S1 S2 Hni Hnt Himp.
  split; [exact HI|]. split; [exact Ho|]. split.
  - assert (S3 : suffix (j_deferStack s2) (id :: j_deferStack s)) by (rewrite <- Hd; eapply suffix_trans; eassumption).
    destruct (suffix_cons_inv _ _ _ S3) as [E|E]; [|exact E].
    exfalso. apply Hni. rewrite E. now left.
  - intro Hout. destruct (Hnt (Himp Hout)) as [ds0 [E1 E2]].
    rewrite Hd in S1, Hn.
    assert (j_deferStack s1 = id :: j_deferStack s) by (eapply suffix_top; [exact S1|exact Hn|rewrite E1; now left]).
    congruence.
Qed.

Lemma top_none : forall s, top_is None s.
Proof. intros s id E. discriminate E. Qed.

Lemma step_fun : forall fuel, Q_exec fuel -> Q_cd fuel -> Q_fun (S fuel).
Proof.
  intros fuel IHe IHc. red. intros vr p d cell body s out s' Hao HI H.
  cbn [impl_fun] in H.
  destruct (negb (has_defer body)).
  - crack'.
    all: match goal with E : impl_exec _ _ _ _ _ _ _ _ = Some _ |- _ =>
      pose proof (IHe _ _ _ _ _ _ _ _ _ Hao HI (top_none _) E) as HR1 end.
    all: first [eapply R_throw; exact HR1 | eapply R_weaken; [exact HR1|auto with c08]].
  - cbv beta iota zeta delta [j_fresh] in H.
    crack'.
    all: match goal with E : impl_exec _ _ _ _ _ (Some ?id) _ ?s0 = Some (?o1, ?s1) |- _ =>
       assert (HI0 : Inv s0) by (eapply (Inv_enter s); [exact HI|reflexivity|reflexivity|reflexivity|reflexivity]);
       assert (Hs0 : j_deferStack s0 = id :: j_deferStack s) by reflexivity;
       assert (Ho0 : j_offset s0 = j_offset s) by reflexivity;
       assert (Ht0 : top_is (Some id) s0) by (intros id' E'; inversion E'; subst; eexists; reflexivity);
       pose proof (IHe _ _ _ _ _ _ _ _ _ Hao HI0 Ht0 E) as (A1 & B1 & C1 & D1) end.
    all: match goal with E : impl_cd _ _ _ _ (Some ?id) ?err false ?s1 = Some (?o2, ?s2) |- _ =>
       assert (Hpre : cd_pre (Some id) err false s1) by
         (split; [apply A1|]; split; [apply A1|]; exists id; split; [reflexivity|]; intro Hi;
          exists (j_deferStack s); eapply suffix_top; [rewrite <- Hs0; exact C1 | rewrite <- Hs0; apply HI0 | exact Hi]);
       pose proof (IHc _ _ _ _ _ _ _ _ _ Hao Hpre E) as (A2 & B2 & C2 & _ & E2);
       specialize (E2 eq_refl id eq_refl); destruct E2 as [F2 G2] end.
    all: eapply fun_finish; [exact A2 | congruence | exact Hs0 | apply HI0 | exact C1 | exact C2 | exact F2 | exact G2 | ].
    all: try (intros _; auto with c08; fail).
    all: intro Hn; exfalso; eapply Hn; reflexivity.
Qed.
