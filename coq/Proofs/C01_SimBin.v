(* C01 — simulation proof, part 4: binary arithmetic expressions (operator templates and shifts) *)
From Coq Require Import ZArith List String Bool Lia.
From Verif Require Import Model.C01_GoSem Model.C01_JsSem Model.C01_Compile Model.C01_Wf
  Proofs.C01_Arith Proofs.C01_Arith2 Proofs.C01_Arith3 Proofs.C01_SimBase Proofs.C01_SimExpr Proofs.C01_SimExpr2.
Import ListNotations.
Local Open Scope Z_scope.

Section Bin.
  Variable g : env.
  Variable sg : store val.
  Notation SimAt := (SimAt g sg).

  Definition count_ok (b : expr) : bool :=
    match b with
    | ELit _ c => 0 <=? c
    | _ => match wf_expr g b with Some (TI kb) => negb (signed kb) | _ => false end
    end.

  Lemma count_sim : forall b st0 jb st1 sj, SimAt b -> count_ok b = true ->
    cexpr st0 b = (jb, st1) -> rho_ok st0 -> Inv g (rho st0) sg sj ->
    (eval sg b = EPanic /\ jeval sj jb = JThrow) \/
    exists c sj1, eval sg b = EV (VI c) /\ 0 <= c /\ jeval sj jb = JOk (JI c) sj1 /\ frame st0 sj sj1.
  Proof.
    intros b st0 jb st1 sj IH Hok Hc Hr HI.
    assert (G : forall kb, wf_expr g b = Some (TI kb) -> signed kb = false ->
      (eval sg b = EPanic /\ jeval sj jb = JThrow) \/
      exists c sj1, eval sg b = EV (VI c) /\ 0 <= c /\ jeval sj jb = JOk (JI c) sj1 /\ frame st0 sj sj1).
    { intros kb W Hs.
      destruct (ESim_val _ _ _ _ _ _ (IH _ _ _ _ _ W Hc Hr HI)) as [[E J] | [v [sj1 [E [V [J F]]]]]].
      - left; auto.
      - right. destruct (val_ok_int _ _ V) as [z [-> Hz]]. exists z, sj1. repeat split; auto.
        pose proof (unsigned_range32 kb z Hs Hz). lia. }
    destruct b; cbn [count_ok] in Hok;
      try (destruct (wf_expr g _) as [[kb|]|] eqn:W; try discriminate; apply (G kb); [reflexivity || exact W | now destruct (signed kb)]).
    (* literal count *)
    cbn [cexpr] in Hc. inversion Hc; subst. right.
    apply Z.leb_le in Hok. eexists; exists sj. repeat split; try eassumption; try apply frame_refl.
    cbn in Hok. discriminate.
  Qed.

  Lemma sim_bin_arith : forall p k op a b, is_shift op = false ->
    SimAt a -> SimAt b -> SimAt (EBin p k op a b).
  Proof.
    intros p k op a b Sh IHa IHb t st je st' sj Hwf Hc Hr HI.
    wf_if Hwf W. rewrite Sh in W. destruct W as [[Wa Wb] _]. rewrite andb_true_iff in Wb. destruct Wb as [Wb _].
    apply opt_ty_is_spec in Wa, Wb.
    cbn [cexpr] in Hc. rewrite Sh in Hc.
    assert (Hal : exists tn st0,
      (let '(ja, st1) := cexpr st0 a in let '(jb, st2) := cexpr st1 b in (tmpl k op tn ja jb, st2)) = (je, st') /\
      st_le st st0 /\ rho st0 = rho st /\ (temp_base op <> None -> ~ below st tn)).
    { destruct (temp_base op) as [bs|].
      - destruct (alloc st bs) as [tn st0] eqn:Al. apply alloc_spec in Al. destruct Al as [A1 [A2 [A3 A4]]].
        exists tn, st0. auto.
      - exists (""%string, 0%N), st. repeat split; auto using st_le_refl; try (intros H; contradiction). }
    clear Hc. destruct Hal as [tn [st0 [Hc [L0 [R0 Ht]]]]].
    destruct (cexpr st0 a) as [ja st1] eqn:Ca. destruct (cexpr st1 b) as [jb st2] eqn:Cb.
    inversion Hc; subst; clear Hc.
    assert (Hr0 : rho_ok st0) by (apply (rho_ok_mono st); auto).
    assert (HI0 : Inv g (rho st0) sg sj) by (rewrite R0; exact HI).
    destruct (sim_two g sg a b _ _ _ _ _ _ _ sj IHa IHb Wa Wb Ca Cb Hr0 HI0)
      as [[E J] | [va [sj1 [E [V [J [F R]]]]]]]; unfold ESim; cbn [eval]; rewrite E.
    - apply tmpl_throw_a; assumption.
    - destruct (val_ok_int _ _ V) as [za [-> Hza]].
      destruct R as [[E2 J2] | [vb [sj2 [E2 [V2 [J2 [F2 F02]]]]]]]; rewrite E2.
      + eapply tmpl_throw_b; eassumption.
      + destruct (val_ok_int _ _ V2) as [zb [-> Hzb]].
        pose proof (tmpl_sim k op tn ja jb sj za sj1 zb sj2 Sh Hza Hzb J J2) as T.
        destruct (go_bin k op za zb) as [[r|?]| |]; try contradiction; [|exact T].
        destruct T as [Hrg [s' [Js Hs']]]. split. exact Hrg. exists s'. split. exact Js.
        assert (F0 : frame st sj sj2) by (unfold frame in *; intros; apply F02; apply L0; assumption).
        destruct Hs' as [-> | [Hn [d ->]]]. exact F0.
        eapply frame_trans; [apply st_le_refl | exact F0 | apply frame_set; auto].
  Qed.

  Lemma is_var_inv : forall a, is_var a = true -> exists v, a = EVar v.
  Proof. destruct a; cbn; intros; try discriminate. eauto. Qed.

  Lemma fix_throw_comma : forall k e s, jeval s e = JThrow -> jeval s (fix_number k e) = JThrow.
  Proof. exact fix_number_throw. Qed.

  Lemma sim_bin_shift : forall p k op a b, is_shift op = true ->
    SimAt a -> SimAt b -> SimAt (EBin p k op a b).
  Proof.
    intros p k op a b Sh IHa IHb t st je st' sj Hwf Hc Hr HI.
    wf_if Hwf W. rewrite Sh in W. destruct W as [[Wa Wb] _]. rewrite andb_true_iff in Wb. destruct Wb as [_ Wb].
    apply opt_ty_is_spec in Wa. fold (count_ok b) in Wb.
    cbn [cexpr] in Hc. rewrite Sh in Hc.
    (* the left operand, compiled at any state that keeps rho *)
    assert (SA : forall st0 ja st1 s, cexpr st0 a = (ja, st1) -> rho_ok st0 -> Inv g (rho st0) sg s ->
      (eval sg a = EPanic /\ jeval s ja = JThrow) \/
      exists za s1, eval sg a = EV (VI za) /\ in_range k za = true /\ jeval s ja = JOk (JI za) s1 /\ frame st0 s s1).
    { intros st0 ja st1 s Ca Hr0 HI0.
      destruct (ESim_val _ _ _ _ _ _ (IHa _ _ _ _ _ Wa Ca Hr0 HI0)) as [[E J] | [v [s1 [E [V [J F]]]]]].
      left; auto. right. destruct (val_ok_int _ _ V) as [z [-> Hz]]. exists z, s1. auto. }
    unfold ESim. cbn [eval].
    destruct (const_of p b) as [c|] eqn:Cst.
    - (* constant count *)
      assert (Hb : exists kc, b = ELit kc c).
      { unfold const_of in Cst. destruct p; try discriminate. destruct b; try discriminate. inversion Cst; eauto. }
      destruct Hb as [kc ->]. cbn [count_ok] in Wb. apply Z.leb_le in Wb. cbn [eval].
      destruct (32 <=? c) eqn:Big.
      + apply Z.leb_le in Big.
        assert (Forms : (op = Shr /\ signed k = true) \/ (shift_res k op = fun _ _ => shift_res k op 0 c) \/ True) by auto.
        destruct op; try discriminate.
        * (* Shl, count >= 32 *)
          destruct (is_var a) eqn:Va.
          -- destruct (is_var_inv _ Va) as [v ->]. inversion Hc; subst; clear Hc.
             destruct (SA _ _ _ sj eq_refl Hr HI) as [[E J] | [za [s1 [E [Hz [J F]]]]]]; rewrite E.
             ++ cbn [eval] in E. destruct (get sg v); discriminate.
             ++ rewrite go_bin_shift by (auto; lia). cbn [shift_res]. replace (32 <=? c) with true by lia.
                split. destruct k; reflexivity. exists sj. split. reflexivity. apply frame_refl.
          -- destruct (cexpr st a) as [ja st1] eqn:Ca. 
             assert (Hc' : (JComma ja (JNum 0), st1) = (je, st')) by (destruct (signed k); exact Hc).
             inversion Hc'; subst; clear Hc Hc'.
             destruct (SA _ _ _ sj Ca Hr HI) as [[E J] | [za [s1 [E [Hz [J F]]]]]]; rewrite E.
             ++ cbn [jeval]. rewrite J. reflexivity.
             ++ rewrite go_bin_shift by (auto; lia). cbn [shift_res]. replace (32 <=? c) with true by lia.
                split. destruct k; reflexivity. exists s1. split; auto. cbn [jeval]. rewrite J. reflexivity.
        * (* Shr, count >= 32 *)
          destruct (signed k) eqn:Sg.
          -- destruct (cexpr st a) as [ja st1] eqn:Ca. inversion Hc; subst; clear Hc.
             destruct (SA _ _ _ sj Ca Hr HI) as [[E J] | [za [s1 [E [Hz [J F]]]]]]; rewrite E.
             ++ apply fix_number_throw. unfold jshr. cbn [jeval]. rewrite J. reflexivity.
             ++ rewrite go_bin_shift by (auto; lia). split. apply shift_res_in_range; auto; lia.
                exists s1. split; auto. apply shr_const_big_sim; auto.
          -- destruct (is_var a) eqn:Va.
             ++ destruct (is_var_inv _ Va) as [v ->]. inversion Hc; subst; clear Hc.
                destruct (SA _ _ _ sj eq_refl Hr HI) as [[E J] | [za [s1 [E [Hz [J F]]]]]]; rewrite E.
                ** cbn [eval] in E. destruct (get sg v); discriminate.
                ** rewrite go_bin_shift by (auto; lia). cbn [shift_res]. rewrite Sg. replace (32 <=? c) with true by lia.
                   split. destruct k; reflexivity. exists sj. split. reflexivity. apply frame_refl.
             ++ destruct (cexpr st a) as [ja st1] eqn:Ca. inversion Hc; subst; clear Hc.
                destruct (SA _ _ _ sj Ca Hr HI) as [[E J] | [za [s1 [E [Hz [J F]]]]]]; rewrite E.
                ** cbn [jeval]. rewrite J. reflexivity.
                ** rewrite go_bin_shift by (auto; lia). cbn [shift_res]. rewrite Sg. replace (32 <=? c) with true by lia.
                   split. destruct k; reflexivity. exists s1. split; auto. cbn [jeval]. rewrite J. reflexivity.
      + apply Z.leb_gt in Big.
        destruct (cexpr st a) as [ja st1] eqn:Ca. inversion Hc; subst; clear Hc.
        destruct (SA _ _ _ sj Ca Hr HI) as [[E J] | [za [s1 [E [Hz [J F]]]]]]; rewrite E.
        * apply fix_number_throw. cbn [jeval]. rewrite J. reflexivity.
        * rewrite go_bin_shift by (auto; lia). split. apply shift_res_in_range; auto.
          exists s1. split; auto. apply shift_const_sim; auto; lia.
    - (* count not a compile-time constant *)
      destruct (match op with Shr => signed k | _ => false end) eqn:Form.
      + (* signed x >> y *)
        assert (op = Shr /\ signed k = true) as [-> Sg] by (destruct op; try discriminate; auto).
        rewrite Sg in Hc.
        destruct (cexpr st a) as [ja st1] eqn:Ca. destruct (cexpr st1 b) as [jb st2] eqn:Cb. inversion Hc; subst; clear Hc.
        destruct (cexpr_mono _ _ _ _ Ca) as [L1 R1].
        destruct (SA _ _ _ sj Ca Hr HI) as [[E J] | [za [s1 [E [Hz [J F]]]]]]; rewrite E.
        * apply fix_number_throw. cbn [jeval]. rewrite J. reflexivity.
        * assert (Hr1 : rho_ok st1) by (apply (rho_ok_mono st); auto).
          assert (HI1 : Inv g (rho st1) sg s1) by (apply (Inv_next g sg st st1 sj s1); auto).
          destruct (count_sim b st1 jb _ s1 IHb Wb Cb Hr1 HI1) as [[E2 J2] | [c [s2 [E2 [Hc0 [J2 F2]]]]]]; rewrite E2.
          -- apply fix_number_throw. cbn [jeval]. rewrite J. cbn [jeval]. rewrite J2. reflexivity.
          -- rewrite go_bin_shift by auto. split. apply shift_res_in_range; auto.
             exists s2. split. apply (shr_min_sim k ja jb sj za s1 c s2); auto.
             eapply frame_trans; eauto.
      + (* (y = count, y < 32 ? (x op y) : 0), with x hoisted when it is not an identifier *)
        assert (NS : ~ (op = Shr /\ signed k = true)) by (intros [-> Sg]; rewrite Sg in Form; discriminate).
        assert (Hc2 : (let '(y, st0) := alloc st "y"%string in
                if is_var a then
                  let '(jb, st1) := cexpr st0 b in let '(ja, st2) := cexpr st1 a in
                  (fix_number k (JComma (JAsg y jb) (shift_cond k op y ja)), st2)
                else
                  let '(x, st0') := alloc st0 "x"%string in
                  let '(ja, st1) := cexpr st0' a in let '(jb, st2) := cexpr st1 b in
                  (fix_number k (JComma (JComma (JAsg x ja) (JAsg y jb)) (shift_cond k op y (JVar x))), st2)) = (je, st')).
        { destruct op; try discriminate; try exact Hc. destruct (signed k); [discriminate | exact Hc]. }
        clear Hc.
        assert (RES : forall za c, 0 <= c ->
           (match op with Shl => shift_res k Shl za c | _ => if 32 <=? c then 0 else za / 2 ^ c end) = shift_res k op za c).
        { intros za c Hc0. destruct op; try discriminate; try reflexivity. cbn [shift_res].
          destruct (signed k) eqn:Sg; [exfalso; apply NS; auto | reflexivity]. }
        destruct (alloc st "y"%string) as [y st0] eqn:Ay.
        pose proof (alloc_spec _ _ _ _ Ay) as [Y1 [Y2 [Y3 Y4]]].
        assert (Yb : fst y = "y"%string) by (unfold alloc in Ay; inversion Ay; reflexivity).
        assert (Hr0 : rho_ok st0) by (apply (rho_ok_mono st); auto).
        assert (HI0 : Inv g (rho st0) sg sj) by (rewrite Y4; exact HI).
        destruct (is_var a) eqn:Va.
        * destruct (is_var_inv _ Va) as [v ->].
          destruct (cexpr st0 b) as [jb st1] eqn:Cb. cbn [cexpr] in Hc2. inversion Hc2; subst; clear Hc2.
          destruct (cexpr_mono _ _ _ _ Cb) as [L1 R1].
          (* the variable *)
          apply env_get_In in Wa. destruct HI as [Hf HIv]. destruct (HIv v (TI k) Wa) as [av [na [G1 [G2 [G3 G4]]]]].
          destruct (val_ok_int _ _ G2) as [za [-> Hz]]. cbn [eval]. rewrite G1.
          assert (Hna : below st na) by (destruct Hr as [Hb _]; eapply Hb; eauto).
          destruct (count_sim b st0 jb _ sj IHb Wb Cb Hr0 HI0) as [[E2 J2] | [c [s1 [E2 [Hc0 [J2 F2]]]]]]; rewrite E2.
          -- apply fix_number_throw. cbn [jeval]. rewrite J2. reflexivity.
          -- rewrite go_bin_shift by auto.
             assert (Gy : get (set s1 y (JI c)) y = Some (JI c)) by apply get_set_same.
             assert (Gx : jeval (set s1 y (JI c)) (JVar (js_name st' v)) = JOk (JI za) (set s1 y (JI c))).
             { cbn [jeval]. unfold js_name. rewrite R1, Y4, G3. rewrite get_set_other by (intro; subst; contradiction).
               rewrite F2 by (apply Y3; assumption). rewrite G4. reflexivity. }
             destruct (shift_cond_eval k op y _ _ za c Sh Hz Hc0 Gy Gx) as [vv [Ev Hv]].
             split. apply shift_res_in_range; auto.
             exists (set s1 y (JI c)). split.
             ++ rewrite <- RES, <- Hv by assumption. apply fix_number_eval. cbn [jeval]. rewrite J2. exact Ev.
             ++ eapply frame_trans; [apply st_le_refl | | apply frame_set; assumption].
                unfold frame in *. intros. apply F2. apply Y3. assumption.
        * destruct (alloc st0 "x"%string) as [x st0'] eqn:Ax.
          pose proof (alloc_spec _ _ _ _ Ax) as [X1 [X2 [X3 X4]]].
          assert (Xb : fst x = "x"%string) by (unfold alloc in Ax; inversion Ax; reflexivity).
          assert (Nxy : x <> y) by (intro; subst; rewrite Yb in Xb; discriminate).
          destruct (cexpr st0' a) as [ja st1] eqn:Ca. destruct (cexpr st1 b) as [jb st2] eqn:Cb.
          inversion Hc2; subst; clear Hc2.
          destruct (cexpr_mono _ _ _ _ Ca) as [L1 R1]. destruct (cexpr_mono _ _ _ _ Cb) as [L2 R2].
          assert (Hr0' : rho_ok st0') by (apply (rho_ok_mono st0); auto).
          assert (HI0' : Inv g (rho st0') sg sj) by (rewrite X4; exact HI0).
          destruct (SA _ _ _ sj Ca Hr0' HI0') as [[E J] | [za [s1 [E [Hz [J F]]]]]]; rewrite E.
          -- apply fix_number_throw. cbn [jeval]. rewrite J. reflexivity.
          -- set (s1' := set s1 x (JI za)).
             assert (Lx : st_le st st0') by (eapply st_le_trans; eauto).
             assert (Fx : frame st sj s1').
             { eapply frame_trans; [apply st_le_refl | | apply frame_set; intro; apply X1; apply Y3; assumption].
               unfold frame in *. intros. apply F. apply Lx. assumption. }
             assert (Hr1 : rho_ok st1) by (apply (rho_ok_mono st0'); auto).
             assert (HI1 : Inv g (rho st1) sg s1').
             { apply (Inv_next g sg st st1 sj s1'); auto. eapply st_le_trans; eauto. congruence. }
             destruct (count_sim b st1 jb _ s1' IHb Wb Cb Hr1 HI1) as [[E2 J2] | [c [s2 [E2 [Hc0 [J2 F2]]]]]]; rewrite E2.
             ++ apply fix_number_throw. cbn [jeval]. rewrite J. cbn [jeval]. fold s1'. rewrite J2. reflexivity.
             ++ rewrite go_bin_shift by auto.
                assert (Gy : get (set s2 y (JI c)) y = Some (JI c)) by apply get_set_same.
                assert (Gx : jeval (set s2 y (JI c)) (JVar x) = JOk (JI za) (set s2 y (JI c))).
                { cbn [jeval]. rewrite get_set_other by auto. rewrite F2 by (apply L1; assumption).
                  unfold s1'. rewrite get_set_same. reflexivity. }
                destruct (shift_cond_eval k op y _ _ za c Sh Hz Hc0 Gy Gx) as [vv [Ev Hv]].
                split. apply shift_res_in_range; auto.
                exists (set s2 y (JI c)). split.
                ** rewrite <- RES, <- Hv by assumption. apply fix_number_eval.
                   cbn [jeval]. rewrite J. cbn [jeval]. fold s1'. rewrite J2. exact Ev.
                ** eapply frame_trans; [apply st_le_refl | | apply frame_set; assumption].
                   eapply frame_trans; [apply st_le_refl | exact Fx |].
                   unfold frame in *. intros. apply F2. apply L1. apply Lx. assumption.
  Qed.

  Lemma sim_bin : forall p k op a b, SimAt a -> SimAt b -> SimAt (EBin p k op a b).
  Proof.
    intros. destruct (is_shift op) eqn:Sh; [apply sim_bin_shift | apply sim_bin_arith]; assumption.
  Qed.

  Theorem cexpr_sim : forall e, SimAt e.
  Proof.
    induction e.
    - apply sim_var.
    - apply sim_lit.
    - apply sim_bool.
    - apply sim_bin; assumption.
    - apply sim_cmp; assumption.
    - apply sim_and; assumption.
    - apply sim_or; assumption.
    - apply sim_not; assumption.
    - apply sim_neg; assumption.
    - apply sim_cpl; assumption.
    - apply sim_conv; assumption.
  Qed.
End Bin.
