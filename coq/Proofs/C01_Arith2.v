(* C01 — arithmetic lemmas, part 2: xor, and-not, unary operators, conversions, division *)
From Coq Require Import ZArith List String Bool Lia ZifyBool.
From Verif Require Import Model.C01_GoSem Model.C01_JsSem Model.C01_Compile Proofs.C01_Arith.
Import ListNotations.
Local Open Scope Z_scope.
Ltac Zify.zify_post_hook ::= Z.to_euclidean_division_equations.

Lemma xor_correct : forall k t a b s, in_range k a = true -> in_range k b = true ->
  jeval s (tmpl k Xor t (JNum a) (JNum b)) = JOk (JI (norm k (Z.lxor a b))) s.
Proof.
  intros k t a b s Ha Hb. rng.
  assert (small : - 2 ^ 31 <= a < 2 ^ 31 -> - 2 ^ 31 <= b < 2 ^ 31 ->
                  jeval s (tmpl k Xor t (JNum a) (JNum b)) = JOk (JI (norm k (Z.lxor a b))) s).
  { intros. apply (fix_number_eval _ (JBin JBxor (JNum a) (JNum b))).
    cbn [jeval js_bin to_int32]. rewrite (smod32_id a), (smod32_id b) by assumption. reflexivity. }
  destruct k; cbn [signed bits] in *; pows; try (apply small; pows; lia); clear small.
  all: cbn [tmpl fix_number]; unfold jushr; cbn [jeval js_bin to_int32 to_uint32]; do 2 f_equal;
    (replace (2 ^ (umod 32 (smod 32 0) mod 32)) with 1 by reflexivity); rewrite Z.div_1_r, umod_smod32;
    unfold norm, umod; cbn [signed bits];
    rewrite lxor_mod, !smod32_mod, <- lxor_mod by lia; reflexivity.
Qed.

Lemma lnot_mod32 : forall z, Z.lnot (smod 32 z) mod 2 ^ 32 = Z.lnot z mod 2 ^ 32.
Proof. intros. unfold Z.lnot, Z.pred. unf. lia. Qed.

Lemma andnot_correct : forall k t a b s, in_range k a = true -> in_range k b = true ->
  jeval s (tmpl k AndNot t (JNum a) (JNum b)) = JOk (JI (norm k (Z.land a (Z.lnot b)))) s.
Proof.
  intros k t a b s Ha Hb. rng.
  assert (small : - 2 ^ 31 <= a < 2 ^ 31 -> - 2 ^ 31 <= b < 2 ^ 31 ->
                  jeval s (tmpl k AndNot t (JNum a) (JNum b)) = JOk (JI (norm k (Z.land a (Z.lnot b)))) s).
  { intros. apply (fix_number_eval _ (JBin JBand (JNum a) (JUn JBnot (JNum b)))).
    cbn [jeval js_bin js_un to_int32]. rewrite (smod32_id a), (smod32_id b) by assumption.
    rewrite (smod32_id (Z.lnot b)) by (unfold Z.lnot, Z.pred; pows; lia). reflexivity. }
  destruct k; cbn [signed bits] in *; pows; try (apply small; pows; lia); clear small.
  all: cbn [tmpl fix_number]; unfold jushr; cbn [jeval js_bin js_un to_int32 to_uint32]; do 2 f_equal;
    (replace (2 ^ (umod 32 (smod 32 0) mod 32)) with 1 by reflexivity); rewrite Z.div_1_r, umod_smod32;
    unfold norm, umod; cbn [signed bits];
    rewrite land_mod, !smod32_mod, lnot_mod32, <- land_mod by lia; reflexivity.
Qed.

(* ---------------------------------------------------------------- unary operators, conversions *)
Lemma neg_sim : forall k ja s a s',
  jeval s ja = JOk (JI a) s' -> jeval s (fix_number k (JUn JNeg ja)) = JOk (JI (norm k (- a))) s'.
Proof. intros. apply fix_number_eval. cbn [jeval]. rewrite H. reflexivity. Qed.

Lemma norm_smod32 : forall k x, norm k (smod 32 x) = norm k x.
Proof. intros. destruct k; unf; lia. Qed.

Lemma norm_lnot_smod32 : forall k x, norm k (Z.lnot (smod 32 x)) = norm k (Z.lnot x).
Proof. intros. unfold Z.lnot, Z.pred. destruct k; unf; lia. Qed.

Lemma cpl_sim : forall k ja s a s',
  jeval s ja = JOk (JI a) s' -> jeval s (fix_number k (JUn JBnot ja)) = JOk (JI (norm k (Z.lnot a))) s'.
Proof.
  intros. rewrite <- norm_lnot_smod32. apply fix_number_eval. cbn [jeval]. rewrite H. reflexivity.
Qed.

Lemma conv_sim : forall from to ja s a s', in_range from a = true ->
  jeval s ja = JOk (JI a) s' ->
  jeval s (if kind_eqb from to then ja else fix_number to ja) = JOk (JI (norm to a)) s'.
Proof.
  intros from to ja s a s' Ha H. destruct (kind_eqb from to) eqn:E.
  - assert (from = to) by (destruct from, to; try discriminate; reflexivity). subst.
    rewrite norm_id by assumption. assumption.
  - apply fix_number_eval. assumption.
Qed.

(* ---------------------------------------------------------------- division *)
Lemma quot_exact_div : forall a b, b <> 0 -> a mod b = 0 -> a / b = Z.quot a b.
Proof. intros. nia. Qed.

Definition div_val (k : kind) (q : Z) : Z := if signed k then smod 32 q else umod 32 (smod 32 q).

Ltac stp := cbn [jeval js_bin js_un js_seq get set negb to_int32 to_uint32 Z.eqb Z.ltb Z.compare Bool.eqb]; rewrite ?name_eqb_refl, ?Z.eqb_refl.

Definition quo_inner (k : kind) (t : name) (ja jb : jexpr) : jexpr :=
  JComma (JAsg t (JBin JDiv ja jb))
    (JCond (JAnd (JAnd (JBin JSeq (JVar t) (JVar t)) (JBin JSne (JVar t) jinf)) (JBin JSne (JVar t) jninf))
           (if signed k then jshr (JVar t) 0 else jushr (JVar t) 0) (JThrowE div_msg)).

Lemma tmpl_quo_eq : forall k t ja jb,
  tmpl k Quo t ja jb = match k with I8 | I16 => fix_number k (quo_inner k t ja jb) | _ => quo_inner k t ja jb end.
Proof. intros. destruct k; reflexivity. Qed.

Lemma quo_inner_eval : forall k t a b s, b <> 0 ->
  exists d, jeval s (quo_inner k t (JNum a) (JNum b)) = JOk (JI (div_val k (Z.quot a b))) (set s t d).
Proof.
  intros k t a b s Hb. unfold quo_inner, jinf, jninf, jshr, jushr, div_val.
  assert (D : (exists z, js_div a b = JI z /\ z = Z.quot a b) \/ js_div a b = JFrac a b).
  { unfold js_div. rewrite (proj2 (Z.eqb_neq b 0) Hb). destruct (a mod b =? 0) eqn:Em.
    - left. eexists. split. reflexivity. apply quot_exact_div; lia.
    - right. reflexivity. }
  assert (P : js_div 1 0 = JPInf) by reflexivity. assert (N : js_div (-1) 0 = JNInf) by reflexivity.
  cbn [jeval js_bin].
  destruct D as [[z [-> ->]] | ->].
  - repeat stp; rewrite ?P, ?N; repeat stp; rewrite ?P, ?N; repeat stp.
    eexists. destruct (signed k); repeat stp;
      (replace (2 ^ (umod 32 (smod 32 0) mod 32)) with 1 by reflexivity); rewrite Z.div_1_r; reflexivity.
  - repeat stp; rewrite ?P, ?N; repeat stp; rewrite ?P, ?N; repeat stp.
    eexists. destruct (signed k); repeat stp;
      (replace (2 ^ (umod 32 (smod 32 0) mod 32)) with 1 by reflexivity); rewrite Z.div_1_r; reflexivity.
Qed.

Lemma quo_inner_zero : forall k t a s, jeval s (quo_inner k t (JNum a) (JNum 0)) = JThrow.
Proof.
  intros. unfold quo_inner, jinf, jninf, jshr, jushr.
  cbn [jeval js_bin].
  assert (D : js_div a 0 = JPInf \/ js_div a 0 = JNInf \/ js_div a 0 = JNaN).
  { unfold js_div. cbn [Z.eqb]. destruct (0 <? a); auto. destruct (a <? 0); auto. }
  assert (P : js_div 1 0 = JPInf) by reflexivity. assert (N : js_div (-1) 0 = JNInf) by reflexivity.
  destruct D as [-> | [-> | ->]]; repeat stp; rewrite ?P, ?N; repeat stp; rewrite ?P, ?N; repeat stp; reflexivity.
Qed.

Lemma fix_number_throw : forall k e s, jeval s e = JThrow -> jeval s (fix_number k e) = JThrow.
Proof. intros. destruct k; cbn [fix_number jshl jshr jushr jeval]; rewrite H; reflexivity. Qed.

(* the emitted quotient is Go's: norm k (a quot b), for all operands incl. MinInt / -1 *)
Lemma quo_correct : forall k t a b s, in_range k a = true -> in_range k b = true -> b <> 0 ->
  exists d, jeval s (tmpl k Quo t (JNum a) (JNum b)) = JOk (JI (norm k (Z.quot a b))) (set s t d).
Proof.
  intros k t a b s Ha Hb Hz. rewrite tmpl_quo_eq.
  destruct (quo_inner_eval k t a b s Hz) as [d H]. exists d. rng.
  destruct k; cbn [signed bits] in *; pows; unfold div_val in H; cbn [signed] in H.
  - rewrite <- (norm_smod32 I8). apply fix_number_eval. exact H.
  - rewrite <- (norm_smod32 I16). apply fix_number_eval. exact H.
  - exact H.
  - exact H.
  - rewrite H. do 2 f_equal. assert (0 <= Z.quot a b <= a) by nia. unf. lia.
  - rewrite H. do 2 f_equal. assert (0 <= Z.quot a b <= a) by nia. unf. lia.
  - rewrite H. do 2 f_equal. assert (0 <= Z.quot a b <= a) by nia. unf. lia.
  - rewrite H. do 2 f_equal. assert (0 <= Z.quot a b <= a) by nia. unf. lia.
Qed.

Lemma quo_zero : forall k t a s, jeval s (tmpl k Quo t (JNum a) (JNum 0)) = JThrow.
Proof.
  intros. rewrite tmpl_quo_eq. destruct k; try apply quo_inner_zero; apply fix_number_throw, quo_inner_zero.
Qed.

Lemma rem_in_range : forall k a b, in_range k a = true -> in_range k b = true -> b <> 0 ->
  in_range k (Z.rem a b) = true.
Proof. intros k a b Ha Hb Hz. destruct k; unf; lia. Qed.

Lemma rem_correct : forall k t a b s, in_range k a = true -> in_range k b = true -> b <> 0 ->
  exists d, jeval s (tmpl k Rem t (JNum a) (JNum b)) = JOk (JI (Z.rem a b)) (set s t d).
Proof.
  intros k t a b s Ha Hb Hz. cbn [tmpl]. eexists.
  rewrite <- (norm_id k (Z.rem a b)) at 1 by (apply rem_in_range; assumption).
  apply fix_number_eval.
  cbn [jeval js_bin]. rewrite (proj2 (Z.eqb_neq b 0) Hz). repeat stp. reflexivity.
Qed.

Lemma rem_zero : forall k t a s, jeval s (tmpl k Rem t (JNum a) (JNum 0)) = JThrow.
Proof.
  intros. cbn [tmpl]. apply fix_number_throw. cbn [jeval js_bin Z.eqb]. repeat stp. reflexivity.
Qed.
