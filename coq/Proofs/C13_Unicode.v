(* C13 — unicode.to: the override equals upstream's `to`, and both equal the first-match scan on
   sorted tables: proofs. *)
From Coq Require Import ZArith Lia List Bool.
From Verif Require Import Model.C13_Unicode.
Import ListNotations.
Local Open Scope Z_scope.

Definition dflt : case_range := {| cr_lo := 0; cr_hi := -1; cr_d0 := 0; cr_d1 := 0; cr_d2 := 0 |}.

(* ---- the two midpoint computations coincide *)
Lemma mid_eq : forall lo hi, mid_js lo hi = mid_go lo hi.
Proof.
  intros. unfold mid_js, mid_go. rewrite Z.shiftr_div_pow2 by lia. change (2 ^ 1) with 2.
  Z.div_mod_to_equations. lia.
Qed.

Lemma search_mid_eq : forall fuel tab c r lo hi, search mid_js fuel tab c r lo hi = search mid_go fuel tab c r lo hi.
Proof.
  induction fuel as [|f IH]; intros; [reflexivity|]. cbn [search]. rewrite mid_eq.
  destruct (lo <? hi); [|reflexivity].
  destruct (in_range _ r); [reflexivity|]. destruct (r <? _); apply IH.
Qed.

Theorem to_js_eq_go : forall tab c r, to_js tab c r = to_go tab c r.
Proof. intros. unfold to_js, to_go, to_with. destruct (_ || _); [reflexivity|]. apply search_mid_eq. Qed.

(* ---- sorted tables, in terms of positions *)
Definition ordered (tab : list case_range) : Prop :=
  (forall i, (i < length tab)%nat -> cr_lo (nth i tab dflt) <= cr_hi (nth i tab dflt)) /\
  (forall i j, (i < j < length tab)%nat -> cr_hi (nth i tab dflt) < cr_lo (nth j tab dflt)).

Lemma sorted_from_nth : forall tab p, sorted_from p tab = true ->
  forall i, (i < length tab)%nat ->
    p < cr_lo (nth i tab dflt) /\ cr_lo (nth i tab dflt) <= cr_hi (nth i tab dflt) /\
    forall j, (i < j < length tab)%nat -> cr_hi (nth i tab dflt) < cr_lo (nth j tab dflt).
Proof.
  induction tab as [|cr rest IH]; intros p Hs i Hi; [cbn in Hi; lia|].
  cbn [sorted_from] in Hs. apply andb_prop in Hs. destruct Hs as [Hs Hrest]. apply andb_prop in Hs. destruct Hs as [Hp Hlh].
  apply Z.ltb_lt in Hp. apply Z.leb_le in Hlh.
  destruct i as [|i'].
  - cbn [nth]. repeat split; try assumption.
    intros j Hj. destruct j as [|j']; [lia|]. cbn [nth]. cbn [length] in Hj.
    destruct (IH _ Hrest j' ltac:(lia)) as (H1 & _). exact H1.
  - cbn [nth]. cbn [length] in Hi.
    destruct (IH _ Hrest i' ltac:(lia)) as (H1 & H2 & H3).
    repeat split; try lia.
    intros j Hj. destruct j as [|j']; [lia|]. cbn [nth]. cbn [length] in Hj. apply H3. lia.
Qed.

Lemma sorted_ordered : forall tab, table_sorted tab = true -> ordered tab.
Proof.
  intros tab H. destruct tab as [|cr rest]; [split; intros; cbn in *; lia|].
  assert (Hs : sorted_from (cr_lo cr - 1) (cr :: rest) = true).
  { cbn [table_sorted] in H. cbn [sorted_from]. apply andb_prop in H. destruct H as [H1 H2].
    rewrite H1, H2. replace (cr_lo cr - 1 <? cr_lo cr) with true by (symmetry; apply Z.ltb_lt; lia). reflexivity. }
  split.
  - intros i Hi. destruct (sorted_from_nth _ _ Hs i Hi) as (_ & H2 & _). exact H2.
  - intros i j Hij. destruct (sorted_from_nth _ _ Hs i ltac:(lia)) as (_ & _ & H3). apply H3. lia.
Qed.

Lemma ordered_tail : forall cr rest, ordered (cr :: rest) -> ordered rest.
Proof.
  intros cr rest [H1 H2]. split.
  - intros i Hi. apply (H1 (S i)). cbn. lia.
  - intros i j Hij. apply (H2 (S i) (S j)). cbn. lia.
Qed.

(* ---- the first-match scan on an ordered table *)
Lemma linear_found : forall tab c r k, ordered tab -> (k < length tab)%nat ->
  in_range (nth k tab dflt) r = true ->
  to_linear_from tab c r = (apply_range (nth k tab dflt) c r, true).
Proof.
  induction tab as [|cr rest IH]; intros c r k Ho Hk Hin; [cbn in Hk; lia|].
  cbn [to_linear_from]. destruct k as [|k'].
  - cbn [nth] in *. rewrite Hin. reflexivity.
  - cbn [nth] in *. cbn [length] in Hk.
    assert (Hout : in_range cr r = false).
    { destruct Ho as [_ H2]. specialize (H2 0%nat (S k') ltac:(cbn; lia)). cbn [nth] in H2.
      unfold in_range in *. apply andb_prop in Hin. destruct Hin as [Hlo _]. apply Z.leb_le in Hlo.
      apply andb_false_intro2. apply Z.leb_gt. lia. }
    rewrite Hout. apply IH; [eapply ordered_tail; eassumption | lia | assumption].
Qed.

Lemma linear_none : forall tab c r, (forall i, (i < length tab)%nat -> in_range (nth i tab dflt) r = false) ->
  to_linear_from tab c r = (r, false).
Proof.
  induction tab as [|cr rest IH]; intros c r H; [reflexivity|].
  cbn [to_linear_from]. pose proof (H 0%nat ltac:(cbn; lia)) as H0. cbn [nth] in H0. rewrite H0. apply IH.
  intros i Hi. apply (H (S i)). cbn. lia.
Qed.

(* ---- binary search invariant *)
Lemma search_spec : forall mid, (forall lo hi, lo < hi -> lo <= mid lo hi < hi) ->
  forall fuel tab c r lo hi, ordered tab ->
  0 <= lo <= hi -> hi <= Z.of_nat (length tab) -> hi - lo < Z.of_nat fuel ->
  (forall i, Z.of_nat i < lo -> cr_hi (nth i tab dflt) < r) ->
  (forall i, hi <= Z.of_nat i < Z.of_nat (length tab) -> r < cr_lo (nth i tab dflt)) ->
  search mid fuel tab c r lo hi = to_linear_from tab c r.
Proof.
  intros mid Hmid. induction fuel as [|f IH]; intros tab c r lo hi Ho Hlh Hlen Hfuel Hbelow Habove; [lia|].
  cbn [search]. destruct (Z.ltb_spec lo hi) as [Hlt|Hge].
  - specialize (Hmid lo hi Hlt). set (m := mid lo hi) in *.
    assert (Hm : (Z.to_nat m < length tab)%nat) by lia.
    fold dflt. destruct (in_range (nth (Z.to_nat m) tab dflt) r) eqn:Hin.
    + symmetry. apply linear_found; assumption.
    + destruct Ho as [Ho1 Ho2].
      pose proof (Ho1 _ Hm) as Hlohi.
      destruct (Z.ltb_spec r (cr_lo (nth (Z.to_nat m) tab dflt))) as [Hless|Hmore].
      * apply IH; try (split; assumption); try lia; try exact Hbelow.
        intros i Hi. destruct (Nat.eq_dec i (Z.to_nat m)) as [->|Hne]; [exact Hless|].
        specialize (Ho2 (Z.to_nat m) i ltac:(lia)). lia.
      * assert (Hgt : cr_hi (nth (Z.to_nat m) tab dflt) < r).
        { unfold in_range in Hin. apply andb_false_iff in Hin. destruct Hin as [Hin|Hin]; [apply Z.leb_gt in Hin; lia | apply Z.leb_gt in Hin; lia]. }
        apply IH; try (split; assumption); try lia; try exact Habove.
        intros i Hi. destruct (Nat.eq_dec i (Z.to_nat m)) as [->|Hne]; [exact Hgt|].
        specialize (Ho2 i (Z.to_nat m) ltac:(lia)). lia.
  - symmetry. apply linear_none. intros i Hi. unfold in_range.
    destruct (Z.lt_ge_cases (Z.of_nat i) lo) as [Hl|Hg].
    + specialize (Hbelow i Hl). apply andb_false_intro2. apply Z.leb_gt. lia.
    + specialize (Habove i ltac:(lia)). apply andb_false_intro1. apply Z.leb_gt. lia.
Qed.

Lemma mid_js_bounds : forall lo hi, lo < hi -> lo <= mid_js lo hi < hi.
Proof. intros. unfold mid_js. Z.div_mod_to_equations. lia. Qed.

Theorem to_eq_linear : forall tab c r, table_sorted tab = true -> to_js tab c r = to_linear tab c r.
Proof.
  intros tab c r Hs. unfold to_js, to_with, to_linear. destruct (_ || _); [reflexivity|].
  apply (search_spec mid_js mid_js_bounds); try lia.
  all: try (apply sorted_ordered; exact Hs).
  all: rewrite Nat2Z.inj_succ; lia.
Qed.
