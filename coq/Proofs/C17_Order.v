(* C17 — lemmas about the ordering model (Model/C17_Order.v). *)
From Coq Require Import List NArith Bool Arith Lia Permutation Sorted.
From Verif Require Import Model.C17_Order.
Import ListNotations.

(* ------------------------------------------------------------------ byte-string order *)

Lemma str_ltb_irrefl : forall a, str_ltb a a = false.
Proof.
  induction a as [|x a IH]; cbn; [reflexivity|].
  rewrite N.ltb_irrefl. exact IH.
Qed.

Lemma str_ltb_asym : forall a b, str_ltb a b = true -> str_ltb b a = false.
Proof.
  induction a as [|x a IH]; intros [|y b] H; cbn in *; try reflexivity; try discriminate.
  destruct (N.ltb_spec x y), (N.ltb_spec y x); try lia; try reflexivity; try discriminate.
  apply IH; exact H.
Qed.

Lemma str_ltb_trans : forall a b c, str_ltb a b = true -> str_ltb b c = true -> str_ltb a c = true.
Proof.
  induction a as [|x a IH]; intros [|y b] [|z c] H1 H2; cbn in *; try reflexivity; try discriminate.
  destruct (N.ltb_spec x y), (N.ltb_spec y x), (N.ltb_spec y z), (N.ltb_spec z y), (N.ltb_spec x z), (N.ltb_spec z x);
    try lia; try reflexivity; try discriminate.
  eapply IH; eassumption.
Qed.

Lemma str_ltb_total : forall a b, str_ltb a b = false -> str_ltb b a = false -> a = b.
Proof.
  induction a as [|x a IH]; intros [|y b] H1 H2; cbn in *; try reflexivity; try discriminate.
  destruct (N.ltb_spec x y), (N.ltb_spec y x); try lia; try discriminate.
  assert (x = y) by lia. subst. f_equal. apply IH; assumption.
Qed.

Lemma str_ltb_negtrans : forall a b c, str_ltb a b = false -> str_ltb b c = false -> str_ltb a c = false.
Proof.
  intros a b c H1 H2.
  destruct (str_ltb a c) eqn:Hac; [|reflexivity].
  destruct (str_ltb b a) eqn:Hba.
  - rewrite (str_ltb_trans b a c Hba Hac) in H2. discriminate.
  - assert (a = b) by (apply str_ltb_total; assumption). subst. rewrite Hac in H2. discriminate.
Qed.

Lemma str_eqb_eq : forall a b, str_eqb a b = true <-> a = b.
Proof.
  induction a as [|x a IH]; intros [|y b]; cbn; split; intro H; try reflexivity; try discriminate.
  - apply andb_true_iff in H. destruct H as [H1 H2]. apply N.eqb_eq in H1. apply IH in H2. subst. reflexivity.
  - inversion H; subst. rewrite N.eqb_refl. cbn. apply IH. reflexivity.
Qed.

Lemma str_mem_In : forall x l, str_mem x l = true <-> In x l.
Proof.
  induction l as [|y l IH]; cbn; split; intro H; try discriminate; try contradiction.
  - apply orb_true_iff in H. destruct H as [H|H].
    + left. symmetry. apply str_eqb_eq. exact H.
    + right. apply IH. exact H.
  - apply orb_true_iff. destruct H as [H|H].
    + left. apply str_eqb_eq. symmetry. exact H.
    + right. apply IH. exact H.
Qed.

(* ------------------------------------------------------------------ the insertion sort *)

Lemma StronglySorted_snoc : forall {A} (R : A -> A -> Prop) l a,
  StronglySorted R l -> Forall (fun z => R z a) l -> StronglySorted R (l ++ [a]).
Proof.
  induction l as [|x l IH]; intros a Hs Hf; cbn.
  - constructor; constructor.
  - inversion Hs; subst. inversion Hf; subst. constructor.
    + apply IH; assumption.
    + apply Forall_app. split; [assumption|]. constructor; [assumption|constructor].
Qed.

Lemma StronglySorted_rev : forall {A} (R : A -> A -> Prop) l,
  StronglySorted R l -> StronglySorted (fun a b => R b a) (rev l).
Proof.
  induction l as [|x l IH]; intro Hs; cbn.
  - constructor.
  - inversion Hs; subst. apply StronglySorted_snoc.
    + apply IH. assumption.
    + apply Forall_rev. assumption.
Qed.

Section SortFacts.
  Context {A : Type}.
  Variable less : A -> A -> bool.
  Hypothesis less_asym : forall a b, less a b = true -> less b a = false.
  Hypothesis less_negtrans : forall a b c, less a b = false -> less b c = false -> less a c = false.

  (* a is allowed before b *)
  Definition le_of (a b : A) : Prop := less b a = false.

  Lemma ins_rev_perm : forall x rp, Permutation (ins_rev less x rp) (x :: rp).
  Proof.
    induction rp as [|y r IH]; cbn.
    - apply Permutation_refl.
    - destruct (less x y).
      + eapply Permutation_trans; [apply perm_skip; exact IH|]. apply perm_swap.
      + apply Permutation_refl.
  Qed.

  Lemma isort_rev_perm_gen : forall l acc,
    Permutation (fold_left (fun rp x => ins_rev less x rp) l acc) (l ++ acc).
  Proof.
    induction l as [|x l IH]; intro acc; cbn.
    - apply Permutation_refl.
    - eapply Permutation_trans; [apply IH|].
      eapply Permutation_trans; [apply Permutation_app_head; apply ins_rev_perm|].
      apply Permutation_sym. apply Permutation_middle.
  Qed.

  Lemma isort_perm : forall l, Permutation (isort less l) l.
  Proof.
    intro l. unfold isort, isort_rev.
    eapply Permutation_trans; [apply Permutation_sym; apply Permutation_rev|].
    eapply Permutation_trans; [apply isort_rev_perm_gen|].
    rewrite app_nil_r. apply Permutation_refl.
  Qed.

  Lemma ins_rev_sorted : forall x rp,
    StronglySorted (fun a b => le_of b a) rp -> StronglySorted (fun a b => le_of b a) (ins_rev less x rp).
  Proof.
    induction rp as [|y r IH]; intro Hs; cbn.
    - constructor; constructor.
    - inversion Hs as [|? ? Hs' Hf]; subst.
      destruct (less x y) eqn:Hxy.
      + constructor; [apply IH; assumption|].
        eapply Permutation_Forall; [apply Permutation_sym; apply ins_rev_perm|].
        constructor; [|assumption].
        unfold le_of. apply less_asym. exact Hxy.
      + constructor; [assumption|].
        constructor; [exact Hxy|].
        eapply Forall_impl; [|exact Hf].
        intros z Hz. unfold le_of in *. eapply less_negtrans; eassumption.
  Qed.

  Lemma isort_rev_sorted_gen : forall l acc,
    StronglySorted (fun a b => le_of b a) acc ->
    StronglySorted (fun a b => le_of b a) (fold_left (fun rp x => ins_rev less x rp) l acc).
  Proof.
    induction l as [|x l IH]; intros acc Hs; cbn; [assumption|].
    apply IH. apply ins_rev_sorted. assumption.
  Qed.

  Lemma isort_sorted : forall l, StronglySorted le_of (isort less l).
  Proof.
    intro l. unfold isort, isort_rev.
    apply (StronglySorted_rev (fun a b => le_of b a)).
    apply isort_rev_sorted_gen. constructor.
  Qed.

  (* two sorted lists with the same elements are equal, provided mutual [le_of] on the elements means equality *)
  Lemma sorted_perm_unique : forall l1 l2,
    StronglySorted le_of l1 -> StronglySorted le_of l2 -> Permutation l1 l2 ->
    (forall a b, In a l1 -> In b l1 -> le_of a b -> le_of b a -> a = b) ->
    l1 = l2.
  Proof.
    induction l1 as [|a t1 IH]; intros l2 S1 S2 P Anti.
    - apply Permutation_nil in P. subst. reflexivity.
    - destruct l2 as [|b t2].
      + apply Permutation_sym in P. apply Permutation_nil in P. discriminate.
      + inversion S1 as [|? ? S1' F1]; subst. inversion S2 as [|? ? S2' F2]; subst.
        assert (Hab : a = b).
        { assert (Ia : In a (b :: t2)) by (eapply Permutation_in; [exact P|left; reflexivity]).
          assert (Ib : In b (a :: t1)) by (eapply Permutation_in; [apply Permutation_sym; exact P|left; reflexivity]).
          destruct Ia as [Ia|Ia]; [symmetry; exact Ia|].
          destruct Ib as [Ib|Ib]; [exact Ib|].
          rewrite Forall_forall in F1, F2.
          apply Anti; [left; reflexivity|right; exact Ib|apply F1; exact Ib|apply F2; exact Ia]. }
        subst b. f_equal.
        apply IH; try assumption.
        * eapply Permutation_cons_inv. exact P.
        * intros x y Hx Hy. apply Anti; right; assumption.
  Qed.

  Lemma isort_canonical_gen : forall l l',
    Permutation l l' ->
    (forall a b, In a l -> In b l -> le_of a b -> le_of b a -> a = b) ->
    isort less l = isort less l'.
  Proof.
    intros l l' P Anti.
    apply sorted_perm_unique; try apply isort_sorted.
    - eapply Permutation_trans; [apply isort_perm|].
      eapply Permutation_trans; [exact P|]. apply Permutation_sym. apply isort_perm.
    - intros a b Ha Hb. apply Anti; eapply Permutation_in; try apply isort_perm; assumption.
  Qed.

  (* any other procedure that returns a sorted permutation (Go's pdqsort for n > 12) returns the same list *)
  Lemma any_sorted_permutation_is_isort : forall l r,
    Permutation r l -> StronglySorted le_of r ->
    (forall a b, In a l -> In b l -> le_of a b -> le_of b a -> a = b) ->
    r = isort less l.
  Proof.
    intros l r P S Anti.
    apply sorted_perm_unique; try assumption; try apply isort_sorted.
    - eapply Permutation_trans; [exact P|]. apply Permutation_sym. apply isort_perm.
    - intros a b Ha Hb. apply Anti; eapply Permutation_in; try exact P; assumption.
  Qed.
End SortFacts.

Lemma NoDup_map_inj : forall {A B} (f : A -> B) l a b,
  NoDup (map f l) -> In a l -> In b l -> f a = f b -> a = b.
Proof.
  induction l as [|x l IH]; intros a b ND Ha Hb E; cbn in *; [contradiction|].
  inversion ND as [|? ? Hn ND']; subst.
  destruct Ha as [Ha|Ha], Hb as [Hb|Hb]; subst.
  - reflexivity.
  - exfalso. apply Hn. rewrite E. apply in_map. exact Hb.
  - exfalso. apply Hn. rewrite <- E. apply in_map. exact Ha.
  - eapply IH; eassumption.
Qed.

(* ------------------------------------------------------------------ the sort sites *)

Lemma less_path_asym : forall a b, less_path a b = true -> less_path b a = false.
Proof. intros a b. unfold less_path. apply str_ltb_asym. Qed.
Lemma less_path_negtrans : forall a b c, less_path a b = false -> less_path b c = false -> less_path a c = false.
Proof. intros a b c. unfold less_path. apply str_ltb_negtrans. Qed.
Lemma less_file_asym : forall a b, less_file a b = true -> less_file b a = false.
Proof. intros a b. unfold less_file. apply str_ltb_asym. Qed.
Lemma less_file_negtrans : forall a b c, less_file a b = false -> less_file b c = false -> less_file a c = false.
Proof. intros a b c. unfold less_file. intros H1 H2. eapply str_ltb_negtrans; eassumption. Qed.

Lemma sort_sources_canonical : forall l l' : list keyed,
  Permutation l l' -> NoDup (map fst l) -> sort_sources l = sort_sources l'.
Proof.
  intros l l' P ND. unfold sort_sources.
  apply (isort_canonical_gen less_path less_path_asym less_path_negtrans); [assumption|].
  intros a b Ha Hb H1 H2. unfold le_of, less_path in *.
  eapply NoDup_map_inj; try eassumption. apply str_ltb_total; assumption.
Qed.

Lemma sort_files_canonical : forall l l' : list keyed,
  Permutation l l' -> NoDup (map fst l) -> sort_files l = sort_files l'.
Proof.
  intros l l' P ND. unfold sort_files.
  apply (isort_canonical_gen less_file less_file_asym less_file_negtrans); [assumption|].
  intros a b Ha Hb H1 H2. unfold le_of, less_file in *.
  eapply NoDup_map_inj; try eassumption. apply str_ltb_total; assumption.
Qed.

Lemma sort_strings_canonical : forall l l' : list str,
  Permutation l l' -> sort_strings l = sort_strings l'.
Proof.
  intros l l' P. unfold sort_strings.
  apply (isort_canonical_gen str_ltb str_ltb_asym str_ltb_negtrans); [assumption|].
  intros a b _ _ H1 H2. unfold le_of in *. apply str_ltb_total; assumption.
Qed.

Lemma sort_files_sorted : forall l, StronglySorted (fun a b => str_ltb (fst a) (fst b) = false) (sort_files l).
Proof. intro l. apply (isort_sorted less_file less_file_asym less_file_negtrans). Qed.
Lemma sort_sources_sorted : forall l, StronglySorted (fun a b => str_ltb (fst b) (fst a) = false) (sort_sources l).
Proof. intro l. apply (isort_sorted less_path less_path_asym less_path_negtrans). Qed.
Lemma sort_strings_sorted : forall l, StronglySorted (fun a b => str_ltb b a = false) (sort_strings l).
Proof. intro l. apply (isort_sorted str_ltb str_ltb_asym str_ltb_negtrans). Qed.

Lemma sort_files_perm : forall l, Permutation (sort_files l) l.
Proof. intro l. apply isort_perm. Qed.
Lemma sort_sources_perm : forall l, Permutation (sort_sources l) l.
Proof. intro l. apply isort_perm. Qed.
Lemma sort_strings_perm : forall l, Permutation (sort_strings l) l.
Proof. intro l. apply isort_perm. Qed.

(* whatever algorithm Go's sort package uses: a sorted permutation of distinct keys is the model's result *)
Lemma sort_sources_any_algorithm : forall l r : list keyed,
  Permutation r l -> StronglySorted (fun a b => str_ltb (fst b) (fst a) = false) r -> NoDup (map fst l) ->
  r = sort_sources l.
Proof.
  intros l r P S ND. unfold sort_sources.
  apply (any_sorted_permutation_is_isort less_path less_path_asym less_path_negtrans); [assumption|assumption|].
  intros a b Ha Hb H1 H2. unfold le_of, less_path in *.
  eapply NoDup_map_inj; try eassumption. apply str_ltb_total; assumption.
Qed.

(* the corner: with a tie the result depends on the order in which the input was presented *)
Lemma sort_by_key_with_tie_depends_on_input_order :
  exists l l' : list keyed, Permutation l l' /\ sort_files l <> sort_files l' /\ sort_sources l <> sort_sources l'.
Proof.
  exists [([97], 0); ([97], 1)]%N, [([97], 1); ([97], 0)]%N.
  split; [apply perm_swap|]. split; vm_compute; discriminate.
Qed.

(* ------------------------------------------------------------------ UnresolvedImports *)

Local Opaque has_suffix_test.

Lemma unres_collect_In : forall l seen x,
  In x (unres_collect seen l) <-> (In x l /\ ~ In x seen /\ has_suffix_test x = false).
Proof.
  induction l as [|p l IH]; intros seen x; cbn.
  - split; [contradiction|intros [[] _]].
  - destruct (str_mem p seen) eqn:Hm.
    + apply str_mem_In in Hm. rewrite IH. split.
      * intros [H1 H2]. split; [right; assumption|assumption].
      * intros [[H1|H1] [H2 H3]]; [subst; contradiction|]. split; [assumption|split; assumption].
    + assert (Hn : ~ In p seen) by (intro H; apply str_mem_In in H; rewrite H in Hm; discriminate).
      rewrite in_app_iff, IH.
      destruct (has_suffix_test p) eqn:Hs.
      * cbn [In]. split.
        -- intros [[]|[H1 [H2 H3]]]. split; [right; assumption|]. split; [|assumption].
           intro H. apply H2. right; exact H.
        -- intros [[H1|H1] [H2 H3]]; [subst; rewrite Hs in H3; discriminate|].
           right. split; [assumption|]. split; [|assumption].
           intros [H|H]; [|contradiction]. subst. rewrite Hs in H3; discriminate.
      * cbn [In]. split.
        -- intros [[H|[]]|[H1 [H2 H3]]].
           ++ subst. split; [left; reflexivity|split; assumption].
           ++ split; [right; assumption|]. split; [|assumption]. intro H. apply H2. right. exact H.
        -- intros [[H1|H1] [H2 H3]].
           ++ subst. left. left. reflexivity.
           ++ destruct (str_eqb x p) eqn:E.
              ** apply str_eqb_eq in E. subst. left. left. reflexivity.
              ** right. split; [assumption|]. split; [|assumption].
                 intros [H|H]; [|contradiction]. subst.
                 rewrite (proj2 (str_eqb_eq x x) eq_refl) in E. discriminate.
Qed.

Lemma unres_collect_NoDup : forall l seen, NoDup (unres_collect seen l).
Proof.
  induction l as [|p l IH]; intro seen; cbn; [constructor|].
  destruct (str_mem p seen); [apply IH|].
  destruct (has_suffix_test p); cbn; [apply IH|].
  constructor; [|apply IH].
  intro H. apply unres_collect_In in H. destruct H as [_ [H _]]. apply H. left. reflexivity.
Qed.

Lemma unresolved_imports_order_independent : forall skip skip' files files',
  Permutation (concat files) (concat files') ->
  (forall x, In x skip <-> In x skip') ->
  unresolved_imports skip files = unresolved_imports skip' files'.
Proof.
  intros skip skip' files files' P Hs. unfold unresolved_imports.
  apply sort_strings_canonical.
  apply NoDup_Permutation; try apply unres_collect_NoDup.
  intro x. rewrite !unres_collect_In.
  assert (Pm : Permutation (map unquote_path (concat files)) (map unquote_path (concat files'))) by (apply Permutation_map; exact P).
  split; intros [H1 [H2 H3]]; (split; [|split; [|assumption]]).
  - eapply Permutation_in; eassumption.
  - intro H. apply H2. apply Hs. exact H.
  - eapply Permutation_in; [apply Permutation_sym; exact Pm|assumption].
  - intro H. apply H2. apply Hs. exact H.
Qed.

Lemma Permutation_concat : forall {A} (l l' : list (list A)), Permutation l l' -> Permutation (concat l) (concat l').
Proof.
  intros A l l' P. induction P; cbn.
  - apply Permutation_refl.
  - apply Permutation_app_head. assumption.
  - rewrite !app_assoc. apply Permutation_app_tail. apply Permutation_app_comm.
  - eapply Permutation_trans; eassumption.
Qed.

Lemma unresolved_imports_file_order_independent : forall skip files files',
  Permutation files files' -> unresolved_imports skip files = unresolved_imports skip files'.
Proof.
  intros. apply unresolved_imports_order_independent; [apply Permutation_concat; assumption|tauto].
Qed.

Lemma get_deps_iteration_order_independent : forall iter iter',
  Permutation iter iter' -> get_deps iter = get_deps iter'.
Proof. intros. unfold get_deps. apply sort_strings_canonical. assumption. Qed.

(* ------------------------------------------------------------------ ordered sets *)

Lemma n_mem_In : forall x l, n_mem x l = true <-> In x l.
Proof.
  induction l as [|y l IH]; cbn; split; intro H; try discriminate; try contradiction.
  - apply orb_true_iff in H. destruct H as [H|H]; [left; symmetry; apply N.eqb_eq; exact H|right; apply IH; exact H].
  - apply orb_true_iff. destruct H as [H|H]; [left; apply N.eqb_eq; symmetry; exact H|right; apply IH; exact H].
Qed.

Lemma n_mem_app : forall x a b, n_mem x (a ++ b) = n_mem x a || n_mem x b.
Proof. induction a as [|y a IH]; intro b; cbn; [reflexivity|]. rewrite IH. apply orb_assoc. Qed.

Lemma oset_add_idempotent : forall s x, oset_add (oset_add s x) x = oset_add s x.
Proof.
  intros s x. unfold oset_add. destruct (n_mem x s) eqn:H.
  - rewrite H. reflexivity.
  - rewrite n_mem_app. cbn. rewrite N.eqb_refl. rewrite orb_true_r. reflexivity.
Qed.

Lemma oset_add_present : forall s x, In x s -> oset_add s x = s.
Proof. intros s x H. unfold oset_add. apply n_mem_In in H. rewrite H. reflexivity. Qed.

Lemma index_of_app_l : forall x a b k, index_of x a = Some k -> index_of x (a ++ b) = Some k.
Proof.
  induction a as [|y a IH]; intros b k H; cbn in *; [discriminate|].
  destruct (N.eqb x y); [assumption|].
  destruct (index_of x a) as [j|] eqn:E; cbn in *; [|discriminate].
  rewrite (IH b j eq_refl). exact H.
Qed.

(* adding anything later never changes an id that has been handed out *)
Lemma oset_add_preserves_ids : forall s x y k, oset_id s y = Some k -> oset_id (oset_add s x) y = Some k.
Proof.
  intros s x y k H. unfold oset_id, oset_add in *. destruct (n_mem x s); [assumption|].
  apply index_of_app_l. assumption.
Qed.

Lemma oset_add_all_preserves_ids : forall xs s y k, oset_id s y = Some k -> oset_id (oset_add_all s xs) y = Some k.
Proof.
  induction xs as [|x xs IH]; intros s y k H; cbn; [assumption|].
  apply IH. apply oset_add_preserves_ids. assumption.
Qed.

Lemma index_of_nth : forall x l k, index_of x l = Some k -> nth_error l k = Some x.
Proof.
  induction l as [|y l IH]; intros k H; cbn in *; [discriminate|].
  destruct (N.eqb_spec x y).
  - inversion H; subst. reflexivity.
  - destruct (index_of x l) as [j|]; cbn in *; [|discriminate]. inversion H; subst. cbn. apply IH. reflexivity.
Qed.

(* ids are unique: two instances never share an id *)
Lemma oset_id_injective : forall s x y k, oset_id s x = Some k -> oset_id s y = Some k -> x = y.
Proof.
  intros s x y k Hx Hy. apply index_of_nth in Hx. apply index_of_nth in Hy. congruence.
Qed.

Lemma oset_add_NoDup : forall s x, NoDup s -> NoDup (oset_add s x).
Proof.
  intros s x ND. unfold oset_add. destruct (n_mem x s) eqn:H; [assumption|].
  eapply Permutation_NoDup; [apply Permutation_cons_append|].
  constructor; [|assumption]. intro Hin. apply n_mem_In in Hin. rewrite Hin in H. discriminate.
Qed.

(* values = the first occurrences of the elements in the order they were offered *)
Fixpoint first_occ (seen : list N) (xs : list N) : list N :=
  match xs with
  | [] => []
  | x :: r => if n_mem x seen then first_occ seen r else x :: first_occ (seen ++ [x]) r
  end.

Lemma oset_add_all_first_occ : forall xs s, oset_add_all s xs = s ++ first_occ s xs.
Proof.
  induction xs as [|x xs IH]; intro s.
  - cbn. rewrite app_nil_r. reflexivity.
  - change (oset_add_all s (x :: xs)) with (oset_add_all (oset_add s x) xs).
    rewrite IH. cbn [first_occ]. unfold oset_add. destruct (n_mem x s) eqn:H.
    + reflexivity.
    + rewrite <- app_assoc. reflexivity.
Qed.

(* a second traversal offering the same elements (in any order, any number of times) changes nothing *)
Lemma oset_add_all_absorbs : forall xs s, (forall x, In x xs -> In x s) -> oset_add_all s xs = s.
Proof.
  induction xs as [|x xs IH]; intros s H; cbn; [reflexivity|].
  rewrite oset_add_present by (apply H; left; reflexivity).
  apply IH. intros y Hy. apply H. right. exact Hy.
Qed.

(* ------------------------------------------------------------------ Collector.Finish *)

(* the round order of the repaired loop is a function of the SET of keys *)
Lemma sort_keys_canonical : forall path_of ks ks',
  Permutation ks ks' -> NoDup (map path_of ks) -> sort_keys path_of ks = sort_keys path_of ks'.
Proof.
  intros path_of ks ks' P ND. unfold sort_keys.
  apply isort_canonical_gen; try assumption.
  - intros a b. apply str_ltb_asym.
  - intros a b c. apply str_ltb_negtrans.
  - cbv beta. intros a b Ha Hb H1 H2. unfold le_of in *.
    eapply NoDup_map_inj; try eassumption. apply str_ltb_total; assumption.
Qed.

(* the minimal witness of the defect: packages a(0) and b(1) instantiate c.G (package 2) inside generic code.
   instances: 10 = a.A<[]int>, 11 = b.B<map[int]int>, 20 = c.G<[]int>, 21 = c.G<map[int]int> *)
Definition w_scan : scan_table := [(10, [(2, 20)]); (11, [(2, 21)])]%N.
Definition w_seeds : list inst := [(0, 10); (1, 11)]%N.

Lemma finish_ids_depend_on_schedule :
  exists (t : scan_table) (seeds : list inst) (s1 s2 : list N),
    Permutation s1 s2 /\
    all_exhausted (run_schedule 10 t s1 (seed seeds)) = true /\
    all_exhausted (run_schedule 10 t s2 (seed seeds)) = true /\
    observe [2%N] (run_schedule 10 t s1 (seed seeds)) <> observe [2%N] (run_schedule 10 t s2 (seed seeds)).
Proof.
  exists w_scan, w_seeds, [0; 1; 2]%N, [1; 0; 2]%N.
  split; [apply perm_swap|]. split; [vm_compute; reflexivity|]. split; [vm_compute; reflexivity|].
  vm_compute. discriminate.
Qed.

(* ------------------------------------------------------------------ packaged statements used by Props/C17.v *)

Lemma sort_files_sorted_perm : forall l,
  StronglySorted (fun a b => str_ltb (fst a) (fst b) = false) (sort_files l) /\ Permutation (sort_files l) l.
Proof. intro l. split; [exact (sort_files_sorted l)|exact (sort_files_perm l)]. Qed.

Lemma sort_sources_sorted_perm : forall l,
  StronglySorted (fun a b => str_ltb (fst b) (fst a) = false) (sort_sources l) /\ Permutation (sort_sources l) l.
Proof. intro l. split; [exact (sort_sources_sorted l)|exact (sort_sources_perm l)]. Qed.

Lemma sort_canonical_without_distinct_keys_refuted :
  ~ (forall l l' : list keyed, Permutation l l' -> sort_files l = sort_files l' /\ sort_sources l = sort_sources l').
Proof.
  intro H. destruct sort_by_key_with_tie_depends_on_input_order as [l [l' [P [N1 _]]]].
  apply N1. apply (H l l' P).
Qed.

Lemma instance_ids_schedule_independent_refuted :
  ~ (forall fuel (t : scan_table) (seeds : list inst) (s1 s2 : list N) (pkgs : list N),
       Permutation s1 s2 ->
       all_exhausted (run_schedule fuel t s1 (seed seeds)) = true ->
       all_exhausted (run_schedule fuel t s2 (seed seeds)) = true ->
       observe pkgs (run_schedule fuel t s1 (seed seeds)) = observe pkgs (run_schedule fuel t s2 (seed seeds))).
Proof.
  intro H. destruct finish_ids_depend_on_schedule as [t [seeds [s1 [s2 [P [E1 [E2 D]]]]]]].
  apply D. apply (H 10%nat t seeds s1 s2 [2%N] P E1 E2).
Qed.

Lemma c17_nonvacuous :
  let l := [([98; 46; 103; 111], 0); ([97; 46; 103; 111], 1); ([99; 46; 103; 111], 2)]%N in
  let l' := [([99; 46; 103; 111], 2); ([98; 46; 103; 111], 0); ([97; 46; 103; 111], 1)]%N in
  Permutation l l' /\ NoDup (map fst l) /\
  sort_files l = [([99; 46; 103; 111], 2); ([98; 46; 103; 111], 0); ([97; 46; 103; 111], 1)]%N /\
  sort_files l' = sort_files l /\
  observe [2%N] (finish_sorted 5 10 (fun k => [k]) w_scan (seed w_seeds)) = [(2, [20; 21])]%N.
Proof.
  cbv zeta. split; [|split; [|split; [|split]]].
  - apply Permutation_sym. apply (Permutation_cons_app [_; _] []). apply Permutation_refl.
  - cbn. repeat constructor; cbn; intuition discriminate.
  - vm_compute. reflexivity.
  - vm_compute. reflexivity.
  - vm_compute. reflexivity.
Qed.
