(* C02 — proofs about the flat machine (Model/C02_Flat.v): fuel monotonicity, and the main result:
   a run of a well-formed flat program under ANY schedule of suspensions computes what the run without
   suspensions computes (sim_call / suspend_invisible). *)
From Coq Require Import List ZArith Bool Arith Lia.
From Verif Require Import Model.C02_Blocking Model.C02_Flat Model.C02_Wf.
Import ListNotations.

Definition callf_le (c1 c2 : fname -> list Z -> world -> option (Z * world)) : Prop :=
  forall f a w r, c1 f a w = Some r -> c2 f a w = Some r.

Lemma exec_mono : forall c1 c2 strict, callf_le c1 c2 ->
  forall n m s loc w x, exec c1 strict n s loc w = Some x -> n <= m -> exec c2 strict m s loc w = Some x.
Proof.
  intros c1 c2 strict Hle. induction n; intros m s loc w x H Hm; [discriminate|].
  destruct m; [lia|]. assert (Hnm : n <= m) by lia.
  destruct s; simpl in *; auto.
  - (* SCall *) destruct (c1 f _ w) as [[v w']|] eqn:E; [|discriminate]. rewrite (Hle _ _ _ _ E). auto.
  - (* SSeq *) destruct (exec c1 strict n s1 loc w) as [[[o l] w1]|] eqn:E; [|discriminate].
    rewrite (IHn m _ _ _ _ E Hnm). destruct o; eauto.
  - destruct (truthy _); eauto.
  - destruct (truthy _); eauto.
  - (* SFor *)
    destruct (exec c1 strict n s1 loc w) as [[[o l] w1]|] eqn:E; [|discriminate].
    rewrite (IHn m _ _ _ _ E Hnm). destruct o; try discriminate.
    destruct (truthy _); auto.
    destruct (exec c1 strict n s3 l w1) as [[[o2 l2] w2]|] eqn:E2; [|discriminate].
    rewrite (IHn m _ _ _ _ E2 Hnm).
    assert (A : forall y, match exec c1 strict n s2 l2 w2 with
                | Some (ONormal, l3, w3) => exec c1 strict n (SFor m0 lbl SSkip c s2 s3) l3 w3
                | Some _ => None | None => None end = Some y ->
                match exec c2 strict m s2 l2 w2 with
                | Some (ONormal, l3, w3) => exec c2 strict m (SFor m0 lbl SSkip c s2 s3) l3 w3
                | Some _ => None | None => None end = Some y).
    { intros y Hy. destruct (exec c1 strict n s2 l2 w2) as [[[o3 l3] w3]|] eqn:E3; [|discriminate].
      rewrite (IHn m _ _ _ _ E3 Hnm). destruct o3; try discriminate. eauto. }
    destruct o2; auto; destruct (targets l0 lbl); auto.
Qed.

Definition ecall_le (c1 c2 : entry -> world -> option (result * world)) : Prop :=
  forall en w r, c1 en w = Some r -> c2 en w = Some r.

Lemma callf_nb_le : forall c1 c2, ecall_le c1 c2 -> callf_le (callf_nb c1) (callf_nb c2).
Proof.
  intros c1 c2 H f a w r. unfold callf_nb.
  destruct (c1 (Fresh (CFn f) a) w) as [[res w']|] eqn:E; [|discriminate].
  rewrite (H _ _ _ E). auto.
Qed.

Lemma run_code_mono : forall c1 c2 code fid, ecall_le c1 c2 ->
  forall n m cur loc c r w x, run_code c1 code fid n cur loc c r w = Some x -> n <= m ->
  run_code c2 code fid m cur loc c r w = Some x.
Proof.
  intros c1 c2 code fid Hle. pose proof (callf_nb_le _ _ Hle) as Hnb.
  induction n; intros m cur loc c r w x H Hm; [discriminate|].
  destruct m; [lia|]. assert (Hnm : n <= m) by lia.
  simpl in *.
  destruct cur as [|i rest]; auto.
  destruct i.
  - eauto.
  - destruct (find_case n0 code); eauto.
  - destruct (truthy _); [destruct (find_case n0 code)|]; eauto.
  - destruct (truthy _); [|destruct (find_case n0 code)]; eauto.
  - destruct (exec (callf_nb c1) true n s loc w) as [[[o l] w1]|] eqn:E; [|discriminate].
    rewrite (exec_mono _ _ _ Hnb _ m _ _ _ _ E Hnm).
    destruct o; eauto.
    + destruct (find_flow l0 ctx); auto. destruct (find_case _ code); eauto.
    + destruct (find_flow l0 ctx); auto.
      destruct (exec (callf_nb c1) true n (fl_post f) l w1) as [[[o2 l2] w2]|] eqn:E2; [|discriminate].
      rewrite (exec_mono _ _ _ Hnb _ m _ _ _ _ E2 Hnm).
      destruct o2; auto. destruct (find_case _ code); eauto.
  - destruct c; auto.
    destruct (c1 _ w) as [[res w1]|] eqn:E; [|discriminate].
    rewrite (Hle _ _ _ E). destruct res; eauto.
  - destruct c; eauto.
    destruct (c1 _ w) as [[res w1]|] eqn:E; [|discriminate].
    rewrite (Hle _ _ _ E). destruct res; eauto.
  - auto.
Qed.

Lemma call_mono : forall p sc n m en w x, call p sc n en w = Some x -> n <= m -> call p sc m en w = Some x.
Proof.
  intros p sc. induction n; intros m en w x H Hm; [discriminate|].
  destruct m; [lia|]. assert (Hnm : n <= m) by lia.
  assert (Hle : ecall_le (call p sc n) (call p sc m)) by (intros ? ? ? ?; eauto).
  simpl in *. destruct en as [ce args|f].
  - destruct ce; auto.
    destruct (nth_error p f) as [[np s|np code]|]; auto.
    + destruct (exec (callf_nb (call p sc n)) true n s args w) as [[[o l] w1]|] eqn:E; [|discriminate].
      rewrite (exec_mono _ _ _ (callf_nb_le _ _ Hle) _ m _ _ _ _ E Hnm). auto.
    + eapply run_code_mono; eauto.
  - destruct f; auto.
    destruct (nth_error p fid) as [[np s0|np code]|]; auto.
    destruct (find_case s code); auto.
    eapply run_code_mono; eauto.
Qed.

Lemma drive_mono : forall p sc k n m k' r w x, drive p sc n k r w = Some x -> n <= m -> k <= k' -> drive p sc m k' r w = Some x.
Proof.
  intros p sc. induction k; intros n m k' r w x H Hm Hk; destruct r; simpl in *; try discriminate.
  - destruct k'; auto.
  - destruct k'; auto.
  - destruct k'; [lia|]. simpl.
    destruct (call p sc n (Resume f) w) as [[r' w']|] eqn:E; [|discriminate].
    rewrite (call_mono _ _ _ m _ _ _ E Hm). eapply IHk; eauto. lia.
Qed.


(* ------------------------------------------------------------------ well-formedness of flat programs *)
Lemma exec_continue_label : forall callf strict n s loc w l loc' w',
  exec callf strict n s loc w = Some (OContinue l, loc', w') ->
  forall inner, existsb (targets l) inner = false -> In l (esc_conts inner s).
Proof.
  induction n; intros s loc w l loc' w' H inner Hin; [discriminate|].
  destruct s; simpl in *; try (inversion H; fail); try discriminate.
  - destruct strict; inversion H.
  - destruct (callf f _ w) as [[v w1]|]; inversion H.
  - apply in_or_app. destruct (exec callf strict n s1 loc w) as [[[o l1] w1]|] eqn:E; [|discriminate].
    destruct o; try (inversion H; subst; left; eapply IHn; eauto; fail).
    right; eapply IHn; eauto.
  - destruct (truthy _); [eapply IHn; eauto | inversion H].
  - apply in_or_app. destruct (truthy _); [left | right]; eapply IHn; eauto.
  - apply in_or_app. right. apply in_or_app.
    destruct (exec callf strict n s1 loc w) as [[[o l1] w1]|] eqn:E; [|discriminate].
    destruct o; try discriminate.
    destruct (truthy _); [|inversion H].
    destruct (exec callf strict n s3 l1 w1) as [[[o2 l2] w2]|] eqn:E2; [|discriminate].
    assert (A : match exec callf strict n s2 l2 w2 with
                | Some (ONormal, l3, w3) => exec callf strict n (SFor m lbl SSkip c s2 s3) l3 w3
                | Some _ => None | None => None end = Some (OContinue l, loc', w') ->
                In l (esc_conts inner s2) \/ In l (esc_conts (lbl :: inner) s3)).
    { intros Hy. destruct (exec callf strict n s2 l2 w2) as [[[o3 l3] w3]|] eqn:E3; [|discriminate].
      destruct o3; try discriminate. apply (IHn _ _ _ _ _ _) with (inner := inner) in Hy; auto.
      simpl in Hy. apply in_app_or in Hy. auto. }
    destruct o2; auto.
    + destruct (targets l0 lbl); inversion H.
    + destruct (targets l0 lbl) eqn:Et; auto. inversion H; subst. right. eapply IHn; eauto.
      simpl. rewrite Et. auto.
    + inversion H.
  - inversion H; subst. rewrite Hin. left; auto.
Qed.

Definition fn_ok (p : fprog) (f : ffn) : Prop :=
  match f with
  | FDirect _ s => direct_okb p s = true
  | FFlat _ code => forallb (instr_okb p) code = true /\ NoDup (labels code)
  end.

Lemma nodupb_NoDup : forall l, nodupb l = true -> NoDup l.
Proof.
  induction l; simpl; intros H; constructor; apply andb_true_iff in H as [H1 H2]; auto.
  intro Hin. apply negb_true_iff in H1.
  assert (existsb (Nat.eqb a) l = true) by (apply existsb_exists; exists a; split; auto; apply Nat.eqb_refl).
  congruence.
Qed.

Definition wf_prog (p : fprog) : Prop := wf_progb p = true.

Lemma wf_fn_ok : forall p f fn, wf_prog p -> nth_error p f = Some fn -> fn_ok p fn.
Proof.
  intros p f fn WF H. unfold wf_prog, wf_progb in WF. rewrite forallb_forall in WF.
  specialize (WF fn (nth_error_In _ _ H)). destruct fn; simpl in *; auto.
  apply andb_true_iff in WF as [H1 H2]. split; auto. apply nodupb_NoDup; auto.
Qed.

Lemma exec_mono_on : forall (P : fname -> bool) c1 c2 strict,
  (forall f a w r, P f = true -> c1 f a w = Some r -> c2 f a w = Some r) ->
  forall n m s loc w x, calls_in P s = true -> exec c1 strict n s loc w = Some x -> n <= m ->
  exec c2 strict m s loc w = Some x.
Proof.
  intros P c1 c2 strict Hle. induction n; intros m s loc w x Hc H Hm; [discriminate|].
  destruct m; [lia|]. assert (Hnm : n <= m) by lia.
  destruct s; simpl in *; auto;
    repeat match goal with h : _ && _ = true |- _ => apply andb_true_iff in h; destruct h end.
  - destruct (c1 f _ w) as [[v w']|] eqn:E; [|discriminate]. rewrite (Hle _ _ _ _ Hc E). auto.
  - destruct (exec c1 strict n s1 loc w) as [[[o l] w1]|] eqn:E; [|discriminate].
    rewrite (IHn m _ _ _ _ H0 E Hnm). destruct o; eauto.
  - destruct (truthy _); eauto.
  - destruct (truthy _); eauto.
  - destruct (exec c1 strict n s1 loc w) as [[[o l] w1]|] eqn:E; [|discriminate].
    rewrite (IHn m _ _ _ _ H0 E Hnm). destruct o; try discriminate.
    destruct (truthy _); auto.
    destruct (exec c1 strict n s3 l w1) as [[[o2 l2] w2]|] eqn:E2; [|discriminate].
    rewrite (IHn m _ _ _ _ H1 E2 Hnm).
    assert (A : forall y, match exec c1 strict n s2 l2 w2 with
                | Some (ONormal, l3, w3) => exec c1 strict n (SFor m0 lbl SSkip c s2 s3) l3 w3
                | Some _ => None | None => None end = Some y ->
                match exec c2 strict m s2 l2 w2 with
                | Some (ONormal, l3, w3) => exec c2 strict m (SFor m0 lbl SSkip c s2 s3) l3 w3
                | Some _ => None | None => None end = Some y).
    { intros y Hy. destruct (exec c1 strict n s2 l2 w2) as [[[o3 l3] w3]|] eqn:E3; [|discriminate].
      rewrite (IHn m _ _ _ _ H2 E3 Hnm). destruct o3; try discriminate.
      apply (IHn m _ _ _ _) in Hy; auto. simpl. rewrite H2, H1. auto. }
    destruct o2; auto; destruct (targets l0 lbl); auto.
Qed.

(* ------------------------------------------------------------------ case lookup *)
Definition suffix_like (cur code : list instr) : Prop :=
  exists pre, code = pre ++ cur \/
    exists dst m ce args rest, cur = IResume dst m :: rest /\ code = pre ++ ICall dst ce args m :: rest.

Lemma suffix_like_cons : forall i cur code, suffix_like (i :: cur) code -> suffix_like cur code.
Proof.
  intros i cur code [pre [H | [dst [m [ce [args [rest [H1 H2]]]]]]]].
  - exists (pre ++ [i]). left. rewrite <- app_assoc. auto.
  - inversion H1; subst. exists (pre ++ [ICall dst ce args m]). left. rewrite <- app_assoc. auto.
Qed.

Lemma suffix_like_under : forall i cur code, suffix_like cur code -> suffix_like cur (i :: code).
Proof.
  intros i cur code [pre [H | [dst [m [ce [args [rest [H1 H2]]]]]]]]; exists (i :: pre); subst.
  - left; auto.
  - right. exists dst, m, ce, args, rest. split; auto.
Qed.

Lemma find_case_suffix : forall n code cur, find_case n code = Some cur -> suffix_like cur code.
Proof.
  induction code; intros cur H; simpl in H; [discriminate|].
  destruct a; try (apply suffix_like_under; auto; fail).
  - destruct (Nat.eqb n0 n).
    + inversion H; subst. exists [ILbl n0]. left; reflexivity.
    + apply suffix_like_under; auto.
  - destruct (Nat.eqb n0 n).
    + inversion H; subst. exists []. right. exists dst, n0, ce, args, code. split; reflexivity.
    + apply suffix_like_under; auto.
Qed.

Lemma find_case_resume : forall pre dst ce args m rest,
  NoDup (labels (pre ++ ICall dst ce args m :: rest)) ->
  find_case m (pre ++ ICall dst ce args m :: rest) = Some (IResume dst m :: rest).
Proof.
  induction pre; intros dst ce args m rest H; simpl.
  - rewrite Nat.eqb_refl. auto.
  - assert (Hin : In m (labels (pre ++ ICall dst ce args m :: rest))).
    { clear. induction pre; simpl; auto. destruct a; simpl; auto. }
    destruct a; simpl in H; try (apply IHpre; auto; fail).
    + inversion H; subst. destruct (Nat.eqb n m) eqn:E; [apply Nat.eqb_eq in E; subst; contradiction|]. apply IHpre; auto.
    + inversion H; subst. destruct (Nat.eqb n m) eqn:E; [apply Nat.eqb_eq in E; subst; contradiction|]. apply IHpre; auto.
Qed.

(* ------------------------------------------------------------------ the simulation *)
Definition never : nat -> bool := fun _ => false.

Section Sim.
  Variable p : fprog.
  Variable sc : nat -> bool.
  Hypothesis WF : wf_prog p.

  (* "for all sufficiently large fuel" *)
  Definition Calls (en : entry) (w : world) (r : result) (w' : world) : Prop :=
    exists N, forall m, N <= m -> call p sc m en w = Some (r, w').
  Definition Settles (r : result) (w : world) (v : Z) (w' : world) : Prop :=
    exists N, forall m k, N <= m -> N <= k -> drive p sc m k r w = Some (v, w').
  Definition Runs (code : list instr) (fid : fname) (cur : list instr) (loc : list Z) (c : bool) (r : frame)
             (w : world) (res : result) (w' : world) : Prop :=
    exists N, forall m k, N <= m -> N <= k -> run_code (call p sc m) code fid k cur loc c r w = Some (res, w').

  Lemma Settles_done : forall v w, Settles (Done v) w v w.
  Proof. exists 0. intros m k _ _. destruct k; auto. Qed.

  Lemma Settles_done_inv : forall v w v' w', Settles (Done v) w v' w' -> v = v' /\ w = w'.
  Proof. intros v w v' w' [N H]. specialize (H N N (le_n _) (le_n _)). destruct N; simpl in H; inversion H; auto. Qed.

  Lemma Settles_step : forall f w r' w1 v w',
    Calls (Resume f) w r' w1 -> Settles r' w1 v w' -> Settles (Blocked f) w v w'.
  Proof.
    intros f w r' w1 v w' [N1 H1] [N2 H2]. exists (S (N1 + N2)). intros m k Hm Hk.
    destruct k; [lia|]. simpl. rewrite H1 by lia. apply H2; lia.
  Qed.

  Lemma fn_wf : forall f fn, nth_error p f = Some fn -> fn_ok p fn.
  Proof. intros; eapply wf_fn_ok; eauto. Qed.

  (* functions emitted in direct form never reach the scheduler: same result under every schedule *)
  Lemma direct_indep : forall n f args w x, is_directb p f = true ->
    call p never n (Fresh (CFn f) args) w = Some x -> call p sc n (Fresh (CFn f) args) w = Some x.
  Proof.
    induction n; intros f args w x Hd H; [discriminate|].
    simpl in *. unfold is_directb in Hd.
    destruct (nth_error p f) as [[np s|np code]|] eqn:Hf; try discriminate.
    pose proof (fn_wf _ _ Hf) as Hok. simpl in Hok. apply andb_true_iff in Hok as [Hok _].
    destruct (exec (callf_nb (call p never n)) true n s args w) as [[[o l] w1]|] eqn:E; [|discriminate].
    erewrite (exec_mono_on (is_directb p) (callf_nb (call p never n)) (callf_nb (call p sc n))); eauto.
    intros f' a w0 r Hd' Hc. unfold callf_nb in *.
    destruct (call p never n (Fresh (CFn f') a) w0) as [[res w2]|] eqn:E2; [|discriminate].
    rewrite (IHn _ _ _ _ Hd' E2). auto.
  Qed.

  Lemma direct_nb_le : forall n m, n <= m -> forall f a w r, is_directb p f = true ->
    callf_nb (call p never n) f a w = Some r -> callf_nb (call p sc m) f a w = Some r.
  Proof.
    intros n m Hnm f a w r Hd H. unfold callf_nb in *.
    destruct (call p never n (Fresh (CFn f) a) w) as [[res w2]|] eqn:E; [|discriminate].
    rewrite (call_mono _ _ _ m _ _ _ (direct_indep _ _ _ _ _ Hd E) Hnm). auto.
  Qed.

  (* run_code ignores r while $c is false *)
  Lemma run_code_r_irrelevant : forall callf code fid k cur loc r r' w,
    run_code callf code fid k cur loc false r w = run_code callf code fid k cur loc false r' w.
  Proof.
    induction k; intros; simpl; auto.
    destruct cur as [|i rest]; auto. destruct i; auto.
    - destruct (find_case n code); auto.
    - destruct (truthy _); auto. destruct (find_case n code); auto.
    - destruct (truthy _); auto. destruct (find_case n code); auto.
    - destruct (exec _ _ _ _ _ _) as [[[o l] w1]|]; auto. destruct o; auto.
      + destruct (find_flow l0 ctx); auto. destruct (find_case _ code); auto.
      + destruct (find_flow l0 ctx); auto. destruct (exec _ _ _ _ _ _) as [[[o2 l2] w2]|]; auto.
        destruct o2; auto. destruct (find_case _ code); auto.
    - destruct (callf _ w) as [[res w1]|]; auto. destruct res; auto.
  Qed.

  Lemma Runs_r_irrelevant : forall code fid cur loc r r' w res w',
    Runs code fid cur loc false r w res w' -> Runs code fid cur loc false r' w res w'.
  Proof.
    intros code fid cur loc r r' w res w' [N H]. exists N. intros m k Hm Hk.
    rewrite (run_code_r_irrelevant _ _ _ _ _ _ r' r). auto.
  Qed.

  (* one unfolding step of run_code at large fuel *)
  Lemma Runs_unfold : forall code fid cur loc c r w res w' N,
    (forall m k, N <= m -> N <= k -> run_code (call p sc m) code fid (S k) cur loc c r w = Some (res, w')) ->
    Runs code fid cur loc c r w res w'.
  Proof.
    intros. exists (S N). intros m k Hm Hk. destruct k; [lia|]. apply H; lia.
  Qed.

  Lemma Runs_jump : forall code fid n loc c r w v w',
    (forall cur', find_case n code = Some cur' -> exists res w1, Runs code fid cur' loc c r w res w1 /\ Settles res w1 v w') ->
    (find_case n code = None -> v = 0%Z /\ w' = w) ->
    exists N res w1, Settles res w1 v w' /\
      forall m k, N <= m -> N <= k ->
        match find_case n code with
        | Some cur' => run_code (call p sc m) code fid k cur' loc c r w
        | None => Some (Done 0, w)
        end = Some (res, w1).
  Proof.
    intros code fid n loc c r w v w' Hs Hn.
    destruct (find_case n code) as [cur'|].
    - destruct (Hs _ eq_refl) as [res [w1 [[N HR] HS]]]. exists N, res, w1. split; auto.
    - destruct (Hn eq_refl); subst. exists 0, (Done 0%Z), w. split; [apply Settles_done | auto].
  Qed.

  (* re-entering a saved caller frame: the callee chain is driven to completion, then the caller goes on *)
  Lemma resume_frame : forall np code fid m dst rest loc v1 w1 v w',
    nth_error p fid = Some (FFlat np code) ->
    find_case m code = Some (IResume dst m :: rest) ->
    (exists res w2, Runs code fid rest (set_dst dst v1 loc) false FLeaf w1 res w2 /\ Settles res w2 v w') ->
    forall M k f wa, drive p sc M k (Blocked f) wa = Some (v1, w1) ->
    Settles (Blocked (FFrame fid m loc f)) wa v w'.
  Proof.
    intros np code fid m dst rest loc v1 w1 v w' Hf Hfc [res [w2 [[NR HR] HS]]] M.
    induction k; intros f wa Hd; simpl in Hd; [discriminate|].
    destruct (call p sc M (Resume f) wa) as [[r' wb]|] eqn:Ec; [|discriminate].
    destruct r' as [v1'|f'].
    - (* the callee chain is finished: the caller continues after the call site *)
      assert (v1' = v1 /\ wb = w1) as [-> ->] by (destruct k; simpl in Hd; inversion Hd; auto).
      eapply Settles_step; [|exact HS].
      exists (S (S (M + NR))). intros m0 Hm0.
      destruct m0; [lia|]. simpl. rewrite Hf, Hfc.
      destruct m0; [lia|]. remember (call p sc (S m0)) as C. simpl. subst C.
      rewrite (call_mono _ _ _ (S m0) _ _ _ Ec) by lia.
      apply HR; lia.
    - (* suspended again further down: the caller saves its frame again with the new callee frame *)
      eapply Settles_step; [|apply (IHk _ _ Hd)].
      exists (S (S M)). intros m0 Hm0.
      destruct m0; [lia|]. simpl. rewrite Hf, Hfc.
      destruct m0; [lia|]. remember (call p sc (S m0)) as C. simpl. subst C.
      rewrite (call_mono _ _ _ (S m0) _ _ _ Ec) by lia. auto.
  Qed.

  Definition sim_call_at (n : nat) : Prop :=
    forall ce args w v w', call p never n (Fresh ce args) w = Some (Done v, w') ->
    exists r1 w1, Calls (Fresh ce args) w r1 w1 /\ Settles r1 w1 v w'.

  Lemma sim_code : forall n, sim_call_at n ->
    forall np code fid, nth_error p fid = Some (FFlat np code) ->
    forall k cur loc r0 w v w', suffix_like cur code ->
    run_code (call p never n) code fid k cur loc false r0 w = Some (Done v, w') ->
    exists res w1, Runs code fid cur loc false r0 w res w1 /\ Settles res w1 v w'.
  Proof.
    intros n IHc np code fid Hf.
    pose proof (fn_wf _ _ Hf) as [Hok Hnd].
    induction k; intros cur loc r0 w v w' Hsuf H; [discriminate|].
    simpl in H.
    destruct cur as [|i rest].
    { inversion H; subst. exists (Done 0%Z), w'. split; [|apply Settles_done].
      exists 1. intros m k0 _ Hk. destruct k0; [lia|]. auto. }
    pose proof (suffix_like_cons _ _ _ Hsuf) as Hrest.
    assert (Hjump : forall n0 l wj, 
              match find_case n0 code with
              | Some cur' => run_code (call p never n) code fid k cur' l false r0 wj
              | None => Some (Done 0%Z, wj) end = Some (Done v, w') ->
              exists N res w1, Settles res w1 v w' /\
                forall m k0, N <= m -> N <= k0 ->
                match find_case n0 code with
                | Some cur' => run_code (call p sc m) code fid k0 cur' l false r0 wj
                | None => Some (Done 0%Z, wj) end = Some (res, w1)).
    { intros n0 l wj Hj. apply Runs_jump.
      - intros cur' Hfc. rewrite Hfc in Hj. eapply IHk; eauto. eapply find_case_suffix; eauto.
      - intros Hfc. rewrite Hfc in Hj. inversion Hj; auto. }
    destruct i.
    - (* ILbl *)
      destruct (IHk _ _ _ _ _ _ Hrest H) as [res [w1 [[N HR] HS]]].
      exists res, w1. split; auto. apply (Runs_unfold _ _ _ _ _ _ _ _ _ N). intros; simpl; auto.
    - (* IGoto *)
      destruct (Hjump _ _ _ H) as [N [res [w1 [HS HR]]]].
      exists res, w1. split; auto. apply (Runs_unfold _ _ _ _ _ _ _ _ _ N). intros; simpl; auto.
    - (* IIfGoto *)
      destruct (truthy (eval c loc w)) eqn:Et.
      + destruct (Hjump _ _ _ H) as [N [res [w1 [HS HR]]]].
        exists res, w1. split; auto. apply (Runs_unfold _ _ _ _ _ _ _ _ _ N). intros; simpl; rewrite Et; auto.
      + destruct (IHk _ _ _ _ _ _ Hrest H) as [res [w1 [[N HR] HS]]].
        exists res, w1. split; auto. apply (Runs_unfold _ _ _ _ _ _ _ _ _ N). intros; simpl; rewrite Et; auto.
    - (* IIfNotGoto *)
      destruct (truthy (eval c loc w)) eqn:Et.
      + destruct (IHk _ _ _ _ _ _ Hrest H) as [res [w1 [[N HR] HS]]].
        exists res, w1. split; auto. apply (Runs_unfold _ _ _ _ _ _ _ _ _ N). intros; simpl; rewrite Et; auto.
      + destruct (Hjump _ _ _ H) as [N [res [w1 [HS HR]]]].
        exists res, w1. split; auto. apply (Runs_unfold _ _ _ _ _ _ _ _ _ N). intros; simpl; rewrite Et; auto.
    - (* IStruct: code left in direct form runs identically *)
      assert (Hi : instr_okb p (IStruct ctx s) = true).
      { destruct Hsuf as [pre [Hc | [? [? [? [? [? [Hc _]]]]]]]]; [|discriminate].
        rewrite Hc in Hok. rewrite forallb_app in Hok. apply andb_true_iff in Hok as [_ Hok].
        simpl in Hok. apply andb_true_iff in Hok as [Hok _]. auto. }
      simpl in Hi. apply andb_true_iff in Hi as [Hs Hctx]. rewrite forallb_forall in Hctx.
      apply andb_true_iff in Hs as [Hs _].
      destruct (exec (callf_nb (call p never n)) true k s loc w) as [[[o l] w1]|] eqn:E; [|discriminate].
      assert (E' : forall m k0, n <= m -> k <= k0 -> exec (callf_nb (call p sc m)) true k0 s loc w = Some (o, l, w1)).
      { intros m k0 Hm Hk0.
        exact (exec_mono_on (is_directb p) (callf_nb (call p never n)) (callf_nb (call p sc m)) true
                 (direct_nb_le n m Hm) k k0 s loc w _ Hs E Hk0). }
      destruct o.
      + destruct (IHk _ _ _ _ _ _ Hrest H) as [res [w2 [[N HR] HS]]].
        exists res, w2. split; auto. apply (Runs_unfold _ _ _ _ _ _ _ _ _ (N + n + k)). intros; simpl.
        rewrite E' by lia. apply HR; lia.
      + destruct (find_flow l0 ctx) as [fl|] eqn:Efl; [|discriminate].
        destruct (Hjump _ _ _ H) as [N [res [w2 [HS HR]]]].
        exists res, w2. split; auto. apply (Runs_unfold _ _ _ _ _ _ _ _ _ (N + n + k)). intros; simpl.
        rewrite E' by lia. rewrite Efl. apply HR; lia.
      + destruct (find_flow l0 ctx) as [fl|] eqn:Efl; [|discriminate].
        assert (Hpo : calls_in (is_directb p) (fl_post fl) = true).
        { specialize (Hctx l0 (exec_continue_label _ _ _ _ _ _ _ _ _ E [] eq_refl)). unfold post_okb in Hctx. rewrite Efl in Hctx. apply andb_true_iff in Hctx as [Hctx _]. auto. }
        destruct (exec (callf_nb (call p never n)) true k (fl_post fl) l w1) as [[[o2 l2] w2]|] eqn:E2; [|discriminate].
        assert (E2' : forall m k0, n <= m -> k <= k0 -> exec (callf_nb (call p sc m)) true k0 (fl_post fl) l w1 = Some (o2, l2, w2)).
        { intros m k0 Hm Hk0.
          exact (exec_mono_on (is_directb p) (callf_nb (call p never n)) (callf_nb (call p sc m)) true
                   (direct_nb_le n m Hm) k k0 (fl_post fl) l w1 _ Hpo E2 Hk0). }
        destruct o2; try discriminate.
        destruct (Hjump _ _ _ H) as [N [res [w3 [HS HR]]]].
        exists res, w3. split; auto. apply (Runs_unfold _ _ _ _ _ _ _ _ _ (N + n + k)). intros; simpl.
        rewrite E' by lia. rewrite Efl. rewrite E2' by lia. apply HR; lia.
      + inversion H; subst. exists (Done v), w'. split; [|apply Settles_done].
        apply (Runs_unfold _ _ _ _ _ _ _ _ _ (n + k)). intros; simpl. rewrite E' by lia. auto.
    - (* ICall: the interesting case *)
      destruct (call p never n (Fresh ce (map (fun a => eval a loc w) args)) w) as [[res1 w1]|] eqn:Ec; [|discriminate].
      destruct res1 as [v1|]; [|discriminate].
      destruct (IHc _ _ _ _ _ Ec) as [r1 [wa [[NC HC] HSc]]].
      destruct (IHk _ _ _ _ _ _ Hrest H) as [res [w2 [HR HS]]].
      destruct r1 as [v1'|f].
      + (* the callee returned without suspending *)
        apply Settles_done_inv in HSc as [-> ->].
        destruct HR as [N HR].
        exists res, w2. split; auto. apply (Runs_unfold _ _ _ _ _ _ _ _ _ (N + NC)). intros; simpl.
        rewrite HC by lia. apply HR; lia.
      + (* the callee suspended: this frame is saved; show that resuming it later completes the run *)
        exists (Blocked (FFrame fid n0 loc f)), wa. split.
        * apply (Runs_unfold _ _ _ _ _ _ _ _ _ NC). intros; simpl. rewrite HC by lia. auto.
        * destruct HSc as [NS HSc]. specialize (HSc NS NS (le_n _) (le_n _)).
          assert (Hfc : find_case n0 code = Some (IResume dst n0 :: rest)).
          { destruct Hsuf as [pre [Hc | [? [? [? [? [? [Hc _]]]]]]]]; [|discriminate].
            subst code. apply find_case_resume; auto. }
          eapply resume_frame; eauto.
          exists res, w2. split; auto. eapply Runs_r_irrelevant; eauto.
    - (* IResume reached with $c = false: a plain case label *)
      destruct (IHk _ _ _ _ _ _ Hrest H) as [res [w1 [[N HR] HS]]].
      exists res, w1. split; auto. apply (Runs_unfold _ _ _ _ _ _ _ _ _ N). intros; simpl; auto.
    - (* IRet *)
      inversion H; subst. exists (Done (eval e loc w')), w'. split; [|apply Settles_done].
      apply (Runs_unfold _ _ _ _ _ _ _ _ _ 0). intros; simpl; auto.
  Qed.

  Lemma sim_call : forall n, sim_call_at n.
  Proof.
    induction n; intros ce args w v w' H; [discriminate|].
    simpl in H. destruct ce as [|f].
    - (* the blocking primitive *)
      try unfold never in H. inversion H; subst.
      destruct (sc (w_tick w)) eqn:Es.
      + exists (Blocked FLeaf), (w_ticked w). split.
        * exists 1. intros m Hm. destruct m; [lia|]. simpl. rewrite Es. auto.
        * eapply Settles_step; [|apply Settles_done].
          exists 1. intros m Hm. destruct m; [lia|]. auto.
      + exists (Done 0%Z), (w_ticked w). split; [|apply Settles_done].
        exists 1. intros m Hm. destruct m; [lia|]. simpl. rewrite Es. auto.
    - destruct (nth_error p f) as [[np s|np code]|] eqn:Hf; try discriminate.
      + (* direct form *)
        exists (Done v), w'. split; [|apply Settles_done].
        exists (S n). intros m Hm.
        apply (call_mono _ _ (S n)); auto.
        apply direct_indep; [unfold is_directb; rewrite Hf; auto|].
        simpl. rewrite Hf. auto.
      + (* resumable form *)
        destruct (sim_code n IHn np code f Hf n code args FLeaf w v w') as [res [w1 [[N HR] HS]]]; auto.
        { exists []. left; auto. }
        exists res, w1. split; auto.
        exists (S N). intros m Hm. destruct m; [lia|]. simpl. rewrite Hf. apply HR; lia.
  Qed.
End Sim.

(* ------------------------------------------------------------------ without suspensions nothing is ever saved *)
Lemma run_code_done_only : forall callf code fid,
  (forall en w r w', callf en w = Some (r, w') -> exists v, r = Done v) ->
  forall k cur loc c r w res w', run_code callf code fid k cur loc c r w = Some (res, w') -> exists v, res = Done v.
Proof.
  intros callf code fid Hc. induction k; intros cur loc c r w res w' H; [discriminate|].
  simpl in H. destruct cur as [|i rest]; [inversion H; eauto|].
  destruct i.
  - eauto.
  - destruct (find_case n code); [eauto | inversion H; eauto].
  - destruct (truthy _); [destruct (find_case n code); [eauto | inversion H; eauto] | eauto].
  - destruct (truthy _); [eauto | destruct (find_case n code); [eauto | inversion H; eauto]].
  - destruct (exec _ _ _ _ _ _) as [[[o l] w1]|]; [|discriminate]. destruct o.
    + eauto.
    + destruct (find_flow l0 ctx); [|discriminate]. destruct (find_case _ code); [eauto | inversion H; eauto].
    + destruct (find_flow l0 ctx); [|discriminate]. destruct (exec _ _ _ _ _ _) as [[[o2 l2] w2]|]; [|discriminate].
      destruct o2; try discriminate. destruct (find_case _ code); [eauto | inversion H; eauto].
    + inversion H; eauto.
  - destruct c; [discriminate|]. destruct (callf _ w) as [[res1 w1]|] eqn:E; [|discriminate].
    destruct (Hc _ _ _ _ E) as [v ->]. eauto.
  - destruct c; [|eauto]. destruct (callf _ w) as [[res1 w1]|] eqn:E; [|discriminate].
    destruct (Hc _ _ _ _ E) as [v ->]. eauto.
  - inversion H; eauto.
Qed.

Lemma never_call_done : forall p n en w r w', call p never n en w = Some (r, w') -> exists v, r = Done v.
Proof.
  intros p. induction n; intros en w r w' H; [discriminate|].
  simpl in H. destruct en as [ce args|f].
  - destruct ce.
    + unfold never in H. inversion H; eauto.
    + destruct (nth_error p f) as [[np s|np code]|]; try discriminate.
      * destruct (body_result _) as [[v w1]|]; inversion H; eauto.
      * eapply run_code_done_only; eauto.
  - destruct f; [inversion H; eauto|].
    destruct (nth_error p fid) as [[np s0|np code]|]; try discriminate.
    destruct (find_case s code); [|inversion H; eauto].
    eapply run_code_done_only; eauto.
Qed.

(* ------------------------------------------------------------------ main theorem *)
Theorem suspend_invisible : forall p sc fuel main args w v w',
  wf_prog p ->
  run_machine p never fuel main args w = Some (v, w') ->
  exists fuel', run_machine p sc fuel' main args w = Some (v, w').
Proof.
  intros p sc fuel main args w v w' WF H. unfold run_machine in *.
  destruct (call p never fuel (Fresh (CFn main) args) w) as [[r w1]|] eqn:E; [|discriminate].
  destruct (never_call_done _ _ _ _ _ _ E) as [v0 ->].
  assert (v0 = v /\ w1 = w') as [-> ->] by (destruct fuel; simpl in H; inversion H; auto).
  destruct (sim_call p sc WF fuel _ _ _ _ _ E) as [r1 [wa [[NC HC] [NS HS]]]].
  exists (NC + NS). rewrite HC by lia. apply HS; lia.
Qed.

Corollary flat_schedule_independent : forall p sc nglob fuel main args o,
  wf_prog p ->
  run_flat p never nglob fuel main args = Some o ->
  exists fuel', run_flat p sc nglob fuel' main args = Some o.
Proof.
  intros p sc nglob fuel main args o WF H. unfold run_flat in *.
  destruct (run_machine p never fuel main args (w0 nglob)) as [[v w']|] eqn:E; [|discriminate].
  destruct (suspend_invisible _ sc _ _ _ _ _ _ WF E) as [fuel' H']. exists fuel'. rewrite H'. auto.
Qed.

(* more fuel never changes a result *)
Lemma run_machine_mono : forall p sc n m main args w x,
  run_machine p sc n main args w = Some x -> n <= m -> run_machine p sc m main args w = Some x.
Proof.
  intros p sc n m main args w x H Hm. unfold run_machine in *.
  destruct (call p sc n (Fresh (CFn main) args) w) as [[r w1]|] eqn:E; [|discriminate].
  rewrite (call_mono _ _ _ m _ _ _ E Hm). eapply drive_mono; eauto.
Qed.

(* two schedules can only disagree by one of them not terminating within the given fuel *)
Corollary flat_schedules_agree : forall p sc1 sc2 nglob f0 f1 f2 main args o o1 o2,
  wf_prog p ->
  run_flat p never nglob f0 main args = Some o ->
  run_flat p sc1 nglob f1 main args = Some o1 ->
  run_flat p sc2 nglob f2 main args = Some o2 ->
  o1 = o /\ o2 = o.
Proof.
  intros p sc1 sc2 nglob f0 f1 f2 main args o o1 o2 WF H0 H1 H2.
  assert (A : forall sc f o', run_flat p sc nglob f main args = Some o' -> o' = o).
  { intros sc f o' H. destruct (flat_schedule_independent _ sc _ _ _ _ _ WF H0) as [f' H'].
    unfold run_flat in *.
    destruct (run_machine p sc f main args (w0 nglob)) as [x|] eqn:E1; [|discriminate].
    destruct (run_machine p sc f' main args (w0 nglob)) as [y|] eqn:E2; [|discriminate].
    pose proof (run_machine_mono _ _ _ (f + f') _ _ _ _ E1 ltac:(lia)) as A1.
    pose proof (run_machine_mono _ _ _ (f + f') _ _ _ _ E2 ltac:(lia)) as A2.
    rewrite A1 in A2. inversion A2; subst. rewrite H in H'. inversion H'; auto. }
  split; eapply A; eauto.
Qed.
