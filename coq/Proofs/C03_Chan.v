(* C03 — lemmas about Model/C03_Chan.v *)
From Coq Require Import List NArith ZArith Bool Arith Lia.
From RecordUpdate Require Import RecordSet.
From Verif Require Import Model.C03_Chan.
Import ListNotations RecordSetNotations.

(* ---------------------------------------------------------------- the two findings, on the model of the code as it is *)

(* F7 witness: main starts g1, yields; g1 sleeps in select { case c <- 5: }; main closes c. *)
Definition f7_prog : program :=
  {| p_caps := [0]; p_scripts := [[Go 1; Gosched; Close 1; Print 9%N]; [Select [CSend 1 5%N]; Print 3%N]] |}.
(* F6 witness: close of the nil channel *)
Definition f6_prog : program := {| p_caps := [0]; p_scripts := [[Close 0; Print 1%N]] |}.

Definition events_of (fx : variant) (p : program) : list (gid * event) :=
  rev (trace (run fx p 200 (init_state p [] []))).

(* ================================================================ channel invariants *)

Definition sowner (e : sentry) : gid := match e with SPlain g _ | SSel g _ _ => g end.
Definition rowner (e : rentry) : gid := match e with RPlain g | RSel g _ => g end.

Record chan_ok (ch : chanst) : Prop := {
  ok_buf : length (c_buf ch) <= c_cap ch;
  ok_recvq : c_recvq ch <> [] -> c_buf ch = [];
  ok_sendq : c_sendq ch <> [] -> length (c_buf ch) = c_cap ch;
  ok_closed : c_closed ch = true -> c_sendq ch = [] /\ c_recvq ch = [];
  ok_cross : forall se re, In se (c_sendq ch) -> In re (c_recvq ch) -> sowner se = rowner re;
  ok_nil : c_nil ch = true -> c_sendq ch = [] /\ c_recvq ch = [] /\ c_buf ch = [] /\ c_cap ch = 0;
  ok_ghost : c_acc ch = c_rcv ch ++ c_buf ch }.

Definition chans_ok (st : state) : Prop := Forall chan_ok (chans st).

(* ch' is ch with some queue entries removed *)
Record shrinks (ch ch' : chanst) : Prop := {
  sh_nil : c_nil ch' = c_nil ch; sh_cap : c_cap ch' = c_cap ch; sh_buf : c_buf ch' = c_buf ch;
  sh_closed : c_closed ch' = c_closed ch; sh_acc : c_acc ch' = c_acc ch; sh_rcv : c_rcv ch' = c_rcv ch;
  sh_sq : incl (c_sendq ch') (c_sendq ch); sh_rq : incl (c_recvq ch') (c_recvq ch);
  sh_sl : length (c_sendq ch') <= length (c_sendq ch); sh_rl : length (c_recvq ch') <= length (c_recvq ch) }.

Lemma incl_nil_eq {A} (l : list A) : incl l [] -> l = [].
Proof. destruct l; auto. intros H. destruct (H a). now left. Qed.

Lemma incl_nonempty {A} (l l' : list A) : incl l' l -> l' <> [] -> l <> [].
Proof. intros H N E. subst. apply N. now apply incl_nil_eq. Qed.

Lemma shrinks_refl ch : shrinks ch ch.
Proof. constructor; auto using incl_refl. Qed.

Lemma shrinks_trans a b c : shrinks a b -> shrinks b c -> shrinks a c.
Proof.
  intros [] []. constructor; try congruence; eauto using incl_tran; lia.
Qed.

Lemma shrinks_ok ch ch' : chan_ok ch -> shrinks ch ch' -> chan_ok ch'.
Proof.
  intros [] []. constructor.
  - congruence.
  - intros N. rewrite sh_buf0. apply ok_recvq0. eapply incl_nonempty; eauto.
  - intros N. rewrite sh_buf0, sh_cap0. apply ok_sendq0. eapply incl_nonempty; eauto.
  - intros C. rewrite sh_closed0 in C. destruct (ok_closed0 C) as [E1 E2]. rewrite E1 in sh_sq0. rewrite E2 in sh_rq0.
    split; now apply incl_nil_eq.
  - intros se re Hs Hr. apply ok_cross0; auto.
  - intros C. rewrite sh_nil0 in C. destruct (ok_nil0 C) as (E1 & E2 & E3 & E4). rewrite E1 in sh_sq0. rewrite E2 in sh_rq0.
    repeat split; try congruence; now apply incl_nil_eq.
  - congruence.
Qed.

(* ---- list helpers *)
Lemma upd_length {A} (l : list A) n x : length (upd l n x) = length l.
Proof. revert n; induction l; destruct n; simpl; auto. Qed.

Lemma nth_upd {A} (l : list A) n m x d : nth m (upd l n x) d = if Nat.eqb n m && Nat.ltb n (length l) then x else nth m l d.
Proof.
  revert n m; induction l as [|a l IH]; intros n m.
  - destruct n; simpl; rewrite ?andb_false_r; reflexivity.
  - destruct n, m; simpl; auto. rewrite IH. reflexivity.
Qed.

Lemma Forall_upd {A} (P : A -> Prop) l n x : Forall P l -> P x -> Forall P (upd l n x).
Proof. intros H; revert n; induction H; intros [|n] Px; simpl; auto. Qed.

Lemma remove_first_incl {A} eqb (x : A) l : incl (remove_first eqb x l) l.
Proof. induction l; simpl. apply incl_refl. destruct (eqb x a). apply incl_tl, incl_refl. apply incl_cons. now left. now apply incl_tl. Qed.

Lemma remove_first_length {A} eqb (x : A) l : length (remove_first eqb x l) <= length l.
Proof. induction l; simpl; auto. destruct (eqb x a); simpl; lia. Qed.

(* ---- state-level: st' has the channels of st with entries removed *)
Definition shrunk (st st' : state) : Prop := Forall2 shrinks (chans st) (chans st').

Lemma shrunk_refl st : shrunk st st.
Proof. unfold shrunk. induction (chans st); constructor; auto using shrinks_refl. Qed.

Lemma shrunk_trans a b c : shrunk a b -> shrunk b c -> shrunk a c.
Proof.
  unfold shrunk. generalize (chans a) (chans b) (chans c). intros x y z H; revert z.
  induction H; intros z Hz; inversion Hz; subst; constructor; eauto using shrinks_trans.
Qed.

Lemma shrunk_ok st st' : chans_ok st -> shrunk st st' -> chans_ok st'.
Proof.
  unfold chans_ok, shrunk. generalize (chans st) (chans st'). intros x y H S; revert H.
  induction S; intros Hx; inversion Hx; subst; constructor; eauto using shrinks_ok.
Qed.

Lemma nil_chan_ok : chan_ok nil_chan.
Proof. constructor; simpl; auto; try tauto; intros; try contradiction; try congruence. Qed.

Lemma get_chan_ok st c : chans_ok st -> chan_ok (get_chan st c).
Proof.
  unfold chans_ok, get_chan. intros H. destruct (Nat.lt_ge_cases c (length (chans st))).
  - eapply Forall_forall; eauto. now apply nth_In.
  - rewrite nth_overflow; auto using nil_chan_ok.
Qed.

Lemma shrunk_get st st' c : shrunk st st' -> shrinks (get_chan st c) (get_chan st' c).
Proof.
  unfold shrunk, get_chan. generalize (chans st) (chans st'). intros x y S; revert c.
  induction S; intros [|c]; simpl; auto using shrinks_refl.
Qed.

Lemma set_chan_ok st c ch : chans_ok st -> chan_ok ch -> chans_ok (set_chan st c ch).
Proof. unfold chans_ok, set_chan. simpl. intros. now apply Forall_upd. Qed.

Lemma set_chan_shrunk st c ch : shrinks (get_chan st c) ch -> shrunk st (set_chan st c ch).
Proof.
  unfold shrunk, set_chan, get_chan. simpl. generalize (chans st). intros l; revert c.
  induction l; intros [|c] H; simpl in *; constructor; auto using shrinks_refl.
  - clear IHl. induction l; constructor; auto using shrinks_refl.
Qed.

Lemma get_set_chan st c ch c' :
  get_chan (set_chan st c ch) c' = if Nat.eqb c c' && Nat.ltb c (length (chans st)) then ch else get_chan st c'.
Proof. unfold get_chan, set_chan. simpl. apply nth_upd. Qed.

(* ---- functions that leave the channels alone *)
Lemma chans_set_g st g x : chans (set_g st g x) = chans st.
Proof. reflexivity. Qed.
Lemma chans_schedule g st : chans (schedule g st) = chans st.
Proof. unfold schedule. destruct (g_asleep (get_g st g)); reflexivity. Qed.
Lemma chans_block g b st : chans (block g b st) = chans st.
Proof. reflexivity. Qed.
Lemma chans_log g e st : chans (log g e st) = chans st.
Proof. reflexivity. Qed.
Lemma chans_set_code g s st : chans (set_code g s st) = chans st.
Proof. reflexivity. Qed.
Lemma chans_panic_g g k st : chans (panic_g g k st) = chans st.
Proof. reflexivity. Qed.
Lemma chans_clear_wake g st : chans (clear_wake g st) = chans st.
Proof. reflexivity. Qed.
Lemma chans_start_pass st : chans (start_pass st) = chans st.
Proof. reflexivity. Qed.
Lemma chans_end_pass st : chans (end_pass st) = chans st.
Proof. unfold end_pass. destruct (scheduled st); reflexivity. Qed.
Lemma chans_yield g st : chans (yield g st) = chans st.
Proof.
  unfold yield. destruct (g_exit (get_g st g)); cbn -[end_pass get_g];
  repeat match goal with |- context [if ?b then _ else _] => destruct b; cbn -[end_pass get_g] end;
  rewrite ?chans_end_pass; reflexivity.
Qed.
Lemma chans_spawn prog k st : chans (spawn prog k st) = chans st.
Proof. unfold spawn. rewrite chans_schedule. reflexivity. Qed.

Lemma ok_of_chans st st' : chans st' = chans st -> chans_ok st -> chans_ok st'.
Proof. unfold chans_ok. congruence. Qed.

Lemma shrunk_of_chans st st' st'' : chans st'' = chans st' -> shrunk st st' -> shrunk st st''.
Proof. unfold shrunk. congruence. Qed.

(* ---- removing entries *)
Lemma remove_entries_shrunk g cs i st : shrunk st (remove_entries g cs i st).
Proof.
  revert i st; induction cs as [|[|c|c v] r IH]; intros i st; simpl.
  - apply shrunk_refl.
  - apply IH.
  - eapply shrunk_trans; [|apply IH]. apply set_chan_shrunk.
    constructor; simpl; auto using incl_refl, remove_first_incl, remove_first_length.
  - eapply shrunk_trans; [|apply IH]. apply set_chan_shrunk.
    constructor; simpl; auto using incl_refl, remove_first_incl, remove_first_length.
Qed.

Lemma remove_from_queues_shrunk g st : shrunk st (remove_from_queues g st).
Proof.
  unfold remove_from_queues. destruct (g_blocked (get_g st g)) as [[]|]; auto using shrunk_refl, remove_entries_shrunk.
Qed.

Lemma wake_up_shrunk g w st : shrunk st (wake_up g w st).
Proof.
  unfold wake_up. eapply shrunk_of_chans. rewrite chans_schedule, chans_set_g. reflexivity.
  apply remove_from_queues_shrunk.
Qed.

Lemma invoke_recv_entry_shrunk st e v ok : shrunk st (invoke_recv_entry st e v ok).
Proof. destruct e; apply wake_up_shrunk. Qed.

Lemma invoke_send_entry_shrunk fx st c e closed :
  fix_select_send fx = true -> exists st' v, invoke_send_entry fx st c e closed = SOk st' v /\ shrunk st st'.
Proof.
  intros F. destruct e; simpl; rewrite ?F; eauto using wake_up_shrunk.
Qed.

(* ---- $send *)
Definition opres_state (r : opres) : state := match r with Done s | Blocked s | Panicked s _ => s end.

Ltac fin := solve [ congruence | lia | tauto | auto | intuition congruence | intuition lia ].

Lemma do_send_ok st g c v : chans_ok st -> chans_ok (opres_state (do_send st g c v)).
Proof.
  intros H. unfold do_send. pose proof (get_chan_ok st c H) as Hc. set (ch := get_chan st c) in *.
  destruct (c_closed ch) eqn:Ecl; simpl; auto.
  destruct (c_recvq ch) as [|e q] eqn:Erq.
  - destruct (Nat.ltb_spec (length (c_buf ch)) (c_cap ch)); simpl.
    + apply set_chan_ok; auto. destruct Hc. constructor; simpl; rewrite ?app_length; simpl; try fin.
      rewrite ok_ghost0. now rewrite app_assoc.
    + eapply ok_of_chans. apply chans_block. unfold push_sendq. fold ch. destruct (c_nil ch) eqn:En; auto.
      apply set_chan_ok; auto. destruct Hc. constructor; simpl; try fin.
      rewrite Erq. intros ? ? _ [].
  - eapply shrunk_ok; [|apply invoke_recv_entry_shrunk]. apply set_chan_ok; auto.
    destruct Hc. assert (B : c_buf ch = []) by (apply ok_recvq0; rewrite Erq; discriminate).
    constructor; simpl; try fin.
    + intros se re Hs Hr. apply ok_cross0; auto. rewrite Erq. now right.
    + rewrite ok_ghost0, B, !app_nil_r. reflexivity.
Qed.

(* ---- $recv *)
Definition rnow_state (r : rnow) : state := match r with RNow s _ _ | RWait s | RThrow s _ => s end.

Lemma upd_upd {A} (l : list A) n a b : upd (upd l n a) n b = upd l n b.
Proof. revert n; induction l; intros [|n]; simpl; auto. now rewrite IHl. Qed.

Lemma shrunk_length st st' : shrunk st st' -> length (chans st') = length (chans st).
Proof. unfold shrunk. generalize (chans st) (chans st'). intros x y H. induction H; simpl; auto. Qed.

Lemma in_range_of_sendq st c : c_sendq (get_chan st c) <> [] -> c < length (chans st).
Proof.
  intros N. destruct (Nat.lt_ge_cases c (length (chans st))); auto.
  unfold get_chan in N. rewrite nth_overflow in N; auto. now destruct N.
Qed.
Lemma in_range_of_recvq st c : c_recvq (get_chan st c) <> [] -> c < length (chans st).
Proof.
  intros N. destruct (Nat.lt_ge_cases c (length (chans st))); auto.
  unfold get_chan in N. rewrite nth_overflow in N; auto. now destruct N.
Qed.

Lemma get_set_chan_same st c ch : c < length (chans st) -> get_chan (set_chan st c ch) c = ch.
Proof. intros L. rewrite get_set_chan, Nat.eqb_refl. apply Nat.ltb_lt in L. now rewrite L. Qed.

Lemma recv_now_ok fx st c : fix_select_send fx = true -> chans_ok st -> chans_ok (rnow_state (recv_now fx st c)).
Proof.
  intros F H. unfold recv_now. pose proof (get_chan_ok st c H) as Hc. set (ch := get_chan st c) in *.
  destruct (c_sendq ch) as [|e q] eqn:Esq.
  - (* no queued sender *)
    fold ch. destruct (c_buf ch) as [|x b] eqn:Eb.
    + destruct (c_closed ch); [destruct (c_nil ch)|]; simpl; auto.
    + simpl. apply set_chan_ok; auto. destruct Hc. rewrite Eb in *. simpl in *.
      constructor; simpl; try fin.
      rewrite ok_ghost0, <- app_assoc. reflexivity.
  - (* a queued sender: its value goes to the buffer tail, the head is returned *)
    assert (R : c < length (chans st)) by (apply in_range_of_sendq; fold ch; rewrite Esq; discriminate).
    set (ch1 := ch <| c_sendq := q |>).
    destruct (invoke_send_entry_shrunk fx (set_chan st c ch1) c e false F) as (st2 & v' & E & Sh).
    rewrite E. pose proof (shrunk_get _ _ c Sh) as S2. rewrite get_set_chan_same in S2 by auto.
    assert (R2 : c < length (chans st2)) by (rewrite (shrunk_length _ _ Sh); unfold set_chan; simpl; now rewrite upd_length).
    set (ch2 := get_chan st2 c) in *.
    rewrite get_set_chan_same by auto. simpl.
    destruct (c_buf ch2 ++ [v']) as [|x b] eqn:Eb. { now destruct (c_buf ch2). }
    simpl.
    assert (K : chans_ok st2).
    { apply shrunk_ok with (st := set_chan st c ch1); [|exact Sh]. apply set_chan_ok; auto. destruct Hc. constructor; simpl; try fin.
      intros se re Hs Hr. apply ok_cross0; auto. rewrite Esq. now right. }
    eapply ok_of_chans with (st := set_chan st2 c _).
    { unfold set_chan. simpl. rewrite upd_upd. reflexivity. }
    apply set_chan_ok; auto.
    destruct Hc, S2. simpl in *.
    assert (Lb : length (c_buf ch) = c_cap ch) by (apply ok_sendq0; rewrite Esq; discriminate).
    assert (Lx : length (x :: b) = S (length (c_buf ch))) by (rewrite <- Eb, app_length, sh_buf0; simpl; lia).
    simpl in Lx.
    constructor; simpl; try fin.
    + intros N. assert (B : c_buf ch = []) by (apply ok_recvq0; eapply incl_nonempty; eauto).
      rewrite B in Lx. destruct b; simpl in *; auto; lia.
    + intros C. rewrite sh_closed0 in C. apply ok_closed0 in C. rewrite Esq in C. now destruct C.
    + intros se re Hs Hr. apply ok_cross0; auto. rewrite Esq. right. now apply sh_sq0.
    + intros C. rewrite sh_nil0 in C. apply ok_nil0 in C. rewrite Esq in C. now destruct C.
    + rewrite sh_acc0, sh_rcv0, ok_ghost0, <- !app_assoc. simpl. rewrite <- Eb, sh_buf0. reflexivity.
Qed.

Lemma recv_now_wait fx st c st1 : fix_select_send fx = true ->
  recv_now fx st c = RWait st1 ->
  st1 = st /\ c_sendq (get_chan st c) = [] /\ c_buf (get_chan st c) = [] /\ c_closed (get_chan st c) = false.
Proof.
  intros F. unfold recv_now. set (ch := get_chan st c).
  destruct (c_sendq ch) as [|e q] eqn:Esq.
  - fold ch. destruct (c_buf ch); [|discriminate]. destruct (c_closed ch); [destruct (c_nil ch); discriminate|].
    intros E. inversion E. auto.
  - destruct (invoke_send_entry_shrunk fx (set_chan st c (ch <| c_sendq := q |>)) c e false F) as (st2 & v' & E & Sh).
    rewrite E.
    assert (R : c < length (chans st)) by (apply in_range_of_sendq; fold ch; rewrite Esq; discriminate).
    assert (R2 : c < length (chans st2)) by (rewrite (shrunk_length _ _ Sh); unfold set_chan; simpl; now rewrite upd_length).
    rewrite get_set_chan_same by auto. simpl.
    destruct (c_buf (get_chan st2 c) ++ [v']) eqn:Eb. { now destruct (c_buf (get_chan st2 c)). }
    discriminate.
Qed.

Definition rres_state (r : rres) : state := match r with RDone s _ _ | RBlocked s | RPanicked s _ => s end.

Lemma do_recv_ok fx st g c : fix_select_send fx = true -> chans_ok st -> chans_ok (rres_state (do_recv fx st g c)).
Proof.
  intros F H. unfold do_recv. pose proof (recv_now_ok fx st c F H) as K.
  destruct (recv_now fx st c) as [st1 v ok|st1|st1 k] eqn:E; simpl in *; auto.
  apply recv_now_wait in E; auto. destruct E as (-> & Es & Eb & Ec).
  eapply ok_of_chans. apply chans_block. unfold push_recvq.
  pose proof (get_chan_ok st c H) as Hc. set (ch := get_chan st c) in *.
  destruct (c_nil ch) eqn:En; auto. apply set_chan_ok; auto.
  destruct Hc. constructor; simpl; try fin.
  rewrite Es. intros ? ? [].
Qed.

(* ---- $close *)
Lemma chans_ok_pointwise st : chans_ok st <-> (forall c, chan_ok (get_chan st c)).
Proof.
  split. - intros H c. now apply get_chan_ok.
  - intros H. unfold chans_ok. apply Forall_forall. intros x Hx.
    destruct (In_nth _ _ nil_chan Hx) as (n & _ & E). rewrite <- E. apply H.
Qed.

Lemma upd_overflow {A} (l : list A) n x : length l <= n -> upd l n x = l.
Proof. revert n; induction l; intros [|n] L; simpl in *; auto; try lia. rewrite IHl; auto; lia. Qed.

Definition sres_state (r : sres) : state := match r with SOk s _ | SThrow s _ => s end.

Lemma close_senders_spec fx fuel st c : fix_select_send fx = true ->
  exists st' v, close_senders fx fuel st c = SOk st' v /\ shrunk st st' /\
                length (c_sendq (get_chan st' c)) <= length (c_sendq (get_chan st c)) - fuel.
Proof.
  intros F. revert st. induction fuel as [|f IH]; intros st; simpl.
  - exists st, 0%N. repeat split; auto using shrunk_refl. lia.
  - destruct (c_sendq (get_chan st c)) as [|e q] eqn:Esq.
    + exists st, 0%N. repeat split; auto using shrunk_refl. rewrite ?Esq. simpl. lia.
    + assert (R : c < length (chans st)) by (apply in_range_of_sendq; rewrite Esq; discriminate).
      set (st1 := set_chan st c (get_chan st c <| c_sendq := q |>)).
      destruct (invoke_send_entry_shrunk fx st1 c e true F) as (st2 & v' & E & Sh). rewrite E.
      destruct (IH st2) as (st3 & v3 & E3 & Sh3 & L3). exists st3, v3. split; auto.
      assert (Sh1 : shrunk st st1).
      { apply set_chan_shrunk. constructor; simpl; auto using incl_refl. rewrite Esq. apply incl_tl, incl_refl. rewrite ?Esq. simpl. lia. }
      split. { eauto using shrunk_trans. }
      pose proof (shrunk_get _ _ c Sh) as S2. unfold st1 in S2. rewrite get_set_chan_same in S2 by auto.
      destruct S2. rewrite ?Esq. simpl in *. etransitivity; [exact L3|]. now apply Nat.sub_le_mono_r.
Qed.

Lemma close_receivers_spec fuel st c :
  shrunk st (close_receivers fuel st c) /\
  length (c_recvq (get_chan (close_receivers fuel st c) c)) <= length (c_recvq (get_chan st c)) - fuel.
Proof.
  revert st. induction fuel as [|f IH]; intros st; simpl.
  - split; auto using shrunk_refl. lia.
  - destruct (c_recvq (get_chan st c)) as [|e q] eqn:Erq.
    + split; auto using shrunk_refl. rewrite ?Erq. simpl. lia.
    + assert (R : c < length (chans st)) by (apply in_range_of_recvq; rewrite Erq; discriminate).
      set (st1 := set_chan st c (get_chan st c <| c_recvq := q |>)).
      pose proof (invoke_recv_entry_shrunk st1 e 0%N false) as Sh.
      destruct (IH (invoke_recv_entry st1 e 0%N false)) as (Sh3 & L3).
      assert (Sh1 : shrunk st st1).
      { apply set_chan_shrunk. constructor; simpl; auto using incl_refl. rewrite Erq. apply incl_tl, incl_refl. rewrite ?Erq. simpl. lia. }
      split. { eauto using shrunk_trans. }
      pose proof (shrunk_get _ _ c Sh) as S2. unfold st1 in S2. rewrite get_set_chan_same in S2 by auto.
      destruct S2. rewrite ?Erq. simpl in *. etransitivity; [exact L3|]. now apply Nat.sub_le_mono_r.
Qed.

Lemma length_zero_nil {A} (l : list A) : length l <= 0 -> l = [].
Proof. destruct l; simpl; auto; lia. Qed.

Lemma do_close_ok fx st c : fix_select_send fx = true -> chans_ok st -> chans_ok (opres_state (do_close fx st c)).
Proof.
  intros F H. unfold do_close. pose proof (get_chan_ok st c H) as Hc. set (ch := get_chan st c) in *.
  destruct (fix_close_nil fx && c_nil ch); simpl; auto.
  destruct (c_closed ch) eqn:Ecl; simpl; auto.
  set (st1 := set_chan st c (ch <| c_closed := true |>)).
  destruct (close_senders_spec fx (length (c_sendq ch)) st1 c F) as (st2 & v2 & E2 & Sh2 & L2). rewrite E2. simpl.
  destruct (close_receivers_spec (length (c_recvq (get_chan st2 c))) st2 c) as (Sh3 & L3).
  set (st3 := close_receivers _ st2 c) in *.
  assert (Sh : shrunk st1 st3) by eauto using shrunk_trans.
  apply (proj2 (chans_ok_pointwise _)). intros c'.
  pose proof (shrunk_get _ _ c' Sh) as S'. unfold st1 in S' at 1. rewrite get_set_chan in S'.
  destruct (Nat.eqb_spec c c') as [Ec|N]; simpl in S'; [subst c'|].
  2:{ eapply shrinks_ok; [|exact S']. now apply get_chan_ok. }
  destruct (Nat.ltb_spec c (length (chans st))) as [R|R].
  2:{ eapply shrinks_ok; [|exact S']. now apply get_chan_ok. }
  (* the closed channel itself: both queues are empty now *)
  assert (Q2 : c_sendq (get_chan st2 c) = []).
  { apply length_zero_nil. unfold st1 in L2. rewrite get_set_chan_same in L2 by auto. simpl in L2. lia. }
  assert (Q3 : c_sendq (get_chan st3 c) = []).
  { pose proof (shrunk_get _ _ c Sh3) as S3. destruct S3. rewrite Q2 in *. now apply incl_nil_eq. }
  assert (Q4 : c_recvq (get_chan st3 c) = []) by (apply length_zero_nil; lia).
  destruct Hc, S'. simpl in *. constructor; try fin.
  intros C. rewrite sh_nil0 in C. apply ok_nil0 in C. intuition congruence.
Qed.

(* ---- $select *)
Definition not_ready (st : state) (cm : comm) : Prop :=
  match cm with
  | CDefault => True
  | CRecv c => let ch := get_chan st c in c_sendq ch = [] /\ c_buf ch = [] /\ c_closed ch = false
  | CSend c v => let ch := get_chan st c in c_closed ch = false /\ c_recvq ch = [] /\ c_cap ch <= length (c_buf ch)
  end.

Lemma length_eqb0 {A} (l : list A) : negb (Nat.eqb (length l) 0) = false -> l = [].
Proof. destruct l; simpl; auto; discriminate. Qed.

Lemma sel_scan_none_ready st cs i sel ready s' :
  sel_scan st cs i sel ready = Some (s', []) -> ready = [] /\ Forall (not_ready st) cs.
Proof.
  revert i sel ready. induction cs as [|[|c|c v] r IH]; intros i sel ready; simpl.
  - intros E. inversion E. auto.
  - intros E. apply IH in E. destruct E. split; auto. constructor; simpl; auto.
  - destruct (_ || _ || _) eqn:B.
    + intros E. apply IH in E. destruct E as [E _]. now destruct ready.
    + intros E. apply IH in E. destruct E. split; auto. constructor; auto.
      apply orb_false_elim in B. destruct B as [B B3]. apply orb_false_elim in B. destruct B as [B1 B2].
      simpl. auto using length_eqb0.
  - destruct (c_closed (get_chan st c)) eqn:Ec; [discriminate|].
    destruct (_ || _) eqn:B.
    + intros E. apply IH in E. destruct E as [E _]. now destruct ready.
    + intros E. apply IH in E. destruct E. split; auto. constructor; auto.
      apply orb_false_elim in B. destruct B as [B1 B2]. simpl. repeat split; auto using length_eqb0.
      apply Nat.ltb_ge in B2. exact B2.
Qed.

(* during registration: st' is st0 plus entries owned by g *)
Record grown (g : gid) (a b : chanst) : Prop := {
  gr_nil : c_nil b = c_nil a; gr_cap : c_cap b = c_cap a; gr_buf : c_buf b = c_buf a; gr_closed : c_closed b = c_closed a;
  gr_sq : exists l, c_sendq b = c_sendq a ++ l /\ Forall (fun e => sowner e = g) l;
  gr_rq : exists l, c_recvq b = c_recvq a ++ l /\ Forall (fun e => rowner e = g) l }.

Lemma grown_refl g a : grown g a a.
Proof. constructor; auto; exists []; rewrite app_nil_r; auto. Qed.

Lemma sel_register_ok g cs : forall i st0 st,
  Forall (not_ready st0) cs -> (forall c, grown g (get_chan st0 c) (get_chan st c)) -> chans_ok st ->
  chans_ok (sel_register g cs i st).
Proof.
  induction cs as [|[|c|c v] r IH]; intros i st0 st NR G K; simpl; auto.
  - inversion NR; subst. eauto.
  - inversion NR as [|? ? Hn NR']; subst. cbv zeta beta delta [not_ready] in Hn. destruct Hn as (Hs & Hb & Hc). apply IH with (st0 := st0); auto.
    + intros c'. unfold push_recvq. destruct (c_nil (get_chan st c)) eqn:En; auto.
      rewrite get_set_chan. destruct (Nat.eqb_spec c c') as [Ec|Ne]; simpl; auto.
      destruct (Nat.ltb_spec c (length (chans st))); auto. subst c'.
      destruct (G c). constructor; simpl; auto.
      destruct gr_rq0 as (l & E & F). exists (l ++ [RSel g i]). rewrite E, app_assoc. split; auto.
      apply Forall_app. split; auto.
    + unfold push_recvq. destruct (c_nil (get_chan st c)) eqn:En; auto. apply set_chan_ok; auto.
      pose proof (get_chan_ok st c K) as Hk. destruct (G c). destruct Hk.
      destruct gr_sq0 as (l & E & F). rewrite Hs in E. simpl in E.
      constructor; simpl; try fin.
      * intros se re Hse Hre. apply in_app_or in Hre. destruct Hre as [Hre|[<-|[]]]; auto.
        rewrite E in Hse. rewrite Forall_forall in F. simpl. auto.
  - inversion NR as [|? ? Hn NR']; subst. cbv zeta beta delta [not_ready] in Hn. destruct Hn as (Hc & Hr & Hb). apply IH with (st0 := st0); auto.
    + intros c'. unfold push_sendq. destruct (c_nil (get_chan st c)) eqn:En; auto.
      rewrite get_set_chan. destruct (Nat.eqb_spec c c') as [Ec|Ne]; simpl; auto.
      destruct (Nat.ltb_spec c (length (chans st))); auto. subst c'.
      destruct (G c). constructor; simpl; auto.
      destruct gr_sq0 as (l & E & F). exists (l ++ [SSel g i v]). rewrite E, app_assoc. split; auto.
      apply Forall_app. split; auto.
    + unfold push_sendq. destruct (c_nil (get_chan st c)) eqn:En; auto. apply set_chan_ok; auto.
      pose proof (get_chan_ok st c K) as Hk. destruct (G c). destruct Hk.
      destruct gr_rq0 as (l & E & F). rewrite Hr in E. simpl in E.
      constructor; simpl; try fin.
      * intros _. rewrite gr_buf0, gr_cap0 in *. lia.
      * intros se re Hse Hre. apply in_app_or in Hse. destruct Hse as [Hse|[<-|[]]]; auto.
        rewrite E in Hre. rewrite Forall_forall in F. simpl. symmetry. auto.
Qed.

Definition selres_state (r : selres) : state :=
  match r with SelDone s _ _ | SelBlocked s | SelPanicked s _ | SelOdd s => s end.

Lemma do_select_ok fx st g cs : fix_select_send fx = true -> chans_ok st -> chans_ok (selres_state (do_select fx st g cs)).
Proof.
  intros F H. unfold do_select.
  destruct (sel_scan st cs 0 None []) as [[selection ready]|] eqn:Es; simpl; auto.
  assert (Imm : forall st1 i, chans_ok st1 -> chans_ok (selres_state
            match nth i cs CDefault with
            | CDefault => SelDone st1 i None
            | CRecv c => match recv_now fx st1 c with
                         | RNow st2 v ok => SelDone st2 i (Some (v, ok))
                         | RWait st2 => SelOdd st2
                         | RThrow st2 k => SelPanicked st2 k
                         end
            | CSend c v => match do_send st1 g c v with
                           | Done st2 => SelDone st2 i None
                           | Blocked st2 => SelOdd st2
                           | Panicked st2 k => SelPanicked st2 k
                           end
            end)).
  { intros st1 i K. destruct (nth i cs CDefault) as [|c|c v]; simpl; auto.
    + pose proof (recv_now_ok fx st1 c F K). destruct (recv_now fx st1 c); simpl in *; auto.
    + pose proof (do_send_ok st1 g c v K). destruct (do_send st1 g c v); simpl in *; auto. }
  destruct ready as [|x ready].
  - destruct selection as [i|]; auto.
    simpl. eapply ok_of_chans. apply chans_block.
    apply sel_scan_none_ready in Es. destruct Es as [_ NR].
    apply sel_register_ok with (st0 := st); auto using grown_refl.
  - apply Imm. eapply ok_of_chans; [|exact H]. reflexivity.
Qed.

(* ================================================================ every step preserves the channel invariants *)

Lemma wake_up_ok g w st : chans_ok st -> chans_ok (wake_up g w st).
Proof. intros. eapply shrunk_ok; eauto using wake_up_shrunk. Qed.

Ltac frame1 :=
  match goal with
  | |- chans_ok (wake_up _ _ _) => apply wake_up_ok
  | |- chans_ok (set_code _ _ _) => eapply ok_of_chans; [apply chans_set_code|]
  | |- chans_ok (log _ _ _) => eapply ok_of_chans; [apply chans_log|]
  | |- chans_ok (yield _ _) => eapply ok_of_chans; [apply chans_yield|]
  | |- chans_ok (panic_g _ _ _) => eapply ok_of_chans; [apply chans_panic_g|]
  | |- chans_ok (clear_wake _ _) => eapply ok_of_chans; [apply chans_clear_wake|]
  | |- chans_ok (spawn _ _ _) => eapply ok_of_chans; [apply chans_spawn|]
  | |- chans_ok (block _ _ _) => eapply ok_of_chans; [apply chans_block|]
  | |- chans_ok (set_g _ _ _) => eapply ok_of_chans; [apply chans_set_g|]
  | |- chans_ok (start_pass _) => eapply ok_of_chans; [apply chans_start_pass|]
  | |- chans_ok (end_pass _) => eapply ok_of_chans; [apply chans_end_pass|]
  | |- chans_ok (set _ _ _) => eapply ok_of_chans; [reflexivity|]
  end.
Ltac frame := repeat first [assumption | frame1].

Lemma step_goroutine_ok fx prog g st : fix_select_send fx = true -> chans_ok st -> chans_ok (step_goroutine fx prog g st).
Proof.
  intros F H. unfold step_goroutine.
  destruct (g_code (get_g st g)) as [|o rest].
  { destruct (Nat.eqb g 0); frame. }
  destruct (g_wake (get_g st g)) as [w|].
  { destruct o, w; try destruct closed; try destruct ok; frame. }
  destruct o.
  - pose proof (do_send_ok st g c v H). destruct (do_send st g c v); simpl in *; frame.
  - pose proof (do_recv_ok fx st g c F H). destruct (do_recv fx st g c); simpl in *; frame.
  - pose proof (do_close_ok fx st c F H). destruct (do_close fx st c); simpl in *; frame.
  - pose proof (do_select_ok fx st g cs F H). destruct (do_select fx st g cs); simpl in *; frame.
  - pose proof (do_recv_ok fx st g c F H). destruct (do_recv fx st g c) as [? ? []| |]; simpl in *; frame.
  - frame.
  - frame.
  - frame.
  - frame.
Qed.

Lemma impl_step_ok fx prog st : fix_select_send fx = true -> chans_ok st -> chans_ok (impl_step fx prog st).
Proof.
  intros F H. unfold impl_step. destruct (halted st); auto.
  destruct (md st).
  - unfold fire_timer. destruct (timers st) as [|[id|g] ts]; frame.
  - destruct (scheduled st); frame.
  - now apply step_goroutine_ok.
Qed.

Lemma init_state_ok prog pk bk : chans_ok (init_state prog pk bk).
Proof.
  unfold init_state. eapply ok_of_chans. apply chans_start_pass. unfold chans_ok. simpl.
  constructor. apply nil_chan_ok. apply Forall_forall. intros x Hx. apply in_map_iff in Hx. destruct Hx as (cap & <- & _).
  constructor; simpl; auto; try tauto; try lia; intros; try contradiction; try congruence.
Qed.

(* reachability: any number of steps from the initial state, for any program and any oracles *)
Inductive reachable (fx : variant) (prog : program) : state -> Prop :=
| reach_init pk bk : reachable fx prog (init_state prog pk bk)
| reach_step st : reachable fx prog st -> reachable fx prog (impl_step fx prog st).

Theorem chan_invariants fx prog st : fix_select_send fx = true -> reachable fx prog st -> chans_ok st.
Proof. intros F R. induction R; auto using init_state_ok, impl_step_ok. Qed.

Lemma run_reachable fx prog fuel st : reachable fx prog st -> reachable fx prog (run fx prog fuel st).
Proof. revert st; induction fuel; intros st R; simpl; auto. destruct (final st); auto. apply IHfuel. now constructor. Qed.

(* ================================================================ no lost wake-up: statement, and its refutation on the code as it is *)

(* can this communication happen now, if goroutine g performs it?  (Go: ready to proceed) *)
Definition comm_enabled (st : state) (g : gid) (cm : comm) : Prop :=
  match cm with
  | CDefault => False
  | CSend c v => let ch := get_chan st c in
      c_nil ch = false /\ (c_closed ch = true \/ length (c_buf ch) < c_cap ch \/ exists re, In re (c_recvq ch) /\ rowner re <> g)
  | CRecv c => let ch := get_chan st c in
      c_nil ch = false /\ (c_closed ch = true \/ c_buf ch <> [] \/ exists se, In se (c_sendq ch) /\ sowner se <> g)
  end.

Definition blocked_enabled (st : state) (g : gid) (b : blocked) : Prop :=
  match b with
  | BSend c v => comm_enabled st g (CSend c v)
  | BRecv c => comm_enabled st g (CRecv c)
  | BSel cs => Exists (comm_enabled st g) cs
  | BTimer => False
  end.

(* a goroutine that sleeps on an operation: that operation cannot proceed *)
Definition no_lost_wakeup_at (st : state) : Prop :=
  forall g b, g_blocked (get_g st g) = Some b -> ~ blocked_enabled st g b.

Lemma f7_lost_wakeup :
  let st := run as_is f7_prog 200 (init_state f7_prog [] []) in
  final st = true /\
  g_blocked (get_g st 1) = Some (BSel [CSend 1 5%N]) /\ blocked_enabled st 1 (BSel [CSend 1 5%N]) /\
  events_of as_is f7_prog = [(0, EvGo 1); (0, EvSched); (0, EvPanic PSendClosed)].
Proof. vm_compute. repeat split. constructor. split; auto. Qed.

Lemma f7_repaired :
  events_of repaired f7_prog = [(0, EvGo 1); (0, EvSched); (0, EvClose); (0, EvPrint 9%N); (1, EvPanic PSendClosed)].
Proof. reflexivity. Qed.

Lemma f6_no_panic : events_of as_is f6_prog = [(0, EvClose); (0, EvPrint 1%N)].
Proof. reflexivity. Qed.

Lemma f6_repaired : events_of repaired f6_prog = [(0, EvPanic PCloseNil)].
Proof. reflexivity. Qed.

(* the queue invariant itself fails on the code as it is: two goroutines asleep in select-send, then close *)
Definition f7b_prog : program :=
  {| p_caps := [0]; p_scripts := [[Go 1; Go 1; Gosched; Close 1]; [Select [CSend 1 5%N]]] |}.

Lemma f7_invariant_broken : ~ chans_ok (run as_is f7b_prog 200 (init_state f7b_prog [] [])).
Proof.
  intros H. apply (proj1 (chans_ok_pointwise _)) with (c := 1) in H. destruct H as [_ _ _ Hc _ _ _].
  vm_compute in Hc. destruct Hc as [Hc _]; auto. discriminate.
Qed.

(* ================================================================ statements in the form exported by Props/C03.v *)
Lemma chan_invariants_unfolded : forall fx prog st,
  fix_select_send fx = true -> reachable fx prog st ->
  Forall (fun ch =>
    length (c_buf ch) <= c_cap ch /\
    (c_recvq ch <> [] -> c_buf ch = []) /\
    (c_sendq ch <> [] -> length (c_buf ch) = c_cap ch) /\
    (c_closed ch = true -> c_sendq ch = [] /\ c_recvq ch = []) /\
    (forall se re, In se (c_sendq ch) -> In re (c_recvq ch) -> sowner se = rowner re) /\
    (c_nil ch = true -> c_sendq ch = [] /\ c_recvq ch = [] /\ c_buf ch = [] /\ c_cap ch = 0) /\
    c_acc ch = c_rcv ch ++ c_buf ch) (chans st).
Proof.
  intros fx prog st F R. pose proof (chan_invariants fx prog st F R) as H. unfold chans_ok in H.
  eapply Forall_impl; [|exact H]. intros ch [H1 H2 H3 H4 H5 H6 H7].
  exact (conj H1 (conj H2 (conj H3 (conj H4 (conj H5 (conj H6 H7)))))).
Qed.

Lemma chan_invariants_refuted : exists prog st,
  reachable as_is prog st /\ ~ Forall (fun ch => c_closed ch = true -> c_sendq ch = [] /\ c_recvq ch = []) (chans st).
Proof.
  exists f7b_prog, (run as_is f7b_prog 200 (init_state f7b_prog [] [])). split.
  - apply run_reachable. constructor.
  - remember (run as_is f7b_prog 200 (init_state f7b_prog [] [])) as st eqn:E.
    assert (K : 1 < length (chans st) /\ c_closed (nth 1 (chans st) nil_chan) = true /\ length (c_sendq (nth 1 (chans st) nil_chan)) = 1).
    { subst st. vm_compute. repeat split; constructor. }
    clear E. destruct K as (K1 & K2 & K3). intros H. rewrite Forall_forall in H.
    destruct (H _ (nth_In _ nil_chan K1) K2) as [Q _]. rewrite Q in K3. discriminate.
Qed.

Lemma no_lost_wakeup_refuted : ~ (forall prog st, reachable as_is prog st -> no_lost_wakeup_at st).
Proof.
  intros H. destruct f7_lost_wakeup as (_ & B & E & _).
  refine (H f7_prog _ _ 1 _ B E). apply run_reachable. constructor.
Qed.

(* ================================================================ registration: a sleeping goroutine's entries are in the queues *)

Definition blk (st : state) (g : gid) : option blocked := g_blocked (get_g st g).
Definition sq (st : state) (c : cid) := c_sendq (get_chan st c).
Definition rq (st : state) (c : cid) := c_recvq (get_chan st c).
Definition isnil (st : state) (c : cid) := c_nil (get_chan st c).

Definition reg_ok (st : state) : Prop :=
  forall g b, blk st g = Some b ->
  match b with
  | BSend c v => isnil st c = false -> In (SPlain g v) (sq st c)
  | BRecv c => isnil st c = false -> In (RPlain g) (rq st c)
  | BSel cs => forall i cm, nth_error cs i = Some cm ->
               match cm with
               | CDefault => True
               | CSend c v => isnil st c = false -> In (SSel g i v) (sq st c)
               | CRecv c => isnil st c = false -> In (RSel g i) (rq st c)
               end
  | BTimer => True
  end.

(* st' is st after some goroutines were woken (their entries may be gone) and buffers/flags changed *)
Record wakes (st st' : state) : Prop := {
  wk_nil : forall c, isnil st' c = isnil st c;
  wk_blk : forall g, blk st' g = blk st g \/ blk st' g = None;
  wk_sq : forall c x, In x (sq st c) -> blk st' (sowner x) <> None -> In x (sq st' c);
  wk_rq : forall c x, In x (rq st c) -> blk st' (rowner x) <> None -> In x (rq st' c) }.

Lemma wakes_refl st : wakes st st.
Proof. constructor; auto. Qed.

Lemma wakes_trans a b c : wakes a b -> wakes b c -> wakes a c.
Proof.
  intros [n1 b1 s1 r1] [n2 b2 s2 r2]. constructor.
  - intros. now rewrite n2, n1.
  - intros g. destruct (b2 g) as [E|E]; rewrite E; auto.
  - intros ch x Hx Hb. apply s2; auto. apply s1; auto. destruct (b2 (sowner x)) as [E|E]; congruence.
  - intros ch x Hx Hb. apply r2; auto. apply r1; auto. destruct (b2 (rowner x)) as [E|E]; congruence.
Qed.

Lemma reg_ok_wakes st st' : reg_ok st -> wakes st st' -> reg_ok st'.
Proof.
  intros R [n b s r] g bl Hb.
  assert (Hb0 : blk st g = Some bl) by (destruct (b g) as [E|E]; congruence).
  specialize (R g bl Hb0). destruct bl as [c v|c|cs|]; auto.
  - intros N. rewrite n in N. apply s; auto. simpl. congruence.
  - intros N. rewrite n in N. apply r; auto. simpl. congruence.
  - intros i cm Hi. specialize (R i cm Hi). destruct cm as [|c|c v]; auto.
    + intros N. rewrite n in N. apply r; auto. simpl. congruence.
    + intros N. rewrite n in N. apply s; auto. simpl. congruence.
Qed.

(* ---- get_g / set_g *)
Lemma get_set_g st g x g' :
  get_g (set_g st g x) g' = if Nat.eqb g g' && Nat.ltb g (length (gors st)) then x else get_g st g'.
Proof. unfold get_g, set_g. simpl. apply nth_upd. Qed.

Lemma gors_remove_entries g cs i st : gors (remove_entries g cs i st) = gors st.
Proof. revert i st; induction cs as [|[|c|c v] r IH]; intros i st; simpl; auto; rewrite IH; reflexivity. Qed.

Lemma gors_remove_from_queues g st : gors (remove_from_queues g st) = gors st.
Proof. unfold remove_from_queues. destruct (g_blocked (get_g st g)) as [[]|]; auto using gors_remove_entries. Qed.

Lemma blk_schedule g st g' : blk (schedule g st) g' = blk st g'.
Proof.
  unfold schedule, blk. destruct (g_asleep (get_g st g)) eqn:E; auto.
  change (get_g (_ <| scheduled := _ |>) g') with (get_g (set_g st g (get_g st g <| g_asleep := false |>)) g').
  rewrite get_set_g. destruct (Nat.eqb_spec g g'); simpl; auto. destruct (g <? length (gors st)); subst; auto.
Qed.

Lemma chans_of_gors_only st st' : chans st' = chans st -> forall c, get_chan st' c = get_chan st c.
Proof. unfold get_chan. congruence. Qed.

Lemma get_g_of_gors st st' : gors st' = gors st -> forall g, get_g st' g = get_g st g.
Proof. unfold get_g. congruence. Qed.

Lemma dead_blk st g : length (gors st) <= g -> blk st g = None.
Proof. intros L. unfold blk, get_g. now rewrite nth_overflow. Qed.

Lemma sentry_eqb_eq a b : sentry_eqb a b = true -> a = b.
Proof.
  destruct a, b; simpl; try discriminate; intros H; repeat (apply andb_prop in H; destruct H as [H ?]);
  repeat match goal with H : Nat.eqb _ _ = true |- _ => apply Nat.eqb_eq in H | H : N.eqb _ _ = true |- _ => apply N.eqb_eq in H end; congruence.
Qed.
Lemma rentry_eqb_eq a b : rentry_eqb a b = true -> a = b.
Proof.
  destruct a, b; simpl; try discriminate; intros H; repeat (apply andb_prop in H; destruct H as [H ?]);
  repeat match goal with H : Nat.eqb _ _ = true |- _ => apply Nat.eqb_eq in H end; congruence.
Qed.

Lemma in_remove_first {A} eqb (x e : A) l : (forall a b, eqb a b = true -> a = b) -> In x l -> x <> e -> In x (remove_first eqb e l).
Proof.
  intros S. induction l; simpl; auto. intros [->|H] N.
  - destruct (eqb e x) eqn:E. apply S in E. congruence. now left.
  - destruct (eqb e a); auto. right. auto.
Qed.

(* entries of goroutines other than g survive removeFromQueues of g *)
Lemma remove_entries_keeps g cs : forall i st,
  (forall c, isnil (remove_entries g cs i st) c = isnil st c) /\
  (forall c x, In x (sq st c) -> sowner x <> g -> In x (sq (remove_entries g cs i st) c)) /\
  (forall c x, In x (rq st c) -> rowner x <> g -> In x (rq (remove_entries g cs i st) c)).
Proof.
  induction cs as [|[|c|c v] r IH]; intros i st; simpl; auto.
  - destruct (IH (S i) (set_chan st c (get_chan st c <| c_recvq := remove_first rentry_eqb (RSel g i) (c_recvq (get_chan st c)) |>))) as (I1 & I2 & I3).
    repeat split.
    + intros c'. rewrite I1. unfold isnil. rewrite get_set_chan. destruct (_ && _) eqn:E; auto.
      apply andb_prop in E. destruct E as [E _]. apply Nat.eqb_eq in E. now subst.
    + intros c' x Hx N. apply I2; auto. unfold sq. rewrite get_set_chan. destruct (_ && _) eqn:E; auto.
      apply andb_prop in E. destruct E as [E _]. apply Nat.eqb_eq in E. now subst.
    + intros c' x Hx N. apply I3; auto. unfold rq. rewrite get_set_chan. destruct (_ && _) eqn:E; auto.
      apply andb_prop in E. destruct E as [E _]. apply Nat.eqb_eq in E. subst. simpl.
      apply in_remove_first; auto using rentry_eqb_eq. intros ->. now apply N.
  - destruct (IH (S i) (set_chan st c (get_chan st c <| c_sendq := remove_first sentry_eqb (SSel g i v) (c_sendq (get_chan st c)) |>))) as (I1 & I2 & I3).
    repeat split.
    + intros c'. rewrite I1. unfold isnil. rewrite get_set_chan. destruct (_ && _) eqn:E; auto.
      apply andb_prop in E. destruct E as [E _]. apply Nat.eqb_eq in E. now subst.
    + intros c' x Hx N. apply I2; auto. unfold sq. rewrite get_set_chan. destruct (_ && _) eqn:E; auto.
      apply andb_prop in E. destruct E as [E _]. apply Nat.eqb_eq in E. subst. simpl.
      apply in_remove_first; auto using sentry_eqb_eq. intros ->. now apply N.
    + intros c' x Hx N. apply I3; auto. unfold rq. rewrite get_set_chan. destruct (_ && _) eqn:E; auto.
      apply andb_prop in E. destruct E as [E _]. apply Nat.eqb_eq in E. now subst.
Qed.

Lemma wake_up_wakes g w st : wakes st (wake_up g w st).
Proof.
  unfold wake_up. set (st1 := remove_from_queues g st).
  assert (G1 : gors st1 = gors st) by apply gors_remove_from_queues.
  set (st2 := set_g st1 g _).
  assert (B2 : forall g', blk st2 g' = if Nat.eqb g g' && Nat.ltb g (length (gors st)) then None else blk st g').
  { intros g'. unfold blk, st2. rewrite get_set_g, G1. destruct (_ && _); auto. now rewrite (get_g_of_gors _ _ G1). }
  assert (Bg : blk st2 g = None).
  { rewrite B2, Nat.eqb_refl. simpl. destruct (Nat.ltb_spec g (length (gors st))); auto using dead_blk. }
  assert (K : (forall c, isnil st1 c = isnil st c) /\
              (forall c x, In x (sq st c) -> sowner x <> g -> In x (sq st1 c)) /\
              (forall c x, In x (rq st c) -> rowner x <> g -> In x (rq st1 c))).
  { unfold st1, remove_from_queues. destruct (g_blocked (get_g st g)) as [[]|]; auto using remove_entries_keeps. }
  destruct K as (K1 & K2 & K3).
  assert (C : forall c, get_chan (schedule g st2) c = get_chan st1 c).
  { intros c. apply chans_of_gors_only. rewrite chans_schedule. reflexivity. }
  constructor.
  - intros c. unfold isnil. rewrite C. apply K1.
  - intros g'. rewrite blk_schedule, B2. destruct (_ && _); auto.
  - intros c x Hx Hb. unfold sq. rewrite C. apply K2; auto. intros E. apply Hb. rewrite blk_schedule, E. exact Bg.
  - intros c x Hx Hb. unfold rq. rewrite C. apply K3; auto. intros E. apply Hb. rewrite blk_schedule, E. exact Bg.
Qed.

Lemma wake_up_blk_self g w st : blk (wake_up g w st) g = None.
Proof.
  unfold wake_up. rewrite blk_schedule. unfold blk. rewrite get_set_g, Nat.eqb_refl. simpl.
  destruct (Nat.ltb_spec g (length (gors (remove_from_queues g st)))); auto.
  unfold get_g. rewrite nth_overflow; auto.
Qed.

Lemma set_chan_wakes st c ch' :
  c_nil ch' = c_nil (get_chan st c) -> incl (c_sendq (get_chan st c)) (c_sendq ch') -> incl (c_recvq (get_chan st c)) (c_recvq ch') ->
  wakes st (set_chan st c ch').
Proof.
  intros N S R. constructor; auto.
  - intros c'. unfold isnil. rewrite get_set_chan. destruct (_ && _) eqn:E; auto.
    apply andb_prop in E. destruct E as [E _]. apply Nat.eqb_eq in E. now subst.
  - intros c' x Hx _. unfold sq in *. rewrite get_set_chan. destruct (_ && _) eqn:E; auto.
    apply andb_prop in E. destruct E as [E _]. apply Nat.eqb_eq in E. subst. auto.
  - intros c' x Hx _. unfold rq in *. rewrite get_set_chan. destruct (_ && _) eqn:E; auto.
    apply andb_prop in E. destruct E as [E _]. apply Nat.eqb_eq in E. subst. auto.
Qed.

Lemma same_wakes st st' : chans st' = chans st -> gors st' = gors st -> wakes st st'.
Proof.
  intros C G. constructor; unfold isnil, sq, rq, blk; intros; rewrite ?(chans_of_gors_only _ _ C), ?(get_g_of_gors _ _ G); auto.
Qed.

Lemma shift_recv_wakes st c ch1 e q w :
  c_recvq (get_chan st c) = e :: q -> c_recvq ch1 = q -> c_sendq ch1 = c_sendq (get_chan st c) -> c_nil ch1 = c_nil (get_chan st c) ->
  wakes st (wake_up (rowner e) w (set_chan st c ch1)).
Proof.
  intros E Q S N. set (st1 := set_chan st c ch1). pose proof (wake_up_wakes (rowner e) w st1) as [n b s r].
  pose proof (wake_up_blk_self (rowner e) w st1) as Bs.
  assert (R : c < length (chans st)) by (apply in_range_of_recvq; rewrite E; discriminate).
  constructor.
  - intros c'. rewrite n. unfold isnil, st1. rewrite get_set_chan. destruct (_ && _) eqn:X; auto.
    apply andb_prop in X. destruct X as [X _]. apply Nat.eqb_eq in X. now subst c'.
  - intros g. apply b.
  - intros c' x Hx Hb. apply s; auto. unfold sq, st1 in *. rewrite get_set_chan. destruct (_ && _) eqn:X; auto.
    apply andb_prop in X. destruct X as [X _]. apply Nat.eqb_eq in X. subst c'. now rewrite S.
  - intros c' x Hx Hb. apply r; auto. unfold rq, st1 in *. rewrite get_set_chan. destruct (_ && _) eqn:X; auto.
    apply andb_prop in X. destruct X as [X _]. apply Nat.eqb_eq in X. subst c'. rewrite Q. rewrite E in Hx.
    destruct Hx as [<-|Hx]; auto. contradiction.
Qed.

Lemma shift_send_wakes st c ch1 e q w :
  c_sendq (get_chan st c) = e :: q -> c_sendq ch1 = q -> c_recvq ch1 = c_recvq (get_chan st c) -> c_nil ch1 = c_nil (get_chan st c) ->
  wakes st (wake_up (sowner e) w (set_chan st c ch1)).
Proof.
  intros E Q S N. set (st1 := set_chan st c ch1). pose proof (wake_up_wakes (sowner e) w st1) as [n b s r].
  pose proof (wake_up_blk_self (sowner e) w st1) as Bs.
  constructor.
  - intros c'. rewrite n. unfold isnil, st1. rewrite get_set_chan. destruct (_ && _) eqn:X; auto.
    apply andb_prop in X. destruct X as [X _]. apply Nat.eqb_eq in X. now subst c'.
  - intros g. apply b.
  - intros c' x Hx Hb. apply s; auto. unfold sq, st1 in *. rewrite get_set_chan. destruct (_ && _) eqn:X; auto.
    apply andb_prop in X. destruct X as [X _]. apply Nat.eqb_eq in X. subst c'. rewrite Q. rewrite E in Hx.
    destruct Hx as [<-|Hx]; auto. contradiction.
  - intros c' x Hx Hb. apply r; auto. unfold rq, st1 in *. rewrite get_set_chan. destruct (_ && _) eqn:X; auto.
    apply andb_prop in X. destruct X as [X _]. apply Nat.eqb_eq in X. subst c'. now rewrite S.
Qed.

Lemma invoke_recv_entry_is st e v ok : exists w, invoke_recv_entry st e v ok = wake_up (rowner e) w st.
Proof. destruct e; simpl; eauto. Qed.

Lemma invoke_send_entry_is fx st c e closed : fix_select_send fx = true ->
  exists w v, invoke_send_entry fx st c e closed = SOk (wake_up (sowner e) w st) v.
Proof. intros F. destruct e; simpl; rewrite ?F; eauto. Qed.

(* blocking: the entries the operation needs are there *)
Definition has_entries (st : state) (g : gid) (b : blocked) : Prop :=
  match b with
  | BSend c v => isnil st c = false -> In (SPlain g v) (sq st c)
  | BRecv c => isnil st c = false -> In (RPlain g) (rq st c)
  | BSel cs => forall i cm, nth_error cs i = Some cm ->
               match cm with
               | CDefault => True
               | CSend c v => isnil st c = false -> In (SSel g i v) (sq st c)
               | CRecv c => isnil st c = false -> In (RSel g i) (rq st c)
               end
  | BTimer => True
  end.

Lemma block_reg g b st : reg_ok st -> has_entries st g b -> reg_ok (block g b st).
Proof.
  intros R H g' b' Hb. unfold blk, block in Hb. rewrite get_set_g in Hb.
  destruct (Nat.eqb_spec g g') as [<-|N]; simpl in Hb.
  - destruct (g <? length (gors st)).
    + simpl in Hb. inversion Hb; subst. exact H.
    + exact (R g b' Hb).
  - exact (R g' b' Hb).
Qed.

Lemma push_sendq_wakes st c e : wakes st (push_sendq st c e).
Proof.
  unfold push_sendq. destruct (c_nil (get_chan st c)); auto using wakes_refl.
  apply set_chan_wakes; simpl; auto using incl_refl. apply incl_appl, incl_refl.
Qed.
Lemma push_recvq_wakes st c e : wakes st (push_recvq st c e).
Proof.
  unfold push_recvq. destruct (c_nil (get_chan st c)); auto using wakes_refl.
  apply set_chan_wakes; simpl; auto using incl_refl. apply incl_appl, incl_refl.
Qed.

Lemma push_sendq_in st c e : isnil (push_sendq st c e) c = false -> In e (sq (push_sendq st c e) c).
Proof.
  unfold push_sendq, isnil, sq. destruct (c_nil (get_chan st c)) eqn:N. { congruence. }
  rewrite !get_set_chan, Nat.eqb_refl. simpl. destruct (Nat.ltb_spec c (length (chans st))) as [L|L]; simpl.
  - intros _. apply in_or_app. right. now left.
  - unfold get_chan. rewrite nth_overflow; auto. discriminate.
Qed.
Lemma push_recvq_in st c e : isnil (push_recvq st c e) c = false -> In e (rq (push_recvq st c e) c).
Proof.
  unfold push_recvq, isnil, rq. destruct (c_nil (get_chan st c)) eqn:N. { congruence. }
  rewrite !get_set_chan, Nat.eqb_refl. simpl. destruct (Nat.ltb_spec c (length (chans st))) as [L|L]; simpl.
  - intros _. apply in_or_app. right. now left.
  - unfold get_chan. rewrite nth_overflow; auto. discriminate.
Qed.

Definition opres_reg (st : state) (r : opres) : Prop :=
  match r with Done s | Panicked s _ => wakes st s | Blocked s => reg_ok st -> reg_ok s end.

Lemma do_send_reg st g c v : opres_reg st (do_send st g c v).
Proof.
  unfold do_send. set (ch := get_chan st c).
  destruct (c_closed ch); simpl; auto using wakes_refl.
  destruct (c_recvq ch) as [|e q] eqn:Erq.
  - destruct (length (c_buf ch) <? c_cap ch); simpl.
    + apply set_chan_wakes; simpl; auto using incl_refl.
    + intros R. apply block_reg.
      * eapply reg_ok_wakes; eauto using push_sendq_wakes.
      * simpl. apply push_sendq_in.
  - simpl. destruct (invoke_recv_entry_is (set_chan st c (ch <| c_recvq := q |> <| c_acc := c_acc ch ++ [v] |> <| c_rcv := c_rcv ch ++ [v] |>)) e v true) as (w & ->).
    eapply shift_recv_wakes; eauto.
Qed.

Lemma recv_now_wakes fx st c : fix_select_send fx = true -> wakes st (rnow_state (recv_now fx st c)).
Proof.
  intros F. unfold recv_now. set (ch := get_chan st c).
  destruct (c_sendq ch) as [|e q] eqn:Esq.
  - fold ch. destruct (c_buf ch) as [|x b].
    + destruct (c_closed ch); [destruct (c_nil ch)|]; simpl; auto using wakes_refl.
    + simpl. apply set_chan_wakes; simpl; auto using incl_refl.
  - destruct (invoke_send_entry_is fx (set_chan st c (ch <| c_sendq := q |>)) c e false F) as (w & v' & ->).
    set (st2 := wake_up (sowner e) w _).
    assert (W2 : wakes st st2) by (eapply shift_send_wakes; eauto).
    set (st3 := set_chan st2 c _).
    assert (W3 : wakes st2 st3) by (apply set_chan_wakes; simpl; auto using incl_refl).
    destruct (c_buf (get_chan st3 c)) as [|x b].
    + destruct (c_closed (get_chan st3 c)); [destruct (c_nil (get_chan st3 c))|]; simpl; eauto using wakes_trans.
    + simpl. eapply wakes_trans; [|apply set_chan_wakes; simpl; auto using incl_refl]. eauto using wakes_trans.
Qed.

Definition rres_reg (st : state) (r : rres) : Prop :=
  match r with RDone s _ _ | RPanicked s _ => wakes st s | RBlocked s => reg_ok st -> reg_ok s end.

Lemma do_recv_reg fx st g c : fix_select_send fx = true -> rres_reg st (do_recv fx st g c).
Proof.
  intros F. unfold do_recv. pose proof (recv_now_wakes fx st c F) as W.
  destruct (recv_now fx st c) as [st1 v ok|st1|st1 k]; simpl in *; auto.
  intros R. apply block_reg.
  - eapply reg_ok_wakes; [|apply push_recvq_wakes]. eapply reg_ok_wakes; eauto.
  - simpl. apply push_recvq_in.
Qed.

Lemma close_senders_wakes fx fuel st c : fix_select_send fx = true -> wakes st (sres_state (close_senders fx fuel st c)).
Proof.
  intros F. revert st. induction fuel as [|f IH]; intros st; simpl; auto using wakes_refl.
  destruct (c_sendq (get_chan st c)) as [|e q] eqn:Esq; simpl; auto using wakes_refl.
  destruct (invoke_send_entry_is fx (set_chan st c (get_chan st c <| c_sendq := q |>)) c e true F) as (w & v' & ->).
  eapply wakes_trans; [|apply IH]. eapply shift_send_wakes; eauto.
Qed.

Lemma close_receivers_wakes fuel st c : wakes st (close_receivers fuel st c).
Proof.
  revert st. induction fuel as [|f IH]; intros st; simpl; auto using wakes_refl.
  destruct (c_recvq (get_chan st c)) as [|e q] eqn:Erq; simpl; auto using wakes_refl.
  destruct (invoke_recv_entry_is (set_chan st c (get_chan st c <| c_recvq := q |>)) e 0%N false) as (w & ->).
  eapply wakes_trans; [|apply IH]. eapply shift_recv_wakes; eauto.
Qed.

Lemma do_close_reg fx st c : fix_select_send fx = true -> wakes st (opres_state (do_close fx st c)).
Proof.
  intros F. unfold do_close. set (ch := get_chan st c).
  destruct (fix_close_nil fx && c_nil ch); simpl; auto using wakes_refl.
  destruct (c_closed ch); simpl; auto using wakes_refl.
  set (st1 := set_chan st c (ch <| c_closed := true |>)).
  assert (W1 : wakes st st1) by (apply set_chan_wakes; simpl; auto using incl_refl).
  pose proof (close_senders_wakes fx (length (c_sendq ch)) st1 c F) as W2.
  destruct (close_senders fx (length (c_sendq ch)) st1 c) as [st2 v|st2 k]; simpl in *.
  - eapply wakes_trans; [|apply close_receivers_wakes]. eauto using wakes_trans.
  - eauto using wakes_trans.
Qed.

(* registration of a blocking select *)
Lemma sel_register_wakes g cs : forall i st, wakes st (sel_register g cs i st).
Proof.
  induction cs as [|[|c|c v] r IH]; intros i st; simpl; auto using wakes_refl.
  - eapply wakes_trans; [apply push_recvq_wakes|apply IH].
  - eapply wakes_trans; [apply push_sendq_wakes|apply IH].
Qed.

Lemma wakes_keeps_unconditionally st st' : wakes st st' -> (forall g, blk st' g = blk st g) ->
  (forall c x, In x (sq st c) -> blk st (sowner x) <> None -> In x (sq st' c)) /\
  (forall c x, In x (rq st c) -> blk st (rowner x) <> None -> In x (rq st' c)).
Proof. intros [n b s r] E. split; intros; [apply s|apply r]; auto; now rewrite E. Qed.

(* pushes only add entries *)
Record grows (st st' : state) : Prop := {
  gw_nil : forall c, isnil st' c = isnil st c;
  gw_sq : forall c x, In x (sq st c) -> In x (sq st' c);
  gw_rq : forall c x, In x (rq st c) -> In x (rq st' c) }.

Lemma grows_refl st : grows st st. Proof. constructor; auto. Qed.
Lemma grows_trans a b c : grows a b -> grows b c -> grows a c.
Proof. intros [] []. constructor; intros; rewrite ?gw_nil1, ?gw_nil0; auto. Qed.

Lemma push_sendq_grows st c e : grows st (push_sendq st c e).
Proof.
  unfold push_sendq. destruct (c_nil (get_chan st c)) eqn:N; auto using grows_refl.
  constructor; intros c'; unfold isnil, sq, rq; rewrite get_set_chan; destruct (_ && _) eqn:X; auto;
    apply andb_prop in X; destruct X as [X _]; apply Nat.eqb_eq in X; subst c'; simpl; auto.
  intros x Hx. apply in_or_app. now left.
Qed.
Lemma push_recvq_grows st c e : grows st (push_recvq st c e).
Proof.
  unfold push_recvq. destruct (c_nil (get_chan st c)) eqn:N; auto using grows_refl.
  constructor; intros c'; unfold isnil, sq, rq; rewrite get_set_chan; destruct (_ && _) eqn:X; auto;
    apply andb_prop in X; destruct X as [X _]; apply Nat.eqb_eq in X; subst c'; simpl; auto.
  intros x Hx. apply in_or_app. now left.
Qed.

Lemma sel_register_grows g cs : forall i st, grows st (sel_register g cs i st).
Proof.
  induction cs as [|[|c|c v] r IH]; intros i st; simpl; auto using grows_refl.
  - eapply grows_trans; [apply push_recvq_grows|apply IH].
  - eapply grows_trans; [apply push_sendq_grows|apply IH].
Qed.

Lemma sel_register_entries g cs : forall i0 st i cm, nth_error cs i = Some cm ->
  match cm with
  | CDefault => True
  | CSend c v => isnil (sel_register g cs i0 st) c = false -> In (SSel g (i0 + i) v) (sq (sel_register g cs i0 st) c)
  | CRecv c => isnil (sel_register g cs i0 st) c = false -> In (RSel g (i0 + i)) (rq (sel_register g cs i0 st) c)
  end.
Proof.
  induction cs as [|cm0 r IH]; intros i0 st i cm Hi. { destruct i; discriminate. }
  destruct i as [|i].
  - simpl in Hi. inversion Hi; subst cm0. rewrite Nat.add_0_r. destruct cm as [|c|c v]; auto; simpl.
    + pose proof (sel_register_grows g r (S i0) (push_recvq st c (RSel g i0))) as [n s rr].
      intros N. apply rr. apply push_recvq_in. now rewrite <- n.
    + pose proof (sel_register_grows g r (S i0) (push_sendq st c (SSel g i0 v))) as [n s rr].
      intros N. apply s. apply push_sendq_in. now rewrite <- n.
  - simpl in Hi. replace (i0 + S i) with (S i0 + i) by lia.
    destruct cm0 as [|c0|c0 v0]; simpl; exact (IH (S i0) _ i cm Hi).
Qed.

Definition selres_reg (st : state) (r : selres) : Prop :=
  match r with SelDone s _ _ | SelPanicked s _ => wakes st s | SelBlocked s | SelOdd s => reg_ok st -> reg_ok s end.

Lemma do_select_reg fx st g cs : fix_select_send fx = true -> selres_reg st (do_select fx st g cs).
Proof.
  intros F. unfold do_select.
  destruct (sel_scan st cs 0 None []) as [[selection ready]|]; simpl; auto using wakes_refl.
  assert (Imm : forall st1 i, wakes st st1 -> selres_reg st
            match nth i cs CDefault with
            | CDefault => SelDone st1 i None
            | CRecv c => match recv_now fx st1 c with
                         | RNow st2 v ok => SelDone st2 i (Some (v, ok))
                         | RWait st2 => SelOdd st2
                         | RThrow st2 k => SelPanicked st2 k
                         end
            | CSend c v => match do_send st1 g c v with
                           | Done st2 => SelDone st2 i None
                           | Blocked st2 => SelOdd st2
                           | Panicked st2 k => SelPanicked st2 k
                           end
            end).
  { intros st1 i W. destruct (nth i cs CDefault) as [|c|c v]; simpl; auto.
    + pose proof (recv_now_wakes fx st1 c F). destruct (recv_now fx st1 c); simpl in *; eauto using wakes_trans.
      intros R. eapply reg_ok_wakes; eauto using wakes_trans.
    + pose proof (do_send_reg st1 g c v) as K. destruct (do_send st1 g c v); simpl in *; eauto using wakes_trans.
      intros R. apply K. eapply reg_ok_wakes; eauto. }
  destruct ready as [|x ready].
  - destruct selection as [i|]; auto using wakes_refl.
    simpl. intros R. apply block_reg.
    + eapply reg_ok_wakes; eauto using sel_register_wakes.
    + simpl. intros i cm Hi. apply (sel_register_entries g cs 0 st i cm Hi).
  - apply Imm. apply same_wakes; reflexivity.
Qed.

(* ---- scheduler bookkeeping does not touch queues or the blocked field *)
Definition same (st st' : state) : Prop := chans st' = chans st /\ forall g, blk st' g = blk st g.

Lemma same_refl st : same st st. Proof. split; auto. Qed.
Lemma same_trans a b c : same a b -> same b c -> same a c.
Proof. intros [C1 B1] [C2 B2]. split. congruence. intros. now rewrite B2, B1. Qed.

Lemma same_is_wakes st st' : same st st' -> wakes st st'.
Proof.
  intros [C B]. constructor; unfold isnil, sq, rq; intros; rewrite ?(chans_of_gors_only _ _ C); auto.
Qed.

Lemma same_gors st st' : chans st' = chans st -> gors st' = gors st -> same st st'.
Proof. intros C G. split; auto. intros g. unfold blk. now rewrite (get_g_of_gors _ _ G). Qed.

Lemma same_set_g st g x : g_blocked x = g_blocked (get_g st g) -> same st (set_g st g x).
Proof.
  intros E. split; auto. intros g'. unfold blk. rewrite get_set_g. destruct (Nat.eqb_spec g g'); simpl; auto.
  destruct (g <? length (gors st)); subst; auto.
Qed.

Lemma same_set_code g s st : same st (set_code g s st).
Proof. apply same_set_g. reflexivity. Qed.
Lemma same_clear_wake g st : same st (clear_wake g st).
Proof. apply same_set_g. reflexivity. Qed.
Lemma same_log g e st : same st (log g e st).
Proof. apply same_gors; reflexivity. Qed.
Lemma same_panic_g g k st : same st (panic_g g k st).
Proof. eapply same_trans. apply same_log. apply same_set_code. Qed.
Lemma same_start_pass st : same st (start_pass st).
Proof. apply same_gors; reflexivity. Qed.
Lemma same_end_pass st : same st (end_pass st).
Proof. unfold end_pass. destruct (scheduled st); apply same_gors; reflexivity. Qed.
Lemma same_schedule g st : same st (schedule g st).
Proof. split. apply chans_schedule. intros. apply blk_schedule. Qed.

Lemma same_yield g st : same st (yield g st).
Proof.
  unfold yield. set (x := get_g st g).
  set (st1 := if g_exit x then _ else st).
  assert (S1 : same st st1).
  { unfold st1. destruct (g_exit x); auto using same_refl.
    eapply same_trans. apply (same_set_g st g (x <| g_asleep := true |>)). reflexivity. apply same_gors; reflexivity. }
  set (st2 := if g_asleep (get_g st1 g) then _ else st1).
  assert (S2 : same st1 st2).
  { unfold st2. destruct (g_asleep (get_g st1 g)); auto using same_refl. apply same_gors; reflexivity. }
  eapply same_trans. exact S1. eapply same_trans. exact S2.
  destruct (_ && _ && _).
  - apply same_gors; reflexivity.
  - destruct (hd false (breaks st2)).
    + eapply same_trans; [|apply same_end_pass]. apply same_gors; reflexivity.
    + apply same_gors; reflexivity.
Qed.

Lemma same_spawn prog k st : same st (spawn prog k st).
Proof.
  unfold spawn. eapply same_trans; [|apply same_schedule]. split; auto.
  intros g. unfold blk, get_g. simpl.
  destruct (Nat.lt_ge_cases g (length (gors st))) as [L|L].
  - now rewrite app_nth1.
  - rewrite app_nth2 by auto. rewrite (nth_overflow (gors st)) by auto.
    destruct (g - length (gors st)) as [|[|n]]; reflexivity.
Qed.

Ltac same1 :=
  match goal with
  | |- same ?s ?s => apply same_refl
  | |- same _ (set_code _ _ _) => eapply same_trans; [|apply same_set_code]
  | |- same _ (log _ _ _) => eapply same_trans; [|apply same_log]
  | |- same _ (yield _ _) => eapply same_trans; [|apply same_yield]
  | |- same _ (panic_g _ _ _) => eapply same_trans; [|apply same_panic_g]
  | |- same _ (clear_wake _ _) => eapply same_trans; [|apply same_clear_wake]
  | |- same _ (spawn _ _ _) => eapply same_trans; [|apply same_spawn]
  | |- same _ (start_pass _) => eapply same_trans; [|apply same_start_pass]
  | |- same _ (end_pass _) => eapply same_trans; [|apply same_end_pass]
  | |- same _ (set _ _ _) => eapply same_trans; [|apply same_gors; reflexivity]
  end.
Ltac sames := repeat same1.

Lemma reg_ok_same st st' : reg_ok st -> same st st' -> reg_ok st'.
Proof. intros. eapply reg_ok_wakes; eauto using same_is_wakes. Qed.

Lemma step_goroutine_reg fx prog g st : fix_select_send fx = true -> reg_ok st -> reg_ok (step_goroutine fx prog g st).
Proof.
  intros F H. unfold step_goroutine.
  destruct (g_code (get_g st g)) as [|o rest].
  { eapply reg_ok_same; eauto. sames. destruct (Nat.eqb g 0); sames; apply same_set_g; reflexivity. }
  destruct (g_wake (get_g st g)) as [w|].
  { eapply reg_ok_same; eauto. destruct o, w; try destruct closed; try destruct ok; sames. }
  destruct o.
  - pose proof (do_send_reg st g c v) as K. destruct (do_send st g c v); simpl in *.
    + eapply reg_ok_same; [eapply reg_ok_wakes; eauto|]. sames.
    + eapply reg_ok_same; [apply K; auto|]. sames.
    + eapply reg_ok_same; [eapply reg_ok_wakes; eauto|]. sames.
  - pose proof (do_recv_reg fx st g c F) as K. destruct (do_recv fx st g c); simpl in *.
    + eapply reg_ok_same; [eapply reg_ok_wakes; eauto|]. sames.
    + eapply reg_ok_same; [apply K; auto|]. sames.
    + eapply reg_ok_same; [eapply reg_ok_wakes; eauto|]. sames.
  - pose proof (do_close_reg fx st c F) as K. destruct (do_close fx st c); simpl in *.
    + eapply reg_ok_same; [eapply reg_ok_wakes; eauto|]. sames.
    + eapply reg_ok_wakes; eauto.
    + eapply reg_ok_same; [eapply reg_ok_wakes; eauto|]. sames.
  - pose proof (do_select_reg fx st g cs F) as K. destruct (do_select fx st g cs); simpl in *.
    + eapply reg_ok_same; [eapply reg_ok_wakes; eauto|]. sames.
    + eapply reg_ok_same; [apply K; auto|]. sames.
    + eapply reg_ok_same; [eapply reg_ok_wakes; eauto|]. sames.
    + eapply reg_ok_same; [apply K; auto|]. sames.
  - pose proof (do_recv_reg fx st g c F) as K. destruct (do_recv fx st g c) as [? ? []| |]; simpl in *.
    + eapply reg_ok_same; [eapply reg_ok_wakes; eauto|]. sames.
    + eapply reg_ok_same; [eapply reg_ok_wakes; eauto|]. sames.
    + eapply reg_ok_same; [apply K; auto|]. sames.
    + eapply reg_ok_same; [eapply reg_ok_wakes; eauto|]. sames.
  - eapply reg_ok_same; eauto. sames.
  - eapply reg_ok_same; [|apply same_yield]. apply block_reg; simpl; auto.
    all: try (eapply reg_ok_same; eauto; apply same_gors; reflexivity).
  - eapply reg_ok_same; eauto. sames. eapply same_trans; [apply same_log|]. apply same_set_g. reflexivity.
  - eapply reg_ok_same; eauto. sames.
Qed.

Lemma impl_step_reg fx prog st : fix_select_send fx = true -> reg_ok st -> reg_ok (impl_step fx prog st).
Proof.
  intros F H. unfold impl_step. destruct (halted st); auto.
  destruct (md st).
  - unfold fire_timer. destruct (timers st) as [|[id|g] ts]; auto.
    eapply reg_ok_same; [|apply same_start_pass]. eapply reg_ok_wakes; [|apply wake_up_wakes].
    eapply reg_ok_same; eauto. apply same_gors; reflexivity.
  - destruct (scheduled st); auto.
    all: try (eapply reg_ok_same; eauto; sames).
  - now apply step_goroutine_reg.
Qed.

Lemma init_state_reg prog pk bk : reg_ok (init_state prog pk bk).
Proof.
  intros g b Hb. unfold blk, init_state, get_g in Hb. simpl in Hb. destruct g as [|[|g]]; simpl in Hb; discriminate.
Qed.

Theorem registration fx prog st : fix_select_send fx = true -> reachable fx prog st -> reg_ok st.
Proof. intros F R. induction R; auto using init_state_reg, impl_step_reg. Qed.

(* ---- no lost wake-up *)
Theorem no_lost_wakeup fx prog st : fix_select_send fx = true -> reachable fx prog st -> no_lost_wakeup_at st.
Proof.
  intros F R g b Hb En. pose proof (registration fx prog st F R g b Hb) as Reg.
  pose proof (chan_invariants fx prog st F R) as Inv.
  assert (SendCase : forall c v e, In e (sq st c) -> sowner e = g -> comm_enabled st g (CSend c v) -> False).
  { intros c v e He Ho (N & [C|[L|(re & Hre & Ne)]]); pose proof (get_chan_ok st c Inv) as [ok_buf0 ok_recvq0 ok_sendq0 ok_closed0 ok_cross0 ok_nil0 ok_ghost0];
      unfold sq in *.
    - destruct (ok_closed0 C) as [Q _]. rewrite Q in He. contradiction.
    - assert (c_sendq (get_chan st c) <> []) by (intros Q; rewrite Q in He; contradiction). specialize (ok_sendq0 H). lia.
    - apply Ne. rewrite <- Ho. symmetry. now apply ok_cross0. }
  assert (RecvCase : forall c e, In e (rq st c) -> rowner e = g -> comm_enabled st g (CRecv c) -> False).
  { intros c e He Ho (N & [C|[L|(se & Hse & Ne)]]); pose proof (get_chan_ok st c Inv) as [ok_buf0 ok_recvq0 ok_sendq0 ok_closed0 ok_cross0 ok_nil0 ok_ghost0];
      unfold rq in *.
    - destruct (ok_closed0 C) as [_ Q]. rewrite Q in He. contradiction.
    - assert (c_recvq (get_chan st c) <> []) by (intros Q; rewrite Q in He; contradiction). auto.
    - apply Ne. rewrite <- Ho. now apply ok_cross0. }
  destruct b as [c v|c|cs|]; simpl in *; auto.
  - eapply SendCase; eauto. apply Reg. apply En. reflexivity.
  - eapply RecvCase; eauto. apply Reg. apply En. reflexivity.
  - apply Exists_exists in En. destruct En as (cm & Hin & En).
    destruct (In_nth_error _ _ Hin) as (i & Hi). specialize (Reg i cm Hi).
    destruct cm as [|c|c v]; simpl in *; auto.
    + eapply RecvCase; eauto. apply Reg. apply En. reflexivity.
    + eapply SendCase; eauto. apply Reg. apply En. reflexivity.
Qed.

(* ================================================================ the deadlock report (partial) *)
(* [halted] is written only by the finally-block of $goroutine ([yield]) *)
Lemma halted_remove_entries g cs i st : halted (remove_entries g cs i st) = halted st.
Proof. revert i st; induction cs as [|[|c|c v] r IH]; intros i st; simpl; auto; rewrite IH; reflexivity. Qed.
Lemma halted_wake_up g w st : halted (wake_up g w st) = halted st.
Proof.
  unfold wake_up, schedule, remove_from_queues.
  destruct (g_blocked (get_g st g)) as [[]|]; match goal with |- context [if ?b then _ else _] => destruct b end; simpl;
    rewrite ?halted_remove_entries; reflexivity.
Qed.
Lemma halted_push_sendq st c e : halted (push_sendq st c e) = halted st.
Proof. unfold push_sendq. destruct (c_nil _); reflexivity. Qed.
Lemma halted_push_recvq st c e : halted (push_recvq st c e) = halted st.
Proof. unfold push_recvq. destruct (c_nil _); reflexivity. Qed.
Lemma halted_invoke_recv st e v ok : halted (invoke_recv_entry st e v ok) = halted st.
Proof. destruct e; unfold invoke_recv_entry; now rewrite halted_wake_up. Qed.
Lemma halted_do_send st g c v : halted (opres_state (do_send st g c v)) = halted st.
Proof.
  unfold do_send. destruct (c_closed _); simpl; auto. destruct (c_recvq _) as [|e q].
  - destruct (_ <? _); simpl; auto. apply halted_push_sendq.
  - unfold opres_state. now rewrite halted_invoke_recv.
Qed.
Lemma halted_invoke_send fx st c e cl : halted (sres_state (invoke_send_entry fx st c e cl)) = halted st.
Proof. destruct e; unfold invoke_send_entry; repeat match goal with |- context [if ?b then _ else _] => destruct b end; unfold sres_state; rewrite ?halted_wake_up; auto. Qed.
Lemma halted_recv_now fx st c : halted (rnow_state (recv_now fx st c)) = halted st.
Proof.
  unfold recv_now. destruct (c_sendq (get_chan st c)) as [|e q].
  - destruct (c_buf _); simpl; auto. destruct (c_closed _); [destruct (c_nil _)|]; auto.
  - pose proof (halted_invoke_send fx (set_chan st c (get_chan st c <| c_sendq := q |>)) c e false) as H.
    destruct (invoke_send_entry _ _ _ _ _) as [st2 v'|st2 k]; simpl in *; auto.
    destruct (c_buf _); simpl; auto. destruct (c_closed _); [destruct (c_nil _)|]; auto.
Qed.
Lemma halted_do_recv fx st g c : halted (rres_state (do_recv fx st g c)) = halted st.
Proof.
  unfold do_recv. pose proof (halted_recv_now fx st c) as H. destruct (recv_now fx st c); simpl in *; auto.
  now rewrite halted_push_recvq.
Qed.
Lemma halted_close_senders fx fuel st c : halted (sres_state (close_senders fx fuel st c)) = halted st.
Proof.
  revert st; induction fuel as [|f IH]; intros st; simpl; auto. destruct (c_sendq _) as [|e q]; simpl; auto.
  pose proof (halted_invoke_send fx (set_chan st c (get_chan st c <| c_sendq := q |>)) c e true) as H.
  destruct (invoke_send_entry _ _ _ _ _) as [st2 v'|st2 k]; simpl in *; auto. now rewrite IH.
Qed.
Lemma halted_close_receivers fuel st c : halted (close_receivers fuel st c) = halted st.
Proof.
  revert st; induction fuel as [|f IH]; intros st; simpl; auto. destruct (c_recvq _) as [|e q]; simpl; auto.
  now rewrite IH, halted_invoke_recv.
Qed.
Lemma halted_do_close fx st c : halted (opres_state (do_close fx st c)) = halted st.
Proof.
  unfold do_close. destruct (_ && _); simpl; auto. destruct (c_closed _); simpl; auto.
  pose proof (halted_close_senders fx (length (c_sendq (get_chan st c))) (set_chan st c (get_chan st c <| c_closed := true |>)) c) as H.
  destruct (close_senders _ _ _ _) as [st2 v|st2 k]; simpl in *; auto. now rewrite halted_close_receivers.
Qed.
Lemma halted_sel_register g cs : forall i st, halted (sel_register g cs i st) = halted st.
Proof. induction cs as [|[|c|c v] r IH]; intros i st; simpl; auto; rewrite IH; auto using halted_push_recvq, halted_push_sendq. Qed.
Lemma halted_do_select fx st g cs : halted (selres_state (do_select fx st g cs)) = halted st.
Proof.
  unfold do_select. destruct (sel_scan _ _ _ _ _) as [[selection ready]|]; simpl; auto.
  assert (Imm : forall st1 i, halted st1 = halted st -> halted (selres_state
            match nth i cs CDefault with
            | CDefault => SelDone st1 i None
            | CRecv c => match recv_now fx st1 c with
                         | RNow st2 v ok => SelDone st2 i (Some (v, ok))
                         | RWait st2 => SelOdd st2
                         | RThrow st2 k => SelPanicked st2 k
                         end
            | CSend c v => match do_send st1 g c v with
                           | Done st2 => SelDone st2 i None
                           | Blocked st2 => SelOdd st2
                           | Panicked st2 k => SelPanicked st2 k
                           end
            end) = halted st).
  { intros st1 i E. destruct (nth i cs CDefault) as [|c|c v]; simpl; auto.
    - pose proof (halted_recv_now fx st1 c). destruct (recv_now fx st1 c); simpl in *; congruence.
    - pose proof (halted_do_send st1 g c v). destruct (do_send st1 g c v); simpl in *; congruence. }
  destruct ready; [destruct selection|]; auto. simpl. apply halted_sel_register.
Qed.

Definition deadlock_sound_at (st : state) : Prop :=
  halted st = Some ODeadlock -> awake st = 0%Z /\ main_finished st = false.

Lemma yield_deadlock g st : halted st = None -> deadlock_sound_at (yield g st).
Proof.
  intros H0. unfold yield, deadlock_sound_at. set (x := get_g st g).
  set (st1 := if g_exit x then _ else st).
  assert (H1 : halted st1 = None) by (unfold st1; destruct (g_exit x); auto).
  set (st2 := if g_asleep (get_g st1 g) then _ else st1).
  assert (H2 : halted st2 = None) by (unfold st2; destruct (g_asleep (get_g st1 g)); auto).
  destruct (g_asleep (get_g st1 g) && negb (main_finished st2) && (awake st2 =? 0)%Z) eqn:E.
  - intros _. apply andb_prop in E. destruct E as [E E3]. apply andb_prop in E. destruct E as [_ E2].
    simpl. split. now apply Z.eqb_eq. now destruct (main_finished st2).
  - destruct (hd false (breaks st2)); simpl.
    + unfold end_pass. destruct (scheduled _); simpl; congruence.
    + congruence.
Qed.

Lemma step_goroutine_deadlock fx prog g st : halted st = None -> deadlock_sound_at (step_goroutine fx prog g st).
Proof.
  intros H0. unfold step_goroutine.
  assert (NoHalt : forall s, halted s = None -> deadlock_sound_at s) by (unfold deadlock_sound_at; congruence).
  destruct (g_code (get_g st g)) as [|o rest].
  { apply yield_deadlock. destruct (Nat.eqb g 0); auto. }
  destruct (g_wake (get_g st g)) as [w|].
  { apply NoHalt. destruct o, w; try destruct closed; try destruct ok; auto. }
  destruct o.
  - pose proof (halted_do_send st g c v) as K. destruct (do_send st g c v); simpl in *;
      [apply NoHalt|apply yield_deadlock|apply NoHalt]; simpl; congruence.
  - pose proof (halted_do_recv fx st g c) as K. destruct (do_recv fx st g c); simpl in *;
      [apply NoHalt|apply yield_deadlock|apply NoHalt]; simpl; congruence.
  - pose proof (halted_do_close fx st c) as K. destruct (do_close fx st c); simpl in *; apply NoHalt; simpl; congruence.
  - pose proof (halted_do_select fx st g cs) as K. destruct (do_select fx st g cs); simpl in *;
      [apply NoHalt|apply yield_deadlock|apply NoHalt|apply NoHalt]; simpl; congruence.
  - pose proof (halted_do_recv fx st g c) as K. destruct (do_recv fx st g c) as [? ? []| |]; simpl in *;
      [apply NoHalt|apply NoHalt|apply yield_deadlock|apply NoHalt]; simpl; congruence.
  - apply NoHalt. unfold spawn, schedule. simpl. match goal with |- context [if ?b then _ else _] => destruct b end; auto.
  - apply yield_deadlock. auto.
  - apply yield_deadlock. auto.
  - apply NoHalt. auto.
Qed.

Lemma impl_step_deadlock fx prog st : deadlock_sound_at st -> deadlock_sound_at (impl_step fx prog st).
Proof.
  intros H. unfold impl_step. destruct (halted st) eqn:H0; auto.
  assert (NoHalt : forall s, halted s = None -> deadlock_sound_at s) by (unfold deadlock_sound_at; congruence).
  destruct (md st).
  - apply NoHalt. unfold fire_timer. destruct (timers st) as [|[id|g] ts]; auto. change (halted (wake_up g WTimer (st <| timers := ts |> <| awake := (awake st - 1)%Z |>)) = None). now rewrite halted_wake_up.
  - apply NoHalt. destruct (scheduled st) eqn:Es; auto. unfold end_pass. rewrite Es. exact H0.
  - now apply step_goroutine_deadlock.
Qed.

Theorem deadlock_report_sound_partial fx prog st : reachable fx prog st -> deadlock_sound_at st.
Proof.
  intros R. induction R; auto using impl_step_deadlock. unfold deadlock_sound_at. simpl. discriminate.
Qed.

(* ================================================================ the current code = [repaired] *)
Lemma repaired_fix : fix_select_send repaired = true. Proof. reflexivity. Qed.

Lemma chan_invariants_repaired : forall prog st, reachable repaired prog st ->
  Forall (fun ch =>
    length (c_buf ch) <= c_cap ch /\
    (c_recvq ch <> [] -> c_buf ch = []) /\
    (c_sendq ch <> [] -> length (c_buf ch) = c_cap ch) /\
    (c_closed ch = true -> c_sendq ch = [] /\ c_recvq ch = []) /\
    (forall se re, In se (c_sendq ch) -> In re (c_recvq ch) -> sowner se = rowner re) /\
    (c_nil ch = true -> c_sendq ch = [] /\ c_recvq ch = [] /\ c_buf ch = [] /\ c_cap ch = 0) /\
    c_acc ch = c_rcv ch ++ c_buf ch) (chans st).
Proof. intros. eapply chan_invariants_unfolded; eauto using repaired_fix. Qed.

Lemma registration_repaired : forall prog st, reachable repaired prog st -> reg_ok st.
Proof. intros. eapply registration; eauto using repaired_fix. Qed.

Lemma no_lost_wakeup_repaired : forall prog st, reachable repaired prog st -> no_lost_wakeup_at st.
Proof. intros. eapply no_lost_wakeup; eauto using repaired_fix. Qed.
