(* C04 phase 4 — substitution through the Resolver: groundness of what is produced and collected. *)
From Coq Require Import List NArith Bool Arith Lia.
From Verif Require Import Model.C04_Inst Proofs.C04_Inst.
Import ListNotations.

(* every type parameter of t is one the Resolver of an instance with n own / m nesting arguments replaces *)
Fixpoint scoped (n m : nat) (t : ty) : bool :=
  match t with
  | TBase _ => true
  | TCon _ l | TNamed _ l => forallb (scoped n m) l
  | TOwn i => i <? n
  | TNestV i => i <? m
  | TFree _ => false
  end.

Definition ground_inst (i : inst) : Prop := forallb closed (i_targs i) = true /\ forallb closed (i_tnest i) = true.

Lemma forallb_nth : forall (f : ty -> bool) l i d, forallb f l = true -> i < length l -> f (nth i l d) = true.
Proof.
  intros f l i d H L. rewrite forallb_forall in H. apply H. apply nth_In; exact L.
Qed.

Lemma forallb_map_In : forall (f g : ty -> bool) (s : ty -> ty) l,
  (forall x, In x l -> g x = true -> f (s x) = true) -> forallb g l = true -> forallb f (map s l) = true.
Proof.
  intros f g s l H G. rewrite forallb_forall in *. intros y Hy. apply in_map_iff in Hy.
  destruct Hy as [x [E Hx]]. subst y. apply H; auto.
Qed.

(* C04_subst_ground: ground arguments + a type over the instance's parameters -> no type parameter is left *)
Lemma subst_ground_lem : forall own nest t,
  forallb closed own = true -> forallb closed nest = true ->
  scoped (length own) (length nest) t = true -> closed (subst own nest t) = true.
Proof.
  intros own nest t Co Cn. induction t using ty_ind'; simpl; intro S; try discriminate; auto.
  - eapply forallb_map_In; [| exact S]. intros x Hx Sx. rewrite Forall_forall in H. apply H; auto.
  - eapply forallb_map_In; [| exact S]. intros x Hx Sx. rewrite Forall_forall in H. apply H; auto.
  - apply Nat.ltb_lt in S. apply forallb_nth; auto.
  - apply Nat.ltb_lt in S. apply forallb_nth; auto.
Qed.

(* the converse direction that makes the statement sharp: a parameter outside the scope survives *)
Lemma subst_free_survives : forall own nest i, closed (subst own nest (TFree i)) = false.
Proof. reflexivity. Qed.

Lemma subst_own_out_of_range : forall own nest i, length own <= i -> subst own nest (TOwn i) = TOwn i.
Proof. intros. simpl. apply nth_overflow. exact H. Qed.

(* Substitute commutes with type construction (the shape of the type is kept, arguments are substituted) *)
Lemma subst_commutes_lem : forall own nest,
  (forall c l, subst own nest (TCon c l) = TCon c (map (subst own nest) l)) /\
  (forall o l, subst own nest (TNamed o l) = TNamed o (map (subst own nest) l)) /\
  (forall b, subst own nest (TBase b) = TBase b).
Proof. intros. repeat split. Qed.

(* and with the substitution of a nested instance's arguments (TNest): substituting the arguments of an inner
   instance G[es] and then resolving G's own parameters = resolving them with the substituted arguments *)
Lemma subst_nested_instance_lem : forall own nest es t,
  forallb closed own = true -> forallb closed nest = true ->
  scoped (length es) 0 t = true ->
  subst own nest (subst es [] t) = subst (map (subst own nest) es) [] t.
Proof.
  intros own nest es t Co Cn. induction t using ty_ind'; simpl; intro S; try discriminate; auto.
  - f_equal. rewrite map_map. apply map_ext_in. intros x Hx. rewrite Forall_forall in H.
    apply H; auto. rewrite forallb_forall in S. apply S; auto.
  - f_equal. rewrite map_map. apply map_ext_in. intros x Hx. rewrite Forall_forall in H.
    apply H; auto. rewrite forallb_forall in S. apply S; auto.
  - apply Nat.ltb_lt in S. rewrite (nth_indep (map (subst own nest) es) (TOwn i) (subst own nest (TOwn i))) by (rewrite map_length; exact S).
    rewrite map_nth. reflexivity.
Qed.

(* isGeneric = false leaves no type parameter, whatever the lazy rule says *)
Lemma not_generic_closed : forall p ign t, is_generic p ign t = false -> closed t = true.
Proof.
  intros p ign. induction t using ty_ind'; simpl; intro G; try discriminate; auto.
  - rewrite forallb_forall. intros x Hx. rewrite Forall_forall in H. apply H; auto.
    destruct (is_generic p ign x) eqn:E; auto.
    assert (existsb (is_generic p ign) l = true) by (apply existsb_exists; exists x; auto). congruence.
  - apply orb_false_iff in G. destruct G as [G _].
    rewrite forallb_forall. intros x Hx. rewrite Forall_forall in H. apply H; auto.
    destruct (is_generic p ign x) eqn:E; auto.
    assert (existsb (is_generic p ign) l = true) by (apply existsb_exists; exists x; auto). congruence.
Qed.

Lemma not_generic_all_closed : forall p ign l, existsb (is_generic p ign) l = false -> forallb closed l = true.
Proof.
  intros p ign l H. rewrite forallb_forall. intros x Hx. apply (not_generic_closed p ign).
  destruct (is_generic p ign x) eqn:E; auto.
  assert (existsb (is_generic p ign) l = true) by (apply existsb_exists; exists x; auto). congruence.
Qed.

Definition ground_ctx (c : option inst) : Prop := match c with Some r => ground_inst r | None => True end.

(* what one identifier contributes in the context of a ground instance (or of non-generic code) is ground:
   type arguments AND nesting arguments (TNest) *)
Lemma produced_ground_lem : forall p c it i, ground_ctx c -> produced p c it = Some i -> ground_inst i.
Proof.
  intros p c it i G P. destruct it as [t es nested | t]; simpl in P.
  - destruct (existsb _ _) eqn:E; [discriminate|]. inversion P; subst; clear P. split; simpl.
    + eapply not_generic_all_closed; eauto.
    + destruct nested; auto. unfold ctx_nest_args. destruct c as [r|]; auto.
      destruct G as [Ga Gn]. destruct (o_kind (get_obj p (i_obj r))); auto.
  - destruct c as [r|]; simpl in P; [|discriminate].
    destruct (i_targs r) eqn:E; [discriminate|]. inversion P; subst; clear P.
    destruct G as [Ga Gn]. split; simpl; auto. rewrite E in Ga. exact Ga.
Qed.

Lemma with_methods_ground : forall p i j, ground_inst i -> In j (with_methods p i) -> ground_inst j.
Proof.
  intros p i j G H. unfold with_methods in H. destruct H as [H | H]; [subst; auto|].
  apply in_map_iff in H. destruct H as [m [E _]]. subst j. exact G.
Qed.

Lemma Reach_ground : forall p i, Reach p i -> ground_inst i.
Proof.
  intros p. apply Reach_least. split.
  - intros it j j' _ P M. eapply with_methods_ground; [| exact M]. eapply produced_ground_lem; [| exact P]. exact I.
  - intros i it j j' G _ P M. eapply with_methods_ground; [| exact M]. eapply produced_ground_lem; [| exact P]. exact G.
Qed.

(* every instance Finish hands to the translation is ground, so (subst_ground_lem) the substituted signature /
   underlying type of the instance mentions no type parameter *)
Lemma collected_ground_lem : forall p, wf_prog p -> forall fuel sched,
  all_exhausted (collect p fuel sched) = true ->
  forall i, In i (all_vals (collect p fuel sched)) -> ground_inst i.
Proof.
  intros p W fuel sched E i H. apply (Reach_ground p). eapply collect_lfp_lem; eauto.
Qed.

Lemma collected_signature_ground_lem : forall p, wf_prog p -> forall fuel sched,
  all_exhausted (collect p fuel sched) = true ->
  forall i, In i (all_vals (collect p fuel sched)) ->
  forall t, scoped (length (i_targs i)) (length (i_tnest i)) t = true ->
  closed (subst (i_targs i) (i_tnest i) t) = true.
Proof.
  intros p W fuel sched E i H t S. destruct (collected_ground_lem p W fuel sched E i H) as [Ga Gn].
  apply subst_ground_lem; auto.
Qed.
