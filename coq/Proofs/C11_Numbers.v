(* C11 — lemmas about numbers, the interface{} table, the wrapper cache and the callback guard. *)
From Coq Require Import List ZArith Bool Lia.
From Verif Require Import Model.C11_JsMapping.
Import ListNotations.
Local Open Scope Z_scope.
Ltac Zify.zify_post_hook ::= Z.div_mod_to_equations.

(* ------------------------------------------------------------------ 32-bit coercions *)

Lemma to_int32_small : forall z, - two31 <= z < two31 -> to_int32 z = z.
Proof.
  intros z H. unfold to_int32, two32, two31 in *.
  destruct (z mod 4294967296 <? 2147483648) eqn:E; [apply Z.ltb_lt in E | apply Z.ltb_ge in E]; lia.
Qed.

Lemma to_int32_wrap : forall z, - two31 <= z < two31 -> forall k, to_int32 (z + k * two32) = z.
Proof.
  intros z H k. unfold to_int32, two32, two31 in *.
  destruct ((z + k * 4294967296) mod 4294967296 <? 2147483648) eqn:E; [apply Z.ltb_lt in E | apply Z.ltb_ge in E]; lia.
Qed.

Lemma to_uint32_small : forall z, 0 <= z < two32 -> to_uint32 z = z.
Proof. intros z H. unfold to_uint32, two32 in *. lia. Qed.

Lemma to_uint32_of_int32 : forall z, to_uint32 (to_int32 z) = to_uint32 z.
Proof.
  intros z. unfold to_uint32, to_int32, two32, two31.
  destruct (z mod 4294967296 <? 2147483648) eqn:E; [apply Z.ltb_lt in E | apply Z.ltb_ge in E]; lia.
Qed.

(* the range of every non-64-bit integer kind *)
Definition int_range (k : kind) : option (Z * Z) :=
  match k with
  | KInt | KInt32 => Some (- two31, two31 - 1)
  | KInt8 => Some (-128, 127)
  | KInt16 => Some (-32768, 32767)
  | KUint | KUint32 | KUintptr => Some (0, two32 - 1)
  | KUint8 => Some (0, 255)
  | KUint16 => Some (0, 65535)
  | _ => None
  end.

Lemma parse_int_small : forall z, Z.abs z < two32 -> parse_int (JNum (NumZ z)) = Ok (NumZ z).
Proof.
  intros z H. unfold parse_int. replace (Z.abs z <? ten21) with true; [reflexivity|].
  symmetry. apply Z.ltb_lt. unfold ten21, two32 in *. lia.
Qed.

Lemma coerce_int_in_range : forall k lo hi z, int_range k = Some (lo, hi) -> lo <= z <= hi ->
  coerce_int k (NumZ z) = NumZ z.
Proof.
  intros k lo hi z Hk Hz.
  destruct k; cbn in Hk; try discriminate; injection Hk as <- <-; unfold two31, two32 in *;
    unfold coerce_int, js_sar, js_shl, js_shr, num_int32, num_uint32, num_trunc; try reflexivity.
  - (* int8 *)
    rewrite (to_int32_small z) by (unfold two31; lia).
    rewrite (to_int32_small (z * 2 ^ 24)) by (unfold two31; lia).
    rewrite (to_int32_small (z * 2 ^ 24)) by (unfold two31; lia).
    f_equal. apply Z.div_mul. lia.
  - (* int16 *)
    rewrite (to_int32_small z) by (unfold two31; lia).
    rewrite (to_int32_small (z * 2 ^ 16)) by (unfold two31; lia).
    rewrite (to_int32_small (z * 2 ^ 16)) by (unfold two31; lia).
    f_equal. apply Z.div_mul. lia.
  - (* int32 *)
    rewrite (to_int32_small z) by (unfold two31; lia). f_equal. change (2 ^ 0) with 1. apply Z.div_1_r.
  - (* uint8 *)
    rewrite (to_int32_small z) by (unfold two31; lia).
    rewrite to_uint32_of_int32. rewrite to_uint32_small by (unfold two32; lia).
    f_equal. apply Z.div_mul. lia.
  - (* uint16 *)
    rewrite (to_int32_small z) by (unfold two31; lia).
    rewrite to_uint32_of_int32. rewrite to_uint32_small by (unfold two32; lia).
    f_equal. apply Z.div_mul. lia.
  - (* uint32 *)
    rewrite to_uint32_small by (unfold two32; lia). f_equal. change (2 ^ 0) with 1. apply Z.div_1_r.
  - (* uintptr *)
    rewrite to_uint32_small by (unfold two32; lia). f_equal. change (2 ^ 0) with 1. apply Z.div_1_r.
Qed.

Lemma int_range_num32 : forall k lo hi, int_range k = Some (lo, hi) -> is_num32 k = true.
Proof. intros k lo hi H. destruct k; cbn in H; try discriminate; reflexivity. Qed.

Lemma int_range_bounds : forall k lo hi z, int_range k = Some (lo, hi) -> lo <= z <= hi -> Z.abs z < two32.
Proof. intros k lo hi z H Hz. destruct k; cbn in H; try discriminate; injection H as <- <-; unfold two31, two32 in *; lia. Qed.

Lemma int_roundtrip : forall k lo hi z, int_range k = Some (lo, hi) -> lo <= z <= hi ->
  externalize (TB k) (GNum (NumZ z)) = Ok (JNum (NumZ z)) /\
  internalize (TB k) (JNum (NumZ z)) = Ok (GNum (NumZ z)).
Proof.
  intros k lo hi z Hk Hz. split.
  - pose proof (int_range_num32 _ _ _ Hk) as Hn. destruct k; cbn in Hk; try discriminate; reflexivity.
  - cbn [internalize].
    assert (Hp : parse_int (JNum (NumZ z)) = Ok (NumZ z)) by (apply parse_int_small; eapply int_range_bounds; eauto).
    pose proof (coerce_int_in_range _ _ _ _ Hk Hz) as Hc.
    destruct k; cbn in Hk; try discriminate; unfold int_basic; rewrite Hp; cbn [bind]; rewrite Hc; reflexivity.
Qed.

(* the accessor o.Int() and reads of js-tagged integer fields: $parseInt(x) fixed to the kind *)
Lemma compiled_int_roundtrip : forall k lo hi z, int_range k = Some (lo, hi) -> lo <= z <= hi ->
  compiled_internalize (TB k) (JNum (NumZ z)) = Ok (GNum (NumZ z)).
Proof.
  intros k lo hi z Hk Hz.
  assert (Hp : parse_int (JNum (NumZ z)) = Ok (NumZ z)) by (apply parse_int_small; eapply int_range_bounds; eauto).
  pose proof (coerce_int_in_range _ _ _ _ Hk Hz) as Hc.
  destruct k; cbn in Hk; try discriminate; injection Hk as <- <-;
    unfold compiled_internalize; rewrite Hp; cbn [bind fix_number]; unfold coerce_int in Hc; try rewrite Hc; try reflexivity.
  - (* int: >> 0 is added by fixNumber *)
    unfold js_sar, num_int32, num_trunc. rewrite to_int32_small by (unfold two31, two32 in *; lia). change (2 ^ 0) with 1. rewrite Z.div_1_r. reflexivity.
  - (* uint *)
    unfold js_shr, num_uint32, num_trunc. rewrite to_uint32_small by (unfold two31, two32 in *; lia). change (2 ^ 0) with 1. rewrite Z.div_1_r. reflexivity.
Qed.

(* ------------------------------------------------------------------ 64-bit *)

Lemma round53_small : forall z, Z.abs z < two53 -> round53 z = z.
Proof. intros z H. unfold round53. replace (Z.abs z <? two53) with true by lia. reflexivity. Qed.

Lemma int64_roundtrip : forall hi lo,
  - two31 <= hi < two31 -> 0 <= lo < two32 -> Z.abs (hi * two32 + lo) < two53 ->
  externalize (TB KInt64) (G64 hi lo) = Ok (JNum (NumZ (hi * two32 + lo))) /\
  internalize (TB KInt64) (JNum (NumZ (hi * two32 + lo))) = Ok (G64 hi lo).
Proof.
  intros hi lo Hh Hl Hv. split.
  - cbn [externalize]. unfold flatten64. rewrite round53_small by exact Hv. reflexivity.
  - cbn [internalize int_basic to_number bind]. unfold new64, num_uint32, num_trunc.
    replace ((hi * two32 + lo) / two32) with hi by (unfold two32 in *; lia).
    rewrite to_int32_small by exact Hh.
    unfold to_uint32. replace ((hi * two32 + lo) mod two32) with lo by (unfold two32 in *; lia).
    reflexivity.
Qed.

Lemma uint64_roundtrip : forall hi lo,
  0 <= hi < two32 -> 0 <= lo < two32 -> hi * two32 + lo < two53 ->
  externalize (TB KUint64) (G64 hi lo) = Ok (JNum (NumZ (hi * two32 + lo))) /\
  internalize (TB KUint64) (JNum (NumZ (hi * two32 + lo))) = Ok (G64 hi lo).
Proof.
  intros hi lo Hh Hl Hv. split.
  - cbn [externalize]. unfold flatten64. rewrite round53_small by (unfold two32, two53 in *; lia). reflexivity.
  - cbn [internalize int_basic to_number bind]. unfold new64, num_uint32, num_trunc.
    replace ((hi * two32 + lo) / two32) with hi by (unfold two32 in *; lia).
    rewrite to_uint32_small by exact Hh.
    unfold to_uint32. replace ((hi * two32 + lo) mod two32) with lo by (unfold two32 in *; lia).
    reflexivity.
Qed.

(* the bound is tight: 2^53 + 1 comes back as 2^53 *)
Lemma int64_bound_tight :
  bind (externalize (TB KInt64) (G64 2097152 1)) (internalize (TB KInt64)) = Ok (G64 2097152 0).
Proof. vm_compute. reflexivity. Qed.

(* ------------------------------------------------------------------ floats *)

Lemma float_roundtrip : forall k n, (k = KFloat32 \/ k = KFloat64) ->
  externalize (TB k) (GNum n) = Ok (JNum n) /\ internalize (TB k) (JNum n) = Ok (GNum n).
Proof. intros k n Hk. destruct Hk; subst k; split; reflexivity. Qed.

Lemma float_through_interface : forall n,
  internalize TIface (JNum n) = Ok (GIface (Some (TB KFloat64, GNum n))).
Proof. reflexivity. Qed.

(* o.Float() and js-tagged float fields go through $parseFloat, which returns numbers unchanged *)
Lemma compiled_float_roundtrip : forall k n, (k = KFloat32 \/ k = KFloat64) ->
  compiled_externalize (TB k) (GNum n) = Ok (JNum n) /\ compiled_internalize (TB k) (JNum n) = Ok (GNum n).
Proof. intros k n Hk. destruct Hk; subst k; split; reflexivity. Qed.

Lemma bool_roundtrip : forall b,
  externalize (TB KBool) (GBool b) = Ok (JBool b) /\ internalize (TB KBool) (JBool b) = Ok (GBool b).
Proof. intros b. split; [reflexivity | destruct b; reflexivity]. Qed.

(* ------------------------------------------------------------------ the interface{} table *)

(* third column of the table in js/js.go, for non-nil values *)
Definition table_row (t : gtype) : option gtype :=
  match t with
  | TB KBool => Some (TB KBool)
  | TB KString => Some (TB KString)
  | TB _ => Some (TB KFloat64)
  | TSlice (TB k) | TArray _ (TB k) =>
      match native_array k with
      | Some tk => Some (tkind_slice_type tk)
      | None => Some tslice_any
      end
  | TSlice _ | TArray _ _ => Some tslice_any
  | TMap _ => Some tmap_any
  | TStruct _ => Some tmap_any
  | _ => None
  end.

Definition iface_type (g : gval) : option gtype :=
  match g with GIface (Some (t, _)) => Some t | _ => None end.

Lemma int_any_arr : forall l g, int_any (JArr l) = Ok g -> iface_type g = Some tslice_any.
Proof.
  intros l g H. cbn [int_any] in H. destruct (mapM int_any l); cbn [bind] in H; try discriminate.
  injection H as <-. reflexivity.
Qed.

Lemma int_any_obj : forall l g, int_any (JObj l) = Ok g -> iface_type g = Some tmap_any.
Proof.
  intros l g H. cbn [int_any] in H.
  match type of H with bind ?m _ = _ => destruct m end; cbn [bind] in H; try discriminate.
  injection H as <-. reflexivity.
Qed.

Lemma int_any_typed : forall k l g, int_any (JTyped k l) = Ok g -> iface_type g = Some (tkind_slice_type k).
Proof. intros k l g H. cbn [int_any] in H. injection H as <-. reflexivity. Qed.

Lemma int_any_num : forall n g, int_any (JNum n) = Ok g -> iface_type g = Some (TB KFloat64).
Proof.
  intros n g H. cbn [int_any] in H. destruct (parse_float (JNum n)); cbn [bind] in H; try discriminate.
  injection H as <-. reflexivity.
Qed.

Ltac bind_inv H :=
  match type of H with
  | bind ?m _ = Ok _ => let E := fresh "E" in destruct m eqn:E; cbn [bind] in H; try discriminate
  end.

Lemma seq_elems_table : forall (e : gtype) (b : option backing) (l : list gval) j g,
  (if needs_ext e then bind (mapM (externalize e) l) (fun js => Ok (JArr js))
   else match b with
        | Some (BTyped k) => bind (mapM gnum_of l) (fun ns => Ok (JTyped k ns))
        | _ => bind (mapM prim_js l) (fun js => Ok (JArr js))
        end) = Ok j ->
  internalize TIface j = Ok g ->
  exists t', iface_type g = Some t' /\
             (t' = tslice_any \/ exists k, b = Some (BTyped k) /\ needs_ext e = false /\ t' = tkind_slice_type k).
Proof.
  intros e b l j g He Hi. cbn [internalize] in Hi.
  destruct (needs_ext e) eqn:En.
  - bind_inv He. injection He as <-. exists tslice_any. split; [eapply int_any_arr; eauto | left; reflexivity].
  - destruct b as [[k|]|].
    + bind_inv He. injection He as <-. exists (tkind_slice_type k). split; [eapply int_any_typed; eauto|].
      right. exists k. auto.
    + bind_inv He. injection He as <-. exists tslice_any. split; [eapply int_any_arr; eauto | left; reflexivity].
    + bind_inv He. injection He as <-. exists tslice_any. split; [eapply int_any_arr; eauto | left; reflexivity].
Qed.

(* rows for scalars *)
Lemma table_scalars : forall k v j g,
  externalize (TB k) v = Ok j -> internalize TIface j = Ok g ->
  iface_type g = table_row (TB k).
Proof.
  intros k v j g He Hi. cbn [internalize] in Hi.
  destruct k; destruct v; cbn in He; try discriminate; injection He as <-;
    try (eapply int_any_num; eassumption);
    cbn [int_any] in Hi; injection Hi as <-; reflexivity.
Qed.

(* rows for slices (non-nil) *)
Lemma table_slices : forall e l j g,
  externalize (TSlice e) (GSlice (Some l)) = Ok j -> internalize TIface j = Ok g ->
  iface_type g = table_row (TSlice e).
Proof.
  intros e l j g He Hi. cbn [externalize] in He. cbn [internalize] in Hi.
  destruct (needs_ext e) eqn:En.
  - bind_inv He. injection He as <-. rewrite (int_any_arr _ _ Hi).
    destruct e as [k| | | | | | | | |]; try reflexivity.
    destruct k; cbn in En; try discriminate; reflexivity.
  - destruct e as [k| | | | | | | | |];
      try (bind_inv He; injection He as <-; rewrite (int_any_arr _ _ Hi); reflexivity).
    cbn [table_row]. destruct (native_array k) as [tk|].
    + bind_inv He. injection He as <-. eapply int_any_typed; eauto.
    + bind_inv He. injection He as <-. eapply int_any_arr; eauto.
Qed.

(* rows for maps and structs (non-nil, no embedded *js.Object) *)
Lemma table_maps : forall e kvs j g,
  externalize (TMap e) (GMap (Some kvs)) = Ok j -> internalize TIface j = Ok g ->
  iface_type g = table_row (TMap e).
Proof.
  intros e kvs j g He Hi. cbn [externalize] in He. cbn [internalize] in Hi.
  bind_inv He. injection He as <-. eapply int_any_obj; eauto.
Qed.

Lemma table_structs : forall fs vs j g,
  search_js_object 8 (TStruct fs) (GStruct vs) = None ->
  externalize (TStruct fs) (GStruct vs) = Ok j -> internalize TIface j = Ok g ->
  iface_type g = table_row (TStruct fs).
Proof.
  intros fs vs j g Hs He Hi. cbn [externalize] in He. rewrite Hs in He. cbn [internalize] in Hi.
  bind_inv He. injection He as <-. eapply int_any_obj; eauto.
Qed.

(* nil slices, maps, pointers and interfaces become null and come back as the nil interface *)
Lemma table_nil : forall t v,
  (v = GSlice None \/ v = GMap None \/ v = GPtr None \/ v = GIface None) ->
  forall j, externalize t v = Ok j -> j = JNull /\ internalize TIface j = Ok (GIface None).
Proof.
  intros t v Hv j He.
  assert (j = JNull).
  { destruct Hv as [-> | [-> | [-> | ->]]]; destruct t as [k| | | | | | | | |]; cbn in He; try discriminate;
      try (injection He as <-; reflexivity); destruct k; discriminate. }
  subst j. split; reflexivity.
Qed.

(* nil values, typed round trip *)
Definition is_nil (v : gval) : Prop := v = GSlice None \/ v = GMap None \/ v = GPtr None \/ v = GIface None.

(* every nil slice / map / pointer / interface{} comes back from null as itself (an interface with methods cannot be
   internalized at all: "cannot internalize") *)
Lemma nil_roundtrip : forall t v, t <> TIfaceM -> is_nil v ->
  externalize t v = Ok JNull -> internalize t JNull = Ok v.
Proof.
  intros t v Ht Hv He.
  destruct Hv as [-> | [-> | [-> | ->]]]; destruct t as [k|e1|n2 e2|e3|fs|e| | | |]; cbn in He; try discriminate;
    try (destruct k; discriminate); try reflexivity; try congruence.
  destruct e; reflexivity.
Qed.

(* ------------------------------------------------------------------ wrapper cache *)

Lemma wrapper_cached : forall s f,
  let '(j1, s1) := externalize_function s (Some f) in
  externalize_function s1 (Some f) = (j1, s1).
Proof.
  intros s f. unfold externalize_function.
  destruct (lookup_z f (wrappers s)) as [w|] eqn:E.
  - rewrite E. reflexivity.
  - cbn [wrappers lookup_z]. rewrite Z.eqb_refl. reflexivity.
Qed.

Lemma wrapper_preserved : forall s g f w, lookup_z f (wrappers s) = Some w ->
  lookup_z f (wrappers (snd (externalize_function s g))) = Some w.
Proof.
  intros s g f w H. unfold externalize_function. destruct g as [g|]; [|exact H].
  destruct (lookup_z g (wrappers s)) as [w'|] eqn:E; [exact H|].
  cbn [snd wrappers lookup_z]. destruct (f =? g) eqn:Efg; [|exact H].
  apply Z.eqb_eq in Efg. subst. congruence.
Qed.

Fixpoint run_ext (s : fstate) (gs : list (option Z)) : fstate :=
  match gs with [] => s | g :: r => run_ext (snd (externalize_function s g)) r end.

Lemma wrapper_preserved_run : forall gs s f w, lookup_z f (wrappers s) = Some w ->
  lookup_z f (wrappers (run_ext s gs)) = Some w.
Proof.
  induction gs as [|g gs IH]; intros s f w H; [exact H|].
  cbn [run_ext]. apply IH. apply wrapper_preserved. exact H.
Qed.

Lemma wrapper_identity : forall s f gs,
  fst (externalize_function (run_ext (snd (externalize_function s (Some f))) gs) (Some f)) =
  fst (externalize_function s (Some f)).
Proof.
  intros s f gs.
  assert (H : exists w, fst (externalize_function s (Some f)) = JFun w /\
                        lookup_z f (wrappers (snd (externalize_function s (Some f)))) = Some w).
  { unfold externalize_function. destruct (lookup_z f (wrappers s)) as [w|] eqn:E.
    - exists w. split; [reflexivity | exact E].
    - exists (next_js s). split; [reflexivity|]. cbn [snd wrappers lookup_z]. rewrite Z.eqb_refl. reflexivity. }
  destruct H as [w [H1 H2]]. rewrite H1.
  pose proof (wrapper_preserved_run gs _ _ _ H2) as H3.
  unfold externalize_function at 1. rewrite H3. reflexivity.
Qed.

(* different Go functions never share a wrapper *)
Definition cache_ok (s : fstate) : Prop :=
  (forall k v, In (k, v) (wrappers s) -> v < next_js s) /\
  (forall k k' v, lookup_z k (wrappers s) = Some v -> lookup_z k' (wrappers s) = Some v -> k = k').

Lemma lookup_in : forall k l v, lookup_z k l = Some v -> In (k, v) l.
Proof.
  induction l as [|[k' v'] l IH]; intros v H; cbn in H; [discriminate|].
  destruct (k =? k') eqn:E.
  - apply Z.eqb_eq in E. injection H as <-. subst. left. reflexivity.
  - right. apply IH. exact H.
Qed.

Lemma cache_ok_step : forall s g, cache_ok s -> cache_ok (snd (externalize_function s g)).
Proof.
  intros s g [H1 H2]. unfold externalize_function. destruct g as [g|]; [|split; assumption].
  destruct (lookup_z g (wrappers s)) as [w|] eqn:E; [split; assumption|].
  cbn [snd]. split; cbn [wrappers next_js].
  - intros k v [Hin|Hin]; [injection Hin as <- <-; lia | specialize (H1 _ _ Hin); lia].
  - intros k k' v Hk Hk'. cbn [lookup_z] in Hk, Hk'.
    destruct (k =? g) eqn:Ek; destruct (k' =? g) eqn:Ek'.
    + apply Z.eqb_eq in Ek, Ek'. congruence.
    + injection Hk as <-. apply lookup_in in Hk'. specialize (H1 _ _ Hk'). lia.
    + injection Hk' as <-. apply lookup_in in Hk. specialize (H1 _ _ Hk). lia.
    + eapply H2; eauto.
Qed.

Lemma wrapper_injective : forall s f g,
  cache_ok s -> f <> g ->
  let s1 := snd (externalize_function s (Some f)) in
  fst (externalize_function s (Some f)) <> fst (externalize_function s1 (Some g)).
Proof.
  intros s f g Hok Hfg s1.
  pose proof (cache_ok_step s (Some f) Hok) as Hok1. fold s1 in Hok1.
  assert (Hf : exists w, fst (externalize_function s (Some f)) = JFun w /\ lookup_z f (wrappers s1) = Some w).
  { unfold s1, externalize_function. destruct (lookup_z f (wrappers s)) as [w|] eqn:E.
    - exists w. split; [reflexivity | exact E].
    - exists (next_js s). split; [reflexivity|]. cbn [snd wrappers lookup_z]. rewrite Z.eqb_refl. reflexivity. }
  destruct Hf as [w [Hw Hl]]. rewrite Hw.
  unfold externalize_function. destruct (lookup_z g (wrappers s1)) as [w'|] eqn:E; cbn [fst].
  - intros Heq. injection Heq as <-. destruct Hok1 as [_ H2]. apply Hfg. eapply H2; eauto.
  - intros Heq. injection Heq as Heq. apply lookup_in in Hl. destruct Hok1 as [H1 _]. specialize (H1 _ _ Hl). lia.
Qed.

Lemma nil_func_is_null : forall s, externalize_function s None = (JNull, s).
Proof. reflexivity. Qed.

(* ------------------------------------------------------------------ callback guard *)

Lemma callback_guard : forall s, cur s = None -> block s = GuardError s.
Proof. intros s H. unfold block. rewrite H. reflexivity. Qed.

Lemma block_in_goroutine : forall s g, cur s = Some g ->
  block s = Blocked {| cur := Some g; asleep := g :: asleep s; queue := queue s |}.
Proof. intros s g H. unfold block. rewrite H. reflexivity. Qed.
