(* C15 — (1) with the repaired $ifaceKeyFor (type id instead of type string) key_iff_eq needs no
   assumption on type strings; (2) the refutations: the defect classes contained in the faithful
   model, each by a computed witness; (3) unhashable dynamic key types throw. *)
From Coq Require Import List ZArith NArith Bool Lia String.
From Verif Require Import Model.C15_Keys Proofs.C15_Escape Proofs.C15_Keys.
Import ListNotations.
Local Open Scope N_scope.

(* ---------------------------------------------------------------- (1) *)
Lemma univ_ok_by_id : forall D,
  (forall d d', In d D -> In d' D -> d_id d = d_id d' -> d = d') -> univ_ok true D.
Proof.
  intros D H. split; [exact H|]. split.
  - intros d d' _ _ E. unfold iface_prefix in E. apply dec_inj in E. now apply N2Z.inj in E.
  - intros d _. unfold iface_prefix. apply dec_plain.
Qed.

(* with the code as found: the type strings must identify the types and contain no "$", "\" *)
Lemma univ_ok_by_string : forall D,
  (forall d d', In d D -> In d' D -> d_id d = d_id d' -> d = d') ->
  (forall d d', In d D -> In d' D -> d_str d = d_str d' -> d_id d = d_id d') ->
  (forall d, In d D -> plain (d_str d)) -> univ_ok false D.
Proof. intros D H1 H2 H3. split; [exact H1|]. split; [exact H2 | exact H3]. Qed.

(* ---------------------------------------------------------------- (2) *)
Definition st0 : st := {| ctr := 0; ids := [] |}.

(* what the property asks of two keys of one map (b's key computed right after a's) *)
Definition keys_agree_with_go (nts : Z -> str) (by_id : bool) (t : kty) (a b : val) : Prop :=
  forall ka s1 kb s3,
    key_for nts by_id t a st0 = (Some ka, s1) -> key_for nts by_id t b s1 = (Some kb, s3) ->
    (jskey_eqb ka kb = true <-> go_eq t a b = true).

Lemma refute_tool : forall nts by_id t a b ka s1 kb s3,
  key_for nts by_id t a st0 = (Some ka, s1) -> key_for nts by_id t b s1 = (Some kb, s3) ->
  jskey_eqb ka kb = negb (go_eq t a b) -> ~ keys_agree_with_go nts by_id t a b.
Proof.
  intros nts by_id t a b ka s1 kb s3 H1 H2 Hne H. specialize (H ka s1 kb s3 H1 H2).
  destruct (go_eq t a b); cbn in Hne; rewrite Hne in H; destruct H as [A B]; [specialize (B eq_refl) | specialize (A eq_refl)]; discriminate.
Qed.

Definition nts_dummy : Z -> str := fun _ => [49%N].

(* two DISTINCT types with the same string, e.g. type T int declared in two functions *)
Definition T_in_f : dyn := {| d_id := 101; d_str := of_string "main.T"; d_shape := TInt |}.
Definition T_in_g : dyn := {| d_id := 102; d_str := of_string "main.T"; d_shape := TInt |}.

Lemma iface_key_refuted_by_string :
  wt TIface (VDyn T_in_f (VInt 1)) = true /\ wt TIface (VDyn T_in_g (VInt 1)) = true /\
  hashable TIface (VDyn T_in_f (VInt 1)) = true /\ hashable TIface (VDyn T_in_g (VInt 1)) = true /\
  ~ keys_agree_with_go nts_dummy false TIface (VDyn T_in_f (VInt 1)) (VDyn T_in_g (VInt 1)).
Proof.
  repeat split; try reflexivity.
  eapply refute_tool; [vm_compute; reflexivity | vm_compute; reflexivity | vm_compute; reflexivity].
Qed.

(* ... and the same witness is handled correctly by the repaired code *)
Lemma iface_key_witness_ok_by_id :
  keys_agree_with_go nts_dummy true TIface (VDyn T_in_f (VInt 1)) (VDyn T_in_g (VInt 1)).
Proof.
  intros ka s1 kb s3 H1 H2. vm_compute in H1. injection H1 as <- <-. vm_compute in H2. injection H2 as <- <-.
  vm_compute. split; discriminate.
Qed.

(* ... while a top-level NaN float key IS handled ($floatKey): never equal, for every state *)
Lemma nan_never_equal : forall nts by_id s ka s1 s2 kb s3,
  key_for nts by_id TFloat (VFloat FNaN) s = (Some ka, s1) -> sle s1 s2 ->
  key_for nts by_id TFloat (VFloat FNaN) s2 = (Some kb, s3) -> jskey_eqb ka kb = false.
Proof.
  intros nts by_id s ka s1 s2 kb s3 H1 [L _] H2. cbn in H1, H2.
  injection H1 as <- <-. injection H2 as <- <-. cbn [ctr] in L.
  apply not_true_is_false. intros E. cbn [jskey_eqb] in E. apply str_eqb_eq in E.
  injection E as E. apply dec_inj in E. lia.
Qed.

(* ---------------------------------------------------------------- (3) unhashable keys *)
(* a dynamic type that is uncomparable only through a blank field: $ifaceKeyFor throws (0da9cd0) *)
Definition blank_slice : dyn :=
  {| d_id := 7; d_str := of_string "struct { a int; _ []int }"; d_shape := TStruct [(false, TInt); (true, TNoKey)] |}.

Lemma blank_unhashable_throws :
  wt TIface (VDyn blank_slice (VStruct [VInt 1; VOpaque])) = true /\
  hashable TIface (VDyn blank_slice (VStruct [VInt 1; VOpaque])) = false /\
  fst (key_for nts_dummy true TIface (VDyn blank_slice (VStruct [VInt 1; VOpaque])) st0) = None.
Proof. repeat split; reflexivity. Qed.

(* zero-length arrays of an uncomparable element type throw *)
Lemma zero_length_array_throws : forall nts by_id n l s, key_for nts by_id (TArray n TNoKey) (VArr l) s = (None, s).
Proof. reflexivity. Qed.

Section Unhashable.
Variable nts : Z -> str.
Variable by_id : bool.
Notation K := (key_for nts by_id).

(* unhashable_throws: for a comparable static key type, a key that Go refuses to hash makes keyFor
   throw (every map operation computes the key first, or checks the nil map first and throws there) *)
Theorem unhashable_throws : forall x t s,
  wt t x = true -> comparable t = true -> hashable t x = false -> fst (K t x s) = None.
Proof.
  induction x using val_ind'; intros t u W Ct Hh; destruct t; cbn in W; try discriminate W;
    cbn in Hh; try discriminate Hh; try reflexivity.
  - (* dyn *)
    rewrite K_dyn.
    destruct (comparable (d_shape d)) eqn:C; cbn [andb] in Hh; [|reflexivity].
    specialize (IHx (d_shape d) u W C Hh). destruct (K (d_shape d) x u) as [[k|] s1]; [discriminate IHx | reflexivity].
  - (* array *)
    apply andb_true_iff in W as [_ W]. cbn [comparable] in Ct.
    rewrite K_arr. rewrite Ct.
    enough (E : fst (keys_arr (fun x s => K t x s) (fun _ k => escape (key_str k)) l u) = None).
    { destruct (keys_arr _ _ l u) as [[?|] ?]; [discriminate E | reflexivity]. }
    revert u W Hh. induction H as [|x l Hx _ IH]; intros u W Hh; [discriminate Hh|].
    cbn [all1] in W, Hh. apply andb_true_iff in W as [Wx W].
    cbn [keys_arr].
    destruct (hashable t x) eqn:Hx'.
    + cbn [andb] in Hh. destruct (K t x u) as [[k|] s1]; [|reflexivity].
      specialize (IH s1 W Hh). destruct (keys_arr _ _ l s1) as [[?|] ?]; [discriminate IH | reflexivity].
    + specialize (Hx t u Wx Ct Hx'). destruct (K t x u) as [[k|] s1]; [discriminate Hx | reflexivity].
  - (* struct *)
    rewrite K_struct.
    enough (E : fst (keys_struct (fun ft x s => K ft x s) (fun k => escape (key_str k)) fs l u) = None).
    { destruct (keys_struct _ _ fs l u) as [[?|] ?]; [discriminate E | reflexivity]. }
    revert fs u W Ct Hh. induction H as [|x l Hx _ IH]; intros fs u W Ct Hh.
    + destruct fs as [|[[|] ?] ?]; [discriminate Hh | discriminate W | discriminate W].
    + destruct fs as [|[bl ft] fs]; [discriminate W|].
      cbn [fields1] in W. apply andb_true_iff in W as [Wx W].
      cbn [comparable] in Ct. apply andb_true_iff in Ct as [Cf Ct].
      cbn [keys_struct]. destruct bl; cbn [fieldsnb] in Hh; [exact (IH fs u W Ct Hh)|].
      destruct (hashable ft x) eqn:Hx'.
      * cbn [andb] in Hh. destruct (K ft x u) as [[k|] s1]; [|reflexivity].
        specialize (IH fs s1 W Ct Hh). destruct (keys_struct _ _ fs l s1) as [[?|] ?]; [discriminate IH | reflexivity].
      * specialize (Hx ft u Wx Cf Hx'). destruct (K ft x u) as [[k|] s1]; [discriminate Hx | reflexivity].
Qed.
End Unhashable.

(* ---------------------------------------------------------------- key_iff_eq for the code as it is now
   ($ifaceKeyFor prints the type id): nothing is assumed about type strings *)
Theorem key_iff_eq_by_id : forall (nts : Z -> str),
  (forall x y, is_zero_bits x = false -> is_zero_bits y = false -> nts x = nts y -> x = y) ->
  (forall x, is_zero_bits x = false -> nts x <> of_string "0") ->
  (forall x, nts x <> of_string "NaN") ->
  (forall x, plain (nts x)) ->
  forall t a b D s0 ka s1 s2 kb s3,
    (forall d d', In d D -> In d' D -> d_id d = d_id d' -> d = d') -> incl (dyns a) D -> incl (dyns b) D ->
    wt t a = true -> wt t b = true ->
    wf s0 -> key_for nts true t a s0 = (Some ka, s1) -> sle s1 s2 -> wf s2 -> key_for nts true t b s2 = (Some kb, s3) ->
    (jskey_eqb ka kb = true <-> go_eq t a b = true).
Proof.
  intros nts N1 N2 N3 N4 t a b D s0 ka s1 s2 kb s3 U I1 I2 W1 W2 Wf H1 L Wf2 H2.
  exact (key_iff_eq nts true N1 N2 N3 N4 t a b D s0 ka s1 s2 kb s3 (univ_ok_by_id D U) I1 I2 W1 W2 Wf H1 L Wf2 H2).
Qed.
