(* C01 — simulation proof, part 2: expressions *)
From Coq Require Import ZArith List String Bool Lia.
From Verif Require Import Model.C01_GoSem Model.C01_JsSem Model.C01_Compile Model.C01_Wf
  Proofs.C01_Arith Proofs.C01_Arith2 Proofs.C01_Arith3 Proofs.C01_SimBase.
Import ListNotations.
Local Open Scope Z_scope.

Lemma kind_eqb_eq : forall a b, kind_eqb a b = true -> a = b.
Proof. destruct a, b; cbn; intros; try discriminate; reflexivity. Qed.
Lemma ty_eqb_eq : forall a b, ty_eqb a b = true -> a = b.
Proof. destruct a, b; cbn; intros; try discriminate; try reflexivity. f_equal. now apply kind_eqb_eq. Qed.
Lemma opt_ty_is_spec : forall o t, opt_ty_is o t = true -> o = Some t.
Proof. intros [u|] t H; cbn in H; [f_equal; now apply ty_eqb_eq | discriminate]. Qed.

Ltac dlets :=
  repeat match goal with
  | H : (let '(_, _) := ?x in _) = _ |- _ => let E := fresh "E" in destruct x as [? ?] eqn:E
  | H : (if ?c then _ else _) = (_, _) |- _ => destruct c eqn:?
  | H : match ?x with _ => _ end = (_, _) |- _ => destruct x eqn:?
  | H : (_, _) = (_, _) |- _ => inversion H; subst; clear H
  end.

Lemma cexpr_mono : forall e st je st', cexpr st e = (je, st') -> st_le st st' /\ rho st' = rho st.
Proof.
  induction e; intros st je st' H; cbn [cexpr] in H; dlets;
    repeat match goal with
    | IH : forall st je st', cexpr st ?a = (je, st') -> _, E : cexpr _ ?a = _ |- _ => apply IH in E; destruct E
    | E : alloc _ _ = _ |- _ => apply alloc_spec in E; destruct E as [? [? [? ?]]]
    end;
    (split; [eauto 6 using st_le_trans, st_le_refl | congruence]).
Qed.

Lemma rho_ok_mono : forall st st', rho_ok st -> st_le st st' -> rho st' = rho st -> rho_ok st'.
Proof. intros st st' [H1 H2] Hl He. unfold rho_ok. rewrite He. split; eauto. Qed.

(* ---------------------------------------------------------------- the simulation relation *)
Definition ESim (st : cstate) (t : ty) (sg : store val) (sj : store jval) (e : expr) (je : jexpr) : Prop :=
  match eval sg e with
  | EV v => val_ok t v /\ exists sj', jeval sj je = JOk (inj v) sj' /\ frame st sj sj'
  | EPanic => jeval sj je = JThrow
  | EStuck => False
  end.

Lemma ESim_int : forall st k sg sj e je, ESim st (TI k) sg sj e je ->
  (exists z sj', eval sg e = EV (VI z) /\ in_range k z = true /\ jeval sj je = JOk (JI z) sj' /\ frame st sj sj') \/
  (eval sg e = EPanic /\ jeval sj je = JThrow).
Proof.
  unfold ESim. intros st k sg sj e je H. destruct (eval sg e) as [[z|b]| |]; try contradiction.
  - destruct H as [Hv [sj' [H1 H2]]]. left. exists z, sj'. auto.
  - destruct H as [[] _].
  - right. auto.
Qed.
Lemma ESim_bool : forall st sg sj e je, ESim st TB sg sj e je ->
  (exists b sj', eval sg e = EV (VB b) /\ jeval sj je = JOk (JB b) sj' /\ frame st sj sj') \/
  (eval sg e = EPanic /\ jeval sj je = JThrow).
Proof.
  unfold ESim. intros st sg sj e je H. destruct (eval sg e) as [[z|b]| |]; try contradiction.
  - destruct H as [[] _].
  - destruct H as [Hv [sj' [H1 H2]]]. left. exists b, sj'. auto.
  - right. auto.
Qed.

Lemma ESim_weaken : forall st0 st t sg sj e je, st_le st0 st -> ESim st t sg sj e je -> ESim st0 t sg sj e je.
Proof.
  unfold ESim. intros. destruct (eval sg e); auto. destruct H0 as [Hv [sj' [H1 H2]]]. split; auto.
  exists sj'. split; auto. unfold frame in *. auto.
Qed.

Section Expr.
  Variable g : env.
  Variable sg : store val.

  Definition SimAt (e : expr) : Prop := forall t st je st' sj,
    wf_expr g e = Some t -> cexpr st e = (je, st') -> rho_ok st -> Inv g (rho st) sg sj ->
    ESim st t sg sj e je.

  (* after evaluating something compiled at st0 >= st, the invariant still holds for the next operand *)
  Lemma Inv_next : forall st st1 sj sj1, rho_ok st -> st_le st st1 -> rho st1 = rho st ->
    Inv g (rho st) sg sj -> frame st sj sj1 -> Inv g (rho st1) sg sj1.
  Proof.
    intros st st1 sj sj1 Hr Hl He HI Hf. rewrite He. eapply Inv_frame; eauto. apply Hr.
  Qed.

  Lemma sim_var : forall v, SimAt (EVar v).
  Proof.
    intros v t st je st' sj Hwf Hc Hr HI. cbn [wf_expr cexpr] in *. inversion Hc; subst; clear Hc.
    apply env_get_In in Hwf. destruct HI as [_ HI]. destruct (HI v t Hwf) as [a [n [H1 [H2 [H3 H4]]]]].
    unfold ESim. cbn [eval]. rewrite H1. split; auto. exists sj. split; [|apply frame_refl].
    cbn [jeval]. unfold js_name. rewrite H3, H4. reflexivity.
  Qed.

  Lemma ESim_val : forall st t sj e je, ESim st t sg sj e je ->
    (eval sg e = EPanic /\ jeval sj je = JThrow) \/
    exists v sj1, eval sg e = EV v /\ val_ok t v /\ jeval sj je = JOk (inj v) sj1 /\ frame st sj sj1.
  Proof.
    unfold ESim. intros st t sj e je H. destruct (eval sg e); try contradiction.
    - right. destruct H as [Hv [sj' [H1 H2]]]. exists v, sj'. auto.
    - left. auto.
  Qed.

  Lemma sim_two : forall a b ta tb st0 ja st1 jb st2 sj,
    SimAt a -> SimAt b -> wf_expr g a = Some ta -> wf_expr g b = Some tb ->
    cexpr st0 a = (ja, st1) -> cexpr st1 b = (jb, st2) -> rho_ok st0 -> Inv g (rho st0) sg sj ->
    (eval sg a = EPanic /\ jeval sj ja = JThrow) \/
    exists va sj1, eval sg a = EV va /\ val_ok ta va /\ jeval sj ja = JOk (inj va) sj1 /\ frame st0 sj sj1 /\
      ((eval sg b = EPanic /\ jeval sj1 jb = JThrow) \/
       exists vb sj2, eval sg b = EV vb /\ val_ok tb vb /\ jeval sj1 jb = JOk (inj vb) sj2 /\
                      frame st1 sj1 sj2 /\ frame st0 sj sj2).
  Proof.
    intros a b ta tb st0 ja st1 jb st2 sj IHa IHb Wa Wb Ca Cb Hr HI.
    destruct (cexpr_mono _ _ _ _ Ca) as [L1 R1].
    destruct (ESim_val _ _ _ _ _ (IHa _ _ _ _ _ Wa Ca Hr HI)) as [[E J] | [va [sj1 [E [V [J F]]]]]].
    - left. auto.
    - right. exists va, sj1. repeat split; auto.
      assert (Hr1 : rho_ok st1) by (apply (rho_ok_mono st0); auto).
      assert (HI1 : Inv g (rho st1) sg sj1) by (apply (Inv_next st0 st1 sj sj1); auto).
      destruct (ESim_val _ _ _ _ _ (IHb _ _ _ _ _ Wb Cb Hr1 HI1)) as [[E2 J2] | [vb [sj2 [E2 [V2 [J2 F2]]]]]].
      + left. auto.
      + right. exists vb, sj2. repeat split; auto. eapply frame_trans; eauto.
  Qed.
End Expr.
