(* C10 — lemmas: the run-time $init recursion ([run_init], marks a package BEFORE its
   imports) produces, on every closed acyclic import graph, exactly the concatenation of the
   packages' own initialisation sequences in the order computed by [collect] (which marks
   AFTER the imports) on the graph with imports sorted by path. *)
From Coq Require Import List NArith Arith Bool Lia Permutation.
From Verif Require Import Model.C10_Order Proofs.C10_Order Proofs.C10_Deps.
Import ListNotations.

Lemma lookup_pkg_graph : forall prog p,
  lookup (pkg_graph prog) p = option_map (fun pk => sort_paths (pk_imports pk)) (lookup (pkg_table prog) p).
Proof.
  induction prog as [|a r IH]; simpl; intro p; auto.
  destruct (str_eqb p (pk_path a)); auto.
Qed.

Lemma lookup_pkg_table_path : forall prog p pk, lookup (pkg_table prog) p = Some pk -> pk_path pk = p.
Proof.
  induction prog as [|a r IH]; simpl; intros p pk H; try discriminate.
  destruct (str_eqb p (pk_path a)) eqn:E.
  - inversion H; subst. apply str_eqb_eq in E. symmetry. exact E.
  - apply IH. exact H.
Qed.

Lemma app_self_nil : forall (l e : list str), l = l ++ e -> e = [].
Proof.
  intros l e H. apply (f_equal (@length str)) in H. rewrite app_length in H.
  destruct e; auto. simpl in H. lia.
Qed.

Section Sim.
  Variable prog : program.
  Variable main : str.
  Variable rank : str -> nat.
  Let G := pkg_graph prog.

  (* the package's own initialisation sequence *)
  Definition own (p : str) : list event :=
    match lookup (pkg_table prog) p with Some pk => own_events main pk | None => [] end.
  Definition evs (l : list str) : list event := flat_map own l.

  Lemma evs_app : forall a c, evs (a ++ c) = evs a ++ evs c.
  Proof. intros. unfold evs. apply flat_map_app. Qed.

  Definition same_set (done deps stk : list str) : Prop := forall x, In x done <-> In x deps \/ In x stk.

  Lemma fold_sim : forall f roots stk,
    (forall q deps ext done tr, In q roots -> same_set done deps stk ->
        collect f G q deps = Some (deps ++ ext) ->
        exists done', run_init f prog main q (done, tr) = Some (done', tr ++ evs ext) /\
                      same_set done' (deps ++ ext) stk) ->
    forall deps ext done tr, same_set done deps stk ->
      fold_opt (collect f G) roots deps = Some (deps ++ ext) ->
      exists done', fold_opt (run_init f prog main) roots (done, tr) = Some (done', tr ++ evs ext) /\
                    same_set done' (deps ++ ext) stk.
  Proof.
    induction roots as [|a r IH]; intros stk Hq deps ext done tr HS H; simpl in H.
    - inversion H as [H1]. apply app_self_nil in H1. subst ext.
      exists done. simpl. rewrite !app_nil_r. split; auto.
    - destruct (collect f G a deps) as [d1|] eqn:E1; try discriminate.
      destruct (collect_extends _ _ _ _ _ E1) as [e1 X]. subst d1.
      assert (Hext : exists e2, deps ++ ext = (deps ++ e1) ++ e2).
      { eapply fold_opt_extends; [| exact H]. intros q d0 d1 _ Hc. eapply collect_extends. exact Hc. }
      destruct Hext as [e2 X]. rewrite <- app_assoc in X. apply app_inv_head in X. subst ext.
      destruct (Hq a deps e1 done tr (or_introl eq_refl) HS E1) as [done1 [R1 S1]].
      rewrite app_assoc in H.
      assert (Hq' : forall q deps ext done tr, In q r -> same_set done deps stk ->
                collect f G q deps = Some (deps ++ ext) ->
                exists done', run_init f prog main q (done, tr) = Some (done', tr ++ evs ext) /\
                              same_set done' (deps ++ ext) stk).
      { intros q d0 e0 dn0 tr0 Hin. apply Hq. right. exact Hin. }
      destruct (IH stk Hq' (deps ++ e1) e2 done1 (tr ++ evs e1) S1 H) as [done2 [R2 S2]].
      exists done2. simpl. rewrite R1. rewrite R2. rewrite evs_app. rewrite !app_assoc.
      split; auto.
  Qed.

  Hypothesis Hrk : ranked G rank.

  Lemma run_init_sim : forall fuel p deps ext stk done tr,
    (forall x, In x stk -> rank p < rank x) -> same_set done deps stk ->
    collect fuel G p deps = Some (deps ++ ext) ->
    exists done', run_init fuel prog main p (done, tr) = Some (done', tr ++ evs ext) /\
                  same_set done' (deps ++ ext) stk.
  Proof.
    induction fuel as [|f IH]; intros p deps ext stk done tr Hst HS H.
    - simpl in H. destruct (mem p deps) eqn:M; try discriminate.
      inversion H as [H1]. apply app_self_nil in H1. subst ext.
      assert (Md : mem p done = true). { apply mem_In. apply HS. left. apply mem_In. exact M. }
      exists done. cbn [run_init fst snd]. rewrite Md. simpl. rewrite !app_nil_r. split; auto.
    - simpl in H. destruct (mem p deps) eqn:M.
      + inversion H as [H1]. apply app_self_nil in H1. subst ext.
        assert (Md : mem p done = true). { apply mem_In. apply HS. left. apply mem_In. exact M. }
        exists done. cbn [run_init fst snd]. rewrite Md. simpl. rewrite !app_nil_r. split; auto.
      + assert (Md : mem p done = false).
        { apply mem_not_In. intro Hd. apply HS in Hd. destruct Hd as [Hd | Hd].
          - apply mem_In in Hd. congruence.
          - apply Hst in Hd. lia. }
        destruct (lookup G p) as [imps|] eqn:L; try discriminate.
        destruct (fold_opt (collect f G) imps deps) as [d|] eqn:F; try discriminate.
        inversion H as [H1]. clear H.
        assert (Hd : exists e, d = deps ++ e).
        { eapply fold_opt_extends; [| exact F]. intros q d0 d1 _ Hc. eapply collect_extends. exact Hc. }
        destruct Hd as [e X]. subst d.
        rewrite <- app_assoc in H1. apply app_inv_head in H1. subst ext.
        unfold G in L. rewrite lookup_pkg_graph in L.
        destruct (lookup (pkg_table prog) p) as [pk|] eqn:T; simpl in L; try discriminate.
        inversion L as [L1]. clear L.
        assert (HS' : same_set (p :: done) deps (p :: stk)).
        { intro x. specialize (HS x). simpl. tauto. }
        assert (Hq : forall q deps ext done tr, In q imps -> same_set done deps (p :: stk) ->
                  collect f G q deps = Some (deps ++ ext) ->
                  exists done', run_init f prog main q (done, tr) = Some (done', tr ++ evs ext) /\
                                same_set done' (deps ++ ext) (p :: stk)).
        { intros q d0 e0 dn0 tr0 Hin HS0 Hc. apply IH; auto.
          assert (He : edge G p q).
          { exists imps. split; auto. unfold G. rewrite lookup_pkg_graph, T. simpl. rewrite L1. reflexivity. }
          apply Hrk in He.
          intros x [Hx | Hx]. subst x. exact He. apply Hst in Hx. lia. }
        destruct (fold_sim f imps (p :: stk) Hq deps e (p :: done) tr HS' F) as [done1 [R1 S1]].
        exists done1. cbn [run_init fst snd]. rewrite Md, T. rewrite L1. rewrite R1. cbn [fst snd].
        split.
        * assert (Hown : evs [p] = own_events main pk).
          { unfold evs. simpl. unfold own. rewrite T. apply app_nil_r. }
          rewrite evs_app, Hown, app_assoc. reflexivity.
        * intro x. specialize (S1 x). rewrite !in_app_iff. rewrite in_app_iff in S1.
          simpl in *. tauto.
  Qed.

  Hypothesis Hcl : closed G.

  Lemma reach_edge_into : forall a x, reach G a x -> a = x \/ exists p, edge G p x.
  Proof.
    intros a x H. induction H as [p | p q r He _ IH]; auto.
    right. destruct IH as [IH | IH]; auto. subst. exists p. exact He.
  Qed.

  Theorem run_program_spec :
    (exists i, lookup G RUNTIME = Some i) -> (exists i, lookup G main = Some i) ->
    exists order, run_program prog main = Some (evs order) /\ topo G order /\
      (forall x, In x order <-> reach G RUNTIME x \/ reach G main x).
  Proof.
    intros HR HM.
    assert (Hroots : forall q, In q [RUNTIME; main] -> exists imps, lookup G q = Some imps).
    { intros q [Hq | [Hq | []]]; subst; auto. }
    assert (Hlen : length G <= S (length prog)).
    { unfold G, pkg_graph. rewrite map_length. lia. }
    destruct (collect_roots_spec G rank [RUNTIME; main] (S (length prog)) Hcl Hrk Hroots Hlen) as [l [E [T Hiff]]].
    assert (Hq : forall q deps ext done tr, In q [RUNTIME; main] -> same_set done deps [] ->
              collect (S (length prog)) G q deps = Some (deps ++ ext) ->
              exists done', run_init (S (length prog)) prog main q (done, tr) = Some (done', tr ++ evs ext) /\
                            same_set done' (deps ++ ext) []).
    { intros q d0 e0 dn0 tr0 _ HS0 Hc. apply run_init_sim; auto. intros x []. }
    assert (HS0 : same_set [] [] []). { intro x. simpl. tauto. }
    destruct (fold_sim (S (length prog)) [RUNTIME; main] [] Hq [] l [] [] HS0 E) as [done' [R _]].
    exists l. unfold run_program. rewrite R. simpl. split; [reflexivity | split; [exact T |]].
    intro x. rewrite Hiff. split.
    - intros [q [[Hq1 | [Hq1 | []]] Hr]]; subst; auto.
    - intros [Hr | Hr]; [exists RUNTIME | exists main]; split; auto; simpl; auto.
  Qed.

  (* nobody imports the main package: it is initialised last *)
  Theorem run_program_main_last :
    (exists i, lookup G RUNTIME = Some i) -> (exists i, lookup G main = Some i) ->
    (forall p, ~ edge G p main) -> main <> RUNTIME ->
    exists l, run_program prog main = Some (evs l ++ own main) /\ topo G (l ++ [main]) /\
      (forall x, In x (l ++ [main]) <-> reach G RUNTIME x \/ reach G main x).
  Proof.
    intros HR HM Hno Hne.
    destruct (run_program_spec HR HM) as [order [E [T Hiff]]].
    assert (Hin : In main order) by (apply Hiff; right; apply reach_refl).
    (* replay the two calls of collect to see that main comes last *)
    assert (Hlen : length G <= S (length prog) + @length str []).
    { unfold G, pkg_graph. rewrite map_length. simpl. lia. }
    destruct (collect_spec G rank Hcl Hrk (S (length prog)) RUNTIME [] [] (topo_nil G) HR (NoDup_nil _)
                (fun x (H : In x []) => match H with end) (fun x (H : In x []) => match H with end) Hlen)
      as [e1 [C1 [T1 [_ [R1 _]]]]].
    rewrite app_nil_l in C1, T1.
    destruct (collect_spec G rank Hcl Hrk (S (length prog)) main e1 [] T1 HM (NoDup_nil _)
                (fun x (H : In x []) => match H with end) (fun x (H : In x []) => match H with end) Hlen)
      as [e2 [C2 [T2 [_ [_ Hlast]]]]].
    assert (Hnot : ~ In main e1).
    { intro H1. apply R1 in H1. apply reach_edge_into in H1. destruct H1 as [H1 | [p H1]].
      - congruence.
      - apply (Hno p). exact H1. }
    destruct Hlast as [[H1 _] | [_ [e X]]]; [contradiction |]. subst e2.
    (* both computations are the same fold *)
    assert (Hfold : fold_opt (collect (S (length prog)) G) [RUNTIME; main] [] = Some ((e1 ++ e) ++ [main])).
    { cbn [fold_opt]. rewrite C1. rewrite C2. rewrite app_assoc. reflexivity. }
    assert (Hq : forall q deps ext done tr, In q [RUNTIME; main] -> same_set done deps [] ->
              collect (S (length prog)) G q deps = Some (deps ++ ext) ->
              exists done', run_init (S (length prog)) prog main q (done, tr) = Some (done', tr ++ evs ext) /\
                            same_set done' (deps ++ ext) []).
    { intros q d0 e0 dn0 tr0 _ HS0 Hc. apply run_init_sim; auto. intros x []. }
    assert (HS0 : same_set [] [] []). { intro x. simpl. tauto. }
    destruct (fold_sim (S (length prog)) [RUNTIME; main] [] Hq [] ((e1 ++ e) ++ [main]) [] [] HS0 Hfold) as [done' [R _]].
    exists (e1 ++ e). unfold run_program. rewrite R. simpl.
    rewrite evs_app. unfold evs at 2. simpl. rewrite app_nil_r.
    split; [reflexivity |].
    rewrite app_assoc in T2. split; [exact T2 |].
    (* membership: same list as [order] *)
    unfold run_program in E. rewrite R in E. simpl in E.
    destruct (collect_roots_spec G rank [RUNTIME; main] (S (length prog)) Hcl Hrk) as [l' [E' [_ Hiff']]].
    { intros q [Hq1 | [Hq1 | []]]; subst; auto. }
    { unfold G, pkg_graph. rewrite map_length. lia. }
    rewrite Hfold in E'. inversion E'; subst l'.
    intro x. rewrite Hiff'. split.
    - intros [q [[Hq1 | [Hq1 | []]] Hr]]; subst; auto.
    - intros [Hr | Hr]; [exists RUNTIME | exists main]; split; auto; simpl; auto.
  Qed.
End Sim.

(* ---- corollaries on the trace ---------------------------------------------- *)

Theorem main_main_last : forall prog main rank pk,
  closed (pkg_graph prog) -> ranked (pkg_graph prog) rank ->
  (exists i, lookup (pkg_graph prog) RUNTIME = Some i) ->
  lookup (pkg_table prog) main = Some pk -> pk_is_main pk = true ->
  (forall p, ~ edge (pkg_graph prog) p main) -> main <> RUNTIME ->
  exists t, run_program prog main = Some (t ++ [EMain main]).
Proof.
  intros prog main rank pk Hcl Hrk HR HT Hm Hno Hne.
  assert (HM : exists i, lookup (pkg_graph prog) main = Some i).
  { rewrite lookup_pkg_graph, HT. simpl. eexists; reflexivity. }
  destruct (run_program_main_last prog main rank Hrk Hcl HR HM Hno Hne) as [l [E _]].
  rewrite E. unfold own. rewrite HT. unfold own_events, main_events.
  rewrite Hm. rewrite (lookup_pkg_table_path _ _ _ HT). rewrite str_eqb_refl. simpl.
  eexists. rewrite !app_assoc. reflexivity.
Qed.

Theorem init_after_imports : forall prog main rank,
  closed (pkg_graph prog) -> ranked (pkg_graph prog) rank ->
  (exists i, lookup (pkg_graph prog) RUNTIME = Some i) ->
  (exists i, lookup (pkg_graph prog) main = Some i) ->
  exists order, run_program prog main = Some (evs prog main order) /\ NoDup order /\
    forall p q, In p order -> edge (pkg_graph prog) p q ->
      exists t1 t2 t3, evs prog main order = t1 ++ own prog main q ++ t2 ++ own prog main p ++ t3.
Proof.
  intros prog main rank Hcl Hrk HR HM.
  destruct (run_program_spec prog main rank Hrk Hcl HR HM) as [order [E [[Tn [_ To]] _]]].
  exists order. split; [exact E | split; [exact Tn |]].
  intros p q Hp He. destruct (To p q Hp He) as [l1 [l2 [X Hq]]].
  apply in_split in Hq. destruct Hq as [a [c Hq]]. subst l1. subst order.
  exists (evs prog main a), (evs prog main c), (evs prog main l2).
  rewrite evs_app. rewrite evs_app.
  change (q :: c) with ([q] ++ c). rewrite evs_app.
  change (p :: l2) with ([p] ++ l2). rewrite evs_app.
  unfold evs at 2 5. simpl. rewrite !app_nil_r. rewrite <- !app_assoc. reflexivity.
Qed.

(* the package's own sequence: zero values, then InitOrder as given by go/types, then the
   init functions file by file in the order of Sources.Sort, then main.main *)
Theorem package_sequence : forall main pk,
  own_events main pk =
    map (EZero (pk_path pk)) (pk_zero pk) ++
    flat_map (item_events (pk_path pk)) (map (fun xb => (IVar (fst xb), snd xb)) (pk_initorder pk)) ++
    flat_map (item_events (pk_path pk))
      (flat_map (fun f => map (fun kb => (IFn (fst f) (fst kb), snd kb)) (snd f)) (sort_files (pk_files pk))) ++
    main_events main pk.
Proof.
  intros main pk. unfold own_events, own_items. rewrite flat_map_app. rewrite <- !app_assoc. reflexivity.
Qed.
