(* C08 phase 4 — unbounded stack-shape invariant of ImplPanic (non-suspending machine, every program,
   every fuel, every variant whose $callDeferred re-queues a panic only when the goroutine goes to sleep,
   which includes the current code V_FULL) and its consequence: every pushed deferred call has run
   exactly once when its activation is left (normal return, panic, Goexit). *)
From Coq Require Import List ZArith Bool Arith Lia.
From Verif Require Import Model.C08_Panic Proofs.C08_Panic.
Import ListNotations.

Definition suffix (l1 l2 : list nat) : Prop := exists pre, l2 = pre ++ l1.

Lemma suffix_refl : forall l, suffix l l.
Proof. intro l; exists []; reflexivity. Qed.
Lemma suffix_trans : forall a b c, suffix a b -> suffix b c -> suffix a c.
Proof. intros a b c [p1 H1] [p2 H2]. exists (p2 ++ p1). subst. now rewrite app_assoc. Qed.
Lemma suffix_cons : forall x l a, suffix a l -> suffix a (x :: l).
Proof. intros x l a [p H]. exists (x :: p). subst. reflexivity. Qed.
Lemma suffix_tl : forall l, suffix (tl l) l.
Proof. intros [|x l]; [apply suffix_refl|]. exists [x]; reflexivity. Qed.
Lemma suffix_in : forall a l x, suffix a l -> In x a -> In x l.
Proof. intros a l x [p H] Hi. subst. apply in_or_app. now right. Qed.
Lemma suffix_nodup : forall a l, suffix a l -> NoDup l -> NoDup a.
Proof. intros a l [p H] Hn. subst. induction p; [assumption|]. inversion Hn; auto. Qed.
Lemma suffix_nil_inv : forall a, suffix a [] -> a = [].
Proof. intros a [p H]. symmetry in H. apply app_eq_nil in H. tauto. Qed.
Lemma suffix_cons_inv : forall a x l, suffix a (x :: l) -> a = x :: l \/ suffix a l.
Proof.
  intros a x l [p H]. destruct p as [|y p]; cbn in H.
  - left. congruence.
  - right. inversion H; subst. exists p. reflexivity.
Qed.
Lemma suffix_top : forall a x l, suffix a (x :: l) -> NoDup (x :: l) -> In x a -> a = x :: l.
Proof.
  intros a x l Hs Hn Hi. destruct (suffix_cons_inv _ _ _ Hs) as [|Hs']; [assumption|].
  exfalso. inversion Hn; subst. apply H1. eapply suffix_in; eassumption.
Qed.

(* variants covered: the finally block of $callDeferred re-queues only when the goroutine sleeps *)
Definition ao (vr : variant) : Prop := v_pushback_asleep_only vr = true.

Record Inv0 (s : jstate) : Prop := mkInv0 {
  i_nd : NoDup (j_deferStack s);
  i_lt : forall id, In id (j_deferStack s) -> id < j_next s;
  i_em : forall id, ~ In id (j_deferStack s) -> list_get (j_lists s) id = [] }.
(* at every point where compiled Go code runs: no queued panic *)
Definition Inv (s : jstate) : Prop := Inv0 s /\ j_panicStack s = [].

Definition same0 (s s1 : jstate) : Prop :=
  j_deferStack s1 = j_deferStack s /\ j_lists s1 = j_lists s /\ j_next s <= j_next s1 /\ j_offset s1 = j_offset s.
Definition same (s s1 : jstate) : Prop := same0 s s1 /\ j_panicStack s1 = j_panicStack s.

Lemma same0_Inv0 : forall s s1, same0 s s1 -> Inv0 s -> Inv0 s1.
Proof.
  intros s s1 (Hd & Hl & Hn & _) [A B C]. split; rewrite ?Hd, ?Hl; auto.
  intros id Hi. specialize (B id Hi). lia.
Qed.
Lemma same_Inv : forall s s1, same s s1 -> Inv s -> Inv s1.
Proof. intros s s1 [H0 Hp] [HI Hq]. split; [eapply same0_Inv0; eassumption | congruence]. Qed.

(* result relation for exec / fun *)
Definition nothrow (o : jout) : Prop := forall e, o <> JThrow e.
Definition R (s : jstate) (o : jout) (s' : jstate) : Prop :=
  Inv s' /\ j_offset s' = j_offset s /\ suffix (j_deferStack s') (j_deferStack s) /\
  (nothrow o -> j_deferStack s' = j_deferStack s).

Lemma R_shift : forall s s1 o s', same s s1 -> R s1 o s' -> R s o s'.
Proof.
  intros s s1 o s' ((Hd & _ & _ & Ho) & _) (A & B & C & D). unfold R. rewrite <- Hd, <- Ho. auto.
Qed.
Lemma R_trans : forall s o1 s1 o s', R s o1 s1 -> nothrow o1 -> R s1 o s' -> R s o s'.
Proof.
  intros s o1 s1 o s' (A & B & C & D) Hn (A' & B' & C' & D'). specialize (D Hn).
  unfold R. rewrite <- D, <- B. auto.
Qed.
Lemma R_throw : forall s o s' e, R s o s' -> R s (JThrow e) s'.
Proof. intros s o s' e (A & B & C & D). split; [|split; [|split]]; auto. intro H. exfalso. eapply H. reflexivity. Qed.
Lemma R_weaken : forall s o o' s', R s o s' -> nothrow o -> R s o' s'.
Proof. intros s o o' s' (A & B & C & D) Hn. split; [|split; [|split]]; auto. Qed.
Lemma R_refl : forall s o, Inv s -> R s o s.
Proof. intros. split; [|split; [|split]]; auto using suffix_refl. Qed.
Lemma nothrow_next : nothrow JNext. Proof. intros e H; discriminate. Qed.
Lemma nothrow_ret : nothrow JReturn. Proof. intros e H; discriminate. Qed.
#[global] Hint Resolve nothrow_next nothrow_ret : c08.

Definition top_is (dl : option nat) (s : jstate) : Prop :=
  forall id, dl = Some id -> exists ds0, j_deferStack s = id :: ds0.

Definition Q_exec (fuel : nat) : Prop :=
  forall vr p d cell dl ss s out s', ao vr -> Inv s -> top_is dl s ->
    impl_exec vr fuel p d cell dl ss s = Some (out, s') -> R s out s'.
Definition Q_fun (fuel : nat) : Prop :=
  forall vr p d cell body s out s', ao vr -> Inv s ->
    impl_fun vr fuel p d cell body s = Some (out, s') -> R s out s'.

(* $callDeferred: called from $panic (one queued panic, deferred = null) or from a function epilogue
   (no queued panic, its own $deferred array, which is the top of the deferStack or no longer in it) *)
Definition cd_pre (deferred : option nat) (jsErr : option pval) (fromPanic : bool) (s : jstate) : Prop :=
  Inv0 s /\
  if fromPanic then deferred = None /\ jsErr = None /\ exists v, j_panicStack s = [v]
  else j_panicStack s = [] /\ exists id, deferred = Some id /\
       (In id (j_deferStack s) -> exists ds0, j_deferStack s = id :: ds0).
Definition cd_post (deferred : option nat) (fromPanic : bool) (s : jstate) (out : jout) (s' : jstate) : Prop :=
  Inv s' /\ j_offset s' = j_offset s /\ suffix (j_deferStack s') (j_deferStack s) /\
  (fromPanic = true -> exists e, out = JThrow e) /\
  (fromPanic = false -> forall id, deferred = Some id ->
     ~ In id (j_deferStack s') /\
     (nothrow out -> exists ds0, j_deferStack s = id :: ds0 /\ j_deferStack s' = ds0)).
Definition Q_cd (fuel : nat) : Prop :=
  forall vr p d deferred jsErr fromPanic s out s', ao vr -> cd_pre deferred jsErr fromPanic s ->
    impl_cd vr fuel p d deferred jsErr fromPanic s = Some (out, s') -> cd_post deferred fromPanic s out s'.

Definition loop_pre (cur : option nat) (fromPanic : bool) (local : option pval) (s : jstate) : Prop :=
  Inv s /\ top_is cur s /\ (if fromPanic then exists v, local = Some v else local = None /\ exists id, cur = Some id).
Definition loop_post (cur : option nat) (fromPanic : bool) (s : jstate) (res : lres) (s' : jstate) : Prop :=
  Inv s' /\ j_offset s' = j_offset s /\ suffix (j_deferStack s') (j_deferStack s) /\
  match res with
  | LRet => fromPanic = false /\ forall id, cur = Some id -> ~ In id (j_deferStack s') /\ j_deferStack s' = tl (j_deferStack s)
  | LThrow e c => (fromPanic = false -> forall id, cur = Some id -> c = Some id) /\
                  exists id', c = Some id' /\ (In id' (j_deferStack s') -> exists ds0, j_deferStack s' = id' :: ds0)
  | LThrowTop e => fromPanic = true
  end.
Definition Q_loop (fuel : nat) : Prop :=
  forall vr p d cur fromPanic local s res s', ao vr -> loop_pre cur fromPanic local s ->
    impl_loop vr fuel p d cur fromPanic local s = Some (res, s') -> loop_post cur fromPanic s res s'.

Ltac same_tac := repeat split; try reflexivity; cbn; lia.

Lemma recover_same : forall d s v s1, js_recover d s = (v, s1) -> same s s1.
Proof.
  unfold js_recover; intros d s v s1 E.
  destruct (j_psd s); [destruct (negb _)|]; inversion E; subst; same_tac.
Qed.
Lemma fresh2_same : forall s c s1, j_fresh2 s = (c, s1) -> same s s1.
Proof. unfold j_fresh2, j_fresh; intros s c s1 E. cbn in E. inversion E; subst. same_tac. Qed.

Lemma top_same : forall dl s s1, same s s1 -> top_is dl s -> top_is dl s1.
Proof. intros dl s s1 ((Hd & _) & _) H id E. rewrite Hd. auto. Qed.

Lemma Inv_push : forall id c s, Inv s -> (exists ds0, j_deferStack s = id :: ds0) -> Inv (j_push_deferred id c s).
Proof.
  intros id c s [[A B C] Hp] [ds0 Hd]. split; [split|]; cbn; auto.
  intros j Hj. rewrite Nat.eqb_sym. destruct (Nat.eqb_spec id j) as [->|]; [|auto].
  exfalso. apply Hj. rewrite Hd. now left.
Qed.

Lemma mem_nat_true : forall i l, mem_nat i l = true -> In i l.
Proof.
  unfold mem_nat; intros i l H. apply existsb_exists in H. destruct H as [x [Hx He]].
  apply Nat.eqb_eq in He. subst. exact Hx.
Qed.
Lemma mem_nat_false : forall i l, mem_nat i l = false -> ~ In i l.
Proof.
  unfold mem_nat; intros i l H Hi. assert (existsb (Nat.eqb i) l = true); [|congruence].
  apply existsb_exists. exists i. split; [exact Hi|apply Nat.eqb_refl].
Qed.

Lemma R_shift0 : forall s s1 o s', j_deferStack s1 = j_deferStack s -> j_offset s1 = j_offset s -> R s1 o s' -> R s o s'.
Proof. intros s s1 o s' Hd Ho (A & B & C & D). unfold R. rewrite <- Hd, <- Ho. auto. Qed.

Lemma Inv_enter : forall s s0, Inv s ->
  j_deferStack s0 = j_next s :: j_deferStack s -> j_next s0 = S (j_next s) -> j_lists s0 = j_lists s ->
  j_panicStack s0 = j_panicStack s -> Inv s0.
Proof.
  intros s s0 [[A B C] Hp] Hd Hn Hl Hq. split; [split|]; rewrite ?Hd, ?Hn, ?Hl.
  - constructor; [intro Hi; apply B in Hi; lia | exact A].
  - intros id [<-|Hi]; [lia | apply B in Hi; lia].
  - intros id Hx. apply C. intro. apply Hx. now right.
  - congruence.
Qed.

Lemma Inv_pop_frame : forall s id ds0, Inv s -> j_deferStack s = id :: ds0 -> list_get (j_lists s) id = [] ->
  Inv (j_set_ds (tl (j_deferStack s)) s).
Proof.
  intros s id ds0 [[A B C] Hp] Hd Hl. split; [split|]; cbn; rewrite ?Hd; cbn; auto.
  - rewrite Hd in A. now inversion A.
  - intros j Hj. apply B. rewrite Hd. now right.
  - intros j Hj. destruct (Nat.eq_dec j id) as [->|Hne]; [exact Hl|].
    apply C. rewrite Hd. intros [E|E]; [congruence|contradiction].
Qed.

Lemma Inv_pop_call : forall s id c s1, Inv s -> In id (j_deferStack s) -> j_pop_deferred id s = Some (c, s1) ->
  Inv s1 /\ j_deferStack s1 = j_deferStack s /\ j_offset s1 = j_offset s.
Proof.
  unfold j_pop_deferred; intros s id c s1 [[A B C] Hp] Hi H.
  destruct (list_get (j_lists s) id) as [|c0 l] eqn:E; [discriminate|]. inversion H; subst; clear H.
  split; [|split; reflexivity]. split; [split|]; cbn; auto.
  intros j Hj. rewrite Nat.eqb_sym. destruct (Nat.eqb_spec id j) as [->|]; [contradiction|auto].
Qed.
Lemma pop_none : forall s id, j_pop_deferred id s = None -> list_get (j_lists s) id = [].
Proof. unfold j_pop_deferred; intros s id H. destruct (list_get (j_lists s) id); [reflexivity|discriminate]. Qed.
