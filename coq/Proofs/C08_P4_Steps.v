(* C08 phase 4 — induction steps for the stack-shape invariant (see C08_P4_Once.v) *)
From Coq Require Import List ZArith Bool Arith Lia.
From Verif Require Import Model.C08_Panic Proofs.C08_Panic Proofs.C08_P4_Once.
Import ListNotations.

Lemma same_refl : forall s, same s s.
Proof. intro s. same_tac. Qed.
Lemma same_trans : forall a b c, same a b -> same b c -> same a c.
Proof.
  intros a b c ((A1 & A2 & A3 & A4) & A5) ((B1 & B2 & B3 & B4) & B5).
  repeat split; try congruence; lia.
Qed.

Lemma R_push : forall id c s, Inv s -> (exists ds0, j_deferStack s = id :: ds0) -> R s JNext (j_push_deferred id c s).
Proof.
  intros. split; [apply Inv_push; assumption|]. split; [reflexivity|]. split; [apply suffix_refl|]. reflexivity.
Qed.

Lemma exec_cont : forall fuel, Q_exec fuel ->
  forall vr p d cell dl rest s o1 s1 s1' out s', ao vr ->
    R s o1 s1 -> nothrow o1 -> top_is dl s -> same s1 s1' ->
    impl_exec vr fuel p d cell dl rest s1' = Some (out, s') -> R s out s'.
Proof.
  intros fuel IHe vr p d cell dl rest s o1 s1 s1' out s' Hao HR Hn Ht Hs H.
  eapply R_trans; [exact HR | exact Hn |]. eapply R_shift; [exact Hs|].
  destruct HR as (A & B & C & D). specialize (D Hn).
  eapply IHe; [exact Hao | eapply same_Inv; eassumption | | exact H].
  intros id E. destruct (Ht id E) as [ds0 Hd]. exists ds0.
  destruct Hs as ((Hd' & _) & _). congruence.
Qed.

Ltac crack' :=
  repeat match goal with
  | H : Some _ = Some _ |- _ => inversion H; subst; clear H
  | H : None = Some _ |- _ => discriminate H
  | H : (_, _) = (_, _) |- _ => inversion H; subst; clear H
  | H : context [match ?x with _ => _ end] |- _ =>
      match type of H with _ = Some _ => destruct x eqn:? end
  end.

Lemma step_exec : forall fuel, Q_exec fuel -> Q_fun fuel -> Q_cd fuel -> Q_exec (S fuel).
Proof.
  intros fuel IHe IHf IHc. red. intros vr p d cell dl ss s out s' Hao HI Ht H.
  cbn [impl_exec] in H.
  destruct ss as [|st rest]; [inversion H; subst; apply R_refl; assumption|].
  pose proof (R_refl s JNext HI) as HR0.
  destruct st.
  - (* STrace *) eapply exec_cont; [exact IHe|exact Hao|exact HR0|apply nothrow_next|exact Ht| |exact H]; same_tac.
  - crack'. eapply exec_cont; [exact IHe|exact Hao|exact HR0|apply nothrow_next|exact Ht| |exact H]; same_tac.
  - crack'. eapply exec_cont; [exact IHe|exact Hao|exact HR0|apply nothrow_next|exact Ht| |exact H]; same_tac.
  - crack'. eapply exec_cont; [exact IHe|exact Hao|exact HR0|apply nothrow_next|exact Ht| |exact H]; same_tac.
  - (* SRecover *) crack'.
    match goal with E : js_recover _ _ = _ |- _ => pose proof (recover_same _ _ _ _ E) as Hs1 end.
    eapply exec_cont; [exact IHe|exact Hao|exact HR0|apply nothrow_next|exact Ht| |exact H].
    eapply same_trans; [exact Hs1|same_tac].
  - (* SCall *) crack'.
    all: match goal with E : j_fresh2 _ = _ |- _ => pose proof (fresh2_same _ _ _ E) as Hs1 end.
    all: match goal with E : impl_fun _ _ _ _ _ _ (j_setcell ?c ?v ?s1) = Some (_, ?s2) |- _ =>
           assert (Hs1' : same s (j_setcell c v s1)) by (eapply same_trans; [exact Hs1| same_tac]);
           pose proof (IHf _ _ _ _ _ _ _ _ Hao (same_Inv _ _ Hs1' HI) E) as HR1;
           apply (R_shift _ _ _ _ Hs1') in HR1 end.
    all: try (eapply R_throw; exact HR1).
    all: eapply exec_cont; [exact IHe|exact Hao|exact HR1|auto with c08|exact Ht| |exact H]; same_tac.
  - (* SCallClo *) crack'.
    all: match goal with E : impl_fun _ _ _ _ _ _ _ = Some (_, ?s2) |- _ =>
           pose proof (IHf _ _ _ _ _ _ _ _ Hao HI E) as HR1 end.
    all: try (eapply R_throw; exact HR1).
    all: eapply exec_cont; [exact IHe|exact Hao|exact HR1|auto with c08|exact Ht| |exact H]; same_tac.
  - (* SDefer *) crack'.
    + eapply exec_cont; [exact IHe|exact Hao|apply R_push; [exact HI|apply Ht; reflexivity]|apply nothrow_next|exact Ht|apply same_refl|exact H].
    + eapply exec_cont; [exact IHe|exact Hao|exact HR0|apply nothrow_next|exact Ht|apply same_refl|exact H].
  - (* SDeferClo *) crack'.
    + eapply exec_cont; [exact IHe|exact Hao|apply R_push; [exact HI|apply Ht; reflexivity]|apply nothrow_next|exact Ht|apply same_refl|exact H].
    + eapply exec_cont; [exact IHe|exact Hao|exact HR0|apply nothrow_next|exact Ht|apply same_refl|exact H].
  - (* SPanic *) crack'.
    all: match goal with E : impl_cd _ _ _ _ _ _ _ ?s0 = Some (?o, ?s2) |- _ =>
           assert (Hpre : cd_pre None None true s0) by
             (split; [eapply same0_Inv0; [|apply HI]; same_tac | split; [reflexivity|split; [reflexivity|]]];
              destruct HI as [_ Hps]; cbn; rewrite Hps; eexists; reflexivity);
           pose proof (IHc _ _ _ _ _ _ _ _ _ Hao Hpre E) as (A & B & C & D & _) end.
    all: destruct (D eq_refl) as [e0 He0]; try discriminate He0.
    split; [exact A|]. split; [exact B|]. split; [exact C|]. intro Hn. exfalso. eapply Hn. reflexivity.
  - (* SReturn *) crack'. apply R_refl. exact HI.
  - (* SGoexit *) crack'. eapply R_shift; [|apply R_refl; eapply same_Inv; [|exact HI]]; same_tac.
  - (* SRetR *) crack'. eapply R_shift; [|apply R_refl; eapply same_Inv; [|exact HI]]; same_tac.
  - (* SBlock *) eapply exec_cont; [exact IHe|exact Hao|exact HR0|apply nothrow_next|exact Ht|apply same_refl|exact H].
Qed.
