(* C15 — strings: escaping "\" -> "\\", "$" -> "\$" and joining with "$" is injective for a fixed
   arity (over arbitrary lists of arbitrary strings); decimal printing is injective and free of
   "$" and "\". *)
From Coq Require Import List ZArith NArith Bool Ascii String DecimalString DecimalZ Lia.
From Verif Require Import Model.C15_Keys.
Import ListNotations.

(* ---------------------------------------------------------------- one-pass form of escape *)
Fixpoint esc1 (s : str) : str :=
  match s with
  | [] => []
  | c :: r => if N.eqb c 92 then 92%N :: 92%N :: esc1 r
              else if N.eqb c 36 then 92%N :: 36%N :: esc1 r else c :: esc1 r
  end.

Lemma escape_esc1 : forall s, escape s = esc1 s.
Proof.
  unfold escape, BSL, DOLLAR. induction s as [|c r IH]; [reflexivity|].
  cbn [repl_bsl esc1]. unfold BSL, DOLLAR.
  destruct (N.eqb_spec c 92) as [->|Hb]; cbn [repl_dollar]; unfold BSL, DOLLAR.
  - cbn. now rewrite IH.
  - destruct (N.eqb_spec c 36); now rewrite IH.
Qed.

Definition tail_ok (r : str) : Prop := r = [] \/ exists r', r = 36%N :: r'.

Ltac eqb_cases :=
  repeat match goal with
         | |- context[N.eqb ?x ?y] => destruct (N.eqb_spec x y)
         | H : context[N.eqb ?x ?y] |- _ => destruct (N.eqb_spec x y)
         end.

(* an escaped string followed by end-of-text or by a separator determines the string *)
Lemma esc1_inj_tail : forall a b r r',
  tail_ok r -> tail_ok r' -> esc1 a ++ r = esc1 b ++ r' -> a = b /\ r = r'.
Proof.
  induction a as [|c a IH]; intros b r r' Hr Hr' H.
  - destruct b as [|d b]; [now split|]. exfalso.
    cbn [esc1 app] in H.
    destruct Hr as [->|[r0 ->]]; eqb_cases; subst; cbn in H; congruence.
  - destruct b as [|d b].
    + exfalso. cbn [esc1 app] in H.
      destruct Hr' as [->|[r0 ->]]; eqb_cases; subst; cbn in H; congruence.
    + cbn [esc1] in H.
      eqb_cases; subst; cbn in H; try congruence;
        (injection H as H; try injection H as H; subst; try congruence;
         destruct (IH b r r' Hr Hr' ltac:(assumption)) as [-> ->]; now split).
Qed.

Lemma join_cons : forall x l,
  join (x :: l) = x ++ match l with [] => [] | _ => DOLLAR :: join l end.
Proof. intros x [|y l]; cbn [join]; [now rewrite app_nil_r | reflexivity]. Qed.

(* THE injectivity lemma: for lists of strings of the same length *)
Theorem join_escape_inj : forall l l' : list str,
  List.length l = List.length l' -> join (map escape l) = join (map escape l') -> l = l'.
Proof.
  induction l as [|x l IH]; intros [|y l'] Hlen H; try discriminate; [reflexivity|].
  cbn [map] in H. rewrite !join_cons, !escape_esc1 in H.
  destruct l as [|x2 l]; destruct l' as [|y2 l']; try discriminate.
  - cbn [map] in H. destruct (esc1_inj_tail x y [] [] (or_introl eq_refl) (or_introl eq_refl) H) as [-> _].
    reflexivity.
  - cbn [map] in H. unfold DOLLAR in H.
    match type of H with _ ++ 36%N :: ?A = _ ++ 36%N :: ?B =>
      destruct (esc1_inj_tail x y (36%N :: A) (36%N :: B)) as [-> HT]; [right; eauto | right; eauto | exact H |] end.
    injection HT as HT.
    f_equal. apply IH; [cbn [List.length] in Hlen |- *; lia | exact HT].
Qed.

(* without a fixed arity it is NOT injective: zero strings and one empty string both give "" *)
Lemma join_escape_arity_needed : join (map escape []) = join (map escape [[]]).
Proof. reflexivity. Qed.

(* ---------------------------------------------------------------- plain strings *)
Definition plain (s : str) : Prop := Forall (fun c => c <> DOLLAR /\ c <> BSL) s.

Lemma escape_plain : forall s, plain s -> escape s = s.
Proof.
  intros s H. rewrite escape_esc1. induction H as [|c r [H1 H2] _ IH]; [reflexivity|].
  cbn [esc1]. unfold DOLLAR, BSL in *.
  destruct (N.eqb_spec c 92); [contradiction|]. destruct (N.eqb_spec c 36); [contradiction|].
  now rewrite IH.
Qed.

Lemma plain_app : forall a b, plain a -> plain b -> plain (a ++ b).
Proof. intros. apply Forall_app. now split. Qed.

(* a "$"-free prefix is determined by the text *)
Lemma split_dollar : forall a b x y,
  plain a -> plain b -> a ++ DOLLAR :: x = b ++ DOLLAR :: y -> a = b /\ x = y.
Proof.
  induction a as [|c a IH]; intros b x y Ha Hb H.
  - destruct b as [|d b]; cbn in H; [injection H as H; now split|].
    inversion Hb as [|? ? [Hd _] _]; subst. injection H as H _. congruence.
  - inversion Ha as [|? ? [Hc _] Ha']; subst.
    destruct b as [|d b]; cbn in H.
    + injection H as H _. congruence.
    + inversion Hb as [|? ? _ Hb']; subst. injection H as -> H.
      destruct (IH b x y Ha' Hb' H) as [-> ->]. now split.
Qed.

(* ---------------------------------------------------------------- decimal printing *)
Lemma of_string_inj : forall a b, of_string a = of_string b -> a = b.
Proof.
  unfold of_string. intros a b H.
  rewrite <- (string_of_list_ascii_of_string a), <- (string_of_list_ascii_of_string b). f_equal.
  revert H. generalize (list_ascii_of_string a) (list_ascii_of_string b).
  induction l as [|x l IH]; intros [|y l'] H; try discriminate; [reflexivity|].
  cbn [map] in H. injection H as Hx Hl. f_equal; [|now apply IH].
  rewrite <- (ascii_N_embedding x), <- (ascii_N_embedding y). now f_equal.
Qed.

Theorem dec_inj : forall a b, dec a = dec b -> a = b.
Proof.
  unfold dec. intros a b H. apply of_string_inj in H.
  apply to_int_inj.
  assert (E : NilEmpty.int_of_string (NilEmpty.string_of_int (Z.to_int a)) =
              NilEmpty.int_of_string (NilEmpty.string_of_int (Z.to_int b))) by now rewrite H.
  rewrite !NilEmpty.isi in E. now injection E.
Qed.

Lemma plain_uint : forall d, plain (of_string (NilEmpty.string_of_uint d)).
Proof.
  unfold plain, of_string, DOLLAR, BSL.
  induction d; cbn; constructor; try assumption; split; discriminate.
Qed.

Theorem dec_plain : forall z, plain (dec z).
Proof.
  intros z. unfold dec. destruct (Z.to_int z) as [d|d]; cbn [NilEmpty.string_of_int].
  - apply plain_uint.
  - unfold plain, of_string. cbn. constructor; [split; discriminate|]. apply plain_uint.
Qed.

Lemma plain_of_string_nan : plain (of_string "NaN").
Proof. unfold plain, of_string, DOLLAR, BSL. cbn. repeat constructor; discriminate. Qed.
Lemma plain_of_string_zero : plain (of_string "0").
Proof. unfold plain, of_string, DOLLAR, BSL. cbn. repeat constructor; discriminate. Qed.
Lemma plain_of_string_true : plain (of_string "true").
Proof. unfold plain, of_string, DOLLAR, BSL. cbn. repeat constructor; discriminate. Qed.
Lemma plain_of_string_false : plain (of_string "false").
Proof. unfold plain, of_string, DOLLAR, BSL. cbn. repeat constructor; discriminate. Qed.
