(* C10 — lemmas about the go:linkname directive parser, its validation and GoLinknameSet. *)
From Coq Require Import List NArith Arith Bool Lia.
From Verif Require Import Model.C10_Order Model.C10_Linkname Proofs.C10_Order.
Import ListNotations.
Local Open Scope N_scope.

(* ---- strings.Fields ------------------------------------------------------- *)

Definition nospace (w : str) : Prop := forallb (fun c => negb (is_space c)) w = true.
Definition allspace (w : str) : Prop := forallb is_space w = true.

Lemma fields_go_word : forall w acc s, nospace w -> fields_go acc (w ++ s) = fields_go (acc ++ w) s.
Proof.
  unfold nospace. induction w as [|a w IH]; simpl; intros acc s H.
  - rewrite app_nil_r. reflexivity.
  - apply andb_true_iff in H. destruct H as [H1 H2]. apply negb_true_iff in H1. rewrite H1.
    rewrite IH; auto. rewrite <- app_assoc. reflexivity.
Qed.

Lemma fields_go_skip : forall ws s, allspace ws -> fields_go [] (ws ++ s) = fields_go [] s.
Proof.
  unfold allspace. induction ws as [|a ws IH]; simpl; intros s H; auto.
  apply andb_true_iff in H. destruct H as [H1 H2]. rewrite H1. apply IH. exact H2.
Qed.

Lemma fields_go_sep : forall ws acc s, allspace ws -> ws <> [] -> acc <> [] ->
  fields_go acc (ws ++ s) = acc :: fields_go [] s.
Proof.
  intros ws acc s Ha Hn Hacc. destruct ws as [|a ws]; try contradiction.
  unfold allspace in Ha. simpl in Ha. apply andb_true_iff in Ha. destruct Ha as [H1 H2].
  simpl. rewrite H1. destruct acc as [|x acc]; try contradiction.
  f_equal. apply fields_go_skip. exact H2.
Qed.

Lemma fields_go_tail : forall ws acc, allspace ws -> acc <> [] -> fields_go acc ws = [acc].
Proof.
  intros ws acc Ha Hacc. destruct ws as [|a ws].
  - simpl. destruct acc; try contradiction. reflexivity.
  - rewrite <- (app_nil_r (a :: ws)). rewrite fields_go_sep; auto. discriminate.
Qed.

(* "//go:linkname" *)
Definition KW : str := [47; 47; 103; 111; 58; 108; 105; 110; 107; 110; 97; 109; 101].

Lemma fields_directive : forall ws0 local ws1 ext ws2,
  allspace ws0 -> allspace ws1 -> ws1 <> [] -> allspace ws2 ->
  nospace local -> local <> [] -> nospace ext -> ext <> [] ->
  fields_go [] (KW ++ (32 :: ws0) ++ local ++ ws1 ++ ext ++ ws2) = [KW; local; ext].
Proof.
  intros ws0 local ws1 ext ws2 H0 H1 H1n H2 Hl Hln He Hen.
  rewrite fields_go_word by reflexivity. change ([] ++ KW) with KW.
  rewrite fields_go_sep; [| unfold allspace; simpl; exact H0 | discriminate | discriminate].
  f_equal.
  rewrite fields_go_word by exact Hl. change ([] ++ local) with local.
  rewrite fields_go_sep by assumption.
  f_equal.
  rewrite fields_go_word by exact He. change ([] ++ ext) with ext.
  apply fields_go_tail; assumption.
Qed.

Lemma has_prefix_app : forall p s, has_prefix p (p ++ s) = true.
Proof. induction p as [|x p IH]; simpl; intro s; auto. rewrite N.eqb_refl. apply IH. Qed.

(* ---- IndexByte / LastIndexByte --------------------------------------------- *)

Lemma last_index_none : forall c s, index_byte c s = None -> last_index_byte c s = None.
Proof.
  induction s as [|x r IH]; simpl; intro H; auto.
  destruct (x =? c); try discriminate.
  destruct (index_byte c r); try discriminate. rewrite IH; auto.
Qed.

Lemma index_byte_app_none : forall c a r, index_byte c a = None -> index_byte c r = None -> index_byte c (a ++ r) = None.
Proof.
  induction a as [|x a IH]; simpl; intros r Ha Hr; auto.
  destruct (x =? c); try discriminate.
  destruct (index_byte c a); try discriminate. rewrite IH; auto.
Qed.

Lemma last_index_app_found : forall c d rest, last_index_byte c rest = None ->
  last_index_byte c (d ++ c :: rest) = Some (length d).
Proof.
  induction d as [|x d IH]; simpl; intros rest H.
  - rewrite H, N.eqb_refl. reflexivity.
  - rewrite IH; auto.
Qed.

Lemma index_byte_app_found : forall c a rest, index_byte c a = None ->
  index_byte c (a ++ c :: rest) = Some (length a).
Proof.
  induction a as [|x a IH]; simpl; intros rest H.
  - rewrite N.eqb_refl. reflexivity.
  - destruct (x =? c); try discriminate.
    destruct (index_byte c a); try discriminate. rewrite IH; auto.
Qed.

Lemma skipn_length_app : forall (a r : str), skipn (length a) (a ++ r) = r.
Proof. induction a; simpl; auto. Qed.

Lemma firstn_length_app : forall (a r : str), firstn (length a) (a ++ r) = a.
Proof. induction a; simpl; intro r; auto. rewrite IHa. reflexivity. Qed.

Lemma offset_is_dir : forall dir base name,
  (dir = [] \/ exists d, dir = d ++ [SLASH]) ->
  index_byte SLASH base = None -> index_byte SLASH name = None ->
  match last_index_byte SLASH (dir ++ base ++ DOT :: name) with Some p => S p | None => O end = length dir.
Proof.
  intros dir base name Hd Hb Hn.
  assert (Hrest : index_byte SLASH (base ++ DOT :: name) = None).
  { apply index_byte_app_none; auto. simpl. rewrite Hn. reflexivity. }
  destruct Hd as [Hd | [d Hd]]; subst dir.
  - simpl. rewrite (last_index_none _ _ Hrest). reflexivity.
  - rewrite <- app_assoc. simpl. rewrite last_index_app_found by (apply last_index_none; exact Hrest).
    rewrite app_length. simpl. lia.
Qed.

(* ---- the directive syntax -------------------------------------------------- *)

Theorem parse_linkname_spec : forall pkg ws0 local ws1 dir base name ws2,
  allspace ws0 -> allspace ws1 -> ws1 <> [] -> allspace ws2 ->
  nospace local -> local <> [] ->
  nospace dir -> nospace base -> nospace name ->
  (dir = [] \/ exists d, dir = d ++ [SLASH]) ->
  index_byte SLASH base = None -> index_byte DOT base = None -> index_byte SLASH name = None ->
  local <> dir ++ base ++ DOT :: name ->
  read_linkname pkg (PREFIX ++ ws0 ++ local ++ ws1 ++ (dir ++ base ++ DOT :: name) ++ ws2)
  = PLink {| l_ref := (pkg, local); l_impl := (dir ++ base, name) |}.
Proof.
  intros pkg ws0 local ws1 dir base name ws2 H0 H1 H1n H2 Hl Hln Hdir Hbase Hname Hd Hsb Hdb Hsn Hne.
  set (ext := dir ++ base ++ DOT :: name) in *.
  assert (Hens : nospace ext).
  { unfold ext, nospace in *. rewrite !forallb_app. simpl. rewrite Hdir, Hbase, Hname. reflexivity. }
  assert (Hen : ext <> []).
  { unfold ext. destruct dir; destruct base; discriminate. }
  unfold read_linkname. rewrite has_prefix_app. cbn [negb].
  change (fields (PREFIX ++ ws0 ++ local ++ ws1 ++ ext ++ ws2))
    with (fields_go [] (KW ++ (32 :: ws0) ++ local ++ ws1 ++ ext ++ ws2)).
  rewrite fields_directive by assumption.
  cbv iota beta.
  rewrite (proj2 (str_eqb_neq local ext) Hne).
  cbv zeta.
  assert (Hoff : match last_index_byte SLASH ext with Some p => S p | None => O end = length dir).
  { unfold ext. apply offset_is_dir; assumption. }
  assert (Hsk : skipn (length dir) ext = base ++ DOT :: name).
  { unfold ext. apply skipn_length_app. }
  rewrite !Hoff, Hsk.
  rewrite index_byte_app_found by exact Hdb.
  assert (F1 : firstn (length dir + length base) ext = dir ++ base).
  { unfold ext. rewrite app_assoc. rewrite <- app_length. apply firstn_length_app. }
  assert (F2 : skipn (length dir + length base + 1) ext = name).
  { unfold ext.
    replace (dir ++ base ++ DOT :: name) with ((dir ++ base ++ [DOT]) ++ name)
      by (rewrite <- !app_assoc; reflexivity).
    replace (length dir + length base + 1)%nat with (length (dir ++ base ++ [DOT]))
      by (rewrite !app_length; simpl; lia).
    apply skipn_length_app. }
  rewrite F1, F2. reflexivity.
Qed.

Theorem read_linkname_not_a_directive : forall pkg text,
  has_prefix PREFIX text = false -> read_linkname pkg text = PNone.
Proof. intros pkg text H. unfold read_linkname. rewrite H. reflexivity. Qed.

(* one-argument form and self-reference are ignored, anything else with the prefix is a usage error *)
Theorem read_linkname_shapes : forall pkg text,
  has_prefix PREFIX text = true ->
  match fields text with
  | [_; _] => read_linkname pkg text = PNone
  | [_; l; e] => if str_eqb l e then read_linkname pkg text = PNone
                 else exists impl, read_linkname pkg text = PLink {| l_ref := (pkg, l); l_impl := impl |}
  | _ => read_linkname pkg text = PErr
  end.
Proof.
  intros pkg text H. unfold read_linkname. rewrite H. cbn [negb].
  destruct (fields text) as [|a [|l [|e [|x r]]]]; auto.
  destruct (str_eqb l e); auto.
  cbv zeta. destruct (index_byte DOT _); eexists; reflexivity.
Qed.

(* ---- validation ------------------------------------------------------------ *)

Theorem unsupported_uses_rejected : forall pkg decls text l,
  read_linkname pkg text = PLink l ->
  process_comment pkg false decls text = VError ENoUnsafe /\
  (lookup_node decls (snd (l_ref l)) = None -> process_comment pkg true decls text = VError ENotFound) /\
  (lookup_node decls (snd (l_ref l)) = Some NodeOther -> mitigated_var (l_ref l) = false ->
     process_comment pkg true decls text = VError ENotFunc) /\
  (lookup_node decls (snd (l_ref l)) = Some (NodeFunc true) -> mitigated_insert (l_ref l) = false ->
     process_comment pkg true decls text = VError EInsert).
Proof.
  intros pkg decls text l H. unfold process_comment. rewrite H. cbn [negb].
  split; [reflexivity | split; [| split]].
  - intro E. rewrite E. reflexivity.
  - intros E M. rewrite E, M. reflexivity.
  - intros E M. rewrite E, M. reflexivity.
Qed.

Theorem accepted_only_if_supported : forall pkg u decls text l,
  process_comment pkg u decls text = VLink l ->
  u = true /\ read_linkname pkg text = PLink l /\ lookup_node decls (snd (l_ref l)) = Some (NodeFunc false).
Proof.
  intros pkg u decls text l. unfold process_comment.
  destruct (read_linkname pkg text) as [| |l0]; try discriminate.
  destruct u; cbn [negb]; try discriminate.
  destruct (lookup_node decls (snd (l_ref l0))) as [[[|]|]|] eqn:E; try discriminate.
  - destruct (mitigated_insert (l_ref l0)); discriminate.
  - intro H. inversion H; subst. auto.
  - destruct (mitigated_var (l_ref l0)); discriminate.
Qed.

(* ---- GoLinknameSet --------------------------------------------------------- *)

Lemma sym_eqb_eq : forall a c : sym, sym_eqb a c = true <-> a = c.
Proof.
  intros [a1 a2] [c1 c2]. unfold sym_eqb. simpl. rewrite andb_true_iff, !str_eqb_eq.
  split. intros [? ?]; subst; auto. intro H; inversion H; auto.
Qed.

Lemma sym_eqb_refl : forall a, sym_eqb a a = true.
Proof. intro a. apply sym_eqb_eq. reflexivity. Qed.

Lemma sym_eqb_neq : forall a c : sym, a <> c -> sym_eqb a c = false.
Proof. intros a c H. destruct (sym_eqb a c) eqn:E; auto. apply sym_eqb_eq in E. contradiction. Qed.

Lemma impl_append_found : forall t e, exists v, sym_lookup (impl_append t e) (l_impl e) = Some v.
Proof.
  induction t as [|[k v] r IH]; simpl; intro e.
  - rewrite sym_eqb_refl. eexists; reflexivity.
  - destruct (sym_eqb (l_impl e) k) eqn:E; simpl; rewrite E.
    + eexists; reflexivity.
    + apply IH.
Qed.

Lemma impl_append_mono : forall t e s v, sym_lookup t s = Some v -> exists v', sym_lookup (impl_append t e) s = Some v'.
Proof.
  induction t as [|[k w] r IH]; simpl; intros e s v H; try discriminate.
  destruct (sym_eqb (l_impl e) k) eqn:E; simpl; destruct (sym_eqb s k) eqn:F; eauto.
Qed.

Definition refs (es : list link) : list sym := map l_ref es.

(* the state after adding conflict-free entries *)
Lemma gls_add_ok : forall es g,
  NoDup (refs es) ->
  (forall e, In e es -> sym_lookup (by_ref g) (l_ref e) = None) ->
  snd (gls_add es g) = false /\
  (forall e, In e es -> gls_find (fst (gls_add es g)) (l_ref e) = Some (l_impl e) /\
                        gls_is_impl (fst (gls_add es g)) (l_impl e) = true) /\
  (forall s, ~ In s (refs es) -> sym_lookup (by_ref (fst (gls_add es g))) s = sym_lookup (by_ref g) s) /\
  (forall s, gls_is_impl g s = true -> gls_is_impl (fst (gls_add es g)) s = true).
Proof.
  induction es as [|e r IH]; intros g Hnd Hfree.
  - simpl. split; [reflexivity | split; [intros e [] | split; auto]].
  - simpl in Hnd. inversion Hnd as [|? ? Hni Hnd']; subst.
    simpl. rewrite (Hfree e (or_introl eq_refl)).
    set (g1 := {| by_impl := impl_append (by_impl g) e; by_ref := (l_ref e, e) :: by_ref g |}).
    assert (Hfree1 : forall e', In e' r -> sym_lookup (by_ref g1) (l_ref e') = None).
    { intros e' He'. simpl. rewrite sym_eqb_neq.
      - apply Hfree. right. exact He'.
      - intro X. apply Hni. rewrite <- X. unfold refs. apply in_map. exact He'. }
    destruct (IH g1 Hnd' Hfree1) as [Hc [Hall [Hpres Hmono]]].
    assert (Himpl1 : gls_is_impl g1 (l_impl e) = true).
    { unfold gls_is_impl. simpl. destruct (impl_append_found (by_impl g) e) as [v Hv]. rewrite Hv. reflexivity. }
    split; [exact Hc | split; [| split]].
    + intros e' [He' | He'].
      * subst e'. split.
        -- unfold gls_find. rewrite Hpres by exact Hni. simpl. rewrite sym_eqb_refl. reflexivity.
        -- apply Hmono. exact Himpl1.
      * apply Hall. exact He'.
    + intros s Hs. rewrite Hpres.
      * simpl. rewrite sym_eqb_neq; [reflexivity |]. intro X. apply Hs. left. symmetry. exact X.
      * intro X. apply Hs. right. exact X.
    + intros s Hs. apply Hmono. unfold gls_is_impl in *. simpl.
      destruct (sym_lookup (by_impl g) s) as [v|] eqn:E; try discriminate.
      destruct (impl_append_mono _ e _ _ E) as [v' Hv']. rewrite Hv'. reflexivity.
Qed.

Lemma NoDup_app_parts : forall (l1 l2 : list sym),
  NoDup (l1 ++ l2) -> NoDup l1 /\ NoDup l2 /\ (forall s, In s l1 -> ~ In s l2).
Proof.
  induction l1 as [|a l1 IH]; simpl; intros l2 H.
  - split; [constructor | split; [exact H | intros s []]].
  - inversion H as [|? ? Hni Hnd]; subst. destruct (IH _ Hnd) as [A1 [A2 A3]].
    split; [| split; [exact A2 |]].
    + constructor; auto. intro X. apply Hni. apply in_or_app. left. exact X.
    + intros s [Hs | Hs] Hin.
      * subst. apply Hni. apply in_or_app. right. exact Hin.
      * eapply A3; eauto.
Qed.

Lemma program_gls_ok : forall pkgs g,
  NoDup (refs (concat pkgs)) ->
  (forall e, In e (concat pkgs) -> sym_lookup (by_ref g) (l_ref e) = None) ->
  let g' := fold_left (fun g es => fst (gls_add es g)) pkgs g in
  program_conflict pkgs g = false /\
  (forall e, In e (concat pkgs) -> gls_find g' (l_ref e) = Some (l_impl e) /\ gls_is_impl g' (l_impl e) = true) /\
  (forall s, ~ In s (refs (concat pkgs)) -> sym_lookup (by_ref g') s = sym_lookup (by_ref g) s) /\
  (forall s, gls_is_impl g s = true -> gls_is_impl g' s = true).
Proof.
  induction pkgs as [|es r IH]; intros g Hnd Hfree; simpl.
  - split; [reflexivity | split; [intros e [] | split; auto]].
  - simpl in Hnd, Hfree. unfold refs in Hnd. rewrite map_app in Hnd.
    destruct (NoDup_app_parts _ _ Hnd) as [Hnd1 [Hnd2 Hdisj]].
    change (map l_ref es) with (refs es) in Hnd1, Hdisj.
    change (map l_ref (concat r)) with (refs (concat r)) in Hnd2, Hdisj.
    destruct (gls_add_ok es g Hnd1) as [Hc [Hall [Hpres Hmono]]].
    { intros e He. apply Hfree. apply in_or_app. left. exact He. }
    destruct (gls_add es g) as [g1 c] eqn:EA. simpl in Hc, Hall, Hpres, Hmono. subst c.
    assert (Hfree1 : forall e, In e (concat r) -> sym_lookup (by_ref g1) (l_ref e) = None).
    { intros e He. rewrite Hpres.
      - apply Hfree. apply in_or_app. right. exact He.
      - intro X. apply (Hdisj _ X). unfold refs. apply in_map. exact He. }
    destruct (IH g1 Hnd2 Hfree1) as [Hc2 [Hall2 [Hpres2 Hmono2]]].
    simpl. split; [exact Hc2 | split; [| split]].
    + intros e He. apply in_app_or in He. destruct He as [He | He].
      * destruct (Hall e He) as [F I]. split.
        -- unfold gls_find in *. rewrite Hpres2; auto. apply Hdisj. unfold refs. apply in_map. exact He.
        -- apply Hmono2. exact I.
      * apply Hall2. exact He.
    + intros s Hs. rewrite Hpres2.
      * apply Hpres. intro X. apply Hs. unfold refs. rewrite map_app. apply in_or_app. left. exact X.
      * intro X. apply Hs. unfold refs. rewrite map_app. apply in_or_app. right. exact X.
    + intros s Hs. apply Hmono2. apply Hmono. exact Hs.
Qed.

(* no conflicts: every directive resolves to the implementation it names; a reference has
   exactly one implementation; nothing is reported *)
Theorem resolve_functional : forall pkgs,
  NoDup (refs (concat pkgs)) ->
  program_conflict pkgs gls_empty = false /\
  (forall e, In e (concat pkgs) ->
     gls_find (program_gls pkgs) (l_ref e) = Some (l_impl e) /\ gls_is_impl (program_gls pkgs) (l_impl e) = true) /\
  (forall s, ~ In s (refs (concat pkgs)) -> gls_find (program_gls pkgs) s = None).
Proof.
  intros pkgs Hnd.
  destruct (program_gls_ok pkgs gls_empty Hnd) as [Hc [Hall [Hpres _]]].
  { intros e _. reflexivity. }
  split; [exact Hc | split; [exact Hall |]].
  intros s Hs. unfold gls_find, program_gls. rewrite Hpres by exact Hs. reflexivity.
Qed.

(* Add does report a duplicated reference *)
Theorem add_reports_conflict : forall es1 e es2 g,
  In (l_ref e) (refs es1) -> snd (gls_add (es1 ++ e :: es2) g) = true.
Proof.
  induction es1 as [|a r IH]; intros e es2 g Hin; simpl in Hin; try contradiction.
  simpl. destruct (sym_lookup (by_ref g) (l_ref a)) eqn:E; auto.
  destruct Hin as [Hin | Hin].
  - (* the duplicate of [a] is met later; the table then contains [l_ref a] *)
    clear IH. set (g1 := {| by_impl := impl_append (by_impl g) a; by_ref := (l_ref a, a) :: by_ref g |}).
    assert (H1 : exists v, sym_lookup (by_ref g1) (l_ref e) = Some v).
    { simpl. rewrite <- Hin. rewrite sym_eqb_refl. eexists; reflexivity. }
    clearbody g1. revert g1 H1. induction r as [|x r IHr]; intros g1 [v H1]; simpl.
    + rewrite H1. reflexivity.
    + destruct (sym_lookup (by_ref g1) (l_ref x)) eqn:F; auto.
      apply IHr. simpl. destruct (sym_eqb (l_ref e) (l_ref x)); eexists; eauto.
  - apply IH. exact Hin.
Qed.

(* ---- the aggregation loop of WriteProgramCode (with its error exit) --------- *)

Lemma link_program_from_spec : forall pkgs g,
  link_program_from pkgs g =
  if program_conflict pkgs g then None else Some (fold_left (fun g es => fst (gls_add es g)) pkgs g).
Proof.
  induction pkgs as [|es r IH]; intro g; simpl; auto.
  destruct (gls_add es g) as [g1 c] eqn:E. destruct c; simpl; auto.
Qed.

Lemma gls_add_no_conflict : forall es g, snd (gls_add es g) = false ->
  NoDup (refs es) /\ (forall e, In e es -> sym_lookup (by_ref g) (l_ref e) = None).
Proof.
  induction es as [|e r IH]; intros g H.
  - split; [constructor | intros e []].
  - simpl in H. destruct (sym_lookup (by_ref g) (l_ref e)) eqn:L; [simpl in H; discriminate |].
    apply IH in H. destruct H as [Hnd Hfree]. simpl in Hfree.
    assert (Hne : forall e', In e' r -> l_ref e' <> l_ref e /\ sym_lookup (by_ref g) (l_ref e') = None).
    { intros e' He'. specialize (Hfree e' He').
      destruct (sym_eqb (l_ref e') (l_ref e)) eqn:Q; [discriminate |].
      split; auto. intro X. rewrite X in Q. rewrite sym_eqb_refl in Q. discriminate. }
    split.
    + simpl. constructor; auto. intro Hin. unfold refs in Hin. apply in_map_iff in Hin.
      destruct Hin as [e' [X He']]. destruct (Hne e' He') as [N _]. contradiction.
    + intros e' [He' | He'].
      * subst. exact L.
      * apply Hne. exact He'.
Qed.

Lemma NoDup_app_build : forall (l1 l2 : list sym),
  NoDup l1 -> NoDup l2 -> (forall s, In s l1 -> ~ In s l2) -> NoDup (l1 ++ l2).
Proof.
  induction l1 as [|a l1 IH]; simpl; intros l2 H1 H2 Hd; auto.
  inversion H1; subst. constructor.
  - intro X. apply in_app_or in X. destruct X as [X | X]; [contradiction |].
    apply (Hd a); auto.
  - apply IH; auto.
Qed.

Lemma link_program_from_some : forall pkgs g g', link_program_from pkgs g = Some g' ->
  NoDup (refs (concat pkgs)) /\ (forall e, In e (concat pkgs) -> sym_lookup (by_ref g) (l_ref e) = None).
Proof.
  induction pkgs as [|es r IH]; intros g g' H.
  - simpl. split; [constructor | intros e []].
  - simpl in H. destruct (gls_add es g) as [g1 c] eqn:E. destruct c; [discriminate |].
    apply IH in H. destruct H as [Hnd2 Hfree2].
    assert (Hs : snd (gls_add es g) = false) by (rewrite E; reflexivity).
    destruct (gls_add_no_conflict es g Hs) as [Hnd1 Hfree1].
    destruct (gls_add_ok es g Hnd1 Hfree1) as [_ [Hall [Hpres _]]]. rewrite E in Hall, Hpres. simpl in Hall, Hpres.
    assert (Hdisj : forall s, In s (refs es) -> ~ In s (refs (concat r))).
    { intros s H1 H2. unfold refs in H1, H2. apply in_map_iff in H1. apply in_map_iff in H2.
      destruct H1 as [e1 [X1 I1]]. destruct H2 as [e2 [X2 I2]].
      destruct (Hall e1 I1) as [F _]. unfold gls_find in F.
      specialize (Hfree2 e2 I2). rewrite X2, <- X1 in Hfree2. rewrite Hfree2 in F. discriminate. }
    simpl. split.
    + unfold refs. rewrite map_app. apply NoDup_app_build; auto.
    + intros e He. apply in_app_or in He. destruct He as [He | He].
      * apply Hfree1. exact He.
      * rewrite <- Hpres. apply Hfree2. exact He.
        intro X. apply (Hdisj _ X). unfold refs. apply in_map. exact He.
Qed.

(* references resolve to the one implementation they name, and a program in which some
   reference is given two implementations is rejected *)
Theorem resolve_full : forall pkgs,
  (NoDup (refs (concat pkgs)) ->
     link_program pkgs = Some (program_gls pkgs) /\
     (forall e, In e (concat pkgs) ->
        gls_find (program_gls pkgs) (l_ref e) = Some (l_impl e) /\ gls_is_impl (program_gls pkgs) (l_impl e) = true) /\
     (forall s, ~ In s (refs (concat pkgs)) -> gls_find (program_gls pkgs) s = None)) /\
  (~ NoDup (refs (concat pkgs)) -> link_program pkgs = None).
Proof.
  intro pkgs. split.
  - intro Hnd. destruct (resolve_functional pkgs Hnd) as [Hc [Hall Hnone]].
    split; [| split; assumption].
    unfold link_program. rewrite link_program_from_spec. rewrite Hc. reflexivity.
  - intro Hdup. destruct (link_program pkgs) as [g'|] eqn:E; auto.
    exfalso. apply Hdup. unfold link_program in E. apply link_program_from_some in E. tauto.
Qed.
