(* C06 phase 4 — float64 -> int64/uint64 through the constructor (truncation toward zero, any in-range value)
   and int64/uint64 -> float64 through $flatten64 (exact for |x| <= 2^53); the emitted templates are these models. *)
From Coq Require Import ZArith Znumtheory Bool List Lia ZifyBool.
From Verif Require Import Base.C06_JsNum Model.C06_Prelude64 Model.C06_Spec Gen.C06_Tables Model.C06_Templates Model.C06_P4_Conv
  Proofs.C06_Arith Proofs.C06_Fix Proofs.C06_Ops64.
Import ListNotations.
Local Open Scope Z_scope.
Ltac Zify.zify_post_hook ::= Z.div_mod_to_equations.

Lemma tie_conv_fo : forall k2, is64 k2 = true -> g_conv_fo k2 = Some (conv_fo current k2).
Proof. intros k2 H; destruct k2; try discriminate H; reflexivity. Qed.
Lemma tie_conv_of : forall k1, is64 k1 = true -> g_conv_of k1 = Some conv_of.
Proof. intros k1 H; destruct k1; try discriminate H; reflexivity. Qed.

(* with Math.trunc in the constructor a non-integer low behaves exactly like its truncation *)
Lemma new64_real_trunc : forall sg n d,
  new64v true sg (Fin 0) (jreal n d) = new64v true sg (Fin 0) (Fin (Z.quot n d)).
Proof. intros sg n d. unfold jreal. destruct (Z.rem n d =? 0); reflexivity. Qed.

Definition conv_fo_full_statement (V : variant) : Prop :=
  forall k2 n d, is64 k2 = true -> d <> 0 -> in_range k2 (Z.quot n d) ->
  conv_fo V k2 (jreal n d) = Ret (enc64 k2 (go_conv_real n d)).

Lemma conv_fo_correct : forall V, v_ctor V = true -> conv_fo_full_statement V.
Proof.
  intros V HV k2 n d H Hd R. unfold conv_fo, go_conv_real. rewrite HV. rewrite new64_real_trunc.
  pose proof (in_range_64 k2 _ H R) as B.
  rewrite new64_norm by (unfold two53, two32; lia). rewrite k64_signed by assumption.
  rewrite Z.mul_0_l, Z.add_0_l. rewrite wrap_id by assumption. reflexivity.
Qed.

(* the constructor with Math.ceil (the tree before the repair): int64(4294967295.5) = 8589934591 *)
Lemma conv_fo_ceil_refuted : forall V, v_ctor V = false -> ~ conv_fo_full_statement V.
Proof.
  intros V HV F. specialize (F Int64 8589934591 2 eq_refl ltac:(lia)).
  assert (R : in_range Int64 (Z.quot 8589934591 2)) by (unfold in_range; cbn; lia).
  specialize (F R). unfold conv_fo in F. rewrite HV in F. vm_compute in F. discriminate F.
Qed.

(* $flatten64 is exact up to 2^53 in magnitude (all intermediates exact, never -0) *)
Lemma conv_of_exact : forall k x, is64 k = true -> in_range k x -> - two53 <= x <= two53 ->
  conv_of (enc64 k x) = Ret (Fin x).
Proof.
  intros k x H R B. unfold conv_of, flatten64, enc64. cbn [o_hi o_lo]. f_equal.
  set (h := x / two32). set (l := x mod two32).
  assert (E : x = h * two32 + l) by (unfold h, l, two32; lia).
  assert (Bh : - two53 <= h * two32 <= two53) by (unfold h, two32, two53 in *; lia).
  assert (Bl : 0 <= l < two32) by (unfold l, two32; lia).
  rewrite E in B |- *. clearbody h l. clear E.
  unfold js_mul. cbn [jval jneg_sign].
  destruct (Z.eqb_spec (h * two32) 0) as [Z0 | NZ0].
  - assert (h = 0) by (unfold two32 in *; lia). subst h.
    change (xorb (0 <? 0) (two32 <? 0)) with false. cbv iota.
    unfold js_add. rewrite chk_ok by (unfold two53, two32 in *; lia). reflexivity.
  - rewrite chk_ok by assumption. unfold js_add. rewrite chk_ok by lia. reflexivity.
Qed.
