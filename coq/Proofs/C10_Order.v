(* C10 — lemmas: byte-string order, uniqueness of sorted permutations (file order and
   import order depend only on the names). *)
From Coq Require Import List NArith Arith Bool Lia Permutation Sorted.
From Verif Require Import Model.C10_Order.
Import ListNotations.

(* ---- byte strings -------------------------------------------------------- *)

Lemma str_eqb_eq : forall a b, str_eqb a b = true <-> a = b.
Proof.
  induction a as [|x a IH]; destruct b as [|y b]; simpl; split; intro H; try reflexivity; try discriminate.
  - apply andb_true_iff in H. destruct H as [H1 H2]. apply N.eqb_eq in H1. apply IH in H2. subst. reflexivity.
  - inversion H; subst. apply andb_true_iff. split. apply N.eqb_refl. apply IH. reflexivity.
Qed.

Lemma str_eqb_refl : forall a, str_eqb a a = true.
Proof. intro a. apply str_eqb_eq. reflexivity. Qed.

Lemma str_eqb_neq : forall a b, str_eqb a b = false <-> a <> b.
Proof.
  intros a b. split; intro H.
  - intro E. apply str_eqb_eq in E. congruence.
  - destruct (str_eqb a b) eqn:E; auto. apply str_eqb_eq in E. contradiction.
Qed.

Lemma mem_In : forall p l, mem p l = true <-> In p l.
Proof.
  intros p l. unfold mem. rewrite existsb_exists. split.
  - intros [x [Hx E]]. apply str_eqb_eq in E. subst. exact Hx.
  - intro H. exists p. split; auto. apply str_eqb_refl.
Qed.

Lemma mem_not_In : forall p l, mem p l = false <-> ~ In p l.
Proof.
  intros p l. split; intro H.
  - intro HI. apply mem_In in HI. congruence.
  - destruct (mem p l) eqn:E; auto. apply mem_In in E. contradiction.
Qed.

Lemma str_cmp_eq : forall a b, str_cmp a b = Eq <-> a = b.
Proof.
  induction a as [|x a IH]; destruct b as [|y b]; simpl; split; intro H; try reflexivity; try discriminate.
  - destruct (N.compare x y) eqn:E; try discriminate. apply N.compare_eq in E. apply IH in H. subst. reflexivity.
  - inversion H; subst. rewrite N.compare_refl. apply IH. reflexivity.
Qed.

Lemma str_cmp_antisym : forall a b, str_cmp b a = CompOpp (str_cmp a b).
Proof.
  induction a as [|x a IH]; destruct b as [|y b]; simpl; try reflexivity.
  rewrite (N.compare_antisym x y). destruct (N.compare x y); simpl; auto.
Qed.

Lemma str_cmp_lt_trans : forall a b c, str_cmp a b = Lt -> str_cmp b c = Lt -> str_cmp a c = Lt.
Proof.
  induction a as [|x a IH]; destruct b as [|y b]; destruct c as [|z c]; simpl; intros H1 H2; try discriminate; try reflexivity.
  destruct (N.compare x y) eqn:E1; try discriminate.
  - apply N.compare_eq in E1. subst y.
    destruct (N.compare x z) eqn:E2; try discriminate; auto. eapply IH; eauto.
  - destruct (N.compare y z) eqn:E2; try discriminate.
    + apply N.compare_eq in E2. subst z. rewrite E1. reflexivity.
    + assert (N.compare x z = Lt) as ->; auto.
      apply N.compare_lt_iff. apply N.compare_lt_iff in E1. apply N.compare_lt_iff in E2. eapply N.lt_trans; eauto.
Qed.

Lemma str_ltb_trans : forall a b c, str_ltb a b = true -> str_ltb b c = true -> str_ltb a c = true.
Proof.
  unfold str_ltb. intros a b c H1 H2.
  destruct (str_cmp a b) eqn:E1; try discriminate. destruct (str_cmp b c) eqn:E2; try discriminate.
  rewrite (str_cmp_lt_trans _ _ _ E1 E2). reflexivity.
Qed.

Lemma str_ltb_asym : forall a b, str_ltb a b = true -> str_ltb b a = false.
Proof.
  unfold str_ltb. intros a b H. rewrite (str_cmp_antisym a b). destruct (str_cmp a b); simpl; auto; discriminate.
Qed.

Lemma str_ltb_total : forall a b, a <> b -> str_ltb a b = true \/ str_ltb b a = true.
Proof.
  unfold str_ltb. intros a b H. rewrite (str_cmp_antisym a b). destruct (str_cmp a b) eqn:E; simpl; auto.
  apply str_cmp_eq in E. contradiction.
Qed.

(* ---- sorted permutations are unique -------------------------------------- *)

Section SortUnique.
  Context {A : Type} (less : A -> A -> bool).
  Hypothesis less_trans : forall x y z, less x y = true -> less y z = true -> less x z = true.
  Hypothesis less_asym : forall x y, less x y = true -> less y x = false.

  Definition lt (x y : A) : Prop := less x y = true.

  Lemma insert_perm : forall x l, Permutation (insert_by less x l) (x :: l).
  Proof.
    induction l as [|y r IH]; simpl; auto.
    destruct (less y x).
    - eapply perm_trans. apply perm_skip. exact IH. apply perm_swap.
    - apply Permutation_refl.
  Qed.

  Lemma sort_perm : forall l, Permutation (sort_by less l) l.
  Proof.
    induction l as [|x r IH]; simpl; auto.
    eapply perm_trans. apply insert_perm. apply perm_skip. exact IH.
  Qed.

  Lemma insert_sorted : forall x l,
    StronglySorted lt l ->
    (forall y, In y l -> less x y = true \/ less y x = true) ->
    StronglySorted lt (insert_by less x l).
  Proof.
    induction l as [|y r IH]; simpl; intros Hs Ht.
    - constructor. constructor. constructor.
    - inversion Hs as [|? ? Hsr Hfa]; subst.
      destruct (less y x) eqn:E.
      + constructor.
        * apply IH; auto.
        * eapply Permutation_Forall. apply Permutation_sym. apply insert_perm.
          constructor; auto.
      + assert (Hxy : less x y = true). { destruct (Ht y (or_introl eq_refl)); congruence. }
        constructor; auto. constructor; auto.
        rewrite Forall_forall in *. intros z Hz. eapply less_trans. exact Hxy. apply Hfa. exact Hz.
  Qed.

  Lemma sort_sorted : forall l,
    NoDup l ->
    (forall x y, In x l -> In y l -> x <> y -> less x y = true \/ less y x = true) ->
    StronglySorted lt (sort_by less l).
  Proof.
    induction l as [|x r IH]; simpl; intros Hnd Ht.
    - constructor.
    - inversion Hnd; subst. apply insert_sorted.
      + apply IH; auto.
      + intros y Hy. apply (Permutation_in _ (sort_perm r)) in Hy.
        apply Ht; auto. intro; subst. contradiction.
  Qed.

  Lemma sorted_perm_unique : forall l1 l2,
    StronglySorted lt l1 -> StronglySorted lt l2 -> Permutation l1 l2 -> l1 = l2.
  Proof.
    induction l1 as [|a t1 IH]; intros l2 H1 H2 Hp.
    - apply Permutation_nil in Hp. auto.
    - destruct l2 as [|c t2]. { apply Permutation_sym in Hp. apply Permutation_nil in Hp. discriminate. }
      inversion H1 as [|? ? Hs1 Hf1]; subst. inversion H2 as [|? ? Hs2 Hf2]; subst.
      rewrite Forall_forall in Hf1, Hf2.
      assert (a = c).
      { assert (Ha : In a (c :: t2)) by (eapply Permutation_in; [exact Hp | left; reflexivity]).
        assert (Hc : In c (a :: t1)) by (eapply Permutation_in; [apply Permutation_sym; exact Hp | left; reflexivity]).
        destruct Ha as [Ha | Ha]; auto. destruct Hc as [Hc | Hc]; auto.
        apply Hf2 in Ha. apply Hf1 in Hc. unfold lt in *. apply less_asym in Ha. congruence. }
      subst c. f_equal. apply IH; auto. eapply Permutation_cons_inv. exact Hp.
  Qed.

  Lemma sort_by_unique : forall l l',
    Permutation l l' -> NoDup l ->
    (forall x y, In x l -> In y l -> x <> y -> less x y = true \/ less y x = true) ->
    sort_by less l = sort_by less l'.
  Proof.
    intros l l' Hp Hnd Ht.
    apply sorted_perm_unique.
    - apply sort_sorted; auto.
    - apply sort_sorted.
      + eapply Permutation_NoDup; eauto.
      + intros x y Hx Hy. apply Ht; eapply Permutation_in; try apply Permutation_sym; eauto.
    - eapply perm_trans. apply sort_perm. eapply perm_trans. exact Hp. apply Permutation_sym. apply sort_perm.
  Qed.
End SortUnique.

(* ---- files and imports --------------------------------------------------- *)

Lemma file_less_trans : forall B (x y z : str * B), file_less x y = true -> file_less y z = true -> file_less x z = true.
Proof. unfold file_less. intros. eapply str_ltb_trans; eauto. Qed.

Lemma file_less_asym : forall B (x y : str * B), file_less x y = true -> file_less y x = false.
Proof. unfold file_less. intros. apply str_ltb_asym. auto. Qed.

Lemma NoDup_map_fst_inj : forall B (fs : list (str * B)) x y,
  NoDup (map fst fs) -> In x fs -> In y fs -> x <> y -> fst x <> fst y.
Proof.
  induction fs as [|f r IH]; simpl; intros x y Hnd Hx Hy Hne; try contradiction.
  inversion Hnd as [|? ? Hni Hnd']; subst.
  destruct Hx as [Hx | Hx]; destruct Hy as [Hy | Hy]; subst.
  - contradiction.
  - intro E. apply Hni. rewrite E. apply in_map. exact Hy.
  - intro E. apply Hni. rewrite <- E. apply in_map. exact Hx.
  - apply IH; auto.
Qed.

Theorem file_order_depends_only_on_names : forall B (fs fs' : list (str * B)),
  Permutation fs fs' -> NoDup (map fst fs) -> sort_files fs = sort_files fs'.
Proof.
  intros B fs fs' Hp Hnd. unfold sort_files.
  apply sort_by_unique; auto.
  - apply file_less_trans.
  - apply file_less_asym.
  - eapply NoDup_map_inv. exact Hnd.
  - intros x y Hx Hy Hne. unfold file_less.
    assert (fst x <> fst y) by (eapply NoDup_map_fst_inj; eauto).
    destruct (str_ltb_total (fst x) (fst y)); auto.
Qed.

(* the sequence of names after sorting is the descending sort of the names, whatever is attached to them *)
Lemma map_fst_insert : forall B (x : str * B) l,
  map fst (insert_by file_less x l) = insert_by (fun a c => str_ltb c a) (fst x) (map fst l).
Proof.
  induction l as [|y r IH]; simpl; auto.
  unfold file_less at 1. destruct (str_ltb (fst x) (fst y)); simpl; auto. rewrite IH. reflexivity.
Qed.

Theorem sorted_file_names : forall B (fs : list (str * B)),
  map fst (sort_files fs) = sort_by (fun a c => str_ltb c a) (map fst fs).
Proof.
  unfold sort_files. induction fs as [|x r IH]; simpl; auto.
  rewrite map_fst_insert. rewrite IH. reflexivity.
Qed.

Theorem sorted_files_descending : forall B (fs : list (str * B)),
  NoDup (map fst fs) -> StronglySorted (fun f g => str_ltb (fst g) (fst f) = true) (sort_files fs).
Proof.
  intros B fs Hnd. unfold sort_files.
  apply (sort_sorted (@file_less B)).
  - apply file_less_trans.
  - eapply NoDup_map_inv. exact Hnd.
  - intros x y Hx Hy Hne. unfold file_less.
    assert (fst x <> fst y) by (eapply NoDup_map_fst_inj; eauto).
    destruct (str_ltb_total (fst x) (fst y)); auto.
Qed.

Theorem import_order_depends_only_on_names : forall l l',
  Permutation l l' -> NoDup l -> sort_paths l = sort_paths l'.
Proof.
  intros l l' Hp Hnd. unfold sort_paths. apply sort_by_unique; auto.
  - apply str_ltb_trans.
  - apply str_ltb_asym.
  - intros x y _ _ Hne. apply str_ltb_total. exact Hne.
Qed.

Lemma sort_paths_perm : forall l, Permutation (sort_paths l) l.
Proof. intro l. apply sort_perm. Qed.

Lemma sort_paths_In : forall l x, In x (sort_paths l) <-> In x l.
Proof.
  intros l x. split; intro H.
  - eapply Permutation_in. apply sort_paths_perm. exact H.
  - eapply Permutation_in. apply Permutation_sym. apply sort_paths_perm. exact H.
Qed.
