(* C09 phase 4 - the typeKey strings of the canonicalising constructors (code as it is now: [flags_current]) are
   INJECTIVE on well-formed labels and component ids:  key_of l ids = key_of l' ids'  ->  l = l' /\ ids = ids'
   (and Go's label identity [lab_ident] coincides with equality on well-formed labels). *)
From Coq Require Import List Arith NArith Bool String Ascii Lia.
From Verif Require Import Gen.C09_Kinds Model.C09_Types Corr.C09_Eval Model.C09_P4_Wf Proofs.C09_Types Proofs.C09_P4_Strings.
Import ListNotations.
Local Open Scope N_scope.

Notation flc := flags_current.

(* (cache, typeKey) of the constructor for label [l] over component ids: the first two components of the model's
   [node_of] (they do not depend on the state) *)
Definition key_of (l : lab) (ids : list N) : option (N * str) := option_map fst (node_of flc init_st l ids).

Lemma node_of_key : forall s l ids, option_map fst (node_of flc s l ids) = key_of l ids.
Proof. intros s l ids. unfold key_of. destruct l; try reflexivity; destruct ids as [|a [|b [|c r]]]; reflexivity. Qed.

Definition raw (f : fhdr) (id : N) : str :=
  L (fh_name f) ++ [c_comma] ++ dec id ++ [c_comma] ++ L (fh_tag f) ++ [c_comma] ++ (if fh_emb f then L "1" else L "0").
Definition itok (m : mhdr) (id : N) : str := L (mh_pkg m) ++ [c_comma] ++ L (mh_name m) ++ [c_comma] ++ dec id.

Lemma key_struct : forall pkg fs ids, key_of (LStruct pkg fs) ids =
  Some (cStruct, (L pkg ++ [c_dollar]) ++ join [c_dollar] (map (fun x => field_key flc (fst x) (snd x)) (zip fs ids))).
Proof. reflexivity. Qed.
Lemma key_iface : forall ms ids, key_of (LIface ms) ids =
  Some (cIface, join [c_dollar] (map (fun x => itok (fst x) (snd x)) (zip ms ids))).
Proof. reflexivity. Qed.
Lemma key_func : forall np v ids, key_of (LFunc np v) ids =
  Some (cFunc, join [c_comma] (map dec (firstn (N.to_nat np) ids)) ++ [c_dollar] ++
               join [c_comma] (map dec (skipn (N.to_nat np) ids)) ++ [c_dollar] ++ bool_str v).
Proof. reflexivity. Qed.

Lemma dollar_ne_bslash : c_dollar <> c_bslash. Proof. discriminate. Qed.

Lemma fk_raw : forall f id, clean (fh_name f) = true -> field_key flc f id = escape c_dollar (raw f id).
Proof.
  intros f id Hc. destruct (clean_no _ Hc) as [_ [H2 H3]].
  unfold field_key, raw. change (fx_tag flc) with true. change (fx_emb flc) with true. cbv iota.
  rewrite !escape_app.
  rewrite (escape_clean c_dollar (L (fh_name f))) by auto.
  rewrite (escape_clean c_dollar (dec id)) by (apply dec_no; (apply bslash_not_digit || apply dollar_not_digit)).
  destruct (fh_emb f); reflexivity.
Qed.

Lemma raw_nonempty : forall f id, raw f id <> [].
Proof. intros f id H. unfold raw in H. apply app_eq_nil in H as [_ H]. discriminate. Qed.

Lemma raw_inj : forall f id f' id', fh_wf f = true -> fh_wf f' = true -> raw f id = raw f' id' -> f = f' /\ id = id'.
Proof.
  intros f id f' id' Hf Hf' E. unfold fh_wf in *.
  apply andb_true_iff in Hf as [Hc Hx]. apply andb_true_iff in Hf' as [Hc' Hx'].
  apply Bool.eqb_prop in Hx, Hx'.
  destruct (clean_no _ Hc) as [N1 _]. destruct (clean_no _ Hc') as [N1' _].
  unfold raw in E. cbn [app] in E.
  apply split_first in E as [E1 E]; auto.
  apply split_first in E as [E2 E]; try (apply dec_no; apply comma_not_digit).
  apply L_inj in E1. apply dec_inj in E2.
  assert (E3 : (L (fh_tag f) ++ [c_comma]) ++ (if fh_emb f then L "1" else L "0") =
               (L (fh_tag f') ++ [c_comma]) ++ (if fh_emb f' then L "1" else L "0")).
  { rewrite <- !app_assoc. exact E. }
  assert (E4 : L (fh_tag f) = L (fh_tag f') /\ fh_emb f = fh_emb f').
  { destruct (fh_emb f), (fh_emb f'); cbn in E3; apply app_inj_tail in E3 as [E3 E5]; try discriminate;
      apply app_inj_tail in E3 as [E3 _]; auto. }
  destruct E4 as [E4 E5]. apply L_inj in E4.
  split; [|exact E2]. destruct f, f'; cbn in *. subst. reflexivity.
Qed.

Lemma itok_inj : forall m id m' id', mh_wf m = true -> mh_wf m' = true -> itok m id = itok m' id' -> m = m' /\ id = id'.
Proof.
  intros m id m' id' Hm Hm' E. unfold mh_wf in *.
  apply andb_true_iff in Hm as [Hn Hp]. apply andb_true_iff in Hm' as [Hn' Hp'].
  destruct (clean_no _ Hn) as [N1 _]. destruct (clean_no _ Hn') as [N1' _].
  destruct (clean_no _ Hp) as [P1 _]. destruct (clean_no _ Hp') as [P1' _].
  unfold itok in E. cbn [app] in E.
  apply split_first in E as [E1 E]; auto.
  apply split_first in E as [E2 E]; auto.
  apply L_inj in E1, E2. apply dec_inj in E.
  split; [|exact E]. destruct m, m'; cbn in *. subst. reflexivity.
Qed.

Lemma itok_plain : forall m id, mh_wf m = true -> ~ In c_dollar (itok m id) /\ itok m id <> [].
Proof.
  intros m id Hm. unfold mh_wf in Hm. apply andb_true_iff in Hm as [Hn Hp].
  destruct (clean_no _ Hn) as [_ [N2 _]]. destruct (clean_no _ Hp) as [_ [P2 _]].
  split.
  - unfold itok. intro H. repeat (apply in_app_or in H as [H|H]); auto.
    + cbn in H. destruct H as [H|[]]. discriminate.
    + cbn in H. destruct H as [H|[]]. discriminate.
    + revert H. apply dec_no. apply dollar_not_digit.
  - unfold itok. intro H. apply app_eq_nil in H as [_ H]. discriminate.
Qed.

(* ------------------------------------------------------------------ zip *)
Lemma zip_map_inj : forall {A : Type} (PA : A -> Prop) (g : A * N -> str),
  (forall a b a' b', PA a -> PA a' -> g (a, b) = g (a', b') -> a = a' /\ b = b') ->
  forall xs ys xs' ys', Forall PA xs -> Forall PA xs' -> List.length xs = List.length ys -> List.length xs' = List.length ys' ->
  map g (zip xs ys) = map g (zip xs' ys') -> xs = xs' /\ ys = ys'.
Proof.
  intros A PA g Hg. induction xs as [|x xs IH]; intros [|y ys] [|x' xs'] [|y' ys'] F1 F2 L1 L2 E; cbn in *; try discriminate; auto.
  injection E as E1 E2. inversion F1; inversion F2; subst.
  destruct (Hg x y x' y') as [-> ->]; auto.
  destruct (IH ys xs' ys') as [-> ->]; auto.
Qed.

Lemma map_zip_fst : forall {A : Type} (g h : A * N -> str) xs ys,
  (forall a b, In a xs -> g (a, b) = h (a, b)) -> map g (zip xs ys) = map h (zip xs ys).
Proof.
  intros A g h. induction xs as [|x xs IH]; intros [|y ys] H; cbn; auto.
  rewrite H by now left. f_equal. apply IH. intros. apply H. now right.
Qed.

Lemma Forall_zip_fst : forall {A : Type} (P : A -> Prop) (Q : A * N -> Prop) xs ys,
  (forall a b, P a -> Q (a, b)) -> Forall P xs -> Forall Q (zip xs ys).
Proof.
  intros A P Q. induction xs as [|x xs IH]; intros [|y ys] H F; cbn; auto.
  inversion F; subst. constructor; auto.
Qed.

Lemma len1 : forall (ids : list N), List.length ids = 1%nat -> exists e, ids = [e].
Proof. intros [|e [|? ?]] H; try discriminate. eauto. Qed.
Lemma len2 : forall (ids : list N), List.length ids = 2%nat -> exists k e, ids = [k; e].
Proof. intros [|k [|e [|? ?]]] H; try discriminate. eauto. Qed.

Lemma forallb_Forall : forall {A} (p : A -> bool) l, forallb p l = true -> Forall (fun x => p x = true) l.
Proof. intros A p l H. rewrite forallb_forall in H. apply Forall_forall. exact H. Qed.

(* ------------------------------------------------------------------ the keys of structs, interfaces and functions *)
Lemma struct_key_inj : forall nd p fs ids p' fs' ids',
  lab_wf nd (LStruct p fs) (List.length ids) = true -> lab_wf nd (LStruct p' fs') (List.length ids') = true ->
  key_of (LStruct p fs) ids = key_of (LStruct p' fs') ids' -> p = p' /\ fs = fs' /\ ids = ids'.
Proof.
  intros nd p fs ids p' fs' ids' W W' E. cbn [lab_wf] in W, W'.
  apply andb_true_iff in W as [W _]. apply andb_true_iff in W as [W Wf]. apply andb_true_iff in W as [Wl Wp].
  apply andb_true_iff in W' as [W' _]. apply andb_true_iff in W' as [W' Wf']. apply andb_true_iff in W' as [Wl' Wp'].
  apply Nat.eqb_eq in Wl, Wl'. apply forallb_Forall in Wf, Wf'.
  destruct (clean_no _ Wp) as [_ [Np _]]. destruct (clean_no _ Wp') as [_ [Np' _]].
  rewrite !key_struct in E. injection E as E. rewrite <- !app_assoc in E. cbn [app] in E.
  apply split_first in E as [E1 E]; auto. apply L_inj in E1.
  rewrite (map_zip_fst _ (fun x => escape c_dollar (raw (fst x) (snd x))) fs ids) in E.
  2:{ intros a b Ha. cbn [fst snd]. apply fk_raw. rewrite Forall_forall in Wf. specialize (Wf a Ha).
      unfold fh_wf in Wf. apply andb_true_iff in Wf. tauto. }
  rewrite (map_zip_fst _ (fun x => escape c_dollar (raw (fst x) (snd x))) fs' ids') in E.
  2:{ intros a b Ha. cbn [fst snd]. apply fk_raw. rewrite Forall_forall in Wf'. specialize (Wf' a Ha).
      unfold fh_wf in Wf'. apply andb_true_iff in Wf'. tauto. }
  rewrite <- !(map_map (fun x => raw (fst x) (snd x)) (escape c_dollar)) in E.
  apply join_esc_inj in E; [|exact dollar_ne_bslash| |].
  - destruct (zip_map_inj (fun f => fh_wf f = true) (fun x => raw (fst x) (snd x))) with (xs := fs) (ys := ids) (xs' := fs') (ys' := ids')
      as [A B]; auto.
    intros a b a' b' Ha Ha' Er. cbn [fst snd] in Er. now apply raw_inj.
  - apply Forall_forall. intros a Ha. apply in_map_iff in Ha as [x [<- _]]. apply raw_nonempty.
  - apply Forall_forall. intros a Ha. apply in_map_iff in Ha as [x [<- _]]. apply raw_nonempty.
Qed.

Lemma iface_key_inj : forall nd ms ids ms' ids',
  lab_wf nd (LIface ms) (List.length ids) = true -> lab_wf nd (LIface ms') (List.length ids') = true ->
  key_of (LIface ms) ids = key_of (LIface ms') ids' -> ms = ms' /\ ids = ids'.
Proof.
  intros nd ms ids ms' ids' W W' E. cbn [lab_wf] in W, W'.
  apply andb_true_iff in W as [Wl Wf]. apply andb_true_iff in W' as [Wl' Wf'].
  apply Nat.eqb_eq in Wl, Wl'. apply forallb_Forall in Wf, Wf'.
  rewrite !key_iface in E. injection E as E.
  apply join_plain_inj in E.
  - destruct (zip_map_inj (fun m => mh_wf m = true) (fun x => itok (fst x) (snd x))) with (xs := ms) (ys := ids) (xs' := ms') (ys' := ids')
      as [A B]; auto.
    intros a b a' b' Ha Ha' Er. cbn [fst snd] in Er. now apply itok_inj.
  - apply Forall_forall. intros a Ha. apply in_map_iff in Ha as [x [<- Hx]].
    assert (F : Forall (fun x => mh_wf (fst x) = true) (zip ms ids)) by (apply (Forall_zip_fst (fun m => mh_wf m = true)); auto).
    rewrite Forall_forall in F. apply itok_plain. now apply F.
  - apply Forall_forall. intros a Ha. apply in_map_iff in Ha as [x [<- Hx]].
    assert (F : Forall (fun x => mh_wf (fst x) = true) (zip ms' ids')) by (apply (Forall_zip_fst (fun m => mh_wf m = true)); auto).
    rewrite Forall_forall in F. apply itok_plain. now apply F.
Qed.

Lemma dec_tokens : forall ids, Forall (fun a => ~ In c_comma a /\ a <> []) (map dec ids).
Proof.
  intros ids. apply Forall_forall. intros a Ha. apply in_map_iff in Ha as [n [<- _]].
  split; [apply dec_no; apply comma_not_digit|apply dec_nonempty].
Qed.

Lemma func_key_inj : forall nd np v ids np' v' ids',
  lab_wf nd (LFunc np v) (List.length ids) = true -> lab_wf nd (LFunc np' v') (List.length ids') = true ->
  key_of (LFunc np v) ids = key_of (LFunc np' v') ids' -> np = np' /\ v = v' /\ ids = ids'.
Proof.
  intros nd np v ids np' v' ids' W W' E. cbn [lab_wf] in W, W'. apply Nat.leb_le in W, W'.
  rewrite !key_func in E. injection E as E. cbn [app] in E.
  assert (ND : forall l, ~ In c_dollar (join [c_comma] (map dec l))).
  { intro l. apply join_dec_no; [apply dollar_not_digit|]. cbn. intros [H|[]]. discriminate. }
  apply split_first in E as [E1 E]; auto.
  apply split_first in E as [E2 E]; auto.
  apply join_plain_inj in E1; auto using dec_tokens. apply join_plain_inj in E2; auto using dec_tokens.
  apply map_dec_inj in E1, E2.
  assert (Ev : v = v') by (destruct v, v'; cbn in E; congruence || discriminate).
  assert (Ei : ids = ids') by (rewrite <- (firstn_skipn (N.to_nat np) ids), <- (firstn_skipn (N.to_nat np') ids'); congruence).
  assert (En : N.to_nat np = N.to_nat np').
  { assert (H1 := firstn_length_le ids W). assert (H2 := firstn_length_le ids' W'). congruence. }
  repeat split; auto. lia.
Qed.

(* ------------------------------------------------------------------ all eight constructors *)
Lemma dec_dollar_inj : forall a b a' b', dec a ++ [c_dollar] ++ dec b = dec a' ++ [c_dollar] ++ dec b' -> a = a' /\ b = b'.
Proof.
  intros a b a' b' E. cbn [app] in E.
  apply split_first in E as [E1 E2]; try (apply dec_no; apply dollar_not_digit).
  apply dec_inj in E1, E2. auto.
Qed.

Theorem key_inj : forall nd l ids l' ids' ck,
  composite l = true -> composite l' = true ->
  lab_wf nd l (List.length ids) = true -> lab_wf nd l' (List.length ids') = true ->
  key_of l ids = Some ck -> key_of l' ids' = Some ck -> l = l' /\ ids = ids'.
Proof.
  intros nd l ids l' ids' ck C C' W W' K K'.
  assert (E : key_of l ids = key_of l' ids') by congruence. clear K K'.
  destruct l; try discriminate C.
  - (* ptr *) cbn [lab_wf] in W. apply Nat.eqb_eq in W. apply len1 in W as [e ->].
    destruct l'; try discriminate C'; cbn [lab_wf] in W';
      try (apply Nat.eqb_eq in W'; (apply len1 in W' as [e' ->] || apply len2 in W' as [k' [e' ->]]); try discriminate E).
    + cbn in E. injection E as E. apply dec_inj in E. subst. auto.
    + apply andb_true_iff in W' as [W' _]. apply Nat.eqb_eq in W'. apply len1 in W' as [e' ->]. destruct send, recv; discriminate E.
    + discriminate E.
    + discriminate E.
    + discriminate E.
  - (* slice *) cbn [lab_wf] in W. apply Nat.eqb_eq in W. apply len1 in W as [e ->].
    destruct l'; try discriminate C'; cbn [lab_wf] in W';
      try (apply Nat.eqb_eq in W'; (apply len1 in W' as [e' ->] || apply len2 in W' as [k' [e' ->]]); try discriminate E).
    + cbn in E. injection E as E. apply dec_inj in E. subst. auto.
    + apply andb_true_iff in W' as [W' _]. apply Nat.eqb_eq in W'. apply len1 in W' as [e' ->]. destruct send, recv; discriminate E.
    + discriminate E.
    + discriminate E.
    + discriminate E.
  - (* array *) cbn [lab_wf] in W. apply Nat.eqb_eq in W. apply len1 in W as [e ->].
    destruct l'; try discriminate C'; cbn [lab_wf] in W';
      try (apply Nat.eqb_eq in W'; (apply len1 in W' as [e' ->] || apply len2 in W' as [k' [e' ->]]); try discriminate E).
    + cbn in E. injection E as E. apply dec_dollar_inj in E as [-> ->]. auto.
    + apply andb_true_iff in W' as [W' _]. apply Nat.eqb_eq in W'. apply len1 in W' as [e' ->]. destruct send, recv; discriminate E.
    + discriminate E.
    + discriminate E.
    + discriminate E.
  - (* map *) cbn [lab_wf] in W. apply Nat.eqb_eq in W. apply len2 in W as [k [e ->]].
    destruct l'; try discriminate C'; cbn [lab_wf] in W';
      try (apply Nat.eqb_eq in W'; (apply len1 in W' as [e' ->] || apply len2 in W' as [k' [e' ->]]); try discriminate E).
    + cbn in E. injection E as E. apply dec_dollar_inj in E as [-> ->]. auto.
    + apply andb_true_iff in W' as [W' _]. apply Nat.eqb_eq in W'. apply len1 in W' as [e' ->]. destruct send, recv; discriminate E.
    + discriminate E.
    + discriminate E.
    + discriminate E.
  - (* chan *) cbn [lab_wf] in W. apply andb_true_iff in W as [W Wd]. apply Nat.eqb_eq in W. apply len1 in W as [e ->].
    destruct l'; try discriminate C'; cbn [lab_wf] in W';
      try (apply Nat.eqb_eq in W'; (apply len1 in W' as [e' ->] || apply len2 in W' as [k' [e' ->]]); destruct send, recv; discriminate E).
    + apply andb_true_iff in W' as [W' Wd']. apply Nat.eqb_eq in W'. apply len1 in W' as [e' ->].
      destruct send, recv, send0, recv0; try discriminate Wd; try discriminate Wd'; try discriminate E;
        cbn in E; injection E as E; apply dec_inj in E; subst; auto.
    + destruct send, recv; discriminate E.
    + destruct send, recv; discriminate E.
    + destruct send, recv; discriminate E.
  - (* func *)
    destruct l'; try discriminate C'; cbn [lab_wf] in W';
      try (apply Nat.eqb_eq in W'; (apply len1 in W' as [e' ->] || apply len2 in W' as [k' [e' ->]]); discriminate E).
    + apply andb_true_iff in W' as [W' _]. apply Nat.eqb_eq in W'. apply len1 in W' as [e' ->]. destruct send, recv; discriminate E.
    + destruct (func_key_inj nd np variadic ids np0 variadic0 ids') as [-> [-> ->]]; auto.
    + discriminate E.
    + discriminate E.
  - (* struct *)
    destruct l'; try discriminate C'; cbn [lab_wf] in W';
      try (apply Nat.eqb_eq in W'; (apply len1 in W' as [e' ->] || apply len2 in W' as [k' [e' ->]]); discriminate E).
    + apply andb_true_iff in W' as [W' _]. apply Nat.eqb_eq in W'. apply len1 in W' as [e' ->]. destruct send, recv; discriminate E.
    + discriminate E.
    + destruct (struct_key_inj nd pkg fs ids pkg0 fs0 ids') as [-> [-> ->]]; auto.
    + discriminate E.
  - (* interface *)
    destruct l'; try discriminate C'; cbn [lab_wf] in W';
      try (apply Nat.eqb_eq in W'; (apply len1 in W' as [e' ->] || apply len2 in W' as [k' [e' ->]]); discriminate E).
    + apply andb_true_iff in W' as [W' _]. apply Nat.eqb_eq in W'. apply len1 in W' as [e' ->]. destruct send, recv; discriminate E.
    + discriminate E.
    + discriminate E.
    + destruct (iface_key_inj nd ms ids ms0 ids') as [-> ->]; auto.
Qed.

Lemma key_some : forall nd l ids, composite l = true -> lab_wf nd l (List.length ids) = true -> exists ck, key_of l ids = Some ck.
Proof.
  intros nd l ids C W. destruct l; try discriminate C; cbn [lab_wf] in W;
    try (apply Nat.eqb_eq in W; (apply len1 in W as [e ->] || apply len2 in W as [k [e ->]]); eexists; reflexivity);
    try (eexists; reflexivity).
  apply andb_true_iff in W as [W _]. apply Nat.eqb_eq in W. apply len1 in W as [e ->]. eexists; reflexivity.
Qed.

(* ------------------------------------------------------------------ Go's label identity = equality on well-formed labels *)
Lemma fh_eqb_eq : forall a b, fh_eqb a b = true -> a = b.
Proof.
  intros [n e x t] [n' e' x' t'] H. unfold fh_eqb in H. cbn in H.
  repeat (apply andb_true_iff in H as [H ?]).
  apply String.eqb_eq in H. apply Bool.eqb_prop in H2, H1. apply String.eqb_eq in H0. subst. reflexivity.
Qed.
Lemma mh_eqb_eq : forall a b, mh_eqb a b = true -> a = b.
Proof.
  intros [n p] [n' p'] H. unfold mh_eqb in H. cbn in H. apply andb_true_iff in H as [H1 H2].
  apply String.eqb_eq in H1, H2. subst. reflexivity.
Qed.
Lemma list_eqb_eq : forall {A} (e : A -> A -> bool), (forall a b, e a b = true -> a = b) ->
  forall a b, list_eqb e a b = true -> a = b.
Proof.
  intros A e He. induction a as [|x a IH]; intros [|y b] H; cbn in H; try discriminate; auto.
  apply andb_true_iff in H as [H1 H2]. apply He in H1. apply IH in H2. subst. reflexivity.
Qed.
Lemma list_eqb_refl : forall {A} (e : A -> A -> bool), (forall a, e a a = true) -> forall a, list_eqb e a a = true.
Proof. intros A e He. induction a; cbn; auto. now rewrite He, IHa. Qed.
Lemma fh_eqb_refl : forall a, fh_eqb a a = true.
Proof. intros [n e x t]. unfold fh_eqb. cbn. now rewrite !String.eqb_refl, !Bool.eqb_reflx. Qed.
Lemma mh_eqb_refl : forall a, mh_eqb a a = true.
Proof. intros [n p]. unfold mh_eqb. cbn. now rewrite !String.eqb_refl. Qed.

Lemma lab_ident_refl : forall l, lab_ident l l = true.
Proof.
  destruct l; cbn; auto using N.eqb_refl.
  - now rewrite !Bool.eqb_reflx.
  - now rewrite N.eqb_refl, Bool.eqb_reflx.
  - rewrite (list_eqb_refl fh_eqb fh_eqb_refl), String.eqb_refl. now rewrite orb_true_r.
  - apply (list_eqb_refl mh_eqb mh_eqb_refl).
Qed.

Lemma lab_ident_eq : forall nd l l' n n', lab_wf nd l n = true -> lab_wf nd l' n' = true -> lab_ident l l' = true -> l = l'.
Proof.
  intros nd l l' n n' W W' H. destruct l, l'; try discriminate H; cbn [lab_ident] in H; auto.
  - apply N.eqb_eq in H. now subst.
  - apply N.eqb_eq in H. now subst.
  - apply N.eqb_eq in H. now subst.
  - apply andb_true_iff in H as [H1 H2]. apply Bool.eqb_prop in H1, H2. now subst.
  - apply andb_true_iff in H as [H1 H2]. apply N.eqb_eq in H1. apply Bool.eqb_prop in H2. now subst.
  - apply andb_true_iff in H as [H1 H2]. apply (list_eqb_eq fh_eqb fh_eqb_eq) in H1. subst fs0.
    cbn [lab_wf] in W, W'. apply andb_true_iff in W as [_ W]. apply andb_true_iff in W' as [_ W'].
    apply orb_true_iff in H2 as [H2|H2].
    + rewrite H2 in W, W'. cbn in W, W'. apply String.eqb_eq in W, W'. now subst.
    + apply String.eqb_eq in H2. now subst.
  - apply (list_eqb_eq mh_eqb mh_eqb_eq) in H. now subst.
Qed.
