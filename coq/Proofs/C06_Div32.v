(* C06 — / and % templates of the kinds of at most 32 bits *)
From Coq Require Import ZArith Znumtheory Bool List Lia ZifyBool.
From Verif Require Import Base.C06_JsNum Model.C06_Prelude64 Model.C06_Spec Gen.C06_Tables Model.C06_Templates Proofs.C06_Arith Proofs.C06_Fix.
Import ListNotations.
Local Open Scope Z_scope.

(* ---- / and % ---------------------------------------------------------------------- *)
Ltac Zify.zify_post_hook ::= Z.to_euclidean_division_equations.

Lemma inf_eq : inf = PInf. Proof. reflexivity. Qed.
Lemma ninf_eq : ninf = NInf. Proof. reflexivity. Qed.

Definition quo_trunc (k : kind) (q : Z) : Z := if signed k then to_int32 q else to_uint32 q.

Lemma quo_core_fin : forall k x y, - two53 <= x <= two53 -> - two53 <= y <= two53 ->
  quo_core k (Fin x) (Fin y) = if y =? 0 then Throw DivideByZero else Ret (Fin (quo_trunc k (Z.quot x y))).
Proof.
  intros k x y Bx By. unfold quo_core, js_div. cbn [jval jneg_sign]. rewrite inf_eq, ninf_eq.
  destruct (Z.eqb_spec y 0) as [Ey | Ey].
  - destruct (Z.eqb_spec x 0); [reflexivity |]. destruct (xorb (x <? 0) (y <? 0)); reflexivity.
  - destruct (Z.eqb_spec x 0) as [Ex | Ex].
    + subst x. rewrite Z.quot_0_l by assumption. unfold quo_trunc.
      destruct (xorb (0 <? 0) (y <? 0)); destruct (signed k); reflexivity.
    + assert (G : (Z.abs x <=? two53) && (Z.abs y <=? two53) = true) by (unfold two53 in *; lia).
      rewrite G. unfold quo_trunc.
      destruct (Z.eqb_spec (Z.rem x y) 0).
      * cbn [js_seq js_sne ext_of ext_eq jb_not option_map jb_and]. rewrite Z.eqb_refl. cbn [negb js_ite].
        destruct (signed k); reflexivity.
      * cbn [js_seq js_sne jb_not option_map jb_and]. rewrite !Z.eqb_refl. cbn [andb negb js_ite option_map].
        destruct (signed k); reflexivity.
Qed.

(* the quotient of two values of a kind is in range, except min / -1 for signed kinds *)
Lemma quot_in_range : forall k x y, in_range k x -> in_range k y -> y <> 0 ->
  ~ (signed k = true /\ x = kmin k /\ y = -1) -> in_range k (Z.quot x y).
Proof.
  intros k x y Rx Ry Hy Hn. unfold in_range, kmin, kmax in *. pose proof (bits_pos k) as Bp.
  assert (P : 0 < 2 ^ (bits k - 1)) by (apply Z.pow_pos_nonneg; lia).
  assert (P2 : 0 < 2 ^ bits k) by (apply Z.pow_pos_nonneg; lia).
  destruct (signed k).
  - assert (N : ~ (x = - 2 ^ (bits k - 1) /\ y = -1)) by (intros [A B]; apply Hn; auto).
    set (m := 2 ^ (bits k - 1)) in *. clearbody m. clear Hn Bp P2.
    pose proof (Z.quot_rem' x y). pose proof (Z.rem_bound_abs x y Hy).
    assert (Z.abs (Z.quot x y) <= Z.abs x).
    { destruct (Z.eq_dec x 0); [subst; rewrite Z.quot_0_l by assumption; lia |].
      rewrite <- Z.quot_abs by assumption. apply Z.quot_le_upper_bound; [lia | nia]. }
    destruct (Z.eq_dec y (-1)).
    + subst y. change (Z.quot x (-1)) with (Z.quot x (- (1))) in *. rewrite Z.quot_opp_r, Z.quot_1_r in * by lia. lia.
    + destruct (Z.eq_dec (Z.quot x y) m); [| lia].
      exfalso. assert (Z.abs x = m) by lia. nia.
  - set (m := 2 ^ bits k) in *. clearbody m.
    split.
    + apply Z.quot_pos; lia.
    + assert (Z.quot x y <= x) by (apply Z.quot_le_upper_bound; nia). lia.
Qed.

Definition quo_defect_free (V : variant) (k : kind) (x y : Z) : Prop :=
  v_quo V = true \/ small_signed k = false \/ ~ (x = kmin k /\ y = -1).

Lemma quo32_correct : forall V k x y, is64 k = false -> in_range k x -> in_range k y ->
  quo_defect_free V k x y ->
  bin32 V k Quo (Fin x) (Fin y) = embed (go_bin k Quo x y).
Proof.
  intros V k x y H Rx Ry D. cbn [bin32 go_bin].
  pose proof (in_range_53 k x H Rx) as Bx. pose proof (in_range_53 k y H Ry) as By.
  rewrite quo_core_fin by assumption.
  destruct (Z.eqb_spec y 0) as [Ey | Ey].
  - destruct (v_quo V && small_signed k); reflexivity.
  - cbn [embed].
    destruct (v_quo V && small_signed k) eqn:F.
    + cbn [bind]. rewrite fixnum_fin by assumption. do 2 f_equal. unfold quo_trunc.
      destruct (signed k); [apply wrap_to_int32 | apply wrap_to_uint32]; destruct k; try discriminate H; cbn; lia.
    + do 2 f_equal. unfold quo_trunc.
      destruct (signed k) eqn:S.
      * (* signed *)
        destruct (small_signed k) eqn:SS.
        -- (* int8 / int16: in range unless (min, -1) *)
           assert (N : ~ (x = kmin k /\ y = -1)).
           { destruct D as [D | [D | D]]; [rewrite D in F; cbn in F; discriminate F | rewrite SS in D; discriminate D | exact D]. }
           assert (R : in_range k (Z.quot x y)) by (apply quot_in_range; try assumption; intros [_ [A B]]; apply N; auto).
           rewrite (wrap_id k _ R). apply to_int32_id. apply (in_range_s32 k); assumption.
        -- (* int32 / int: ToInt32 is the wrap *)
           destruct k; try discriminate H; try discriminate S; try discriminate SS; reflexivity.
      * (* unsigned: the quotient is in range *)
        assert (R : in_range k (Z.quot x y)) by (apply quot_in_range; try assumption; intros [A _]; rewrite S in A; discriminate A).
        rewrite (wrap_id k _ R). apply to_uint32_id. pose proof (in_range_32 k _ H R). rewrite in_range_u in R by assumption. unfold two32, two31 in *; lia.
Qed.

(* the defect: with the original translation, int8/int16 MinInt / -1 leaves the range *)
Lemma quo_int8_refuted : forall V, v_quo V = false ->
  bin32 V Int8 Quo (Fin (-128)) (Fin (-1)) = Ret (Fin 128) /\ go_bin Int8 Quo (-128) (-1) = GVal (-128).
Proof. intros V E. cbn [bin32]. rewrite E. split; reflexivity. Qed.
Lemma quo_int16_refuted : forall V, v_quo V = false ->
  bin32 V Int16 Quo (Fin (-32768)) (Fin (-1)) = Ret (Fin 32768) /\ go_bin Int16 Quo (-32768) (-1) = GVal (-32768).
Proof. intros V E. cbn [bin32]. rewrite E. split; reflexivity. Qed.

(* remainder *)
Lemma rem_in_range : forall k x y, in_range k x -> in_range k y -> y <> 0 -> in_range k (Z.rem x y).
Proof.
  intros k x y Rx Ry Hy. unfold in_range, kmin, kmax in *.
  pose proof (Z.rem_bound_abs x y Hy). pose proof (Z.rem_sign_nz x y).
  destruct (signed k).
  - set (m := 2 ^ (bits k - 1)) in *. clearbody m.
    destruct (Z.eq_dec (Z.rem x y) 0) as [E | E]; [rewrite E; lia |].
    assert (Z.sgn (Z.rem x y) = Z.sgn x) by (apply Z.rem_sign_nz; assumption). lia.
  - set (m := 2 ^ bits k) in *. clearbody m.
    assert (0 <= Z.rem x y) by (apply Z.rem_nonneg; lia). lia.
Qed.

Lemma rem_core_fin : forall x y,
  rem_core (Fin x) (Fin y) =
  if y =? 0 then Throw DivideByZero
  else Ret (if Z.rem x y =? 0 then (if x <? 0 then NZ else Fin 0) else Fin (Z.rem x y)).
Proof.
  intros x y. unfold rem_core, js_rem. cbn [jval jneg_sign].
  destruct (Z.eqb_spec y 0); [reflexivity |].
  destruct (Z.eqb_spec (Z.rem x y) 0).
  - destruct (x <? 0); reflexivity.
  - cbn [js_seq ext_of ext_eq]. rewrite Z.eqb_refl. reflexivity.
Qed.

Definition rem_defect_free (V : variant) (x y : Z) : Prop := v_rem V = true \/ ~ (x < 0 /\ Z.rem x y = 0).

Lemma rem32_correct : forall V k x y, is64 k = false -> in_range k x -> in_range k y ->
  rem_defect_free V x y ->
  bin32 V k Rem (Fin x) (Fin y) = embed (go_bin k Rem x y).
Proof.
  intros V k x y H Rx Ry D. cbn [bin32 go_bin]. rewrite rem_core_fin.
  destruct (Z.eqb_spec y 0) as [Ey | Ey]; [destruct (v_rem V); reflexivity |].
  cbn [embed]. destruct (v_rem V) eqn:F.
  - cbn [bind]. f_equal.
    destruct (Z.eqb_spec (Z.rem x y) 0) as [E | E].
    + rewrite E. destruct (x <? 0); [apply fixnum_nz; assumption |].
      rewrite fixnum_fin by assumption. f_equal. apply wrap_id. unfold in_range, kmin, kmax; destruct k; cbn; lia.
    + rewrite fixnum_fin by assumption. f_equal. apply wrap_id. apply rem_in_range; assumption.
  - do 2 f_equal. destruct (Z.eqb_spec (Z.rem x y) 0) as [E | E]; [| reflexivity].
    rewrite E. destruct (Z.ltb_spec x 0); [| reflexivity].
    exfalso. destruct D as [D | D]; [rewrite F in D; discriminate D | apply D; split; assumption].
Qed.

(* numerically the remainder is always right: the only deviation is the sign of a zero *)
Definition res_value (r : res jsnum) : option (gres Z) :=
  match r with
  | Ret a => match jval a with Some v => Some (GVal v) | None => None end
  | Throw DivideByZero => Some GPanicDivide
  | _ => None
  end.

Lemma rem32_value_correct : forall V k x y, is64 k = false -> in_range k x -> in_range k y ->
  res_value (bin32 V k Rem (Fin x) (Fin y)) = Some (go_bin k Rem x y).
Proof.
  intros V k x y H Rx Ry. destruct (v_rem V) eqn:F.
  - rewrite rem32_correct by (try assumption; left; assumption). cbn [go_bin]. destruct (y =? 0); reflexivity.
  - cbn [bin32 go_bin]. rewrite F, rem_core_fin. destruct (Z.eqb_spec y 0); [reflexivity |].
    cbn [res_value]. destruct (Z.eqb_spec (Z.rem x y) 0) as [E | E]; [rewrite E; destruct (x <? 0); reflexivity | reflexivity].
Qed.

Lemma rem_refuted : forall V, v_rem V = false ->
  bin32 V Int32 Rem (Fin (-4)) (Fin 2) = Ret NZ /\ go_bin Int32 Rem (-4) 2 = GVal 0.
Proof. intros V E. cbn [bin32]. rewrite E. split; reflexivity. Qed.
