(* C02 — the resumable form without suspensions computes what the direct semantics computes:
   [call_direct sp] (the source program run structurally) is simulated by [call (compile sp) never]
   (the flat machine on the translator's output when no receive ever suspends).
   Together with Proofs/C02_Flat.suspend_invisible and Proofs/C02_Compile.compile_wf this closes
   C02_full_statement for the stage-1 fragment. *)
From Coq Require Import List ZArith Bool Arith Lia.
From Verif Require Import Model.C02_Blocking Model.C02_Flat Model.C02_Wf.
From Verif Require Import Proofs.C02_Blocking Proofs.C02_Flat Proofs.C02_Compile.
Import ListNotations.

(* ------------------------------------------------------------------ exec: marks and strictness are irrelevant *)
Fixpoint strip (s : stmt) : stmt :=
  match s with
  | SCall _ d f a => SCall false d f a
  | SSeq a b => SSeq (strip a) (strip b)
  | SIf _ c a => SIf false c (strip a)
  | SIfElse _ c a b => SIfElse false c (strip a) (strip b)
  | SFor _ l i c po bo => SFor false l (strip i) c (strip po) (strip bo)
  | x => x
  end.

Lemma exec_strip : forall callf st k s loc w, exec callf st k (strip s) loc w = exec callf st k s loc w.
Proof.
  intros callf st. induction k; intros s loc w; auto.
  destruct s; simpl; auto.
  - rewrite IHk. destruct (exec callf st k s1 loc w) as [[[o l] w1]|]; auto. destruct o; auto.
  - destruct (truthy _); auto.
  - destruct (truthy _); auto.
  - rewrite IHk. destruct (exec callf st k s1 loc w) as [[[o l] w1]|]; auto. destruct o; auto.
    destruct (truthy _); auto. rewrite IHk.
    destruct (exec callf st k s3 l w1) as [[[o2 l2] w2]|]; auto.
    cbv zeta. rewrite IHk.
    change (SFor false lbl SSkip c (strip s2) (strip s3)) with (strip (SFor m lbl SSkip c s2 s3)).
    destruct (exec callf st k s2 l2 w2) as [[[o3 l3] w3]|].
    + destruct o3; try rewrite IHk; destruct o2; auto.
    + destruct o2; auto.
Qed.

Lemma strip_annot : forall bl s ctx, strip (fst (annot bl ctx s)) = strip s.
Proof.
  induction s; intros ctx; simpl; auto.
  - specialize (IHs1 ctx); specialize (IHs2 ctx). destruct (annot bl ctx s1), (annot bl ctx s2). simpl in *. congruence.
  - specialize (IHs ctx). destruct (annot bl ctx s). simpl in *. congruence.
  - specialize (IHs1 ctx); specialize (IHs2 ctx). destruct (annot bl ctx s1), (annot bl ctx s2). simpl in *. congruence.
  - specialize (IHs1 ctx); specialize (IHs2 ctx).
    destruct (annot bl ctx s1) as [i' bi], (annot bl ctx s2) as [po' bp].
    specialize (IHs3 ((lbl, bp) :: ctx)). destruct (annot bl ((lbl, bp) :: ctx) s3). simpl in *. congruence.
Qed.

Lemma exec_annot : forall callf st k bl ctx s loc w,
  exec callf st k (fst (annot bl ctx s)) loc w = exec callf st k s loc w.
Proof. intros. rewrite <- exec_strip, strip_annot, exec_strip. auto. Qed.

Lemma exec_strict_eq : forall callf k s loc w, has_yield s = false ->
  exec callf true k s loc w = exec callf false k s loc w.
Proof.
  intros callf. induction k; intros s loc w Hy; auto.
  destruct s; simpl in *; auto; try discriminate;
    repeat match goal with h : _ || _ = false |- _ => apply orb_false_iff in h; destruct h end.
  - rewrite IHk by auto. destruct (exec callf false k s1 loc w) as [[[o l] w1]|]; auto. destruct o; auto.
  - destruct (truthy _); auto.
  - destruct (truthy _); auto.
  - rewrite IHk by auto. destruct (exec callf false k s1 loc w) as [[[o l] w1]|]; auto. destruct o; auto.
    destruct (truthy _); auto. rewrite IHk by auto.
    destruct (exec callf false k s3 l w1) as [[[o2 l2] w2]|]; auto.
    cbv zeta. rewrite IHk by auto.
    destruct (exec callf false k s2 l2 w2) as [[[o3 l3] w3]|].
    + destruct o3; try (rewrite (IHk (SFor m lbl SSkip c s2 s3)) by (simpl; rewrite H1, H0; auto)); destruct o2; auto.
    + destruct o2; auto.
Qed.

(* a body that ends with return / break / continue never completes normally *)
Lemma exec_terminated : forall callf st k s loc w l w',
  is_terminated s = true -> exec callf st k s loc w = Some (ONormal, l, w') -> False.
Proof.
  intros callf st. induction k; intros s loc w l w' Ht H; [discriminate|].
  destruct s; simpl in *; try discriminate.
  - destruct (exec callf st k s1 loc w) as [[[o l1] w1]|]; [|discriminate].
    destruct o; try discriminate. unfold is_terminated in Ht. simpl in Ht. eapply IHk; eauto.
Qed.

Lemma ends_with_return_terminated : forall s, ends_with_return s = true -> is_terminated s = true.
Proof. unfold ends_with_return, is_terminated. intros s. destruct (last_stmt s); auto; discriminate. Qed.

Lemma for_split : forall callf st k m lbl init c po bo loc w r,
  exec callf st (S k) (SFor m lbl init c po bo) loc w = Some r ->
  exists l1 w1, exec callf st k init loc w = Some (ONormal, l1, w1) /\
                exec callf st (S k) (SFor m lbl SSkip c po bo) l1 w1 = Some r.
Proof.
  intros. simpl in H.
  destruct (exec callf st k init loc w) as [[[o l1] w1]|] eqn:E; [|discriminate].
  destruct o; try discriminate. exists l1, w1. split; auto.
  destruct k; [discriminate|]. simpl. simpl in H. auto.
Qed.

(* ------------------------------------------------------------------ exec under a family of call functions *)
Section ExecSim.
  Variable c1 : fname -> list Z -> world -> option (Z * world).
  Variable c2 : nat -> fname -> list Z -> world -> option (Z * world).
  Hypothesis c2_mono : forall m m' g a w r, c2 m g a w = Some r -> m <= m' -> c2 m' g a w = Some r.
  Hypothesis Hc : forall g a w r, c1 g a w = Some r -> exists m, c2 m g a w = Some r.
  Variable st : bool.

  Lemma exec2_mono : forall m k m' k' s loc w r,
    exec (c2 m) st k s loc w = Some r -> m <= m' -> k <= k' -> exec (c2 m') st k' s loc w = Some r.
  Proof.
    intros. eapply exec_mono; eauto. intros g a w0 r0 Hg. eapply c2_mono; eauto.
  Qed.

  Lemma exec_callf_sim : forall k s loc w r,
    exec c1 st k s loc w = Some r -> exists m k', exec (c2 m) st k' s loc w = Some r.
  Proof.
    induction k; intros s loc w r H; [discriminate|].
    destruct s; simpl in H.
    - exists 0, 1; auto.
    - exists 0, 1; auto.
    - exists 0, 1; auto.
    - exists 0, 1; auto.
    - exists 0, 1; auto.
    - destruct (c1 f _ w) as [[v w1]|] eqn:E; [|discriminate].
      destruct (Hc _ _ _ _ E) as [m Hm]. exists m, 1. simpl. rewrite Hm. auto.
    - destruct (exec c1 st k s1 loc w) as [[[o l] w1]|] eqn:E1; [|discriminate].
      destruct (IHk _ _ _ _ E1) as [m1 [k1 A1]].
      destruct o.
      + destruct (IHk _ _ _ _ H) as [m2 [k2 A2]].
        exists (m1 + m2), (S (k1 + k2)). simpl.
        rewrite (exec2_mono _ _ (m1 + m2) (k1 + k2) _ _ _ _ A1) by lia.
        apply (exec2_mono _ _ (m1 + m2) (k1 + k2) _ _ _ _ A2); lia.
      + exists m1, (S k1). simpl. rewrite A1. auto.
      + exists m1, (S k1). simpl. rewrite A1. auto.
      + exists m1, (S k1). simpl. rewrite A1. auto.
    - destruct (truthy (eval c loc w)) eqn:Et.
      + destruct (IHk _ _ _ _ H) as [m1 [k1 A1]]. exists m1, (S k1). simpl. rewrite Et. auto.
      + exists 0, 1. simpl. rewrite Et. auto.
    - destruct (truthy (eval c loc w)) eqn:Et;
        destruct (IHk _ _ _ _ H) as [m1 [k1 A1]]; exists m1, (S k1); simpl; rewrite Et; auto.
    - destruct (exec c1 st k s1 loc w) as [[[o l] w1]|] eqn:E1; [|discriminate].
      destruct o; try discriminate.
      destruct (IHk _ _ _ _ E1) as [m1 [k1 A1]].
      destruct (truthy (eval c l w1)) eqn:Et.
      2:{ exists m1, (S k1). simpl. rewrite A1, Et. auto. }
      destruct (exec c1 st k s3 l w1) as [[[o2 l2] w2]|] eqn:E2; [|discriminate].
      destruct (IHk _ _ _ _ E2) as [m2 [k2 A2]].
      assert (Again : forall y,
                match exec c1 st k s2 l2 w2 with
                | Some (ONormal, l3, w3) => exec c1 st k (SFor m lbl SSkip c s2 s3) l3 w3
                | Some _ => None | None => None end = Some y ->
                exists m3 k3, forall m' k', m3 <= m' -> k3 <= k' ->
                match exec (c2 m') st k' s2 l2 w2 with
                | Some (ONormal, l3, w3) => exec (c2 m') st k' (SFor m lbl SSkip c s2 s3) l3 w3
                | Some _ => None | None => None end = Some y).
      { intros y Hy. destruct (exec c1 st k s2 l2 w2) as [[[o3 l3] w3]|] eqn:E3; [|discriminate].
        destruct o3; try discriminate.
        destruct (IHk _ _ _ _ E3) as [m3 [k3 A3]]. destruct (IHk _ _ _ _ Hy) as [m4 [k4 A4]].
        exists (m3 + m4), (k3 + k4). intros m' k' Hm' Hk'.
        rewrite (exec2_mono _ _ m' k' _ _ _ _ A3) by lia.
        apply (exec2_mono _ _ m' k' _ _ _ _ A4); lia. }
      assert (Wrap : forall mm kk y, m1 + m2 <= mm -> k1 + k2 <= kk ->
                 match o2 with
                 | ONormal => match exec (c2 mm) st kk s2 l2 w2 with
                              | Some (ONormal, l3, w3) => exec (c2 mm) st kk (SFor m lbl SSkip c s2 s3) l3 w3
                              | Some _ => None | None => None end
                 | OContinue l0 => if targets l0 lbl then
                                match exec (c2 mm) st kk s2 l2 w2 with
                                | Some (ONormal, l3, w3) => exec (c2 mm) st kk (SFor m lbl SSkip c s2 s3) l3 w3
                                | Some _ => None | None => None end else Some (o2, l2, w2)
                 | OBreak l0 => if targets l0 lbl then Some (ONormal, l2, w2) else Some (o2, l2, w2)
                 | OReturn _ => Some (o2, l2, w2)
                 end = Some y ->
                 exec (c2 mm) st (S kk) (SFor m lbl s1 c s2 s3) loc w = Some y).
      { intros mm kk y Hmm Hkk Hy. simpl.
        rewrite (exec2_mono _ _ mm kk _ _ _ _ A1) by lia. rewrite Et.
        rewrite (exec2_mono _ _ mm kk _ _ _ _ A2) by lia. destruct o2; auto. }
      destruct o2.
      + destruct (Again _ H) as [m3 [k3 A3]].
        exists (m1 + m2 + m3), (S (k1 + k2 + k3)). apply Wrap; try lia. apply A3; lia.
      + destruct (targets l0 lbl).
        * exists (m1 + m2), (S (k1 + k2)). apply Wrap; try lia. auto.
        * exists (m1 + m2), (S (k1 + k2)). apply Wrap; try lia. auto.
      + destruct (targets l0 lbl).
        * destruct (Again _ H) as [m3 [k3 A3]].
          exists (m1 + m2 + m3), (S (k1 + k2 + k3)). apply Wrap; try lia. apply A3; lia.
        * exists (m1 + m2), (S (k1 + k2)). apply Wrap; try lia. auto.
      + exists (m1 + m2), (S (k1 + k2)). apply Wrap; try lia. auto.
    - exists 0, 1; auto.
    - exists 0, 1; auto.
    - exists 0, 1; auto.
  Qed.
End ExecSim.

Lemma find_case_label : forall pre n rest,
  NoDup (labels (pre ++ ILbl n :: rest)) -> find_case n (pre ++ ILbl n :: rest) = Some rest.
Proof.
  induction pre; intros n rest H; simpl.
  - rewrite Nat.eqb_refl. auto.
  - assert (Hin : In n (labels (pre ++ ILbl n :: rest))).
    { clear. induction pre; simpl; auto. destruct a; simpl; auto. }
    destruct a; simpl in H; try (apply IHpre; auto; fail).
    + inversion H; subst. destruct (Nat.eqb n0 n) eqn:E; [apply Nat.eqb_eq in E; subst; contradiction|]. apply IHpre; auto.
    + inversion H; subst. destruct (Nat.eqb n0 n) eqn:E; [apply Nat.eqb_eq in E; subst; contradiction|]. apply IHpre; auto.
Qed.

(* ------------------------------------------------------------------ the simulation *)
Section Correct.
  Variable sp : sprog.
  Hypothesis SRC : src_ok sp = true.

  Let bl := blocking_flags sp.
  Let P := compile sp.

  Lemma P_wf : wf_prog P.
  Proof. apply compile_wf; auto. Qed.

  Definition F (m : nat) := call P never m.

  Definition FCalls (g : fname) (a : list Z) (w : world) (v : Z) (w' : world) : Prop :=
    exists m, F m (Fresh (CFn g) a) w = Some (Done v, w').

  Definition sim_at (n : nat) : Prop :=
    forall g a w v w', call_direct sp n g a w = Some (v, w') -> FCalls g a w v w'.

  Lemma F_mono : forall m m' en w r, F m en w = Some r -> m <= m' -> F m' en w = Some r.
  Proof. intros. eapply call_mono; eauto. Qed.

  Lemma F_le : forall m m', m <= m' -> ecall_le (F m) (F m').
  Proof. intros m m' H en w r Hr. eapply F_mono; eauto. Qed.

  Lemma nb_mono : forall m m' g a w r, callf_nb (F m) g a w = Some r -> m <= m' -> callf_nb (F m') g a w = Some r.
  Proof. intros. eapply callf_nb_le; eauto. apply F_le; auto. Qed.

  Section AtN.
    Variable n : nat.
    Hypothesis IHn : sim_at n.

    Lemma nb_sim : forall g a w r, call_direct sp n g a w = Some r -> exists m, callf_nb (F m) g a w = Some r.
    Proof.
      intros g a w [v w'] H. destruct (IHn _ _ _ _ _ H) as [m Hm]. exists m. unfold callf_nb. rewrite Hm. auto.
    Qed.

    (* direct execution of a yield-free statement is reproduced by the strict execution used inside the flat machine *)
    Lemma exec_flat : forall k s loc w r,
      exec (call_direct sp n) false k s loc w = Some r -> has_yield s = false ->
      exists m k', forall m' k'', m <= m' -> k' <= k'' -> exec (callf_nb (F m')) true k'' s loc w = Some r.
    Proof.
      intros k s loc w r H Hy.
      destruct (exec_callf_sim (call_direct sp n) (fun m => callf_nb (F m)) nb_mono nb_sim false _ _ _ _ _ H) as [m [k' A]].
      exists m, k'. intros m' k'' Hm Hk. rewrite exec_strict_eq by auto.
      eapply (exec2_mono (fun m => callf_nb (F m)) nb_mono); eauto.
    Qed.

    Section InFn.
      Variable fid np : nat.
      Variable code : list instr.
      Hypothesis Hcode : nth_error P fid = Some (FFlat np code).

      Lemma code_ok : forallb (instr_okb P) code = true /\ NoDup (labels code).
      Proof. exact (wf_fn_ok P fid _ P_wf Hcode). Qed.

      Definition Runs (cur : list instr) (loc : list Z) (w : world) (res : result) (wf : world) : Prop :=
        exists m k, run_code (F m) code fid k cur loc false FLeaf w = Some (res, wf).

      Lemma Runs_mono : forall cur loc w res wf m k m' k',
        run_code (F m) code fid k cur loc false FLeaf w = Some (res, wf) -> m <= m' -> k <= k' ->
        run_code (F m') code fid k' cur loc false FLeaf w = Some (res, wf).
      Proof. intros. eapply run_code_mono; eauto. apply F_le; auto. Qed.

      Lemma R_nil : forall loc w, Runs [] loc w (Done 0%Z) w.
      Proof. intros. exists 0, 1. auto. Qed.

      Lemma R_lbl : forall n0 rest loc w res wf, Runs rest loc w res wf -> Runs (ILbl n0 :: rest) loc w res wf.
      Proof. intros n0 rest loc w res wf [m [k H]]. exists m, (S k). auto. Qed.

      Lemma R_goto : forall n0 rest cur loc w res wf,
        find_case n0 code = Some cur -> Runs cur loc w res wf -> Runs (IGoto n0 :: rest) loc w res wf.
      Proof. intros n0 rest cur loc w res wf Hf [m [k H]]. exists m, (S k). simpl. rewrite Hf. auto. Qed.

      Lemma R_ifgoto_t : forall c n0 rest cur loc w res wf, truthy (eval c loc w) = true ->
        find_case n0 code = Some cur -> Runs cur loc w res wf -> Runs (IIfGoto c n0 :: rest) loc w res wf.
      Proof. intros c n0 rest cur loc w res wf Ht Hf [m [k H]]. exists m, (S k). simpl. rewrite Ht, Hf. auto. Qed.

      Lemma R_ifgoto_f : forall c n0 rest loc w res wf, truthy (eval c loc w) = false ->
        Runs rest loc w res wf -> Runs (IIfGoto c n0 :: rest) loc w res wf.
      Proof. intros c n0 rest loc w res wf Ht [m [k H]]. exists m, (S k). simpl. rewrite Ht. auto. Qed.

      Lemma R_ifnot_t : forall c n0 rest loc w res wf, truthy (eval c loc w) = true ->
        Runs rest loc w res wf -> Runs (IIfNotGoto c n0 :: rest) loc w res wf.
      Proof. intros c n0 rest loc w res wf Ht [m [k H]]. exists m, (S k). simpl. rewrite Ht. auto. Qed.

      Lemma R_ifnot_f : forall c n0 rest cur loc w res wf, truthy (eval c loc w) = false ->
        find_case n0 code = Some cur -> Runs cur loc w res wf -> Runs (IIfNotGoto c n0 :: rest) loc w res wf.
      Proof. intros c n0 rest cur loc w res wf Ht Hf [m [k H]]. exists m, (S k). simpl. rewrite Ht, Hf. auto. Qed.

      Lemma R_ret : forall e rest loc w, Runs (IRet e :: rest) loc w (Done (eval e loc w)) w.
      Proof. intros. exists 0, 1. auto. Qed.

      Lemma R_call : forall dst ce args n0 rest loc w v w1 res wf,
        (exists m, F m (Fresh ce (map (fun a => eval a loc w) args)) w = Some (Done v, w1)) ->
        Runs rest (set_dst dst v loc) w1 res wf ->
        Runs (ICall dst ce args n0 :: rest) loc w res wf.
      Proof.
        intros dst ce args n0 rest loc w v w1 res wf [m1 H1] [m2 [k2 H2]].
        exists (m1 + m2), (S k2). simpl.
        rewrite (F_mono _ (m1 + m2) _ _ _ H1) by lia.
        eapply Runs_mono; eauto; lia.
      Qed.

      Lemma lbl_at : forall pre n0 rest, code = pre ++ ILbl n0 :: rest -> find_case n0 code = Some rest.
      Proof. intros. destruct code_ok as [_ Hnd]. subst code. apply find_case_label; auto. Qed.

      Lemma instr_at : forall pre i rest, code = pre ++ i :: rest -> instr_okb P i = true.
      Proof.
        intros pre i rest H. destruct code_ok as [Hok _]. rewrite H in Hok.
        rewrite forallb_app in Hok. apply andb_true_iff in Hok as [_ Hok]. simpl in Hok.
        apply andb_true_iff in Hok as [Hok _]. auto.
      Qed.

      (* what has to happen after a statement, by outcome *)
      Definition Kont (ctx : list flow) (post : list instr) (o : outcome) (l' : list Z) (w' : world)
                 (res : result) (wf : world) : Prop :=
        match o with
        | ONormal => Runs post l' w' res wf
        | OBreak l => exists fl cur, find_flow l ctx = Some fl /\ find_case (fl_end fl) code = Some cur /\ Runs cur l' w' res wf
        | OContinue l => exists fl cur kp l'' w'',
            find_flow l ctx = Some fl /\
            exec (call_direct sp n) false kp (fl_post fl) l' w' = Some (ONormal, l'', w'') /\
            find_case (fl_begin fl) code = Some cur /\ Runs cur l'' w'' res wf
        | OReturn v => res = Done v /\ wf = w'
        end.

      (* a statement emitted in direct form *)
      Lemma IS : forall ctx s pre rest k loc w o l' w' res wf,
        code = pre ++ IStruct ctx s :: rest ->
        exec (call_direct sp n) false k s loc w = Some (o, l', w') ->
        Kont ctx rest o l' w' res wf -> Runs (IStruct ctx s :: rest) loc w res wf.
      Proof.
        intros ctx s pre rest k loc w o l' w' res wf Hc He HK.
        pose proof (instr_at _ _ _ Hc) as Hi. simpl in Hi. apply andb_true_iff in Hi as [Hd Hpo].
        apply dok_elim in Hd as [_ Hy].
        destruct (exec_flat _ _ _ _ _ He Hy) as [m1 [k1 A1]].
        destruct o; simpl in HK.
        - destruct HK as [m2 [k2 H2]]. exists (m1 + m2), (S (k1 + k2)). simpl.
          rewrite A1 by lia. eapply Runs_mono; eauto; lia.
        - destruct HK as [fl [cur [Hf [Hfc [m2 [k2 H2]]]]]]. exists (m1 + m2), (S (k1 + k2)). simpl.
          rewrite A1 by lia. rewrite Hf, Hfc. eapply Runs_mono; eauto; lia.
        - destruct HK as [fl [cur [kp [l'' [w'' [Hf [Hp [Hfc [m2 [k2 H2]]]]]]]]]].
          rewrite forallb_forall in Hpo.
          pose proof (Hpo l (exec_continue_label _ _ _ _ _ _ _ _ _ He [] eq_refl)) as Hl.
          unfold post_okb in Hl. rewrite Hf in Hl. apply dok_elim in Hl as [_ Hyp].
          destruct (exec_flat _ _ _ _ _ Hp Hyp) as [m3 [k3 A3]].
          exists (m1 + m2 + m3), (S (k1 + k2 + k3)). simpl.
          rewrite A1 by lia. rewrite Hf. rewrite A3 by lia. rewrite Hfc. eapply Runs_mono; eauto; lia.
        - destruct HK as [-> ->]. exists m1, (S k1). simpl. rewrite A1 by lia. auto.
      Qed.

      (* a simple statement translated by flat_simple (loop post statements) *)
      Lemma SS : forall po ctx cc pre rest kp loc w l'' w'' res wf,
        code = pre ++ fst (flat_simple po ctx cc) ++ rest ->
        exec (call_direct sp n) false kp po loc w = Some (ONormal, l'', w'') ->
        Runs rest l'' w'' res wf -> Runs (fst (flat_simple po ctx cc) ++ rest) loc w res wf.
      Proof.
        intros po ctx cc pre rest kp loc w l'' w'' res wf Hc He HR.
        destruct kp; [discriminate|].
        destruct po; simpl in Hc |- *;
          try (eapply IS; [exact Hc | exact He | exact HR]; fail).
        - (* SSkip *) simpl in He. inversion He; subst. auto.
        - (* SYield *) simpl in He. inversion He; subst.
          eapply R_call; [|exact HR]. exists 1. reflexivity.
        - (* SCall *) destruct b; simpl in Hc |- *; [|eapply IS; [exact Hc | exact He | exact HR]].
          simpl in He. destruct (call_direct sp n f _ w) as [[v w1]|] eqn:E; [|discriminate].
          inversion He; subst. eapply R_call; [|exact HR]. apply (IHn _ _ _ _ _ E).
      Qed.

      Ltac norm_app := repeat (rewrite <- app_assoc; simpl); try reflexivity.

      Definition FC_at (k : nat) : Prop :=
        forall s ctx cc pre post loc w o l' w' res wf,
          code = pre ++ fst (flatten s ctx cc) ++ post ->
          exec (call_direct sp n) false k s loc w = Some (o, l', w') ->
          Kont ctx post o l' w' res wf ->
          Runs (fst (flatten s ctx cc) ++ post) loc w res wf.

      Definition mkfl (lbl : option label) (c0 : nat) (po : stmt) : flow :=
        {| fl_lbl := lbl; fl_begin := c0; fl_end := S c0; fl_post := po |}.

      (* the part of a flattened loop after `case c0: if(!(c)) {...}` *)
      Definition loop_tail (lbl : option label) (c0 : nat) (po bo : stmt) (ctx : list flow) : list instr :=
        let fl := mkfl lbl c0 po in
        let '(ib, c1) := flatten bo (fl :: ctx) (c0 + 2) in
        ib ++ (if is_terminated bo then [] else fst (flat_simple po (fl :: ctx) c1) ++ [IGoto c0]) ++ [ILbl (S c0)].

      Lemma flatten_for_shape : forall lbl init c po bo ctx cc,
        fst (flatten (SFor true lbl init c po bo) ctx cc) =
        fst (flatten init ctx cc) ++ ILbl (snd (flatten init ctx cc)) :: IIfNotGoto c (S (snd (flatten init ctx cc)))
          :: loop_tail lbl (snd (flatten init ctx cc)) po bo ctx.
      Proof.
        intros. simpl. destruct (flatten init ctx cc) as [ii c0]. simpl.
        unfold loop_tail, mkfl.
        destruct (flatten bo _ (c0 + 2)) as [ib c1].
        destruct (is_terminated bo); simpl.
        - norm_app.
        - destruct (flat_simple po _ c1) as [ip c2]. simpl. norm_app.
      Qed.

      Definition LL_at (k : nat) : Prop :=
        forall m0 lbl c po bo ctx c0 pre post loc w o l' w' res wf,
          code = pre ++ ILbl c0 :: IIfNotGoto c (S c0) :: loop_tail lbl c0 po bo ctx ++ post ->
          exec (call_direct sp n) false k (SFor m0 lbl SSkip c po bo) loc w = Some (o, l', w') ->
          Kont ctx post o l' w' res wf ->
          Runs (IIfNotGoto c (S c0) :: loop_tail lbl c0 po bo ctx ++ post) loc w res wf.

      Lemma Kont_skip : forall fl ctx post post' l o l' w' res wf,
        (o = OBreak l \/ o = OContinue l) -> targets l (fl_lbl fl) = false ->
        Kont ctx post o l' w' res wf -> Kont (fl :: ctx) post' o l' w' res wf.
      Proof.
        intros fl ctx post post' l o l' w' res wf [->| ->] Ht HK; simpl in *; rewrite Ht; auto.
      Qed.

      Lemma LL_step : forall k, FC_at k -> LL_at k -> LL_at (S k).
      Proof.
        intros k HFC HLL m0 lbl c po bo ctx c0 pre post loc w o l' w' res wf Hc He HK.
        set (fl := mkfl lbl c0 po).
        assert (Hbeg : find_case c0 code = Some (IIfNotGoto c (S c0) :: loop_tail lbl c0 po bo ctx ++ post)).
        { eapply lbl_at. exact Hc. }
        unfold loop_tail in *. fold fl in Hc, Hbeg |- *.
        destruct (flatten bo (fl :: ctx) (c0 + 2)) as [ib c1] eqn:Eb.
        set (X := if is_terminated bo then [] else fst (flat_simple po (fl :: ctx) c1) ++ [IGoto c0]) in *.
        assert (Hend : find_case (S c0) code = Some post).
        { apply (lbl_at (pre ++ ILbl c0 :: IIfNotGoto c (S c0) :: ib ++ X)). rewrite Hc. norm_app. }
        simpl in He.
        destruct (exec (call_direct sp n) false k SSkip loc w) as [[[o0 l0] w0]|] eqn:Es; [|discriminate].
        assert (o0 = ONormal /\ l0 = loc /\ w0 = w) as [-> [-> ->]] by (destruct k; simpl in Es; inversion Es; auto).
        destruct (truthy (eval c loc w)) eqn:Et.
        2:{ inversion He; subst. simpl in HK. eapply R_ifnot_f; eauto. }
        apply R_ifnot_t; auto.
        destruct (exec (call_direct sp n) false k bo loc w) as [[[ob l2] w2]|] eqn:Ebo; [|discriminate].
        assert (Hcb : code = (pre ++ [ILbl c0; IIfNotGoto c (S c0)]) ++ fst (flatten bo (fl :: ctx) (c0 + 2)) ++ (X ++ [ILbl (S c0)] ++ post)).
        { rewrite Eb. simpl. rewrite Hc. norm_app. }
        assert (Hgoal : Runs (fst (flatten bo (fl :: ctx) (c0 + 2)) ++ (X ++ [ILbl (S c0)] ++ post)) loc w res wf ->
                        Runs ((ib ++ X ++ [ILbl (S c0)]) ++ post) loc w res wf).
        { rewrite Eb. simpl. intros HR. replace ((ib ++ X ++ [ILbl (S c0)]) ++ post) with (ib ++ X ++ ILbl (S c0) :: post); auto. norm_app. }
        apply Hgoal. eapply HFC; [exact Hcb | exact Ebo |].
        (* what `again` gives: the post statement runs, then the loop is re-entered at case c0 *)
        assert (Again : match exec (call_direct sp n) false k po l2 w2 with
                        | Some (ONormal, l3, w3) => exec (call_direct sp n) false k (SFor m0 lbl SSkip c po bo) l3 w3
                        | Some _ => None | None => None end = Some (o, l', w') ->
                        exists l3 w3, exec (call_direct sp n) false k po l2 w2 = Some (ONormal, l3, w3) /\
                          Runs (IIfNotGoto c (S c0) :: (ib ++ X ++ [ILbl (S c0)]) ++ post) l3 w3 res wf).
        { intros Hy. destruct (exec (call_direct sp n) false k po l2 w2) as [[[o3 l3] w3]|] eqn:Ep; [|discriminate].
          destruct o3; try discriminate. exists l3, w3. split; auto.
          pose proof (HLL m0 lbl c po bo ctx c0 pre post l3 w3 o l' w' res wf) as H. unfold loop_tail in H. fold fl in H.
          rewrite Eb in H. apply H; auto. }
        destruct ob.
        - (* the body completed: post statement, then `$s = c0; continue` *)
          destruct (Again He) as [l3 [w3 [Ep HR]]].
          assert (Hnt : is_terminated bo = false).
          { destruct (is_terminated bo) eqn:E; auto. exfalso. eapply exec_terminated; eauto. }
          unfold X in *. rewrite Hnt in *. simpl.
          replace ((fst (flat_simple po (fl :: ctx) c1) ++ [IGoto c0]) ++ ILbl (S c0) :: post)
            with (fst (flat_simple po (fl :: ctx) c1) ++ (IGoto c0 :: ILbl (S c0) :: post)) by norm_app.
          eapply (SS po (fl :: ctx) c1 (pre ++ ILbl c0 :: IIfNotGoto c (S c0) :: ib)); [| exact Ep |].
          + rewrite Hc. norm_app.
          + eapply R_goto; eauto.
        - (* break *)
          destruct (targets l lbl) eqn:Etg.
          + inversion He; subst. simpl in HK. simpl. rewrite Etg. exists fl, post. auto.
          + inversion He; subst. eapply Kont_skip; eauto.
        - (* continue *)
          destruct (targets l lbl) eqn:Etg.
          + destruct (Again He) as [l3 [w3 [Ep HR]]]. simpl. rewrite Etg.
            exists fl, (IIfNotGoto c (S c0) :: (ib ++ X ++ [ILbl (S c0)]) ++ post), k, l3, w3. auto.
          + inversion He; subst. eapply Kont_skip; eauto.
        - inversion He; subst. exact HK.
      Qed.

      Lemma FC_step : forall k, FC_at k -> LL_at (S k) -> FC_at (S k).
      Proof.
        intros k HFC HLL s ctx cc pre post loc w o l' w' res wf Hc He HK.
        destruct s as [ | x e | g e | e | | b dst f args | s1 s2 | m c s1 | m c s1 s2 | m lbl init c po bo | l | l | e ].
        - (* SSkip *) simpl in *. inversion He; subst. exact HK.
        - eapply IS; [exact Hc | exact He | exact HK].
        - eapply IS; [exact Hc | exact He | exact HK].
        - eapply IS; [exact Hc | exact He | exact HK].
        - (* SYield *) simpl in *. inversion He; subst. simpl in HK.
          eapply R_call; [|exact HK]. exists 1. reflexivity.
        - (* SCall *)
          destruct b; [|eapply IS; [exact Hc | exact He | exact HK]].
          simpl in *. destruct (call_direct sp n f _ w) as [[v w1]|] eqn:E; [|discriminate].
          inversion He; subst. simpl in HK. eapply R_call; [|exact HK]. apply (IHn _ _ _ _ _ E).
        - (* SSeq *)
          simpl in Hc |- *. destruct (flatten s1 ctx cc) as [ia c1] eqn:E1. destruct (flatten s2 ctx c1) as [ib c2] eqn:E2.
          simpl in Hc |- *. simpl in He.
          destruct (exec (call_direct sp n) false k s1 loc w) as [[[oa la] wa]|] eqn:Ea; [|discriminate].
          replace ((ia ++ ib) ++ post) with (fst (flatten s1 ctx cc) ++ (ib ++ post)) by (rewrite E1; norm_app).
          eapply (HFC s1 ctx cc pre); [rewrite E1; simpl; rewrite Hc; norm_app | exact Ea |].
          destruct oa; try (inversion He; subst; exact HK).
          simpl. replace (ib ++ post) with (fst (flatten s2 ctx c1) ++ post) by (rewrite E2; auto).
          eapply (HFC s2 ctx c1 (pre ++ ia)); [rewrite E2; simpl; rewrite Hc; norm_app | exact He | exact HK].
        - (* SIf *)
          destruct m; [|eapply IS; [exact Hc | exact He | exact HK]].
          simpl in Hc |- *. destruct (flatten s1 ctx (cc + 2)) as [ia c1] eqn:E1. simpl in Hc |- *. simpl in He.
          assert (Hend : find_case (cc + 1) code = Some post).
          { apply (lbl_at (pre ++ IIfGoto c cc :: IGoto (cc + 1) :: ILbl cc :: ia)). rewrite Hc. norm_app. }
          destruct (truthy (eval c loc w)) eqn:Et.
          + assert (Hbeg : find_case cc code = Some (ia ++ ILbl (cc + 1) :: post)).
            { apply (lbl_at (pre ++ [IIfGoto c cc; IGoto (cc + 1)])). rewrite Hc. norm_app. }
            eapply R_ifgoto_t; [exact Et | exact Hbeg |].
            replace (ia ++ ILbl (cc + 1) :: post) with (fst (flatten s1 ctx (cc + 2)) ++ (ILbl (cc + 1) :: post)) by (rewrite E1; auto).
            eapply (HFC s1 ctx (cc + 2) (pre ++ [IIfGoto c cc; IGoto (cc + 1); ILbl cc])); [rewrite E1; simpl; rewrite Hc; norm_app | exact He |].
            destruct o; try exact HK. simpl. apply R_lbl. exact HK.
          + inversion He; subst. simpl in HK. apply R_ifgoto_f; [exact Et|]. eapply R_goto; [exact Hend | exact HK].
        - (* SIfElse *)
          destruct m; [|eapply IS; [exact Hc | exact He | exact HK]].
          simpl in Hc |- *. destruct (flatten s1 ctx (cc + 3)) as [ia c1] eqn:E1. destruct (flatten s2 ctx c1) as [ib c2] eqn:E2.
          simpl in Hc |- *. simpl in He.
          set (J := if ends_with_return s1 then [] else [IGoto (cc + 2)]) in *.
          assert (Hend : find_case (cc + 2) code = Some post).
          { apply (lbl_at (pre ++ IIfGoto c cc :: IGoto (cc + 1) :: ILbl cc :: ia ++ J ++ ILbl (cc + 1) :: ib)). rewrite Hc. norm_app. }
          destruct (truthy (eval c loc w)) eqn:Et.
          + assert (Hbeg : find_case cc code = Some (ia ++ J ++ ILbl (cc + 1) :: ib ++ [ILbl (cc + 2)] ++ post)).
            { apply (lbl_at (pre ++ [IIfGoto c cc; IGoto (cc + 1)])). rewrite Hc. norm_app. }
            eapply R_ifgoto_t; [exact Et | exact Hbeg |].
            replace (ia ++ J ++ ILbl (cc + 1) :: ib ++ [ILbl (cc + 2)] ++ post)
              with (fst (flatten s1 ctx (cc + 3)) ++ (J ++ ILbl (cc + 1) :: ib ++ [ILbl (cc + 2)] ++ post)) by (rewrite E1; auto).
            eapply (HFC s1 ctx (cc + 3) (pre ++ [IIfGoto c cc; IGoto (cc + 1); ILbl cc])); [rewrite E1; simpl; rewrite Hc; norm_app | exact He |].
            destruct o; try exact HK. simpl.
            unfold J. destruct (ends_with_return s1) eqn:Er.
            * exfalso. eapply exec_terminated; [apply ends_with_return_terminated; exact Er | exact He].
            * simpl. eapply R_goto; [exact Hend | exact HK].
          + assert (Hdef : find_case (cc + 1) code = Some (ib ++ [ILbl (cc + 2)] ++ post)).
            { apply (lbl_at (pre ++ IIfGoto c cc :: IGoto (cc + 1) :: ILbl cc :: ia ++ J)). rewrite Hc. norm_app. }
            apply R_ifgoto_f; [exact Et|]. eapply R_goto; [exact Hdef|].
            replace (ib ++ [ILbl (cc + 2)] ++ post) with (fst (flatten s2 ctx c1) ++ (ILbl (cc + 2) :: post)) by (rewrite E2; auto).
            eapply (HFC s2 ctx c1 (pre ++ IIfGoto c cc :: IGoto (cc + 1) :: ILbl cc :: ia ++ J ++ [ILbl (cc + 1)])); [rewrite E2; simpl; rewrite Hc; norm_app | exact He |].
            destruct o; try exact HK. simpl. apply R_lbl. exact HK.
        - (* SFor *)
          destruct m; [|eapply IS; [exact Hc | exact He | exact HK]].
          rewrite flatten_for_shape in Hc |- *.
          destruct (for_split _ _ _ _ _ _ _ _ _ _ _ _ He) as [l1 [w1 [Hi Hl]]].
          set (c0 := snd (flatten init ctx cc)) in *.
          replace ((fst (flatten init ctx cc) ++ ILbl c0 :: IIfNotGoto c (S c0) :: loop_tail lbl c0 po bo ctx) ++ post)
            with (fst (flatten init ctx cc) ++ (ILbl c0 :: IIfNotGoto c (S c0) :: loop_tail lbl c0 po bo ctx ++ post)) by norm_app.
          eapply (HFC init ctx cc pre); [rewrite Hc; norm_app | exact Hi |].
          simpl. apply R_lbl.
          eapply (HLL true lbl c po bo ctx c0 (pre ++ fst (flatten init ctx cc))); [rewrite Hc; norm_app | exact Hl | exact HK].
        - (* SBreak *)
          simpl in Hc |- *. destruct (find_flow l ctx) as [fl|] eqn:Ef; [|eapply IS; [exact Hc | exact He | exact HK]].
          simpl in *. inversion He; subst. simpl in HK.
          destruct HK as [fl' [cur [Hf' [Hfc HR]]]]. rewrite Ef in Hf'. inversion Hf'; subst. eapply R_goto; [exact Hfc | exact HR].
        - (* SContinue *)
          simpl in Hc |- *. destruct (find_flow l ctx) as [fl|] eqn:Ef; [|eapply IS; [exact Hc | exact He | exact HK]].
          destruct (flat_simple (fl_post fl) ctx cc) as [ip c1] eqn:Ep. simpl in Hc |- *.
          simpl in He. inversion He; subst. simpl in HK.
          destruct HK as [fl' [cur [kp [l'' [w'' [Hf' [Hp [Hfc HR]]]]]]]]. rewrite Ef in Hf'. inversion Hf'; subst fl'.
          replace ((ip ++ [IGoto (fl_begin fl)]) ++ post) with (fst (flat_simple (fl_post fl) ctx cc) ++ (IGoto (fl_begin fl) :: post)) by (rewrite Ep; norm_app).
          eapply (SS (fl_post fl) ctx cc pre); [rewrite Ep; simpl; rewrite Hc; norm_app | exact Hp |].
          eapply R_goto; [exact Hfc | exact HR].
        - (* SReturn *)
          simpl in *. inversion He; subst. destruct HK as [-> ->]. apply R_ret.
      Qed.

      Lemma FC_LL_all : forall k, FC_at k /\ LL_at k.
      Proof.
        induction k.
        - split; intros until wf; intros Hc He; discriminate.
        - destruct IHk as [A B]. pose proof (LL_step k A B) as B'. split; auto. apply FC_step; auto.
      Qed.
    End InFn.
  End AtN.

  (* ---- function level *)
  Lemma nonblocking_direct : forall f fn, nth_error sp f = Some fn -> flag bl f = false ->
    nth_error P f = Some (FDirect (sf_nparams fn) (fst (annot bl [] (sf_body fn)))).
  Proof. intros f fn H Hb. unfold P, bl. rewrite (compile_nth sp f fn H). fold bl. rewrite Hb. auto. Qed.

  Lemma sim_all : forall n, sim_at n.
  Proof.
    induction n; intros g a w v w' H; [discriminate|].
    simpl in H. destruct (nth_error sp g) as [fn|] eqn:Eg; [|discriminate].
    pose proof (compile_nth sp g fn Eg) as Hp. fold bl in Hp. fold P in Hp.
    set (body' := fst (annot bl [] (sf_body fn))) in *.
    assert (He : exists o l', exec (call_direct sp n) false n body' a w = Some (o, l', w') /\
                    (o = OReturn v \/ (o = ONormal /\ v = 0%Z))).
    { unfold body'. rewrite exec_annot.
      destruct (exec (call_direct sp n) false n (sf_body fn) a w) as [[[o l'] w1]|]; [|discriminate].
      destruct o; simpl in H; inversion H; subst;
        [exists ONormal, l'; split; [reflexivity | right; auto] | exists (OReturn v), l'; split; [reflexivity | left; auto]]. }
    destruct He as [o [l' [He Ho]]].
    destruct (flag bl g) eqn:Eb; unfold flatten_fn in Hp.
    - (* resumable form *)
      destruct (flatten body' [] 1) as [code0 c1] eqn:Ef.
      set (ret := if ends_with_return body' then [] else [IRet (EConst 0)]) in *.
      destruct (FC_LL_all n IHn g (sf_nparams fn) (code0 ++ ret) Hp n) as [HFC _].
      assert (HR : Runs g (code0 ++ ret) (fst (flatten body' [] 1) ++ ret) a w (Done v) w').
      { eapply (HFC body' [] 1 []); [rewrite Ef; auto | exact He |].
        destruct Ho as [-> | [-> ->]]; simpl; auto.
        unfold ret. destruct (ends_with_return body'); [apply R_nil | apply R_ret]. }
      rewrite Ef in HR. simpl in HR. destruct HR as [m [k HR]].
      exists (S (m + k)). unfold F. simpl. fold P. rewrite Hp.
      eapply run_code_mono; [apply (F_le m (m + k)); lia | exact HR | lia].
    - (* direct form *)
      pose proof (wf_fn_ok P g _ P_wf Hp) as Hok. simpl in Hok. apply dok_elim in Hok as [_ Hy].
      destruct (exec_flat n IHn _ _ _ _ _ He Hy) as [m [k A]].
      exists (S (m + k)). unfold F. simpl. fold P. rewrite Hp.
      unfold F in A. rewrite (A (m + k) (m + k)) by lia.
      destruct Ho as [-> | [-> ->]]; auto.
  Qed.

  Theorem compile_direct_correct : forall n f args w v w',
    call_direct sp n f args w = Some (v, w') ->
    exists m, call (compile sp) never m (Fresh (CFn f) args) w = Some (Done v, w').
  Proof. intros. exact (sim_all n _ _ _ _ _ H). Qed.
End Correct.

(* ------------------------------------------------------------------ the full statement *)
Theorem run_direct_run_flat_never : forall sp nglob fuel main args o,
  src_ok sp = true ->
  run_direct sp nglob fuel main args = Some o ->
  exists fuel', run_flat (compile sp) never nglob fuel' main args = Some o.
Proof.
  intros sp nglob fuel main args o SRC H. unfold run_direct, run_flat in *.
  destruct (call_direct sp fuel main args (w0 nglob)) as [[v w']|] eqn:E; [|discriminate].
  destruct (compile_direct_correct sp SRC _ _ _ _ _ _ E) as [m Hm].
  exists (S m). unfold run_machine. rewrite (call_mono _ _ _ (S m) _ _ _ Hm) by lia. simpl. auto.
Qed.

Theorem flat_suspend_invariant : forall sp sched nglob fuel main args o,
  src_ok sp = true ->
  run_direct sp nglob fuel main args = Some o ->
  exists fuel', run_flat (compile sp) sched nglob fuel' main args = Some o.
Proof.
  intros sp sched nglob fuel main args o SRC H.
  destruct (run_direct_run_flat_never _ _ _ _ _ _ SRC H) as [f1 H1].
  eapply compile_schedule_independent; eauto.
Qed.
