(* C07 — $copyArray on one array with overlapping windows (copy(s[1:], s) and friends) has memmove semantics:
   every destination cell ends up with the ORIGINAL content of the corresponding source cell.
   Covers the typed-array branch (TypedArray.set) and the forwards / backwards element loops for elements that
   are not arrays/structs. *)
From Coq Require Import List ZArith Bool Arith Lia.
From Verif Require Import Model.C07_Heap Proofs.C07_Clone.
Import ListNotations.

Lemma nth_error_firstn_lt {A} (l : list A) n i : i < n -> nth_error (firstn n l) i = nth_error l i.
Proof. revert n i. induction l as [|x l IH]; intros [|n] [|i] H; simpl; try reflexivity; try lia. apply IH. lia. Qed.

Lemma nth_error_skipn_add {A} (l : list A) k i : nth_error (skipn k l) i = nth_error l (k + i).
Proof. revert l. induction k as [|k IH]; intros [|x l]; simpl; try reflexivity. - destruct i; reflexivity. - apply IH. Qed.

Lemma set_nth_spec {A} (l : list A) i v l' :
  set_nth l i v = Some l' -> length l' = length l /\ forall p, nth_error l' p = if Nat.eqb p i then Some v else nth_error l p.
Proof.
  revert i l'. induction l as [|x l IH]; intros [|i] l' H; simpl in H; try discriminate.
  - inversion H; subst. split; [reflexivity|]. intros [|p]; reflexivity.
  - destruct (set_nth l i v) as [r|] eqn:E; [|discriminate]. inversion H; subst.
    destruct (IH _ _ E) as [L P]. split; [simpl; lia|]. intros [|p]; simpl; [reflexivity | apply P].
Qed.

Lemma set_nth_some {A} (l : list A) i v : i < length l -> exists l', set_nth l i v = Some l'.
Proof.
  revert i. induction l as [|x l IH]; intros [|i] H; simpl in *; try lia; eauto.
  destruct (IH i) as [r E]; [lia|]. rewrite E. eauto.
Qed.

(* the pointwise memmove specification *)
Definition moved (cells cells' : list val) (dO sO lo hi : nat) : Prop :=
  length cells' = length cells /\
  forall p, nth_error cells' p =
            if (Nat.leb lo p && Nat.ltb p hi)%bool then nth_error cells (sO + (p - dO)) else nth_error cells p.

(* one step of either loop on the cell list *)
Definition lstep (dO sO : nat) (l : list val) (i : nat) : option (list val) :=
  match nth_error l (sO + i) with Some v => set_nth l (dO + i) v | None => None end.

Fixpoint lloop (dO sO : nat) (idx : list nat) (l : list val) : option (list val) :=
  match idx with
  | [] => Some l
  | i :: r => match lstep dO sO l i with Some l' => lloop dO sO r l' | None => None end
  end.

(* the heap loop of copy_array (same array, non-node elements) is the list loop on that array's cells *)
Lemma heap_loop_is_list_loop a ty dO sO idx : forall h cells h',
  lookup h a = Some (OArr ty cells) ->
  copy_loop (fun h i => match get_cell h a (sO + i) with
                        | Some sv => set_cell h a (dO + i) sv | None => None end) idx h = Some h' ->
  exists cells', lloop dO sO idx cells = Some cells' /\ lookup h' a = Some (OArr ty cells').
Proof.
  induction idx as [|i idx IH]; intros h cells h' L E; simpl in E.
  - inversion E; subst. exists cells. split; [reflexivity | assumption].
  - unfold get_cell, set_cell in E. rewrite L in E. simpl in E.
    destruct (nth_error cells (sO + i)) as [v|] eqn:N; [|discriminate].
    destruct (set_nth cells (dO + i) v) as [c1|] eqn:S1; [|discriminate].
    destruct (IH (store h a (OArr ty c1)) c1 h' (lookup_store_same _ _ _) E) as (cells' & LL & L').
    exists cells'. split; [|assumption]. simpl. unfold lstep. rewrite N, S1. assumption.
Qed.

(* forwards loop, destination below source *)
Lemma forward_ok dO sO cells : dO < sO -> forall m k l,
  sO + (k + m) <= length cells -> moved cells l dO sO dO (dO + k) ->
  lloop dO sO (seq k m) l = None \/ exists l', lloop dO sO (seq k m) l = Some l' /\ moved cells l' dO sO dO (dO + (k + m)).
Proof.
  intros Hlt. induction m as [|m IH]; intros k l Hlen [Ll Pl]; simpl.
  - right. exists l. split; [reflexivity|]. rewrite Nat.add_0_r. split; assumption.
  - unfold lstep.
    assert (Nk : nth_error l (sO + k) = nth_error cells (sO + k)).
    { rewrite Pl. replace (Nat.ltb (sO + k) (dO + k)) with false by (symmetry; apply Nat.ltb_ge; lia).
      rewrite andb_false_r. reflexivity. }
    rewrite Nk. destruct (nth_error cells (sO + k)) as [v|] eqn:Nv; [|left; reflexivity].
    destruct (set_nth l (dO + k) v) as [l1|] eqn:S1; [|left; reflexivity].
    destruct (set_nth_spec _ _ _ _ S1) as [L1 P1].
    destruct (IH (S k) l1) as [E|(l' & E & M)].
    + lia.
    + split; [lia|]. intros p. rewrite P1, Pl.
      destruct (Nat.eqb_spec p (dO + k)).
      * subst. replace (Nat.leb dO (dO + k) && Nat.ltb (dO + k) (dO + S k))%bool with true
          by (symmetry; apply andb_true_iff; split; [apply Nat.leb_le | apply Nat.ltb_lt]; lia).
        rewrite <- Nv. f_equal. lia.
      * destruct (Nat.leb_spec dO p); simpl; [|reflexivity].
        destruct (Nat.ltb_spec p (dO + k)), (Nat.ltb_spec p (dO + S k)); try reflexivity; lia.
    + left; assumption.
    + right. exists l'. split; [assumption|]. replace (k + S m) with (S k + m) by lia. assumption.
Qed.

(* backwards loop, destination above source: indices m-1, ..., 0 *)
Lemma backward_ok dO sO n cells : sO < dO -> dO + n <= length cells -> forall m l,
  m <= n -> moved cells l dO sO (dO + m) (dO + n) ->
  lloop dO sO (rev (seq 0 m)) l = None \/ exists l', lloop dO sO (rev (seq 0 m)) l = Some l' /\ moved cells l' dO sO dO (dO + n).
Proof.
  intros Hlt Hlen. induction m as [|m IH]; intros l Hm [Ll Pl].
  - right. exists l. split; [reflexivity|]. rewrite Nat.add_0_r in Pl. split; assumption.
  - rewrite seq_S, rev_app_distr. simpl. unfold lstep.
    assert (Nk : nth_error l (sO + m) = nth_error cells (sO + m)).
    { rewrite Pl. replace (Nat.leb (dO + S m) (sO + m)) with false by (symmetry; apply Nat.leb_gt; lia). reflexivity. }
    rewrite Nk. destruct (nth_error cells (sO + m)) as [v|] eqn:Nv; [|left; reflexivity].
    destruct (set_nth l (dO + m) v) as [l1|] eqn:S1; [|left; reflexivity].
    destruct (set_nth_spec _ _ _ _ S1) as [L1 P1].
    destruct (IH l1) as [E|(l' & E & M)].
    + lia.
    + split; [lia|]. intros p. rewrite P1, Pl.
      destruct (Nat.eqb_spec p (dO + m)).
      * subst. replace (Nat.leb (dO + m) (dO + m) && Nat.ltb (dO + m) (dO + n))%bool with true
          by (symmetry; apply andb_true_iff; split; [apply Nat.leb_le | apply Nat.ltb_lt]; lia).
        rewrite <- Nv. f_equal. lia.
      * destruct (Nat.leb_spec (dO + S m) p), (Nat.leb_spec (dO + m) p); simpl; try reflexivity; lia.
    + left; assumption.
    + right. exists l'. split; assumption.
Qed.

Lemma moved_refl cells dO sO lo : moved cells cells dO sO lo lo.
Proof.
  split; [reflexivity|]. intros p. destruct (Nat.leb_spec lo p), (Nat.ltb_spec p lo); simpl; try reflexivity; lia.
Qed.

Lemma nth_error_splice (l : list val) dO sO n p :
  sO + n <= length l -> dO + n <= length l ->
  nth_error (splice l dO (sublist l sO n)) p =
  if (Nat.leb dO p && Nat.ltb p (dO + n))%bool then nth_error l (sO + (p - dO)) else nth_error l p.
Proof.
  intros Hs Hd. unfold splice, sublist.
  assert (Ls : length (firstn n (skipn sO l)) = n) by (rewrite firstn_length, skipn_length; lia).
  rewrite Ls.
  destruct (Nat.leb_spec dO p); simpl.
  - rewrite nth_error_app2 by (rewrite firstn_length; lia). rewrite firstn_length, Nat.min_l by lia.
    destruct (Nat.ltb_spec p (dO + n)).
    + rewrite nth_error_app1 by lia. rewrite nth_error_firstn_lt by lia. apply nth_error_skipn_add.
    + rewrite nth_error_app2 by lia. rewrite Ls, nth_error_skipn_add. f_equal. lia.
  - rewrite nth_error_app1 by (rewrite firstn_length; lia). apply nth_error_firstn_lt. assumption.
Qed.

Theorem copy_array_memmove cp h a ty cells dO sO n h' :
  lookup h a = Some (OArr ty cells) -> sO + n <= length cells -> dO + n <= length cells ->
  copy_array cp false h a a dO sO n = Some h' ->
  exists cells', lookup h' a = Some (OArr ty cells') /\ length cells' = length cells /\
    forall p, nth_error cells' p =
              if (Nat.leb dO p && Nat.ltb p (dO + n))%bool then nth_error cells (sO + (p - dO)) else nth_error cells p.
Proof.
  intros L Hs Hd. unfold copy_array. rewrite Nat.eqb_refl. simpl andb.
  destruct (Nat.eqb_spec n 0) as [->|Hn0]; simpl orb.
  { intro E; inversion E; subst. exists cells. split; [assumption|]. split; [reflexivity|]. intro p.
    rewrite Nat.add_0_r. destruct (Nat.leb_spec dO p), (Nat.ltb_spec p dO); simpl; try reflexivity; lia. }
  destruct (Nat.eqb_spec dO sO) as [->|Hne].
  { intro E; inversion E; subst. exists cells. split; [assumption|]. split; [reflexivity|]. intro p.
    destruct (Nat.leb_spec sO p); simpl; [|reflexivity]. destruct (Nat.ltb_spec p (sO + n)); [|reflexivity]. f_equal. lia. }
  rewrite L. destruct ty.
  - (* typed array: set(subarray) *)
    replace (Nat.leb (sO + n) (length cells) && Nat.leb (dO + n) (length cells))%bool with true
      by (symmetry; apply andb_true_iff; split; apply Nat.leb_le; assumption).
    intro E; inversion E; subst. eexists. split; [apply lookup_store_same|]. split.
    + unfold splice, sublist. rewrite !app_length, firstn_length, firstn_length, !skipn_length. lia.
    + intro p. apply nth_error_splice; assumption.
  - intro E.
    destruct (heap_loop_is_list_loop a false dO sO _ h cells h' L E) as (cells' & LL & L').
    exists cells'. split; [assumption|].
    destruct (Nat.ltb_spec sO dO) as [Hlt|Hge].
    + destruct (backward_ok dO sO n cells Hlt Hd n cells (le_n _) (moved_refl _ _ _ _)) as [E0|(l' & E1 & [M1 M2])].
      * rewrite E0 in LL. discriminate.
      * rewrite E1 in LL. inversion LL; subst. split; assumption.
    + assert (Hlt : dO < sO) by lia.
      destruct (forward_ok dO sO cells Hlt n 0 cells) as [E0|(l' & E1 & [M1 M2])].
      * simpl. assumption.
      * rewrite Nat.add_0_r. apply moved_refl.
      * rewrite E0 in LL. discriminate.
      * rewrite E1 in LL. inversion LL; subst. split; assumption.
Qed.
