(* C02 — proofs about the blocking propagation model (Model/C02_Blocking.v). *)
From Coq Require Import List Bool Arith Lia.
From Verif Require Import Model.C02_Blocking.
Import ListNotations.

(* pointwise order on flag vectors of equal length *)
Definition ble (a b : list bool) : Prop := Forall2 (fun x y => x = true -> y = true) a b.

Lemma ble_refl : forall a, ble a a.
Proof. induction a; constructor; auto. Qed.

Lemma ble_trans : forall a b c, ble a b -> ble b c -> ble a c.
Proof.
  intros a b c H; revert c; induction H; intros c Hc; inversion Hc; subst; constructor; auto.
  apply IHForall2; auto.
Qed.

Lemma ble_antisym : forall a b, ble a b -> ble b a -> a = b.
Proof.
  intros a b H; induction H; intros Hb; auto.
  inversion Hb; subst. f_equal; auto.
  destruct x, y; auto;
    repeat match goal with h : ?a = ?a -> _ |- _ => specialize (h eq_refl) end; congruence.
Qed.

Lemma ble_length : forall a b, ble a b -> length a = length b.
Proof. intros a b H; induction H; simpl; auto. Qed.

Lemma ble_flag : forall a b i, ble a b -> flag a i = true -> flag b i = true.
Proof.
  unfold flag. intros a b i H; revert i; induction H; intros i Hi; destruct i; simpl in *; auto; discriminate.
Qed.

Lemma set_flag_ble : forall f bl, ble bl (set_flag f bl).
Proof.
  induction f; destruct bl; simpl; try constructor; auto; try apply ble_refl.
  apply IHf.
Qed.

Lemma set_flag_length : forall f bl, length (set_flag f bl) = length bl.
Proof. induction f; destruct bl; simpl; auto. Qed.

Lemma flag_set_flag_same : forall f bl, f < length bl -> flag (set_flag f bl) f = true.
Proof.
  unfold flag. induction f; destruct bl; simpl; intros; try lia; auto. apply IHf. lia.
Qed.

Lemma flag_set_flag_inv : forall f bl i, flag (set_flag f bl) i = true -> i = f \/ flag bl i = true.
Proof.
  unfold flag. induction f; destruct bl; simpl; intros i H; auto.
  - destruct i; auto.
  - destruct i; auto. destruct (IHf bl i H); auto.
Qed.

Lemma visit_ble : forall g f bl, ble bl (visit_caller g f bl).
Proof.
  intros. unfold visit_caller. destruct (nth_error g f); try apply ble_refl.
  destruct (existsb _ _); [apply set_flag_ble | apply ble_refl].
Qed.

Lemma pass_from_ble : forall g k f bl, ble bl (pass_from g k f bl).
Proof.
  induction k; intros; simpl; [apply ble_refl|].
  eapply ble_trans; [apply visit_ble | apply IHk].
Qed.

Lemma pass_ble : forall g bl, ble bl (pass g bl).
Proof. intros; apply pass_from_ble. Qed.

Fixpoint count_false (bl : list bool) : nat :=
  match bl with [] => 0 | b :: t => (if b then 0 else 1) + count_false t end.

Lemma count_false_ble : forall a b, ble a b -> count_false b <= count_false a.
Proof.
  intros a b H; induction H; simpl; auto.
  destruct x, y; simpl; try lia. all: try (specialize (H eq_refl); discriminate).
Qed.

Lemma count_false_eq : forall a b, ble a b -> count_false b = count_false a -> a = b.
Proof.
  intros a b H; induction H; simpl; intros E; auto.
  pose proof (count_false_ble _ _ H0).
  destruct x, y; simpl in *; try (f_equal; apply IHForall2; lia); try lia.
  all: try (specialize (H eq_refl); discriminate).
Qed.

Lemma list_beq_eq : forall a b, list_beq a b = true <-> a = b.
Proof.
  induction a; destruct b; simpl; split; intros; try discriminate; auto.
  - apply andb_true_iff in H as [H1 H2]. apply eqb_prop in H1. apply IHa in H2. subst; auto.
  - inversion H; subst. rewrite eqb_reflx. simpl. apply IHa; auto.
Qed.

(* ---- termination: [length g] passes always reach a genuine fixpoint of [pass] *)
Lemma iterate_fixpoint : forall k g bl, count_false bl <= k -> pass g (iterate k g bl) = iterate k g bl.
Proof.
  induction k; intros g bl Hk; simpl.
  - symmetry. apply count_false_eq; [apply pass_ble|].
    pose proof (count_false_ble _ _ (pass_ble g bl)). lia.
  - destruct (list_beq (pass g bl) bl) eqn:E.
    + apply list_beq_eq in E; auto.
    + apply IHk.
      pose proof (count_false_ble _ _ (pass_ble g bl)).
      assert (count_false (pass g bl) <> count_false bl).
      { intro Heq. apply count_false_eq in Heq; [|apply pass_ble].
        rewrite <- Heq in E at 1. assert (list_beq bl bl = true) by (apply list_beq_eq; auto). congruence. }
      lia.
Qed.

Lemma count_false_le_length : forall bl, count_false bl <= length bl.
Proof. induction bl; simpl; auto. destruct a; simpl; lia. Qed.

Lemma propagate_fixpoint : forall g, pass g (propagate g) = propagate g.
Proof.
  intros. unfold propagate. apply iterate_fixpoint.
  etransitivity; [apply count_false_le_length|]. unfold init_flags. rewrite map_length. auto.
Qed.

Lemma iterate_ble : forall k g bl, ble bl (iterate k g bl).
Proof.
  induction k; intros; simpl; [apply ble_refl|].
  destruct (list_beq _ _); [apply ble_refl|].
  eapply ble_trans; [apply pass_ble | apply IHk].
Qed.

Lemma propagate_length : forall g, length (propagate g) = length g.
Proof.
  intros. unfold propagate. rewrite <- (ble_length _ _ (iterate_ble _ _ _)).
  unfold init_flags. apply map_length.
Qed.

(* a pass that changes nothing means no caller had anything to add *)
Lemma pass_from_fix : forall g k f bl,
  pass_from g k f bl = bl -> forall i, i < k -> visit_caller g (f + i) bl = bl.
Proof.
  induction k; intros f bl H i Hi; [lia|].
  simpl in H.
  assert (Hv : visit_caller g f bl = bl).
  { apply ble_antisym; [|apply visit_ble].
    pose proof (pass_from_ble g k (S f) (visit_caller g f bl)) as P. rewrite H in P. exact P. }
  rewrite Hv in H.
  destruct i; [rewrite Nat.add_0_r; auto|].
  replace (f + S i) with (S f + i) by lia. apply IHk; auto. lia.
Qed.

Definition closed (g : graph) (bl : list bool) : Prop :=
  forall f nd, nth_error g f = Some nd -> existsb (flag bl) (callees nd) = true -> flag bl f = true.

Lemma fixpoint_closed : forall g bl, length bl = length g -> pass g bl = bl -> closed g bl.
Proof.
  intros g bl Hl H f nd Hf He.
  assert (Hlt : f < length g) by (apply nth_error_Some; congruence).
  pose proof (pass_from_fix g (length g) 0 bl H f Hlt) as Hv. simpl in Hv.
  unfold visit_caller in Hv. rewrite Hf, He in Hv.
  rewrite <- Hv. apply flag_set_flag_same. lia.
Qed.

Lemma propagate_closed : forall g, closed g (propagate g).
Proof. intros. apply fixpoint_closed; [apply propagate_length | apply propagate_fixpoint]. Qed.

Lemma init_flag_direct : forall g f, flag (init_flags g) f = true <-> is_direct g f.
Proof.
  unfold flag, init_flags, is_direct. induction g; intros f.
  - destruct f; simpl; split; intros H; try discriminate; destruct H as [nd [H _]]; discriminate.
  - destruct f; simpl.
    + split; intros H; [eexists; eauto | destruct H as [nd [H1 H2]]; inversion H1; subst; auto].
    + apply IHg.
Qed.

(* ---- soundness: whoever can reach a direct blocker is marked *)
Lemma propagate_sound : forall g f f',
  reaches g f f' -> is_direct g f' -> flag (propagate g) f = true.
Proof.
  intros g f f' H Hd. induction H.
  - eapply ble_flag; [apply iterate_ble|]. apply init_flag_direct; auto.
  - apply (propagate_closed g f nd H).
    apply existsb_exists. exists c; split; auto.
Qed.

(* ---- minimality: nothing is marked without a path to a direct blocker *)
Definition justified (g : graph) (bl : list bool) : Prop :=
  forall f, flag bl f = true -> exists f', reaches g f f' /\ is_direct g f'.

Lemma visit_justified : forall g f bl, justified g bl -> justified g (visit_caller g f bl).
Proof.
  intros g f bl J. unfold visit_caller.
  destruct (nth_error g f) as [nd|] eqn:Hf; auto.
  destruct (existsb (flag bl) (callees nd)) eqn:He; auto.
  intros i Hi. apply flag_set_flag_inv in Hi as [->|Hi]; auto.
  apply existsb_exists in He as [c [Hc Hfc]].
  destruct (J c Hfc) as [f' [Hr Hd]].
  exists f'; split; auto. econstructor; eauto.
Qed.

Lemma pass_from_justified : forall g k f bl, justified g bl -> justified g (pass_from g k f bl).
Proof. induction k; intros; simpl; auto. apply IHk. apply visit_justified; auto. Qed.

Lemma iterate_justified : forall k g bl, justified g bl -> justified g (iterate k g bl).
Proof.
  induction k; intros; simpl; auto.
  destruct (list_beq _ _); auto. apply IHk. apply pass_from_justified; auto.
Qed.

Lemma propagate_least : forall g f,
  flag (propagate g) f = true -> exists f', reaches g f f' /\ is_direct g f'.
Proof.
  intros g. apply iterate_justified.
  intros f Hf. exists f; split; [constructor | apply init_flag_direct; auto].
Qed.

Lemma passes_used_bound : forall k g bl, passes_used k g bl <= S k.
Proof.
  induction k; intros; simpl; auto.
  destruct (list_beq _ _); [lia|]. specialize (IHk g (pass g bl)). lia.
Qed.

(* any vector that contains the direct blockers and is closed under "a callee blocks" contains the result *)
Lemma propagate_minimal : forall g bl,
  (forall f, is_direct g f -> flag bl f = true) -> closed g bl ->
  forall f, flag (propagate g) f = true -> flag bl f = true.
Proof.
  intros g bl Hd Hc f Hf.
  destruct (propagate_least g f Hf) as [f' [Hr Hdf]]. clear Hf.
  induction Hr.
  - apply Hd; auto.
  - apply (Hc f nd H). apply existsb_exists. exists c; split; auto.
Qed.
