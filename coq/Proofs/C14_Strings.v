(* C14 — range loop, rune/byte conversions, slicing, indexing, string(int64), copy. *)
From Coq Require Import List NArith ZArith Bool Arith Lia ZifyN ZifyNat ZifyBool.
From Verif Require Import Model.C14_Utf8 Base.C14_Bits Proofs.C14_Decode Proofs.C14_Encode.
Import ListNotations.
Local Open Scope N_scope.
Ltac Zify.zify_post_hook ::= Z.div_mod_to_equations.


(* ---------- list helpers ---------- *)
Lemma skipn_skipn' {A} (l : list A) a b : skipn a (skipn b l) = skipn (b + a) l.
Proof. revert l. induction b; intros l; cbn; auto. destruct l; cbn; auto. destruct a; reflexivity. Qed.

Lemma skipn_length_app {A} (a b : list A) : skipn (length a) (a ++ b) = b.
Proof. induction a; cbn; auto. Qed.

Lemma firstn_length_app {A} (a b : list A) : firstn (length a) (a ++ b) = a.
Proof. induction a; cbn; congruence. Qed.

Lemma skipn_nil_iff {A} (l : list A) i : (i <= length l)%nat -> (skipn i l = [] <-> i = length l).
Proof.
  revert l; induction i; intros [|x l] H; cbn in *; split; intros; try congruence; try lia.
  - f_equal. apply IHi; auto. lia.
  - apply IHi; lia.
Qed.

(* ---------- the range loop ---------- *)
Fixpoint with_offsets (i : nat) (l : list (N * nat)) : list (nat * N * nat) :=
  match l with
  | [] => []
  | (r, w) :: l' => (i, r, w) :: with_offsets (i + w) l'
  end.

Fixpoint sum_widths (l : list (N * nat)) : nat :=
  match l with [] => O | (_, w) :: l' => (w + sum_widths l')%nat end.

Lemma spec_decode_width t r w : t <> [] -> spec_decode t = (r, w) -> (1 <= w <= length t)%nat.
Proof. intros H1 H2. destruct (spec_decode_facts t r w H1 H2) as (? & ? & _). lia. Qed.

Lemma range_from_spec fuel : forall s i, (i <= length s)%nat -> (length s - i <= fuel)%nat ->
  range_from fuel s i = with_offsets i (spec_runes_fuel fuel (skipn i s)).
Proof.
  induction fuel; intros s i Hi Hf.
  - reflexivity.
  - cbn [range_from spec_runes_fuel].
    destruct (Nat.ltb i (length s)) eqn:E.
    + apply Nat.ltb_lt in E.
      assert (Hne : skipn i s <> []) by (rewrite skipn_nil_iff by lia; lia).
      rewrite decode_rune_skipn, decode0_eq_spec.
      destruct (spec_decode (skipn i s)) as [r w] eqn:D.
      pose proof (spec_decode_width _ _ _ Hne D) as Hw. rewrite skipn_length in Hw.
      destruct (skipn i s) eqn:S; [congruence|]. rewrite <- S.
      cbn [with_offsets]. f_equal. rewrite skipn_skipn'. apply IHfuel; lia.
    + apply Nat.ltb_ge in E. assert (i = length s) by lia. subst i.
      rewrite skipn_all. reflexivity.
Qed.

Lemma spec_runes_fuel_enough f1 : forall f2 s, (length s <= f1)%nat -> (length s <= f2)%nat ->
  spec_runes_fuel f1 s = spec_runes_fuel f2 s.
Proof.
  induction f1; intros f2 s H1 H2.
  - destruct s; [|cbn in H1; lia]. destruct f2; reflexivity.
  - destruct s as [|x s']; [destruct f2; reflexivity|].
    destruct f2; [cbn in H2; lia|].
    cbn [spec_runes_fuel]. destruct (spec_decode (x :: s')) as [r w] eqn:D.
    assert (Hw : (1 <= w <= length (x :: s'))%nat) by (eapply spec_decode_width; eauto; congruence).
    f_equal. apply IHf1; rewrite skipn_length; cbn [length] in *; lia.
Qed.

Lemma spec_runes_nil : spec_runes [] = [].
Proof. reflexivity. Qed.

Lemma spec_runes_unfold s : s <> [] ->
  spec_runes s = spec_decode s :: spec_runes (skipn (snd (spec_decode s)) s).
Proof.
  intros Hne. unfold spec_runes. destruct s as [|x s']; [congruence|].
  cbn [length spec_runes_fuel]. destruct (spec_decode (x :: s')) as [r w] eqn:D. cbn [snd].
  assert (Hw : (1 <= w <= length (x :: s'))%nat) by (eapply spec_decode_width; eauto).
  f_equal. apply spec_runes_fuel_enough; rewrite skipn_length; cbn [length] in *; lia.
Qed.

Lemma range_loop_spec s : range_loop s = with_offsets 0 (spec_runes s).
Proof. unfold range_loop, spec_runes. rewrite range_from_spec by lia. reflexivity. Qed.

Lemma sum_widths_fuel f : forall s, (length s <= f)%nat -> sum_widths (spec_runes_fuel f s) = length s.
Proof.
  induction f; intros s H.
  - destruct s; [reflexivity|cbn in H; lia].
  - destruct s as [|x s']; [reflexivity|]. cbn [spec_runes_fuel].
    destruct (spec_decode (x :: s')) as [r w] eqn:D.
    assert (Hw : (1 <= w <= length (x :: s'))%nat) by (eapply spec_decode_width; eauto; congruence).
    cbn [sum_widths]. rewrite IHf; rewrite skipn_length; cbn [length] in *; lia.
Qed.

Lemma range_covers s : sum_widths (spec_runes s) = length s.
Proof. apply sum_widths_fuel. lia. Qed.

Lemma map_with_offsets i l : map (fun x => snd (fst x)) (with_offsets i l) = map fst l.
Proof. revert i. induction l as [|[r w] l]; intros; cbn; f_equal; auto. Qed.

Lemma string_to_runes_spec s : string_to_runes s = map fst (spec_runes s).
Proof. unfold string_to_runes. rewrite range_loop_spec. apply map_with_offsets. Qed.

(* ---------- round trips ---------- *)
Definition validZ (r : Z) : Prop := valid_scalar r = true.

Lemma validZ_N r : validZ r -> Z.to_N r <= 0x10FFFF /\ ~ (0xD800 <= Z.to_N r <= 0xDFFF).
Proof. unfold validZ, valid_scalar. lia. Qed.

Lemma spec_encode_length n : (1 <= length (spec_encode n) <= 4)%nat.
Proof. unfold spec_encode. split_ifs; cbn; lia. Qed.

Lemma decode_encode pre r rest : validZ r ->
  decode_rune (pre ++ encode_rune r ++ rest) (length pre) = (Z.to_N r, length (encode_rune r)).
Proof.
  intros Hv. rewrite decode_rune_skipn, skipn_length_app, decode0_eq_spec, encode_eq_spec.
  unfold spec_string_of_rune. rewrite Hv. destruct (validZ_N r Hv). apply spec_decode_encode; assumption.
Qed.

Lemma encode_invalid r : valid_scalar r = false -> encode_rune r = [0xEF; 0xBF; 0xBD].
Proof. intros H. rewrite encode_eq_spec. unfold spec_string_of_rune. rewrite H. reflexivity. Qed.

Lemma encode_replacement : encode_rune 0xFFFD = [0xEF; 0xBF; 0xBD].
Proof. reflexivity. Qed.

Lemma spec_encode_bytes n : n <= 0x10FFFF -> is_bytes (spec_encode n) = true.
Proof. intros. unfold spec_encode, is_bytes. split_ifs; cbn [forallb]; lia. Qed.

Lemma encode_rune_bytes r : is_bytes (encode_rune r) = true.
Proof.
  rewrite encode_eq_spec. unfold spec_string_of_rune. destruct (valid_scalar r) eqn:E; [|reflexivity].
  apply spec_encode_bytes. apply validZ_N. exact E.
Qed.

Lemma spec_runes_encoded rs : Forall validZ rs ->
  spec_runes (flat_map encode_rune rs) = map (fun r => (Z.to_N r, length (encode_rune r))) rs.
Proof.
  induction 1 as [|r rs Hr Hrs IH]; [reflexivity|].
  cbn [flat_map map].
  assert (D : spec_decode (encode_rune r ++ flat_map encode_rune rs) = (Z.to_N r, length (encode_rune r))).
  { pose proof (decode_encode [] r (flat_map encode_rune rs) Hr) as H. cbn [app length] in H.
    rewrite decode0_eq_spec in H. exact H. }
  rewrite spec_runes_unfold.
  - rewrite D. cbn [snd]. rewrite skipn_length_app, IH. reflexivity.
  - rewrite encode_eq_spec. unfold spec_string_of_rune. rewrite Hr.
    pose proof (spec_encode_length (Z.to_N r)). destruct (spec_encode (Z.to_N r)); cbn in *; [lia|congruence].
Qed.

Lemma r2s_all rs : runes_to_string rs 0 (length rs) = flat_map encode_rune rs.
Proof. unfold runes_to_string, window. cbn [skipn]. rewrite firstn_all. reflexivity. Qed.

(* []rune(string(rs)) = rs for valid code points *)
Lemma runes_of_encoded rs : Forall validZ rs ->
  string_to_runes (runes_to_string rs 0 (length rs)) = map Z.to_N rs.
Proof.
  intros H. rewrite r2s_all.
  rewrite string_to_runes_spec, spec_runes_encoded by assumption. rewrite map_map. reflexivity.
Qed.

Definition valid_utf8 (s : list N) : Prop :=
  exists rs, Forall validZ rs /\ s = flat_map (fun r => spec_encode (Z.to_N r)) rs.

Lemma flat_map_ext_in' {A B} (f g : A -> list B) l : (forall x, In x l -> f x = g x) -> flat_map f l = flat_map g l.
Proof. induction l; cbn; intros; auto. rewrite H, IHl; auto. Qed.

Lemma encoded_is_spec rs : Forall validZ rs ->
  flat_map encode_rune rs = flat_map (fun r => spec_encode (Z.to_N r)) rs.
Proof.
  intros H. apply flat_map_ext_in'. intros r Hr. rewrite Forall_forall in H.
  rewrite encode_eq_spec. unfold spec_string_of_rune. rewrite (H r Hr). reflexivity.
Qed.

Definition back (s : list N) : list N :=
  let rs := map Z.of_N (string_to_runes s) in runes_to_string rs 0 (length rs).

(* string([]rune(s)) = s for well-formed s *)
Lemma runes_roundtrip s : valid_utf8 s -> back s = s.
Proof.
  intros (rs & Hv & ->). rewrite <- encoded_is_spec by assumption. unfold back.
  pose proof (runes_of_encoded rs Hv) as H. rewrite r2s_all in H. rewrite H.
  rewrite r2s_all.
  f_equal. rewrite map_map. rewrite <- (map_id rs) at 2. apply map_ext_in.
  intros r Hr. rewrite Forall_forall in Hv. specialize (Hv r Hr). unfold validZ, valid_scalar in Hv. lia.
Qed.

(* every rune the decoder delivers is a Unicode scalar value *)
Lemma spec_runes_valid_fuel f : forall s, (length s <= f)%nat ->
  Forall (fun rw => validZ (Z.of_N (fst rw))) (spec_runes_fuel f s).
Proof.
  induction f; intros s H; [constructor|].
  destruct s as [|x s']; [constructor|]. cbn [spec_runes_fuel].
  destruct (spec_decode (x :: s')) as [r w] eqn:D.
  destruct (spec_decode_facts (x :: s') r w ltac:(congruence) D) as (Hw & Hl & Hr & Hs & _).
  constructor.
  - cbn [fst]. unfold validZ, valid_scalar. lia.
  - apply IHf. rewrite skipn_length. cbn [length] in *. lia.
Qed.

Lemma string_to_runes_valid s : Forall (fun r => validZ (Z.of_N r)) (string_to_runes s).
Proof.
  rewrite string_to_runes_spec. pose proof (spec_runes_valid_fuel (length s) s (le_n _)) as H.
  fold (spec_runes s) in H. induction H; cbn; constructor; auto.
Qed.

(* the general replacement law: string([]rune(s)) is well formed and has the same runes as s *)
Lemma back_valid s : valid_utf8 (back s).
Proof.
  unfold back. rewrite r2s_all.
  exists (map Z.of_N (string_to_runes s)).
  assert (Forall validZ (map Z.of_N (string_to_runes s))).
  { pose proof (string_to_runes_valid s) as H. induction H; cbn; constructor; auto. }
  split; [assumption|]. apply encoded_is_spec. assumption.
Qed.

Lemma runes_of_back s : string_to_runes (back s) = string_to_runes s.
Proof.
  unfold back. rewrite runes_of_encoded.
  - rewrite map_map. rewrite <- (map_id (string_to_runes s)) at 2. apply map_ext. intros. apply N2Z.id.
  - pose proof (string_to_runes_valid s) as H. induction H; cbn; constructor; auto.
Qed.

(* ---------- well-formedness ---------- *)

Lemma valid_no_error s : valid_utf8 s -> Forall (fun rw => rw <> ERR) (spec_runes s).
Proof.
  intros (rs & Hv & ->). rewrite <- encoded_is_spec, spec_runes_encoded by assumption.
  induction Hv as [|r rs Hr Hrs IH]; cbn [map]; constructor; auto.
  intros E. unfold ERR in E. injection E as E1 E2.
  assert (r = 0xFFFD%Z) by (unfold validZ, valid_scalar in Hr; lia). subst r.
  rewrite encode_replacement in E2. discriminate.
Qed.

Lemma no_error_valid_fuel f : forall s, (length s <= f)%nat ->
  Forall (fun rw => rw <> ERR) (spec_runes_fuel f s) -> valid_utf8 s.
Proof.
  induction f; intros s Hl H.
  - destruct s; [|cbn in Hl; lia]. exists []. split; [constructor|reflexivity].
  - destruct s as [|x s']; [exists []; split; [constructor|reflexivity]|].
    cbn [spec_runes_fuel] in H. destruct (spec_decode (x :: s')) as [r w] eqn:D.
    inversion H as [|? ? Hne Hrest]; subst.
    destruct (spec_decode_facts (x :: s') r w ltac:(congruence) D) as (Hw & Hlen & Hr & Hs & [E|E]); [congruence|].
    destruct (IHf (skipn w (x :: s'))) as (rs & Hv & Hrs); [rewrite skipn_length; cbn [length] in *; lia|assumption|].
    exists (Z.of_N r :: rs). split.
    + constructor; [|assumption]. unfold validZ, valid_scalar. lia.
    + cbn [flat_map]. rewrite N2Z.id, E, <- Hrs. symmetry. apply firstn_skipn.
Qed.

(* well-formedness = the decoder never reports an error = Go's utf8.ValidString *)
Lemma valid_iff_no_error s : valid_utf8 s <-> Forall (fun rw => rw <> ERR) (spec_runes s).
Proof. split; [apply valid_no_error|apply no_error_valid_fuel; lia]. Qed.


(* ---------- []byte <-> string ---------- *)
Lemma string_to_bytes_id s : is_bytes s = true -> string_to_bytes s = s.
Proof.
  unfold string_to_bytes, is_bytes. induction s as [|c s IH]; cbn [map forallb]; intros H; auto.
  apply andb_true_iff in H as [H1 H2]. f_equal; [apply N.mod_small; lia|auto].
Qed.

Lemma string_to_bytes_bytes s : is_bytes (string_to_bytes s) = true.
Proof.
  unfold string_to_bytes, is_bytes. induction s as [|c s IH]; cbn [map forallb]; auto. rewrite IH, andb_true_r.
  pose proof (N.mod_lt c 256 ltac:(discriminate)). lia.
Qed.

Lemma firstn_add {A} n m (l : list A) : firstn (n + m) l = firstn n l ++ firstn m (skipn n l).
Proof. revert l. induction n; intros [|x l]; cbn; auto. - destruct m; reflexivity. - f_equal. apply IHn. Qed.

Lemma b2s_loop_spec k arr off len : (0 < k)%nat -> forall fuel i, (len - i <= fuel)%nat ->
  b2s_loop fuel k arr off len i = firstn (len - i) (skipn (off + i) arr).
Proof.
  intros Hk. induction fuel; intros i H.
  - replace (len - i)%nat with O by lia. reflexivity.
  - cbn [b2s_loop]. destruct (Nat.ltb i len) eqn:E.
    + apply Nat.ltb_lt in E. rewrite IHfuel by lia.
      destruct (Nat.le_gt_cases (i + k) len) as [L|L].
      * replace (Nat.min len (i + k) - i)%nat with k by lia.
        replace (len - i)%nat with (k + (len - (i + k)))%nat by lia.
        rewrite firstn_add, skipn_skipn'. do 3 f_equal. lia.
      * replace (Nat.min len (i + k) - i)%nat with (len - i)%nat by lia.
        replace (len - (i + k))%nat with O by lia. cbn [firstn]. apply app_nil_r.
    + apply Nat.ltb_ge in E. replace (len - i)%nat with O by lia. reflexivity.
Qed.

Lemma bytes_to_string_k_spec k arr off len : (0 < k)%nat -> bytes_to_string_k k arr off len = window arr off len.
Proof.
  intros Hk. unfold bytes_to_string_k, window. destruct (Nat.eqb len 0) eqn:E.
  - apply Nat.eqb_eq in E. subst. reflexivity.
  - rewrite b2s_loop_spec by lia. rewrite Nat.sub_0_r, Nat.add_0_r. reflexivity.
Qed.

Lemma chunk_pos : (0 < CHUNK)%nat.
Proof. unfold CHUNK. lia. Qed.

Lemma bytes_to_string_spec arr off len : bytes_to_string arr off len = window arr off len.
Proof. apply bytes_to_string_k_spec, chunk_pos. Qed.

Lemma bytes_roundtrip b : is_bytes b = true -> string_to_bytes (bytes_to_string b 0 (length b)) = b.
Proof.
  intros H. rewrite bytes_to_string_spec. unfold window. cbn [skipn]. rewrite firstn_all.
  apply string_to_bytes_id, H.
Qed.

Lemma string_bytes_roundtrip s : is_bytes s = true ->
  bytes_to_string (string_to_bytes s) 0 (length (string_to_bytes s)) = s.
Proof.
  intros H. rewrite bytes_to_string_spec. unfold window. cbn [skipn]. rewrite firstn_all.
  apply string_to_bytes_id, H.
Qed.

(* ---------- slicing ---------- *)
Lemma js_substring_in_range s a b : (0 <= a <= b)%Z -> (b <= Z.of_nat (length s))%Z ->
  js_substring s a b = firstn (Z.to_nat (b - a)) (skipn (Z.to_nat a) s).
Proof.
  intros H1 H2. unfold js_substring.
  replace (Z.min (Z.max a 0) (Z.of_nat (length s))) with a by lia.
  replace (Z.min (Z.max b 0) (Z.of_nat (length s))) with b by lia.
  replace (Z.min a b) with a by lia. replace (Z.max a b) with b by lia. reflexivity.
Qed.

Lemma substring_three_arg s lo hi : substring s lo (Some hi) = spec_slice s lo hi.
Proof.
  unfold substring, spec_slice.
  destruct ((lo <? 0) || (hi <? lo) || (Z.of_nat (length s) <? hi))%Z eqn:E.
  - replace ((0 <=? lo) && (lo <=? hi) && (hi <=? Z.of_nat (length s)))%Z with false by lia. reflexivity.
  - replace ((0 <=? lo) && (lo <=? hi) && (hi <=? Z.of_nat (length s)))%Z with true by lia.
    rewrite js_substring_in_range by lia. reflexivity.
Qed.

(* s[lo:] is s[lo:len(s)] — for every lo *)
Lemma substring_low_only s lo : substring s lo None = spec_slice s lo (Z.of_nat (length s)).
Proof. rewrite <- substring_three_arg. reflexivity. Qed.

(* ---------- indexing ---------- *)
Lemma index_unchecked_in_range s i : (0 <= i < Z.of_nat (length s))%Z ->
  Some (index_unchecked s i) = spec_index s i.
Proof.
  intros H. unfold index_unchecked, spec_index.
  replace (i <? 0)%Z with false by lia.
  replace ((0 <=? i) && (i <? Z.of_nat (length s)))%Z with true by lia.
  destruct (nth_error s (Z.to_nat i)) eqn:E; [reflexivity|].
  apply nth_error_None in E. lia.
Qed.

(* the emitted, checked form: for every string and every index (a constant index is never negative) *)
Lemma index_emitted_spec c s i : (c = true -> 0 <= i)%Z -> index_emitted c s i = spec_index s i.
Proof.
  intros Hc. unfold index_emitted.
  destruct (if c then (Z.of_nat (length s) <=? i)%Z else ((i <? 0) || (Z.of_nat (length s) <=? i))%Z) eqn:E.
  - unfold spec_index. replace ((0 <=? i) && (i <? Z.of_nat (length s)))%Z with false; [reflexivity|].
    destruct c; lia.
  - apply index_unchecked_in_range. destruct c; [specialize (Hc eq_refl)|]; lia.
Qed.

(* ---------- string(int64) ---------- *)
Lemma string_of_int64_spec x : string_of_int64 x = spec_string_of_rune x.
Proof.
  unfold string_of_int64. rewrite encode_eq_spec.
  destruct (x / 4294967296 =? 0)%Z eqn:E.
  - replace (x mod 4294967296)%Z with x by lia. reflexivity.
  - unfold spec_string_of_rune.
    replace (valid_scalar x) with false by (unfold valid_scalar; lia). reflexivity.
Qed.

(* ---------- copy(dst, s) ---------- *)
Lemma is_bytes_firstn n : forall s, is_bytes s = true -> is_bytes (firstn n s) = true.
Proof.
  unfold is_bytes. induction n; intros [|c s] Hb; cbn [firstn forallb] in *; auto.
  apply andb_true_iff in Hb as [H1 H2]. rewrite H1. cbn. auto.
Qed.

Lemma copy_string_spec arr off len src : (off + len <= length arr)%nat -> is_bytes src = true ->
  let n := Nat.min (length src) len in
  fst (copy_string arr off len src) = n /\
  snd (copy_string arr off len src) = firstn off arr ++ firstn n src ++ skipn (off + n) arr /\
  length (snd (copy_string arr off len src)) = length arr.
Proof.
  intros H Hb n. unfold copy_string. fold n. cbn [fst snd].
  assert (Hm : map (fun c => c mod 256) (firstn n src) = firstn n src).
  { apply (string_to_bytes_id (firstn n src)). apply is_bytes_firstn, Hb. }
  rewrite Hm. repeat split.
  rewrite !app_length, firstn_length, firstn_length, skipn_length. lia.
Qed.

(* ---------- what $decodeRune can return, at the level of the model ---------- *)
Lemma decode_rune_facts s pos r w : (pos < length s)%nat -> decode_rune s pos = (r, w) ->
  (1 <= w <= 4)%nat /\ (pos + w <= length s)%nat /\ validZ (Z.of_N r) /\
  ((r, w) = ERR \/ encode_rune (Z.of_N r) = firstn w (skipn pos s)).
Proof.
  intros Hp D. rewrite decode_eq_spec in D.
  assert (Hne : skipn pos s <> []) by (rewrite skipn_nil_iff by lia; lia).
  destruct (spec_decode_facts _ _ _ Hne D) as (Hw & Hl & Hr & Hs & He).
  rewrite skipn_length in Hl.
  assert (V : validZ (Z.of_N r)) by (unfold validZ, valid_scalar; lia).
  repeat split; try lia; [exact V|].
  destruct He as [He|He]; [left; exact He|right].
  rewrite encode_eq_spec. unfold spec_string_of_rune. rewrite V, N2Z.id. exact He.
Qed.
