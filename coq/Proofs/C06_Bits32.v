(* C06 — & | ^ &^, unary - ^, comparisons and integer conversions for the kinds of at most 32 bits *)
From Coq Require Import ZArith Znumtheory Bool List Lia ZifyBool.
From Verif Require Import Base.C06_JsNum Model.C06_Prelude64 Model.C06_Spec Gen.C06_Tables Model.C06_Templates Proofs.C06_Arith Proofs.C06_Fix.
Import ListNotations.
Local Open Scope Z_scope.

Lemma bits_le_32 : forall k, is64 k = false -> 0 < bits k <= 32.
Proof. intros k H; destruct k; try discriminate H; cbn; lia. Qed.

(* through ToInt32 a value keeps its residue modulo 2^bits *)
Lemma to_int32_mod_bits : forall k a, is64 k = false -> to_int32 a mod 2 ^ bits k = a mod 2 ^ bits k.
Proof.
  intros k a H. pose proof (bits_le_32 k H).
  rewrite <- (mod_mod_pow (to_int32 a) (bits k) 32) by lia.
  rewrite <- (mod_mod_pow a (bits k) 32) by lia.
  rewrite <- two32_eq, to_int32_mod. reflexivity.
Qed.

Lemma to_int32_in_range_s : forall k x, is64 k = false -> signed k = true -> in_range k x -> to_int32 x = x.
Proof. intros k x H S R. apply to_int32_id. apply (in_range_s32 k); assumption. Qed.

Lemma and32_s : forall k x y, is64 k = false -> signed k = true -> in_range k x -> in_range k y -> and32 x y = Z.land x y.
Proof. intros k x y H S Rx Ry. unfold and32. rewrite (to_int32_in_range_s k x), (to_int32_in_range_s k y) by assumption. reflexivity. Qed.
Lemma or32_s : forall k x y, is64 k = false -> signed k = true -> in_range k x -> in_range k y -> or32 x y = Z.lor x y.
Proof. intros k x y H S Rx Ry. unfold or32. rewrite (to_int32_in_range_s k x), (to_int32_in_range_s k y) by assumption. reflexivity. Qed.

Lemma u32_of : forall k z, is64 k = false -> signed k = false -> in_range k z -> 0 <= z < 2 ^ 32.
Proof. intros k z H S R. pose proof (in_range_32 k z H R). rewrite in_range_u in R by assumption. unfold two31, two32 in *. lia. Qed.

Lemma and32_u : forall x y, 0 <= x < 2 ^ 32 -> 0 <= y < 2 ^ 32 -> to_uint32 (and32 x y) = Z.land x y.
Proof.
  intros x y Hx Hy. unfold to_uint32, and32. rewrite two32_eq, land_mod by lia. rewrite <- two32_eq, !to_int32_mod, two32_eq.
  rewrite (Z.mod_small x), (Z.mod_small y) by assumption. reflexivity.
Qed.
Lemma or32_u : forall x y, 0 <= x < 2 ^ 32 -> 0 <= y < 2 ^ 32 -> to_uint32 (or32 x y) = Z.lor x y.
Proof.
  intros x y Hx Hy. unfold to_uint32, or32. rewrite two32_eq, lor_mod by lia. rewrite <- two32_eq, !to_int32_mod, two32_eq.
  rewrite (Z.mod_small x), (Z.mod_small y) by assumption. reflexivity.
Qed.

Lemma and32_correct : forall V k x y, is64 k = false -> in_range k x -> in_range k y ->
  bin32 V k And (Fin x) (Fin y) = Ret (Fin (Z.land x y)).
Proof.
  intros V k x y H Rx Ry. cbn [bin32]. destruct (signed k) eqn:S.
  - unfold js_and, lift2; cbn [trunc_of]. rewrite (and32_s k) by assumption. reflexivity.
  - unfold js_ushr, js_and, lift2; cbn [trunc_of]. rewrite ushr32_0, and32_u by (apply (u32_of k); assumption). reflexivity.
Qed.
Lemma or32_correct : forall V k x y, is64 k = false -> in_range k x -> in_range k y ->
  bin32 V k Or (Fin x) (Fin y) = Ret (Fin (Z.lor x y)).
Proof.
  intros V k x y H Rx Ry. cbn [bin32]. destruct (signed k) eqn:S.
  - unfold js_or, lift2; cbn [trunc_of]. rewrite (or32_s k) by assumption. reflexivity.
  - unfold js_ushr, js_or, lift2; cbn [trunc_of]. rewrite ushr32_0, or32_u by (apply (u32_of k); assumption). reflexivity.
Qed.

Lemma xor32_correct : forall V k x y, is64 k = false ->
  bin32 V k Xor (Fin x) (Fin y) = Ret (Fin (wrap k (Z.lxor x y))).
Proof.
  intros V k x y H. cbn [bin32]. unfold js_xor, lift2; cbn [trunc_of]. rewrite fixnum_fin by assumption.
  do 2 f_equal. apply wrap_congr. unfold xor32. pose proof (bits_le_32 k H).
  rewrite !lxor_mod by lia. rewrite !to_int32_mod_bits by assumption. reflexivity.
Qed.

Lemma andnot32_correct : forall V k x y, is64 k = false ->
  bin32 V k AndNot (Fin x) (Fin y) = Ret (Fin (wrap k (Z.land x (Z.lnot y)))).
Proof.
  intros V k x y H. cbn [bin32]. unfold js_and, js_not, lift2, lift1; cbn [trunc_of]. rewrite fixnum_fin by assumption.
  do 2 f_equal. apply wrap_congr. unfold and32, not32. pose proof (bits_le_32 k H).
  rewrite !land_mod by lia. rewrite !to_int32_mod_bits by assumption.
  f_equal. apply lnot_mod_congr. apply to_int32_mod_bits; assumption.
Qed.

(* ---- unary ------------------------------------------------------------------------ *)
Lemma not32_correct : forall V k x, is64 k = false ->
  un32 V k Not (Fin x) = Ret (Fin (wrap k (Z.lnot x))).
Proof.
  intros V k x H. cbn [un32]. unfold js_not, lift1; cbn [trunc_of]. rewrite fixnum_fin by assumption.
  do 2 f_equal. apply wrap_congr. unfold not32. apply lnot_mod_congr. apply to_int32_mod_bits; assumption.
Qed.

Lemma fixnum_js_neg : forall k x, is64 k = false -> fixnum k (js_neg (Fin x)) = Fin (wrap k (- x)).
Proof.
  intros k x H. destruct x as [| p | p]; cbn [js_neg].
  - rewrite fixnum_nz by assumption. destruct k; try discriminate H; reflexivity.
  - apply fixnum_fin; assumption.
  - apply fixnum_fin; assumption.
Qed.

Definition neg_defect_free (V : variant) (k : kind) (x : Z) : Prop :=
  v_neg V = true \/ signed k = false \/ (x <> 0 /\ x <> kmin k).

Lemma neg32_correct : forall V k x, is64 k = false -> in_range k x -> neg_defect_free V k x ->
  un32 V k Neg (Fin x) = Ret (Fin (wrap k (- x))).
Proof.
  intros V k x H R D. cbn [un32]. destruct (signed k && negb (v_neg V)) eqn:F.
  - apply andb_prop in F. destruct F as [S F]. apply negb_true_iff in F.
    destruct D as [D | [D | [N0 Nm]]]; [rewrite D in F; discriminate F | rewrite D in S; discriminate S |].
    assert (Rn : in_range k (- x)).
    { unfold in_range, kmin, kmax in *. rewrite S in *. lia. }
    rewrite (wrap_id k _ Rn). destruct x; [exfalso; apply N0; reflexivity | reflexivity | reflexivity].
  - rewrite fixnum_js_neg by assumption. reflexivity.
Qed.

Lemma neg_zero_refuted : forall V, v_neg V = false -> un32 V Int32 Neg (Fin 0) = Ret NZ.
Proof. intros V E. cbn [un32]. rewrite E. reflexivity. Qed.
Lemma neg_minint_refuted : forall V, v_neg V = false ->
  un32 V Int32 Neg (Fin (-2147483648)) = Ret (Fin 2147483648) /\ go_un Int32 Neg (-2147483648) = -2147483648.
Proof. intros V E. cbn [un32]. rewrite E. split; reflexivity. Qed.

(* ---- comparisons -------------------------------------------------------------------- *)
Lemma cmp32_correct : forall c x y, cmp32 c (Fin x) (Fin y) = Ret (Some (go_cmp c x y)).
Proof.
  intros c x y. destruct c; cbn [cmp32 go_cmp js_seq js_lt js_le js_gt js_ge jb_not option_map ext_of ext_eq ext_lt]; try reflexivity.
  - rewrite Z.leb_antisym. reflexivity.
  - rewrite Z.leb_antisym. reflexivity.
Qed.

(* ---- conversions between kinds of at most 32 bits ------------------------------------ *)
Lemma conv_nn_correct : forall k2 x, is64 k2 = false -> conv_nn k2 (Fin x) = Ret (Fin (go_conv k2 x)).
Proof. intros k2 x H. unfold conv_nn, go_conv. rewrite fixnum_fin by assumption. reflexivity. Qed.
