(* C03 / phase 4 — no stale queue entries, and the run queue only holds awake goroutines.
   Converse of [reg_ok] (Proofs/C03_Chan.v): every entry in a channel queue is the registration of a
   goroutine that is asleep on exactly that operation; queues and $scheduled are duplicate-free. *)
From Verif Require Import Model.C03_Chan Proofs.C03_Chan.
From Coq Require Import List NArith ZArith Bool Arith Lia.
From RecordUpdate Require Import RecordSet.
Import ListNotations RecordSetNotations.

(* ------------------------------------------------------------------ lists *)
Lemma sentry_eqb_refl a : sentry_eqb a a = true.
Proof. destruct a; simpl; rewrite ?Nat.eqb_refl, ?N.eqb_refl; reflexivity. Qed.
Lemma rentry_eqb_refl a : rentry_eqb a a = true.
Proof. destruct a; simpl; rewrite ?Nat.eqb_refl; reflexivity. Qed.

Lemma rf_notin {A} eqb (x : A) l :
  (forall a b, eqb a b = true -> a = b) -> (forall a, eqb a a = true) -> NoDup l -> ~ In x (remove_first eqb x l).
Proof.
  intros S Rf. induction l as [|y t IH]; simpl; auto. intros ND. inversion ND; subst.
  destruct (eqb x y) eqn:E.
  - apply S in E. subst. assumption.
  - simpl. intros [->|H].
    + rewrite Rf in E. discriminate.
    + now apply IH.
Qed.

Lemma rf_nodup {A} eqb (x : A) l : NoDup l -> NoDup (remove_first eqb x l).
Proof.
  induction l as [|y t IH]; simpl; auto. intros ND. inversion ND; subst. destruct (eqb x y); auto.
  constructor; auto. intros H. apply H1. eapply remove_first_incl; eauto.
Qed.

Lemma nodup_snoc {A} (x : A) l : NoDup l -> ~ In x l -> NoDup (l ++ [x]).
Proof.
  induction l as [|y t IH]; simpl; intros ND N.
  - repeat constructor; auto.
  - inversion ND; subst. constructor.
    + rewrite in_app_iff. simpl. intros [H|[H|[]]]; auto.
    + apply IH; auto.
Qed.

(* ------------------------------------------------------------------ definitions *)
Definition sentry_ok (st : state) (c : cid) (e : sentry) : Prop :=
  match e with
  | SPlain g v => blk st g = Some (BSend c v)
  | SSel g i v => exists cs, blk st g = Some (BSel cs) /\ nth_error cs i = Some (CSend c v)
  end.
Definition rentry_ok (st : state) (c : cid) (e : rentry) : Prop :=
  match e with
  | RPlain g => blk st g = Some (BRecv c)
  | RSel g i => exists cs, blk st g = Some (BSel cs) /\ nth_error cs i = Some (CRecv c)
  end.
Definition ent_ok (st : state) : Prop :=
  forall c, (forall e, In e (sq st c) -> sentry_ok st c e) /\ (forall e, In e (rq st c) -> rentry_ok st c e) /\
            NoDup (sq st c) /\ NoDup (rq st c).

Definition asl (st : state) (g : gid) : bool := g_asleep (get_g st g).
Definition is_twake (t : timer) : bool := match t with TWake _ => true | _ => false end.

Definition run_ok (st : state) : Prop :=
  (forall g, g_blocked (get_g st g) <> None -> g_asleep (get_g st g) = true) /\
  (forall g, In g (scheduled st) -> g < length (gors st) /\ g_asleep (get_g st g) = false) /\
  NoDup (scheduled st) /\
  (halted st = None -> forall g, md st = MRun g -> g < length (gors st) /\ g_asleep (get_g st g) = false /\ ~ In g (scheduled st)) /\
  (forall g, In (TWake g) (timers st) -> blk st g = Some BTimer) /\
  NoDup (filter (fun t => match t with TWake _ => true | _ => false end) (timers st)).

(* the working invariant *)
Record inv (st : state) : Prop := {
  i_s : forall c e, In e (sq st c) -> sentry_ok st c e;
  i_r : forall c e, In e (rq st c) -> rentry_ok st c e;
  i_nds : forall c, NoDup (sq st c);
  i_ndr : forall c, NoDup (rq st c);
  i_ba : forall g, blk st g <> None -> asl st g = true;
  i_sch : forall g, In g (scheduled st) -> g < length (gors st) /\ asl st g = false;
  i_nd : NoDup (scheduled st);
  i_tm : forall g, In (TWake g) (timers st) -> blk st g = Some BTimer;
  i_tnd : NoDup (filter is_twake (timers st));
  i_ex : forall g, g_exit (get_g st g) = true -> asl st g = true /\ blk st g = None }.

(* goroutine r is the one inside which control is *)
Definition running (st : state) (r : gid) : Prop :=
  md st = MRun r /\ r < length (gors st) /\ ~ In r (scheduled st).

(* ------------------------------------------------------------------ frames *)
Definition fr (st st' : state) : Prop :=
  gors st' = gors st /\ scheduled st' = scheduled st /\ timers st' = timers st /\ md st' = md st.
Lemma fr_refl st : fr st st. Proof. repeat split. Qed.
Lemma fr_trans a b c : fr a b -> fr b c -> fr a c.
Proof. intros (A1&A2&A3&A4) (B1&B2&B3&B4). repeat split; congruence. Qed.

Definition qsub (st st' : state) : Prop :=
  forall c, incl (sq st' c) (sq st c) /\ incl (rq st' c) (rq st c) /\
            (NoDup (sq st c) -> NoDup (sq st' c)) /\ (NoDup (rq st c) -> NoDup (rq st' c)).
Lemma qsub_refl st : qsub st st.
Proof. intros c. repeat split; auto using incl_refl. Qed.
Lemma qsub_trans a b c : qsub a b -> qsub b c -> qsub a c.
Proof.
  intros H1 H2 ch. destruct (H1 ch) as (A1&A2&A3&A4), (H2 ch) as (B1&B2&B3&B4).
  repeat split; eauto using incl_tran.
Qed.

Lemma sq_set st c ch c' :
  sq (set_chan st c ch) c' = if Nat.eqb c c' && Nat.ltb c (length (chans st)) then c_sendq ch else sq st c'.
Proof. unfold sq. rewrite get_set_chan. destruct (_ && _); auto. Qed.
Lemma rq_set st c ch c' :
  rq (set_chan st c ch) c' = if Nat.eqb c c' && Nat.ltb c (length (chans st)) then c_recvq ch else rq st c'.
Proof. unfold rq. rewrite get_set_chan. destruct (_ && _); auto. Qed.

Lemma qsub_set st c ch :
  incl (c_sendq ch) (sq st c) -> incl (c_recvq ch) (rq st c) ->
  (NoDup (sq st c) -> NoDup (c_sendq ch)) -> (NoDup (rq st c) -> NoDup (c_recvq ch)) -> qsub st (set_chan st c ch).
Proof.
  intros. intros c'. rewrite sq_set, rq_set. destruct (Nat.eqb_spec c c'); simpl; [subst; destruct (_ <? _)|];
    repeat split; auto using incl_refl.
Qed.

Lemma fr_set_chan st c ch : fr st (set_chan st c ch).
Proof. repeat split. Qed.

Lemma sq_overflow st c : length (chans st) <= c -> sq st c = [].
Proof. intros. unfold sq, get_chan. now rewrite nth_overflow. Qed.
Lemma rq_overflow st c : length (chans st) <= c -> rq st c = [].
Proof. intros. unfold rq, get_chan. now rewrite nth_overflow. Qed.

(* ------------------------------------------------------------------ removeFromQueues *)
Lemma re_spec g cs : forall i st,
  fr st (remove_entries g cs i st) /\ qsub st (remove_entries g cs i st) /\
  ((forall c, NoDup (sq st c) /\ NoDup (rq st c)) ->
   (forall c j v, nth_error cs j = Some (CSend c v) -> ~ In (SSel g (i + j) v) (sq (remove_entries g cs i st) c)) /\
   (forall c j, nth_error cs j = Some (CRecv c) -> ~ In (RSel g (i + j)) (rq (remove_entries g cs i st) c))).
Proof.
  induction cs as [|[|c|c v] r IH]; intros i st; simpl.
  - split; [apply fr_refl|]. split; [apply qsub_refl|]. intros _. split; intros; destruct j; discriminate.
  - destruct (IH (S i) st) as (F & Q & K). split; auto. split; auto. intros ND. destruct (K ND) as (K1 & K2).
    split.
    + intros c [|j] v Hj; simpl in Hj; [discriminate|]. rewrite Nat.add_succ_r. now apply K1.
    + intros c [|j] Hj; simpl in Hj; [discriminate|]. rewrite Nat.add_succ_r. now apply K2.
  - set (st1 := set_chan st c (get_chan st c <| c_recvq := remove_first rentry_eqb (RSel g i) (c_recvq (get_chan st c)) |>)).
    assert (Q1 : qsub st st1).
    { apply qsub_set; simpl; auto using incl_refl. apply remove_first_incl. apply rf_nodup. }
    destruct (IH (S i) st1) as (F & Q & K). split. { eapply fr_trans; [apply fr_set_chan|exact F]. }
    split. { eapply qsub_trans; eauto. }
    intros ND.
    assert (ND1 : forall c, NoDup (sq st1 c) /\ NoDup (rq st1 c)).
    { intros c'. destruct (Q1 c') as (_&_&A&B), (ND c'). auto. }
    destruct (K ND1) as (K1 & K2). split.
    + intros c' [|j] v Hj; simpl in Hj; [discriminate|]. rewrite Nat.add_succ_r. now apply K1.
    + intros c' [|j] Hj; simpl in Hj.
      * inversion Hj; subst c'. rewrite Nat.add_0_r. intros H. apply (proj1 (proj2 (Q c))) in H.
        unfold st1 in H. rewrite rq_set, Nat.eqb_refl in H. simpl in H.
        destruct (Nat.ltb_spec c (length (chans st))).
        -- revert H. apply rf_notin; auto using rentry_eqb_eq, rentry_eqb_refl. apply ND.
        -- rewrite rq_overflow in H; auto.
      * rewrite Nat.add_succ_r. now apply K2.
  - set (st1 := set_chan st c (get_chan st c <| c_sendq := remove_first sentry_eqb (SSel g i v) (c_sendq (get_chan st c)) |>)).
    assert (Q1 : qsub st st1).
    { apply qsub_set; simpl; auto using incl_refl. apply remove_first_incl. apply rf_nodup. }
    destruct (IH (S i) st1) as (F & Q & K). split. { eapply fr_trans; [apply fr_set_chan|exact F]. }
    split. { eapply qsub_trans; eauto. }
    intros ND.
    assert (ND1 : forall c, NoDup (sq st1 c) /\ NoDup (rq st1 c)).
    { intros c'. destruct (Q1 c') as (_&_&A&B), (ND c'). auto. }
    destruct (K ND1) as (K1 & K2). split.
    + intros c' [|j] v' Hj; simpl in Hj.
      * inversion Hj; subst c' v'. rewrite Nat.add_0_r. intros H. apply (proj1 (Q c)) in H.
        unfold st1 in H. rewrite sq_set, Nat.eqb_refl in H. simpl in H.
        destruct (Nat.ltb_spec c (length (chans st))).
        -- revert H. apply rf_notin; auto using sentry_eqb_eq, sentry_eqb_refl. apply ND.
        -- rewrite sq_overflow in H; auto.
      * rewrite Nat.add_succ_r. now apply K1.
    + intros c' [|j] Hj; simpl in Hj; [discriminate|]. rewrite Nat.add_succ_r. now apply K2.
Qed.

Lemma rfq_spec g st :
  fr st (remove_from_queues g st) /\ qsub st (remove_from_queues g st) /\
  ((forall c, NoDup (sq st c) /\ NoDup (rq st c)) -> forall cs, blk st g = Some (BSel cs) ->
   (forall c j v, nth_error cs j = Some (CSend c v) -> ~ In (SSel g j v) (sq (remove_from_queues g st) c)) /\
   (forall c j, nth_error cs j = Some (CRecv c) -> ~ In (RSel g j) (rq (remove_from_queues g st) c))).
Proof.
  unfold remove_from_queues, blk.
  destruct (g_blocked (get_g st g)) as [[c v|c|cs|]|]; try (split; [apply fr_refl|split; [apply qsub_refl|intros; discriminate]]).
  destruct (re_spec g cs 0 st) as (F & Q & K). split; auto. split; auto.
  intros ND cs' E. inversion E; subst cs'. apply (K ND).
Qed.

(* ------------------------------------------------------------------ wake_up *)
Lemma sentry_ok_tr st st' c e : blk st' (sowner e) = blk st (sowner e) -> sentry_ok st c e -> sentry_ok st' c e.
Proof. destruct e; simpl; intros ->; auto. Qed.
Lemma rentry_ok_tr st st' c e : blk st' (rowner e) = blk st (rowner e) -> rentry_ok st c e -> rentry_ok st' c e.
Proof. destruct e; simpl; intros ->; auto. Qed.

Lemma exit_schedule g st g' : g_exit (get_g (schedule g st) g') = g_exit (get_g st g').
Proof.
  unfold schedule. destruct (g_asleep (get_g st g)) eqn:E; auto.
  change (get_g (_ <| scheduled := _ |>) g') with (get_g (set_g st g (get_g st g <| g_asleep := false |>)) g').
  rewrite get_set_g. destruct (Nat.eqb_spec g g'); simpl; auto. destruct (g <? length (gors st)); subst; auto.
Qed.
Lemma wake_up_exit g w st g' : g_exit (get_g (wake_up g w st) g') = g_exit (get_g st g').
Proof.
  unfold wake_up. rewrite exit_schedule, get_set_g.
  pose proof (gors_remove_from_queues g st) as G1.
  destruct (Nat.eqb_spec g g'); simpl; [destruct (_ <? _); subst; simpl|]; now rewrite ?(get_g_of_gors _ _ G1).
Qed.

Lemma wake_up_obs g w st : g < length (gors st) -> asl st g = true ->
  length (gors (wake_up g w st)) = length (gors st) /\ md (wake_up g w st) = md st /\ timers (wake_up g w st) = timers st /\
  scheduled (wake_up g w st) = scheduled st ++ [g] /\
  chans (wake_up g w st) = chans (remove_from_queues g st) /\
  (forall g', g' <> g -> get_g (wake_up g w st) g' = get_g st g') /\
  asl (wake_up g w st) g = false /\ blk (wake_up g w st) g = None.
Proof.
  intros L A. destruct (rfq_spec g st) as ((G1 & S1 & T1 & M1) & _).
  unfold wake_up. set (st1 := remove_from_queues g st) in *.
  set (x' := get_g st1 g <| g_wake := Some w |> <| g_blocked := None |>).
  assert (E2 : get_g (set_g st1 g x') g = x').
  { rewrite get_set_g, Nat.eqb_refl, G1. destruct (Nat.ltb_spec g (length (gors st))); simpl; auto; lia. }
  assert (Ax : g_asleep x' = true). { unfold x'. simpl. rewrite (get_g_of_gors _ _ G1). exact A. }
  unfold schedule. rewrite E2, Ax. unfold asl, blk, get_g. simpl.
  rewrite !upd_length, G1, S1, T1, M1. repeat split; auto.
  - intros g' N. rewrite !nth_upd. destruct (Nat.eqb_spec g g'); [congruence|]. reflexivity.
  - rewrite nth_upd, Nat.eqb_refl, upd_length. destruct (Nat.ltb_spec g (length (gors st))); simpl; auto; lia.
  - rewrite nth_upd, Nat.eqb_refl, upd_length. destruct (Nat.ltb_spec g (length (gors st))); simpl; auto; lia.
Qed.

Definition no_entries (st : state) (g : gid) : Prop :=
  forall c, (forall e, In e (sq st c) -> sowner e <> g) /\ (forall e, In e (rq st c) -> rowner e <> g).

Lemma wake_up_inv g w st : inv st -> blk st g <> None -> ~ In (TWake g) (timers st) ->
  ((forall cs, blk st g <> Some (BSel cs)) -> no_entries st g) ->
  inv (wake_up g w st) /\ md (wake_up g w st) = md st /\ length (gors (wake_up g w st)) = length (gors st) /\
  (forall r, r <> g -> asl (wake_up g w st) r = asl st r /\ blk (wake_up g w st) r = blk st r /\
                       (~ In r (scheduled st) -> ~ In r (scheduled (wake_up g w st)))).
Proof.
  intros I B T NE.
  assert (L : g < length (gors st)). { destruct (Nat.lt_ge_cases g (length (gors st))); auto. exfalso. apply B. now apply dead_blk. }
  assert (A : asl st g = true) by (apply I; auto).
  assert (NS : ~ In g (scheduled st)). { intros H. apply (i_sch _ I) in H. destruct H. congruence. }
  destruct (wake_up_obs g w st L A) as (O1 & O2 & O3 & O4 & O5 & O6 & O7 & O8).
  destruct (rfq_spec g st) as (_ & Q & K).
  set (st' := wake_up g w st) in *.
  assert (SQ : forall c, sq st' c = sq (remove_from_queues g st) c) by (intros; unfold sq; now rewrite (chans_of_gors_only _ _ O5)).
  assert (RQ : forall c, rq st' c = rq (remove_from_queues g st) c) by (intros; unfold rq; now rewrite (chans_of_gors_only _ _ O5)).
  assert (Bo : forall r, r <> g -> blk st' r = blk st r) by (intros; unfold blk; now rewrite O6).
  assert (Ao : forall r, r <> g -> asl st' r = asl st r) by (intros; unfold asl; now rewrite O6).
  assert (ND : forall c, NoDup (sq st c) /\ NoDup (rq st c)) by (intros; split; apply I).
  assert (D : (exists cs, blk st g = Some (BSel cs)) \/ (forall cs, blk st g <> Some (BSel cs))).
  { destruct (blk st g) as [[| |cs|]|]; eauto; right; intros; discriminate. }
  assert (GS : forall c e, In e (sq st' c) -> sowner e <> g).
  { intros c e He Eg. rewrite SQ in He. pose proof He as He0. apply (proj1 (Q c)) in He0.
    destruct D as [(cs & Bg)|D].
    - pose proof (i_s _ I c e He0) as Ok. destruct e as [g0 v|g0 i v]; simpl in Eg, Ok; subst g0.
      + congruence.
      + destruct Ok as (cs' & B' & Hn). rewrite Bg in B'. inversion B'; subst cs'.
        destruct (K ND cs Bg) as (K1 & _). apply (K1 c i v); auto.
    - apply (proj1 (NE D c) e He0). exact Eg. }
  assert (GR : forall c e, In e (rq st' c) -> rowner e <> g).
  { intros c e He Eg. rewrite RQ in He. pose proof He as He0. apply (proj1 (proj2 (Q c))) in He0.
    destruct D as [(cs & Bg)|D].
    - pose proof (i_r _ I c e He0) as Ok. destruct e as [g0|g0 i]; simpl in Eg, Ok; subst g0.
      + congruence.
      + destruct Ok as (cs' & B' & Hn). rewrite Bg in B'. inversion B'; subst cs'.
        destruct (K ND cs Bg) as (_ & K2). apply (K2 c i); auto.
    - apply (proj2 (NE D c) e He0). exact Eg. }
  split; [constructor|].
  - intros c e He. apply sentry_ok_tr with st. apply Bo. eapply GS; eauto.
    apply I. apply (proj1 (Q c)). now rewrite <- SQ.
  - intros c e He. apply rentry_ok_tr with st. apply Bo. eapply GR; eauto.
    apply I. apply (proj1 (proj2 (Q c))). now rewrite <- RQ.
  - intros c. rewrite SQ. apply Q. apply I.
  - intros c. rewrite RQ. apply Q. apply I.
  - intros r Hr. destruct (Nat.eq_dec r g) as [->|N]. congruence. rewrite Ao; auto. rewrite Bo in Hr; auto. apply I; auto.
  - intros r Hr. rewrite O4 in Hr. apply in_app_iff in Hr. rewrite O1. destruct Hr as [Hr|[<-|[]]].
    + assert (r <> g) by (intros ->; auto). rewrite Ao; auto. apply I; auto.
    + split; auto.
  - rewrite O4. apply nodup_snoc; auto. apply I.
  - intros r Hr. rewrite O3 in Hr. assert (r <> g) by (intros ->; auto). rewrite Bo; auto. apply I; auto.
  - rewrite O3. apply I.
  - intros r Hr. unfold st' in Hr. rewrite wake_up_exit in Hr. apply (i_ex _ I) in Hr. destruct Hr as (Hr1 & Hr2).
    destruct (Nat.eq_dec r g) as [->|N]. congruence. rewrite Ao, Bo; auto.
  - split; auto. split; auto. intros r Nr. split; auto. split; auto. rewrite O4, in_app_iff. simpl. intuition.
Qed.

(* ------------------------------------------------------------------ transfer *)
Lemma tw_in a b g : filter is_twake a = filter is_twake b -> In (TWake g) a -> In (TWake g) b.
Proof.
  intros E H. assert (In (TWake g) (filter is_twake a)) by (apply filter_In; split; auto).
  rewrite E in H0. now apply filter_In in H0.
Qed.

Lemma inv_q st st' :
  (forall g, blk st' g = blk st g) ->
  (forall g, asl st' g = asl st g \/ (asl st' g = true /\ ~ In g (scheduled st))) ->
  (forall g, g_exit (get_g st' g) = g_exit (get_g st g) \/ (asl st' g = true /\ blk st g = None)) ->
  length (gors st') = length (gors st) ->
  scheduled st' = scheduled st -> filter is_twake (timers st') = filter is_twake (timers st) ->
  (forall c e, In e (sq st' c) -> sentry_ok st c e) -> (forall c e, In e (rq st' c) -> rentry_ok st c e) ->
  (forall c, NoDup (sq st' c)) -> (forall c, NoDup (rq st' c)) -> inv st -> inv st'.
Proof.
  intros B A EXh L S T Hs Hr Ns Nr I. constructor; auto.
  - intros c e He. apply sentry_ok_tr with st; auto.
  - intros c e He. apply rentry_ok_tr with st; auto.
  - intros g Hb. rewrite B in Hb. destruct (A g) as [E|[E _]]; rewrite E; auto. apply I; auto.
  - intros g Hg. rewrite S in Hg. rewrite L. destruct (A g) as [E|[_ E]]; [|contradiction]. rewrite E. apply I; auto.
  - rewrite S. apply I.
  - intros g Hg. rewrite B. apply I. apply (tw_in _ _ g T); auto.
  - rewrite T. apply I.
  - intros g Hg. rewrite B. destruct (EXh g) as [X|(X1 & X2)].
    + rewrite X in Hg. apply (i_ex _ I) in Hg. destruct Hg as (H1 & H2). split; auto.
      destruct (A g) as [Y|[Y _]]; congruence.
    + split; auto.
Qed.

Lemma blk_fr st st' : fr st st' -> forall g, blk st' g = blk st g.
Proof. intros (G & _) g. unfold blk. now rewrite (get_g_of_gors _ _ G). Qed.
Lemma asl_fr st st' : fr st st' -> forall g, asl st' g = asl st g.
Proof. intros (G & _) g. unfold asl. now rewrite (get_g_of_gors _ _ G). Qed.

Lemma inv_qsub st st' : fr st st' -> qsub st st' -> inv st -> inv st'.
Proof.
  intros F Q I. pose proof (blk_fr _ _ F). pose proof (asl_fr _ _ F).
  assert (EX : forall g, g_exit (get_g st' g) = g_exit (get_g st g)) by (intros; now rewrite (get_g_of_gors _ _ (proj1 F))).
  destruct F as (G & S & T & M).
  apply inv_q with st; auto; try congruence.
  - intros c e He. apply I. now apply (proj1 (Q c)).
  - intros c e He. apply I. now apply (proj1 (proj2 (Q c))).
  - intros c. apply Q, I.
  - intros c. apply Q, I.
Qed.

Definition rinv (st : state) (r : gid) : Prop := inv st /\ running st r /\ asl st r = false.
Definition binv (st : state) (r : gid) : Prop := inv st /\ running st r.

Lemma running_fr st st' r : fr st st' -> running st r -> running st' r.
Proof. intros (G & S & T & M) (A & B & C). unfold running. rewrite M, G, S. auto. Qed.

Lemma rinv_qsub st st' r : fr st st' -> qsub st st' -> rinv st r -> rinv st' r.
Proof.
  intros F Q (I & R & A). split; [|split]. eapply inv_qsub; eauto. eapply running_fr; eauto. now rewrite (asl_fr _ _ F).
Qed.

Lemma rinv_set st c ch r :
  incl (c_sendq ch) (sq st c) -> incl (c_recvq ch) (rq st c) ->
  (NoDup (sq st c) -> NoDup (c_sendq ch)) -> (NoDup (rq st c) -> NoDup (c_recvq ch)) -> rinv st r -> rinv (set_chan st c ch) r.
Proof. intros. eapply rinv_qsub; eauto using fr_set_chan, qsub_set. Qed.

Lemma rinv_blk st r : rinv st r -> blk st r = None.
Proof.
  intros (I & _ & A). destruct (blk st r) eqn:E; auto.
  assert (asl st r = true) by (apply I; congruence). congruence.
Qed.

Lemma no_entries_of_none st g : inv st -> blk st g = None -> no_entries st g.
Proof.
  intros I B c. split; intros e He Eo.
  - pose proof (i_s _ I c e He) as Ok. destruct e; simpl in *; subst; [congruence|destruct Ok as (?&?&?); congruence].
  - pose proof (i_r _ I c e He) as Ok. destruct e; simpl in *; subst; [congruence|destruct Ok as (?&?&?); congruence].
Qed.

(* ------------------------------------------------------------------ $block, pushes *)
Lemma block_inv st g b : rinv st g ->
  inv (block g b st) /\ running (block g b st) g /\ blk (block g b st) g = Some b /\ no_entries (block g b st) g.
Proof.
  intros R. pose proof (rinv_blk _ _ R) as Bn. destruct R as (I & (M & L & NS) & A).
  pose proof (no_entries_of_none _ _ I Bn) as NE.
  assert (G : forall g', get_g (block g b st) g' =
                         if Nat.eqb g g' then get_g st g <| g_asleep := true |> <| g_blocked := Some b |> else get_g st g').
  { intros g'. unfold block. rewrite get_set_g. destruct (Nat.ltb_spec g (length (gors st))); [|lia]. now rewrite andb_true_r. }
  assert (Bo : forall g', g' <> g -> blk (block g b st) g' = blk st g').
  { intros g' N. unfold blk. rewrite G. destruct (Nat.eqb_spec g g'); congruence. }
  assert (Ao : forall g', g' <> g -> asl (block g b st) g' = asl st g').
  { intros g' N. unfold asl. rewrite G. destruct (Nat.eqb_spec g g'); congruence. }
  assert (Bg : blk (block g b st) g = Some b). { unfold blk. rewrite G, Nat.eqb_refl. reflexivity. }
  assert (Ag : asl (block g b st) g = true). { unfold asl. rewrite G, Nat.eqb_refl. reflexivity. }
  assert (Len : length (gors (block g b st)) = length (gors st)). { unfold block, set_g. simpl. apply upd_length. }
  split; [constructor|].
  - intros c e He. change (In e (sq st c)) in He. apply sentry_ok_tr with st. apply Bo. apply (proj1 (NE c) e He). apply I; auto.
  - intros c e He. change (In e (rq st c)) in He. apply rentry_ok_tr with st. apply Bo. apply (proj2 (NE c) e He). apply I; auto.
  - exact (i_nds _ I).
  - exact (i_ndr _ I).
  - intros r Hr. destruct (Nat.eq_dec r g) as [->|N]; auto. rewrite Ao; auto. rewrite Bo in Hr; auto. apply I; auto.
  - intros r Hr. change (In r (scheduled st)) in Hr. assert (r <> g) by (intros ->; auto). rewrite Len, Ao; auto. apply I; auto.
  - exact (i_nd _ I).
  - intros r Hr. change (In (TWake r) (timers st)) in Hr. pose proof (i_tm _ I r Hr). assert (r <> g) by (intros ->; congruence).
    rewrite Bo; auto.
  - exact (i_tnd _ I).
  - intros r Hr. rewrite G in Hr. destruct (Nat.eqb_spec g r) as [Eq|N].
    + subst r. simpl in Hr. apply (i_ex _ I) in Hr. destruct Hr; congruence.
    + assert (r <> g) by congruence. rewrite Ao, Bo; auto. apply I; auto.
  - split; [|split; [exact Bg|exact NE]]. split; [exact M|]. split; [rewrite Len; auto|exact NS].
Qed.

Lemma block_push_sendq g b st c e : block g b (push_sendq st c e) = push_sendq (block g b st) c e.
Proof. unfold push_sendq, block, set_g, set_chan, get_chan, get_g. simpl. destruct (c_nil _); reflexivity. Qed.
Lemma block_push_recvq g b st c e : block g b (push_recvq st c e) = push_recvq (block g b st) c e.
Proof. unfold push_recvq, block, set_g, set_chan, get_chan, get_g. simpl. destruct (c_nil _); reflexivity. Qed.

Lemma fr_push_sendq st c e : fr st (push_sendq st c e).
Proof. unfold push_sendq. destruct (c_nil _); repeat split. Qed.
Lemma fr_push_recvq st c e : fr st (push_recvq st c e).
Proof. unfold push_recvq. destruct (c_nil _); repeat split. Qed.

Lemma sq_push_sendq st c e c' x : In x (sq (push_sendq st c e) c') -> In x (sq st c') \/ (c' = c /\ x = e).
Proof.
  unfold push_sendq. destruct (c_nil _); auto. rewrite sq_set. destruct (Nat.eqb_spec c c'); simpl; auto.
  destruct (_ <? _); auto. simpl. rewrite in_app_iff. simpl. subst. intuition.
Qed.
Lemma rq_push_sendq st c e c' : rq (push_sendq st c e) c' = rq st c'.
Proof.
  unfold push_sendq. destruct (c_nil _); auto. rewrite rq_set. destruct (Nat.eqb_spec c c'); simpl; auto.
  destruct (_ <? _); subst; auto.
Qed.
Lemma rq_push_recvq st c e c' x : In x (rq (push_recvq st c e) c') -> In x (rq st c') \/ (c' = c /\ x = e).
Proof.
  unfold push_recvq. destruct (c_nil _); auto. rewrite rq_set. destruct (Nat.eqb_spec c c'); simpl; auto.
  destruct (_ <? _); auto. simpl. rewrite in_app_iff. simpl. subst. intuition.
Qed.
Lemma sq_push_recvq st c e c' : sq (push_recvq st c e) c' = sq st c'.
Proof.
  unfold push_recvq. destruct (c_nil _); auto. rewrite sq_set. destruct (Nat.eqb_spec c c'); simpl; auto.
  destruct (_ <? _); subst; auto.
Qed.

Lemma nd_push_sendq st c e c' : NoDup (sq st c') -> ~ In e (sq st c) -> NoDup (sq (push_sendq st c e) c').
Proof.
  intros ND N. unfold push_sendq. destruct (c_nil _); auto. rewrite sq_set. destruct (Nat.eqb_spec c c'); simpl; auto.
  destruct (_ <? _); auto. simpl. subst. now apply nodup_snoc.
Qed.
Lemma nd_push_recvq st c e c' : NoDup (rq st c') -> ~ In e (rq st c) -> NoDup (rq (push_recvq st c e) c').
Proof.
  intros ND N. unfold push_recvq. destruct (c_nil _); auto. rewrite rq_set. destruct (Nat.eqb_spec c c'); simpl; auto.
  destruct (_ <? _); auto. simpl. subst. now apply nodup_snoc.
Qed.

Lemma push_sendq_inv st c e : inv st -> sentry_ok st c e -> ~ In e (sq st c) -> inv (push_sendq st c e).
Proof.
  intros I Ok N. pose proof (fr_push_sendq st c e) as F. pose proof (blk_fr _ _ F). pose proof (asl_fr _ _ F).
  assert (EX : forall g, g_exit (get_g (push_sendq st c e) g) = g_exit (get_g st g)) by (intros; now rewrite (get_g_of_gors _ _ (proj1 F))).
  destruct F as (G & S & T & M). apply inv_q with st; auto; try congruence.
  - intros c' x Hx. apply sq_push_sendq in Hx. destruct Hx as [Hx|(-> & ->)]; auto. apply I; auto.
  - intros c' x Hx. rewrite rq_push_sendq in Hx. apply I; auto.
  - intros c'. apply nd_push_sendq; auto. apply I.
  - intros c'. rewrite rq_push_sendq. apply I.
Qed.
Lemma push_recvq_inv st c e : inv st -> rentry_ok st c e -> ~ In e (rq st c) -> inv (push_recvq st c e).
Proof.
  intros I Ok N. pose proof (fr_push_recvq st c e) as F. pose proof (blk_fr _ _ F). pose proof (asl_fr _ _ F).
  assert (EX : forall g, g_exit (get_g (push_recvq st c e) g) = g_exit (get_g st g)) by (intros; now rewrite (get_g_of_gors _ _ (proj1 F))).
  destruct F as (G & S & T & M). apply inv_q with st; auto; try congruence.
  - intros c' x Hx. rewrite sq_push_recvq in Hx. apply I; auto.
  - intros c' x Hx. apply rq_push_recvq in Hx. destruct Hx as [Hx|(-> & ->)]; auto. apply I; auto.
  - intros c'. rewrite sq_push_recvq. apply I.
  - intros c'. apply nd_push_recvq; auto. apply I.
Qed.

(* ------------------------------------------------------------------ shift + invoke *)
Lemma wake_after_shift g w st st1 r : rinv st r -> fr st st1 -> qsub st st1 -> blk st g <> None -> blk st g <> Some BTimer ->
  ((forall cs, blk st g <> Some (BSel cs)) -> no_entries st1 g) -> rinv (wake_up g w st1) r.
Proof.
  intros R F Q B BT NE. pose proof (rinv_blk _ _ R) as Br. pose proof (rinv_qsub _ _ _ F Q R) as (I1 & R1 & A1).
  pose proof (blk_fr _ _ F) as BF.
  assert (N : r <> g) by (intros ->; congruence).
  destruct (wake_up_inv g w st1 I1) as (I2 & M2 & L2 & O).
  - rewrite BF; auto.
  - intros H. apply BT. rewrite <- BF. apply I1; auto.
  - intros D. apply NE. intros cs. rewrite <- BF. apply D.
  - destruct (O r N) as (Ar & Bbr & Sr). destruct R1 as (Md & Lr & NSr). split; auto. split.
    + split; [congruence|split;[lia|auto]].
    + congruence.
Qed.

Lemma shift_send_rinv st c e q ch1 w r : rinv st r -> sq st c = e :: q -> c_sendq ch1 = q -> c_recvq ch1 = rq st c ->
  rinv (wake_up (sowner e) w (set_chan st c ch1)) r.
Proof.
  intros R E Q1 Q2. pose proof R as (I & _).
  assert (In0 : In e (sq st c)) by (rewrite E; now left).
  pose proof (i_s _ I c e In0) as Ok.
  pose proof (i_nds _ I c) as ND. rewrite E in ND. apply NoDup_cons_iff in ND. destruct ND as (Nin & NDq).
  assert (Rg : c < length (chans st)). { apply in_range_of_sendq. unfold sq in E. rewrite E. discriminate. }
  assert (QS : qsub st (set_chan st c ch1)).
  { apply qsub_set.
    - rewrite E, Q1. apply incl_tl, incl_refl.
    - rewrite Q2; apply incl_refl.
    - rewrite Q1; auto.
    - rewrite Q2; auto. }
  apply wake_after_shift with st; auto using fr_set_chan.
  - destruct e; simpl in *; [congruence | destruct Ok as (?&?&?); congruence].
  - destruct e; simpl in *; [congruence | destruct Ok as (?&?&?); congruence].
  - intros D c'. split; intros e' He' Eo.
    + pose proof He' as He0. apply (proj1 (QS c')) in He0. pose proof (i_s _ I c' e' He0) as Ok'.
      destruct e as [g v|g i v]; simpl in *.
      * destruct e' as [g' v'|g' i' v']; simpl in *; subst g'.
        -- rewrite Ok in Ok'. inversion Ok'; subst c' v'. rewrite sq_set, Nat.eqb_refl in He'.
           destruct (Nat.ltb_spec c (length (chans st))); [|lia]. simpl in He'. rewrite Q1 in He'. auto.
        -- destruct Ok' as (?&?&?). congruence.
      * destruct Ok as (cs&B&_). exact (D cs B).
    + pose proof He' as He0. apply (proj1 (proj2 (QS c'))) in He0. pose proof (i_r _ I c' e' He0) as Ok'.
      destruct e as [g v|g i v]; simpl in *.
      * destruct e'; simpl in *; subst; [congruence|destruct Ok' as (?&?&?); congruence].
      * destruct Ok as (cs&B&_). exact (D cs B).
Qed.

Lemma shift_recv_rinv st c e q ch1 w r : rinv st r -> rq st c = e :: q -> c_recvq ch1 = q -> c_sendq ch1 = sq st c ->
  rinv (wake_up (rowner e) w (set_chan st c ch1)) r.
Proof.
  intros R E Q1 Q2. pose proof R as (I & _).
  assert (In0 : In e (rq st c)) by (rewrite E; now left).
  pose proof (i_r _ I c e In0) as Ok.
  pose proof (i_ndr _ I c) as ND. rewrite E in ND. apply NoDup_cons_iff in ND. destruct ND as (Nin & NDq).
  assert (Rg : c < length (chans st)). { apply in_range_of_recvq. unfold rq in E. rewrite E. discriminate. }
  assert (QS : qsub st (set_chan st c ch1)).
  { apply qsub_set.
    - rewrite Q2; apply incl_refl.
    - rewrite E, Q1. apply incl_tl, incl_refl.
    - rewrite Q2; auto.
    - rewrite Q1; auto. }
  apply wake_after_shift with st; auto using fr_set_chan.
  - destruct e; simpl in *; [congruence | destruct Ok as (?&?&?); congruence].
  - destruct e; simpl in *; [congruence | destruct Ok as (?&?&?); congruence].
  - intros D c'. split; intros e' He' Eo.
    + pose proof He' as He0. apply (proj1 (QS c')) in He0. pose proof (i_s _ I c' e' He0) as Ok'.
      destruct e as [g|g i]; simpl in *.
      * destruct e'; simpl in *; subst; [congruence|destruct Ok' as (?&?&?); congruence].
      * destruct Ok as (cs&B&_). exact (D cs B).
    + pose proof He' as He0. apply (proj1 (proj2 (QS c'))) in He0. pose proof (i_r _ I c' e' He0) as Ok'.
      destruct e as [g|g i]; simpl in *.
      * destruct e' as [g'|g' i']; simpl in *; subst g'.
        -- rewrite Ok in Ok'. inversion Ok'; subst c'. rewrite rq_set, Nat.eqb_refl in He'.
           destruct (Nat.ltb_spec c (length (chans st))); [|lia]. simpl in He'. rewrite Q1 in He'. auto.
        -- destruct Ok' as (?&?&?). congruence.
      * destruct Ok as (cs&B&_). exact (D cs B).
Qed.

(* ------------------------------------------------------------------ the operations *)
Lemma do_send_rinv st g c v : rinv st g ->
  match do_send st g c v with Done s | Panicked s _ => rinv s g | Blocked s => binv s g end.
Proof.
  intros R. unfold do_send. destruct (c_closed (get_chan st c)); auto.
  destruct (c_recvq (get_chan st c)) as [|e q] eqn:Erq.
  - destruct (_ <? _).
    + apply rinv_set; simpl; auto; apply incl_refl.
    + rewrite block_push_sendq. destruct (block_inv st g (BSend c v) R) as (I & Ru & Bg & NE).
      split.
      * apply push_sendq_inv; auto. intros H. apply (proj1 (NE c) _ H). reflexivity.
      * eapply running_fr; eauto using fr_push_sendq.
  - destruct (invoke_recv_entry_is (set_chan st c (get_chan st c <| c_recvq := q |> <| c_acc := c_acc (get_chan st c) ++ [v] |>
                                                     <| c_rcv := c_rcv (get_chan st c) ++ [v] |>)) e v true) as (w & ->).
    eapply shift_recv_rinv; eauto.
Qed.

Lemma recv_now_rinv fx st g c : fix_select_send fx = true -> rinv st g -> rinv (rnow_state (recv_now fx st c)) g.
Proof.
  intros F R. unfold recv_now.
  assert (Tail : forall s, rinv s g -> rinv (rnow_state
     match c_buf (get_chan s c) with
     | v :: b => RNow (set_chan s c (get_chan s c <| c_buf := b |> <| c_rcv := c_rcv (get_chan s c) ++ [v] |>)) v true
     | [] => if c_closed (get_chan s c) then (if c_nil (get_chan s c) then RThrow s PJsError else RNow s 0%N false) else RWait s
     end) g).
  { intros s Rs. destruct (c_buf (get_chan s c)); [destruct (c_closed _); [destruct (c_nil _)|]|]; simpl; auto.
    apply rinv_set; simpl; auto; apply incl_refl. }
  destruct (c_sendq (get_chan st c)) as [|e q] eqn:Esq.
  - apply Tail; auto.
  - destruct (invoke_send_entry_is fx (set_chan st c (get_chan st c <| c_sendq := q |>)) c e false F) as (w & v' & ->).
    apply Tail. apply rinv_set; simpl; auto; try apply incl_refl. eapply shift_send_rinv; eauto.
Qed.

Lemma do_recv_rinv fx st g c : fix_select_send fx = true -> rinv st g ->
  match do_recv fx st g c with RDone s _ _ | RPanicked s _ => rinv s g | RBlocked s => binv s g end.
Proof.
  intros F R. unfold do_recv. pose proof (recv_now_rinv fx st g c F R) as K.
  destruct (recv_now fx st c) as [s v ok|s|s k]; simpl in *; auto.
  rewrite block_push_recvq. destruct (block_inv s g (BRecv c) K) as (I & Ru & Bg & NE).
  split.
  - apply push_recvq_inv; auto. intros H. apply (proj2 (NE c) _ H). reflexivity.
  - eapply running_fr; eauto using fr_push_recvq.
Qed.

Lemma close_senders_rinv fx g fuel st c : fix_select_send fx = true -> rinv st g ->
  rinv (sres_state (close_senders fx fuel st c)) g.
Proof.
  intros F. revert st. induction fuel as [|f IH]; intros st R; simpl; auto.
  destruct (c_sendq (get_chan st c)) as [|e q] eqn:Esq; simpl; auto.
  destruct (invoke_send_entry_is fx (set_chan st c (get_chan st c <| c_sendq := q |>)) c e true F) as (w & v' & ->).
  apply IH. eapply shift_send_rinv; eauto.
Qed.

Lemma close_receivers_rinv g fuel st c : rinv st g -> rinv (close_receivers fuel st c) g.
Proof.
  revert st. induction fuel as [|f IH]; intros st R; simpl; auto.
  destruct (c_recvq (get_chan st c)) as [|e q] eqn:Erq; simpl; auto.
  destruct (invoke_recv_entry_is (set_chan st c (get_chan st c <| c_recvq := q |>)) e 0%N false) as (w & ->).
  apply IH. eapply shift_recv_rinv; eauto.
Qed.

Lemma do_close_rinv fx st g c : fix_select_send fx = true -> rinv st g -> rinv (opres_state (do_close fx st c)) g.
Proof.
  intros F R. unfold do_close.
  destruct (fix_close_nil fx && c_nil (get_chan st c)); simpl; auto.
  destruct (c_closed (get_chan st c)); simpl; auto.
  set (st1 := set_chan st c (get_chan st c <| c_closed := true |>)).
  assert (R1 : rinv st1 g) by (apply rinv_set; simpl; auto; apply incl_refl).
  pose proof (close_senders_rinv fx g (length (c_sendq (get_chan st c))) st1 c F R1) as K.
  destruct (close_senders fx (length (c_sendq (get_chan st c))) st1 c) as [st2 v|st2 k]; simpl in *; auto.
  now apply close_receivers_rinv.
Qed.

(* ------------------------------------------------------------------ select *)
Lemma block_sel_register g b cs : forall i st, block g b (sel_register g cs i st) = sel_register g cs i (block g b st).
Proof.
  induction cs as [|[|c|c v] r IH]; intros i st; simpl; auto.
  - now rewrite IH, block_push_recvq.
  - now rewrite IH, block_push_sendq.
Qed.

Lemma sel_register_inv g cs0 : forall cs i st, inv st -> blk st g = Some (BSel cs0) ->
  (forall j cm, nth_error cs j = Some cm -> nth_error cs0 (i + j) = Some cm) ->
  (forall c j v, In (SSel g j v) (sq st c) -> j < i) -> (forall c j, In (RSel g j) (rq st c) -> j < i) ->
  inv (sel_register g cs i st) /\ fr st (sel_register g cs i st).
Proof.
  induction cs as [|cm r IH]; intros i st I B Hn Ls Lr; simpl. { split; auto using fr_refl. }
  assert (Hn' : forall j cm', nth_error r j = Some cm' -> nth_error cs0 (S i + j) = Some cm').
  { intros j cm' H. replace (S i + j) with (i + S j) by lia. apply Hn. exact H. }
  pose proof (Hn 0 cm eq_refl) as H0. rewrite Nat.add_0_r in H0.
  destruct cm as [|c|c v].
  - apply IH; auto.
    + intros c j v H. apply Ls in H. lia.
    + intros c j H. apply Lr in H. lia.
  - set (st1 := push_recvq st c (RSel g i)).
    assert (F1 : fr st st1) by apply fr_push_recvq.
    assert (I1 : inv st1). { apply push_recvq_inv; auto. simpl. eauto. intros H. apply Lr in H. lia. }
    destruct (IH (S i) st1 I1) as (I2 & F2); auto.
    + rewrite (blk_fr _ _ F1). auto.
    + intros c' j v H. unfold st1 in H. rewrite sq_push_recvq in H. apply Ls in H. lia.
    + intros c' j H. apply rq_push_recvq in H. destruct H as [H|(_ & H)]. apply Lr in H; lia. inversion H; lia.
    + split; auto. eapply fr_trans; eauto.
  - set (st1 := push_sendq st c (SSel g i v)).
    assert (F1 : fr st st1) by apply fr_push_sendq.
    assert (I1 : inv st1). { apply push_sendq_inv; auto. simpl. eauto. intros H. apply Ls in H. lia. }
    destruct (IH (S i) st1 I1) as (I2 & F2); auto.
    + rewrite (blk_fr _ _ F1). auto.
    + intros c' j v' H. apply sq_push_sendq in H. destruct H as [H|(_ & H)]. apply Ls in H; lia. inversion H; lia.
    + intros c' j H. unfold st1 in H. rewrite rq_push_sendq in H. apply Lr in H. lia.
    + split; auto. eapply fr_trans; eauto.
Qed.

Definition send_ready (st : state) (cm : comm) : Prop :=
  match cm with
  | CSend c v => c_closed (get_chan st c) = false /\
                 (c_recvq (get_chan st c) <> [] \/ length (c_buf (get_chan st c)) < c_cap (get_chan st c))
  | _ => True
  end.

Lemma sel_scan_ready st cs0 : forall cs i sel ready s' r',
  (forall j cm, nth_error cs j = Some cm -> nth_error cs0 (i + j) = Some cm) ->
  sel_scan st cs i sel ready = Some (s', r') ->
  (forall k, sel = Some k -> nth_error cs0 k = Some CDefault) ->
  (forall j, In j ready -> exists cm, nth_error cs0 j = Some cm /\ send_ready st cm) ->
  (forall k, s' = Some k -> nth_error cs0 k = Some CDefault) /\
  (forall j, In j r' -> exists cm, nth_error cs0 j = Some cm /\ send_ready st cm).
Proof.
  induction cs as [|cm r IH]; intros i sel ready s' r' Hn H Hs Hr; simpl in H. { inversion H; subst; auto. }
  assert (Hn' : forall j cm', nth_error r j = Some cm' -> nth_error cs0 (S i + j) = Some cm').
  { intros j cm' H1. replace (S i + j) with (i + S j) by lia. apply Hn. exact H1. }
  pose proof (Hn 0 cm eq_refl) as H0. rewrite Nat.add_0_r in H0.
  assert (Ext : forall cm', nth_error cs0 i = Some cm' -> send_ready st cm' ->
                forall j, In j (ready ++ [i]) -> exists cm, nth_error cs0 j = Some cm /\ send_ready st cm).
  { intros cm' E1 E2 j Hj. apply in_app_iff in Hj. destruct Hj as [Hj|[<-|[]]]; eauto. }
  destruct cm as [|c|c v].
  - eapply IH; eauto. intros k E. inversion E; subst. exact H0.
  - destruct (_ || _ || _) in H; eapply IH; eauto. eapply Ext; eauto. exact I.
  - destruct (c_closed (get_chan st c)) eqn:Ec; [discriminate|].
    destruct (_ || _) eqn:Er in H; eapply IH; eauto. eapply Ext; eauto. simpl. split; auto.
    apply orb_true_iff in Er. destruct Er as [Er|Er].
    + left. intros E0. rewrite E0 in Er. discriminate.
    + right. now apply Nat.ltb_lt.
Qed.

Lemma pick_index_lt k n : 0 < n -> pick_index k n < n.
Proof.
  intros. unfold pick_index. apply Nat.div_lt_upper_bound. lia. pose proof (Nat.mod_upper_bound k 60). nia.
Qed.

Lemma do_send_ready st g c v : send_ready st (CSend c v) -> forall s, do_send st g c v <> Blocked s.
Proof.
  intros (C & R) s. unfold do_send. rewrite C. destruct (c_recvq (get_chan st c)); [|discriminate].
  destruct R as [R|R]; [congruence|]. apply Nat.ltb_lt in R. rewrite R. discriminate.
Qed.

Lemma do_select_rinv fx st g cs : fix_select_send fx = true -> rinv st g ->
  match do_select fx st g cs with SelDone s _ _ | SelPanicked s _ | SelOdd s => rinv s g | SelBlocked s => binv s g end.
Proof.
  intros F R. unfold do_select.
  destruct (sel_scan st cs 0 None []) as [[selection ready]|] eqn:Sc; auto.
  destruct (sel_scan_ready st cs cs 0 None [] selection ready (fun j cm H => H) Sc) as (Rs & Rd).
  { discriminate. } { intros j []. }
  assert (Imm : forall st1 i, rinv st1 g -> (forall c, get_chan st1 c = get_chan st c) ->
            (exists cm, nth_error cs i = Some cm /\ send_ready st cm) ->
            match
            match nth i cs CDefault with
            | CDefault => SelDone st1 i None
            | CRecv c => match recv_now fx st1 c with
                         | RNow st2 v ok => SelDone st2 i (Some (v, ok))
                         | RWait st2 => SelOdd st2
                         | RThrow st2 k => SelPanicked st2 k
                         end
            | CSend c v => match do_send st1 g c v with
                           | Done st2 => SelDone st2 i None
                           | Blocked st2 => SelOdd st2
                           | Panicked st2 k => SelPanicked st2 k
                           end
            end with SelDone s _ _ | SelPanicked s _ | SelOdd s => rinv s g | SelBlocked s => binv s g end).
  { intros st1 i R1 Gc (cm & Hn & Sr). pose proof (nth_error_nth _ _ CDefault Hn) as En.
    destruct (nth i cs CDefault) as [|c|c v]; auto.
    - pose proof (recv_now_rinv fx st1 g c F R1) as K. destruct (recv_now fx st1 c); simpl in *; auto.
    - pose proof (do_send_rinv st1 g c v R1) as K. destruct (do_send st1 g c v) eqn:Ed; auto.
      exfalso. subst cm. apply (do_send_ready st1 g c v) in Ed; auto. simpl in *. now rewrite Gc. }
  destruct ready as [|x ready].
  - destruct selection as [i|].
    + apply Imm; auto. exists CDefault. split; [apply Rs; auto|exact I].
    + rewrite block_sel_register. destruct (block_inv st g (BSel cs) R) as (I & Ru & Bg & NE).
      destruct (sel_register_inv g cs cs 0 _ I Bg) as (I2 & F2); auto.
      * intros c j v H. exfalso. apply (proj1 (NE c) _ H). reflexivity.
      * intros c j H. exfalso. apply (proj2 (NE c) _ H). reflexivity.
      * split; auto. eapply running_fr; eauto.
  - apply Imm.
    + apply (rinv_qsub st); auto. repeat split. exact (qsub_refl st).
    + reflexivity.
    + apply Rd. apply nth_In. apply pick_index_lt. simpl. lia.
Qed.

(* ------------------------------------------------------------------ bookkeeping frames *)
Definition gsame (st st' : state) : Prop :=
  chans st' = chans st /\ (forall g, blk st' g = blk st g) /\ (forall g, asl st' g = asl st g) /\
  length (gors st') = length (gors st) /\ scheduled st' = scheduled st /\ timers st' = timers st /\ md st' = md st /\
  (forall g, g_exit (get_g st' g) = g_exit (get_g st g)).
Lemma gsame_refl st : gsame st st.
Proof. unfold gsame. auto 12. Qed.
Lemma gsame_trans a b c : gsame a b -> gsame b c -> gsame a c.
Proof.
  intros (A1&A2&A3&A4&A5&A6&A7&A8) (B1&B2&B3&B4&B5&B6&B7&B8). unfold gsame.
  split; [congruence|]. split; [intros; now rewrite B2|]. split; [intros; now rewrite B3|].
  split; [congruence|]. split; [congruence|]. split; [congruence|]. split; [congruence|]. intros; now rewrite B8.
Qed.
Lemma gsame_triv st st' : chans st' = chans st -> gors st' = gors st -> scheduled st' = scheduled st ->
  timers st' = timers st -> md st' = md st -> gsame st st'.
Proof.
  intros C G S T M. unfold gsame, blk, asl. split; auto. split; [intros; now rewrite (get_g_of_gors _ _ G)|].
  split; [intros; now rewrite (get_g_of_gors _ _ G)|]. split; [now rewrite G|].
  split; auto. split; auto. split; auto. intros; now rewrite (get_g_of_gors _ _ G).
Qed.
Lemma gsame_set_g st g x : g_blocked x = g_blocked (get_g st g) -> g_asleep x = g_asleep (get_g st g) ->
  g_exit x = g_exit (get_g st g) -> gsame st (set_g st g x).
Proof.
  intros B A X. unfold gsame. split; [reflexivity|].
  split. { intros g'. unfold blk. rewrite get_set_g. destruct (Nat.eqb_spec g g'); simpl; auto. destruct (_ <? _); subst; auto. }
  split. { intros g'. unfold asl. rewrite get_set_g. destruct (Nat.eqb_spec g g'); simpl; auto. destruct (_ <? _); subst; auto. }
  split. { unfold set_g; simpl; apply upd_length. }
  split; [reflexivity|]. split; [reflexivity|]. split; [reflexivity|].
  intros g'. rewrite get_set_g. destruct (Nat.eqb_spec g g'); simpl; auto. destruct (_ <? _); subst; auto.
Qed.
Lemma gsame_set_code g s st : gsame st (set_code g s st).
Proof. apply gsame_set_g; reflexivity. Qed.
Lemma gsame_clear_wake g st : gsame st (clear_wake g st).
Proof. apply gsame_set_g; reflexivity. Qed.
Lemma gsame_log g e st : gsame st (log g e st).
Proof. apply gsame_triv; reflexivity. Qed.
Lemma gsame_panic_g g k st : gsame st (panic_g g k st).
Proof. eapply gsame_trans. apply gsame_log. apply gsame_set_code. Qed.

Ltac gs1 :=
  match goal with
  | |- gsame ?s ?s => apply gsame_refl
  | |- gsame _ (set_code _ _ _) => eapply gsame_trans; [|apply gsame_set_code]
  | |- gsame _ (log _ _ _) => eapply gsame_trans; [|apply gsame_log]
  | |- gsame _ (panic_g _ _ _) => eapply gsame_trans; [|apply gsame_panic_g]
  | |- gsame _ (clear_wake _ _) => eapply gsame_trans; [|apply gsame_clear_wake]
  | |- gsame _ (set_g ?x _ _) => apply gsame_trans with x; [|apply gsame_set_g; reflexivity]
  | |- gsame _ (set _ _ ?x) => apply gsame_trans with x; [|apply gsame_triv; reflexivity]
  end.
Ltac gs := repeat gs1.

Lemma inv_gsame st st' : gsame st st' -> inv st -> inv st'.
Proof.
  intros (C & B & A & L & S & T & M & X) I.
  assert (SQ : forall c, sq st' c = sq st c) by (intros; unfold sq; now rewrite (chans_of_gors_only _ _ C)).
  assert (RQ : forall c, rq st' c = rq st c) by (intros; unfold rq; now rewrite (chans_of_gors_only _ _ C)).
  apply inv_q with st; auto.
  - now rewrite T.
  - intros c e. rewrite SQ. apply I.
  - intros c e. rewrite RQ. apply I.
  - intros c. rewrite SQ. apply I.
  - intros c. rewrite RQ. apply I.
Qed.
Lemma running_gsame st st' r : gsame st st' -> running st r -> running st' r.
Proof. intros (C & B & A & L & S & T & M & _) (X & Y & Z). unfold running. rewrite M, L, S. auto. Qed.
Lemma rinv_gsame st st' r : gsame st st' -> rinv st r -> rinv st' r.
Proof.
  intros G (I & R & A). split; [|split]. eapply inv_gsame; eauto. eapply running_gsame; eauto.
  destruct G as (_ & _ & A' & _). now rewrite A'.
Qed.

Definition ginv (st : state) : Prop := inv st /\ forall r, md st = MRun r -> running st r /\ asl st r = false.

Lemma rinv_ginv st g : rinv st g -> ginv st.
Proof.
  intros (I & R & A). split; auto. intros r E. pose proof R as (M & _). rewrite M in E. inversion E; subst. split; auto.
Qed.

Lemma inv_set_g st g x : inv st -> g_blocked x = blk st g ->
  (g_asleep x = asl st g \/ (g_asleep x = true /\ ~ In g (scheduled st))) -> g_exit x = g_exit (get_g st g) -> inv (set_g st g x).
Proof.
  intros I B A X.
  assert (EX : forall g', g_exit (get_g (set_g st g x) g') = g_exit (get_g st g')).
  { intros g'. rewrite get_set_g. destruct (Nat.eqb_spec g g'); simpl; auto. destruct (_ <? _); subst; auto. }
  apply inv_q with st; auto.
  - intros g'. unfold blk. rewrite get_set_g. destruct (Nat.eqb_spec g g'); simpl; auto. destruct (_ <? _); subst; auto.
  - intros g'. unfold asl. rewrite get_set_g. destruct (Nat.eqb_spec g g'); simpl; auto. destruct (_ <? _); subst; auto.
  - unfold set_g; simpl; apply upd_length.
  - intros c e He. apply I. exact He.
  - intros c e He. apply I. exact He.
  - intros c. exact (i_nds _ I c).
  - intros c. exact (i_ndr _ I c).
Qed.

Lemma inv_triv st st' : chans st' = chans st -> gors st' = gors st -> scheduled st' = scheduled st ->
  filter is_twake (timers st') = filter is_twake (timers st) -> inv st -> inv st'.
Proof.
  intros C G S T I.
  assert (SQ : forall c, sq st' c = sq st c) by (intros; unfold sq; now rewrite (chans_of_gors_only _ _ C)).
  assert (RQ : forall c, rq st' c = rq st c) by (intros; unfold rq; now rewrite (chans_of_gors_only _ _ C)).
  assert (EX : forall g, g_exit (get_g st' g) = g_exit (get_g st g)) by (intros; now rewrite (get_g_of_gors _ _ G)).
  apply inv_q with st; auto.
  - intros; unfold blk; now rewrite (get_g_of_gors _ _ G).
  - intros; left; unfold asl; now rewrite (get_g_of_gors _ _ G).
  - now rewrite G.
  - intros c e. rewrite SQ. apply I.
  - intros c e. rewrite RQ. apply I.
  - intros c. rewrite SQ. apply I.
  - intros c. rewrite RQ. apply I.
Qed.

Lemma tw_remove_timer id ts : filter is_twake (remove_timer id ts) = filter is_twake ts.
Proof. induction ts as [|[i|g] ts IH]; simpl; auto. destruct (negb (i =? id)); simpl; auto. now rewrite IH. Qed.

Lemma end_pass_inv st : inv st -> inv (end_pass st).
Proof.
  intros I. unfold end_pass. destruct (scheduled st) eqn:E; apply inv_triv with st; auto; try reflexivity.
  simpl. apply tw_remove_timer.
Qed.
Lemma end_pass_md st : md (end_pass st) = MIdle.
Proof. reflexivity. Qed.

Lemma start_pass_ginv st : inv st -> ginv (start_pass st).
Proof.
  intros I. split.
  - apply inv_triv with st; auto; try reflexivity. unfold start_pass; simpl. rewrite filter_app. simpl. now rewrite app_nil_r.
  - intros r E; discriminate.
Qed.

Definition ytail (g : gid) (st1 : state) : state :=
  let st2 := if g_asleep (get_g st1 g) then st1 <| awake := (awake st1 - 1)%Z |> else st1 in
  if g_asleep (get_g st1 g) && negb (main_finished st2) && Z.eqb (awake st2) 0
  then st2 <| halted := Some ODeadlock |> <| md := MIdle |>
  else
    let b := hd false (breaks st2) in
    let st3 := st2 <| breaks := tl (breaks st2) |> in
    if b then end_pass st3 else st3 <| md := MPass |>.
Lemma yield_eq g st : yield g st =
  ytail g (if g_exit (get_g st g) then set_g st g (get_g st g <| g_asleep := true |>) <| total := (total st - 1)%Z |> else st).
Proof. reflexivity. Qed.

Lemma ytail_ginv g st1 : inv st1 -> ginv (ytail g st1).
Proof.
  intros I1. unfold ytail.
  set (st2 := if g_asleep (get_g st1 g) then _ else st1).
  assert (I2 : inv st2). { unfold st2. destruct (g_asleep _); auto. apply inv_triv with st1; auto; reflexivity. }
  destruct (_ && _ && _).
  - split. apply inv_triv with st2; auto; reflexivity. simpl. intros r E; discriminate.
  - destruct (hd false (breaks st2)).
    + split. apply end_pass_inv. apply inv_triv with st2; auto; reflexivity. intros r E. rewrite end_pass_md in E. discriminate.
    + split. apply inv_triv with st2; auto; reflexivity. simpl; intros r E; discriminate.
Qed.

Lemma yield_ginv g st : inv st -> running st g -> ginv (yield g st).
Proof.
  intros I (M & L & NS). rewrite yield_eq. apply ytail_ginv. set (x := get_g st g).
  destruct (g_exit x); auto. apply inv_triv with (set_g st g (x <| g_asleep := true |>)); try reflexivity.
  apply inv_set_g; auto.
Qed.

(* the running goroutine sets its exit flag and returns to $goroutine's finally block at once *)
Lemma yield_exit_ginv g st s' : inv st -> running st g -> asl st g = false ->
  chans s' = chans st -> gors s' = upd (gors st) g (get_g st g <| g_exit := true |>) ->
  scheduled s' = scheduled st -> timers s' = timers st -> ginv (yield g s').
Proof.
  intros I (M & L & NS) A C G S T. rewrite yield_eq. apply ytail_ginv.
  assert (Bn : blk st g = None).
  { destruct (blk st g) eqn:E; auto. assert (asl st g = true) by (apply I; congruence). congruence. }
  assert (Gg : get_g s' g = get_g st g <| g_exit := true |>).
  { unfold get_g at 1. rewrite G, nth_upd, Nat.eqb_refl. destruct (Nat.ltb_spec g (length (gors st))); [reflexivity|lia]. }
  rewrite Gg. simpl.
  set (st1 := _ <| total := _ |>).
  assert (G1 : forall h, get_g st1 h = if Nat.eqb g h then get_g st g <| g_exit := true |> <| g_asleep := true |> else get_g st h).
  { intros h. unfold st1, get_g. simpl. rewrite G, !nth_upd, !upd_length.
    destruct (Nat.eqb_spec g h); simpl; auto. destruct (Nat.ltb_spec g (length (gors st))); [reflexivity|lia]. }
  assert (SQ : forall c, sq st1 c = sq st c) by (intros; unfold sq; now rewrite (chans_of_gors_only st st1 C)).
  assert (RQ : forall c, rq st1 c = rq st c) by (intros; unfold rq; now rewrite (chans_of_gors_only st st1 C)).
  apply inv_q with st.
  - intros h. unfold blk. rewrite G1. destruct (Nat.eqb_spec g h); subst; auto.
  - intros h. unfold asl. rewrite G1. destruct (Nat.eqb_spec g h); subst; auto.
  - intros h. unfold asl. rewrite G1. destruct (Nat.eqb_spec g h); subst; auto.
  - unfold st1. simpl. now rewrite upd_length, G, upd_length.
  - exact S.
  - unfold st1. simpl. now rewrite T.
  - intros c e. rewrite SQ. apply I.
  - intros c e. rewrite RQ. apply I.
  - intros c. rewrite SQ. apply I.
  - intros c. rewrite RQ. apply I.
  - exact I.
Qed.

(* ------------------------------------------------------------------ $go *)
Lemma spawn_eq prog k st : spawn prog k st =
  st <| total := (total st + 1)%Z |> <| awake := (awake st + 1)%Z |>
     <| gors := gors st ++ [mkGor (nth k (p_scripts prog) []) false false None None] |>
     <| scheduled := scheduled st ++ [length (gors st)] |>.
Proof.
  unfold spawn, schedule. set (st1 := _ <| gors := _ |>).
  assert (E : g_asleep (get_g st1 (length (gors st))) = false).
  { unfold st1, get_g. simpl. rewrite app_nth2, Nat.sub_diag; auto. }
  rewrite E. reflexivity.
Qed.

Lemma spawn_rinv prog k st g : rinv st g -> rinv (spawn prog k st) g.
Proof.
  intros (I & (M & L & NS) & A). pose proof (same_spawn prog k st) as (C & B).
  rewrite spawn_eq in *. set (st' := _ <| scheduled := _ |>) in *.
  assert (G1 : forall g', g' < length (gors st) -> get_g st' g' = get_g st g').
  { intros g' H. unfold st', get_g. simpl. now rewrite app_nth1. }
  assert (A2 : asl st' (length (gors st)) = false).
  { unfold asl, st', get_g. simpl. rewrite app_nth2, Nat.sub_diag; auto. }
  assert (Ln : length (gors st') = S (length (gors st))). { unfold st'. simpl. rewrite app_length. simpl. lia. }
  assert (Sc : scheduled st' = scheduled st ++ [length (gors st)]) by reflexivity.
  assert (NI : ~ In (length (gors st)) (scheduled st)). { intros H. apply I in H. lia. }
  split; [constructor|].
  - intros c e He. apply sentry_ok_tr with st; auto. apply I. exact He.
  - intros c e He. apply rentry_ok_tr with st; auto. apply I. exact He.
  - exact (i_nds _ I).
  - exact (i_ndr _ I).
  - intros r Hr. rewrite B in Hr.
    assert (r < length (gors st)).
    { destruct (Nat.lt_ge_cases r (length (gors st))); auto. exfalso. apply Hr. now apply dead_blk. }
    unfold asl. rewrite G1; auto. apply I; auto.
  - intros r Hr. rewrite Sc in Hr. rewrite Ln. apply in_app_iff in Hr. destruct Hr as [Hr|[<-|[]]].
    + destruct (i_sch _ I r Hr). split; [lia|]. unfold asl. rewrite G1; auto.
    + split; [lia|exact A2].
  - rewrite Sc. apply nodup_snoc; auto. apply I.
  - intros r Hr. rewrite B. apply I. exact Hr.
  - exact (i_tnd _ I).
  - intros r Hr. destruct (lt_eq_lt_dec r (length (gors st))) as [[H|H]|H].
    + rewrite G1 in Hr by auto. unfold asl. rewrite G1, B by auto. exact (i_ex _ I r Hr).
    + subst r. exfalso. unfold st', get_g in Hr. simpl in Hr. rewrite app_nth2, Nat.sub_diag in Hr by auto. discriminate.
    + rewrite B. unfold asl, blk, get_g. rewrite !nth_overflow by lia. auto.
  - split.
    + split; [exact M|]. split; [lia|]. rewrite Sc, in_app_iff. simpl. intros [H|[H|[]]]; [auto|lia].
    + unfold asl. rewrite G1; auto.
Qed.

Lemma gosched_binv st g : rinv st g ->
  binv (block g BTimer (st <| awake := (awake st + 1)%Z |> <| timers := timers st ++ [TWake g] |>)) g.
Proof.
  intros R. pose proof (rinv_blk _ _ R) as Bn. destruct (block_inv st g BTimer R) as (I & Ru & Bg & NE).
  destruct R as (I0 & _).
  set (s := block g BTimer st) in *.
  change (block g BTimer (st <| awake := (awake st + 1)%Z |> <| timers := timers st ++ [TWake g] |>))
    with (s <| awake := (awake s + 1)%Z |> <| timers := timers s ++ [TWake g] |>).
  split; [constructor|exact Ru].
  - exact (i_s _ I).
  - exact (i_r _ I).
  - exact (i_nds _ I).
  - exact (i_ndr _ I).
  - exact (i_ba _ I).
  - exact (i_sch _ I).
  - exact (i_nd _ I).
  - intros r Hr. change (In (TWake r) (timers s ++ [TWake g])) in Hr. apply in_app_iff in Hr.
    destruct Hr as [Hr|[E|[]]]. exact (i_tm _ I r Hr). inversion E; subst. exact Bg.
  - change (NoDup (filter is_twake (timers s ++ [TWake g]))). rewrite filter_app. simpl. apply nodup_snoc. apply I.
    intros H. apply filter_In in H. destruct H as (H & _). change (In (TWake g) (timers st)) in H.
    apply (i_tm _ I0) in H. congruence.
  - exact (i_ex _ I).
Qed.

(* ------------------------------------------------------------------ one statement *)
Lemma step_goroutine_ginv fx prog g st : fix_select_send fx = true -> rinv st g -> ginv (step_goroutine fx prog g st).
Proof.
  intros F R. unfold step_goroutine. cbv zeta.
  assert (Fin : forall s s', rinv s g -> gsame s s' -> ginv s'). { intros. eapply rinv_ginv, rinv_gsame; eauto. }
  assert (Yld : forall s s', binv s g -> gsame s s' -> ginv (yield g s')).
  { intros s s' (I & Ru) G. apply yield_ginv. eapply inv_gsame; eauto. eapply running_gsame; eauto. }
  assert (Rb : binv st g) by (destruct R as (?&?&?); split; auto).
  destruct (g_code (get_g st g)) as [|o rest].
  { destruct R as (I & Ru & A). apply yield_exit_ginv with st; auto; destruct (Nat.eqb g 0); reflexivity. }
  destruct (g_wake (get_g st g)) as [w|].
  { apply Fin with st; auto. destruct o, w; try destruct closed; try destruct ok; gs. }
  destruct o.
  - pose proof (do_send_rinv st g c v R) as K. destruct (do_send st g c v) as [s|s|s k];
      [apply Fin with s|apply Yld with s|apply Fin with s]; auto; gs.
  - pose proof (do_recv_rinv fx st g c F R) as K. destruct (do_recv fx st g c) as [s v ok|s|s k];
      [apply Fin with s|apply Yld with s|apply Fin with s]; auto; gs.
  - pose proof (do_close_rinv fx st g c F R) as K. destruct (do_close fx st c) as [s|s|s k]; simpl in K;
      apply Fin with s; auto; gs.
  - pose proof (do_select_rinv fx st g cs F R) as K. destruct (do_select fx st g cs) as [s i r|s|s k|s];
      [apply Fin with s|apply Yld with s|apply Fin with s|apply Fin with s]; auto; gs.
  - pose proof (do_recv_rinv fx st g c F R) as K. destruct (do_recv fx st g c) as [s v [|]|s|s k];
      [apply Fin with s|apply Fin with s|apply Yld with s|apply Fin with s]; auto; gs.
  - apply Fin with (spawn prog k (log g (EvGo k) st)); [|gs]. apply spawn_rinv. eapply rinv_gsame; [|exact R]. gs.
  - eapply Yld; [apply gosched_binv; exact R|gs].
  - destruct R as (I & Ru & A). apply yield_exit_ginv with st; auto; reflexivity.
  - apply Fin with st; auto. gs.
Qed.

Lemma no_entries_of_timer st g : inv st -> blk st g = Some BTimer -> no_entries st g.
Proof.
  intros I B c. split; intros e He Eo.
  - pose proof (i_s _ I c e He) as Ok. destruct e; simpl in *; subst; [congruence|destruct Ok as (?&?&?); congruence].
  - pose proof (i_r _ I c e He) as Ok. destruct e; simpl in *; subst; [congruence|destruct Ok as (?&?&?); congruence].
Qed.

Lemma impl_step_ginv fx prog st : fix_select_send fx = true -> ginv st -> ginv (impl_step fx prog st).
Proof.
  intros F (I & Rn). unfold impl_step. destruct (halted st). { split; auto. }
  destruct (md st) as [| |g] eqn:M.
  - unfold fire_timer. destruct (timers st) as [|[id|g] ts] eqn:T.
    + split; auto. rewrite M. discriminate.
    + apply start_pass_ginv. constructor; try apply I.
      * intros r Hr. apply I. rewrite T. now right.
      * pose proof (i_tnd _ I) as N. rewrite T in N. exact N.
    + apply start_pass_ginv.
      pose proof (i_tnd _ I) as N. rewrite T in N. simpl in N. apply NoDup_cons_iff in N. destruct N as (N1 & N2).
      assert (Bg : blk st g = Some BTimer). { apply I. rewrite T. now left. }
      set (s0 := st <| timers := ts |> <| awake := (awake st - 1)%Z |>).
      assert (I0 : inv s0).
      { constructor; try apply I.
        - intros r Hr. apply I. rewrite T. now right.
        - exact N2. }
      apply (wake_up_inv g WTimer s0 I0).
      * change (blk st g <> None). congruence.
      * intros H. apply N1. apply filter_In. split; auto.
      * intros _. apply no_entries_of_timer; auto.
  - destruct (scheduled st) as [|g q] eqn:S.
    + split. apply end_pass_inv; auto. intros r E. rewrite end_pass_md in E. discriminate.
    + pose proof (i_nd _ I) as N. rewrite S in N. apply NoDup_cons_iff in N. destruct N as (N1 & N2).
      assert (Hg : In g (scheduled st)) by (rewrite S; now left).
      split.
      * constructor; try apply I.
        -- intros r Hr. apply I. rewrite S. now right.
        -- exact N2.
      * intros r E. simpl in E. inversion E; subst r. destruct (i_sch _ I g Hg). split; auto.
        split; [reflexivity|]. split; auto.
  - apply step_goroutine_ginv; auto. destruct (Rn g eq_refl) as (Ru & A). split; [exact I|split; [exact Ru|exact A]].
Qed.

Lemma init_state_ginv prog pk bk : ginv (init_state prog pk bk).
Proof.
  unfold init_state. apply start_pass_ginv.
  set (s0 := mkState _ _ _ _ _ _ _ _ _ _ _ _ _ _).
  assert (Q : forall c, sq s0 c = [] /\ rq s0 c = []).
  { intros c. unfold sq, rq, get_chan, s0. simpl. destruct c as [|c]; auto.
    destruct (nth_in_or_default c (map new_chan (p_caps prog)) nil_chan) as [H|H].
    - apply in_map_iff in H. destruct H as (cap & <- & _). auto.
    - rewrite H. auto. }
  assert (Bn : forall g, blk s0 g = None). { intros [|[|g]]; reflexivity. }
  constructor.
  - intros c e He. rewrite (proj1 (Q c)) in He. contradiction.
  - intros c e He. rewrite (proj2 (Q c)) in He. contradiction.
  - intros c. rewrite (proj1 (Q c)). constructor.
  - intros c. rewrite (proj2 (Q c)). constructor.
  - intros g H. now rewrite Bn in H.
  - intros g [<-|[]]. split; [simpl; lia|reflexivity].
  - repeat constructor; auto.
  - intros g [].
  - constructor.
  - intros [|[|g]] H; simpl in H; try discriminate; split; reflexivity.
Qed.

(* ================================================================ the theorems *)
Theorem entries_ginv fx prog st : fix_select_send fx = true -> reachable fx prog st -> ginv st.
Proof. intros F R. induction R; auto using init_state_ginv, impl_step_ginv. Qed.

Theorem entries_invariant fx prog st : fix_select_send fx = true -> reachable fx prog st -> ent_ok st /\ run_ok st.
Proof.
  intros F R. destruct (entries_ginv fx prog st F R) as (I & Rn). split.
  - intros c. repeat split; try apply I.
  - unfold run_ok. split; [exact (i_ba _ I)|]. split; [exact (i_sch _ I)|]. split; [exact (i_nd _ I)|].
    split; [|split; [exact (i_tm _ I)|exact (i_tnd _ I)]].
    intros _ g M. destruct (Rn g M) as ((_ & L & NS) & A). auto.
Qed.

Theorem scheduled_awake fx prog st : fix_select_send fx = true -> reachable fx prog st ->
  forall g, In g (scheduled st) -> g < length (gors st) /\ g_asleep (get_g st g) = false.
Proof. intros F R. destruct (entries_invariant fx prog st F R) as (_ & _ & H & _). exact H. Qed.

Theorem no_stale_entries fx prog st : fix_select_send fx = true -> reachable fx prog st ->
  forall c, (forall e, In e (sq st c) -> sentry_ok st c e) /\ (forall e, In e (rq st c) -> rentry_ok st c e).
Proof. intros F R c. destruct (entries_invariant fx prog st F R) as (E & _). destruct (E c) as (A & B & _). auto. Qed.

Theorem running_wf fx prog st : fix_select_send fx = true -> reachable fx prog st ->
  forall g, md st = MRun g -> g < length (gors st) /\ g_exit (get_g st g) = false /\ g_blocked (get_g st g) = None.
Proof.
  intros F R g M. destruct (entries_ginv fx prog st F R) as (I & Rn). destruct (Rn g M) as ((_ & L & NS) & A).
  split; auto. split.
  - destruct (g_exit (get_g st g)) eqn:X; auto. apply (i_ex _ I) in X. destruct X; congruence.
  - destruct (g_blocked (get_g st g)) eqn:X; auto. assert (asl st g = true) by (apply I; unfold blk; congruence). congruence.
Qed.
