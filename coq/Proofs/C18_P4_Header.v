(* C18 phase 4 — go/build's shouldBuild on the TEXT of a rendered header equals the
   structured semantics (Model/C18_Build.v should_build).

   The two parser facts proved elsewhere are taken as section hypotheses:
     RT : forall e, nf e = true -> tags_valid e = true -> parse_expr (print e) = Some e
     PE : forall sat text, eval sat (parse_plus_expr text) = pline_ok sat (plus_pline text) *)
From Coq Require Import List String Ascii Bool Arith.
From Verif Require Import Model.C18_Build Model.C18_Constraint Model.C18_ConstraintNF.
Import ListNotations.
Local Open Scope string_scope.

(* ---- strings ------------------------------------------------------------ *)

Lemma app_nil_r_s : forall s, s ++ "" = s.
Proof. induction s; cbn [append]; congruence. Qed.

Lemma app_assoc_s : forall a b c : string, (a ++ b) ++ c = a ++ (b ++ c).
Proof. induction a; intros; cbn [append]; congruence. Qed.

Lemma app_not_nil : forall a b, a <> "" -> a ++ b <> "".
Proof. destruct a; intros; cbn [append]; congruence. Qed.

(* ---- character classes -------------------------------------------------- *)

Fixpoint allc (p : ascii -> bool) (s : string) : bool :=
  match s with EmptyString => true | String c r => p c && allc p r end.

Definition nsp (c : ascii) : bool := negb (is_space c).
Definition nch (x c : ascii) : bool := negb (Ascii.eqb c x).

Lemma allc_app : forall p a b, allc p (a ++ b) = allc p a && allc p b.
Proof. induction a; intros; cbn [append allc]; [reflexivity|]. rewrite IHa. apply andb_assoc. Qed.

Lemma allc_impl : forall p q s, (forall c, p c = true -> q c = true) -> allc p s = true -> allc q s = true.
Proof.
  induction s; intros H; cbn [allc]; [reflexivity|].
  intros H1. apply andb_true_iff in H1. destruct H1 as [H1 H2].
  rewrite (H _ H1), (IHs H H2). reflexivity.
Qed.

Lemma all_tag_allc : forall s, all_tag_chars s = allc is_tag_char s.
Proof. induction s; cbn [all_tag_chars allc]; congruence. Qed.

Lemma tag_nsp : forall c, is_tag_char c = true -> nsp c = true.
Proof. destruct c as [[] [] [] [] [] [] [] []]; (reflexivity || (intro H; discriminate H)). Qed.

Lemma tag_ncomma : forall c, is_tag_char c = true -> nch "," c = true.
Proof. destruct c as [[] [] [] [] [] [] [] []]; (reflexivity || (intro H; discriminate H)). Qed.

Lemma tag_nbang : forall c, is_tag_char c = true -> Ascii.eqb "!" c = false.
Proof. destruct c as [[] [] [] [] [] [] [] []]; (reflexivity || (intro H; discriminate H)). Qed.

Lemma nsp_nnl : forall c, nsp c = true -> nch nl c = true.
Proof. destruct c as [[] [] [] [] [] [] [] []]; (reflexivity || (intro H; discriminate H)). Qed.

Lemma allc_nch_contains : forall x s, allc (nch x) s = true -> contains_char x s = false.
Proof.
  induction s; cbn [allc contains_char]; [reflexivity|].
  intros H. apply andb_true_iff in H. destruct H as [H1 H2].
  rewrite (IHs H2). unfold nch in H1. rewrite Ascii.eqb_sym. destruct (Ascii.eqb a x); [discriminate|reflexivity].
Qed.

(* ---- trimming ----------------------------------------------------------- *)

Definition lt (s : string) : Prop :=
  match s with String c _ => is_space c = false | EmptyString => False end.
Definition rt (s : string) : Prop := trim_right s = s /\ s <> "".

Lemma lt_app : forall a b, lt a -> lt (a ++ b).
Proof. destruct a; cbn [append lt]; tauto. Qed.

Lemma lt_trim : forall s, lt s -> trim_left s = s.
Proof. destruct s; cbn [lt trim_left]; [tauto|]. intros ->. reflexivity. Qed.

Lemma rt_app : forall a b, rt b -> rt (a ++ b).
Proof.
  intros a b [Hb Hn]. induction a; cbn [append]; [split; assumption|].
  destruct IHa as [IH1 IH2]. split; [|discriminate].
  cbn [trim_right]. rewrite IH1. destruct (a0 ++ b); [congruence|reflexivity].
Qed.

Lemma rt_app2 : forall a b, rt a -> (b = "" \/ rt b) -> rt (a ++ b).
Proof. intros a b Ha [->|Hb]; [rewrite app_nil_r_s; assumption | apply rt_app; assumption]. Qed.

Lemma rt_single : forall c, is_space c = false -> rt (String c "").
Proof. intros c H. split; [|discriminate]. cbn [trim_right]. rewrite H. reflexivity. Qed.

Lemma rt_nsp : forall s, allc nsp s = true -> s <> "" -> rt s.
Proof.
  induction s; intros H Hn; [congruence|].
  cbn [allc] in H. apply andb_true_iff in H. destruct H as [H1 H2].
  destruct s.
  - apply rt_single. unfold nsp in H1. destruct (is_space a); [discriminate|reflexivity].
  - change (String a (String a0 s)) with (String a "" ++ String a0 s). apply rt_app. apply IHs; [assumption|discriminate].
Qed.

Lemma lt_nsp : forall s, allc nsp s = true -> s <> "" -> lt s.
Proof.
  destruct s; intros H Hn; [congruence|]. cbn [allc] in H. apply andb_true_iff in H. destruct H as [H1 _].
  cbn [lt]. unfold nsp in H1. destruct (is_space a); [discriminate|reflexivity].
Qed.

Lemma trim_space_id : forall s, lt s -> rt s -> trim_space s = s.
Proof. intros s Hl [Hr _]. unfold trim_space. rewrite (lt_trim _ Hl). exact Hr. Qed.

Lemma trim_space_sp : forall s, trim_space (String " " s) = trim_space s.
Proof. reflexivity. Qed.

(* ---- one_line ----------------------------------------------------------- *)

Lemma has_suffix_nl : forall l, allc (nch nl) l = true -> has_suffix (String nl "") l = false.
Proof.
  induction l; intros H; [reflexivity|].
  cbn [allc] in H. apply andb_true_iff in H. destruct H as [H1 H2].
  cbn [has_suffix String.eqb]. rewrite (IHl H2). unfold nch in H1.
  destruct (Ascii.eqb a nl); [discriminate|reflexivity].
Qed.

Lemma one_line_id : forall l, allc (nch nl) l = true -> one_line l = Some l.
Proof.
  intros l H. unfold one_line. rewrite (has_suffix_nl _ H), (allc_nch_contains _ _ H). reflexivity.
Qed.

(* ---- split_on ----------------------------------------------------------- *)

Lemma split_on_ne : forall sep s, split_on sep s <> [].
Proof.
  induction s; cbn [split_on]; [discriminate|].
  destruct (Ascii.eqb a sep); [discriminate|]. destruct (split_on sep s); discriminate.
Qed.

Lemma split_on_app : forall sep a b, allc (nch sep) a = true ->
  split_on sep (a ++ String sep b) = a :: split_on sep b.
Proof.
  induction a; intros b H; cbn [append split_on].
  - rewrite Ascii.eqb_refl. reflexivity.
  - cbn [allc] in H. apply andb_true_iff in H. destruct H as [H1 H2].
    unfold nch in H1. destruct (Ascii.eqb a sep); [discriminate|]. rewrite (IHa _ H2). reflexivity.
Qed.

Lemma split_on_none : forall sep a, allc (nch sep) a = true -> split_on sep a = [a].
Proof.
  induction a; intros H; cbn [split_on]; [reflexivity|].
  cbn [allc] in H. apply andb_true_iff in H. destruct H as [H1 H2].
  unfold nch in H1. destruct (Ascii.eqb a sep); [discriminate|]. rewrite (IHa H2). reflexivity.
Qed.

(* ---- the printed expression -------------------------------------------- *)

Lemma paren_lt : forall b s, lt s -> lt (paren b s).
Proof. destruct b; intros s H; [reflexivity|exact H]. Qed.

Lemma paren_rt : forall b s, rt s -> rt (paren b s).
Proof.
  destruct b; intros s H; [|exact H]. unfold paren. apply rt_app. apply rt_app. apply rt_single. reflexivity.
Qed.

Lemma paren_nonl : forall b s, allc (nch nl) s = true -> allc (nch nl) (paren b s) = true.
Proof. destruct b; intros s H; [|exact H]. unfold paren. rewrite !allc_app, H. reflexivity. Qed.

Lemma valid_tag_props : forall t, valid_tag t = true -> allc is_tag_char t = true /\ t <> "".
Proof.
  intros t H. unfold valid_tag in H. apply andb_true_iff in H. destruct H as [H1 H2].
  rewrite all_tag_allc in H2. split; [assumption|]. intros ->. discriminate.
Qed.

Lemma valid_tag_word : forall t, valid_tag t = true -> allc nsp t = true /\ t <> "".
Proof.
  intros t H. destruct (valid_tag_props _ H) as [H1 H2]. split; [|assumption].
  exact (allc_impl _ _ _ tag_nsp H1).
Qed.

Lemma print_props : forall e, tags_valid e = true ->
  lt (print e) /\ rt (print e) /\ allc (nch nl) (print e) = true.
Proof.
  induction e; cbn [tags_valid print]; intros H.
  - destruct (valid_tag_word _ H) as [H1 H2]. split; [|split].
    + apply lt_nsp; assumption.
    + apply rt_nsp; assumption.
    + exact (allc_impl _ _ _ nsp_nnl H1).
  - destruct (IHe H) as [A [B C]]. split; [|split].
    + reflexivity.
    + apply rt_app. apply paren_rt. exact B.
    + rewrite allc_app, paren_nonl by exact C. reflexivity.
  - apply andb_true_iff in H. destruct H as [H1 H2].
    destruct (IHe1 H1) as [A1 [B1 C1]]. destruct (IHe2 H2) as [A2 [B2 C2]]. split; [|split].
    + apply lt_app. apply paren_lt. exact A1.
    + apply rt_app. apply rt_app. apply paren_rt. exact B2.
    + rewrite !allc_app, !paren_nonl by assumption. reflexivity.
  - apply andb_true_iff in H. destruct H as [H1 H2].
    destruct (IHe1 H1) as [A1 [B1 C1]]. destruct (IHe2 H2) as [A2 [B2 C2]]. split; [|split].
    + apply lt_app. apply paren_lt. exact A1.
    + apply rt_app. apply rt_app. apply paren_rt. exact B2.
    + rewrite !allc_app, !paren_nonl by assumption. reflexivity.
Qed.

(* ---- the //go:build line ------------------------------------------------- *)

Definition cline (l : string) : Prop := trim_space l = l /\ exists r, l = String "/" (String "/" r).

Definition gbline (p : string) : string := "//go:build " ++ p.

Lemma gb_cline : forall p, rt p -> cline (gbline p).
Proof.
  intros p Hr. split.
  - apply trim_space_id; [reflexivity|]. unfold gbline. apply rt_app. exact Hr.
  - eexists. reflexivity.
Qed.

Lemma gb_nonl : forall p, allc (nch nl) p = true -> allc (nch nl) (gbline p) = true.
Proof. intros p H. unfold gbline. rewrite allc_app, H. reflexivity. Qed.

Lemma gb_isgb : forall p, is_go_build_comment (gbline p) = true.
Proof. reflexivity. Qed.

Lemma gb_strip : forall p, strip_prefix "//go:build" (gbline p) = Some (String " " p).
Proof. reflexivity. Qed.

Lemma after_kw_sp : forall p, after_keyword (String " " p) = Some (trim_space p).
Proof. reflexivity. Qed.

Lemma gb_split : forall p, lt p -> rt p -> allc (nch nl) p = true -> split_go_build (gbline p) = Some p.
Proof.
  intros p Hl Hr Hn. unfold split_go_build.
  rewrite (one_line_id _ (gb_nonl _ Hn)). rewrite gb_strip.
  destruct (gb_cline _ Hr) as [Ht _]. rewrite Ht, gb_strip, after_kw_sp.
  rewrite (trim_space_id _ Hl Hr). reflexivity.
Qed.

(* ---- a // +build line ---------------------------------------------------- *)

Definition word (w : string) : Prop := allc nsp w = true /\ w <> "".

Definition ptext (W : list string) : string := concat_strings (map (fun w => " " ++ w) W).
Definition clause_text (cl : list pterm) : string := join_with "," (map term_text cl).
Definition plusline (X : string) : string := "// +build" ++ X.

Lemma pline_text_eq : forall l, pline_text l = plusline (ptext (map clause_text l)).
Proof. intros l. unfold pline_text, plusline, ptext. rewrite map_map. reflexivity. Qed.

Lemma ptext_cons : forall w W, ptext (w :: W) = String " " (w ++ ptext W).
Proof. reflexivity. Qed.

Lemma allc_ptext : forall p W, p " "%char = true -> Forall (fun w => allc p w = true) W -> allc p (ptext W) = true.
Proof.
  intros p W Hp H. induction H; [reflexivity|].
  rewrite ptext_cons. cbn [allc]. rewrite Hp, allc_app, H, IHForall. reflexivity.
Qed.

Lemma ptext_rt : forall W, Forall word W -> ptext W = "" \/ rt (ptext W).
Proof.
  intros W H. destruct H as [|w W [H1 H2] H]; [left; reflexivity|right].
  rewrite ptext_cons. change (String " " (w ++ ptext W)) with (" " ++ (w ++ ptext W)).
  apply rt_app. apply rt_app2; [apply rt_nsp; assumption|].
  clear H1 H2. induction H as [|w' W' [H1 H2] H IH]; [left; reflexivity|right].
  rewrite ptext_cons. change (String " " (w' ++ ptext W')) with (" " ++ (w' ++ ptext W')).
  apply rt_app. apply rt_app2; [apply rt_nsp; assumption|exact IH].
Qed.

Lemma ptext_nonl : forall W, Forall word W -> allc (nch nl) (ptext W) = true.
Proof.
  intros W H. apply allc_ptext; [reflexivity|].
  eapply Forall_impl; [|exact H]. intros w [H1 _]. exact (allc_impl _ _ _ nsp_nnl H1).
Qed.

Lemma plus_cline : forall X, (X = "" \/ rt X) -> cline (plusline X).
Proof.
  intros X H. split.
  - apply trim_space_id; [reflexivity|]. unfold plusline. apply rt_app2; [|exact H].
    split; [reflexivity|discriminate].
  - eexists. reflexivity.
Qed.

Lemma plus_nonl : forall X, allc (nch nl) X = true -> allc (nch nl) (plusline X) = true.
Proof. intros X H. unfold plusline. rewrite allc_app, H. reflexivity. Qed.

Lemma plus_not_gb : forall X, is_go_build_comment (plusline X) = false.
Proof. reflexivity. Qed.

Lemma plus_split_gb : forall X, allc (nch nl) X = true -> split_go_build (plusline X) = None.
Proof. intros X H. unfold split_go_build. rewrite (one_line_id _ (plus_nonl _ H)). reflexivity. Qed.

Lemma plus_split : forall X, allc (nch nl) X = true -> (X = "" \/ rt X) ->
  split_plus_build (plusline X) = after_keyword X.
Proof.
  intros X Hn Hr. unfold split_plus_build. rewrite (one_line_id _ (plus_nonl _ Hn)).
  change (strip_prefix "//" (plusline X)) with (Some (String " " ("+build" ++ X))).
  cbv beta iota. rewrite trim_space_sp. rewrite trim_space_id.
  - reflexivity.
  - reflexivity.
  - apply rt_app2; [|exact Hr]. split; [reflexivity|discriminate].
Qed.

(* the text go/build hands to parsePlusBuildExpr *)
Definition ptrim (W : list string) : string :=
  match W with [] => "" | w :: W' => w ++ ptext W' end.

Lemma after_kw_ptext : forall W, Forall word W -> after_keyword (ptext W) = Some (ptrim W).
Proof.
  intros W H. destruct H as [|w W [H1 H2] H]; [reflexivity|].
  rewrite ptext_cons, after_kw_sp. cbn [ptrim]. f_equal.
  apply trim_space_id.
  - apply lt_app. apply lt_nsp; assumption.
  - apply rt_app2; [apply rt_nsp; assumption|]. apply ptext_rt. exact H.
Qed.

Lemma plus_split_ptext : forall W, Forall word W -> split_plus_build (plusline (ptext W)) = Some (ptrim W).
Proof.
  intros W H. rewrite plus_split; [apply after_kw_ptext; exact H|apply ptext_nonl; exact H|apply ptext_rt; exact H].
Qed.

(* ---- fields --------------------------------------------------------------- *)

Lemma fields_aux_word : forall w cur s, allc nsp w = true -> fields_aux cur (w ++ s) = fields_aux (cur ++ w) s.
Proof.
  induction w; intros cur s H; cbn [append].
  - rewrite app_nil_r_s. reflexivity.
  - cbn [allc] in H. apply andb_true_iff in H. destruct H as [H1 H2].
    cbn [fields_aux]. unfold nsp in H1. destruct (is_space a); [discriminate|].
    rewrite (IHw _ _ H2). rewrite app_assoc_s. reflexivity.
Qed.

Lemma fields_aux_ptext : forall W cur, Forall word W -> cur <> "" -> fields_aux cur (ptext W) = cur :: W.
Proof.
  induction W; intros cur H Hc.
  - cbn. destruct cur; [congruence|reflexivity].
  - inversion H as [|? ? [H1 H2] H3]; subst. rewrite ptext_cons.
    change (fields_aux cur (String " " (a ++ ptext W)))
      with (match cur with "" => fields_aux "" (a ++ ptext W) | _ => cur :: fields_aux "" (a ++ ptext W) end).
    rewrite (fields_aux_word _ _ _ H1). cbn [append]. rewrite (IHW _ H3 H2).
    destruct cur; [congruence|reflexivity].
Qed.

Lemma fields_ptrim : forall W, Forall word W -> fields (ptrim W) = W.
Proof.
  intros W H. destruct H as [|w W [H1 H2] H]; [reflexivity|].
  unfold fields. cbn [ptrim]. rewrite (fields_aux_word _ _ _ H1). cbn [append].
  apply fields_aux_ptext; assumption.
Qed.

(* ---- terms and clauses ----------------------------------------------------- *)

Lemma term_text_props : forall t : pterm, valid_tag (snd t) = true ->
  allc nsp (term_text t) = true /\ allc (nch ",") (term_text t) = true /\ term_text t <> "".
Proof.
  intros [b w] H. cbn [snd] in H. destruct (valid_tag_props _ H) as [H1 H2].
  unfold term_text. cbn [fst snd]. rewrite !allc_app.
  rewrite (allc_impl _ _ _ tag_nsp H1), (allc_impl _ _ _ tag_ncomma H1).
  destruct b; (split; [reflexivity|split; [reflexivity|]]); [discriminate|exact H2].
Qed.

Lemma plus_term_text : forall t : pterm, valid_tag (snd t) = true -> plus_term (term_text t) = t.
Proof.
  intros [b w] H. cbn [snd] in H. destruct (valid_tag_props _ H) as [H1 H2].
  destruct w as [|c r]; [congruence|]. cbn [allc] in H1. apply andb_true_iff in H1. destruct H1 as [Hc _].
  pose proof (tag_nbang _ Hc) as Hb.
  unfold term_text. cbn [fst snd]. destruct b; cbn [append]; unfold plus_term, has_prefix.
  - cbn [prefix strip_prefix String.eqb]. 
    destruct (ascii_dec "!" c) as [E|E]; [subst c; discriminate Hb|].
    destruct (ascii_dec "!" "!") as [_|E']; [|congruence].
    cbn [orb]. rewrite Ascii.eqb_refl. rewrite H. reflexivity.
  - cbn [prefix strip_prefix String.eqb].
    destruct (ascii_dec "!" c) as [E|E]; [subst c; discriminate Hb|].
    rewrite Ascii.eqb_sym, Hb. cbn [orb]. rewrite H. reflexivity.
Qed.

Lemma join_allc : forall p ws, p ","%char = true -> Forall (fun w => allc p w = true) ws ->
  allc p (join_with "," ws) = true.
Proof.
  intros p ws Hp H. induction H as [|w ws Hw H IH]; [reflexivity|].
  cbn [join_with]. destruct ws; [exact Hw|].
  rewrite !allc_app, Hw, IH. cbn [allc]. rewrite Hp. reflexivity.
Qed.

Lemma split_join : forall ws, ws <> [] -> Forall (fun w => allc (nch ",") w = true) ws ->
  split_on "," (join_with "," ws) = ws.
Proof.
  intros ws Hn H. induction H as [|w ws Hw H IH]; [congruence|].
  cbn [join_with]. destruct ws as [|w' ws']; [apply split_on_none; exact Hw|].
  change ("," ++ join_with "," (w' :: ws')) with (String "," (join_with "," (w' :: ws'))).
  rewrite (split_on_app _ _ _ Hw). rewrite IH by discriminate. reflexivity.
Qed.

Definition clause_valid (cl : list pterm) : Prop :=
  cl <> [] /\ Forall (fun t : pterm => valid_tag (snd t) = true) cl.

Lemma clause_word : forall cl, clause_valid cl -> word (clause_text cl).
Proof.
  intros cl [Hn H]. unfold clause_text. split.
  - apply join_allc; [reflexivity|]. apply Forall_forall. intros w Hw.
    apply in_map_iff in Hw. destruct Hw as [t [<- Ht]].
    rewrite Forall_forall in H. apply (term_text_props t (H _ Ht)).
  - destruct cl as [|t cl]; [congruence|]. inversion H; subst.
    cbn [map join_with]. destruct (map term_text cl).
    + apply (term_text_props t); assumption.
    + apply app_not_nil. apply (term_text_props t); assumption.
Qed.

Lemma clause_roundtrip : forall cl, clause_valid cl ->
  map plus_term (split_on "," (clause_text cl)) = cl.
Proof.
  intros cl [Hn H]. unfold clause_text. rewrite split_join.
  - rewrite map_map. rewrite <- (map_id cl) at 2. apply map_ext_in.
    intros t Ht. rewrite Forall_forall in H. apply plus_term_text. apply H. exact Ht.
  - destruct cl; [congruence|discriminate].
  - apply Forall_forall. intros w Hw. apply in_map_iff in Hw. destruct Hw as [t [<- Ht]].
    rewrite Forall_forall in H. apply (term_text_props t (H _ Ht)).
Qed.

Lemma pline_valid_clauses : forall l, pline_valid l = true -> Forall clause_valid l.
Proof.
  intros l H. unfold pline_valid in H. rewrite forallb_forall in H. apply Forall_forall.
  intros cl Hc. specialize (H _ Hc). apply andb_true_iff in H. destruct H as [H1 H2]. split.
  - intros ->. discriminate.
  - apply Forall_forall. rewrite forallb_forall in H2. exact H2.
Qed.

Lemma pline_words : forall l, pline_valid l = true -> Forall word (map clause_text l).
Proof.
  intros l H. apply pline_valid_clauses in H. apply Forall_forall. intros w Hw.
  apply in_map_iff in Hw. destruct Hw as [cl [<- Hc]]. rewrite Forall_forall in H.
  apply clause_word. apply H. exact Hc.
Qed.

Lemma plus_pline_roundtrip : forall l, pline_valid l = true ->
  plus_pline (ptrim (map clause_text l)) = l.
Proof.
  intros l H. unfold plus_pline. rewrite (fields_ptrim _ (pline_words _ H)).
  rewrite map_map. rewrite <- (map_id l) at 2. apply map_ext_in.
  intros cl Hc. apply clause_roundtrip. apply pline_valid_clauses in H.
  rewrite Forall_forall in H. apply H. exact Hc.
Qed.

(* everything the header scan and shouldBuild need to know about a rendered +build line *)
Lemma pline_text_props : forall l, pline_valid l = true ->
  cline (pline_text l) /\ allc (nch nl) (pline_text l) = true /\
  is_go_build_comment (pline_text l) = false /\
  split_go_build (pline_text l) = None /\
  exists text, split_plus_build (pline_text l) = Some text /\ plus_pline text = l.
Proof.
  intros l H. pose proof (pline_words _ H) as HW. rewrite pline_text_eq.
  split; [apply plus_cline; apply ptext_rt; exact HW|].
  split; [apply plus_nonl; apply ptext_nonl; exact HW|].
  split; [apply plus_not_gb|].
  split; [apply plus_split_gb; apply ptext_nonl; exact HW|].
  exists (ptrim (map clause_text l)). split; [apply plus_split_ptext; exact HW|].
  apply plus_pline_roundtrip; exact H.
Qed.

(* ---- the lines of a rendered file ------------------------------------------- *)

Definition render (ls : list string) : string :=
  fold_right (fun l acc => l ++ String nl acc) EmptyString ls.

Lemma split_render : forall ls, Forall (fun l => allc (nch nl) l = true) ls ->
  split_on nl (render ls) = (ls ++ [""])%list.
Proof.
  intros ls H. induction H as [|l ls Hl H IH]; [reflexivity|].
  cbn [render fold_right]. fold (render ls). rewrite (split_on_app _ _ _ Hl), IH. reflexivity.
Qed.

Lemma go_lines_render : forall ls, Forall (fun l => allc (nch nl) l = true) ls ->
  go_lines (render ls) = ls.
Proof.
  intros ls H. unfold go_lines. rewrite (split_render _ H). rewrite rev_app_distr.
  cbn [rev app]. apply rev_involutive.
Qed.

(* ---- the header scan ---------------------------------------------------------- *)

Definition st (seen allowed : list string) (gb : option string) : hstate :=
  {| h_seen := seen; h_allowed := allowed; h_ended := false; h_star := false; h_gobuild := gb |}.

Lemma has_prefix_ss : forall r, has_prefix "//" (String "/" (String "/" r)) = true.
Proof.
  intros r. unfold has_prefix. cbn [prefix].
  destruct (ascii_dec "/" "/") as [_|E]; [destruct r; reflexivity|congruence].
Qed.

Lemma comment_scan_ss : forall n r, comment_scan (S n) false (String "/" (String "/" r)) = Some false.
Proof.
  intros n r. cbn [comment_scan]. rewrite has_prefix_ss. reflexivity.
Qed.

Lemma step_comment : forall seen allowed gb l, cline l -> is_go_build_comment l = false ->
  header_step (st seen allowed gb) l = HGo (st (l :: seen) allowed gb).
Proof.
  intros seen allowed gb l [Ht [r ->]] Hg. unfold header_step, st.
  cbv zeta. cbn [h_seen h_allowed h_ended h_star h_gobuild].
  rewrite Ht, Hg, has_prefix_ss, comment_scan_ss. reflexivity.
Qed.

Lemma step_gb : forall seen allowed l, cline l -> is_go_build_comment l = true ->
  header_step (st seen allowed None) l = HGo (st (l :: seen) allowed (Some l)).
Proof.
  intros seen allowed l [Ht [r ->]] Hg. unfold header_step, st.
  cbv zeta. cbn [h_seen h_allowed h_ended h_star h_gobuild].
  rewrite Ht, Hg, has_prefix_ss, comment_scan_ss. reflexivity.
Qed.

Lemma step_blank : forall seen allowed gb,
  header_step (st seen allowed gb) "" = HGo (st ("" :: seen) ("" :: seen) gb).
Proof. reflexivity. Qed.

Lemma step_pkg : forall seen allowed gb,
  header_step (st seen allowed gb) "package p" =
  HStop {| h_seen := seen; h_allowed := allowed; h_ended := true; h_star := false; h_gobuild := gb |}.
Proof. intros. vm_compute. destruct gb; reflexivity. Qed.

Definition cmt (l : string) : Prop := cline l /\ is_go_build_comment l = false.

Lemma loop_comments : forall cs seen allowed gb rest, Forall cmt cs ->
  header_loop (st seen allowed gb) (cs ++ rest) = header_loop (st (rev cs ++ seen) allowed gb) rest.
Proof.
  induction cs; intros seen allowed gb rest H; [reflexivity|].
  inversion H as [|? ? [H1 H2] H3]; subst.
  cbn [app header_loop]. rewrite (step_comment _ _ _ _ H1 H2). rewrite (IHcs _ _ _ _ H3).
  cbn [rev]. rewrite <- app_assoc. reflexivity.
Qed.

Definition optl (g : option string) : list string := match g with Some x => [x] | None => [] end.

Definition gb_ok (g : option string) : Prop :=
  match g with Some gl => cline gl /\ is_go_build_comment gl = true | None => True end.

Lemma loop_head : forall g ps tail, gb_ok g -> Forall cmt ps ->
  header_loop (st [] [] None) (optl g ++ ps ++ tail) = header_loop (st (rev (optl g ++ ps)) [] g) tail.
Proof.
  intros g ps tail Hg Hp. destruct g as [gl|]; cbn [optl app].
  - destruct Hg as [H1 H2]. cbn [header_loop]. rewrite (step_gb _ _ _ H1 H2).
    rewrite (loop_comments _ _ _ _ _ Hp). cbn [rev]. reflexivity.
  - rewrite (loop_comments _ _ _ _ _ Hp). rewrite app_nil_r. reflexivity.
Qed.

Definition wrap (ls : list string) (detached : bool) : list string :=
  match ls with [] => [] | _ => if detached then (ls ++ [""])%list else ls end.

Definition nonl (l : string) : Prop := allc (nch nl) l = true.

Lemma parse_header_render : forall g ps detached,
  gb_ok g -> Forall cmt ps -> Forall nonl (optl g ++ ps) ->
  parse_file_header (render (wrap (optl g ++ ps) detached ++ ["package p"])) =
  Some (if detached then wrap (optl g ++ ps) true else [], g).
Proof.
  intros g ps detached Hg Hp Hn. unfold parse_file_header.
  assert (Hpk : nonl "package p") by reflexivity.
  assert (Hbl : nonl "") by reflexivity.
  fold (st [] [] None).
  destruct detached.
  - remember (optl g ++ ps)%list as hs eqn:E. destruct hs as [|h hs'].
    + cbn [wrap app]. rewrite go_lines_render by (repeat constructor).
      destruct g; [discriminate|]. reflexivity.
    + unfold wrap. rewrite E. rewrite E in Hn. rewrite go_lines_render.
      2:{ apply Forall_app. split; [apply Forall_app; split; [exact Hn|repeat constructor]|repeat constructor]. }
      rewrite <- !app_assoc. rewrite (loop_head _ _ _ Hg Hp).
      cbn [app header_loop]. rewrite step_blank, step_pkg. cbn [h_allowed h_gobuild].
      cbn [rev]. rewrite rev_involutive. rewrite <- app_assoc. reflexivity.
  -     assert (Hw : wrap (optl g ++ ps) false = (optl g ++ ps)%list) by (unfold wrap; destruct (optl g ++ ps)%list; reflexivity).
    rewrite Hw. rewrite go_lines_render.
    2:{ apply Forall_app. split; [exact Hn|repeat constructor]. }
    rewrite <- app_assoc. rewrite (loop_head _ _ _ Hg Hp).
    cbn [header_loop]. rewrite step_pkg. reflexivity.
Qed.

(* ---- shouldBuild on the rendered text ------------------------------------------ *)

Lemma render_header_eq : forall gb plus detached,
  render_header gb plus detached =
  render (wrap (optl (option_map (fun x => gbline (print x)) gb) ++ map pline_text plus) detached ++ ["package p"]).
Proof. intros [x|] plus detached; reflexivity. Qed.

Lemma plus_lines_props : forall plus, forallb pline_valid plus = true ->
  Forall cmt (map pline_text plus) /\ Forall nonl (map pline_text plus).
Proof.
  induction plus as [|l plus IH]; cbn [forallb map]; intros H; [split; constructor|].
  apply andb_true_iff in H. destruct H as [H1 H2]. destruct (IH H2) as [A B].
  destruct (pline_text_props _ H1) as [P1 [P2 [P3 _]]].
  split; constructor; try assumption. split; assumption.
Qed.

Lemma is_plus_build_nil : is_plus_build "" = false.
Proof. reflexivity. Qed.

Section Header.

Hypothesis RT : forall e, nf e = true -> tags_valid e = true -> parse_expr (print e) = Some e.
Hypothesis PE : forall sat text, eval sat (parse_plus_expr text) = pline_ok sat (plus_pline text).

Lemma parse_line_gb : forall x, nf x = true -> tags_valid x = true ->
  parse_line (gbline (print x)) = Some x.
Proof.
  intros x Hn Ht. destruct (print_props _ Ht) as [A [B C]].
  unfold parse_line. rewrite (gb_split _ A B C). apply RT; assumption.
Qed.

Lemma plus_line_eval : forall sat l, pline_valid l = true ->
  (if is_plus_build (pline_text l)
   then match parse_line (pline_text l) with Some x => eval sat x | None => true end
   else true) = pline_ok sat l.
Proof.
  intros sat l H. destruct (pline_text_props _ H) as [_ [_ [_ [P4 [text [P5 P6]]]]]].
  unfold is_plus_build, parse_line. rewrite P4, P5. rewrite PE, P6. reflexivity.
Qed.

Lemma plus_lines_eval : forall sat plus, forallb pline_valid plus = true ->
  forallb (fun line => if is_plus_build line
                       then match parse_line line with Some x => eval sat x | None => true end
                       else true) (map pline_text plus) = forallb (pline_ok sat) plus.
Proof.
  induction plus as [|l plus IH]; cbn [forallb map]; intros H; [reflexivity|].
  apply andb_true_iff in H. destruct H as [H1 H2].
  rewrite (plus_line_eval _ _ H1), (IH H2). reflexivity.
Qed.

Theorem should_build_text_render_gobuild : forall sat x plus detached,
  nf x = true -> tags_valid x = true ->
  forallb pline_valid plus = true ->
  should_build_text sat (render_header (Some x) plus detached) = Some (eval sat x).
Proof.
  intros sat x plus detached Hn Ht Hp. rewrite render_header_eq. cbn [option_map].
  destruct (plus_lines_props _ Hp) as [A B]. destruct (print_props _ Ht) as [P1 [P2 P3]].
  unfold should_build_text. rewrite parse_header_render.
  - rewrite (parse_line_gb _ Hn Ht). reflexivity.
  - split; [apply gb_cline; exact P2|apply gb_isgb].
  - exact A.
  - cbn [optl app]. constructor; [apply gb_nonl; exact P3|exact B].
Qed.

Theorem should_build_text_render_plus : forall sat plus detached,
  forallb pline_valid plus = true ->
  should_build_text sat (render_header None plus detached) =
  Some (if detached then forallb (pline_ok sat) plus else true).
Proof.
  intros sat plus detached Hp. rewrite render_header_eq. cbn [option_map].
  destruct (plus_lines_props _ Hp) as [A B].
  unfold should_build_text. rewrite parse_header_render; [|exact I|exact A|exact B].
  cbn [optl app]. destruct detached; [|reflexivity].
  f_equal. destruct plus as [|l plus]; [reflexivity|].
  unfold wrap. cbn [map]. rewrite <- (plus_lines_eval sat (l :: plus) Hp).
  cbn [map]. rewrite forallb_app. cbn [forallb]. rewrite is_plus_build_nil.
  rewrite !andb_true_r. reflexivity.
Qed.

Theorem should_build_text_render : forall sat gb plus detached,
  (match gb with Some x => nf x = true /\ tags_valid x = true | None => True end) ->
  forallb pline_valid plus = true ->
  should_build_text sat (render_header gb plus detached) =
  Some (match gb with
        | Some x => eval sat x
        | None => if detached then forallb (pline_ok sat) plus else true
        end).
Proof.
  intros sat [x|] plus detached Hg Hp.
  - destruct Hg as [Hn Ht]. apply should_build_text_render_gobuild; assumption.
  - apply should_build_text_render_plus; assumption.
Qed.

End Header.
