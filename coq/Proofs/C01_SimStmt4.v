(* C01 — simulation proof, part 9: all statements; the program-level theorem *)
From Coq Require Import ZArith List String Bool Lia.
From Verif Require Import Model.C01_GoSem Model.C01_JsSem Model.C01_Compile Model.C01_Wf
  Proofs.C01_Arith Proofs.C01_SimBase Proofs.C01_SimExpr Proofs.C01_SimExpr2 Proofs.C01_SimBin Proofs.C01_SimStatic
  Proofs.C01_SimStmt1 Proofs.C01_SimStmt2 Proofs.C01_SimStmt3.
Import ListNotations.
Local Open Scope Z_scope.

Definition Dyn (fuel : nat) (s : stmt) : Prop := forall pcx st js st' g g' sg sj,
  cstmt (cx_of pcx) st s = (js, st') -> wf_stmt (loops_of pcx) g s = Some g' -> ctx_ok g pcx ->
  fresh st (defs s) -> NoDup (defs s) -> rho_ok st -> Inv g (rho st) sg sj ->
  Res pcx g g' (rho st') (exec fuel s sg) (jexec_list fuel js sj).

Definition DynElse (fuel : nat) (e : stmt) : Prop := forall pcx st cs je st' g g2 r0 sg sj,
  else_part (cx_of pcx) st e cs = (je, st') -> wf_stmt (loops_of pcx) g e = Some g2 -> ctx_ok g pcx ->
  CondsOK g r0 e cs -> rho_ext r0 (rho st) ->
  fresh st (defs e) -> NoDup (defs e) -> rho_ok st -> Inv g r0 sg sj ->
  Res pcx g g (rho st') (exec fuel e sg) (exec_else fuel je sj).

Lemma fresh_app : forall st a b, fresh st (a ++ b) -> fresh st a /\ fresh st b.
Proof. unfold fresh. intros. split; intros; apply H; apply in_or_app; auto. Qed.

(* freshness of the second part after compiling the first *)
Lemma fresh_next : forall st d1 st1 d2, Static st d1 st1 -> fresh st (d1 ++ d2) -> NoDup (d1 ++ d2) -> fresh st1 d2.
Proof.
  intros st d1 st1 d2 [_ [S2 _]] F N v Hv. destruct (NoDup_app_inv _ _ N) as [_ [_ D]].
  destruct (lookup (rho st1) v) as [n|] eqn:L; auto.
  destruct (S2 _ _ L) as [H|H].
  - rewrite F in H by (apply in_or_app; auto). discriminate.
  - exfalso. eapply D; eauto.
Qed.

Lemma Static_ext : forall st d st', Static st d st' -> fresh st d -> NoDup d -> rho_ok st ->
  rho_ext (rho st) (rho st') /\ rho_ok st'.
Proof. intros st d st' [_ [_ S3]] F N R. auto. Qed.

Lemma is_normal_prepend : forall S o (r : sres S), is_normal (prepend o r) = is_normal r.
Proof. intros S o [[| |] ? ?|?| |]; reflexivity. Qed.

Section Step.
  Variable fuel : nat.
  Hypothesis IHfuel : forall f', (f' < fuel)%nat -> forall s, Dyn f' s.

  Lemma dyn_skip : Dyn fuel SSkip.
  Proof.
    intros pcx st js st' g g' sg sj Hc Hwf Hctx Hfr Hnd Hr HI. cbn [cstmt wf_stmt] in *.
    inversion Hc; inversion Hwf; subst. rewrite exec_skip, jexec_list_nil. cbn [Res]. eauto.
  Qed.

  Lemma dyn_noelse : Dyn fuel SNoElse.
  Proof.
    intros pcx st js st' g g' sg sj Hc Hwf Hctx Hfr Hnd Hr HI. cbn [cstmt wf_stmt] in *.
    inversion Hc; inversion Hwf; subst. rewrite exec_noelse, jexec_list_nil. cbn [Res]. eauto.
  Qed.

  Lemma dyn_simple : forall s, is_simple s = true -> s <> SSkip -> Dyn fuel s.
  Proof.
    intros s Hs Hn pcx st js st' g g' sg sj Hc Hwf Hctx Hfr Hnd Hr HI.
    assert (Hc' : csimple st s = (js, st')) by (destruct s; try discriminate; try exact Hc; congruence).
    assert (Hwf' : wf_simple g s true = Some g') by (destruct s; try discriminate; try exact Hwf; congruence).
    rewrite (exec_simple_eq fuel s sg Hs).
    pose proof (csimple_sim g g' true sg sj st s js st' fuel Hwf' Hc' Hr Hfr HI) as S.
    destruct (exec_simple s sg) as [[| |] sg' o|o| |]; try contradiction; cbn [Res].
    - destruct S as [-> [sj' [J HI']]]. eauto.
    - destruct S as [-> J]. exact J.
  Qed.

  Lemma dyn_break : forall l, Dyn fuel (SBreak l).
  Proof.
    intros l pcx st js st' g g' sg sj Hc Hwf Hctx Hfr Hnd Hr HI. cbn [cstmt] in Hc. inversion Hc; subst.
    rewrite exec_break, jexec_list_single, jexec_break. cbn [Res]. eauto.
  Qed.

  Lemma dyn_continue : forall l, Dyn fuel (SContinue l).
  Proof.
    intros l pcx st js st' g g' sg sj Hc Hwf Hctx Hfr Hnd Hr HI. cbn [cstmt] in Hc.
    destruct (cpost st (find_post (cx_of pcx) l)) as [jp st1] eqn:Cp. inversion Hc; subst; clear Hc.
    rewrite exec_continue. cbn [Res].
    destruct (ctx_find g pcx l Hctx) as [Wp Ip].
    assert (HIl : Inv (find_env pcx l) (rho st) sg sj) by (eapply Inv_incl; eauto).
    pose proof (cpost_sim _ sg sj st _ jp st' fuel Wp Cp Hr HIl) as S.
    rewrite jexec_list_app.
    destruct (exec_simple (find_post (cx_of pcx) l) sg) as [[| |] sg' o|o| |]; try contradiction.
    - destruct S as [-> [sj' [J HI']]]. rewrite J. rewrite jexec_list_single, jexec_continue. cbn [prepend]. eauto.
    - destruct S as [-> J]. rewrite J. reflexivity.
  Qed.

  Lemma dyn_print : forall es, Dyn fuel (SPrint es).
  Proof.
    intros es pcx st js st' g g' sg sj Hc Hwf Hctx Hfr Hnd Hr HI. cbn [cstmt wf_stmt] in *.
    destruct (cexprs st es) as [jl st1] eqn:Ce. inversion Hc; subst; clear Hc.
    destruct (forallb _ es) eqn:W; [|discriminate]. inversion Hwf; subst; clear Hwf.
    destruct (cexprs_mono _ _ _ _ Ce) as [L1 R1].
    pose proof (cexprs_sim g' sg es st jl st' sj W Ce Hr HI) as S.
    rewrite exec_print, jexec_list_single, jexec_log.
    destruct (eval_list sg es) as [[vs|]|[?| |]]; try contradiction; cbn [Res].
    - destruct S as [sj' [J F]]. rewrite J. exists sj'. split. reflexivity.
      rewrite R1. eapply Inv_frame; eauto. apply Hr.
    - rewrite S. reflexivity.
  Qed.

  Lemma dyn_seq : forall a b, Dyn fuel a -> Dyn fuel b -> Dyn fuel (SSeq a b).
  Proof.
    intros a b Da Db pcx st js st' g g' sg sj Hc Hwf Hctx Hfr Hnd Hr HI. cbn [cstmt wf_stmt defs] in *.
    destruct (cstmt (cx_of pcx) st a) as [ja st1] eqn:Ca. destruct (cstmt (cx_of pcx) st1 b) as [jb st2] eqn:Cb.
    inversion Hc; subst; clear Hc.
    destruct (wf_stmt (loops_of pcx) g a) as [g1|] eqn:Wa; [|discriminate].
    destruct (fresh_app _ _ _ Hfr) as [Fa Fb]. destruct (NoDup_app_inv _ _ Hnd) as [Na [Nb _]].
    pose proof (proj1 (cstmt_static a) _ _ _ _ Ca) as Sa. pose proof (proj1 (cstmt_static b) _ _ _ _ Cb) as Sb.
    destruct (Static_ext _ _ _ Sa Fa Na Hr) as [Ea Ra].
    assert (Fb1 : fresh st1 (defs b)) by (eapply fresh_next; eauto).
    destruct (Static_ext _ _ _ Sb Fb1 Nb Ra) as [Eb Rb].
    pose proof (wf_stmt_incl _ _ _ _ Wa) as Ia. pose proof (wf_stmt_incl _ _ _ _ Hwf) as Ib.
    specialize (Da pcx st ja st1 g g1 sg sj Ca Wa Hctx Fa Na Hr HI).
    rewrite exec_seq, jexec_list_app.
    destruct (exec fuel a sg) as [[|t|t] sg1 o1|o1| |] eqn:Ea1.
    - cbn [Res] in Da. destruct Da as [sj1 [-> HI1]].
      assert (Hctx1 : ctx_ok g1 pcx) by (eapply ctx_ok_incl; eauto).
      specialize (Db pcx st1 jb st' g1 g' sg1 sj1 Cb Hwf Hctx1 Fb1 Nb Ra HI1).
      apply Res_prepend. eapply Res_mono; [exact Ia | apply incl_refl | apply rho_ext_refl | exact Db].
    - eapply Res_mono; [apply incl_refl | apply incl_refl | exact Eb |].
      apply (Res_abrupt pcx g g1 g'); [reflexivity|]. cbn [Res] in *. destruct Da as [sj1 [-> HI1]]. eauto.
    - eapply Res_mono; [apply incl_refl | apply incl_refl | exact Eb |].
      apply (Res_abrupt pcx g g1 g'); [reflexivity|]. cbn [Res] in *.
      destruct (exec_simple (find_post (cx_of pcx) t) sg1) as [[| |] ? ?|?| |]; try contradiction.
      + destruct Da as [sj1 [-> HI1]]. eauto.
      + rewrite Da. reflexivity.
    - cbn [Res] in *. rewrite Da. reflexivity.
    - exact Logic.I.
    - exact Da.
  Qed.

  Lemma dyn_if : forall c t e, Dyn fuel t -> DynElse fuel e -> Dyn fuel (SIf c t e).
  Proof.
    intros c t e Dt De pcx st js st' g g' sg sj Hc Hwf Hctx Hfr Hnd Hr HI.
    cbn [cstmt] in Hc.
    destruct (cexpr st c) as [jc st0] eqn:C0. destruct (chain_conds st0 e) as [cs st1] eqn:C1.
    destruct (cstmt (cx_of pcx) st1 t) as [jt st2] eqn:C2.
    change (match e with | SNoElse => (JNoElse, st2) | SIf _ _ _ => celif (cx_of pcx) st2 e cs
                      | _ => let '(jb, st'0) := cstmt (cx_of pcx) st2 e in (JElse jb, st'0) end)
      with (else_part (cx_of pcx) st2 e cs) in Hc.
    destruct (else_part (cx_of pcx) st2 e cs) as [je st3] eqn:C3. inversion Hc; subst; clear Hc.
    cbn [wf_stmt defs] in *.
    destruct (opt_ty_is (wf_expr g c) TB) eqn:Wc; [|discriminate]. apply opt_ty_is_spec in Wc.
    destruct (wf_stmt (loops_of pcx) g t) as [gt|] eqn:Wt; [|discriminate].
    destruct (wf_stmt (loops_of pcx) g e) as [ge|] eqn:We; [|discriminate]. inversion Hwf; subst; clear Hwf.
    destruct (fresh_app _ _ _ Hfr) as [Ft Fe]. destruct (NoDup_app_inv _ _ Hnd) as [Nt [Ne _]].
    destruct (cexpr_mono _ _ _ _ C0) as [L0 R0]. destruct (chain_conds_mono _ _ _ _ C1) as [L1 R1].
    assert (R01 : rho st1 = rho st) by congruence.
    assert (Hr0 : rho_ok st0) by (apply (rho_ok_mono st); auto).
    assert (Hr1 : rho_ok st1) by (apply (rho_ok_mono st0); auto).
    assert (Ft1 : fresh st1 (defs t)) by (unfold fresh; rewrite R01; exact Ft).
    pose proof (proj1 (cstmt_static t) _ _ _ _ C2) as St. pose proof (proj2 (cstmt_static e) _ _ _ _ _ C3) as Se.
    destruct (Static_ext _ _ _ St Ft1 Nt Hr1) as [Et Rt].
    assert (Fe2 : fresh st2 (defs e)).
    { eapply fresh_next; [exact St | | exact Hnd]. unfold fresh. rewrite R01. exact Hfr. }
    destruct (Static_ext _ _ _ Se Fe2 Ne Rt) as [Ee Re].
    assert (CS : CondSim g' (rho st) c jc) by (eapply cond_sim; eauto).
    assert (CO : CondsOK g' (rho st) e cs) by (rewrite <- R0; eapply chain_conds_ok; eauto).
    rewrite jexec_list_single.
    apply (if_sim fuel pcx g' (rho st) (rho st') c jc t jt e je sg sj CS HI).
    - intros sj1 HI1. rewrite <- R01 in HI1.
      specialize (Dt pcx st1 jt st2 g' gt sg sj1 C2 Wt Hctx Ft1 Nt Hr1 HI1).
      eapply Res_mono; [apply incl_refl | exact (wf_stmt_incl _ _ _ _ Wt) | exact Ee | exact Dt].
    - intros sj1 HI1.
      apply (De pcx st2 cs je st' g' ge (rho st) sg sj1 C3 We Hctx CO); auto.
      rewrite <- R01. exact Et.
  Qed.

  Lemma dynelse_if : forall c t e, Dyn fuel t -> DynElse fuel e -> DynElse fuel (SIf c t e).
  Proof.
    intros c t e Dt De pcx st cs je st' g g2 r0 sg sj Hc Hwf Hctx CO E0 Hfr Hnd Hr HI.
    cbn [else_part celif] in Hc. cbn [CondsOK] in CO.
    destruct cs as [|jc cs']; [contradiction|]. destruct CO as [CS CO'].
    destruct (cstmt (cx_of pcx) st t) as [jt st2] eqn:C2.
    change (match e with | SNoElse => (JNoElse, st2) | SIf _ _ _ => celif (cx_of pcx) st2 e cs'
                      | _ => let '(jb, st'0) := cstmt (cx_of pcx) st2 e in (JElse jb, st'0) end)
      with (else_part (cx_of pcx) st2 e cs') in Hc.
    destruct (else_part (cx_of pcx) st2 e cs') as [je' st3] eqn:C3. inversion Hc; subst; clear Hc.
    cbn [wf_stmt defs] in *.
    destruct (opt_ty_is (wf_expr g c) TB) eqn:Wc; [|discriminate].
    destruct (wf_stmt (loops_of pcx) g t) as [gt|] eqn:Wt; [|discriminate].
    destruct (wf_stmt (loops_of pcx) g e) as [ge|] eqn:We; [|discriminate]. inversion Hwf; subst; clear Hwf.
    destruct (fresh_app _ _ _ Hfr) as [Ft Fe]. destruct (NoDup_app_inv _ _ Hnd) as [Nt [Ne _]].
    pose proof (proj1 (cstmt_static t) _ _ _ _ C2) as St. pose proof (proj2 (cstmt_static e) _ _ _ _ _ C3) as Se.
    destruct (Static_ext _ _ _ St Ft Nt Hr) as [Et Rt].
    assert (Fe2 : fresh st2 (defs e)) by (eapply fresh_next; eauto).
    destruct (Static_ext _ _ _ Se Fe2 Ne Rt) as [Ee Re].
    cbn [exec_else].
    apply (if_sim fuel pcx g2 r0 (rho st') c jc t jt e je' sg sj CS HI).
    - intros sj1 HI1. assert (HI1' : Inv g2 (rho st) sg sj1) by (eapply Inv_ext; eauto).
      specialize (Dt pcx st jt st2 g2 gt sg sj1 C2 Wt Hctx Ft Nt Hr HI1').
      eapply Res_mono; [apply incl_refl | exact (wf_stmt_incl _ _ _ _ Wt) | exact Ee | exact Dt].
    - intros sj1 HI1.
      apply (De pcx st2 cs' je' st' g2 ge r0 sg sj1 C3 We Hctx CO'); auto.
      eapply rho_ext_trans; eauto.
  Qed.

  Lemma dynelse_noelse : DynElse fuel SNoElse.
  Proof.
    intros pcx st cs je st' g g2 r0 sg sj Hc Hwf Hctx CO E0 Hfr Hnd Hr HI.
    cbn [else_part] in Hc. inversion Hc; subst. rewrite exec_noelse. cbn [exec_else Res].
    exists sj. split. reflexivity. eapply Inv_ext; eauto.
  Qed.

  Definition block_like (e : stmt) : Prop := match e with SIf _ _ _ | SNoElse => False | _ => True end.

  Lemma dynelse_block : forall e, block_like e -> Dyn fuel e -> DynElse fuel e.
  Proof.
    intros e Hb D pcx st cs je st' g g2 r0 sg sj Hc Hwf Hctx CO E0 Hfr Hnd Hr HI.
    assert (Hc' : (let '(jb, st'0) := cstmt (cx_of pcx) st e in (JElse jb, st'0)) = (je, st'))
      by (destruct e; try contradiction; exact Hc).
    destruct (cstmt (cx_of pcx) st e) as [jb st1] eqn:C. inversion Hc'; subst; clear Hc'.
    assert (HI' : Inv g (rho st) sg sj) by (eapply Inv_ext; eauto).
    specialize (D pcx st jb st' g g2 sg sj C Hwf Hctx Hfr Hnd Hr HI'). cbn [exec_else].
    eapply Res_mono; [apply incl_refl | eapply wf_stmt_incl; eauto | apply rho_ext_refl | exact D].
  Qed.

  Lemma wf_simple_nodefine : forall g p g', wf_simple g p false = Some g' -> g' = g.
  Proof.
    intros g p g' H. destruct p; try discriminate; cbn [wf_simple andb] in H; try discriminate.
    - inversion H; auto.
    - destruct (env_get g v); [|discriminate]. destruct (opt_ty_is _ _); [|discriminate]. inversion H; auto.
    - destruct (_ && _); [|discriminate]. inversion H; auto.
    - destruct (opt_ty_is _ _); [|discriminate]. inversion H; auto.
  Qed.

  Lemma dyn_for : forall l init oc post body, (forall f', (f' <= fuel)%nat -> Dyn f' body) ->
    Dyn fuel (SFor l init oc post body).
  Proof.
    intros l init oc post body Db pcx st js st' g g' sg sj Hc Hwf Hctx Hfr Hnd Hr HI.
    cbn [cstmt] in Hc.
    destruct (csimple st init) as [ji st0] eqn:C0.
    destruct (match oc with None => ([], st0) | Some ce => let '(je, st'0) := cexpr st0 ce in
                ([JSIf (JUn JNot je) [JSBreak None] JNoElse], st'0) end) as [jc st1] eqn:C1.
    destruct (cstmt ((l, post) :: cx_of pcx) st1 body) as [jb st2] eqn:C2.
    destruct (if is_branch (last_stmt body) then ([], st2) else cpost st2 post) as [jp st3] eqn:C3.
    inversion Hc; subst; clear Hc.
    cbn [wf_stmt defs] in *.
    destruct (wf_simple g init true) as [g1|] eqn:Wi; [|discriminate].
    destruct (wf_simple g1 post false) as [gp|] eqn:Wp; [|discriminate].
    destruct (wf_stmt (l :: loops_of pcx) g1 body) as [gb|] eqn:Wb; [|discriminate].
    destruct (match oc with None => true | Some ce => opt_ty_is (wf_expr g1 ce) TB && negb (is_boollit ce) end &&
              match l with Some _ => negb (existsb (opt_label_eqb l) (loops_of pcx)) | None => true end) eqn:Wc; [|discriminate].
    inversion Hwf; subst; clear Hwf. apply andb_true_iff in Wc as [Wc _].
    pose proof (wf_simple_nodefine _ _ _ Wp) as ->.
    destruct (fresh_app _ _ _ Hfr) as [Fi Fb]. destruct (NoDup_app_inv _ _ Hnd) as [Ni [Nb _]].
    pose proof (Static_csimple _ _ _ _ C0) as Si.
    destruct (Static_ext _ _ _ Si Fi Ni Hr) as [Ei Ri].
    assert (S01 : st_le st0 st1 /\ rho st1 = rho st0).
    { destruct oc as [ce|]. destruct (cexpr st0 ce) as [je st1'] eqn:Ce. inversion C1; subst. eapply cexpr_mono; eauto.
      inversion C1; subst. split; auto using st_le_refl. }
    destruct S01 as [L01 R01].
    assert (Hr1 : rho_ok st1) by (apply (rho_ok_mono st0); auto).
    assert (Fb1 : fresh st1 (defs body)).
    { unfold fresh. rewrite R01. eapply fresh_next; eauto. }
    pose proof (proj1 (cstmt_static body) _ _ _ _ C2) as Sb.
    destruct (Static_ext _ _ _ Sb Fb1 Nb Hr1) as [Eb Rb].
    assert (S23 : rho_ext (rho st2) (rho st') /\ rho_ok st').
    { destruct (is_branch (last_stmt body)). inversion C3; subst. split; auto using rho_ext_refl.
      pose proof (Static_cpost _ _ _ _ C3) as Sp. apply (Static_ext _ _ _ Sp); auto. intros v []. constructor. }
    destruct S23 as [E23 R3].
    pose proof (wf_simple_incl _ _ _ _ Wi) as Ig. pose proof (wf_stmt_incl _ _ _ _ Wb) as Igb.
    assert (Sinit : is_simple init = true) by (eapply wf_simple_simple; eauto).
    assert (Spost : is_simple post = true) by (eapply wf_simple_simple; eauto).
    rewrite exec_for, (exec_simple_eq fuel init sg Sinit), jexec_list_app.
    pose proof (csimple_sim g' g1 true sg sj st init ji st0 fuel Wi C0 Hr Fi HI) as SI.
    destruct (exec_simple init sg) as [[| |] sg1 o1|o1| |]; try contradiction; cbn [Res].
    2: { destruct SI as [-> J]. rewrite J. reflexivity. }
    destruct SI as [-> [sj1 [J HI1]]]. rewrite J. rewrite !prepend_nil, jexec_list_single.
    eapply Res_mono; [exact Ig | exact Ig | apply rho_ext_refl |].
    apply (loop_sim l oc post body pcx g1 gb (rho st0) (rho st2) (rho st') jc jb jp fuel); auto.
    - (* condition *)
      destruct oc as [ce|].
      + destruct (cexpr st0 ce) as [je st1'] eqn:Ce. inversion C1; subst. exists je. split. reflexivity.
        apply andb_true_iff in Wc as [Wc _]. apply opt_ty_is_spec in Wc. eapply cond_sim; eauto.
      + inversion C1; subst. reflexivity.
    - (* body *)
      intros f' Hf' sg0 sj0 HI0.
      apply (Db f' Hf' ((l, post, g1) :: pcx) st1 jb st2 g1 gb sg0 sj0); auto.
      + constructor. split; auto using incl_refl. eapply ctx_ok_incl; eauto.
      + rewrite R01. exact HI0.
    - (* post *)
      destruct (is_branch (last_stmt body)). inversion C3; reflexivity.
      intros f' sg0 sj0 HI0. apply (cpost_sim g1 sg0 sj0 st2 post jp st' f'); auto.
    - rewrite <- R01. exact Eb.
    - intros sg0 sj0 H0. eapply Inv_back; [| exact HI1 | exact H0]. rewrite <- R01. exact Eb.
    - intros sg0 sj0 H0. eapply Inv_back; [| exact HI1 | exact H0]. rewrite <- R01. eapply rho_ext_trans; eauto.
  Qed.
End Step.

(* ---------------------------------------------------------------- all statements, all fuels *)
Theorem dyn_all : forall fuel s, Dyn fuel s /\ DynElse fuel s.
Proof.
  induction fuel as [fuel IHfuel] using lt_wf_ind.
  assert (IHf : forall f', (f' < fuel)%nat -> forall s, Dyn f' s) by (intros f' H s; apply (IHfuel f' H s)).
  induction s as [ | a IHa b IHb | v t e | v e | v k op e | v k inc | c t IHt e IHe | | l init IHinit oc post IHpost body IHbody | l | l | es ].
  all: match goal with |- ?P /\ ?Q => assert (HP : P); [| split; [exact HP|]] end.
  all: try (apply dynelse_block; [exact Logic.I | exact HP]).
  - apply dyn_skip.
  - apply dyn_seq; [apply IHa | apply IHb].
  - apply dyn_simple; [reflexivity | discriminate].
  - apply dyn_simple; [reflexivity | discriminate].
  - apply dyn_simple; [reflexivity | discriminate].
  - apply dyn_simple; [reflexivity | discriminate].
  - apply dyn_if; [apply IHt | apply IHe].
  - apply dynelse_if; [apply IHt | apply IHe].
  - apply dyn_noelse.
  - apply dynelse_noelse.
  - apply dyn_for. intros f' Hf'. destruct (Nat.eq_dec f' fuel) as [->|Hne]. apply IHbody. apply IHf. lia.
  - apply dyn_break.
  - apply dyn_continue.
  - apply dyn_print.
Qed.

Lemma nodupb_NoDup : forall l, nodupb l = true -> NoDup l.
Proof.
  induction l as [|a l IH]; cbn [nodupb]; intros H. constructor.
  apply andb_true_iff in H as [H1 H2]. constructor; auto.
  intro Hin. apply negb_true_iff in H1. assert (existsb (name_eqb a) l = true).
  { apply existsb_exists. exists a. split; auto. apply name_eqb_refl. }
  congruence.
Qed.

Theorem compile_correct_all : forall p, wf_prog p = true ->
  forall fuel out e, run_go fuel p = Done out e -> run_js fuel (compile p) = Done out e.
Proof.
  intros p Hwf fuel out e Hgo. unfold wf_prog in Hwf.
  destruct (wf_stmt [] [] p) as [g'|] eqn:W; [|discriminate]. apply nodupb_NoDup in Hwf.
  unfold compile, run_js. destruct (cstmt [] cstate0 p) as [body st] eqn:C. cbn [jp_body].
  assert (Hr : rho_ok cstate0) by (split; cbn; intros; discriminate).
  pose proof (proj1 (dyn_all fuel p) [] cstate0 body st [] g' [] [] C W (Forall_nil _)
                (fun v _ => eq_refl) Hwf Hr (Inv_nil _ _ _)) as R.
  unfold run_go in Hgo. fold (jexec_list fuel body []).
  destruct (exec fuel p []) as [[|t|t] sg' o|o| |]; cbn [outcome_of] in Hgo; try discriminate; cbn [Res] in R.
  - destruct R as [sj' [-> _]]. exact Hgo.
  - rewrite R. exact Hgo.
Qed.
