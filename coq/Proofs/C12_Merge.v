(* C12 — lemmas about the overlay-merge model (Model/C12_Merge.v) against the law
   (Model/C12_Law.v).  All statements are for arbitrary files / overrides (induction over
   declaration and spec lists); nothing is bounded. *)
From Coq Require Import List String Ascii Bool NArith ZArith Arith Lia.
From Verif Require Import Gen.C12_Tables Model.C12_Merge Model.C12_Law.
Import ListNotations.
Local Open Scope string_scope.

(* ------------------------------------------------------------------ small facts *)

Lemma flat_map_nil_fun {A B} (l : list A) : flat_map (fun _ : A => @nil B) l = [].
Proof. induction l; simpl; auto. Qed.

Lemma flat_map_single {A} (f : A -> list A) (l : list A) :
  (forall x, In x l -> f x = [x]) -> flat_map f l = l.
Proof.
  induction l; simpl; intros H; auto.
  rewrite H by auto. simpl. f_equal. apply IHl. auto.
Qed.

Lemma lookup_set {A} k k' (v : A) m :
  lookup k (set k' v m) = if String.eqb k k' then Some v else lookup k m.
Proof.
  induction m as [|[k0 v0] m IH]; simpl.
  - destruct (String.eqb k k'); reflexivity.
  - destruct (String.eqb k' k0) eqn:E0; simpl.
    + apply String.eqb_eq in E0. subst k0.
      destruct (String.eqb k k'); reflexivity.
    + destruct (String.eqb k k0) eqn:E1.
      * apply String.eqb_eq in E1. subst k0.
        destruct (String.eqb k k') eqn:E2; auto.
        apply String.eqb_eq in E2. subst k'. rewrite String.eqb_refl in E0. discriminate.
      * exact IH.
Qed.

Lemma lookup_remove {A} k k' (m : list (string * A)) :
  lookup k (remove_key k' m) = if String.eqb k k' then None else lookup k m.
Proof.
  induction m as [|[k0 v0] m IH]; simpl.
  - destruct (String.eqb k k'); reflexivity.
  - destruct (String.eqb k' k0) eqn:E0.
    + apply String.eqb_eq in E0. subst k0. rewrite IH.
      destruct (String.eqb k k'); reflexivity.
    + simpl. destruct (String.eqb k k0) eqn:E1; auto.
      apply String.eqb_eq in E1. subst k0.
      destruct (String.eqb k k') eqn:E2; auto.
      apply String.eqb_eq in E2. subst k'. rewrite String.eqb_refl in E0. discriminate.
Qed.

Definition set_all {A} (es : list (string * A)) (m : list (string * A)) : list (string * A) :=
  fold_left (fun m e => set (fst e) (snd e) m) es m.

Lemma set_all_app {A} (a b : list (string * A)) m : set_all (a ++ b) m = set_all b (set_all a m).
Proof. unfold set_all. apply fold_left_app. Qed.

Lemma lookup_set_all {A} k (es : list (string * A)) m :
  lookup k (set_all es m) = lookup_after k es (lookup k m).
Proof.
  revert m. induction es as [|[k' v] es IH]; intros m; simpl; auto.
  unfold set_all in *. simpl. rewrite IH. unfold lookup_after. simpl. rewrite lookup_set. reflexivity.
Qed.

Arguments is_blank_name : simpl never.
Arguments String.eqb : simpl never.
Arguments has_key : simpl never.
Arguments has_directive : simpl never.

(* ------------------------------------------------------------------ overlay scan *)

Definition spec_purged (pd : bool) (s : spec) : bool := pd || has_directive (spec_comments s) action_purge.

Lemma scan_spec_spec pd s ov :
  scan_spec pd s ov = (set_all (spec_entries pd s) ov, spec_purged pd s).
Proof.
  unfold scan_spec, spec_purged. f_equal.
  destruct s as [i|t|v]; simpl; auto.
  unfold set_all. generalize ov. induction (v_names v) as [|n ns IH]; simpl; auto.
Qed.

Lemma scan_specs_spec pd ss : forall ov,
  scan_specs pd ss ov =
  (filter (fun s => negb (spec_purged pd s)) ss,
   set_all (flat_map (spec_entries pd) ss) ov,
   existsb (spec_purged pd) ss).
Proof.
  induction ss as [|s r IH]; intros ov; [reflexivity|].
  cbn [scan_specs]. rewrite scan_spec_spec. rewrite IH.
  cbn [flat_map filter existsb]. rewrite set_all_app.
  destruct (spec_purged pd s); reflexivity.
Qed.

Lemma declared_filter_purged tk ss :
  flat_map (declared_spec tk) (filter (fun s => negb (spec_purged false s)) ss) =
  flat_map (overlay_law_spec tk) ss.
Proof.
  induction ss as [|s r IH]; [reflexivity|].
  cbn [filter flat_map]. rewrite <- IH.
  unfold overlay_law_spec, spec_purged. cbn [orb].
  destruct (has_directive (spec_comments s) action_purge); reflexivity.
Qed.

Lemma filter_all_purged (ss : list spec) : filter (fun s => negb (spec_purged true s)) ss = [].
Proof. induction ss; simpl; auto. Qed.

Definition odecl_declared (o : option decl) : list ditem :=
  match o with Some d => declared_decl d | None => [] end.

Lemma scan_decl_spec d ov :
  let '(od, ov', _) := scan_decl d ov in
  odecl_declared od = overlay_law_decl d /\ ov' = set_all (decl_entries d) ov.
Proof.
  destruct d as [f|g].
  - simpl. split; [|reflexivity].
    destruct (has_directive (f_doc f) action_purge || has_directive (f_doc f) action_sig); reflexivity.
  - unfold overlay_law_decl, decl_entries. cbn [scan_decl].
    destruct (has_directive (g_doc g) action_purge) eqn:P; rewrite scan_specs_spec.
    + rewrite filter_all_purged. cbv beta iota. cbn [orb]. split; reflexivity.
    + rewrite <- declared_filter_purged.
      generalize (filter (fun s => negb (spec_purged false s)) (g_specs g)) as ss'. intros ss'.
      cbv beta iota. cbn [orb].
      destruct (existsb (spec_purged false) (g_specs g)); destruct ss'; cbn; split; reflexivity.
Qed.

Lemma scan_decls_spec ds : forall ov,
  let '(ds', ov', _) := scan_decls ds ov in
  declared ds' = overlay_law ds /\ ov' = set_all (file_entries ds) ov.
Proof.
  induction ds as [|d r IH]; intros ov; simpl; auto.
  pose proof (scan_decl_spec d ov) as H.
  destruct (scan_decl d ov) as [[od ov1] ch1]. destruct H as [H1 H2].
  specialize (IH ov1). destruct (scan_decls r ov1) as [[r' ov2] ch2]. destruct IH as [I1 I2].
  split.
  - unfold declared, overlay_law in *. simpl. rewrite <- H1, <- I1.
    destruct od; simpl; reflexivity.
  - unfold file_entries. simpl. rewrite set_all_app. subst. reflexivity.
Qed.

(* ------------------------------------------------------------------ pruneImports keeps what a file declares *)

Lemma apply_specs_declared act tk ss : forall idx,
  flat_map (declared_spec tk) (fst (fst (apply_specs act idx ss))) = flat_map (declared_spec tk) ss.
Proof.
  induction ss as [|s r IH]; intros idx; simpl; auto.
  destruct s as [i|t|v].
  - specialize (IH (S idx)). destruct (apply_specs act (S idx) r) as [[r' ch] n]. simpl in *.
    destruct (act idx); simpl; auto.
  - specialize (IH idx). destruct (apply_specs act idx r) as [[r' ch] n]. simpl in *. rewrite IH. reflexivity.
  - specialize (IH idx). destruct (apply_specs act idx r) as [[r' ch] n]. simpl in *. rewrite IH. reflexivity.
Qed.

Lemma apply_imports_declared act f : forall idx,
  declared (apply_imports act idx f) = declared f.
Proof.
  induction f as [|d r IH]; intros idx; simpl; auto.
  destruct d as [fd|g].
  - unfold declared in *. simpl. rewrite IH. reflexivity.
  - pose proof (apply_specs_declared act (g_tok g) (g_specs g) idx) as H.
    destruct (apply_specs act idx (g_specs g)) as [[ss ch] n]. simpl in H.
    unfold declared in *. simpl.
    destruct (ch && match ss with [] => true | _ :: _ => false end) eqn:E.
    + rewrite IH. rewrite <- H.
      destruct ss; [reflexivity|]. rewrite andb_false_r in E. discriminate.
    + simpl. rewrite IH, H. reflexivity.
Qed.

Lemma only_imports_declared f :
  wf_file f = true -> is_only_imports f = true -> declared f = [].
Proof.
  unfold wf_file, is_only_imports, declared.
  induction f as [|d r IH]; simpl; intros W O; auto.
  apply andb_prop in W. destruct W as [W1 W2]. apply andb_prop in O. destruct O as [O1 O2].
  rewrite (IH W2 O2). rewrite app_nil_r.
  destruct d as [fd|g]; simpl in *; [discriminate|].
  destruct (g_tok g); try discriminate.
  induction (g_specs g) as [|s ss IHs]; simpl in *; auto.
  apply andb_prop in W1. destruct W1 as [Ws Wss].
  destruct s; try discriminate. simpl. auto.
Qed.

Lemma prune_imports_declared f :
  wf_file f = true -> declared (prune_imports f) = declared f.
Proof.
  intros W. unfold prune_imports.
  destruct (is_only_imports f && negb (has_directive_prefix f linkname_prefix)) eqn:E.
  - apply andb_prop in E. destruct E as [E _]. symmetry. apply only_imports_declared; auto.
  - match goal with |- context [match ?u with [] => _ | _ => _ end] => destruct u end; auto.
    apply apply_imports_declared.
Qed.

(* ------------------------------------------------------------------ rewrite of the originals *)

Lemma rewrite_func_law ov f :
  match fst (rewrite_func ov f) with Some f' => [DIFunc f'] | None => [] end = law_func ov f.
Proof.
  unfold rewrite_func, law_func, receiver_purged.
  destruct (lookup (func_key f) ov) as [info|]; simpl.
  - destruct (o_keep info); destruct (o_sig info); simpl; reflexivity.
  - match goal with |- context [if ?c then _ else _] => destruct c end; reflexivity.
Qed.

Lemma blank_item ov n (mk : string -> ditem) :
  (forall m, law_item ov (mk m) = if has_key m ov then [] else [mk m]) ->
  (if is_blank_name (if has_key n ov then "_" else n) then [] else [mk (if has_key n ov then "_" else n)]) =
  flat_map (law_item ov) (if is_blank_name n then [] else [mk n]).
Proof.
  intros H. destruct (has_key n ov) eqn:K.
  - replace (is_blank_name "_") with true by reflexivity.
    destruct (is_blank_name n); simpl; rewrite ?H, ?K; reflexivity.
  - destruct (is_blank_name n); simpl; rewrite ?H, ?K; reflexivity.
Qed.

Lemma declared_pairs_blank tk typ ov ns : forall vs,
  declared_pairs tk typ (blank_names ov ns) vs = flat_map (law_item ov) (declared_pairs tk typ ns vs).
Proof.
  induction ns as [|n r IH]; intros vs; [reflexivity|].
  destruct vs as [|v vs']; [reflexivity|].
  simpl. rewrite flat_map_app. rewrite <- IH. f_equal.
  apply (blank_item ov n (fun m => DIValue tk m typ (Some v))). reflexivity.
Qed.

Lemma declared_shared_blank tk typ ov ns :
  declared_shared tk typ (blank_names ov ns) = flat_map (law_item ov) (declared_shared tk typ ns).
Proof.
  unfold declared_shared. induction ns as [|n r IH]; [reflexivity|].
  simpl. rewrite flat_map_app. rewrite <- IH. f_equal.
  apply (blank_item ov n (fun m => DIValue tk m typ None)). reflexivity.
Qed.

Lemma declared_shared_all_blank tk typ ns :
  forallb (String.eqb "_") ns = true -> declared_shared tk typ ns = [].
Proof.
  unfold declared_shared. induction ns as [|n r IH]; simpl; auto.
  intros H. apply andb_prop in H. destruct H as [H1 H2].
  unfold is_blank_name. rewrite H1. simpl. auto.
Qed.

Lemma blank_names_length ov ns : List.length (blank_names ov ns) = List.length ns.
Proof. unfold blank_names. apply map_length. Qed.

Lemma filter_pairs_law tk typ ov ns : forall vs,
  List.length ns = List.length vs ->
  declared_pairs tk typ (fst (filter_pairs ov ns vs)) (snd (filter_pairs ov ns vs)) =
    flat_map (law_item ov) (declared_pairs tk typ ns vs) /\
  List.length (fst (filter_pairs ov ns vs)) = List.length (snd (filter_pairs ov ns vs)).
Proof.
  induction ns as [|n r IH]; intros vs L; simpl.
  - split; reflexivity.
  - destruct vs as [|v vs']; simpl in L; [discriminate|].
    injection L as L. specialize (IH vs' L). destruct IH as [I1 I2].
    destruct (filter_pairs ov r vs') as [a b] eqn:E. simpl in *.
    rewrite flat_map_app. rewrite <- I1.
    destruct (has_key n ov) eqn:K; simpl.
    + split; auto. destruct (is_blank_name n); simpl; [reflexivity|]. rewrite K. reflexivity.
    + split; [|lia]. destruct (is_blank_name n); simpl; [reflexivity|]. rewrite K. reflexivity.
Qed.

Lemma filter_pairs_id ov ns : forall vs,
  List.length ns = List.length vs ->
  existsb (fun n => has_key n ov) ns = false -> filter_pairs ov ns vs = (ns, vs).
Proof.
  induction ns as [|n r IH]; intros vs L E; simpl.
  - destruct vs; [reflexivity|discriminate].
  - destruct vs as [|v vs']; simpl in L; [discriminate|]. injection L as L.
    simpl in E. apply orb_false_elim in E. destruct E as [E1 E2].
    rewrite (IH vs' L E2). rewrite E1. reflexivity.
Qed.

Definition ovspec_declared (tk : tok) (o : option vspec) : list ditem :=
  match o with Some v => declared_vspec tk v | None => [] end.

Lemma rewrite_vspec_law cb grp tk ov v :
  ovspec_declared tk (fst (rewrite_vspec cb grp ov v)) = flat_map (law_item ov) (declared_vspec tk v).
Proof.
  unfold rewrite_vspec. destruct (cb && grp); simpl.
  - unfold declared_vspec. simpl. rewrite blank_names_length.
    destruct (Nat.eqb (List.length (v_names v)) (List.length (v_values v))).
    + apply declared_pairs_blank.
    + apply declared_shared_blank.
  - unfold declared_vspec at 1.
    destruct (Nat.eqb (List.length (v_names v)) (List.length (v_values v))) eqn:L.
    + apply Nat.eqb_eq in L.
      pose proof (filter_pairs_law tk (v_typ v) ov (v_names v) (v_values v) L) as [H1 H2].
      destruct (filter_pairs ov (v_names v) (v_values v)) as [a b] eqn:E. simpl in *.
      destruct a as [|n0 a'].
      * destruct (existsb (fun n => has_key n ov) (v_names v)) eqn:X; simpl.
        -- rewrite <- H1. destruct b; reflexivity.
        -- rewrite <- H1. rewrite (filter_pairs_id ov _ _ L X) in E. injection E as E1 E2.
           unfold declared_vspec. rewrite E1. destruct (v_values v); reflexivity.
      * cbn [fst ovspec_declared]. unfold declared_vspec at 1. cbn [v_names v_values v_typ].
        rewrite H2. rewrite Nat.eqb_refl. rewrite <- H1. reflexivity.
    + destruct (existsb (fun n => has_key n ov) (v_names v) && forallb (String.eqb "_") (blank_names ov (v_names v))) eqn:X; simpl.
      * apply andb_prop in X. destruct X as [_ X].
        rewrite <- declared_shared_blank. rewrite (declared_shared_all_blank _ _ _ X). reflexivity.
      * unfold declared_vspec. simpl. rewrite blank_names_length. rewrite L.
        apply declared_shared_blank.
Qed.

Lemma rewrite_specs_law cb grp tk ov ss :
  flat_map (declared_spec tk) (fst (fst (rewrite_specs cb grp ov ss))) =
  flat_map (law_item ov) (flat_map (declared_spec tk) ss).
Proof.
  induction ss as [|s r IH]; simpl; auto.
  destruct (rewrite_specs cb grp ov r) as [[r' ch] dch] eqn:E. simpl in IH.
  rewrite flat_map_app. rewrite <- IH.
  destruct s as [i|t|v]; simpl.
  - reflexivity.
  - destruct (has_key (t_name t) ov); simpl; reflexivity.
  - pose proof (rewrite_vspec_law cb grp tk ov v) as H.
    destruct (rewrite_vspec cb grp ov v) as [[v'|] c]; simpl in *; rewrite <- H; reflexivity.
Qed.

Lemma rewrite_decl_law cb ov d :
  odecl_declared (fst (rewrite_decl cb ov d)) = flat_map (law_item ov) (declared_decl d).
Proof.
  destruct d as [f|g]; simpl.
  - rewrite app_nil_r. rewrite <- rewrite_func_law.
    destruct (rewrite_func ov f) as [[f'|] c]; reflexivity.
  - pose proof (rewrite_specs_law cb (is_const_group g) (g_tok g) ov (g_specs g)) as H.
    destruct (rewrite_specs cb (is_const_group g) ov (g_specs g)) as [[ss ch] dch]. simpl in H.
    destruct (dch && match ss with [] => true | _ :: _ => false end) eqn:E; simpl.
    + rewrite <- H. destruct ss; [reflexivity|]. rewrite andb_false_r in E. discriminate.
    + exact H.
Qed.

Lemma rewrite_decls_law cb ov ds :
  declared (fst (rewrite_decls cb ov ds)) = flat_map (law_item ov) (declared ds).
Proof.
  unfold declared. induction ds as [|d r IH]; simpl; auto.
  pose proof (rewrite_decl_law cb ov d) as H.
  destruct (rewrite_decl cb ov d) as [od c1]. destruct (rewrite_decls cb ov r) as [r' c2].
  simpl in *. rewrite flat_map_app. rewrite <- H, <- IH.
  destruct od; reflexivity.
Qed.

(* well-formedness survives the rewriting (needed to know what an import-only file declares) *)
Lemma rewrite_specs_imports cb grp ov ss :
  forallb is_import_spec ss = true -> rewrite_specs cb grp ov ss = (ss, false, false).
Proof.
  induction ss as [|s r IH]; simpl; intros H; auto.
  apply andb_prop in H. destruct H as [H1 H2]. rewrite (IH H2).
  destruct s; try discriminate. reflexivity.
Qed.

Lemma rewrite_decls_wf cb ov ds :
  wf_file ds = true -> wf_file (fst (rewrite_decls cb ov ds)) = true.
Proof.
  unfold wf_file. induction ds as [|d r IH]; simpl; intros W; auto.
  apply andb_prop in W. destruct W as [W1 W2]. specialize (IH W2).
  destruct (rewrite_decls cb ov r) as [r' c2]. simpl in IH.
  destruct d as [f|g]; simpl.
  - destruct (rewrite_func ov f) as [[f'|] c]; simpl; auto.
  - simpl in W1. destruct (g_tok g) eqn:T.
    + rewrite (rewrite_specs_imports cb (is_const_group g) ov _ W1). simpl. rewrite ?T. rewrite ?W1. exact IH.
    + destruct (rewrite_specs cb (is_const_group g) ov (g_specs g)) as [[ss ch] dch].
      destruct (dch && match ss with [] => true | _ :: _ => false end); simpl; auto; rewrite ?T; auto.
    + destruct (rewrite_specs cb (is_const_group g) ov (g_specs g)) as [[ss ch] dch].
      destruct (dch && match ss with [] => true | _ :: _ => false end); simpl; auto; rewrite ?T; auto.
    + destruct (rewrite_specs cb (is_const_group g) ov (g_specs g)) as [[ss ch] dch].
      destruct (dch && match ss with [] => true | _ :: _ => false end); simpl; auto; rewrite ?T; auto.
Qed.

Lemma rewrite_original_file_law cb ov f :
  wf_file f = true ->
  declared (rewrite_original_file cb ov f) = flat_map (law_item ov) (declared f).
Proof.
  intros W. unfold rewrite_original_file.
  pose proof (rewrite_decls_law cb ov f) as H. pose proof (rewrite_decls_wf cb ov f W) as W'.
  destruct (rewrite_decls cb ov f) as [ds ch]. simpl in *.
  destruct ch; auto. rewrite prune_imports_declared; auto.
Qed.

(* scanning keeps well-formedness *)
Lemma filter_import_specs (p : spec -> bool) ss :
  forallb is_import_spec ss = true -> forallb is_import_spec (filter p ss) = true.
Proof.
  induction ss as [|s r IH]; simpl; intros H; auto.
  apply andb_prop in H. destruct H as [H1 H2].
  destruct (p s); simpl; auto. rewrite H1. auto.
Qed.

Lemma scan_decls_wf ds : forall ov,
  wf_file ds = true -> wf_file (fst (fst (scan_decls ds ov))) = true.
Proof.
  unfold wf_file. induction ds as [|d r IH]; intros ov W; simpl; auto.
  simpl in W. apply andb_prop in W. destruct W as [W1 W2].
  destruct (scan_decl d ov) as [[od ov1] ch1] eqn:E.
  specialize (IH ov1 W2). destruct (scan_decls r ov1) as [[r' ov2] ch2]. simpl in *.
  destruct od as [d'|]; simpl; auto. rewrite IH. rewrite andb_true_r.
  destruct d as [f|g]; simpl in E.
  - destruct (has_directive (f_doc f) action_purge || has_directive (f_doc f) action_sig); inversion E; subst; reflexivity.
  - rewrite scan_specs_spec in E.
    match type of E with (if ?c then _ else _, _, _) = _ => destruct c end; inversion E; subst. simpl.
    simpl in W1. destruct (g_tok g); auto. apply filter_import_specs. exact W1.
Qed.

Lemma scan_overlay_file_law f ov :
  wf_file f = true ->
  declared (fst (scan_overlay_file f ov)) = overlay_law f /\
  snd (scan_overlay_file f ov) = set_all (file_entries f) ov.
Proof.
  intros W. unfold scan_overlay_file.
  pose proof (scan_decls_spec f ov) as H. pose proof (scan_decls_wf f ov W) as W'.
  destruct (scan_decls f ov) as [[ds ov'] ch]. simpl in *. destruct H as [H1 H2].
  split; auto. destruct ch; auto. rewrite prune_imports_declared; auto.
Qed.

Lemma scan_overlay_law fs : forall ov,
  forallb wf_file fs = true ->
  map declared (fst (scan_overlay fs ov)) = map overlay_law fs /\
  snd (scan_overlay fs ov) = set_all (flat_map file_entries fs) ov.
Proof.
  induction fs as [|f r IH]; intros ov W; simpl; auto.
  simpl in W. apply andb_prop in W. destruct W as [W1 W2].
  pose proof (scan_overlay_file_law f ov W1) as [H1 H2].
  destruct (scan_overlay_file f ov) as [f' ov1]. simpl in *.
  specialize (IH ov1 W2). destruct (scan_overlay r ov1) as [r' ov2]. simpl in *.
  destruct IH as [I1 I2]. split.
  - rewrite H1, I1. reflexivity.
  - rewrite set_all_app. subst. reflexivity.
Qed.

(* nosync substitution only touches import specs *)
Lemma nosync_declared p f : declared (augment_original_imports p f) = declared f.
Proof.
  unfold augment_original_imports. destruct (mem p nosync_pkgs); auto.
  unfold declared. induction f as [|d r IH]; simpl; auto.
  rewrite IH. f_equal. destruct d as [fd|g]; simpl; auto.
  induction (g_specs g) as [|s ss IHs]; simpl; auto.
  rewrite IHs. f_equal. destruct s as [i|t|v]; simpl; auto.
  destruct (String.eqb (i_path i) "sync"); reflexivity.
Qed.

Lemma nosync_wf p f : wf_file f = true -> wf_file (augment_original_imports p f) = true.
Proof.
  unfold augment_original_imports. destruct (mem p nosync_pkgs); auto.
  unfold wf_file. induction f as [|d r IH]; simpl; auto.
  intros W. apply andb_prop in W. destruct W as [W1 W2]. rewrite (IH W2). rewrite andb_true_r.
  destruct d as [fd|g]; simpl in *; auto.
  destruct (g_tok g); auto.
  induction (g_specs g) as [|s ss IHs]; simpl in *; auto.
  apply andb_prop in W1. destruct W1 as [Ws Wss]. rewrite (IHs Wss). rewrite andb_true_r.
  destruct s; try discriminate. simpl. destruct (String.eqb (i_path i) "sync"); reflexivity.
Qed.

Lemma law_item_empty it : law_item [] it = [it].
Proof. destruct it; simpl; auto. unfold law_func, receiver_purged. simpl. rewrite andb_false_r. reflexivity. Qed.

(* ------------------------------------------------------------------ the merge theorem *)

Theorem merge_declares : forall cb path ovs origs,
  forallb wf_file ovs = true -> forallb wf_file origs = true ->
  let '(ov, ovs', origs') := merge cb path ovs origs in
  (forall k, lookup k ov =
             if String.eqb k "init" then None else lookup_after k (flat_map file_entries ovs) None) /\
  map declared ovs' = map overlay_law ovs /\
  map declared origs' = map (fun f => flat_map (law_item ov) (declared f)) origs.
Proof.
  intros cb path ovs origs Wo Wr. unfold merge.
  pose proof (scan_overlay_law ovs [] Wo) as [H1 H2].
  destruct (scan_overlay ovs []) as [ovs' ov0]. simpl in *.
  split; [|split]; auto.
  - intros k. rewrite lookup_remove. rewrite H2. rewrite lookup_set_all. reflexivity.
  - destruct (remove_key "init" ov0) as [|e ov] eqn:E.
    + rewrite map_map. apply map_ext_in. intros f _.
      rewrite nosync_declared. symmetry. apply flat_map_single. intros; apply law_item_empty.
    + rewrite !map_map. apply map_ext_in. intros f Hin.
      rewrite rewrite_original_file_law.
      * rewrite nosync_declared. reflexivity.
      * apply nosync_wf. rewrite forallb_forall in Wr. auto.
Qed.

(* ------------------------------------------------------------------ order *)

Lemma law_item_cases ov it :
  law_item ov it = [] \/ exists it', law_item ov it = [it'] /\ same_origin it it'.
Proof.
  destruct it as [f|t|tk n ty v]; simpl.
  - unfold law_func. destruct (lookup (func_key f) ov) as [info|].
    + destruct (o_keep info || is_some (o_sig info)); [right|left; reflexivity].
      eexists; split; [reflexivity|]. simpl.
      destruct (o_sig info); destruct (o_keep info); simpl; auto.
    + destruct (receiver_purged ov f); [left; reflexivity|right].
      eexists; split; [reflexivity|]. simpl. auto.
  - destruct (has_key (t_name t) ov); [left; reflexivity|right]. eexists; split; [reflexivity|reflexivity].
  - destruct (has_key n ov); [left; reflexivity|right]. eexists; split; [reflexivity|reflexivity].
Qed.

Lemma law_preserves_order ov items :
  exists l, sublist l items /\ Forall2 same_origin l (flat_map (law_item ov) items).
Proof.
  induction items as [|it r [l [S F]]]; simpl.
  - exists []. split; constructor.
  - destruct (law_item_cases ov it) as [E|[it' [E O]]]; rewrite E; simpl.
    + exists l. split; [apply sl_skip; exact S|exact F].
    + exists (it :: l). split; [apply sl_keep; exact S|]. simpl. constructor; [exact O|exact F].
Qed.

Theorem merge_preserves_order : forall cb ov f,
  wf_file f = true ->
  exists l, sublist l (declared f) /\ Forall2 same_origin l (declared (rewrite_original_file cb ov f)).
Proof.
  intros. rewrite rewrite_original_file_law by auto. apply law_preserves_order.
Qed.

(* ------------------------------------------------------------------ purge *)

Theorem purge_removes_methods : forall cb ov f tname info fd',
  wf_file f = true ->
  lookup tname ov = Some info -> o_purge info = true -> tname <> "" ->
  In (DIFunc fd') (declared (rewrite_original_file cb ov f)) ->
  func_receiver_key fd' = tname ->
  exists fd, In (DIFunc fd) (declared f) /\ has_key (func_key fd) ov = true /\ law_func ov fd = [DIFunc fd'].
Proof.
  intros cb ov f tname info fd' W L P NE HIn RK.
  rewrite rewrite_original_file_law in HIn by auto.
  apply in_flat_map in HIn. destruct HIn as [it [I1 I2]].
  destruct it as [fd|t|tk n ty v]; simpl in I2.
  - exists fd. split; auto. unfold law_func in *. unfold has_key.
    destruct (lookup (func_key fd) ov) as [i|] eqn:E.
    + split; auto.
      destruct (o_keep i || is_some (o_sig i)); simpl in I2; [|contradiction].
      destruct I2 as [I2|[]]. rewrite I2. reflexivity.
    + exfalso. unfold receiver_purged in I2.
      destruct (negb (String.eqb (func_receiver_key fd) "") &&
                match lookup (func_receiver_key fd) ov with Some info0 => o_purge info0 | None => false end) eqn:X;
        simpl in I2; [contradiction|].
      destruct I2 as [I2|[]]. injection I2 as I2. subst fd'.
      rewrite RK in X. rewrite L in X. rewrite P in X.
      apply String.eqb_neq in NE. rewrite NE in X. discriminate.
  - destruct (has_key (t_name t) ov); simpl in I2; [contradiction|]. destruct I2 as [I2|[]]. discriminate.
  - destruct (has_key n ov); simpl in I2; [contradiction|]. destruct I2 as [I2|[]]. discriminate.
Qed.

(* a purged type is not declared by the overlay result either *)
Lemma overlay_purged_type_absent : forall g t,
  has_directive (g_doc g) action_purge = true \/ has_directive (t_doc t ++ t_cmt t) action_purge = true ->
  In (SType t) (g_specs g) -> overlay_law_decl (DGen g) = [] \/
  overlay_law_spec (g_tok g) (SType t) = [].
Proof.
  intros g t [H|H] _.
  - left. simpl. rewrite H. reflexivity.
  - right. unfold overlay_law_spec. simpl. rewrite H. reflexivity.
Qed.

(* ------------------------------------------------------------------ empty overlay *)

Theorem merge_idempotent_on_empty_overlay : forall cb path origs,
  merge cb path [] origs = ([], [], map (augment_original_imports path) origs) /\
  (mem path nosync_pkgs = false -> merge cb path [] origs = ([], [], origs)).
Proof.
  intros. split.
  - reflexivity.
  - intros H. unfold merge. simpl. unfold augment_original_imports. rewrite H. rewrite map_id. reflexivity.
Qed.
