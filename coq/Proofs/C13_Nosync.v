(* C13 — nosync refines single-goroutine sync: proofs. *)
From Coq Require Import ZArith Lia List Bool.
From Verif Require Import Model.C13_Nosync.
Import ListNotations.
Local Open Scope Z_scope.

(* reachable-state invariant: the Once flag `doing` is false between calls; the reader count is
   non-negative and bounded by [b] (so the int32 increment cannot wrap) *)
Definition inv (b : Z) (n : nstate) : Prop :=
  match n with
  | NRW _ r => 0 <= r <= b
  | NOnce doing _ => doing = false
  | _ => True
  end.

Lemma wrap32s_small : forall x, -2147483648 <= x < 2147483648 -> wrap32s x = x.
Proof. intros x H. unfold wrap32s. rewrite Z.mod_small by lia. lia. Qed.

(* one step: outcomes agree; if sync goes on, the abstraction and the invariant are kept *)
Lemma step_sim : forall b n o,
  inv b n -> b < 2147483647 ->
  let '(n', no) := nstep n o in
  let '(s', so) := sstep (abs n) o in
  agrees so no = true /\ (stops so = false -> s' = abs n' /\ inv (b + 1) n').
Proof.
  intros b n o Hinv Hb.
  destruct n as [l | w r | c | doing done]; destruct o as [ | | | | | | d | | | f];
    cbn [nstep sstep abs inv wg_add swg_add] in *; unfold wg_add, swg_add; subst;
    repeat match goal with
    | |- context[Z.eqb ?a ?b] => destruct (Z.eqb_spec a b)
    | |- context[Z.ltb ?a ?b] => destruct (Z.ltb_spec a b)
    | x : bool |- _ => destruct x
    | |- context[match ?f with FPlain => _ | FPanics => _ | FReenters => _ end] => is_var f; destruct f
    end;
    cbn; try rewrite !wrap32s_small by lia; rewrite ?Z.eqb_refl; try lia;
    (split; [reflexivity | intros Hs; try discriminate Hs; split; [reflexivity | cbn; try lia; auto]]).
Qed.

Lemma refines_from : forall h b n,
  inv b n -> b + Z.of_nat (length h) < 2147483648 ->
  agree_prefix (srun (abs n) h) (nrun n h) = true.
Proof.
  induction h as [|o h IH]; intros b n Hinv Hb; [reflexivity|].
  cbn [srun nrun length] in *.
  pose proof (step_sim b n o Hinv ltac:(lia)) as S.
  destruct (nstep n o) as [n' no]. destruct (sstep (abs n) o) as [s' so].
  destruct S as [Hag Hnext].
  destruct (stops so) eqn:Hst.
  - cbn. rewrite Hag. reflexivity.
  - cbn. rewrite Hag. cbn. destruct (Hnext eq_refl) as [-> Hinv'].
    apply (IH (b + 1)); [assumption | lia].
Qed.

(* when sync never stops, every call is matched (the two outcome lists have the same length) *)
Lemma srun_length_no_stop : forall h s, forallb (fun o => negb (stops o)) (srun s h) = true -> length (srun s h) = length h.
Proof.
  induction h as [|o h IH]; intros s H; [reflexivity|].
  cbn [srun] in *. destruct (sstep s o) as [s' so]. destruct (stops so) eqn:E.
  - cbn in H. rewrite E in H. discriminate.
  - cbn in H. rewrite E in H. cbn in H. cbn. f_equal. apply IH. exact H.
Qed.

Lemma nrun_length : forall h n, length (nrun n h) = length h.
Proof. induction h as [|o h IH]; intros n; [reflexivity|]. cbn. destruct (nstep n o). cbn. f_equal. apply IH. Qed.

Theorem nosync_refines_sync : forall (k : Z) (h : list op),
  Z.of_nat (length h) < 2147483648 ->
  agree_prefix (srun (abs (ninit k)) h) (nrun (ninit k) h) = true.
Proof.
  intros k h Hlen. apply (refines_from h 0); [| lia].
  unfold ninit. destruct (k =? 0); [exact I|]. destruct (k =? 1); [cbn; lia|]. destruct (k =? 2); [exact I | reflexivity].
Qed.
