(* C20 — lemmas about Model/C20_Cache.v. *)
From Coq Require Import String Ascii.
From Coq Require Import List NArith ZArith Bool Arith Lia.
From Verif Require Import Model.C20_Cache.
Import ListNotations.
Local Open Scope N_scope.

(* ---- basics ----------------------------------------------------------- *)

Lemma bytes_eqb_spec : forall a b, reflect (a = b) (bytes_eqb a b).
Proof.
  induction a as [|x a IH]; destruct b as [|y b]; cbn [bytes_eqb]; try (constructor; congruence).
  destruct (N.eqb_spec x y); cbn [andb].
  - destruct (IH b); constructor; congruence.
  - constructor; congruence.
Qed.

Lemma bytes_eqb_refl : forall a, bytes_eqb a a = true.
Proof. intro a. destruct (bytes_eqb_spec a a); congruence. Qed.

Lemma bytes_eqb_neq : forall a b, a <> b -> bytes_eqb a b = false.
Proof. intros a b H. destruct (bytes_eqb_spec a b); congruence. Qed.

Lemma fs_get_del_same : forall f p, fs_get (fs_del f p) p = None.
Proof.
  induction f as [|[q c] f IH]; intro p; cbn [fs_del fs_get]; [reflexivity|].
  destruct (bytes_eqb q p) eqn:E; [apply IH|]. cbn [fs_get]. rewrite E. apply IH.
Qed.

Lemma fs_get_del_other : forall f p q, p <> q -> fs_get (fs_del f p) q = fs_get f q.
Proof.
  induction f as [|[r c] f IH]; intros p q Hpq; cbn [fs_del fs_get]; [reflexivity|].
  destruct (bytes_eqb_spec r p) as [->|Hrp].
  - rewrite (bytes_eqb_neq p q Hpq). apply IH, Hpq.
  - cbn [fs_get]. destruct (bytes_eqb r q); [reflexivity|]. apply IH, Hpq.
Qed.

Lemma fs_get_set_same : forall f p c, fs_get (fs_set f p c) p = Some c.
Proof. intros. unfold fs_set. cbn [fs_get]. now rewrite bytes_eqb_refl. Qed.

Lemma fs_get_set_other : forall f p c q, p <> q -> fs_get (fs_set f p c) q = fs_get f q.
Proof.
  intros. unfold fs_set. cbn [fs_get]. rewrite (bytes_eqb_neq p q H). now apply fs_get_del_other.
Qed.

(* operations that touch a single file *)
Definition only_on (tmp : bytes) (o : fsop) : Prop :=
  match o with
  | OpCreate p | OpAppend p _ | OpRemove p | OpTruncate p _ => p = tmp
  | OpRename _ _ => False
  end.

Lemma apply_only_on : forall tmp o f q, only_on tmp o -> q <> tmp -> fs_get (apply_op f o) q = fs_get f q.
Proof.
  intros tmp o f q Ho Hq. destruct o; cbn [only_on] in Ho; try contradiction; subst; cbn [apply_op].
  - apply fs_get_set_other; congruence.
  - destruct (fs_get f tmp); [apply fs_get_set_other; congruence|reflexivity].
  - apply fs_get_del_other; congruence.
  - destruct (fs_get f tmp); [apply fs_get_set_other; congruence|reflexivity].
Qed.

Lemma apply_ops_only_on : forall tmp l f q, Forall (only_on tmp) l -> q <> tmp ->
  fs_get (apply_ops f l) q = fs_get f q.
Proof.
  unfold apply_ops. induction l as [|o l IH]; intros f q Hl Hq; cbn [fold_left]; [reflexivity|].
  inversion Hl; subst. rewrite IH by assumption. now apply apply_only_on with tmp.
Qed.

Lemma apply_appends : forall tmp l f c, fs_get f tmp = Some c ->
  fs_get (apply_ops f (map (OpAppend tmp) l)) tmp = Some (c ++ l).
Proof.
  unfold apply_ops. induction l as [|b l IH]; intros f c Hc; cbn [map fold_left].
  - now rewrite app_nil_r.
  - rewrite (IH _ (c ++ [b])).
    + now rewrite <- app_assoc.
    + cbn [apply_op]. rewrite Hc. apply fs_get_set_same.
Qed.

Lemma apply_ops_app : forall f l1 l2, apply_ops f (l1 ++ l2) = apply_ops (apply_ops f l1) l2.
Proof. intros. unfold apply_ops. apply fold_left_app. Qed.

Lemma Forall_firstn : forall A (P : A -> Prop) n l, Forall P l -> Forall P (firstn n l).
Proof.
  induction n; intros l Hl; cbn [firstn]; [constructor|].
  destruct l; [constructor|]. inversion Hl; subst. constructor; auto.
Qed.

Section Cache.
  Variable E : Type.
  Variable H : bytes -> bytes.
  Variable enc : Z -> E -> bytes.
  Variable unzip : bytes -> option bytes.
  Variable dec_time : bytes -> option Z.
  Variable dec_body : bytes -> option E.

  Notation store := (store E H enc).
  Notation load := (load E H unzip dec_time dec_body).
  Notation deserialize := (deserialize E unzip dec_time dec_body).
  Notation dec_full := (dec_full E unzip dec_time dec_body).
  Notation store_ops := (store_ops E H enc).
  Notation fail_ops := (fail_ops E H enc).
  Notation final_name := (final_name H).
  Notation temp_name := (temp_name H).
  Notation run := (run E H enc).
  Notation last_done := (last_done E H enc).

  (* ---- the steps of Store ------------------------------------------- *)

  Definition pre_ops (c : cfg) (ip : bytes) (t : Z) (e : E) (rnd : bytes) : list fsop :=
    OpCreate (temp_name c ip rnd) :: map (OpAppend (temp_name c ip rnd)) (enc t e).

  Lemma store_ops_split : forall c ip t e rnd,
    store_ops c ip t e rnd = pre_ops c ip t e rnd ++ [OpRename (temp_name c ip rnd) (final_name c ip)].
  Proof. reflexivity. Qed.

  Lemma pre_ops_only : forall c ip t e rnd, Forall (only_on (temp_name c ip rnd)) (pre_ops c ip t e rnd).
  Proof.
    intros. unfold pre_ops. constructor; [reflexivity|].
    apply Forall_forall. intros o Ho. apply in_map_iff in Ho. destruct Ho as [b [<- _]]. reflexivity.
  Qed.

  Lemma fail_ops_only : forall c ip t e rnd n, Forall (only_on (temp_name c ip rnd)) (fail_ops c ip t e rnd n).
  Proof.
    intros. unfold C20_Cache.fail_ops. constructor; [reflexivity|].
    apply Forall_app. split.
    - apply Forall_forall. intros o Ho. apply in_map_iff in Ho. destruct Ho as [b [<- _]]. reflexivity.
    - constructor; [reflexivity|constructor].
  Qed.

  Lemma pre_ops_temp : forall f c ip t e rnd,
    fs_get (apply_ops f (pre_ops c ip t e rnd)) (temp_name c ip rnd) = Some (enc t e).
  Proof.
    intros. unfold pre_ops.
    change (apply_ops f (?o :: ?l)) with (apply_ops (apply_op f o) l).
    rewrite (apply_appends _ _ _ []); [reflexivity|]. cbn [apply_op]. apply fs_get_set_same.
  Qed.

  (* after a completed Store the final file holds the whole entry *)
  Lemma store_done_final : forall f c ip t e rnd,
    fs_get (apply_ops f (store_ops c ip t e rnd)) (final_name c ip) = Some (enc t e).
  Proof.
    intros. rewrite store_ops_split, apply_ops_app.
    unfold apply_ops at 1. cbn [fold_left apply_op]. rewrite pre_ops_temp. apply fs_get_set_same.
  Qed.

  (* ... and every other file except the temp file is untouched *)
  Lemma store_done_other : forall f c ip t e rnd q,
    q <> final_name c ip -> q <> temp_name c ip rnd ->
    fs_get (apply_ops f (store_ops c ip t e rnd)) q = fs_get f q.
  Proof.
    intros f c ip t e rnd q Hq1 Hq2. rewrite store_ops_split, apply_ops_app.
    unfold apply_ops at 1. cbn [fold_left apply_op]. rewrite pre_ops_temp.
    rewrite fs_get_set_other by congruence. rewrite fs_get_del_other by congruence.
    apply apply_ops_only_on with (temp_name c ip rnd); [apply pre_ops_only|assumption].
  Qed.

  (* a crash before the rename executes a prefix of pre_ops *)
  Lemma firstn_store_ops : forall c ip t e rnd n,
    (n < length (store_ops c ip t e rnd))%nat ->
    firstn n (store_ops c ip t e rnd) = firstn n (pre_ops c ip t e rnd).
  Proof.
    intros c ip t e rnd n Hn. rewrite store_ops_split in *. rewrite app_length in Hn. cbn [length] in Hn.
    rewrite firstn_app. replace (n - length (pre_ops c ip t e rnd))%nat with O by lia.
    cbn [firstn]. apply app_nil_r.
  Qed.

  Lemma firstn_all_ge : forall A (l : list A) n, (length l <= n)%nat -> firstn n l = l.
  Proof. intros. now apply firstn_all2. Qed.

  (* ---- transparency at the cache level -------------------------------- *)

  (* what deserialize returns, in terms of dec_full *)
  Lemma deserialize_spec : forall b tsrc,
    deserialize b tsrc =
    match dec_full b with
    | Some (t, e) => if (t <? tsrc)%Z then None else Some (t, e)
    | None => None
    end.
  Proof.
    intros b tsrc. unfold C20_Cache.deserialize, C20_Cache.dec_full.
    destruct (unzip b) as [d|]; [|reflexivity].
    destruct (dec_time d) as [t|]; [|reflexivity].
    destruct (dec_body d); [reflexivity|]. now destruct (t <? tsrc)%Z.
  Qed.

  Hypothesis dec_enc : forall t e, dec_full (enc t e) = Some (t, e).

  Theorem load_after_store : forall f c ip t e rnd tsrc,
    is_test c ip = false -> (tsrc <= t)%Z ->
    snd (store f (Some c) ip t e rnd Done) = true /\
    load (fst (store f (Some c) ip t e rnd Done)) (Some c) ip tsrc = Some (t, e).
  Proof.
    intros f c ip t e rnd tsrc Ht Hle. unfold C20_Cache.store, C20_Cache.load. rewrite Ht. cbn [fst snd].
    split; [reflexivity|]. rewrite store_done_final, deserialize_spec, dec_enc.
    destruct (Z.ltb_spec t tsrc); [lia|reflexivity].
  Qed.

  (* ---- test package, nil cache, missing file -------------------------- *)

  Theorem test_package_never_cached : forall f c ip t e rnd o tsrc,
    is_test c ip = true ->
    store f (Some c) ip t e rnd o = (f, false) /\ load f (Some c) ip tsrc = None.
  Proof. intros. unfold C20_Cache.store, C20_Cache.load. rewrite H0. split; reflexivity. Qed.

  Theorem nil_cache_never_caches : forall f ip t e rnd o tsrc,
    store f None ip t e rnd o = (f, false) /\ load f None ip tsrc = None.
  Proof. intros. split; reflexivity. Qed.

  Theorem missing_is_miss : forall f c ip tsrc,
    fs_get f (final_name c ip) = None -> load f (Some c) ip tsrc = None.
  Proof. intros. unfold C20_Cache.load. destruct (is_test c ip); [reflexivity|]. now rewrite H0. Qed.

  (* ---- load depends on the final files only --------------------------- *)

  Lemma load_ext : forall f f' oc ip tsrc,
    (forall k, fs_get f' (H k) = fs_get f (H k)) -> load f' oc ip tsrc = load f oc ip tsrc.
  Proof.
    intros f f' oc ip tsrc Hk. unfold C20_Cache.load. destruct oc as [c|]; [|reflexivity].
    destruct (is_test c ip); [reflexivity|]. unfold C20_Cache.final_name. now rewrite Hk.
  Qed.

  (* ---- names: a temp name is never a final name ------------------------ *)

  Variable hlen : nat.
  Hypothesis H_len : forall k, length (H k) = hlen.

  Lemma temp_not_final : forall c ip rnd k, rnd <> [] -> H k <> temp_name c ip rnd.
  Proof.
    intros c ip rnd k Hr Heq. apply (f_equal (@length N)) in Heq.
    unfold C20_Cache.temp_name, C20_Cache.final_name in Heq. rewrite app_length, !H_len in Heq.
    destruct rnd; [congruence|]. cbn [length] in Heq. lia.
  Qed.

  (* ---- crash at any step ----------------------------------------------- *)

  Theorem crash_unchanged_or_complete : forall f c ip t e rnd n,
    rnd <> [] ->
    let f' := fst (store f (Some c) ip t e rnd (CrashAfter n)) in
    (forall k, fs_get f' (H k) = fs_get f (H k)) \/
    f' = fst (store f (Some c) ip t e rnd Done).
  Proof.
    intros f c ip t e rnd n Hr. unfold C20_Cache.store. destruct (is_test c ip); cbn [fst]; [left; reflexivity|].
    destruct (Nat.lt_ge_cases n (length (store_ops c ip t e rnd))) as [Hlt|Hge].
    - left. intro k. rewrite firstn_store_ops by assumption.
      apply apply_ops_only_on with (temp_name c ip rnd).
      + apply Forall_firstn, pre_ops_only.
      + now apply temp_not_final.
    - right. now rewrite firstn_all_ge.
  Qed.

  Theorem crash_is_miss_or_complete : forall f c ip t e rnd n oc' ip' tsrc,
    rnd <> [] ->
    let f' := fst (store f (Some c) ip t e rnd (CrashAfter n)) in
    load f' oc' ip' tsrc = load f oc' ip' tsrc \/
    load f' oc' ip' tsrc = load (fst (store f (Some c) ip t e rnd Done)) oc' ip' tsrc.
  Proof.
    intros. destruct (crash_unchanged_or_complete f c ip t e rnd n H0) as [Hu|Hc].
    - left. now apply load_ext.
    - right. subst f'. now rewrite Hc.
  Qed.

  Theorem failed_store_changes_nothing : forall f c ip t e rnd n oc' ip' tsrc,
    rnd <> [] ->
    snd (store f (Some c) ip t e rnd (Fail n)) = false /\
    load (fst (store f (Some c) ip t e rnd (Fail n))) oc' ip' tsrc = load f oc' ip' tsrc.
  Proof.
    intros. unfold C20_Cache.store. destruct (is_test c ip); cbn [fst snd]; [split; reflexivity|].
    split; [reflexivity|]. apply load_ext. intro k.
    apply apply_ops_only_on with (temp_name c ip rnd); [apply fail_ops_only|now apply temp_not_final].
  Qed.

  (* ---- truncation -------------------------------------------------------- *)

  (* every proper prefix of a stored file fails to decompress (gzip: unexpected EOF at the latest
     in the trailer, which io.ReadAll reaches) *)
  Hypothesis dec_prefix : forall t e k, (k < length (enc t e))%nat -> dec_full (firstn k (enc t e)) = None.

  Lemma dec_prefix_safe : forall t e k t' e',
    dec_full (firstn k (enc t e)) = Some (t', e') -> (t', e') = (t, e).
  Proof.
    intros t e k t' e' Hd. destruct (Nat.lt_ge_cases k (length (enc t e))) as [Hlt|Hge].
    - rewrite dec_prefix in Hd by assumption. discriminate.
    - rewrite firstn_all2, dec_enc in Hd by assumption. now inversion Hd.
  Qed.

  Lemma deserialize_dec_full : forall b tsrc t e,
    deserialize b tsrc = Some (t, e) -> dec_full b = Some (t, e) /\ (tsrc <= t)%Z.
  Proof.
    intros b tsrc t e. rewrite deserialize_spec. destruct (dec_full b) as [[t0 e0]|]; [|discriminate].
    destruct (Z.ltb_spec t0 tsrc); [discriminate|]. intro Heq. inversion Heq; subst. split; [reflexivity|assumption].
  Qed.

  Lemma deserialize_none : forall b tsrc, dec_full b = None -> deserialize b tsrc = None.
  Proof. intros b tsrc Hn. now rewrite deserialize_spec, Hn. Qed.

  Theorem truncated_is_miss : forall f c ip t e k tsrc,
    fs_get f (final_name c ip) = Some (firstn k (enc t e)) ->
    (k < length (enc t e))%nat ->
    load f (Some c) ip tsrc = None.
  Proof.
    intros. unfold C20_Cache.load. destruct (is_test c ip); [reflexivity|]. rewrite H0.
    apply deserialize_none. now apply dec_prefix.
  Qed.

  (* one changed byte: CRC-32 (and the deflate/size checks) detect it, or it fell into header bits
     that carry no information (MTIME, XFL, OS) and the entry is unchanged *)
  Definition crc32_detects_single_byte_damage : Prop :=
    forall t e pre x y post, enc t e = pre ++ x :: post -> x <> y ->
      dec_full (pre ++ y :: post) = None \/ dec_full (pre ++ y :: post) = Some (t, e).

  Theorem flipped_is_miss_or_same : crc32_detects_single_byte_damage ->
    forall f c ip t e pre x y post tsrc,
      enc t e = pre ++ x :: post -> x <> y ->
      fs_get f (final_name c ip) = Some (pre ++ y :: post) ->
      load f (Some c) ip tsrc = None \/ load f (Some c) ip tsrc = Some (t, e).
  Proof.
    intros Hcrc f c ip t e pre x y post tsrc He Hxy Hf. unfold C20_Cache.load.
    destruct (is_test c ip); [left; reflexivity|]. rewrite Hf, deserialize_spec.
    destruct (Hcrc t e pre x y post He Hxy) as [-> | ->]; [left; reflexivity|].
    destruct (t <? tsrc)%Z; [left|right]; reflexivity.
  Qed.

  (* ---- soundness over all histories ---------------------------------------- *)

  Lemma firstn_firstn_min : forall A (l : list A) a b, firstn a (firstn b l) = firstn (Nat.min a b) l.
  Proof. intros. apply firstn_firstn. Qed.

  Section Inv.
    Variable k0 : bytes.

    Definition inv (h : list (event E)) : Prop :=
      match fs_get (run h) (H k0) with
      | None => True
      | Some b => exists t e n, last_done h k0 = Some (t, e) /\ b = firstn n (enc t e)
      end.

    Lemma inv_unchanged : forall ev h,
      fs_get (run (ev :: h)) (H k0) = fs_get (run h) (H k0) ->
      last_done (ev :: h) k0 = last_done h k0 ->
      inv h -> inv (ev :: h).
    Proof. intros ev h Hf Hl. unfold inv. now rewrite Hf, Hl. Qed.

    Lemma inv_all : forall h,
      rnds_ok E h = true ->
      (forall k, In k (keys_of E h) -> H k = H k0 -> k = k0) ->
      inv h.
    Proof.
      induction h as [|ev h IH]; intros Hr Hinj; [exact I|].
      destruct ev as [oc ip t e rnd o | name k | name].
      - (* store *)
        cbn [rnds_ok] in Hr. destruct rnd as [|r0 rnd']; [discriminate|]. set (rnd := r0 :: rnd') in *.
        assert (Hrnd : rnd <> []) by (subst rnd; discriminate).
        destruct oc as [c|].
        2:{ apply inv_unchanged; [reflexivity|reflexivity|]. apply IH; [assumption|]. intros; apply Hinj; [|assumption]. assumption. }
        cbn [keys_of] in Hinj.
        assert (IH' : inv h) by (apply IH; [assumption|intros; apply Hinj; [right|]; assumption]).
        unfold inv in IH'.
        destruct (is_test c ip) eqn:Ht.
        { unfold inv. cbn [C20_Cache.run C20_Cache.step C20_Cache.last_done]. unfold C20_Cache.store.
          rewrite Ht. cbn [negb andb fst]. exact IH'. }
        (* does this store publish? *)
        assert (Hpub : forall fpub, publishes E H enc c ip t e rnd o = true ->
                  fpub = apply_ops (run h) (store_ops c ip t e rnd) ->
                  match fs_get fpub (H k0) with
                  | None => True
                  | Some b => exists t1 e1 n, (if bytes_eqb (key c ip) k0 then Some (t, e) else last_done h k0) = Some (t1, e1) /\ b = firstn n (enc t1 e1)
                  end).
        { intros fpub _ ->. destruct (bytes_eqb_spec (key c ip) k0) as [Hk|Hk].
          - rewrite <- Hk. change (H (key c ip)) with (final_name c ip). rewrite store_done_final.
            exists t, e, (length (enc t e)). split; [reflexivity|]. symmetry. apply firstn_all.
          - assert (Hne : H k0 <> final_name c ip).
            { intro Heq. apply Hk. apply Hinj; [left; reflexivity|]. symmetry. exact Heq. }
            rewrite store_done_other; [exact IH'|assumption|now apply temp_not_final]. }
        assert (Hnopub : forall l, Forall (only_on (temp_name c ip rnd)) l ->
                  match fs_get (apply_ops (run h) l) (H k0) with
                  | None => True
                  | Some b => exists t1 e1 n, last_done h k0 = Some (t1, e1) /\ b = firstn n (enc t1 e1)
                  end).
        { intros l Hl. rewrite (apply_ops_only_on (temp_name c ip rnd)); [exact IH'|assumption|now apply temp_not_final]. }
        unfold inv. cbn [C20_Cache.run C20_Cache.step C20_Cache.last_done]. unfold C20_Cache.store. rewrite Ht. cbn [fst negb].
        destruct o as [|n|n]; cbn [publishes].
        + cbn [andb]. apply (Hpub _ eq_refl eq_refl).
        + destruct (Nat.leb_spec (length (store_ops c ip t e rnd)) n) as [Hge|Hlt]; cbn [andb].
          * rewrite firstn_all_ge by assumption. apply (Hpub _); [cbn [publishes]; now apply Nat.leb_le|reflexivity].
          * rewrite firstn_store_ops by assumption. apply Hnopub, Forall_firstn, pre_ops_only.
        + cbn [andb]. apply Hnopub, fail_ops_only.
      - (* truncation of any file *)
        cbn [rnds_ok] in Hr. cbn [keys_of] in Hinj. specialize (IH Hr Hinj).
        unfold inv in *. cbn [C20_Cache.run C20_Cache.step C20_Cache.last_done apply_op].
        destruct (fs_get (run h) name) as [b0|] eqn:G; [|exact IH].
        destruct (bytes_eqb_spec name (H k0)) as [->|Hn].
        + rewrite fs_get_set_same. rewrite G in IH. destruct IH as [t1 [e1 [n [Hl ->]]]].
          exists t1, e1, (Nat.min k n). split; [assumption|apply firstn_firstn_min].
        + rewrite fs_get_set_other by assumption. exact IH.
      - (* deletion of any file *)
        cbn [rnds_ok] in Hr. cbn [keys_of] in Hinj. specialize (IH Hr Hinj).
        unfold inv in *. cbn [C20_Cache.run C20_Cache.step C20_Cache.last_done apply_op].
        destruct (bytes_eqb_spec name (H k0)) as [->|Hn].
        + now rewrite fs_get_del_same.
        + rewrite fs_get_del_other by assumption. exact IH.
    Qed.
  End Inv.

  Theorem load_sound : forall h c ip tsrc t e,
    rnds_ok E h = true ->
    (forall k, In k (keys_of E h) -> H k = H (key c ip) -> k = key c ip) ->
    load (run h) (Some c) ip tsrc = Some (t, e) ->
    last_done h (key c ip) = Some (t, e) /\ (tsrc <= t)%Z /\ is_test c ip = false.
  Proof.
    intros h c ip tsrc t e Hr Hinj Hl.
    pose proof (inv_all (key c ip) h Hr Hinj) as Hinv. unfold inv in Hinv.
    unfold C20_Cache.load in Hl. destruct (is_test c ip); [discriminate|].
    unfold C20_Cache.final_name in Hl. destruct (fs_get (run h) (H (key c ip))) as [b|]; [|discriminate].
    destruct Hinv as [t1 [e1 [n [Hd ->]]]].
    apply deserialize_dec_full in Hl. destruct Hl as [Hf Hle].
    apply dec_prefix_safe in Hf. inversion Hf; subst. repeat split; assumption.
  Qed.

  (* what last_done = Some means: some store event of the history published exactly this entry
     under a configuration and import path with this key string *)
  Lemma last_done_in : forall h k t e,
    last_done h k = Some (t, e) ->
    exists c ip rnd o, In (EStore (Some c) ip t e rnd o) h /\ key c ip = k /\ is_test c ip = false /\
                       publishes E H enc c ip t e rnd o = true.
  Proof.
    induction h as [|ev h IH]; intros k t e Hl; [discriminate|].
    destruct ev as [oc ip1 t1 e1 rnd o | name n | name]; cbn [C20_Cache.last_done] in Hl.
    - destruct oc as [c|].
      + destruct (is_test c ip1) eqn:Ht; cbn [negb andb] in Hl.
        * destruct (IH _ _ _ Hl) as [c' [ip' [r' [o' [Hin Hrest]]]]]. exists c', ip', r', o'. split; [now right|assumption].
        * destruct (publishes E H enc c ip1 t1 e1 rnd o) eqn:Hp; cbn [andb] in Hl.
          -- destruct (bytes_eqb_spec (key c ip1) k) as [Hk|Hk].
             ++ inversion Hl; subst. exists c, ip1, rnd, o. repeat split; try assumption. now left.
             ++ destruct (IH _ _ _ Hl) as [c' [ip' [r' [o' [Hin Hrest]]]]]. exists c', ip', r', o'. split; [now right|assumption].
          -- destruct (IH _ _ _ Hl) as [c' [ip' [r' [o' [Hin Hrest]]]]]. exists c', ip', r', o'. split; [now right|assumption].
      + destruct (IH _ _ _ Hl) as [c' [ip' [r' [o' [Hin Hrest]]]]]. exists c', ip', r', o'. split; [now right|assumption].
    - destruct (IH _ _ _ Hl) as [c' [ip' [r' [o' [Hin Hrest]]]]]. exists c', ip', r', o'. split; [now right|assumption].
    - destruct (bytes_eqb name (H k)); [discriminate|].
      destruct (IH _ _ _ Hl) as [c' [ip' [r' [o' [Hin Hrest]]]]]. exists c', ip', r', o'. split; [now right|assumption].
  Qed.
End Cache.

(* ---- the key format is injective ------------------------------------------ *)

Definition unhexdig (d : N) : N := if d <? 58 then d - 48 else d - 87.

(* inverse of quote_byte on the front of a byte string *)
Definition unquote_byte (l : bytes) : option (N * bytes) :=
  match l with
  | [] => None
  | b :: r =>
      if b =? 92 then
        match r with
        | [] => None
        | x :: r' =>
            if x =? 34 then Some (34, r') else if x =? 92 then Some (92, r')
            else if x =? 97 then Some (7, r') else if x =? 98 then Some (8, r')
            else if x =? 102 then Some (12, r') else if x =? 110 then Some (10, r')
            else if x =? 114 then Some (13, r') else if x =? 116 then Some (9, r')
            else if x =? 118 then Some (11, r')
            else if x =? 120 then
              match r' with
              | h1 :: h2 :: r'' => Some (16 * unhexdig h1 + unhexdig h2, r'')
              | _ => None
              end
            else None
        end
      else Some (b, r)
  end.

Lemma unhex_hex : forall n, n < 16 -> unhexdig (hexdig n) = n.
Proof.
  intros n Hn. unfold hexdig, unhexdig.
  destruct (N.ltb_spec n 10).
  - destruct (N.ltb_spec (48 + n) 58); lia.
  - destruct (N.ltb_spec (87 + n) 58); lia.
Qed.

Lemma unquote_quote_byte : forall b X, unquote_byte (quote_byte b ++ X) = Some (b, X).
Proof.
  intros b X. unfold quote_byte.
  destruct (N.eqb_spec b 34) as [->|H34]; [reflexivity|].
  destruct (N.eqb_spec b 92) as [->|H92]; [reflexivity|].
  destruct (N.eqb_spec b 7) as [->|H7]; [reflexivity|].
  destruct (N.eqb_spec b 8) as [->|H8]; [reflexivity|].
  destruct (N.eqb_spec b 12) as [->|H12]; [reflexivity|].
  destruct (N.eqb_spec b 10) as [->|H10]; [reflexivity|].
  destruct (N.eqb_spec b 13) as [->|H13]; [reflexivity|].
  destruct (N.eqb_spec b 9) as [->|H9]; [reflexivity|].
  destruct (N.eqb_spec b 11) as [->|H11]; [reflexivity|].
  destruct ((b <? 32) || (b =? 127)) eqn:Hc.
  - cbn [app unquote_byte]. change (92 =? 92) with true. cbv iota.
    change (120 =? 34) with false. change (120 =? 92) with false. change (120 =? 97) with false.
    change (120 =? 98) with false. change (120 =? 102) with false. change (120 =? 110) with false.
    change (120 =? 114) with false. change (120 =? 116) with false. change (120 =? 118) with false.
    change (120 =? 120) with true. cbv iota.
    assert (Hb : b < 128).
    { apply orb_true_iff in Hc. destruct Hc as [Hc|Hc]; [apply N.ltb_lt in Hc; lia|apply N.eqb_eq in Hc; lia]. }
    assert (Hd : b / 16 < 16) by (apply N.div_lt_upper_bound; lia).
    assert (Hm : b mod 16 < 16) by (apply N.mod_lt; lia).
    rewrite !unhex_hex by assumption.
    f_equal. f_equal. rewrite (N.div_mod b 16) at 3 by lia. reflexivity.
  - cbn [app unquote_byte]. destruct (N.eqb_spec b 92); [contradiction|reflexivity].
Qed.

Lemma quote_byte_prefix_code : forall a b X Y,
  quote_byte a ++ X = quote_byte b ++ Y -> a = b /\ X = Y.
Proof.
  intros a b X Y Heq. apply (f_equal unquote_byte) in Heq.
  rewrite !unquote_quote_byte in Heq. inversion Heq. split; reflexivity.
Qed.

Lemma esc_cons : forall a s, esc (a :: s) = quote_byte a ++ esc s.
Proof. reflexivity. Qed.

Lemma quote_byte_head : forall b X r, 34 :: r <> quote_byte b ++ X.
Proof.
  intros b X r Heq. pose proof Heq as Heq2.
  apply (f_equal unquote_byte) in Heq2. rewrite unquote_quote_byte in Heq2.
  cbn [unquote_byte] in Heq2. change (34 =? 92) with false in Heq2. cbv iota in Heq2.
  inversion Heq2 as [[Hb Hr]]. rewrite <- Hb in Heq. discriminate Heq.
Qed.

Lemma esc_inj_prefix : forall s1 s2 r1 r2,
  esc s1 ++ 34 :: r1 = esc s2 ++ 34 :: r2 -> s1 = s2 /\ r1 = r2.
Proof.
  induction s1 as [|a s1 IH]; destruct s2 as [|b s2]; intros r1 r2 Heq.
  - cbn in Heq. inversion Heq. split; reflexivity.
  - exfalso. rewrite esc_cons, <- app_assoc in Heq. cbn [esc flat_map app] in Heq.
    exact (quote_byte_head _ _ _ Heq).
  - exfalso. rewrite esc_cons, <- app_assoc in Heq. cbn [esc flat_map app] in Heq.
    symmetry in Heq. exact (quote_byte_head _ _ _ Heq).
  - rewrite !esc_cons, <- !app_assoc in Heq. apply quote_byte_prefix_code in Heq.
    destruct Heq as [-> Heq]. apply IH in Heq. destruct Heq as [-> ->]. split; reflexivity.
Qed.

Lemma quote_inj_prefix : forall s1 s2 r1 r2,
  quote s1 ++ r1 = quote s2 ++ r2 -> s1 = s2 /\ r1 = r2.
Proof.
  intros s1 s2 r1 r2 Heq. unfold quote in Heq. cbn [app] in Heq. inversion Heq as [Heq'].
  rewrite <- !app_assoc in Heq'. cbn [app] in Heq'. now apply esc_inj_prefix.
Qed.

(* BuildTags *)
Definition tag_rest (l : list bytes) : bytes :=
  match l with [] => [] | _ => s2b ", " ++ tag_items l end.

Lemma tag_items_cons : forall a l, tag_items (a :: l) = quote a ++ tag_rest l.
Proof. intros a [|b l]; cbn [tag_items tag_rest]; [now rewrite app_nil_r|reflexivity]. Qed.

Lemma quote_head : forall a, exists r, quote a = 34 :: r.
Proof. intro a. unfold quote. eexists. reflexivity. Qed.

Lemma tag_items_inj : forall l1 l2 r1 r2,
  tag_items l1 ++ 125 :: r1 = tag_items l2 ++ 125 :: r2 -> l1 = l2 /\ r1 = r2.
Proof.
  induction l1 as [|a l1 IH]; destruct l2 as [|b l2]; intros r1 r2 Heq.
  - cbn in Heq. inversion Heq. split; reflexivity.
  - exfalso. rewrite tag_items_cons in Heq. destruct (quote_head b) as [q Hq]. rewrite Hq in Heq. cbn in Heq. discriminate.
  - exfalso. rewrite tag_items_cons in Heq. destruct (quote_head a) as [q Hq]. rewrite Hq in Heq. cbn in Heq. discriminate.
  - rewrite !tag_items_cons, <- !app_assoc in Heq. apply quote_inj_prefix in Heq.
    destruct Heq as [-> Heq].
    destruct l1 as [|a1 l1]; destruct l2 as [|b1 l2]; cbn [tag_rest app] in Heq.
    + inversion Heq. split; reflexivity.
    + exfalso. change (s2b ", ") with [44; 32] in Heq. cbn [app] in Heq. discriminate.
    + exfalso. change (s2b ", ") with [44; 32] in Heq. cbn [app] in Heq. discriminate.
    + rewrite <- !app_assoc in Heq. apply app_inv_head in Heq. apply IH in Heq.
      destruct Heq as [Heq ->]. inversion Heq; subst. split; reflexivity.
Qed.

Lemma s2b_nil_lit : s2b "[]string(nil)" = s2b "[]string" ++ 40 :: s2b "nil)".
Proof. reflexivity. Qed.
Lemma s2b_brace_lit : s2b "[]string{" = s2b "[]string" ++ [123].
Proof. reflexivity. Qed.

Lemma tags_str_inj : forall o1 o2 r1 r2,
  tags_str o1 ++ r1 = tags_str o2 ++ r2 -> o1 = o2 /\ r1 = r2.
Proof.
  intros [l1|] [l2|] r1 r2 Heq; unfold tags_str in Heq.
  - rewrite <- !app_assoc in Heq. apply app_inv_head in Heq. cbn [app] in Heq.
    apply tag_items_inj in Heq. destruct Heq as [-> ->]. split; reflexivity.
  - exfalso. rewrite s2b_nil_lit, s2b_brace_lit, <- !app_assoc in Heq. apply app_inv_head in Heq.
    cbn [app] in Heq. discriminate.
  - exfalso. rewrite s2b_nil_lit, s2b_brace_lit, <- !app_assoc in Heq. apply app_inv_head in Heq.
    cbn [app] in Heq. discriminate.
  - apply app_inv_head in Heq. split; [reflexivity|assumption].
Qed.

Lemma common_key_inj_prefix : forall c1 c2 r1 r2,
  common_key c1 ++ r1 = common_key c2 ++ r2 -> common c1 = common c2 /\ r1 = r2.
Proof.
  intros c1 c2 r1 r2 Heq. unfold common_key in Heq. rewrite <- !app_assoc in Heq.
  apply app_inv_head in Heq. apply quote_inj_prefix in Heq. destruct Heq as [H1 Heq].
  apply app_inv_head in Heq. apply quote_inj_prefix in Heq. destruct Heq as [H2 Heq].
  apply app_inv_head in Heq. apply quote_inj_prefix in Heq. destruct Heq as [H3 Heq].
  apply app_inv_head in Heq. apply quote_inj_prefix in Heq. destruct Heq as [H4 Heq].
  apply app_inv_head in Heq. apply tags_str_inj in Heq. destruct Heq as [H5 Heq].
  apply app_inv_head in Heq. apply quote_inj_prefix in Heq. destruct Heq as [H6 Heq].
  cbn [app] in Heq. inversion Heq. unfold common. rewrite H1, H2, H3, H4, H5, H6. split; reflexivity.
Qed.

Lemma raw_inj : forall c1 ip1 c2 ip2,
  raw c1 ip1 = raw c2 ip2 -> common c1 = common c2 /\ ip1 = ip2.
Proof.
  intros c1 ip1 c2 ip2 Heq. unfold raw in Heq. apply app_inv_head in Heq.
  apply (f_equal (@tl N)) in Heq. cbn [tl] in Heq. rename Heq into Heq'.
  apply common_key_inj_prefix in Heq'. destruct Heq' as [Hc Hr]. split; [assumption|].
  destruct ip1, ip2; try discriminate; [reflexivity|]. now inversion Hr.
Qed.

Theorem key_injective : forall c1 ip1 c2 ip2,
  wfb c1 ip1 = true -> wfb c2 ip2 = true ->
  key c1 ip1 = key c2 ip2 -> common c1 = common c2 /\ ip1 = ip2.
Proof.
  intros c1 ip1 c2 ip2 W1 W2 Heq. unfold wfb in *.
  destruct (bytes_eqb_spec (key c1 ip1) (raw c1 ip1)) as [E1|]; [|discriminate].
  destruct (bytes_eqb_spec (key c2 ip2) (raw c2 ip2)) as [E2|]; [|discriminate].
  apply raw_inj. congruence.
Qed.

(* ---- never stale, never another configuration's or package's entry ---------- *)

Definition wf_event {E} (ev : event E) : bool :=
  match ev with
  | EStore (Some c) ip _ _ _ _ => wfb c ip
  | _ => true
  end.

Theorem load_sound_same_config :
  forall (E : Type) (H : bytes -> bytes) (enc : Z -> E -> bytes) (unzip : bytes -> option bytes)
         (dec_time : bytes -> option Z) (dec_body : bytes -> option E),
    (forall t e, dec_full E unzip dec_time dec_body (enc t e) = Some (t, e)) ->
    forall hlen : nat, (forall k, length (H k) = hlen) ->
    (forall t e k, (k < length (enc t e))%nat -> dec_full E unzip dec_time dec_body (firstn k (enc t e)) = None) ->
    forall (h : list (event E)) c ip tsrc t e,
      rnds_ok E h = true ->
      (forall k, In k (keys_of E h) -> H k = H (key c ip) -> k = key c ip) ->
      forallb wf_event h = true -> wfb c ip = true ->
      load E H unzip dec_time dec_body (run E H enc h) (Some c) ip tsrc = Some (t, e) ->
      (tsrc <= t)%Z /\ is_test c ip = false /\
      exists c' rnd o,
        In (EStore (Some c') ip t e rnd o) h /\ common c' = common c /\ is_test c' ip = false /\
        publishes E H enc c' ip t e rnd o = true /\
        last_done E H enc h (key c ip) = Some (t, e).
Proof.
  intros E H enc unzip dec_time dec_body Henc hlen Hlen Hpre h c ip tsrc t e Hr Hinj Hwf Hwfc Hl.
  destruct (load_sound E H enc unzip dec_time dec_body Henc hlen Hlen Hpre h c ip tsrc t e Hr Hinj Hl) as [Hd [Hle Ht]].
  split; [assumption|]. split; [assumption|].
  destruct (last_done_in E H enc h _ _ _ Hd) as [c' [ip' [rnd [o [Hin [Hk [Ht' Hp]]]]]]].
  assert (Hw' : wfb c' ip' = true).
  { rewrite forallb_forall in Hwf. exact (Hwf _ Hin). }
  destruct (key_injective c' ip' c ip Hw' Hwfc Hk) as [Hc Hip]. subst ip'.
  exists c', rnd, o. repeat split; assumption.
Qed.


(* ---- the toy codec satisfies the codec hypotheses -------------------------- *)

Definition toy_dec_full := dec_full toyE toy_unzip toy_dec_time toy_dec_body.

Lemma toy_time_shape : forall t, exists s a, toy_time t = [s; a] /\
  (if s =? 0 then Some (Z.of_N a) else if (s =? 1) && negb (a =? 0) then Some (- Z.of_N a)%Z else None) = Some t.
Proof.
  intro t. unfold toy_time. destruct (Z.ltb_spec t 0).
  - exists 1, (Z.to_N (- t)). split; [reflexivity|].
    change (1 =? 0) with false. change (1 =? 1) with true. cbv iota. cbn [andb].
    destruct (N.eqb_spec (Z.to_N (- t)) 0) as [E0|E0]; [lia|]. cbn [negb]. f_equal. lia.
  - exists 0, (Z.to_N t). split; [reflexivity|]. change (0 =? 0) with true. cbv iota. f_equal. lia.
Qed.

Lemma parse_app : forall e rest, parse_chunks (length e) (toy_chunks e ++ rest) = Some e.
Proof.
  induction e as [|c e IH]; intro rest; [reflexivity|].
  cbn [length parse_chunks toy_chunks flat_map]. rewrite <- app_assoc. cbn [app].
  rewrite Nat2N.id.
  destruct (Nat.ltb_spec (length (c ++ flat_map (fun c0 => N.of_nat (length c0) :: c0) e ++ rest)) (length c)) as [Hl|Hl].
  - rewrite app_length in Hl. lia.
  - rewrite skipn_app, skipn_all, Nat.sub_diag. cbn [skipn app].
    change (flat_map (fun c0 => N.of_nat (length c0) :: c0) e) with (toy_chunks e). rewrite IH.
    rewrite firstn_app, firstn_all, Nat.sub_diag. cbn [firstn]. now rewrite app_nil_r.
Qed.

(* the frame: what toy_unzip does with magic, the right length field, data, checksum slot, 7 more *)
Lemma toy_unzip_frame : forall d s r7, length r7 = 7%nat ->
  toy_unzip (31 :: 139 :: N.of_nat (length d) :: d ++ s :: r7) = if s =? toy_sum d then Some d else None.
Proof.
  intros d s r7 H7. cbn [toy_unzip]. change (31 =? 31) with true. change (139 =? 139) with true. cbn [andb negb].
  assert (Hl : N.of_nat (length (d ++ s :: r7)) =? N.of_nat (length d) + 8 = true).
  { apply N.eqb_eq. rewrite app_length. cbn [length]. lia. }
  rewrite Hl. cbn [negb]. rewrite Nat2N.id.
  rewrite firstn_app, firstn_all, Nat.sub_diag, skipn_app, skipn_all, Nat.sub_diag.
  cbn [firstn skipn app]. now rewrite app_nil_r.
Qed.

Lemma toy_enc_frame : forall t e,
  toy_enc t e = 31 :: 139 :: N.of_nat (length (toy_body t e)) :: toy_body t e ++ toy_sum (toy_body t e) :: [0; 0; 0; 0; 0; 0; 0].
Proof. reflexivity. Qed.

Lemma toy_unzip_enc : forall t e, toy_unzip (toy_enc t e) = Some (toy_body t e).
Proof. intros. rewrite toy_enc_frame, toy_unzip_frame by reflexivity. now rewrite N.eqb_refl. Qed.

Lemma toy_dec_data : forall t e,
  match toy_dec_time (toy_body t e) with
  | Some t' => match toy_dec_body (toy_body t e) with Some e' => Some (t', e') | None => None end
  | None => None
  end = Some (t, e).
Proof.
  intros t e. destruct (toy_time_shape t) as [s [a [Ht Hdec]]]. unfold toy_body. rewrite Ht.
  cbn [app toy_dec_time toy_dec_body]. rewrite Hdec, Nat2N.id.
  rewrite <- (app_nil_r (toy_chunks e)), parse_app. reflexivity.
Qed.

Theorem toy_dec_enc : forall t e, toy_dec_full (toy_enc t e) = Some (t, e).
Proof. intros. unfold toy_dec_full, dec_full. rewrite toy_unzip_enc. apply toy_dec_data. Qed.

Lemma toy_enc_length : forall t e, length (toy_enc t e) = (3 + length (toy_body t e) + 8)%nat.
Proof. intros. rewrite toy_enc_frame. cbn [length]. rewrite app_length. cbn [length]. lia. Qed.

Theorem toy_prefix : forall t e k, (k < length (toy_enc t e))%nat -> toy_dec_full (firstn k (toy_enc t e)) = None.
Proof.
  intros t e k Hk. rewrite toy_enc_length in Hk. unfold toy_dec_full, dec_full.
  assert (Hu : toy_unzip (firstn k (toy_enc t e)) = None); [|now rewrite Hu].
  rewrite toy_enc_frame. destruct k as [|[|[|k]]]; try reflexivity.
  cbn [firstn toy_unzip]. change (31 =? 31) with true. change (139 =? 139) with true. cbn [andb negb].
  assert (Hl : N.of_nat (length (firstn k (toy_body t e ++ toy_sum (toy_body t e) :: [0; 0; 0; 0; 0; 0; 0]))) =? N.of_nat (length (toy_body t e)) + 8 = false).
  { apply N.eqb_neq. rewrite firstn_length, app_length. cbn [length]. lia. }
  now rewrite Hl.
Qed.

Lemma toy_sum_app : forall a b, toy_sum (a ++ b) = toy_sum a + toy_sum b.
Proof. induction a as [|x a IH]; intro b; cbn [app toy_sum fold_right]; [reflexivity|]. fold (toy_sum (a ++ b)). fold (toy_sum a). rewrite IH. lia. Qed.

(* one changed element is detected, or it lies in the 7 padding elements of the trailer *)
Theorem toy_single_byte_damage : forall t e pre x y post,
  toy_enc t e = pre ++ x :: post -> x <> y ->
  toy_dec_full (pre ++ y :: post) = None \/ toy_dec_full (pre ++ y :: post) = Some (t, e).
Proof.
  intros t e pre x y post He Hxy.
  assert (Hu : toy_unzip (pre ++ y :: post) = None \/ toy_unzip (pre ++ y :: post) = Some (toy_body t e)).
  2:{ unfold toy_dec_full, dec_full. destruct Hu as [-> | ->]; [left; reflexivity|right; apply toy_dec_data]. }
  rewrite toy_enc_frame in He. set (d := toy_body t e) in *.
  destruct pre as [|p0 [|p1 [|p2 pre]]]; cbn [app] in He |- *.
  - left. inversion He; subst. cbn [toy_unzip]. destruct (N.eqb_spec y 31); [congruence|reflexivity].
  - left. inversion He; subst. cbn [toy_unzip]. change (31 =? 31) with true.
    destruct (N.eqb_spec y 139); [congruence|reflexivity].
  - left. inversion He; subst. cbn [toy_unzip]. change (31 =? 31) with true. change (139 =? 139) with true. cbn [andb negb].
    assert (Hl : N.of_nat (length (d ++ toy_sum d :: [0; 0; 0; 0; 0; 0; 0])) =? y + 8 = false).
    { apply N.eqb_neq. rewrite app_length. cbn [length]. lia. }
    now rewrite Hl.
  - inversion He as [[H0 H1 H2 Hrest]]. clear He. subst p0 p1 p2.
    apply app_eq_app in Hrest. destruct Hrest as [l [[Hd Hp] | [Hp Htr]]].
    + destruct l as [|x' l].
      * (* the checksum element itself *)
        cbn [app] in Hp. rewrite app_nil_r in Hd. injection Hp as Hx Hpost. left.
        rewrite <- Hd, Hpost. rewrite toy_unzip_frame by reflexivity.
        destruct (N.eqb_spec y (toy_sum d)); [congruence|reflexivity].
      * (* inside the data *)
        cbn [app] in Hp. injection Hp as Hx Hpost. left. rewrite Hpost.
        replace (pre ++ y :: l ++ toy_sum d :: [0; 0; 0; 0; 0; 0; 0]) with ((pre ++ y :: l) ++ toy_sum d :: [0; 0; 0; 0; 0; 0; 0])
          by (rewrite <- app_assoc; reflexivity).
        replace (length d) with (length (pre ++ y :: l)) by (rewrite Hd, !app_length; reflexivity).
        rewrite toy_unzip_frame by reflexivity.
        destruct (N.eqb_spec (toy_sum d) (toy_sum (pre ++ y :: l))) as [Heq|]; [|reflexivity].
        exfalso. rewrite Hd, !toy_sum_app in Heq. cbn [toy_sum fold_right] in Heq. lia.
    + destruct l as [|s l].
      * cbn [app] in Htr. rewrite app_nil_r in Hp. injection Htr as Hx Hpost. left.
        rewrite Hp, <- Hpost. rewrite toy_unzip_frame by reflexivity.
        destruct (N.eqb_spec y (toy_sum d)); [congruence|reflexivity].
      * (* padding *)
        cbn [app] in Htr. injection Htr as Hs Hpad. right. rewrite Hp.
        rewrite <- app_assoc. cbn [app]. rewrite <- Hs.
        rewrite toy_unzip_frame.
        -- now rewrite N.eqb_refl.
        -- apply (f_equal (@length N)) in Hpad. rewrite app_length in *. cbn [length] in *. lia.
Qed.

(* ---- the codec hypotheses as one predicate ---------------------------------- *)

Definition codec_ok (E : Type) (enc : Z -> E -> bytes) (unzip : bytes -> option bytes)
           (dec_time : bytes -> option Z) (dec_body : bytes -> option E) : Prop :=
  (forall t e, dec_full E unzip dec_time dec_body (enc t e) = Some (t, e)) /\
  (forall t e k, (k < length (enc t e))%nat -> dec_full E unzip dec_time dec_body (firstn k (enc t e)) = None) /\
  crc32_detects_single_byte_damage E enc unzip dec_time dec_body.

Lemma toy_codec_ok : codec_ok toyE toy_enc toy_unzip toy_dec_time toy_dec_body.
Proof. split; [exact toy_dec_enc|]. split; [exact toy_prefix|exact toy_single_byte_damage]. Qed.
