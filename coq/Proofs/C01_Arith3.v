(* C01 — arithmetic lemmas, part 3: shifts; the operator templates as a whole *)
From Coq Require Import ZArith List String Bool Lia ZifyBool.
From Verif Require Import Model.C01_GoSem Model.C01_JsSem Model.C01_Compile Proofs.C01_Arith Proofs.C01_Arith2.
Import ListNotations.
Local Open Scope Z_scope.
Ltac Zify.zify_post_hook ::= Z.to_euclidean_division_equations.

Lemma norm_mod32 : forall k x, norm k x = norm k (x mod 2 ^ 32).
Proof. intros. destruct k; unf; lia. Qed.

Lemma norm_shl_congr : forall k a c, 0 <= c -> norm k (smod 32 (smod 32 a * 2 ^ c)) = norm k (a * 2 ^ c).
Proof.
  intros. rewrite (norm_mod32 k (smod 32 _)), smod32_mod, (norm_mod32 k (a * _)).
  f_equal. rewrite Zmult_mod, smod32_mod, <- Zmult_mod. reflexivity.
Qed.

Lemma count_id : forall c, 0 <= c < 32 -> umod 32 (smod 32 c) mod 32 = c.
Proof. intros. unf. lia. Qed.

(* Go's result of a shift with a non-negative count *)
Definition shift_res (k : kind) (op : binop) (a c : Z) : Z :=
  match op with
  | Shl => if 32 <=? c then 0 else norm k (a * 2 ^ c)
  | _ => if signed k then a / 2 ^ Z.min c 31 else if 32 <=? c then 0 else a / 2 ^ c
  end.

Lemma go_bin_shift : forall k op a c, is_shift op = true -> 0 <= c ->
  go_bin k op a c = EV (VI (shift_res k op a c)).
Proof.
  intros. destruct op; try discriminate; cbn [go_bin shift_res]; replace (c <? 0) with false by lia;
    destruct (signed k), (32 <=? c); reflexivity.
Qed.

Lemma signed_range32 : forall k a, signed k = true -> in_range k a = true -> - 2 ^ 31 <= a < 2 ^ 31.
Proof. intros k a Hs Ha. rng. rewrite Hs in Ha. destruct k; try discriminate; cbn [bits] in Ha; pows; lia. Qed.
Lemma unsigned_range32 : forall k a, signed k = false -> in_range k a = true -> 0 <= a < 2 ^ 32.
Proof. intros k a Hs Ha. rng. rewrite Hs in Ha. destruct k; try discriminate; cbn [bits] in Ha; pows; lia. Qed.

Lemma shr_in_range : forall k a c, in_range k a = true -> 0 <= c -> in_range k (a / 2 ^ c) = true.
Proof.
  intros k a c Ha Hc. assert (P : 0 < 2 ^ c) by (apply Z.pow_pos_nonneg; lia).
  rng. apply in_range_spec. remember (2 ^ c) as P' eqn:EP. clear EP.
  assert ((0 <= a -> 0 <= a / P' <= a) /\ (a < 0 -> a <= a / P' < 0)).
  { destruct (Z_lt_le_dec a 0).
    - assert (Hm : (P' - 1) * a <= 0) by (apply Z.mul_nonneg_nonpos; lia).
      assert (a <= a / P') by (apply Z.div_le_lower_bound; lia).
      assert (a / P' < 0) by (apply Z.div_lt_upper_bound; lia). lia.
    - assert (0 <= a / P') by (apply Z.div_pos; lia).
      assert (Hm : 0 <= (P' - 1) * a) by (apply Z.mul_nonneg_nonneg; lia).
      assert (a / P' <= a) by (apply Z.div_le_upper_bound; lia). lia. }
  destruct k; cbn [signed bits] in *; pows; lia.
Qed.

Lemma shift_res_in_range : forall k op a c, is_shift op = true -> in_range k a = true -> 0 <= c ->
  in_range k (shift_res k op a c) = true.
Proof.
  intros k op a c Ho Ha Hc. destruct op; try discriminate; cbn [shift_res].
  - destruct (32 <=? c). destruct k; reflexivity. apply norm_in_range.
  - destruct (signed k). apply shr_in_range; [assumption|lia].
    destruct (32 <=? c). destruct k; reflexivity. apply shr_in_range; assumption.
Qed.

(* one JavaScript shift with a count below 32 *)
Lemma shift_core : forall k op a c, is_shift op = true -> in_range k a = true -> 0 <= c < 32 ->
  exists v, js_bin (shift_op k op) (JI a) (JI c) = Some (JI v) /\ norm k v = shift_res k op a c.
Proof.
  intros k op a c Ho Ha Hc. destruct op; try discriminate; cbn [shift_op shift_res].
  - eexists. split. cbn [js_bin to_int32 to_uint32]. rewrite count_id by lia. reflexivity.
    replace (32 <=? c) with false by lia. apply norm_shl_congr. lia.
  - destruct (signed k) eqn:Hs.
    + eexists. split. cbn [js_bin to_int32 to_uint32]. rewrite count_id by lia.
      rewrite smod32_id by (apply (signed_range32 k); assumption). reflexivity.
      rewrite Z.min_l by lia. apply norm_id. apply shr_in_range; [assumption|lia].
    + eexists. split. cbn [js_bin to_int32 to_uint32]. rewrite count_id by lia.
      rewrite umod_smod32. unfold umod. rewrite Z.mod_small by (apply (unsigned_range32 k); assumption). reflexivity.
      replace (32 <=? c) with false by lia. apply norm_id. apply shr_in_range; [assumption|lia].
Qed.

(* x op c with a constant count below 32 *)
Lemma shift_const_sim : forall k op c ja s a s', is_shift op = true -> in_range k a = true -> 0 <= c < 32 ->
  jeval s ja = JOk (JI a) s' ->
  jeval s (fix_number k (JBin (shift_op k op) ja (JNum c))) = JOk (JI (shift_res k op a c)) s'.
Proof.
  intros k op c ja s a s' Ho Ha Hc H.
  destruct (shift_core k op a c Ho Ha Hc) as [v [E <-]].
  apply fix_number_eval. cbn [jeval]. rewrite H. cbn [jeval]. rewrite E. reflexivity.
Qed.

(* signed x >> c, constant c >= 32: x >> 31 *)
Lemma shr_const_big_sim : forall k c ja s a s', signed k = true -> in_range k a = true -> 32 <= c ->
  jeval s ja = JOk (JI a) s' ->
  jeval s (fix_number k (jshr ja 31)) = JOk (JI (shift_res k Shr a c)) s'.
Proof.
  intros k c ja s a s' Hs Ha Hc H. cbn [shift_res]. rewrite Hs, Z.min_r by lia.
  replace (a / 2 ^ 31) with (shift_res k Shr a 31) by (cbn [shift_res]; rewrite Hs; reflexivity).
  unfold jshr. replace JShr with (shift_op k Shr) by (cbn [shift_op]; rewrite Hs; reflexivity).
  apply shift_const_sim; try assumption; try reflexivity; lia.
Qed.

(* signed x >> y: x >> $min(y, 31) *)
Lemma shr_min_sim : forall k ja jb s a s1 b s2, signed k = true -> in_range k a = true -> 0 <= b ->
  jeval s ja = JOk (JI a) s1 -> jeval s1 jb = JOk (JI b) s2 ->
  jeval s (fix_number k (JBin JShr ja (JMin jb (JNum 31)))) = JOk (JI (shift_res k Shr a b)) s2.
Proof.
  intros k ja jb s a s1 b s2 Hs Ha Hb H1 H2. cbn [shift_res]. rewrite Hs.
  rewrite <- (norm_id k (a / 2 ^ Z.min b 31)) by (apply shr_in_range; [assumption|lia]).
  apply fix_number_eval. cbn [jeval]. rewrite H1. cbn [jeval]. rewrite H2. cbn [jeval js_bin to_int32 to_uint32].
  rewrite count_id by lia. rewrite smod32_id by (apply (signed_range32 k); assumption). reflexivity.
Qed.

(* (y < 32 ? (x op y) : 0) when y holds the count *)
Lemma shift_cond_eval : forall k op y jx s a c, is_shift op = true -> in_range k a = true -> 0 <= c ->
  get s y = Some (JI c) -> jeval s jx = JOk (JI a) s ->
  exists v, jeval s (shift_cond k op y jx) = JOk (JI v) s /\
            norm k v = match op with Shl => shift_res k Shl a c
                                   | _ => if 32 <=? c then 0 else a / 2 ^ c end.
Proof.
  intros k op y jx s a c Ho Ha Hc Hy Hx. unfold shift_cond. cbn [jeval]. rewrite Hy. cbn [jeval js_bin].
  destruct (c <? 32) eqn:E.
  - destruct (shift_core k op a c Ho Ha ltac:(lia)) as [v [Ev Hv]].
    exists v. split. rewrite Hx. cbn [jeval]. rewrite Hy. rewrite Ev. reflexivity.
    rewrite Hv. destruct op; try discriminate; cbn [shift_res]; replace (32 <=? c) with false by lia; try reflexivity.
    destruct (signed k); [rewrite Z.min_l by lia|]; reflexivity.
  - exists 0. split. reflexivity.
    destruct op; try discriminate; cbn [shift_res]; replace (32 <=? c) with true by lia; destruct k; reflexivity.
Qed.

(* ---------------------------------------------------------------- all non-shift templates *)
Lemma tmpl_bridge : forall k op t ja jb s a s1 b s2, is_shift op = false ->
  jeval s ja = JOk (JI a) s1 -> jeval s1 jb = JOk (JI b) s2 ->
  jeval s (tmpl k op t ja jb) = jeval s2 (tmpl k op t (JNum a) (JNum b)).
Proof.
  intros k op t ja jb s a s1 b s2 Ho H1 H2.
  destruct op; try discriminate; destruct k; cbn [tmpl fix_number signed]; unfold jshl, jshr, jushr;
    repeat (cbn [jeval]; rewrite ?H1, ?H2); reflexivity.
Qed.

Lemma tmpl_throw_a : forall k op t ja jb s, is_shift op = false ->
  jeval s ja = JThrow -> jeval s (tmpl k op t ja jb) = JThrow.
Proof.
  intros k op t ja jb s Ho H.
  destruct op; try discriminate; destruct k; cbn [tmpl fix_number signed]; unfold jshl, jshr, jushr;
    repeat (cbn [jeval]; rewrite ?H); reflexivity.
Qed.
Lemma tmpl_throw_b : forall k op t ja jb s va s1, is_shift op = false ->
  jeval s ja = JOk va s1 -> jeval s1 jb = JThrow -> jeval s (tmpl k op t ja jb) = JThrow.
Proof.
  intros k op t ja jb s va s1 Ho H1 H2.
  destruct op; try discriminate; destruct k; cbn [tmpl fix_number signed]; unfold jshl, jshr, jushr;
    repeat (cbn [jeval]; rewrite ?H1, ?H2); reflexivity.
Qed.

Theorem tmpl_sim : forall k op t ja jb s a s1 b s2, is_shift op = false ->
  in_range k a = true -> in_range k b = true ->
  jeval s ja = JOk (JI a) s1 -> jeval s1 jb = JOk (JI b) s2 ->
  match go_bin k op a b with
  | EV (VI r) => in_range k r = true /\
                 exists s', jeval s (tmpl k op t ja jb) = JOk (JI r) s' /\
                            (s' = s2 \/ (temp_base op <> None /\ exists d, s' = set s2 t d))
  | EV (VB _) => False
  | EPanic => jeval s (tmpl k op t ja jb) = JThrow
  | EStuck => False
  end.
Proof.
  intros k op t ja jb s a s1 b s2 Ho Ha Hb H1 H2.
  rewrite (tmpl_bridge k op t ja jb s a s1 b s2 Ho H1 H2).
  destruct op; try discriminate; cbn [go_bin].
  - split. apply norm_in_range. eexists. split. apply add_correct; assumption. auto.
  - split. apply norm_in_range. eexists. split. apply sub_correct; assumption. auto.
  - split. apply norm_in_range. eexists. split. apply mul_correct; assumption. auto.
  - destruct (b =? 0) eqn:E.
    + apply Z.eqb_eq in E. subst. apply quo_zero.
    + apply Z.eqb_neq in E. split. apply norm_in_range.
      destruct (quo_correct k t a b s2 Ha Hb E) as [d H]. eexists. split. exact H. right. split. discriminate. eexists. reflexivity.
  - destruct (b =? 0) eqn:E.
    + apply Z.eqb_eq in E. subst. apply rem_zero.
    + apply Z.eqb_neq in E. split. apply rem_in_range; assumption.
      destruct (rem_correct k t a b s2 Ha Hb E) as [d H]. eexists. split. exact H. right. split. discriminate. eexists. reflexivity.
  - split. apply land_in_range; assumption. eexists. split. apply and_correct; assumption. auto.
  - split. apply lor_in_range; assumption. eexists. split. apply or_correct; assumption. auto.
  - split. apply norm_in_range. eexists. split. apply xor_correct; assumption. auto.
  - split. apply norm_in_range. eexists. split. apply andnot_correct; assumption. auto.
Qed.
