(* C12 — the imports law: what Model.C12_Merge.prune_imports (build.pruneImports) does to the
   imports of a file, for arbitrary files. *)
From Coq Require Import List String Ascii Bool NArith ZArith Arith Lia.
From Verif Require Import Gen.C12_Tables Model.C12_Merge Model.C12_Law Proofs.C12_Merge.
Import ListNotations.
Local Open Scope string_scope.

Arguments String.eqb : simpl never.

Lemma directive_regex_tied : directive_regex = "^\/(?:\/|\*)gopherjs:([\w-]+)".
Proof. reflexivity. Qed.

Lemma keep_prefix_tied : keep_prefix = "_gopherjs_original_".
Proof. reflexivity. Qed.

Lemma imports_law_import_only f :
  (is_only_imports f && negb (has_directive_prefix f linkname_prefix)) = true -> prune_imports f = [].
Proof. intros H. unfold prune_imports. rewrite H. reflexivity. Qed.

(* ---- the [unused] map is the list of named imports with their positions *)

Definition nonempty (n : string) : bool := negb (String.eqb n "").

Fixpoint named (idx : nat) (is : list ispec) : list (string * nat) :=
  match is with
  | [] => []
  | i :: r => ((if String.eqb (import_name i) "" then [] else [(import_name i, idx)]) ++ named (S idx) r)%list
  end.

Lemma lookup_not_in {A} n (m : list (string * A)) : ~ In n (map fst m) -> lookup n m = None.
Proof.
  induction m as [|[k v] m IH]; simpl; intros H; auto.
  destruct (String.eqb n k) eqn:E.
  - apply String.eqb_eq in E. subst. exfalso. apply H. left. reflexivity.
  - apply IH. intros X. apply H. right. exact X.
Qed.

Lemma set_fresh {A} n (v : A) m : lookup n m = None -> set n v m = (m ++ [(n, v)])%list.
Proof.
  induction m as [|[k w] m IH]; simpl; intros H; auto.
  destruct (String.eqb n k); [discriminate|]. rewrite IH; auto.
Qed.

Lemma unused_map_named is : forall idx m,
  NoDup (map fst m ++ filter nonempty (map import_name is))%list ->
  unused_map idx is m = (m ++ named idx is)%list.
Proof.
  induction is as [|i r IH]; intros idx m H; simpl.
  - rewrite app_nil_r. reflexivity.
  - simpl in H. unfold nonempty at 1 in H.
    destruct (String.eqb (import_name i) "") eqn:E; simpl in H.
    + simpl. apply IH. exact H.
    + assert (F : ~ In (import_name i) (map fst m)).
      { intros X. apply NoDup_remove_2 in H. apply H. apply in_or_app. left. exact X. }
      rewrite (set_fresh _ _ _ (lookup_not_in _ _ F)).
      rewrite IH.
      * rewrite <- app_assoc. reflexivity.
      * rewrite map_app. simpl. rewrite <- app_assoc. simpl. exact H.
Qed.

Lemma index_in_app j (a b : list (string * nat)) : index_in j (a ++ b)%list = index_in j a || index_in j b.
Proof. unfold index_in. apply existsb_app. Qed.

Lemma index_in_below (P : string * nat -> bool) is : forall k j,
  j < k -> index_in j (filter P (named k is)) = false.
Proof.
  induction is as [|i r IH]; intros k j L; simpl; auto.
  rewrite filter_app, index_in_app. rewrite (IH (S k) j) by lia. rewrite orb_false_r.
  destruct (String.eqb (import_name i) ""); simpl; auto.
  destruct (P (import_name i, k)); simpl; auto.
  rewrite orb_false_r. apply Nat.eqb_neq. lia.
Qed.

Lemma index_in_at (P : string * nat -> bool) is : forall k j i,
  nth_error is j = Some i ->
  index_in (k + j) (filter P (named k is)) = nonempty (import_name i) && P (import_name i, k + j).
Proof.
  induction is as [|i0 r IH]; intros k j i H; [destruct j; discriminate|].
  simpl. rewrite filter_app, index_in_app.
  destruct j as [|j']; simpl in H.
  - injection H as H. subst i0. rewrite Nat.add_0_r.
    rewrite (index_in_below P r (S k) k) by lia. rewrite orb_false_r.
    unfold nonempty. destruct (String.eqb (import_name i) ""); simpl; auto.
    destruct (P (import_name i, k)); simpl; auto. rewrite Nat.eqb_refl. reflexivity.
  - replace (k + S j') with (S k + j') by lia. rewrite (IH (S k) j' i H).
    assert (X : index_in (S k + j') (filter P (if String.eqb (import_name i0) "" then [] else [(import_name i0, k)])) = false).
    { destruct (String.eqb (import_name i0) ""); [reflexivity|].
      cbn [filter]. destruct (P (import_name i0, k)); [|reflexivity].
      unfold index_in. cbn [existsb]. rewrite orb_false_r. apply Nat.eqb_neq. lia. }
    rewrite X. reflexivity.
Qed.

(* ---- applying index-free decisions *)

Definition decf (a : iaction) (i : ispec) : list ispec :=
  match a with IKeep => [i] | IBlank => [blank_import i] | IDrop => [] end.

Lemma apply_specs_imports (dec : ispec -> iaction) act ss : forall idx,
  (forall j i, nth_error (flat_map spec_imports ss) j = Some i -> act (idx + j) = dec i) ->
  flat_map spec_imports (fst (fst (apply_specs act idx ss))) =
    flat_map (fun i => decf (dec i) i) (flat_map spec_imports ss) /\
  snd (apply_specs act idx ss) = idx + List.length (flat_map spec_imports ss).
Proof.
  induction ss as [|s r IH]; intros idx H; simpl.
  - split; [reflexivity|lia].
  - destruct s as [i|t|v]; simpl in *.
    + assert (H0 : act idx = dec i). { specialize (H 0 i eq_refl). rewrite Nat.add_0_r in H. exact H. }
      assert (H1 : forall j i', nth_error (flat_map spec_imports r) j = Some i' -> act (S idx + j) = dec i').
      { intros j i' X. specialize (H (S j) i' X). replace (S idx + j) with (idx + S j) by lia. exact H. }
      specialize (IH (S idx) H1). destruct (apply_specs act (S idx) r) as [[r' ch] n]. simpl in *.
      destruct IH as [I1 I2]. rewrite H0.
      destruct (dec i); simpl; (split; [rewrite I1; reflexivity|lia]).
    + specialize (IH idx H). destruct (apply_specs act idx r) as [[r' ch] n]. simpl in *. exact IH.
    + specialize (IH idx H). destruct (apply_specs act idx r) as [[r' ch] n]. simpl in *. exact IH.
Qed.

Lemma apply_imports_imports (dec : ispec -> iaction) act f : forall idx,
  (forall j i, nth_error (file_imports f) j = Some i -> act (idx + j) = dec i) ->
  file_imports (apply_imports act idx f) = flat_map (fun i => decf (dec i) i) (file_imports f).
Proof.
  unfold file_imports. induction f as [|d r IH]; intros idx H; simpl; auto.
  destruct d as [fd|g]; simpl in *.
  - apply IH. exact H.
  - assert (Ha : forall j i, nth_error (flat_map spec_imports (g_specs g)) j = Some i -> act (idx + j) = dec i).
    { intros j i X. apply H. rewrite nth_error_app1; auto. apply nth_error_Some. congruence. }
    pose proof (apply_specs_imports dec act (g_specs g) idx Ha) as [A1 A2].
    destruct (apply_specs act idx (g_specs g)) as [[ss ch] n]. simpl in *.
    assert (Hb : forall j i, nth_error (flat_map decl_imports r) j = Some i -> act (n + j) = dec i).
    { intros j i X. subst n. rewrite <- Nat.add_assoc. apply H.
      rewrite nth_error_app2 by lia. replace (_ + j - _) with j by lia. exact X. }
    specialize (IH n Hb). rewrite flat_map_app. rewrite <- A1, <- IH.
    destruct (ch && match ss with [] => true | _ :: _ => false end) eqn:E.
    + destruct ss; [reflexivity|rewrite andb_false_r in E; discriminate].
    + reflexivity.
Qed.

(* ---- the law *)

Definition dec_of (f : file) (i : ispec) : iaction :=
  if nonempty (import_name i) && negb (mem (import_name i) (file_uses f))
  then (if directive_required f i then IBlank else IDrop) else IKeep.

Lemma decf_law f i : decf (dec_of f i) i = law_import f i.
Proof.
  unfold dec_of, law_import, nonempty.
  destruct (String.eqb (import_name i) ""); simpl; auto.
  destruct (mem (import_name i) (file_uses f)); simpl; auto.
  destruct (directive_required f i); reflexivity.
Qed.

Theorem imports_law : forall f,
  (is_only_imports f && negb (has_directive_prefix f linkname_prefix)) = false ->
  NoDup (filter (fun n => negb (String.eqb n "")) (map import_name (file_imports f))) ->
  file_imports (prune_imports f) = flat_map (law_import f) (file_imports f) /\
  declared (prune_imports f) = declared f.
Proof.
  intros f E ND. unfold prune_imports. cbv zeta. rewrite E.
  rewrite (unused_map_named (file_imports f) 0 [] ND). simpl app.
  match goal with |- context [filter ?p (named 0 (file_imports f))] => set (P := p) end.
  assert (Hact : forall j i, nth_error (file_imports f) j = Some i ->
            index_in j (filter P (named 0 (file_imports f))) =
            nonempty (import_name i) && negb (mem (import_name i) (file_uses f))).
  { intros j i X. apply (index_in_at P (file_imports f) 0 j i X). }
  destruct (filter P (named 0 (file_imports f))) as [|u us] eqn:U.
  - split; [|reflexivity]. symmetry. apply flat_map_single. intros i Hin.
    apply In_nth_error in Hin. destruct Hin as [j Hj]. specialize (Hact j i Hj). simpl in Hact.
    rewrite <- decf_law. unfold dec_of. rewrite <- Hact. reflexivity.
  - split; [|apply apply_imports_declared].
    rewrite (apply_imports_imports (dec_of f)).
    + apply flat_map_ext. intros i. apply decf_law.
    + intros j i X. cbv beta. change (0 + j) with j. rewrite X. rewrite (Hact j i X). unfold dec_of.
      destruct (nonempty (import_name i) && negb (mem (import_name i) (file_uses f))); reflexivity.
Qed.
