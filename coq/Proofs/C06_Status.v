(* C06 — full statements per defect class, their proofs for a repaired variant, and what holds
   for the variant probed in this run ([current]). *)
From Coq Require Import ZArith Bool List.
From Verif Require Import Base.C06_JsNum Model.C06_Prelude64 Model.C06_Spec Gen.C06_Tables Model.C06_Templates
  Proofs.C06_Arith Proofs.C06_Fix Proofs.C06_AddMul32 Proofs.C06_Div32 Proofs.C06_Bits32.
Local Open Scope Z_scope.

Definition quo_full_statement (V : variant) : Prop :=
  forall k x y, is64 k = false -> in_range k x -> in_range k y ->
  bin32 V k Quo (Fin x) (Fin y) = embed (go_bin k Quo x y).
Definition rem_full_statement (V : variant) : Prop :=
  forall k x y, is64 k = false -> in_range k x -> in_range k y ->
  bin32 V k Rem (Fin x) (Fin y) = embed (go_bin k Rem x y).
Definition neg_full_statement (V : variant) : Prop :=
  forall k x, is64 k = false -> in_range k x -> un32 V k Neg (Fin x) = Ret (Fin (go_un k Neg x)).

Lemma quo_repaired_full : forall V, v_quo V = true -> quo_full_statement V.
Proof. intros V E k x y H Rx Ry; apply quo32_correct; try assumption; left; exact E. Qed.
Lemma rem_repaired_full : forall V, v_rem V = true -> rem_full_statement V.
Proof. intros V E k x y H Rx Ry; apply rem32_correct; try assumption; left; exact E. Qed.
Lemma neg_repaired_full : forall V, v_neg V = true -> neg_full_statement V.
Proof. intros V E k x H R; apply neg32_correct; try assumption; left; exact E. Qed.

Lemma bitwise_results_in_range : forall k x y, in_range k x -> in_range k y ->
  in_range k (Z.land x y) /\ in_range k (Z.lor x y) /\ in_range k (Z.lxor x y).
Proof. intros k x y Hx Hy; exact (conj (land_in_range k x y Hx Hy) (conj (lor_in_range k x y Hx Hy) (lxor_in_range k x y Hx Hy))). Qed.

(* if the defect is repaired in the tree under test the full statement holds, otherwise the witness *)
Definition status (fixed : bool) (full refuted : Prop) : Prop := if fixed then full else refuted.

Lemma current_quo : status (v_quo current) (quo_full_statement current)
  (bin32 current Int8 Quo (Fin (-128)) (Fin (-1)) = Ret (Fin 128)).
Proof.
  unfold status. destruct (v_quo current) eqn:E.
  - exact (quo_repaired_full current E).
  - exact (proj1 (quo_int8_refuted current E)).
Qed.
Lemma current_rem : status (v_rem current) (rem_full_statement current)
  (bin32 current Int32 Rem (Fin (-4)) (Fin 2) = Ret NZ).
Proof.
  unfold status. destruct (v_rem current) eqn:E.
  - exact (rem_repaired_full current E).
  - exact (proj1 (rem_refuted current E)).
Qed.
Lemma current_neg : status (v_neg current) (neg_full_statement current)
  (un32 current Int32 Neg (Fin (-2147483648)) = Ret (Fin 2147483648)).
Proof.
  unfold status. destruct (v_neg current) eqn:E.
  - exact (neg_repaired_full current E).
  - exact (proj1 (neg_minint_refuted current E)).
Qed.
