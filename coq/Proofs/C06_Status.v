(* C06 — full statements per defect class, their proofs for a repaired variant, and what holds
   for the variant probed in this run ([current]). *)
From Coq Require Import ZArith Bool List.
From Verif Require Import Base.C06_JsNum Model.C06_Prelude64 Model.C06_Spec Gen.C06_Tables Model.C06_Templates
  Proofs.C06_Arith Proofs.C06_Fix Proofs.C06_AddMul32 Proofs.C06_Div32 Proofs.C06_Bits32.
Local Open Scope Z_scope.

Definition quo_full_statement (V : variant) : Prop :=
  forall k x y, is64 k = false -> in_range k x -> in_range k y ->
  bin32 V k Quo (Fin x) (Fin y) = embed (go_bin k Quo x y).
Definition rem_full_statement (V : variant) : Prop :=
  forall k x y, is64 k = false -> in_range k x -> in_range k y ->
  bin32 V k Rem (Fin x) (Fin y) = embed (go_bin k Rem x y).
Definition neg_full_statement (V : variant) : Prop :=
  forall k x, is64 k = false -> in_range k x -> un32 V k Neg (Fin x) = Ret (Fin (go_un k Neg x)).

Lemma quo_repaired_full : forall V, v_quo V = true -> quo_full_statement V.
Proof. intros V E k x y H Rx Ry; apply quo32_correct; try assumption; left; exact E. Qed.
Lemma rem_repaired_full : forall V, v_rem V = true -> rem_full_statement V.
Proof. intros V E k x y H Rx Ry; apply rem32_correct; try assumption; left; exact E. Qed.
Lemma neg_repaired_full : forall V, v_neg V = true -> neg_full_statement V.
Proof. intros V E k x H R; apply neg32_correct; try assumption; left; exact E. Qed.

Lemma bitwise_results_in_range : forall k x y, in_range k x -> in_range k y ->
  in_range k (Z.land x y) /\ in_range k (Z.lor x y) /\ in_range k (Z.lxor x y).
Proof. intros k x y Hx Hy; exact (conj (land_in_range k x y Hx Hy) (conj (lor_in_range k x y Hx Hy) (lxor_in_range k x y Hx Hy))). Qed.

(* if the defect is repaired in the tree under test the full statement holds, otherwise the witness *)
Definition status (fixed : bool) (full refuted : Prop) : Prop := if fixed then full else refuted.

Lemma current_quo : status (v_quo current) (quo_full_statement current)
  (bin32 current Int8 Quo (Fin (-128)) (Fin (-1)) = Ret (Fin 128)).
Proof.
  unfold status. destruct (v_quo current) eqn:E.
  - exact (quo_repaired_full current E).
  - exact (proj1 (quo_int8_refuted current E)).
Qed.
Lemma current_rem : status (v_rem current) (rem_full_statement current)
  (bin32 current Int32 Rem (Fin (-4)) (Fin 2) = Ret NZ).
Proof.
  unfold status. destruct (v_rem current) eqn:E.
  - exact (rem_repaired_full current E).
  - exact (proj1 (rem_refuted current E)).
Qed.
Lemma current_neg : status (v_neg current) (neg_full_statement current)
  (un32 current Int32 Neg (Fin (-2147483648)) = Ret (Fin 2147483648)).
Proof.
  unfold status. destruct (v_neg current) eqn:E.
  - exact (neg_repaired_full current E).
  - exact (proj1 (neg_minint_refuted current E)).
Qed.

(* ---- full-strength statements for the code under test (all repairs present) -------------------------- *)
From Verif Require Import Proofs.C06_Shift32.

Lemma quo_current_full : quo_full_statement current.
Proof. apply quo_repaired_full. reflexivity. Qed.
Lemma rem_current_full : rem_full_statement current.
Proof. apply rem_repaired_full. reflexivity. Qed.
Lemma neg_current_full : neg_full_statement current.
Proof. apply neg_repaired_full. reflexivity. Qed.

Definition shc_full_statement (V : variant) : Prop :=
  forall k s c x, is64 k = false -> in_range k x -> 0 <= c -> shc32 V k s c (Fin x) = Ret (Fin (go_shift k s x c)).
Lemma shc_repaired_full : forall V, v_shrc V = true -> shc_full_statement V.
Proof. intros V E k s c x H R Hc. apply shc32_correct; try assumption. right; right; right; left; exact E. Qed.
Lemma shc_current_full : shc_full_statement current.
Proof. apply shc_repaired_full. reflexivity. Qed.

(* every binary operator of every kind of at most 32 bits, all in-range operands *)
Lemma bin32_current_correct : forall k o x y, is64 k = false -> in_range k x -> in_range k y ->
  bin32 current k o (Fin x) (Fin y) = embed (go_bin k o x y).
Proof.
  intros k o x y H Rx Ry. destruct o.
  - apply add32_correct; assumption.
  - apply sub32_correct; assumption.
  - apply mul32_correct; assumption.
  - apply quo_current_full; assumption.
  - apply rem_current_full; assumption.
  - apply and32_correct; assumption.
  - apply or32_correct; assumption.
  - apply xor32_correct; assumption.
  - apply andnot32_correct; assumption.
Qed.

Lemma un32_current_correct : forall k u x, is64 k = false -> in_range k x ->
  un32 current k u (Fin x) = Ret (Fin (go_un k u x)).
Proof.
  intros k u x H R. destruct u.
  - apply neg_current_full; assumption.
  - apply not32_correct; assumption.
Qed.

(* results stay in range, so the in-range hypothesis on operands is an invariant of expression evaluation *)
Lemma go_bin_in_range : forall k o x y v, in_range k x -> in_range k y -> go_bin k o x y = GVal v -> in_range k v.
Proof.
  intros k o x y v Rx Ry E. destruct o; cbn [go_bin] in E;
    try (injection E as <-; apply in_range_wrap).
  - destruct (Z.eqb_spec y 0); [discriminate E | injection E as <-; apply in_range_wrap].
  - destruct (Z.eqb_spec y 0); [discriminate E | injection E as <-; apply rem_in_range; assumption].
  - injection E as <-. apply land_in_range; assumption.
  - injection E as <-. apply lor_in_range; assumption.
Qed.
Lemma go_un_in_range : forall k u x, in_range k (go_un k u x).
Proof. intros k u x; destruct u; apply in_range_wrap. Qed.
Lemma go_shift_in_range : forall k s x n, in_range k x -> 0 <= n -> in_range k (go_shift k s x n).
Proof. intros k s x n R Hn; destruct s; cbn [go_shift]; [apply in_range_wrap | apply shiftr_in_range; assumption]. Qed.

(* ---- 64-bit kinds: every binary operator except / and % ------------------------------------------------- *)
From Verif Require Import Proofs.C06_Ops64 Proofs.C06_Mul64 Proofs.C06_Bits64.

Lemma bin64_correct_partial : forall V k o x y, is64 k = true -> in_range k x -> in_range k y ->
  o <> Quo -> o <> Rem ->
  bin64 V k o (enc64 k x) (enc64 k y) =
  match go_bin k o x y with GVal v => Ret (enc64 k v) | GPanicDivide => Throw DivideByZero end.
Proof.
  intros V k o x y H Rx Ry NQ NR. destruct o; cbn [go_bin].
  - apply add64_correct; assumption.
  - apply sub64_correct; assumption.
  - apply mul64_bin_correct; assumption.
  - exfalso; apply NQ; reflexivity.
  - exfalso; apply NR; reflexivity.
  - apply and64_correct; assumption.
  - apply or64_correct; assumption.
  - apply xor64_correct; assumption.
  - apply andnot64_correct; assumption.
Qed.
