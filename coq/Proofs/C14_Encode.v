(* C14 — the encoder equals the specification; decoding and encoding are mutually inverse. *)
From Coq Require Import List NArith ZArith Bool Arith Lia ZifyN ZifyNat ZifyBool.
From Verif Require Import Model.C14_Utf8 Base.C14_Bits.
Import ListNotations.
Local Open Scope N_scope.
Ltac Zify.zify_post_hook ::= Z.div_mod_to_equations.

Lemma lead2 r : r <= 0x7FF -> N.lor 0xC0 (N.shiftr r 6) = 0xC0 + r / 64.
Proof. intros. rewrite shr. change 0xC0 with (3 * 2 ^ 6). apply lor_add. change (2 ^ 6) with 64. lia. Qed.
Lemma lead3 r : r <= 0xFFFF -> N.lor 0xE0 (N.shiftr r 12) = 0xE0 + r / 4096.
Proof. intros. rewrite shr. change 0xE0 with (7 * 2 ^ 5). apply lor_add. change (2 ^ 12) with 4096. change (2 ^ 5) with 32. lia. Qed.
Lemma lead4 r : r <= 0x10FFFF -> N.lor 0xF0 (N.shiftr r 18) = 0xF0 + r / 262144.
Proof. intros. rewrite shr. change 0xF0 with (15 * 2 ^ 4). apply lor_add. change (2 ^ 18) with 262144. change (2 ^ 4) with 16. lia. Qed.
Lemma cont_byte x : N.lor 0x80 (N.land x 0x3F) = 0x80 + x mod 64.
Proof. change 0x3F with (N.ones 6). rewrite land_mask. change 0x80 with (2 * 2 ^ 6). apply lor_add. apply N.mod_lt. discriminate. Qed.

Lemma encode_eq_spec r : encode_rune r = spec_string_of_rune r.
Proof.
  unfold encode_rune, spec_string_of_rune, valid_scalar, spec_encode.
  destruct ((r <? 0) || (1114111 <? r) || (55296 <=? r) && (r <=? 57343))%Z eqn:E.
  - replace ((0 <=? r) && (r <=? 1114111) && negb ((55296 <=? r) && (r <=? 57343)))%Z with false by lia.
    vm_compute. reflexivity.
  - replace ((0 <=? r) && (r <=? 1114111) && negb ((55296 <=? r) && (r <=? 57343)))%Z with true by lia.
    assert (Z.to_N r <= 0x10FFFF) by lia.
    destruct (Z.to_N r <=? 127) eqn:E1; [reflexivity|].
    destruct (Z.to_N r <=? 2047) eqn:E2.
    { rewrite lead2, cont_byte by lia. reflexivity. }
    destruct (Z.to_N r <=? 65535) eqn:E3.
    { rewrite lead3, !cont_byte, !shr by lia. reflexivity. }
    rewrite lead4, !cont_byte, !shr by lia. reflexivity.
Qed.

(* decoding what the encoder wrote *)
Lemma spec_decode_encode n rest :
  n <= 0x10FFFF -> ~ (0xD800 <= n <= 0xDFFF) ->
  spec_decode (spec_encode n ++ rest) = (n, length (spec_encode n)).
Proof.
  intros Hn Hs. unfold spec_encode.
  destruct (n <=? 127) eqn:E1; [|destruct (n <=? 2047) eqn:E2; [|destruct (n <=? 65535) eqn:E3]];
  cbn [app length]; unfold spec_decode, second_ok, tail, between.
  - rewrite E1. reflexivity.
  - split_ifs; try (exfalso; lia); f_equal; lia.
  - split_ifs; try (exfalso; lia); f_equal; lia.
  - split_ifs; try (exfalso; lia); f_equal; lia.
Qed.

Definition decode_facts (t : list N) (r : N) (w : nat) : Prop :=
  (1 <= w <= 4)%nat /\ (w <= length t)%nat /\ r <= 0x10FFFF /\ ~ (0xD800 <= r <= 0xDFFF) /\
  ((r, w) = ERR \/ spec_encode r = firstn w t).

Ltac fin :=
  match goal with
  | H : (_, _) = (_, _) |- _ => injection H as <- <-
  end;
  unfold decode_facts, ERR; cbn [length firstn];
  repeat split; try lia;
  try (left; reflexivity);
  try (right; unfold spec_encode; split_ifs; try (exfalso; lia); repeat f_equal; lia).

Lemma spec_decode_facts t r w : t <> [] -> spec_decode t = (r, w) -> decode_facts t r w.
Proof.
  intros Hne H. unfold spec_decode, second_ok, tail, between, ERR in H.
  destruct t as [|c0 [|c1 [|c2 [|c3 t]]]]; [congruence| | | |].
  - split_ifs; fin.
  - split_ifs; fin.
  - split_ifs; fin.
  - split_ifs; fin.
Qed.
